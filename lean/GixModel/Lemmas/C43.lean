import GixModel.Model.C43
import GixModel.Basic.ExceptDec
/-
C43 — helper lemmas, part 1: statistics, binary test, eol decisions, attribute digest.
The correspondence between the Rust-side types and the git-side types is given by the `toGit`
functions below (they are the reading of one vocabulary in terms of the other and appear in the
statements of Props/C43).
-/
set_option linter.unusedSimpArgs false
namespace GixModel.C43
open GixModel GixModel.C43Scan
open GixModel.Spec.C43 (TextStat CrlfAction Eol GitConfig countByte gatherLoop gatherStats convertIsBinary
  textEolIsCrlf outputEol)

theorem toNat_beq (b : UInt8) (n : Nat) (h : n < 256) : (b.toNat == n) = (b == UInt8.ofNat n) := by
  rw [Bool.eq_iff_iff]
  simp only [beq_iff_eq]
  constructor
  · intro hb; apply UInt8.toNat_inj.mp; rw [hb]; simp; omega
  · intro hb; subst hb; simp; omega

/-! ### vocabulary -/

def Stats.toGit (s : Stats) : TextStat :=
  { nul := s.null, lonecr := s.loneCr, lonelf := s.loneLf, crlf := s.crlf,
    printable := s.printable, nonprintable := s.nonPrintable }

def Digest.toAction : Digest → CrlfAction
  | .binary => .binary
  | .text => .text
  | .textInput => .textInput
  | .textCrlf => .textCrlf
  | .textAuto => .auto
  | .textAutoCrlf => .autoCrlf
  | .textAutoInput => .autoInput

def AutoCrlf.toGit : AutoCrlf → Spec.C43.AutoCrlf
  | .input => .input
  | .enabled => .true_
  | .disabled => .false_

def Mode.toGitEol : Mode → Eol
  | .lf => .lf
  | .crlf => .crlf

def optModeToGit : Option Mode → Eol
  | none => .unset
  | some m => m.toGitEol

def Config.toGit (c : Config) : GitConfig :=
  { autoCrlf := c.autoCrlf.toGit, coreEol := optModeToGit c.eol, nativeCrlf := c.native == .crlf }

/-! ### the extracted byte classification against `gather_stats` -/

/-- (printable, nonprintable, nul) increments of git's `gather_stats` loop body for byte `b` -/
def gitIncr (b : Nat) : Nat × Nat × Nat :=
  let st := countByte (UInt8.ofNat b) {}
  (st.printable, st.nonprintable, st.nul)

/-- What the proofs need of the table extracted from `Stats::from_bytes`: CR and LF are 13 and 10,
every byte is classified like git classifies it, except that a `^Z` in last position counts for
nothing (git: counted in the loop, discounted after it). Decidable; evaluated against today's
source in `Props.C43.extracted_table_ok`. -/
def tableOk (t : StatsTable) : Bool :=
  t.cr == 13 && t.lf == 10 &&
  (List.range 256).all fun b =>
    t.classify b false == gitIncr b &&
    t.classify b true == (if b == 26 then (0, 0, 0) else gitIncr b)

def addIncr (st : TextStat) (a : Nat × Nat × Nat) : TextStat :=
  { st with printable := st.printable + a.1, nonprintable := st.nonprintable + a.2.1, nul := st.nul + a.2.2 }

theorem countByte_eq (c : UInt8) (st : TextStat) : countByte c st = addIncr st (gitIncr c.toNat) := by
  have hc : UInt8.ofNat c.toNat = c := by simp
  simp only [gitIncr, hc]
  unfold countByte
  split
  · simp [addIncr]
  · split
    · split
      · simp [addIncr]
      · split <;> simp [addIncr]
    · simp [addIncr]

theorem bump_toGit (s : Stats) (a : Nat × Nat × Nat) : (s.bump a).toGit = addIncr s.toGit a := by
  simp [Stats.bump, Stats.toGit, addIncr]

theorem tableOk_cr {t : StatsTable} (hok : tableOk t = true) : t.cr = 13 := by
  simp only [tableOk, Bool.and_eq_true, beq_iff_eq] at hok
  exact hok.1.1

theorem tableOk_lf {t : StatsTable} (hok : tableOk t = true) : t.lf = 10 := by
  simp only [tableOk, Bool.and_eq_true, beq_iff_eq] at hok
  exact hok.1.2

theorem tableOk_classify {t : StatsTable} (hok : tableOk t = true) (b : UInt8) :
    t.classify b.toNat false = gitIncr b.toNat ∧
    t.classify b.toNat true = (if b.toNat = 26 then (0, 0, 0) else gitIncr b.toNat) := by
  simp only [tableOk, Bool.and_eq_true, List.all_eq_true, List.mem_range] at hok
  have h := hok.2 b.toNat (by have := b.toNat_lt; omega)
  constructor
  · exact eq_of_beq h.1
  · have h2 := eq_of_beq h.2
    rw [h2]
    by_cases h26 : b.toNat = 26 <;> simp [h26]


def decNp (st : TextStat) : TextStat := { st with nonprintable := st.nonprintable - 1 }

theorem gitIncr_26 : gitIncr 26 = (0, 1, 0) := by decide

theorem toNat_beq13 (b : UInt8) : (b.toNat == 13) = (b == 13) := toNat_beq b 13 (by omega)
theorem toNat_beq10 (b : UInt8) : (b.toNat == 10) = (b == 10) := toNat_beq b 10 (by omega)

section
variable {t : StatsTable} (hok : tableOk t = true)
include hok

theorem statsGo_cr_lf (r : Bytes) (s : Stats) :
    statsGo t (13 :: 10 :: r) s = statsGo t r { s with crlf := s.crlf + 1 } := by
  simp [statsGo, tableOk_cr hok, tableOk_lf hok]

theorem statsGo_cr_other (c : UInt8) (r : Bytes) (s : Stats) (h : c ≠ 10) :
    statsGo t (13 :: c :: r) s = statsGo t (c :: r) { s with loneCr := s.loneCr + 1 } := by
  simp [statsGo, tableOk_cr hok, tableOk_lf hok, toNat_beq10, h]

theorem statsGo_cr_nil (s : Stats) : statsGo t [13] s = { s with loneCr := s.loneCr + 1 } := by
  simp [statsGo, tableOk_cr hok]

theorem statsGo_lf (r : Bytes) (s : Stats) :
    statsGo t (10 :: r) s = statsGo t r { s with loneLf := s.loneLf + 1 } := by
  cases r <;> simp [statsGo, tableOk_cr hok, tableOk_lf hok]

theorem statsGo_other (b : UInt8) (r : Bytes) (s : Stats) (h13 : b ≠ 13) (h10 : b ≠ 10) :
    statsGo t (b :: r) s = statsGo t r (s.bump (t.classify b.toNat r.isEmpty)) := by
  cases r <;> simp [statsGo, tableOk_cr hok, tableOk_lf hok, toNat_beq10, toNat_beq13, h13, h10]
end

theorem gatherLoop_cr_lf (r : Bytes) (st : TextStat) :
    gatherLoop (13 :: 10 :: r) st = gatherLoop r { st with crlf := st.crlf + 1 } := by
  simp [gatherLoop]

theorem gatherLoop_cr_other (c : UInt8) (r : Bytes) (st : TextStat) (h : c ≠ 10) :
    gatherLoop (13 :: c :: r) st = gatherLoop (c :: r) { st with lonecr := st.lonecr + 1 } := by
  simp [gatherLoop, h]

theorem gatherLoop_cr_nil (st : TextStat) : gatherLoop [13] st = { st with lonecr := st.lonecr + 1 } := by
  simp [gatherLoop]

theorem gatherLoop_lf (r : Bytes) (st : TextStat) :
    gatherLoop (10 :: r) st = gatherLoop r { st with lonelf := st.lonelf + 1 } := by
  cases r <;> simp [gatherLoop]

theorem gatherLoop_other (b : UInt8) (r : Bytes) (st : TextStat) (h13 : b ≠ 13) (h10 : b ≠ 10) :
    gatherLoop (b :: r) st = gatherLoop r (countByte b st) := by
  cases r <;> simp [gatherLoop, h13, h10]

theorem statsGo_toGit_aux {t : StatsTable} (hok : tableOk t = true) : ∀ (n : Nat) (bs : Bytes) (s : Stats),
    bs.length ≤ n →
    (statsGo t bs s).toGit =
      if bs.getLast? = some 26 then decNp (gatherLoop bs s.toGit) else gatherLoop bs s.toGit := by
  intro n
  induction n with
  | zero =>
    intro bs s h
    have : bs = [] := List.eq_nil_of_length_eq_zero (by omega)
    subst this
    simp [statsGo, gatherLoop]
  | succ n ih =>
    intro bs s h
    match bs, h with
    | [], _ => simp [statsGo, gatherLoop]
    | b :: rest, h =>
      have hlen : rest.length ≤ n := by simp at h; omega
      by_cases h13 : b = 13
      · subst h13
        match rest, hlen with
        | [], _ =>
          rw [statsGo_cr_nil hok, gatherLoop_cr_nil]; simp [Stats.toGit]
        | c :: rest', hlen =>
          by_cases h10 : c = 10
          · subst h10
            have hl2 : rest'.length ≤ n := by simp at hlen; omega
            rw [statsGo_cr_lf hok, gatherLoop_cr_lf, ih rest' _ hl2]
            match rest' with
            | [] => simp [gatherLoop, Stats.toGit]
            | d :: r2 => simp [List.getLast?_cons_cons, Stats.toGit]
          · rw [statsGo_cr_other hok _ _ _ h10, gatherLoop_cr_other _ _ _ h10, ih (c :: rest') _ hlen]
            simp [List.getLast?_cons_cons, Stats.toGit]
      · by_cases h10 : b = 10
        · subst h10
          rw [statsGo_lf hok, gatherLoop_lf, ih rest _ hlen]
          match rest with
          | [] => simp [gatherLoop, Stats.toGit]
          | d :: r2 => simp [List.getLast?_cons_cons, Stats.toGit]
        · have hcl := tableOk_classify hok b
          rw [statsGo_other hok _ _ _ h13 h10, gatherLoop_other _ _ _ h13 h10, ih rest _ hlen, bump_toGit,
            countByte_eq]
          match rest with
          | [] =>
            simp only [List.isEmpty_nil, hcl.2, gatherLoop, List.getLast?_nil, List.getLast?_singleton,
              Option.some.injEq, reduceCtorEq, if_false]
            by_cases h26 : b = 26
            · subst h26
              simp [gitIncr_26, addIncr, decNp]
            · have : b.toNat ≠ 26 := by
                intro hh; apply h26; apply UInt8.toNat_inj.mp; simpa using hh
              simp [h26, this]
          | d :: r2 =>
            simp [List.getLast?_cons_cons, hcl.1]



theorem fromBytesWith_toGit {t : StatsTable} (hok : tableOk t = true) (bs : Bytes) :
    (Stats.fromBytesWith t bs).toGit = gatherStats bs := by
  have := statsGo_toGit_aux hok bs.length bs {} (Nat.le_refl _)
  simp only [Stats.fromBytesWith, this, gatherStats]
  have h0 : ({} : Stats).toGit = {} := rfl
  rw [h0]
  by_cases h : bs.getLast? = some 26 <;> simp [h, decNp]

theorem isBinary_toGit (s : Stats) : s.isBinary = convertIsBinary s.toGit := by
  simp only [Stats.isBinary, convertIsBinary, Stats.toGit]
  by_cases h1 : s.loneCr = 0 <;> by_cases h2 : s.null = 0 <;> simp [h1, h2, Nat.pos_iff_ne_zero]
  by_cases h3 : s.printable / 128 < s.nonPrintable <;> simp [h3]

theorem toEol_toGit (c : Config) : (c.toEol == .crlf) = textEolIsCrlf c.toGit := by
  obtain ⟨a, e, n⟩ := c
  cases a <;> cases e <;> cases n <;> simp [Config.toEol, textEolIsCrlf, Config.toGit, AutoCrlf.toGit, optModeToGit, Mode.toGitEol]
  all_goals (rename_i m; cases m <;> simp)

def optEolToGit : Option Mode → Eol
  | none => .unset
  | some m => m.toGitEol

theorem digest_toEol_toGit (d : Digest) (c : Config) :
    optEolToGit (d.toEol c) = outputEol c.toGit d.toAction := by
  have h := toEol_toGit c
  cases d <;> simp [Digest.toEol, Digest.toAction, outputEol, optEolToGit, Mode.toGitEol]
  all_goals (
    rw [← h]
    cases c.toEol <;> simp [Mode.toGitEol])



theorem isAuto_toGit (d : Digest) : d.isAutoText = d.toAction.isAuto := by
  cases d <;> rfl

theorem toEol_crlf_iff (d : Digest) (c : Config) :
    (d.toEol c != some .crlf) = (outputEol c.toGit d.toAction != .crlf) := by
  rw [← digest_toEol_toGit]
  cases h : d.toEol c with
  | none => simp only [optEolToGit]; decide
  | some m => cases m <;> simp only [optEolToGit, Mode.toGitEol] <;> decide

theorem willConvert_toGit (s : Stats) (d : Digest) (c : Config) :
    s.willConvertLfToCrlf d c = Spec.C43.willConvertLfToCrlf c.toGit s.toGit d.toAction := by
  simp only [Stats.willConvertLfToCrlf, Spec.C43.willConvertLfToCrlf, toEol_crlf_iff, isAuto_toGit,
    isBinary_toGit]
  simp only [Stats.toGit]
  by_cases h1 : (outputEol c.toGit d.toAction != Eol.crlf) = true
  · simp [h1]
  · simp only [h1]
    by_cases h2 : s.loneLf = 0
    · simp [h2]
    · by_cases h3 : d.toAction.isAuto = true
      · by_cases h4 : s.loneCr = 0 <;> by_cases h5 : s.crlf = 0 <;> simp [h2, h3, h4, h5, convertIsBinary, Nat.pos_iff_ne_zero]
      · simp [h2, h3]



def AttrState.toGit : AttrState → Spec.C43.AttrValue
  | .unspecified => .unset
  | .set => .true_
  | .unset => .false_
  | .value v => .str v

def Attrs.toGit (a : Attrs) : Spec.C43.GitAttrs :=
  { crlf := a.crlf.toGit, ident := a.ident.toGit, eol := a.eol.toGit, text := a.text.toGit }

def optDigestToAction : Option Digest → CrlfAction
  | none => .undefined
  | some d => d.toAction

theorem extractCrlf_toGit (s : AttrState) :
    optDigestToAction (extractCrlf s) = Spec.C43.gitPathCheckCrlf s.toGit := by
  cases s with
  | value v =>
    simp only [extractCrlf, AttrState.toGit, Spec.C43.gitPathCheckCrlf, strInput, strAuto,
      Spec.C43.strInput, Spec.C43.strAuto]
    by_cases h1 : (v == [105, 110, 112, 117, 116]) = true
    · simp [h1, optDigestToAction, Digest.toAction]
    · by_cases h2 : (v == [97, 117, 116, 111]) = true <;> simp [h1, h2, optDigestToAction, Digest.toAction]
  | _ => rfl

theorem extractEol_toGit (s : AttrState) :
    optEolToGit (extractEol s) = Spec.C43.gitPathCheckEol s.toGit := by
  cases s with
  | value v =>
    simp only [extractEol, AttrState.toGit, Spec.C43.gitPathCheckEol, strLf, strCrlf,
      Spec.C43.strLf, Spec.C43.strCrlf]
    by_cases h1 : (v == [108, 102]) = true
    · simp [h1, optEolToGit, Mode.toGitEol]
    · by_cases h2 : (v == [99, 114, 108, 102]) = true <;> simp [h1, h2, optEolToGit, Mode.toGitEol]
  | _ => rfl

theorem ident_toGit (s : AttrState) : (s == .set) = Spec.C43.gitPathCheckIdent s.toGit := by
  cases s <;> simp [AttrState.toGit, Spec.C43.gitPathCheckIdent] <;> rfl

theorem d0_toGit (x y : Option Digest) :
    optDigestToAction (x.or y) =
      (if optDigestToAction x == .undefined then optDigestToAction y else optDigestToAction x) := by
  cases x with
  | none => simp [optDigestToAction]
  | some d => cases d <;> simp [optDigestToAction, Digest.toAction]

theorem digestOf_toGit (d0 : Option Digest) (e : Option Mode) (c : Config) :
    (digestOf d0 e c).toAction = Spec.C43.crlfActionOf c.toGit (optDigestToAction d0) (optEolToGit e) := by
  obtain ⟨au, ce, nat⟩ := c
  rcases d0 with _ | d0 <;> rcases e with _ | e <;> cases au <;>
    (try cases d0) <;> (try cases e) <;> rcases ce with _ | ce <;> (try cases ce) <;> cases nat <;> decide

theorem atPath_toGit (a : Attrs) (c : Config) :
    ((atPath a c).1.toAction, (atPath a c).2) = Spec.C43.convertAttrs c.toGit a.toGit := by
  simp only [atPath, Spec.C43.convertAttrs, digestOf_toGit, d0_toGit, extractCrlf_toGit, extractEol_toGit,
    ident_toGit, Attrs.toGit]
  rfl



theorem stripAllCr_eq (src : Bytes) : stripAllCr src = Spec.C43.stripAllCr src := by
  induction src with
  | nil => rfl
  | cons b rest ih =>
    by_cases h : b = 13 <;> simp [stripAllCr, Spec.C43.stripAllCr, List.filter_cons, h] <;>
      simpa [stripAllCr] using ih

theorem stripCrBeforeLf_eq (src : Bytes) : stripCrBeforeLf src = Spec.C43.stripCrBeforeLf src := by
  induction src with
  | nil => rfl
  | cons b rest ih =>
    cases rest with
    | nil => simp [stripCrBeforeLf, Spec.C43.stripCrBeforeLf]
    | cons c r2 =>
      have e1 : stripCrBeforeLf (b :: c :: r2) =
          if b == 13 && c == 10 then stripCrBeforeLf (c :: r2) else b :: stripCrBeforeLf (c :: r2) := by
        simp [stripCrBeforeLf]
      have e2 : Spec.C43.stripCrBeforeLf (b :: c :: r2) =
          if b == 13 && c == 10 then Spec.C43.stripCrBeforeLf (c :: r2) else b :: Spec.C43.stripCrBeforeLf (c :: r2) := by
        simp [Spec.C43.stripCrBeforeLf]
      rw [e1, e2, ih]

theorem countByte_lonecr (c : UInt8) (st : TextStat) : (countByte c st).lonecr = st.lonecr := by
  rw [countByte_eq]; rfl

theorem gatherLoop_lonecr_ge : ∀ (n : Nat) (bs : Bytes) (st : TextStat), bs.length ≤ n →
    st.lonecr ≤ (gatherLoop bs st).lonecr := by
  intro n
  induction n with
  | zero =>
    intro bs st h
    have : bs = [] := List.eq_nil_of_length_eq_zero (by omega)
    subst this; simp [gatherLoop]
  | succ n ih =>
    intro bs st h
    match bs, h with
    | [], _ => simp [gatherLoop]
    | b :: rest, h =>
      have hlen : rest.length ≤ n := by simp at h; omega
      by_cases h13 : b = 13
      · subst h13
        match rest, hlen with
        | [], _ => rw [gatherLoop_cr_nil]; simp
        | c :: r2, hlen =>
          by_cases h10 : c = 10
          · subst h10
            rw [gatherLoop_cr_lf]
            have := ih r2 { st with crlf := st.crlf + 1 } (by simp at hlen; omega)
            simpa using this
          · rw [gatherLoop_cr_other _ _ _ h10]
            have := ih (c :: r2) { st with lonecr := st.lonecr + 1 } hlen
            simp at this ⊢; omega
      · by_cases h10 : b = 10
        · subst h10; rw [gatherLoop_lf]
          have := ih rest { st with lonelf := st.lonelf + 1 } hlen
          simpa using this
        · rw [gatherLoop_other _ _ _ h13 h10]
          have := ih rest (countByte b st) hlen
          rw [countByte_lonecr] at this; exact this

theorem strip_eq_of_lonecr : ∀ (n : Nat) (bs : Bytes) (st : TextStat), bs.length ≤ n →
    (gatherLoop bs st).lonecr = st.lonecr → Spec.C43.stripAllCr bs = Spec.C43.stripCrBeforeLf bs := by
  intro n
  induction n with
  | zero =>
    intro bs st h _
    have : bs = [] := List.eq_nil_of_length_eq_zero (by omega)
    subst this; rfl
  | succ n ih =>
    intro bs st h heq
    match bs, h with
    | [], _ => rfl
    | b :: rest, h =>
      have hlen : rest.length ≤ n := by simp at h; omega
      by_cases h13 : b = 13
      · subst h13
        match rest, hlen with
        | [], _ => rw [gatherLoop_cr_nil] at heq; simp at heq
        | c :: r2, hlen =>
          by_cases h10 : c = 10
          · subst h10
            rw [gatherLoop_cr_lf] at heq
            have := ih r2 _ (by simp at hlen; omega) heq
            simp [Spec.C43.stripAllCr, Spec.C43.stripCrBeforeLf, this]
          · rw [gatherLoop_cr_other _ _ _ h10] at heq
            have := gatherLoop_lonecr_ge (n + 1) (c :: r2) { st with lonecr := st.lonecr + 1 } (by simp at hlen ⊢; omega)
            simp at this; omega
      · have hstep : Spec.C43.stripAllCr (b :: rest) = b :: Spec.C43.stripAllCr rest := by
          simp [Spec.C43.stripAllCr, h13]
        have hstep2 : Spec.C43.stripCrBeforeLf (b :: rest) = b :: Spec.C43.stripCrBeforeLf rest := by
          simp [Spec.C43.stripCrBeforeLf, h13]
        rw [hstep, hstep2]
        by_cases h10 : b = 10
        · subst h10; rw [gatherLoop_lf] at heq; rw [ih rest _ hlen heq]
        · rw [gatherLoop_other _ _ _ h13 h10] at heq
          rw [ih rest (countByte b st) hlen (by rw [heq, countByte_lonecr])]

theorem gatherStats_lonecr (bs : Bytes) : (gatherStats bs).lonecr = (gatherLoop bs {}).lonecr := by
  simp only [gatherStats]; split <;> rfl

theorem strip_eq_of_stats (bs : Bytes) (h : (gatherStats bs).lonecr = 0) :
    Spec.C43.stripAllCr bs = Spec.C43.stripCrBeforeLf bs := by
  rw [gatherStats_lonecr] at h
  exact strip_eq_of_lonecr bs.length bs {} (Nat.le_refl _) (by simpa using h)



def RtMsg.toGit : RtMsg → Spec.C43.EolMsg
  | .crlfToLf => .crlfToLf
  | .lfToCrlf => .lfToCrlf

/-- `Option<RoundTripCheck>` ↔ `core.safecrlf` -/
def safeOf : Option RoundTrip → Spec.C43.SafeCrlf
  | none => .off
  | some .warn => .warn
  | some .fail => .die

/-- what `eol::convert_to_git` means for the content: the (possibly unchanged) bytes + warning -/
def EolToGit.toGit (src : Bytes) (r : EolToGit) : Spec.C43.ToGit :=
  { out := r.out.getD src, warning := r.warned.map RtMsg.toGit }

def exceptToGit (src : Bytes) : Except RtMsg EolToGit → Except Spec.C43.EolMsg Spec.C43.ToGit
  | .ok r => .ok (r.toGit src)
  | .error m => .error m.toGit

theorem hasCrlfInIndex_toGit {t : StatsTable} (hok : tableOk t = true) (buf : Bytes) :
    hasCrlfInIndex t buf = Spec.C43.hasCrlfInIndex (some buf) := by
  simp only [hasCrlfInIndex, Spec.C43.hasCrlfInIndex]
  by_cases h : buf.contains 13 = true
  · have hne : buf.isEmpty = false := by
      cases buf with
      | nil => simp at h
      | cons => rfl
    rw [if_pos h, if_pos h]
    simp only [hne, Bool.false_eq_true, if_false, isBinary_toGit, fromBytesWith_toGit hok]
    have : (Stats.fromBytesWith t buf).crlf = (gatherStats buf).crlf := by
      rw [← fromBytesWith_toGit hok]; rfl
    rw [this]
    by_cases h0 : (gatherStats buf).crlf = 0 <;> simp [h0, Nat.pos_iff_ne_zero]
  · rw [if_neg h, if_neg h]

theorem simulate_toGit (stats : Stats) (convert : Bool) (d : Digest) (c : Config) :
    (simulateRoundTrip stats convert d c).toGit =
      Spec.C43.simulateAddCheckout c.toGit stats.toGit convert d.toAction := by
  cases convert
  · simp only [simulateRoundTrip, Spec.C43.simulateAddCheckout, Bool.false_eq_true, if_false, willConvert_toGit]
    split <;> rfl
  · simp only [simulateRoundTrip, Spec.C43.simulateAddCheckout, if_true, willConvert_toGit]
    have e : ({ stats with loneLf := stats.loneLf + stats.crlf, crlf := 0 } : Stats).toGit =
        { stats.toGit with lonelf := stats.toGit.lonelf + stats.toGit.crlf, crlf := 0 } := rfl
    rw [e]
    split <;> rfl

theorem check_toGit (stats new2 : Stats) :
    (if stats.crlf > 0 && new2.crlf == 0 then some RtMsg.crlfToLf
     else if stats.loneLf > 0 && new2.loneLf == 0 then some RtMsg.lfToCrlf else none).map RtMsg.toGit =
      Spec.C43.checkGlobalConvFlagsEol stats.toGit new2.toGit := by
  simp only [Spec.C43.checkGlobalConvFlagsEol, Stats.toGit]
  by_cases h1 : stats.crlf = 0 <;> by_cases h2 : new2.crlf = 0 <;> by_cases h3 : stats.loneLf = 0 <;>
    by_cases h4 : new2.loneLf = 0 <;> simp [h1, h2, h3, h4, RtMsg.toGit, Nat.pos_iff_ne_zero]

theorem roundTripMsg_toGit (stats : Stats) (convert : Bool) (d : Digest) (c : Config) :
    (roundTripMsg stats convert d c).map RtMsg.toGit =
      Spec.C43.checkGlobalConvFlagsEol stats.toGit
        (Spec.C43.simulateAddCheckout c.toGit stats.toGit convert d.toAction) := by
  rw [← simulate_toGit, ← check_toGit]
  rfl



theorem binary_toGit (d : Digest) : (d == .binary) = (d.toAction == .binary) := by
  cases d <;> rfl

theorem notBinary_loneCr {s : Stats} (h : s.isBinary = false) : s.loneCr = 0 := by
  simp only [Stats.isBinary, Bool.or_eq_false_iff, decide_eq_false_iff_not] at h
  omega

theorem convert_toGit {t : StatsTable} (hok : tableOk t = true) (stats : Stats) (d : Digest)
    (index : Option Bytes) :
    convertCrlfToLf t stats d index = Spec.C43.convertCrlfIntoLf stats.toGit d.toAction index := by
  unfold convertCrlfToLf Spec.C43.convertCrlfIntoLf
  have hc : decide (stats.crlf > 0) = (stats.toGit.crlf != 0) := by
    show decide (stats.crlf > 0) = (stats.crlf != 0)
    by_cases hz : stats.crlf = 0 <;> simp [hz, Nat.pos_iff_ne_zero]
  rw [hc, isAuto_toGit]
  cases index with
  | none => simp [Spec.C43.hasCrlfInIndex]
  | some buf =>
    simp only [hasCrlfInIndex_toGit hok]
    by_cases ha : d.toAction.isAuto = true <;> simp [ha]

theorem tail_toGit (src : Bytes) (stats : Stats) (a : CrlfAction) (convert : Bool) (msg : Option RtMsg)
    (rt : Option RoundTrip)
    (hauto : a.isAuto = true → stats.loneCr = 0)
    (hl : stats.loneCr = (gatherStats src).lonecr) :
    exceptToGit src (eolToGitTail src stats convert msg rt) =
      Spec.C43.crlfToGitTail src a convert (msg.map RtMsg.toGit) (safeOf rt) := by
  have hstrip : (if a.isAuto = true then Spec.C43.stripAllCr src else Spec.C43.stripCrBeforeLf src) =
      (if stats.loneCr = 0 then stripAllCr src else stripCrBeforeLf src) := by
    by_cases ha : a.isAuto = true
    · simp [ha, hauto ha, stripAllCr_eq]
    · by_cases hz : stats.loneCr = 0
      · simp [ha, hz, stripAllCr_eq, strip_eq_of_stats src (by rw [← hl]; exact hz)]
      · simp [ha, hz, stripCrBeforeLf_eq]
  unfold eolToGitTail Spec.C43.crlfToGitTail
  have hbeq : (stats.loneCr == 0) = decide (stats.loneCr = 0) := by
    by_cases hz : stats.loneCr = 0 <;> simp [hz]
  rcases rt with _ | r
  · cases msg <;> cases convert <;> simp [safeOf, exceptToGit, EolToGit.toGit, hstrip] <;>
      (by_cases hz : stats.loneCr = 0 <;> by_cases ha : a.isAuto = true <;>
        first
        | exact absurd (hauto ha) hz
        | (simp only [hz, ha, if_true, if_false, Bool.false_eq_true] at hstrip ⊢
           simp [hz, exceptToGit, EolToGit.toGit, hstrip]))
  · cases r <;> cases msg <;> cases convert <;> simp [safeOf, exceptToGit, EolToGit.toGit, hstrip] <;>
      (by_cases hz : stats.loneCr = 0 <;> by_cases ha : a.isAuto = true <;>
        first
        | exact absurd (hauto ha) hz
        | (simp only [hz, ha, if_true, if_false, Bool.false_eq_true] at hstrip ⊢
           simp [hz, exceptToGit, EolToGit.toGit, hstrip]))

theorem eolToGit_toGit {t : StatsTable} (hok : tableOk t = true) (src : Bytes) (d : Digest)
    (index : Option Bytes) (rt : Option RoundTrip) (c : Config) :
    exceptToGit src (eolToGitWith t src d index rt c) =
      Spec.C43.crlfToGit c.toGit index src d.toAction (safeOf rt) := by
  unfold eolToGitWith Spec.C43.crlfToGit
  rw [binary_toGit]
  by_cases h0 : (d.toAction == CrlfAction.binary || src.isEmpty) = true
  · simp only [h0, if_true]; rfl
  · simp only [h0, Bool.false_eq_true, if_false]
    have hst : (Stats.fromBytesWith t src).toGit = gatherStats src := fromBytesWith_toGit hok src
    have hlcr : (Stats.fromBytesWith t src).loneCr = (gatherStats src).lonecr := by rw [← hst]; rfl
    rw [isAuto_toGit, isBinary_toGit, hst]
    by_cases h1 : (d.toAction.isAuto && convertIsBinary (gatherStats src)) = true
    · simp only [h1, if_true]; rfl
    · simp only [h1, Bool.false_eq_true, if_false]
      have hauto : d.toAction.isAuto = true → (Stats.fromBytesWith t src).loneCr = 0 := by
        intro ha
        simp only [ha, Bool.true_and, Bool.not_eq_true] at h1
        exact notBinary_loneCr (by rw [isBinary_toGit, hst]; exact h1)
      rw [tail_toGit src _ d.toAction _ _ rt hauto hlcr, convert_toGit hok, hst]
      congr 1
      cases rt with
      | none => simp [safeOf]
      | some r =>
        have : (safeOf (some r) != Spec.C43.SafeCrlf.off) = true := by cases r <;> decide
        simp only [this, if_true, roundTripMsg_toGit, hst]



/-! ### scanning primitives -/

theorem breakAt_some {p : UInt8 → Bool} : ∀ {bs pre : Bytes} {hit : UInt8} {post : Bytes},
    breakAt p bs = some (pre, hit, post) →
    bs = pre ++ hit :: post ∧ p hit = true ∧ ∀ x ∈ pre, p x = false := by
  intro bs
  induction bs with
  | nil => intro pre hit post h; simp [breakAt] at h
  | cons b rest ih =>
    intro pre hit post h
    unfold breakAt at h
    by_cases hp : p b = true
    · simp only [hp, if_true, Option.some.injEq, Prod.mk.injEq] at h
      obtain ⟨rfl, rfl, rfl⟩ := h
      simp [hp]
    · simp only [hp, Bool.false_eq_true, if_false] at h
      cases hr : breakAt p rest with
      | none => simp [hr] at h
      | some r =>
        obtain ⟨pre', hit', post'⟩ := r
        simp only [hr, Option.some.injEq, Prod.mk.injEq] at h
        obtain ⟨rfl, rfl, rfl⟩ := h
        obtain ⟨h1, h2, h3⟩ := ih hr
        refine ⟨by rw [h1]; rfl, h2, ?_⟩
        intro x hx
        simp only [List.mem_cons] at hx
        rcases hx with rfl | hx
        · simpa using hp
        · exact h3 x hx

theorem breakAt_none {p : UInt8 → Bool} : ∀ {bs : Bytes}, breakAt p bs = none → ∀ x ∈ bs, p x = false := by
  intro bs
  induction bs with
  | nil => intro _ x hx; simp at hx
  | cons b rest ih =>
    intro h x hx
    unfold breakAt at h
    by_cases hp : p b = true
    · simp [hp] at h
    · simp only [hp, Bool.false_eq_true, if_false] at h
      cases hr : breakAt p rest with
      | some r => simp [hr] at h
      | none =>
        simp only [List.mem_cons] at hx
        rcases hx with rfl | hx
        · simpa using hp
        · exact ih hr x hx

/-! ### LF → CRLF: one reference function, three programs -/

/-- every LF that does not directly follow a CR gets a CR -/
def lfToCrlf : Bytes → Bytes
  | [] => []
  | b :: rest =>
    if b == 13 then
      match rest with
      | c :: rest' => if c == 10 then 13 :: 10 :: lfToCrlf rest' else 13 :: lfToCrlf (c :: rest')
      | [] => [13]
    else if b == 10 then 13 :: 10 :: lfToCrlf rest
    else b :: lfToCrlf rest

theorem lfToCrlf_cr_lf (r : Bytes) : lfToCrlf (13 :: 10 :: r) = 13 :: 10 :: lfToCrlf r := by
  simp [lfToCrlf]

theorem lfToCrlf_cr_other (r : Bytes) (h : r.head? ≠ some 10) : lfToCrlf (13 :: r) = 13 :: lfToCrlf r := by
  cases r with
  | nil => simp [lfToCrlf]
  | cons c r2 =>
    have : c ≠ 10 := by simpa using h
    simp [lfToCrlf, this]

theorem lfToCrlf_lf (r : Bytes) : lfToCrlf (10 :: r) = 13 :: 10 :: lfToCrlf r := by
  cases r <;> simp [lfToCrlf]

theorem lfToCrlf_other (b : UInt8) (r : Bytes) (h13 : b ≠ 13) (h10 : b ≠ 10) :
    lfToCrlf (b :: r) = b :: lfToCrlf r := by
  cases r <;> simp [lfToCrlf, h13, h10]

theorem lfToCrlf_plain (pre rest : Bytes) (h : ∀ x ∈ pre, (x == 13 || x == 10) = false) :
    lfToCrlf (pre ++ rest) = pre ++ lfToCrlf rest := by
  induction pre with
  | nil => rfl
  | cons b pre ih =>
    have hb := h b (by simp)
    simp only [Bool.or_eq_false_iff, beq_eq_false_iff_ne, ne_eq] at hb
    rw [List.cons_append, lfToCrlf_other _ _ hb.1 hb.2, ih (fun x hx => h x (by simp [hx]))]
    rfl

theorem eolToWorktreeLoop_eq : ∀ (fuel : Nat) (cur buf : Bytes), cur.length < fuel →
    eolToWorktreeLoop fuel cur buf = buf ++ lfToCrlf cur := by
  intro fuel
  induction fuel with
  | zero => intro cur buf h; omega
  | succ fuel ih =>
    intro cur buf h
    unfold eolToWorktreeLoop
    cases hb : breakAt (fun b => b == 13 || b == 10) cur with
    | none =>
      have := breakAt_none hb
      have e := lfToCrlf_plain cur [] this
      simp only [List.append_nil] at e
      simp [e, lfToCrlf]
    | some r =>
      obtain ⟨pre, hit, post⟩ := r
      obtain ⟨hcur, hhit, hpre⟩ := breakAt_some hb
      have hlen : post.length < fuel := by
        rw [hcur] at h; simp at h; omega
      by_cases h13 : hit = 13
      · subst h13
        simp only [beq_self_eq_true, if_true]
        by_cases hn : post.head? = some 10
        · simp only [hn, if_true]
          cases post with
          | nil => simp at hn
          | cons c p2 =>
            have hc : c = 10 := by simpa using hn
            subst hc
            rw [ih _ _ (by simp at hlen ⊢; omega), hcur, lfToCrlf_plain _ _ hpre, lfToCrlf_cr_lf]
            simp
        · have hnb : (post.head? == some 10) = false := by simpa using hn
          simp only [hnb, Bool.false_eq_true, if_false]
          rw [ih _ _ hlen, hcur, lfToCrlf_plain _ _ hpre, lfToCrlf_cr_other _ hn]
          simp
      · have h10 : hit = 10 := by
          simp only [Bool.or_eq_true, beq_iff_eq] at hhit
          rcases hhit with h | h
          · exact absurd h h13
          · exact h
        subst h10
        simp only [show ((10 : UInt8) == 13) = false by decide, Bool.false_eq_true, if_false]
        rw [ih _ _ hlen, hcur, lfToCrlf_plain _ _ hpre, lfToCrlf_lf]
        simp

theorem lfToCrlf_noLf (bs : Bytes) (h : ∀ x ∈ bs, (x == 10) = false) : lfToCrlf bs = bs := by
  induction bs with
  | nil => rfl
  | cons b rest ih =>
    have hb : b ≠ 10 := by simpa using h b (by simp)
    have ih' := ih (fun x hx => h x (by simp [hx]))
    by_cases h13 : b = 13
    · subst h13
      have hn : rest.head? ≠ some 10 := by
        cases rest with
        | nil => simp
        | cons c r2 => have := h c (by simp); simpa using this
      rw [lfToCrlf_cr_other _ hn, ih']
    · rw [lfToCrlf_other _ _ h13 hb, ih']

/-- git's look-behind formulation: `pre` is the chunk before the next LF -/
theorem lfToCrlf_chunk (pre r : Bytes) (h : ∀ x ∈ pre, (x == 10) = false) :
    lfToCrlf (pre ++ 10 :: r) =
      if pre.getLast? = some 13 then pre ++ 10 :: lfToCrlf r else pre ++ 13 :: 10 :: lfToCrlf r := by
  induction pre with
  | nil => simp [lfToCrlf_lf]
  | cons b pre ih =>
    have hb : b ≠ 10 := by simpa using h b (by simp)
    have ih' := ih (fun x hx => h x (by simp [hx]))
    cases pre with
    | nil =>
      by_cases h13 : b = 13
      · subst h13; simp [lfToCrlf_cr_lf]
      · simp [lfToCrlf_other _ _ h13 hb, lfToCrlf_lf, h13]
    | cons c p2 =>
      have hc : c ≠ 10 := by simpa using h c (by simp)
      rw [List.getLast?_cons_cons]
      by_cases h13 : b = 13
      · subst h13
        have hn : ((c :: p2) ++ 10 :: r).head? ≠ some 10 := by simpa using hc
        rw [List.cons_append, lfToCrlf_cr_other _ hn, ih']
        split <;> simp
      · rw [List.cons_append, lfToCrlf_other _ _ h13 hb, ih']
        split <;> simp

theorem crlfToWorktreeLoop_eq : ∀ (fuel : Nat) (src buf : Bytes), src.length < fuel →
    Spec.C43.crlfToWorktreeLoop fuel src buf = buf ++ lfToCrlf src := by
  intro fuel
  induction fuel with
  | zero => intro src buf h; omega
  | succ fuel ih =>
    intro src buf h
    unfold Spec.C43.crlfToWorktreeLoop
    cases hb : breakAt (fun b => b == 10) src with
    | none => simp [lfToCrlf_noLf src (breakAt_none hb)]
    | some r =>
      obtain ⟨pre, hit, post⟩ := r
      obtain ⟨hsrc, hhit, hpre⟩ := breakAt_some hb
      have h10 : hit = 10 := by simpa using hhit
      subst h10
      have hlen : post.length < fuel := by rw [hsrc] at h; simp at h; omega
      rw [hsrc, lfToCrlf_chunk pre post hpre]
      by_cases hl : pre.getLast? = some 13
      · simp only [hl, if_true]; rw [ih _ _ hlen]; simp
      · have hlb : (pre.getLast? == some 13) = false := by simpa using hl
        simp only [hl, hlb, Bool.false_eq_true, if_false]; rw [ih _ _ hlen]; simp

theorem lfToCrlfStream_eq : ∀ (bs : Bytes),
    Spec.C43.lfToCrlfStream bs false = lfToCrlf bs ∧ Spec.C43.lfToCrlfStream bs true = lfToCrlf (13 :: bs) := by
  intro bs
  induction bs with
  | nil => simp [Spec.C43.lfToCrlfStream, lfToCrlf]
  | cons ch rest ih =>
    obtain ⟨ihf, iht⟩ := ih
    by_cases h10 : ch = 10
    · subst h10
      simp [Spec.C43.lfToCrlfStream, ihf, lfToCrlf_lf, lfToCrlf_cr_lf]
    · by_cases h13 : ch = 13
      · subst h13
        have hn : (13 :: rest : Bytes).head? ≠ some 10 := by simp
        simp [Spec.C43.lfToCrlfStream, iht, lfToCrlf_cr_other _ hn]
      · have hn : (ch :: rest : Bytes).head? ≠ some 10 := by simpa using h10
        simp [Spec.C43.lfToCrlfStream, h10, h13, ihf, lfToCrlf_cr_other _ hn, lfToCrlf_other _ _ h13 h10]



theorem countByte_lonelf (c : UInt8) (st : TextStat) : (countByte c st).lonelf = st.lonelf := by
  rw [countByte_eq]; rfl

theorem gatherLoop_lonelf_ge : ∀ (n : Nat) (bs : Bytes) (st : TextStat), bs.length ≤ n →
    st.lonelf ≤ (gatherLoop bs st).lonelf := by
  intro n
  induction n with
  | zero =>
    intro bs st h
    have : bs = [] := List.eq_nil_of_length_eq_zero (by omega)
    subst this; simp [gatherLoop]
  | succ n ih =>
    intro bs st h
    match bs, h with
    | [], _ => simp [gatherLoop]
    | b :: rest, h =>
      have hlen : rest.length ≤ n := by simp at h; omega
      by_cases h13 : b = 13
      · subst h13
        match rest, hlen with
        | [], _ => rw [gatherLoop_cr_nil]; simp
        | c :: r2, hlen =>
          by_cases h10 : c = 10
          · subst h10
            rw [gatherLoop_cr_lf]
            have := ih r2 { st with crlf := st.crlf + 1 } (by simp at hlen; omega)
            simpa using this
          · rw [gatherLoop_cr_other _ _ _ h10]
            have := ih (c :: r2) { st with lonecr := st.lonecr + 1 } hlen
            simpa using this
      · by_cases h10 : b = 10
        · subst h10; rw [gatherLoop_lf]
          have := ih rest { st with lonelf := st.lonelf + 1 } hlen
          simp at this ⊢; omega
        · rw [gatherLoop_other _ _ _ h13 h10]
          have := ih rest (countByte b st) hlen
          rw [countByte_lonelf] at this; exact this

theorem lfToCrlf_of_lonelf : ∀ (n : Nat) (bs : Bytes) (st : TextStat), bs.length ≤ n →
    (gatherLoop bs st).lonelf = st.lonelf → lfToCrlf bs = bs := by
  intro n
  induction n with
  | zero =>
    intro bs st h _
    have : bs = [] := List.eq_nil_of_length_eq_zero (by omega)
    subst this; rfl
  | succ n ih =>
    intro bs st h heq
    match bs, h with
    | [], _ => rfl
    | b :: rest, h =>
      have hlen : rest.length ≤ n := by simp at h; omega
      by_cases h13 : b = 13
      · subst h13
        match rest, hlen with
        | [], _ => simp [lfToCrlf]
        | c :: r2, hlen =>
          by_cases h10 : c = 10
          · subst h10
            rw [gatherLoop_cr_lf] at heq
            rw [lfToCrlf_cr_lf, ih r2 _ (by simp at hlen; omega) heq]
          · rw [gatherLoop_cr_other _ _ _ h10] at heq
            have hn : (c :: r2 : Bytes).head? ≠ some 10 := by simpa using h10
            rw [lfToCrlf_cr_other _ hn, ih (c :: r2) _ hlen heq]
      · by_cases h10 : b = 10
        · subst h10
          rw [gatherLoop_lf] at heq
          have := gatherLoop_lonelf_ge n rest { st with lonelf := st.lonelf + 1 } hlen
          simp at this; omega
        · rw [gatherLoop_other _ _ _ h13 h10] at heq
          rw [lfToCrlf_other _ _ h13 h10, ih rest (countByte b st) hlen (by rw [heq, countByte_lonelf])]

theorem gatherStats_lonelf (bs : Bytes) : (gatherStats bs).lonelf = (gatherLoop bs {}).lonelf := by
  simp only [gatherStats]; split <;> rfl

theorem lfToCrlf_of_stats (bs : Bytes) (h : (gatherStats bs).lonelf = 0) : lfToCrlf bs = bs := by
  rw [gatherStats_lonelf] at h
  exact lfToCrlf_of_lonelf bs.length bs {} (Nat.le_refl _) (by simpa using h)

/-- `crlf_to_worktree` says: all lone LFs get a CR, if `will_convert_lf_to_crlf` -/
theorem crlfToWorktree_eq (cfg : GitConfig) (src : Bytes) (a : CrlfAction) :
    Spec.C43.crlfToWorktree cfg src a =
      if Spec.C43.willConvertLfToCrlf cfg (gatherStats src) a then lfToCrlf src else src := by
  unfold Spec.C43.crlfToWorktree
  by_cases h0 : (src.isEmpty || outputEol cfg a != Eol.crlf) = true
  · simp only [h0, if_true]
    simp only [Bool.or_eq_true] at h0
    rcases h0 with h0 | h0
    · have : src = [] := by simpa using h0
      subst this; simp [lfToCrlf]
    · simp [Spec.C43.willConvertLfToCrlf, h0]
  · simp only [h0, Bool.false_eq_true, if_false]
    by_cases hw : Spec.C43.willConvertLfToCrlf cfg (gatherStats src) a = true
    · simp [hw, crlfToWorktreeLoop_eq]
    · simp [hw]

theorem eolToWorktree_toGit {t : StatsTable} (hok : tableOk t = true) (src : Bytes) (d : Digest) (c : Config) :
    (eolToWorktreeWith t src d c).getD src = Spec.C43.crlfToWorktree c.toGit src d.toAction := by
  rw [crlfToWorktree_eq]
  unfold eolToWorktreeWith
  simp only [toEol_crlf_iff, willConvert_toGit, fromBytesWith_toGit hok]
  by_cases h0 : (src.isEmpty || outputEol c.toGit d.toAction != Eol.crlf) = true
  · simp only [h0, if_true, Option.getD_none]
    simp only [Bool.or_eq_true] at h0
    rcases h0 with h0 | h0
    · have : src = [] := by simpa using h0
      subst this; simp [lfToCrlf]
    · simp [Spec.C43.willConvertLfToCrlf, h0]
  · simp only [h0, Bool.false_eq_true, if_false]
    by_cases hw : Spec.C43.willConvertLfToCrlf c.toGit (gatherStats src) d.toAction = true
    · simp [hw, eolToWorktreeLoop_eq]
    · simp [hw]

/-- for the actions checkout streams (everything but `auto`/`auto_crlf`), the streaming LF→CRLF
filter and the in-memory `crlf_to_worktree` produce the same bytes -/
theorem stream_eq_crlfToWorktree (cfg : GitConfig) (src : Bytes) (a : CrlfAction)
    (h : Spec.C43.noStreamFilter a = false) :
    (if outputEol cfg a == Eol.crlf then Spec.C43.lfToCrlfStream src false else src) =
      Spec.C43.crlfToWorktree cfg src a := by
  rw [crlfToWorktree_eq, (lfToCrlfStream_eq src).1]
  by_cases ho : outputEol cfg a = Eol.crlf
  · -- not auto, not autoCrlf; autoInput has output lf
    have hna : a.isAuto = false := by
      cases a <;> simp_all [Spec.C43.noStreamFilter, CrlfAction.isAuto, outputEol]
    simp only [ho, beq_self_eq_true, if_true, Spec.C43.willConvertLfToCrlf, hna, Bool.false_eq_true, if_false]
    by_cases hz : (gatherStats src).lonelf = 0
    · simp [hz, lfToCrlf_of_stats src hz]
    · simp [hz]
  · have : (outputEol cfg a == Eol.crlf) = false := by simpa using ho
    simp [this, Spec.C43.willConvertLfToCrlf, ho]



/-- the probe with `b"\r\n"` in `Pipeline::convert_to_git` answers "is the digest not Binary" -/
theorem wouldConvert_eq {t : StatsTable} (hok : tableOk t = true) (d : Digest) (c : Config) :
    wouldConvertEol t d c = (d != .binary) := by
  unfold wouldConvertEol
  have hs : Stats.fromBytesWith t [13, 10] = { crlf := 1 } := by
    rw [Stats.fromBytesWith, statsGo_cr_lf hok]; rfl
  cases d <;>
    simp [eolToGitWith, hs, Stats.isBinary, Digest.isAutoText, convertCrlfToLf, eolToGitTail]

/-- the content a to-git pipeline outcome stands for -/
def toGitResult (src : Bytes) : Except RtMsg (Outcome × Option RtMsg) → Except Spec.C43.EolMsg Spec.C43.ToGit
  | .ok (o, w) => .ok { out := o.bytes src, warning := w.map RtMsg.toGit }
  | .error m => .error m.toGit

def CrlfRoundTripCheck.toGit (k : CrlfRoundTripCheck) : Spec.C43.SafeCrlf := safeOf k.toEol

/-- `Pipeline::convert_to_git` = `eol::convert_to_git` followed by `ident::undo` (if `ident` is set) -/
theorem pipelineToGit_decompose {t : StatsTable} (hok : tableOk t = true) (src : Bytes) (a : Attrs)
    (index : Option Bytes) (k : CrlfRoundTripCheck) (c : Config) :
    toGitResult src (pipelineToGitWith t src a index k c) =
      (match exceptToGit src (eolToGitWith t src (atPath a c).1 index k.toEol c) with
       | .error m => .error m
       | .ok r => .ok { r with out := if (atPath a c).2 then (identUndo r.out).getD r.out else r.out }) := by
  unfold pipelineToGitWith
  simp only [wouldConvert_eq hok]
  generalize atPath a c = dp
  obtain ⟨d, ai⟩ := dp
  by_cases hu : (!(ai || d != Digest.binary)) = true
  · simp only [hu, if_true]
    simp only [Bool.not_eq_true', Bool.or_eq_false_iff, bne_eq_false_iff_eq] at hu
    obtain ⟨h1, h2⟩ := hu
    subst h1 h2
    simp [eolToGitWith, toGitResult, exceptToGit, EolToGit.toGit, Outcome.bytes]
  · simp only [hu, Bool.false_eq_true, if_false]
    cases he : eolToGitWith t src d index k.toEol c with
    | error m => simp [toGitResult, exceptToGit]
    | ok r =>
      simp only [toGitResult, exceptToGit, EolToGit.toGit, Outcome.bytes]

/-- `Pipeline::convert_to_worktree` = `ident::apply` (if `ident` is set) followed by
`eol::convert_to_worktree` -/
theorem pipelineToWorktree_decompose (t : StatsTable) (hash : Bytes → Bytes) (src : Bytes) (a : Attrs)
    (c : Config) :
    (pipelineToWorktreeWith t hash src a c).bytes src =
      (let s1 := if (atPath a c).2 then (identApply hash src).getD src else src
       (eolToWorktreeWith t s1 (atPath a c).1 c).getD s1) := by
  unfold pipelineToWorktreeWith
  generalize atPath a c = dp
  obtain ⟨d, ai⟩ := dp
  cases ai
  · simp only [Bool.false_eq_true, if_false, Option.getD_none]
    cases eolToWorktreeWith t src d c <;> simp [Outcome.bytes]
  · simp only [if_true]
    cases identApply hash src with
    | none =>
      simp only [Option.getD_none]
      cases eolToWorktreeWith t src d c <;> simp [Outcome.bytes]
    | some b =>
      simp only [Option.getD_some]
      cases eolToWorktreeWith t b d c <;> simp [Outcome.bytes]


end GixModel.C43
