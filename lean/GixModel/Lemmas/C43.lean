import GixModel.Model.C43
/-
C43 — helper lemmas, part 1: statistics, binary test, eol decisions, attribute digest.
The correspondence between the Rust-side types and the git-side types is given by the `toGit`
functions below (they are the reading of one vocabulary in terms of the other and appear in the
statements of Props/C43).
-/
namespace GixModel.C43
open GixModel GixModel.C43Scan
open GixModel.Spec.C43 (TextStat CrlfAction Eol GitConfig countByte gatherLoop gatherStats convertIsBinary
  textEolIsCrlf outputEol)

theorem toNat_beq (b : UInt8) (n : Nat) (h : n < 256) : (b.toNat == n) = (b == UInt8.ofNat n) := by
  rw [Bool.eq_iff_iff]
  simp only [beq_iff_eq]
  constructor
  · intro hb; apply UInt8.toNat_inj.mp; rw [hb]; simp; omega
  · intro hb; subst hb; simp; omega

/-! ### vocabulary -/

def Stats.toGit (s : Stats) : TextStat :=
  { nul := s.null, lonecr := s.loneCr, lonelf := s.loneLf, crlf := s.crlf,
    printable := s.printable, nonprintable := s.nonPrintable }

def Digest.toAction : Digest → CrlfAction
  | .binary => .binary
  | .text => .text
  | .textInput => .textInput
  | .textCrlf => .textCrlf
  | .textAuto => .auto
  | .textAutoCrlf => .autoCrlf
  | .textAutoInput => .autoInput

def AutoCrlf.toGit : AutoCrlf → Spec.C43.AutoCrlf
  | .input => .input
  | .enabled => .true_
  | .disabled => .false_

def Mode.toGitEol : Mode → Eol
  | .lf => .lf
  | .crlf => .crlf

def optModeToGit : Option Mode → Eol
  | none => .unset
  | some m => m.toGitEol

def Config.toGit (c : Config) : GitConfig :=
  { autoCrlf := c.autoCrlf.toGit, coreEol := optModeToGit c.eol, nativeCrlf := c.native == .crlf }

/-! ### the extracted byte classification against `gather_stats` -/

/-- (printable, nonprintable, nul) increments of git's `gather_stats` loop body for byte `b` -/
def gitIncr (b : Nat) : Nat × Nat × Nat :=
  let st := countByte (UInt8.ofNat b) {}
  (st.printable, st.nonprintable, st.nul)

/-- What the proofs need of the table extracted from `Stats::from_bytes`: CR and LF are 13 and 10,
every byte is classified like git classifies it, except that a `^Z` in last position counts for
nothing (git: counted in the loop, discounted after it). Decidable; evaluated against today's
source in `Props.C43.extracted_table_ok`. -/
def tableOk (t : StatsTable) : Bool :=
  t.cr == 13 && t.lf == 10 &&
  (List.range 256).all fun b =>
    t.classify b false == gitIncr b &&
    t.classify b true == (if b == 26 then (0, 0, 0) else gitIncr b)

def addIncr (st : TextStat) (a : Nat × Nat × Nat) : TextStat :=
  { st with printable := st.printable + a.1, nonprintable := st.nonprintable + a.2.1, nul := st.nul + a.2.2 }

theorem countByte_eq (c : UInt8) (st : TextStat) : countByte c st = addIncr st (gitIncr c.toNat) := by
  have hc : UInt8.ofNat c.toNat = c := by simp
  simp only [gitIncr, hc]
  unfold countByte
  split
  · simp [addIncr]
  · split
    · split
      · simp [addIncr]
      · split <;> simp [addIncr]
    · simp [addIncr]

theorem bump_toGit (s : Stats) (a : Nat × Nat × Nat) : (s.bump a).toGit = addIncr s.toGit a := by
  simp [Stats.bump, Stats.toGit, addIncr]

theorem tableOk_cr {t : StatsTable} (hok : tableOk t = true) : t.cr = 13 := by
  simp only [tableOk, Bool.and_eq_true, beq_iff_eq] at hok
  exact hok.1.1

theorem tableOk_lf {t : StatsTable} (hok : tableOk t = true) : t.lf = 10 := by
  simp only [tableOk, Bool.and_eq_true, beq_iff_eq] at hok
  exact hok.1.2

theorem tableOk_classify {t : StatsTable} (hok : tableOk t = true) (b : UInt8) :
    t.classify b.toNat false = gitIncr b.toNat ∧
    t.classify b.toNat true = (if b.toNat = 26 then (0, 0, 0) else gitIncr b.toNat) := by
  simp only [tableOk, Bool.and_eq_true, List.all_eq_true, List.mem_range] at hok
  have h := hok.2 b.toNat (by have := b.toNat_lt; omega)
  constructor
  · exact eq_of_beq h.1
  · have h2 := eq_of_beq h.2
    rw [h2]
    by_cases h26 : b.toNat = 26 <;> simp [h26]

end GixModel.C43
