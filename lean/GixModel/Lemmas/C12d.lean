import GixModel.Lemmas.C12c
/-
C12 — the per-handle invariant `HOk` and the global invariant `Inv` (= `InvS` + every handle is `HOk`
+ every pack handed out was the right one + no `unreachable!()` was hit), preserved by every step.
-/
namespace GixModel.C12

/-- what is known about an entry `e` read under marker generation `g` -/
def EntryOk (s : Sys) (e : Entry) (g : Nat) : Prop :=
  Keeps s e.slot e.id g ∧ Safe s e.slot g ∧ ∀ p, e.pack = some p → p = e.id

structure HOk (s : Sys) (hd : Handle) : Prop where
  hg : hd.g ≤ s.pubGen
  cgm : ∀ c, hd.coll = some c → c.g ≤ s.pubGen
  busy : hd.pc ≠ RPc.idle → hd.coll = none
  ent : ∀ e, e ∈ hd.entries → EntryOk s e hd.g
  acc : ∀ c e, hd.coll = some c → e ∈ c.acc → EntryOk s e c.g
  todo : ∀ c k, hd.coll = some c → k ∈ c.todo → Safe s k c.g
  pin : ∀ i p e, (hd.pc = RPc.pinned i p ∨ hd.pc = RPc.checked i p) → hd.entries[i]? = some e →
    KeepsOpt s e.slot p hd.g
  chk : ∀ i p e, hd.pc = RPc.checked i p → hd.entries[i]? = some e → ∃ b, p = some b ∧ b.ident = e.id

structure Inv (s : Sys) : Prop where
  iS : InvS s
  iH : ∀ h, HOk s (s.handles h)
  rets : ∀ r, r ∈ s.rets → r.got = r.want
  np : s.panicked = false

theorem hOk_fresh (s : Sys) : HOk s Handle.fresh := by
  refine ⟨Nat.zero_le _, ?_, ?_, ?_, ?_, ?_, ?_, ?_⟩
  · intro c hc; cases hc
  · intro _; rfl
  · intro e he; cases he
  · intro c e hc; cases hc
  · intro c k hc; cases hc
  · intro i p e h; rcases h with h | h <;> cases h
  · intro i p e h; cases h

theorem inv_init (n : Nat) : Inv (Sys.init Cfg.fixed n) :=
  ⟨invS_init n, fun _ => hOk_fresh _, fun r hr => (by cases hr), rfl⟩

theorem EntryOk.step {s s' : Sys} {ev : Ev} (inv : InvS s) (hs : step s ev = some s') {e : Entry} {g : Nat}
    (hg : g ≤ s.pubGen) (h : EntryOk s e g) : EntryOk s' e g :=
  ⟨keeps_step inv hs hg h.2.1 h.1, safe_step inv hs hg h.2.1, h.2.2⟩

/-- a handle that did not act stays fine -/
theorem HOk.step {s s' : Sys} {ev : Ev} (inv : InvS s) (hs : step s ev = some s') {hd : Handle}
    (ok : HOk s hd) : HOk s' hd := by
  have hmono := (step_gen_mono inv hs).2
  refine ⟨Nat.le_trans ok.hg hmono, fun c hc => Nat.le_trans (ok.cgm c hc) hmono, ok.busy, ?_, ?_, ?_, ?_, ok.chk⟩
  · intro e he; exact (ok.ent e he).step inv hs ok.hg
  · intro c e hc he; exact (ok.acc c e hc he).step inv hs (ok.cgm c hc)
  · intro c k hc hk; exact safe_step inv hs (ok.cgm c hc) (ok.todo c k hc hk)
  · intro i p e hp he
    have hmem : e ∈ hd.entries := List.mem_of_getElem? he
    exact keepsOpt_step inv hs ok.hg (ok.ent e hmem).2.1 (ok.pin i p e hp he)

theorem HOk.of_same {s s' : Sys} {hd : Handle} (ok : HOk s hd) (h2 : s'.slots = s.slots)
    (h3 : s'.pubGen = s.pubGen) (h4 : s'.pubSlots = s.pubSlots) (h5 : s'.cons = s.cons) : HOk s' hd := by
  have hk : ∀ k id g, Keeps s k id g → Keeps s' k id g := fun k id g h => h.of_eq h2
  have hsf : ∀ k g, Safe s k g → Safe s' k g := fun k g h => h.of_eq h5 h3 h4
  have hko : ∀ k p g, KeepsOpt s k p g → KeepsOpt s' k p g := by
    intro k p g h
    cases p with
    | some b => exact hk _ _ _ h
    | none => unfold KeepsOpt at *; rw [h2]; exact h
  refine ⟨h3 ▸ ok.hg, fun c hc => h3 ▸ ok.cgm c hc, ok.busy, ?_, ?_, ?_, ?_, ok.chk⟩
  · intro e he; obtain ⟨a, b, c⟩ := ok.ent e he; exact ⟨hk _ _ _ a, hsf _ _ b, c⟩
  · intro c e hc he; obtain ⟨a, b, d⟩ := ok.acc c e hc he; exact ⟨hk _ _ _ a, hsf _ _ b, d⟩
  · intro c k hc hkk; exact hsf _ _ (ok.todo c k hc hkk)
  · intro i p e hp he; exact hko _ _ _ (ok.pin i p e hp he)

theorem mem_swap0 {α : Type} {l : List α} {i : Nat} {a : α} (h : a ∈ swap0 l i) : a ∈ l := by
  unfold swap0 at h
  split at h
  · rename_i x y hx hy
    rcases List.mem_or_eq_of_mem_set h with h1 | h1
    · rcases List.mem_or_eq_of_mem_set h1 with h2 | h2
      · exact h2
      · subst h2; exact List.mem_of_getElem? hy
    · subst h1; exact List.mem_of_getElem? hx
  · exact h

theorem mem_setPack {l : List Entry} {i : Nat} {p : Ident} {a : Entry} (h : a ∈ setPack l i p) :
    a ∈ l ∨ ∃ e, l[i]? = some e ∧ a = { e with pack := some p } := by
  unfold setPack at h
  split at h
  · rename_i e he
    rcases List.mem_or_eq_of_mem_set h with h1 | h1
    · exact Or.inl h1
    · exact Or.inr ⟨e, he, h1⟩
  · exact Or.inl h

/-- the acting handle goes back to idle (its snapshot is unchanged) -/
theorem HOk.toIdle {s : Sys} {hd : Handle} (ok : HOk s hd) : HOk s { hd with pc := RPc.idle } := by
  refine ⟨ok.hg, ok.cgm, fun h => absurd rfl h, ok.ent, ok.acc, ok.todo, ?_, ?_⟩
  · intro i p e hp; rcases hp with h | h <;> cases h
  · intro i p e h; cases h

/-- the acting handle received the pack `p` of the right installation for entry `i` -/
theorem HOk.withPack {s : Sys} {hd : Handle} (ok : HOk s hd) (i : Nat) (e : Entry) (p : Ident)
    (he : hd.entries[i]? = some e) (hp : p = e.id) :
    HOk s { hd with pc := RPc.idle, entries := setPack hd.entries i p } := by
  refine ⟨ok.hg, ok.cgm, fun h => absurd rfl h, ?_, ok.acc, ok.todo, ?_, ?_⟩
  · intro a ha
    rcases mem_setPack ha with h1 | ⟨e', he', rfl⟩
    · exact ok.ent a h1
    · rw [he] at he'; cases he'
      obtain ⟨k1, k2, _⟩ := ok.ent e (List.mem_of_getElem? he)
      exact ⟨k1, k2, fun q hq => by cases hq; exact hp⟩
  · intro i p e hp; rcases hp with h | h <;> cases h
  · intro i p e h; cases h

theorem step_inv {s s' : Sys} {ev : Ev} (inv : Inv s) (hs : step s ev = some s') : Inv s' := by
  have hS : InvS s' := step_invS inv.iS (fun h => (inv.iH h).hg) hs
  -- every handle, with its old data, is fine in the new state
  have base : ∀ h, HOk s' (s.handles h) := fun h => (inv.iH h).step inv.iS hs
  cases ev with
  | envAdd f o =>
    have hc := inv_env hs (Or.inl ⟨f, o, rfl⟩)
    exact ⟨hS, fun h => by rw [hc.2.2.2.2.1]; exact base h, by rw [hc.2.2.2.2.2.2.1]; exact inv.rets,
      by rw [hc.2.2.2.2.2.2.2]; exact inv.np⟩
  | envRemove f =>
    have hc := inv_env hs (Or.inr (Or.inl ⟨f, rfl⟩))
    exact ⟨hS, fun h => by rw [hc.2.2.2.2.1]; exact base h, by rw [hc.2.2.2.2.2.2.1]; exact inv.rets,
      by rw [hc.2.2.2.2.2.2.2]; exact inv.np⟩
  | envAddLoose o =>
    have hc := inv_env hs (Or.inr (Or.inr (Or.inl ⟨o, rfl⟩)))
    exact ⟨hS, fun h => by rw [hc.2.2.2.2.1]; exact base h, by rw [hc.2.2.2.2.2.2.1]; exact inv.rets,
      by rw [hc.2.2.2.2.2.2.2]; exact inv.np⟩
  | envRemoveLoose o =>
    have hc := inv_env hs (Or.inr (Or.inr (Or.inr (Or.inl ⟨o, rfl⟩))))
    exact ⟨hS, fun h => by rw [hc.2.2.2.2.1]; exact base h, by rw [hc.2.2.2.2.2.2.1]; exact inv.rets,
      by rw [hc.2.2.2.2.2.2.2]; exact inv.np⟩
  | newHandle =>
    have hc := inv_env hs (Or.inr (Or.inr (Or.inr (Or.inr rfl))))
    exact ⟨hS, fun h => by rw [hc.2.2.2.2.1]; exact base h, by rw [hc.2.2.2.2.2.2.1]; exact inv.rets,
      by rw [hc.2.2.2.2.2.2.2]; exact inv.np⟩
  | collBegin h =>
    obtain ⟨hpc, hcoll, rfl⟩ := inv_collBegin hs
    refine ⟨hS, fun h' => ?_, inv.rets, inv.np⟩
    by_cases hh : h' = h
    · subst hh
      simp only [setHandle_handles, if_true]
      have ok := base h'
      refine ⟨ok.hg, ?_, ?_, ok.ent, ?_, ?_, ok.pin, ok.chk⟩
      · intro c hc; cases hc; exact Nat.le_refl _
      · intro hne; exact absurd hpc hne
      · intro c e hc he; cases hc; cases he
      · intro c k hc hk; cases hc
        intro c' _ _ _ _
        show k ∈ s.pubSlots
        simp only [] at hk
        split at hk
        · exact hk
        · cases hk
    · simp only [setHandle_handles, if_neg hh]; exact base h'
  | collSlot h =>
    obtain ⟨c, k, rest, hcoll, htodo, rfl⟩ := inv_collSlot hs
    refine ⟨hS, fun h' => ?_, inv.rets, inv.np⟩
    by_cases hh : h' = h
    · subst hh
      simp only [setHandle_handles, if_true]
      have ok := inv.iH h'
      refine ⟨ok.hg, ?_, ?_, ?_, ?_, ?_, ?_, ?_⟩
      · intro c' hc'; cases hc'; exact ok.cgm c hcoll
      · intro hne; have := ok.busy hne; rw [hcoll] at this; cases this
      · intro e he; exact ok.ent e he
      · intro c' e hc' he; cases hc'
        have hold : ∀ e, e ∈ c.acc → EntryOk s e c.g := fun e he => ok.acc c e hcoll he
        have hsafe : Safe s k c.g := ok.todo c k hcoll (by rw [htodo]; exact List.mem_cons_self)
        simp only [] at he
        split at he
        · rename_i b hb
          split at he
          · rcases List.mem_append.mp he with h1 | h1
            · exact hold e h1
            · obtain ⟨e1, e2, _, e4⟩ := mem_entriesOf h1
              refine ⟨?_, ?_, ?_⟩
              · rw [e1, e2]; exact Or.inl ⟨b, hb, rfl⟩
              · rw [e1]; exact hsafe
              · intro p hp; rw [e2]; exact e4 p hp
          · exact hold e he
        · exact hold e he
      · intro c' k' hc' hk'; cases hc'
        exact ok.todo c k' hcoll (by rw [htodo]; exact List.mem_cons_of_mem _ hk')
      · intro i p e hp he; exact ok.pin i p e hp he
      · intro i p e hp he; exact ok.chk i p e hp he
    · simp only [setHandle_handles, if_neg hh]; exact base h'
  | collEnd h =>
    obtain ⟨c, hcoll, htodo, rfl⟩ := inv_collEnd hs
    refine ⟨hS, fun h' => ?_, inv.rets, inv.np⟩
    by_cases hh : h' = h
    · subst hh
      simp only [setHandle_handles, if_true]
      have ok := inv.iH h'
      have hidle : (s.handles h').pc = RPc.idle := by
        cases hpc : (s.handles h').pc with
        | idle => rfl
        | lp1 i => have := ok.busy (by rw [hpc]; intro h; cases h); rw [hcoll] at this; cases this
        | pinned i p => have := ok.busy (by rw [hpc]; intro h; cases h); rw [hcoll] at this; cases this
        | checked i p => have := ok.busy (by rw [hpc]; intro h; cases h); rw [hcoll] at this; cases this
      refine ⟨ok.cgm c hcoll, ?_, fun _ => rfl, ?_, ?_, ?_, ?_, ?_⟩
      · intro c' hc'; cases hc'
      · intro e he; exact ok.acc c e hcoll he
      · intro c' e hc'; cases hc'
      · intro c' k hc'; cases hc'
      · intro i p e hp; simp only [hidle] at hp; rcases hp with h | h <;> cases h
      · intro i p e hp; simp only [hidle] at hp; cases hp
    · simp only [setHandle_handles, if_neg hh]; exact base h'
  | promote h i =>
    obtain ⟨hpc, hcoll, rfl⟩ := inv_promote hs
    refine ⟨hS, fun h' => ?_, inv.rets, inv.np⟩
    by_cases hh : h' = h
    · subst hh
      simp only [setHandle_handles, if_true]
      have ok := inv.iH h'
      refine ⟨ok.hg, ok.cgm, ok.busy, ?_, ok.acc, ok.todo, ?_, ?_⟩
      · intro e he; exact ok.ent e (mem_swap0 he)
      · intro i p e hp; simp only [hpc] at hp; rcases hp with h | h <;> cases h
      · intro i p e hp; simp only [hpc] at hp; cases hp
    · simp only [setHandle_handles, if_neg hh]; exact base h'
  | retCached h i =>
    obtain ⟨e, p, he, hp, rfl⟩ := inv_retCached hs
    refine ⟨hS, fun h' => base h', ?_, inv.np⟩
    intro r hr
    rcases List.mem_cons.mp hr with h1 | h1
    · subst h1
      exact ((inv.iH h).ent e (List.mem_of_getElem? he)).2.2 p hp
    · exact inv.rets r h1
  | lp1 h i =>
    obtain ⟨hpc, hcoll, rfl | rfl⟩ := inv_lp1 hs
    · exact inv
    · refine ⟨hS, fun h' => ?_, inv.rets, inv.np⟩
      by_cases hh : h' = h
      · subst hh
        simp only [setHandle_handles, if_true]
        have ok := inv.iH h'
        refine ⟨ok.hg, ok.cgm, fun _ => hcoll, ok.ent, ok.acc, ok.todo, ?_, ?_⟩
        · intro i p e hp; rcases hp with h | h <;> cases h
        · intro i p e hp; cases hp
      · simp only [setHandle_handles, if_neg hh]; exact base h'
  | lp2 h =>
    obtain ⟨i, e, hpc, he, rfl⟩ := inv_lp2 hs
    refine ⟨hS, fun h' => ?_, inv.rets, inv.np⟩
    by_cases hh : h' = h
    · subst hh
      simp only [setHandle_handles, if_true]
      have ok := inv.iH h'
      have hcoll : (s.handles h').coll = none := ok.busy (by rw [hpc]; intro h; cases h)
      refine ⟨ok.hg, ok.cgm, fun _ => hcoll, ok.ent, ok.acc, ok.todo, ?_, ?_⟩
      · intro i' p e' hp he'
        have hi : i' = i ∧ p = (s.slots e.slot).files := by
          rcases hp with h | h
          · cases h; exact ⟨rfl, rfl⟩
          · cases h
        obtain ⟨rfl, rfl⟩ := hi
        have : e' = e := by
          have h1 : (s.handles h').entries[i']? = some e' := he'
          rw [he] at h1; cases h1; rfl
        subst this
        have hk := (ok.ent e' (List.mem_of_getElem? he)).1
        cases hf : (s.slots e'.slot).files with
        | some b => exact Or.inl ⟨b, hf, rfl⟩
        | none =>
          rcases hk with ⟨b, hb, _⟩ | hgt
          · rw [hf] at hb; cases hb
          · exact hgt
      · intro i' p e' hp; cases hp
    · simp only [setHandle_handles, if_neg hh]; exact base h'
  | lp3 h =>
    obtain ⟨i, p, e, hpc, he, ⟨hgt, rfl⟩ | ⟨hle, rfl⟩⟩ := inv_lp3 hs
    · refine ⟨hS, fun h' => ?_, inv.rets, inv.np⟩
      by_cases hh : h' = h
      · subst hh; simp only [setHandle_handles, if_true]; exact (base h').toIdle
      · simp only [setHandle_handles, if_neg hh]; exact base h'
    · refine ⟨hS, fun h' => ?_, inv.rets, inv.np⟩
      by_cases hh : h' = h
      · subst hh
        simp only [setHandle_handles, if_true]
        have ok := inv.iH h'
        have hcoll : (s.handles h').coll = none := ok.busy (by rw [hpc]; intro h; cases h)
        have hpin := ok.pin i p e (Or.inl hpc) he
        have hk := (ok.ent e (List.mem_of_getElem? he)).1
        -- the generation is still within the reader's: the slot holds what the entry came from
        obtain ⟨b0, hb0, hid0⟩ : ∃ b, (s.slots e.slot).files = some b ∧ b.ident = e.id := by
          rcases hk with h1 | h1
          · exact h1
          · omega
        have hchk : ∃ b, p = some b ∧ b.ident = e.id := by
          cases p with
          | none => simp only [KeepsOpt] at hpin; omega
          | some b =>
            rcases hpin with ⟨b1, hb1, hid1⟩ | h1
            · rw [hb0] at hb1; cases hb1; exact ⟨b, rfl, hid1.symm.trans hid0⟩
            · omega
        refine ⟨ok.hg, ok.cgm, fun _ => hcoll, ok.ent, ok.acc, ok.todo, ?_, ?_⟩
        · intro i' p' e' hp he'
          have hi : i' = i ∧ p' = p := by
            rcases hp with h | h
            · cases h
            · cases h; exact ⟨rfl, rfl⟩
          obtain ⟨hi1, hi2⟩ := hi
          have h1 : (s.handles h').entries[i]? = some e' := hi1 ▸ he'
          rw [he] at h1; cases h1
          rw [hi2]; exact hpin
        · intro i' p' e' hp he'
          have hi : i' = i ∧ p' = p := by cases hp; exact ⟨rfl, rfl⟩
          have h1 : (s.handles h').entries[i]? = some e' := hi.1 ▸ he'
          rw [he] at h1; cases h1
          rw [hi.2]; exact hchk
      · simp only [setHandle_handles, if_neg hh]; exact base h'
  | lp4 h =>
    obtain ⟨i, p, e, hpc, he, ⟨hp, rfl⟩ | ⟨b, hp, rfl⟩ | ⟨b, hp, rfl⟩⟩ := inv_lp4 hs
    · -- `unreachable!()`: excluded by `chk`
      obtain ⟨b, hb, _⟩ := (inv.iH h).chk i p e hpc he
      rw [hp] at hb; cases hb
    · refine ⟨hS, fun h' => ?_, inv.rets, inv.np⟩
      by_cases hh : h' = h
      · subst hh; simp only [setHandle_handles, if_true]; exact (base h').toIdle
      · simp only [setHandle_handles, if_neg hh]; exact base h'
    · obtain ⟨b', hb', hid⟩ := (inv.iH h).chk i p e hpc he
      rw [hp] at hb'; cases hb'
      refine ⟨hS, fun h' => ?_, ?_, inv.np⟩
      · by_cases hh : h' = h
        · subst hh; simp only [ret_handles, if_true]; exact (base h').withPack i e _ he hid
        · simp only [ret_handles, if_neg hh]; exact base h'
      · intro r hr
        simp only [ret_rets] at hr
        rcases List.mem_cons.mp hr with h1 | h1
        · subst h1; exact hid
        · exact inv.rets r h1
  | lp5 h =>
    obtain ⟨i, b, e, hpc, he, rfl | ⟨hre, hf, rfl⟩ | ⟨b', hre, hf, hcase⟩⟩ := inv_lp5 hs
    · refine ⟨hS, fun h' => ?_, inv.rets, inv.np⟩
      by_cases hh : h' = h
      · subst hh; simp only [setHandle_handles, if_true]; exact (base h').toIdle
      · simp only [setHandle_handles, if_neg hh]; exact base h'
    · -- `unreachable!()` under the lock: the generation was checked again, so the slot is not empty
      have hle := hre (Cfg.fixed_recheck inv.iS.cfg)
      rcases ((inv.iH h).ent e (List.mem_of_getElem? he)).1 with ⟨b0, hb0, _⟩ | hgt
      · rw [hf] at hb0; cases hb0
      · omega
    · have hle := hre (Cfg.fixed_recheck inv.iS.cfg)
      have hid : b'.ident = e.id := by
        rcases ((inv.iH h).ent e (List.mem_of_getElem? he)).1 with ⟨b0, hb0, hid0⟩ | hgt
        · rw [hf] at hb0; cases hb0; exact hid0
        · omega
      rcases hcase with rfl | rfl | rfl
      · refine ⟨hS, fun h' => ?_, ?_, inv.np⟩
        · by_cases hh : h' = h
          · subst hh; simp only [ret_handles, if_true]; exact (base h').withPack i e _ he hid
          · simp only [ret_handles, if_neg hh]; exact base h'
        · intro r hr
          simp only [ret_rets] at hr
          rcases List.mem_cons.mp hr with h1 | h1
          · subst h1; exact hid
          · exact inv.rets r h1
      · refine ⟨hS, fun h' => ?_, ?_, inv.np⟩
        · by_cases hh : h' = h
          · subst hh; simp only [ret_handles, if_true]; exact (base h').withPack i e _ he hid
          · simp only [ret_handles, if_neg hh]; exact base h'
        · intro r hr
          simp only [ret_rets] at hr
          rcases List.mem_cons.mp hr with h1 | h1
          · subst h1; exact hid
          · exact inv.rets r h1
      · refine ⟨hS, fun h' => ?_, inv.rets, inv.np⟩
        by_cases hh : h' = h
        · subst hh; simp only [setHandle_handles, if_true]; exact (base h').toIdle
        · simp only [setHandle_handles, if_neg hh]; exact base h'
  | loadIdx k gIx =>
    obtain ⟨_, _, rfl | ⟨b, b', _, hf, _, rfl⟩⟩ := inv_loadIdx hs
    · exact inv
    · exact ⟨hS, fun h' => base h', inv.rets, inv.np⟩
  | consBegin h => obtain ⟨_, rfl⟩ := inv_consBegin hs; exact ⟨hS, fun h' => base h', inv.rets, inv.np⟩
  | consSetGen k =>
    obtain ⟨c, hc, hpub, hpend, ⟨hf, rfl⟩ | ⟨hf, rfl⟩⟩ := inv_consSetGen hs <;>
      exact ⟨hS, fun h' => base h', inv.rets, inv.np⟩
  | consSetFiles k file multi =>
    obtain ⟨c, hc, hpub, hpend, rfl⟩ := inv_consSetFiles hs
    exact ⟨hS, fun h' => base h', inv.rets, inv.np⟩
  | consSetFilesM k file extra =>
    obtain ⟨c, hc, hpub, hpend, rfl⟩ := inv_consSetFilesM hs
    exact ⟨hS, fun h' => base h', inv.rets, inv.np⟩
  | consPutBack k =>
    obtain ⟨c, b, hc, hpub, hpend, hf, hd, rfl⟩ := inv_consPutBack hs
    exact ⟨hS, fun h' => base h', inv.rets, inv.np⟩
  | consPublish slots bump =>
    obtain ⟨c, hc, hpub, hpend, rfl⟩ := inv_consPublish hs
    exact ⟨hS, fun h' => base h', inv.rets, inv.np⟩
  | consTrash k =>
    obtain ⟨c, hc, hpub, hpend, rfl | ⟨b, hf, rfl⟩⟩ := inv_consTrash hs
    · exact inv
    · exact ⟨hS, fun h' => base h', inv.rets, inv.np⟩
  | consClearGen k =>
    obtain ⟨c, hc, hpub, hpend, hnot, hbump, rfl⟩ := inv_consClearGen hs
    exact ⟨hS, fun h' => base h', inv.rets, inv.np⟩
  | consClearFiles k =>
    obtain ⟨c, hc, hpub, hpend, rfl⟩ := inv_consClearFiles hs
    exact ⟨hS, fun h' => base h', inv.rets, inv.np⟩
  | consEnd =>
    obtain ⟨c, _, _, _, rfl⟩ := inv_consEnd hs
    exact ⟨hS, fun h' => base h', inv.rets, inv.np⟩

theorem run_inv {s s' : Sys} (sched : List Ev) (inv : Inv s) (hr : run s sched = some s') : Inv s' := by
  induction sched generalizing s with
  | nil => cases hr; exact inv
  | cons e es ih =>
    simp only [run] at hr
    split at hr
    · rename_i s1 hs1; exact ih (step_inv inv hs1) hr
    · cases hr

end GixModel.C12
