import GixModel.Lemmas.C29
/-
C29, round 2: `Writer::write` splits what it is given into lines of at most MAX_DATA_LEN bytes.
-/
namespace GixModel.C29
open GixModel

set_option linter.unusedSimpArgs false

/-- the chunks `Writer::write` cuts a buffer into: `k` bytes each, the last one shorter -/
def chunksOf (k : Nat) : Nat → Bytes → List Bytes
  | 0, _ => []
  | fuel + 1, buf =>
    if buf.isEmpty then [] else buf.take (min buf.length k) :: chunksOf k fuel (buf.drop (min buf.length k))

theorem encData_valid (c : Consts) (d : Bytes) (h1 : d ≠ []) (h2 : d.length ≤ c.maxDataLen) :
    encData c d = .ok (d.length + 4, wire c (.data d)) := by
  have he : d.isEmpty = false := by cases d with | nil => exact absurd rfl h1 | cons a b => rfl
  simp only [wire, encLine, encData, encode, List.length_nil, Nat.zero_add, Nat.add_zero, he,
    Bool.false_eq_true, if_false]
  rw [if_neg (by omega)]

theorem encText_valid (c : Consts) (d : Bytes) (h1 : d ≠ []) (h2 : d.length + 1 ≤ c.maxDataLen) :
    encText c d = .ok (d.length + 1 + 4, wire c (.data (d ++ [10]))) := by
  have he : d.isEmpty = false := by cases d with | nil => exact absurd rfl h1 | cons a b => rfl
  have he2 : (d ++ [10]).isEmpty = false := by cases d <;> rfl
  simp only [wire, encLine, encData, encText, encode, List.length_nil, Nat.zero_add, Nat.add_zero, he, he2,
    Bool.false_eq_true, if_false, List.length_append, List.length_cons, List.nil_append, List.append_nil]
  rw [if_neg (by omega), if_neg (by omega)]
  simp [List.append_assoc]

theorem writerLoop_binary (c : Consts) (hc : ConstsOk c) (fuel : Nat) :
    ∀ (buf out : Bytes), fuel ≥ buf.length + 1 →
      writerLoop c true fuel buf out =
        (out ++ wireAll c ((chunksOf c.maxDataLen fuel buf).map Line.data), true) ∧
      (chunksOf c.maxDataLen fuel buf).flatten = buf ∧
      ∀ ch ∈ chunksOf c.maxDataLen fuel buf, ch ≠ [] ∧ ch.length ≤ c.maxDataLen := by
  obtain ⟨_, h1, _⟩ := hc
  induction fuel with
  | zero => intro buf out h; omega
  | succ f ih =>
    intro buf out hf
    unfold writerLoop chunksOf
    by_cases he : buf.isEmpty
    · simp only [he, if_true]
      have : buf = [] := List.isEmpty_iff.mp he
      subst this
      simp [wireAll]
    · simp only [he, Bool.false_eq_true, if_false]
      have hne : buf ≠ [] := by intro h; subst h; simp at he
      have hpos : 0 < buf.length := List.length_pos_iff.mpr hne
      have hk : 1 ≤ min buf.length c.maxDataLen := by omega
      have hchunk_ne : buf.take (min buf.length c.maxDataLen) ≠ [] := by
        intro h
        have := congrArg List.length h
        simp only [List.length_take, List.length_nil] at this
        omega
      have hchunk_le : (buf.take (min buf.length c.maxDataLen)).length ≤ c.maxDataLen := by
        simp only [List.length_take]; omega
      rw [encData_valid c _ hchunk_ne hchunk_le]
      simp only [if_true]
      obtain ⟨e1, e2, e3⟩ := ih (buf.drop (min buf.length c.maxDataLen))
        (out ++ wire c (.data (buf.take (min buf.length c.maxDataLen))))
        (by simp only [List.length_drop]; omega)
      refine ⟨?_, ?_, ?_⟩
      · rw [e1]
        simp [wireAll, List.append_assoc]
      · simp only [List.flatten_cons, e2, List.take_append_drop]
      · intro ch hch
        simp only [List.mem_cons] at hch
        rcases hch with h | h
        · rw [h]; exact ⟨hchunk_ne, hchunk_le⟩
        · exact e3 ch h

end GixModel.C29
