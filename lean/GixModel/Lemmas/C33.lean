import GixModel.Model.C33
/-
Helper lemmas for C33: list facts about `find("://")` / `find_byte`, the assumed contracts of the
two external parameters (`url::Url::parse` as `P`, `str::from_utf8` as `utf8`) as NAMED hypotheses,
and the round-trip lemmas per input form.
-/
namespace GixModel.C33
open GixModel

/-! list facts about `find("://")` and `find_byte` -/

theorem findByte_append_of_not_mem (c : UInt8) (a b : Bytes) (h : c ∉ a) :
    findByte c (a ++ c :: b) = some a.length := by
  induction a with
  | nil => simp [findByte]
  | cons x xs ih =>
    have hx : (x == c) = false := by
      cases hxc : x == c with
      | false => rfl
      | true => simp only [beq_iff_eq] at hxc; subst hxc; simp at h
    have hxs : c ∉ xs := fun hm => h (List.mem_cons_of_mem _ hm)
    simp [findByte, hx, ih hxs]

theorem findByte_some_split {c : UInt8} {x : Bytes} {i : Nat} (h : findByte c x = some i) :
    x = x.take i ++ c :: x.drop (i + 1) ∧ c ∉ x.take i := by
  induction x generalizing i with
  | nil => simp [findByte] at h
  | cons b rest ih =>
    simp only [findByte] at h
    by_cases hb : b == c
    · simp only [hb, if_true, Option.some.injEq] at h
      subst h
      have : b = c := by simpa using hb
      subst this; simp
    · simp only [hb, Bool.false_eq_true, if_false] at h
      cases hr : findByte c rest with
      | none => simp [hr] at h
      | some j =>
        simp only [hr, Option.map_some, Option.some.injEq] at h
        subst h
        obtain ⟨h1, h2⟩ := ih hr
        refine ⟨by simp only [List.take_succ_cons, List.drop_succ_cons, List.cons_append]; rw [← h1], ?_⟩
        simp only [List.take_succ_cons, List.mem_cons, not_or]
        exact ⟨fun e => hb (by simp [e]), h2⟩

theorem findByte_none_iff {c : UInt8} {x : Bytes} : findByte c x = none ↔ c ∉ x := by
  induction x with
  | nil => simp [findByte]
  | cons b rest ih =>
    simp only [findByte]
    by_cases hb : b == c
    · have : b = c := by simpa using hb
      subst this; simp
    · simp only [hb, Bool.false_eq_true, if_false, Option.map_eq_none_iff, ih, List.mem_cons, not_or]
      constructor
      · intro h; exact ⟨fun e => hb (by simp [e]), h⟩
      · intro h; exact h.2

theorem findCSS_some_split {x : Bytes} {i : Nat} (h : findCSS x = some i) :
    x = x.take i ++ bCSS ++ x.drop (i + 3) := by
  induction x generalizing i with
  | nil => simp [findCSS] at h
  | cons b rest ih =>
    simp only [findCSS] at h
    split at h
    · rename_i hc
      simp only [Option.some.injEq] at h
      subst h
      simp only [Bool.and_eq_true, beq_iff_eq] at hc
      obtain ⟨hb, ht⟩ := hc
      subst hb
      simp only [List.take_zero, List.nil_append, bCSS, Nat.zero_add]
      match rest, ht with
      | p :: q :: tl, ht =>
        simp only [List.take_succ_cons, List.take_zero, List.cons.injEq, and_true] at ht
        obtain ⟨rfl, rfl⟩ := ht
        simp
    · cases hr : findCSS rest with
      | none => simp [hr] at h
      | some j =>
        simp only [hr, Option.map_some, Option.some.injEq] at h
        subst h
        have := ih hr
        simp only [List.take_succ_cons, List.drop_succ_cons, List.cons_append]
        rw [← List.cons_append, ← List.cons_append]
        congr 1

/-- no `:` in the prefix: the first `://` of `s ++ "://" ++ rest` is right after `s` -/
theorem findCSS_prefix (s rest : Bytes) (h : (58 : UInt8) ∉ s) : findCSS (s ++ bCSS ++ rest) = some s.length := by
  induction s with
  | nil => simp [findCSS, bCSS]
  | cons x xs ih =>
    have hx : (x == 58) = false := by
      cases hxc : x == 58 with
      | false => rfl
      | true => simp only [beq_iff_eq] at hxc; subst hxc; simp at h
    have hxs : (58 : UInt8) ∉ xs := fun hm => h (List.mem_cons_of_mem _ hm)
    simp only [List.cons_append, findCSS, hx, Bool.false_and, Bool.false_eq_true, if_false]
    have := ih hxs
    simp only [List.append_assoc] at this ⊢
    rw [this]; simp

theorem findCSS_append_none {a b : Bytes} (h : findCSS (a ++ b) = none) : findCSS b = none := by
  induction a with
  | nil => simpa using h
  | cons x xs ih =>
    simp only [List.cons_append, findCSS] at h
    split at h
    · simp at h
    · simp only [Option.map_eq_none_iff] at h
      exact ih h

/-- no `:` in `a`, and `:rest` does not begin with `://`: no `://` in `a ++ ":" ++ rest` -/
theorem findCSS_none_of_clean (a rest : Bytes) (ha : (58 : UInt8) ∉ a) (hr : findCSS (58 :: rest) = none) :
    findCSS (a ++ 58 :: rest) = none := by
  induction a with
  | nil => simpa using hr
  | cons x xs ih =>
    have hx : (x == 58) = false := by
      cases hxc : x == 58 with
      | false => rfl
      | true => simp only [beq_iff_eq] at hxc; subst hxc; simp at ha
    have hxs : (58 : UInt8) ∉ xs := fun hm => ha (List.mem_cons_of_mem _ hm)
    simp [findCSS, hx, ih hxs]



/-- the property for one input: if it parses, its serialisation exists and parses to the same URL -/
def RoundTrips (P : Bytes → Option StdUrl) (utf8 : Bytes → Bool) (input : Bytes) : Prop :=
  ∀ u, parse P utf8 input = .ok u → ∃ w, write u = some w ∧ parse P utf8 w = .ok u

/-- assumed contract of `std::str::from_utf8` (facts about UTF-8): ASCII is valid, concatenation of
valid strings is valid, cutting a valid string next to an ASCII byte leaves valid strings -/
structure Utf8Contract (utf8 : Bytes → Bool) : Prop where
  ascii : ∀ a : Bytes, (∀ b ∈ a, b < 128) → utf8 a = true
  append : ∀ a b : Bytes, utf8 a = true → utf8 b = true → utf8 (a ++ b) = true
  before_ascii : ∀ (a b : Bytes) (c : UInt8), c < 128 → utf8 (a ++ c :: b) = true → utf8 a = true
  after_ascii : ∀ (a b : Bytes) (c : UInt8), c < 128 → utf8 (a ++ c :: b) = true → utf8 b = true

theorem local_rt (P : Bytes → Option StdUrl) (utf8 : Bytes → Bool) (input : Bytes)
    (hc : findScheme input = .loc) : RoundTrips P utf8 input := by
  intro u hu
  simp only [parse, hc, parseLocal] at hu
  split at hu
  · simp at hu
  · simp only [Except.ok.injEq] at hu
    subst hu
    refine ⟨input, by simp [write], ?_⟩
    simp only [parse, hc, parseLocal]
    rename_i he
    simp [he]

theorem utf8_drop_css {utf8 : Bytes → Bool} (hU : Utf8Contract utf8) {x : Bytes} {pe : Nat}
    (hx : x = x.take pe ++ bCSS ++ x.drop (pe + 3)) (h : utf8 x = true) : utf8 (x.drop (pe + 3)) = true := by
  rw [hx] at h
  have h1 : utf8 ((x.take pe ++ [58, 47]) ++ 47 :: x.drop (pe + 3)) = true := by
    simpa [bCSS, List.append_assoc] using h
  exact hU.after_ascii _ _ 47 (by decide) h1

theorem findByte_lt {c : UInt8} {x : Bytes} {i : Nat} (h : findByte c x = some i) : i < x.length := by
  obtain ⟨h1, _⟩ := findByte_some_split h
  have := congrArg List.length h1
  simp only [List.length_append, List.length_take, List.length_cons, List.length_drop] at this
  omega

theorem drop_not_empty {x : Bytes} {k : Nat} (h : k < x.length) : (x.drop k).isEmpty = false := by
  cases hd : x.drop k with
  | nil =>
    have := congrArg List.length hd
    simp only [List.length_drop, List.length_nil] at this
    omega
  | cons _ _ => rfl

theorem file_rt (P : Bytes → Option StdUrl) (utf8 : Bytes → Bool) (hU : Utf8Contract utf8) (input : Bytes) (pe : Nat)
    (hc : findScheme input = .url pe) (hf : eqIgnoreCase (input.take pe) bFile = true) :
    RoundTrips P utf8 input := by
  intro u hu
  simp only [parse, hc, hf, if_true, parseFileUrl] at hu
  have hpe : findCSS input = some pe := by
    simp only [findScheme] at hc
    cases h : findCSS input with
    | some q => simp only [h, InputScheme.url.injEq] at hc; rw [hc]
    | none =>
      simp only [h] at hc
      split at hc
      · split at hc <;> simp at hc
      · simp at hc
  have hsplit := findCSS_some_split hpe
  cases hu8 : utf8 input with
  | false => simp [hu8] at hu
  | true =>
    have hua := utf8_drop_css hU hsplit hu8
    simp only [hu8, Bool.not_true, Bool.false_eq_true, if_false] at hu
    generalize input.drop (pe + 3) = after at hu hua
    cases hs : findByte 47 after with
    | none => simp [hs] at hu
    | some k =>
      simp only [hs, parseLocal] at hu
      have hne := drop_not_empty (findByte_lt hs)
      simp only [hne, Bool.false_eq_true, if_false, Except.ok.injEq] at hu
      subst hu
      -- the serialisation is `file://` followed by what followed `://` in the input
      have hw : write ⟨.file, none, none, (if (k == 0) = true then none else some (after.take k)),
          false, none, after.drop k⟩ = some (bFile ++ bCSS ++ after) := by
        by_cases hk : k = 0
        · subst hk; simp [write, Scheme.asBytes]
        · have : (k == 0) = false := by simpa using hk
          simp only [write, this, Bool.false_eq_true, if_false, Scheme.asBytes]
          simp [List.append_assoc, List.take_append_drop]
      refine ⟨_, hw, ?_⟩
      have hfc : findScheme (bFile ++ bCSS ++ after) = .url 4 := by
        have := findCSS_prefix bFile after (by decide)
        simp only [findScheme, this]; rfl
      have hutf : utf8 (bFile ++ bCSS ++ after) = true := by
        have h2 : utf8 (bFile ++ bCSS) = true := hU.ascii _ (by decide)
        exact hU.append _ _ h2 hua
      have htake : (bFile ++ bCSS ++ after).take 4 = bFile := by simp [bFile, bCSS]
      have hdrop : (bFile ++ bCSS ++ after).drop (4 + 3) = after := by simp [bFile, bCSS]
      have hself : eqIgnoreCase bFile bFile = true := by decide
      simp only [parse, hfc, htake, hself, if_true, parseFileUrl, hutf, Bool.not_true, Bool.false_eq_true, if_false,
        hdrop, hs, parseLocal, hne]



theorem digit_lt (k : Nat) (hk : k < 10) : UInt8.ofNat (48 + k) < 128 := by
  match k, hk with
  | 0, _ => decide
  | 1, _ => decide
  | 2, _ => decide
  | 3, _ => decide
  | 4, _ => decide
  | 5, _ => decide
  | 6, _ => decide
  | 7, _ => decide
  | 8, _ => decide
  | 9, _ => decide
  | k + 10, h => omega

theorem digitsFuel_ascii : ∀ (fuel n : Nat), ∀ x ∈ digitsFuel 10 fuel n, x < 128 := by
  intro fuel
  induction fuel with
  | zero => intro n x hx; simp [digitsFuel] at hx
  | succ f ih =>
    intro n x hx
    simp only [digitsFuel] at hx
    split at hx
    · rename_i hn
      simp only [List.mem_singleton] at hx
      subst hx
      exact digit_lt n hn
    · simp only [List.mem_append, List.mem_singleton] at hx
      cases hx with
      | inl h => exact ih _ x h
      | inr h => subst h; exact digit_lt (n % 10) (Nat.mod_lt _ (by omega))

theorem natDec_ascii (n : Nat) : ∀ x ∈ natDec n, x < 128 := digitsFuel_ascii _ n

/-- assumed contract of `url::Url::parse` + accessors, as far as gix-url's round trip depends on it -/
structure PContract (P : Bytes → Option StdUrl) (utf8 : Bytes → Bool) : Prop where
  /-- the accessors return `&str` -/
  fields_utf8 : ∀ x s, P x = some s → utf8 s.scheme = true ∧ utf8 s.username = true ∧
    (∀ p, s.password = some p → utf8 p = true) ∧ (∀ h, s.host = some h → utf8 h = true) ∧ utf8 s.path = true
  /-- a scheme never contains `:` -/
  scheme_clean : ∀ x s, P x = some s → (58 : UInt8) ∉ s.scheme
  /-- credentials come with a host -/
  cred_host : ∀ x s, P x = some s → (urlUser s).isSome = true → s.host.isSome = true
  /-- idempotence on the URL form: parsing gix-url's serialisation of a parsed URL gives the same
  fields back (and it still can be a base) -/
  render_url : ∀ x s w, P x = some s → s.cannotBeABase = false → write (urlOfStd s false s.path) = some w →
    ∃ s', P w = some s' ∧ urlOfStd s' false s'.path = urlOfStd s false s.path ∧ s'.cannotBeABase = false
  /-- scp-like input: `ssh://` + a host part without `:` gives scheme ssh, no port, no password, and
  neither `:` nor `/` in the user name and host -/
  scp_shape : ∀ h s, (58 : UInt8) ∉ h → P (bSshCSS ++ h) = some s →
    s.scheme = bSsh ∧ s.port = none ∧ s.password = none ∧ (58 : UInt8) ∉ s.username ∧ (47 : UInt8) ∉ s.username ∧
    (∀ hh, s.host = some hh → (58 : UInt8) ∉ hh ∧ (47 : UInt8) ∉ hh)
  /-- idempotence on the scp form: parsing `ssh://` + the rendered `user@host` gives the same fields back -/
  render_scp : ∀ h s a, P (bSshCSS ++ h) = some s → write (urlOfStd s true []) = some (a ++ [58]) →
    ∃ s', P (bSshCSS ++ a) = some s' ∧ urlOfStd s' true [] = urlOfStd s true []

theorem asBytes_clean {sc : Bytes} (h : (58 : UInt8) ∉ sc) : (58 : UInt8) ∉ (schemeOf sc).asBytes := by
  simp only [schemeOf]
  split
  · decide
  · split
    · decide
    · split
      · decide
      · split
        · decide
        · split
          · decide
          · exact h

theorem asBytes_utf8 {utf8 : Bytes → Bool} (hU : Utf8Contract utf8) {sc : Bytes} (h : utf8 sc = true) :
    utf8 (schemeOf sc).asBytes = true := by
  simp only [schemeOf]
  split
  · exact hU.ascii _ (by decide)
  · split
    · exact hU.ascii _ (by decide)
    · split
      · exact hU.ascii _ (by decide)
      · split
        · exact hU.ascii _ (by decide)
        · split
          · exact hU.ascii _ (by decide)
          · exact h

/-- the serialisation of a URL built from a parsed `url::Url` is valid UTF-8 if its path is -/
theorem write_utf8 {P : Bytes → Option StdUrl} {utf8 : Bytes → Bool} (hU : Utf8Contract utf8) (hP : PContract P utf8)
    {x : Bytes} {s : StdUrl} (hs : P x = some s) {alt : Bool} {path w : Bytes} (hp : utf8 path = true)
    (hw : write (urlOfStd s alt path) = some w) : utf8 w = true := by
  obtain ⟨f1, f2, f3, f4, _⟩ := hP.fields_utf8 x s hs
  have hsch := asBytes_utf8 hU f1
  have hcss : utf8 bCSS = true := hU.ascii _ (by decide)
  have h58 : utf8 [58] = true := hU.ascii _ (by decide)
  have h64 : utf8 [64] = true := hU.ascii _ (by decide)
  have hnil : utf8 [] = true := hU.ascii _ (by simp)
  have hport : utf8 (match s.port with
      | some p => [58] ++ natDec p
      | none => []) = true := by
    cases s.port with
    | none => exact hnil
    | some p => exact hU.append _ _ h58 (hU.ascii _ (natDec_ascii p))
  have hpre : utf8 (if !(alt && (schemeOf s.scheme == Scheme.file || schemeOf s.scheme == Scheme.ssh)) then
      (schemeOf s.scheme).asBytes ++ bCSS else []) = true := by
    split
    · exact hU.append _ _ hsch hcss
    · exact hnil
  have hcolon : utf8 (if alt && schemeOf s.scheme == Scheme.ssh then [58] else []) = true := by
    split
    · exact h58
    · exact hnil
  simp only [write, urlOfStd] at hw
  have huser : ∀ u, urlUser s = some u → utf8 u = true := by
    intro u hu
    simp only [urlUser] at hu
    split at hu
    · simp at hu
    · simp only [Option.some.injEq] at hu; rw [← hu]; exact f2
  cases hu : urlUser s with
  | none =>
    cases hh : s.host with
    | none =>
      simp only [hu, hh, Option.some.injEq] at hw
      rw [← hw]
      exact hU.append _ _ (hU.append _ _ (hU.append _ _ (hU.append _ _ hpre hnil) hport) hcolon) hp
    | some host =>
      simp only [hu, hh, Option.some.injEq] at hw
      rw [← hw]
      exact hU.append _ _ (hU.append _ _ (hU.append _ _ (hU.append _ _ hpre (f4 host hh)) hport) hcolon) hp
  | some user =>
    cases hh : s.host with
    | none => simp [hu, hh] at hw
    | some host =>
      simp only [hu, hh, Option.some.injEq] at hw
      rw [← hw]
      have hpw : utf8 (match s.password with
          | some p => [58] ++ p
          | none => []) = true := by
        cases hpw : s.password with
        | none => exact hnil
        | some p => exact hU.append _ _ h58 (f3 p hpw)
      have hauth := hU.append _ _ (hU.append _ _ (hU.append _ _ (huser user hu) hpw) h64) (f4 host hh)
      exact hU.append _ _ (hU.append _ _ (hU.append _ _ (hU.append _ _ hpre hauth) hport) hcolon) hp



theorem write_noalt_prefix {sc : Scheme} {us pw ho : Option Bytes} {po : Option Nat} {pa w : Bytes}
    (h : write ⟨sc, us, pw, ho, false, po, pa⟩ = some w) : ∃ rest, w = sc.asBytes ++ bCSS ++ rest := by
  have hp : (sc.asBytes ++ bCSS) <+: w := by
    simp only [write] at h
    cases us <;> cases ho <;> simp only [Bool.false_and, Bool.not_false, if_true, Bool.false_eq_true, if_false,
      Option.some.injEq] at h
    · rw [← h]; simp only [List.append_assoc]; rw [← List.append_assoc]; exact List.prefix_append _ _
    · rw [← h]; simp only [List.append_assoc]; rw [← List.append_assoc]; exact List.prefix_append _ _
    · simp at h
    · rw [← h]; simp only [List.append_assoc]; rw [← List.append_assoc]; exact List.prefix_append _ _
  obtain ⟨t, ht⟩ := hp
  exact ⟨t, ht.symm⟩

theorem findScheme_url_of_prefix (sch rest : Bytes) (h : (58 : UInt8) ∉ sch) :
    findScheme (sch ++ bCSS ++ rest) = .url sch.length := by
  simp only [findScheme, findCSS_prefix sch rest h]

theorem findScheme_url_inv {input : Bytes} {pe : Nat} (hc : findScheme input = .url pe) : findCSS input = some pe := by
  simp only [findScheme] at hc
  cases h : findCSS input with
  | some q => simp only [h, InputScheme.url.injEq] at hc; rw [hc]
  | none =>
    simp only [h] at hc
    split at hc
    · split at hc <;> simp at hc
    · simp at hc

/-- round trip of the URL form, relative to the url crate's contract; side conditions: the parsed scheme is
not `file` (such inputs re-parse through `file_url`), and the serialisation passes the MAX_LEN guard
(known finding otherwise) -/
theorem url_rt (P : Bytes → Option StdUrl) (utf8 : Bytes → Bool) (hU : Utf8Contract utf8) (hP : PContract P utf8)
    (input : Bytes) (pe : Nat) (hc : findScheme input = .url pe)
    (hnf : eqIgnoreCase (input.take pe) bFile = false) (u : Url) (hu : parse P utf8 input = .ok u)
    (hnotfile : eqIgnoreCase u.scheme.asBytes bFile = false)
    (hlen : ∀ w, write u = some w → exceedsMaxLen w u.scheme.asBytes.length = false) :
    ∃ w, write u = some w ∧ parse P utf8 w = .ok u := by
  simp only [parse, hc, hnf, Bool.false_eq_true, if_false, parseUrl] at hu
  split at hu
  · simp at hu
  · split at hu
    · simp at hu
    · cases hs : P input with
      | none => simp [hs] at hu
      | some s =>
        simp only [hs] at hu
        split at hu
        · simp at hu
        · rename_i hmiss
          split at hu
          · simp at hu
          · rename_i hcb
            simp only [Except.ok.injEq] at hu
            subst hu
            have hcb' : s.cannotBeABase = false := by simpa using hcb
            -- (A) the serialisation exists
            cases hw : write (urlOfStd s false s.path) with
            | none =>
              exfalso
              simp only [write, urlOfStd] at hw
              cases huu : urlUser s with
              | none => cases hh : s.host <;> simp [huu, hh] at hw
              | some usr =>
                cases hh : s.host with
                | some _ => simp [huu, hh] at hw
                | none =>
                  have := hP.cred_host input s hs (by simp [huu])
                  simp [hh] at this
            | some w =>
              refine ⟨w, rfl, ?_⟩
              obtain ⟨rest, hwr⟩ := write_noalt_prefix (by simpa [urlOfStd] using hw)
              have hclean := asBytes_clean (hP.scheme_clean input s hs)
              have hfs := findScheme_url_of_prefix (schemeOf s.scheme).asBytes rest hclean
              have htake : w.take (schemeOf s.scheme).asBytes.length = (schemeOf s.scheme).asBytes := by
                rw [hwr]; simp [List.append_assoc]
              have hl := hlen w hw
              simp only [urlOfStd] at hl hnotfile
              have hutf := write_utf8 hU hP hs (hP.fields_utf8 input s hs).2.2.2.2 hw
              obtain ⟨s', hs', heq, hcb2⟩ := hP.render_url input s w hs hcb' hw
              have hsch : schemeOf s'.scheme = schemeOf s.scheme := by
                have := congrArg Url.scheme heq; simpa [urlOfStd] using this
              have hpath : s'.path = s.path := by
                have := congrArg Url.path heq; simpa [urlOfStd] using this
              rw [← hwr] at hfs
              simp only [parse, hfs, htake, hnotfile, Bool.false_eq_true, if_false, parseUrl, hl, hutf, Bool.not_true,
                hs', hsch, hpath, hmiss, hcb2]
              rw [hpath] at heq
              rw [heq]



/-- `user@host` / `host` as `write_to` renders it for an scp-like URL -/
def scpAuth (s : StdUrl) : Option Bytes :=
  match urlUser s, s.host with
  | some user, some host => some (user ++ [64] ++ host)
  | none, some host => some host
  | none, none => some []
  | some _, none => none

theorem write_scp (s : StdUrl) (hsch : s.scheme = bSsh) (hport : s.port = none) (hpw : s.password = none)
    (path : Bytes) : write (urlOfStd s true path) = (scpAuth s).map (fun a => a ++ 58 :: path) := by
  have h1 : schemeOf s.scheme = .ssh := by rw [hsch]; decide
  simp only [write, urlOfStd, h1, hport, hpw, scpAuth]
  cases urlUser s <;> cases s.host <;> simp

theorem scpAuth_clean {s : StdUrl} {a : Bytes} (h : scpAuth s = some a)
    (hu : (58 : UInt8) ∉ s.username ∧ (47 : UInt8) ∉ s.username)
    (hh : ∀ hh, s.host = some hh → (58 : UInt8) ∉ hh ∧ (47 : UInt8) ∉ hh) :
    (58 : UInt8) ∉ a ∧ (47 : UInt8) ∉ a := by
  simp only [scpAuth] at h
  have huser : ∀ u, urlUser s = some u → u = s.username := by
    intro u hu'
    simp only [urlUser] at hu'
    split at hu'
    · simp at hu'
    · simpa using hu'.symm
  cases hus : urlUser s with
  | none =>
    cases hho : s.host with
    | none => simp only [hus, hho, Option.some.injEq] at h; subst h; simp
    | some host => simp only [hus, hho, Option.some.injEq] at h; subst h; exact hh host hho
  | some user =>
    cases hho : s.host with
    | none => simp [hus, hho] at h
    | some host =>
      simp only [hus, hho, Option.some.injEq] at h
      subst h
      have := huser user hus
      subst this
      obtain ⟨h1, h2⟩ := hh host hho
      simp only [List.mem_append, List.mem_singleton, not_or]
      exact ⟨⟨⟨hu.1, by decide⟩, h1⟩, ⟨⟨hu.2, by decide⟩, h2⟩⟩

theorem urlOfStd_path {s s' : StdUrl} {alt : Bool} (h : urlOfStd s' alt [] = urlOfStd s alt []) (p : Bytes) :
    urlOfStd s' alt p = urlOfStd s alt p := by
  simp only [urlOfStd, Url.mk.injEq, and_true] at h ⊢
  exact ⟨h.1, h.2.1, h.2.2.1, h.2.2.2.1, h.2.2.2.2⟩

theorem findScheme_scp_inv {input : Bytes} {colon : Nat} (hc : findScheme input = .scp colon) :
    findCSS input = none ∧ findByte 58 input = some colon ∧ (input.take colon).contains 47 = false := by
  simp only [findScheme] at hc
  cases h : findCSS input with
  | some q => simp [h] at hc
  | none =>
    simp only [h] at hc
    cases h2 : findByte 58 input with
    | none => simp [h2] at hc
    | some c =>
      simp only [h2] at hc
      split at hc
      · simp at hc
      · rename_i hcont
        simp only [InputScheme.scp.injEq] at hc
        subst hc
        exact ⟨rfl, rfl, by simpa using hcont⟩

/-- round trip of the scp-like form, relative to the url crate's contract -/
theorem scp_rt (P : Bytes → Option StdUrl) (utf8 : Bytes → Bool) (hU : Utf8Contract utf8) (hP : PContract P utf8)
    (input : Bytes) (colon : Nat) (hc : findScheme input = .scp colon) : RoundTrips P utf8 input := by
  intro u hu
  obtain ⟨hcss, hcol, hnoslash⟩ := findScheme_scp_inv hc
  obtain ⟨hsplit, hnocolon⟩ := findByte_some_split hcol
  simp only [parse, hc, parseScp] at hu
  cases hu8 : utf8 input with
  | false => simp [hu8] at hu
  | true =>
    simp only [hu8, Bool.not_true, Bool.false_eq_true, if_false] at hu
    split at hu
    · simp at hu
    · rename_i hpne
      cases hs : P (bSshCSS ++ input.take colon) with
      | none => simp [hs] at hu
      | some s =>
        simp only [hs, Except.ok.injEq] at hu
        subst hu
        obtain ⟨hsch, hport, hpw, hu1, hu2, hhost⟩ := hP.scp_shape _ s hnocolon hs
        have hwr := write_scp s hsch hport hpw
        cases ha : scpAuth s with
        | none =>
          exfalso
          simp only [scpAuth] at ha
          cases huu : urlUser s with
          | none => cases hh : s.host <;> simp [huu, hh] at ha
          | some usr =>
            cases hh : s.host with
            | some _ => simp [huu, hh] at ha
            | none =>
              have := hP.cred_host _ s hs (by simp [huu])
              simp [hh] at this
        | some a =>
          obtain ⟨hc58, hc47⟩ := scpAuth_clean ha ⟨hu1, hu2⟩ hhost
          have hw : write (urlOfStd s true (input.drop (colon + 1))) = some (a ++ 58 :: input.drop (colon + 1)) := by
            rw [hwr, ha]; rfl
          refine ⟨_, hw, ?_⟩
          -- classification of the serialisation
          have hcss2 : findCSS (58 :: input.drop (colon + 1)) = none := by
            rw [hsplit] at hcss
            exact findCSS_append_none hcss
          have h1 : findCSS (a ++ 58 :: input.drop (colon + 1)) = none := findCSS_none_of_clean a _ hc58 hcss2
          have h2 : findByte 58 (a ++ 58 :: input.drop (colon + 1)) = some a.length :=
            findByte_append_of_not_mem 58 a _ hc58
          have h3 : ((a ++ 58 :: input.drop (colon + 1)).take a.length).contains 47 = false := by
            simp only [List.take_left']
            simpa using hc47
          have hfs : findScheme (a ++ 58 :: input.drop (colon + 1)) = .scp a.length := by
            simp only [findScheme, h1, h2, h3]; simp
          -- UTF-8
          have hpu : utf8 (input.drop (colon + 1)) = true := by
            rw [hsplit] at hu8
            exact hU.after_ascii _ _ 58 (by decide) hu8
          have hutf := write_utf8 hU hP hs hpu hw
          -- the url crate on the rendered authority
          have hw0 : write (urlOfStd s true []) = some (a ++ [58]) := by
            rw [hwr, ha]; rfl
          obtain ⟨s', hs', heq⟩ := hP.render_scp _ s a hs hw0
          have htk : (a ++ 58 :: input.drop (colon + 1)).take a.length = a := by simp
          have hdr : (a ++ 58 :: input.drop (colon + 1)).drop (a.length + 1) = input.drop (colon + 1) := by simp
          simp only [parse, hfs, parseScp, hutf, Bool.not_true, Bool.false_eq_true, if_false, htk, hdr, hpne, hs']
          rw [urlOfStd_path heq]


/-- a parser that answers every query with `ssh://<1025 × 'a'>/x` -/
def longHostP : Bytes → Option StdUrl :=
  fun _ => some ⟨bSsh, [], none, some (List.replicate 1025 97), none, [47, 120], false⟩


end GixModel.C33
