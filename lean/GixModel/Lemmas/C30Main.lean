import GixModel.Lemmas.C30V1c
/-
C30 — assembling the v0/v1 round trip (any symref capabilities: up to order; git's shape: exact
order) and totality of the parsers.
-/
namespace GixModel.C30
open GixModel
open GixModel.Spec.C30

theorem expectV1_eq (s : V1Server) :
    (s.entries.map fun e => irefOf (lookupSym e.name s.symrefs) e).map toRefD = expectV1 s := by
  simp only [expectV1, List.map_map]
  apply List.map_congr_left
  intro e _
  simp only [Function.comp, toRefD_irefOf]
  cases lookupSym e.name s.symrefs <;> rfl

theorem runBody_inv (s : V1Server) (h : WfV1 s) :
    ∃ out' rem', runBody s = .ok { refs := out', shallow := s.shallow } ∧
      Inv s.symrefs.length out' rem' (s.entries.map fun e => irefOf (lookupSym e.name s.symrefs) e) := by
  have hinv0 : Inv s.symrefs.length (s.symrefs.map mkL) s.symrefs [] := by
    refine ⟨by simp, ?_, by simp⟩
    intro y hy
    rw [List.drop_eq_nil_of_le (by simp)] at hy
    simp at hy
  obtain ⟨out', rem', hrun, hinv⟩ := entries_loop s.symrefs.length s.symrefs s.entries
    (s.symrefs.map mkL) s.symrefs [] [] (shallowLines s.shallow) h.entries h.namesNodup h.symNodup
    (fun _ _ => rfl) hinv0
  refine ⟨out', rem', ?_, by simpa using hinv⟩
  unfold runBody bodyLines
  rw [hrun, parseV1Lines_shallow _ _ _ _ h.shallow]
  simp

/-- the refs the handshake reports are the expected ones, possibly in another order -/
theorem v1_roundtrip_perm (s : V1Server) (h : WfV1 s) :
    ∃ rs, handshakeV1 (advertiseV1 s) =
        some (.ok { proto := if (advertiseV1 s).isEmpty then 0 else 1, refs := rs, shallow := s.shallow }) ∧
      rs.Perm (expectV1 s) := by
  obtain ⟨out', rem', hrun, hinv⟩ := runBody_inv s h
  refine ⟨(out'.filter fun r => !r.isLookup).map toRefD, ?_, ?_⟩
  · exact handshake_reduce s h _ _ hrun (intoRefs_eq out')
  · have h1 := (hinv.perm.filter fun r => !r.isLookup).map toRefD
    rw [List.filter_append, filter_mkL, List.nil_append, filter_noLookup _ hinv.doneNoLookup, expectV1_eq] at h1
    exact h1

/-! ### exact order for what git sends -/

theorem entries_loop_plain (k : Nat) (es : List Entry) :
    ∀ (out : List IRef) (sh : List Oid) (more : List Bytes), (∀ e ∈ es, WfEntry e) →
      (∀ e ∈ es, ∀ x ∈ out, lookupHasPath e.name x = false) →
      parseV1Lines k { refs := out, shallow := sh } (es.flatMap (fun e => refLines e []) ++ more) =
        parseV1Lines k { refs := out ++ es.map (irefOf none), shallow := sh } more := by
  induction es with
  | nil => intro out sh more _ _; simp
  | cons e es ih =>
    intro out sh more hwf hno
    have he := hwf e (by simp)
    have hpos : position (lookupHasPath e.name) k out = none :=
      position_eq_none _ _ _ (fun x hx => hno e (by simp) x (List.mem_of_mem_take hx))
    simp only [List.flatMap_cons, List.append_assoc]
    rw [entry_step_plain k out sh e he _ hpos, ih _ sh more (fun x hx => hwf x (by simp [hx]))]
    · simp
    · intro e' he' x hx
      rcases List.mem_append.mp hx with h1 | h1
      · exact hno e' (by simp [he']) x h1
      · simp only [List.mem_singleton] at h1
        subst h1
        have := irefOf_not_lookup none e
        cases hi : irefOf none e <;> simp_all [lookupHasPath, IRef.isLookup]

/-- git's shape: at most one `symref=` capability, and if there is one it names the first
advertised ref (HEAD) or no advertised ref at all (HEAD hidden) -/
def GitShape (s : V1Server) : Prop :=
  s.symrefs = [] ∨ ∃ n t, s.symrefs = [(n, t)] ∧ ∀ e ∈ s.entries.tail, e.name ≠ n

theorem lookupHasPath_irefOf (name : Bytes) (t : Option Bytes) (e : Entry) :
    lookupHasPath name (irefOf t e) = false := by
  have := irefOf_not_lookup t e
  cases hi : irefOf t e <;> simp_all [lookupHasPath, IRef.isLookup]

theorem runBody_exact (s : V1Server) (h : WfV1 s) (hg : GitShape s) :
    ∃ out', runBody s = .ok { refs := out', shallow := s.shallow } ∧
      (out'.filter fun r => !r.isLookup).map toRefD = expectV1 s := by
  unfold runBody bodyLines
  rcases hg with hs | ⟨n, t, hs, htail⟩
  · -- no symref capability
    rw [hs]
    refine ⟨s.entries.map (irefOf none), ?_, ?_⟩
    · simp only [List.map_nil, List.length_nil]
      rw [entries_loop_plain 0 s.entries [] [] _ h.entries (by simp),
        parseV1Lines_shallow _ _ _ _ h.shallow]
      simp
    · rw [filter_noLookup _ (by
        intro x hx
        obtain ⟨e, _, rfl⟩ := List.mem_map.mp hx
        exact irefOf_not_lookup _ _)]
      simp only [expectV1, hs, List.map_map]
      apply List.map_congr_left
      intro e _
      have := toRefD_irefOf [] e
      simpa [lookupSym] using this
  · rw [hs]
    simp only [List.map_cons, List.map_nil, List.length_cons, List.length_nil]
    cases hes : s.entries with
    | nil =>
      refine ⟨[mkL (n, t)], ?_, ?_⟩
      · simp only [List.flatMap_nil, List.nil_append]
        rw [parseV1Lines_shallow _ _ _ _ h.shallow]; simp
      · simp [expectV1, hes, mkL, IRef.isLookup]
    | cons e es =>
      have he := h.entries e (by simp [hes])
      have hwf' : ∀ x ∈ es, WfEntry x := fun x hx => h.entries x (by simp [hes, hx])
      have htail' : ∀ x ∈ es, x.name ≠ n := by simpa [hes] using htail
      have hexp_tail : ∀ x ∈ es, toRefD (irefOf none x) =
          (match lookupSym x.name [(n, t)] with | some t => symRef x t | none => plainRef x) := by
        intro x hx
        have hne : n ≠ x.name := fun e => htail' x hx e.symm
        have := toRefD_irefOf [(n, t)] x
        simpa [lookupSym, hne] using this
      by_cases hen : e.name = n
      · -- HEAD is the first line: its lookup entry is the only element, swap_remove leaves nothing
        have hpos : position (lookupHasPath e.name) 1 [mkL (n, t)] = some 0 := by
          simp [position, mkL, lookupHasPath, hen]
        have hsr : swapRemove [mkL (n, t)] 0 = some (.lookup n (some t), []) := rfl
        refine ⟨irefOf (some t) e :: es.map (irefOf none), ?_, ?_⟩
        · simp only [List.flatMap_cons, List.append_assoc]
          rw [entry_step_symbolic 1 _ [] e he _ 0 hpos n t [] hsr,
            entries_loop_plain 1 es _ [] _ hwf' (by
              intro e' _ x hx
              simp only [List.nil_append, List.mem_singleton] at hx
              subst hx
              exact lookupHasPath_irefOf _ _ _),
            parseV1Lines_shallow _ _ _ _ h.shallow]
          simp
        · rw [filter_noLookup _ (by
            intro x hx
            rcases List.mem_cons.mp hx with h1 | h1
            · subst h1; exact irefOf_not_lookup _ _
            · obtain ⟨e', _, rfl⟩ := List.mem_map.mp h1
              exact irefOf_not_lookup _ _)]
          simp only [expectV1, hes, hs, List.map_cons, List.map_map]
          congr 1
          · have := toRefD_irefOf [(n, t)] e
            simpa [lookupSym, hen] using this
          · apply List.map_congr_left
            intro x hx
            exact hexp_tail x hx
      · -- the capability names no advertised ref (HEAD is hidden): it stays unused and is dropped
        have hne : n ≠ e.name := fun h => hen h.symm
        refine ⟨mkL (n, t) :: (e :: es).map (irefOf none), ?_, ?_⟩
        · rw [entries_loop_plain 1 (e :: es) [mkL (n, t)] [] _ (by simpa [hes] using h.entries) (by
              intro e' he' x hx
              simp only [List.mem_singleton] at hx
              subst hx
              have : n ≠ e'.name := by
                rcases List.mem_cons.mp he' with h1 | h1
                · subst h1; exact hne
                · exact fun e => htail' e' h1 e.symm
              simp [mkL, lookupHasPath, this]),
            parseV1Lines_shallow _ _ _ _ h.shallow]
          simp
        · have hL : (mkL (n, t)).isLookup = true := rfl
          rw [List.filter_cons]
          simp only [hL, Bool.not_true, Bool.false_eq_true, if_false]
          rw [filter_noLookup _ (by
            intro x hx
            obtain ⟨e', _, rfl⟩ := List.mem_map.mp hx
            exact irefOf_not_lookup _ _)]
          simp only [expectV1, hes, hs, List.map_cons, List.map_map]
          congr 1
          · have := toRefD_irefOf [(n, t)] e
            simpa [lookupSym, hne] using this
          · apply List.map_congr_left
            intro x hx
            exact hexp_tail x hx

theorem v1_roundtrip_exact (s : V1Server) (h : WfV1 s) (hg : GitShape s) :
    handshakeV1 (advertiseV1 s) =
      some (.ok { proto := if (advertiseV1 s).isEmpty then 0 else 1, refs := expectV1 s, shallow := s.shallow }) := by
  obtain ⟨out', hrun, hexp⟩ := runBody_exact s h hg
  have := handshake_reduce s h _ _ hrun (intoRefs_eq out')
  rw [hexp] at this
  exact this

end GixModel.C30
