import GixModel.Lemmas.C02Prim
/-
C02 helper lemmas, part 2: the signature decoder on what the signature writer prints
(time_roundtrip / signature_roundtrip), and the explicit writable domains.
-/
namespace GixModel.C02
open GixModel GixModel.C01 GixModel.Spec.C02

/-! ### the writable (round-trip) domain of DESIGN.md §6 C01, explicit and decidable -/

/-- i64 seconds; an offset the writer accepts (`< 100 h`) that is minute-granular (the writer
truncates to minutes) and whose sign agrees with `sign` (the writer prints `sign`, the decoder
derives the offset's sign from it; for offset 0 both signs round-trip: `+0000` / `-0000`). -/
def TimeWritable (t : Time) : Prop :=
  i64Lo ≤ t.seconds ∧ t.seconds ≤ i64Hi ∧ t.offset.natAbs < 360000 ∧ t.offset % 60 = 0
  ∧ (t.offset < 0 → t.minus = true) ∧ (0 < t.offset → t.minus = false)

instance (t : Time) : Decidable (TimeWritable t) := by unfold TimeWritable; infer_instance

/-- name/email without `<`, `>`, LF (else the writer refuses); the email not surrounded by
whitespace (the decoder trims it); the name is unrestricted beyond that. -/
def SigWritable (s : Signature) : Prop :=
  illegalToken s.name = false ∧ illegalToken s.email = false
  ∧ (s.email.head?.map isWs ≠ some true) ∧ (s.email.getLast?.map isWs ≠ some true)
  ∧ TimeWritable s.time

instance (s : Signature) : Decidable (SigWritable s) := by unfold SigWritable; infer_instance

/-! ### time -/

theorem intDec_bytes (s : Int) : ∀ b ∈ intDec s, (b == 32) = false ∧ (b == 10) = false ∧ (b == 62) = false := by
  intro b hb
  obtain ⟨_, h2, _⟩ := natDec_facts s.natAbs
  unfold intDec at hb
  by_cases hs : s < 0
  · simp only [hs, if_true, List.mem_cons] at hb
    rcases hb with rfl | hb
    · decide
    · have := isDigit_ne (h2 b hb)
      exact ⟨this.1, this.2.2.2.1, this.2.2.2.2⟩
  · simp only [hs, if_false] at hb
    have := isDigit_ne (h2 b hb)
    exact ⟨this.1, this.2.2.2.1, this.2.2.2.2⟩

theorem twoDigits_explicit (h : Nat) (hh : h < 100) :
    ∃ x1 x2, twoDigits h = [x1, x2] ∧ isDigit x1 = true ∧ isDigit x2 = true
      ∧ toSigned i32Lo i32Hi [x1, x2] = some (h : Int) := by
  obtain ⟨_, h2, h3⟩ := twoDigits_props h hh
  have hf := twoDigits_facts h hh
  refine ⟨_, _, hf, h2 _ (by rw [hf]; simp), h2 _ (by rw [hf]; simp), ?_⟩
  rw [← hf]; exact h3

theorem timeTuple_canonical (s : Int) (hs1 : i64Lo ≤ s) (hs2 : s ≤ i64Hi) (minus : Bool) (h m : Nat)
    (hh : h < 100) (hm : m < 100) (rest : Bytes) (hrest : StopsAt (fun b => !isDigit b) rest) :
    timeTuple (intDec s ++ 32 :: (if minus then 45 else 43) :: (twoDigits h ++ (twoDigits m ++ rest)))
      = some ({ seconds := s,
                offset := ((h : Int) * 3600 + (m : Int) * 60) * (if minus then -1 else 1),
                minus := minus }, rest) := by
  obtain ⟨x1, x2, hx, hx1, hx2, hxv⟩ := twoDigits_explicit h hh
  obtain ⟨y1, y2, hy, hy1, hy2, hyv⟩ := twoDigits_explicit m hm
  rw [hx, hy]
  have hsp := splitFirst_append 32 (intDec s)
    ((if minus then 45 else 43) :: ([x1, x2] ++ ([y1, y2] ++ rest))) (fun b hb => (intDec_bytes s b hb).1)
  have hsec := toSigned_intDec i64Lo i64Hi s hs1 hs2
  have htr : spanTill (fun b => !isDigit b) rest = ([], rest) := spanTill_append _ [] rest (by simp) hrest
  have n1 := isDigit_ne hx1
  unfold timeTuple
  simp only [hsp, hsec]
  cases minus with
  | true =>
    have e1 : ((45 : UInt8) != 45) = false := by decide
    have e2 : (x1 != 45) = true := by simp [bne, n1.2.1]
    simp [spanTill, takeUpTo, e1, e2, hx1, hx2, hy1, hy2, hxv, hyv, htr]
  | false =>
    have e1 : ((43 : UInt8) != 45) = true := by decide
    have e3 : ((43 : UInt8) != 43) = false := by decide
    have e2 : (x1 != 43) = true := by simp [bne, n1.2.2.1]
    simp [spanTill, takeUpTo, e1, e2, e3, hx1, hx2, hy1, hy2, hxv, hyv, htr]

/-- the bytes `Time::write_to` prints, for a writable time -/
theorem time_write_eq (t : Time) (ht : TimeWritable t) :
    t.write = some (intDec t.seconds ++ 32 :: (if t.minus then 45 else 43)
      :: (twoDigits (t.offset.natAbs / 3600) ++ twoDigits ((t.offset.natAbs - t.offset.natAbs / 3600 * 3600) / 60))) := by
  obtain ⟨_, _, h3, _⟩ := ht
  have : ¬ (t.offset.natAbs / 3600 > 99) := by omega
  simp [Time.write, this]

theorem offset_recompose (off : Int) (mi : Bool) (h3 : off.natAbs < 360000) (h4 : off % 60 = 0)
    (h5 : off < 0 → mi = true) (h6 : 0 < off → mi = false) :
    (((off.natAbs / 3600 : Nat) : Int) * 3600
      + (((off.natAbs - off.natAbs / 3600 * 3600) / 60 : Nat) : Int) * 60) * (if mi then -1 else 1) = off := by
  cases mi with
  | true =>
    have : off ≤ 0 := by
      by_cases hp : 0 < off
      · exact absurd (h6 hp) (by simp)
      · omega
    simp only [if_true]
    omega
  | false =>
    have : 0 ≤ off := by
      by_cases hp : off < 0
      · exact absurd (h5 hp) (by simp)
      · omega
    simp only [Bool.false_eq_true, if_false]
    omega

theorem time_roundtrip_core (t : Time) (ht : TimeWritable t) :
    ∃ bs, t.write = some bs
      ∧ (∀ rest, StopsAt (fun b => !isDigit b) rest → timeTuple (bs ++ rest) = some (t, rest))
      ∧ (∀ b ∈ bs, (b == 10) = false ∧ (b == 62) = false) := by
  refine ⟨_, time_write_eq t ht, ?_, ?_⟩
  · intro rest hrest
    obtain ⟨h1, h2, h3, h4, h5, h6⟩ := ht
    have hh : t.offset.natAbs / 3600 < 100 := by omega
    have hm : (t.offset.natAbs - t.offset.natAbs / 3600 * 3600) / 60 < 100 := by omega
    have := timeTuple_canonical t.seconds h1 h2 t.minus _ _ hh hm rest hrest
    simp only [List.cons_append, List.append_assoc] at this ⊢
    rw [this, offset_recompose t.offset t.minus h3 h4 h5 h6]
  · intro b hb
    obtain ⟨_, _, h3, _⟩ := ht
    have hh : t.offset.natAbs / 3600 < 100 := by omega
    have hm : (t.offset.natAbs - t.offset.natAbs / 3600 * 3600) / 60 < 100 := by omega
    obtain ⟨x1, x2, hx, hx1, hx2, _⟩ := twoDigits_explicit _ hh
    obtain ⟨y1, y2, hy, hy1, hy2, _⟩ := twoDigits_explicit _ hm
    rw [hx, hy] at hb
    simp only [List.mem_append, List.mem_cons, List.not_mem_nil, or_false] at hb
    rcases hb with hb | rfl | hb | (rfl | rfl) | rfl | rfl
    · exact ⟨(intDec_bytes _ b hb).2.1, (intDec_bytes _ b hb).2.2⟩
    · decide
    · subst hb; cases t.minus <;> decide
    · exact ⟨(isDigit_ne hx1).2.2.2.1, (isDigit_ne hx1).2.2.2.2⟩
    · exact ⟨(isDigit_ne hx2).2.2.2.1, (isDigit_ne hx2).2.2.2.2⟩
    · exact ⟨(isDigit_ne hy1).2.2.2.1, (isDigit_ne hy1).2.2.2.2⟩
    · exact ⟨(isDigit_ne hy2).2.2.2.1, (isDigit_ne hy2).2.2.2.2⟩

/-! ### identity -/

theorem illegalToken_false (bs : Bytes) (h : illegalToken bs = false) :
    ∀ b ∈ bs, (b == 60) = false ∧ (b == 62) = false ∧ (b == 10) = false := by
  intro b hb
  unfold illegalToken at h
  have := (List.any_eq_false.mp h) b hb
  simpa [Bool.or_eq_false_iff, and_assoc] using this

theorem stripOneSpace_concat (n : Bytes) : stripOneSpace (n ++ [32]) = n := by
  simp [stripOneSpace]

theorem takeWhile_head_false {p : UInt8 → Bool} (l : Bytes) (h : l.head?.map p ≠ some true) :
    l.takeWhile p = [] := by
  cases l with
  | nil => rfl
  | cons b l =>
    have : p b = false := by
      cases hb : p b with
      | false => rfl
      | true => simp [hb] at h
    simp [List.takeWhile, this]

theorem identity_canonical (name email t1 rest : Bytes)
    (hn : illegalToken name = false) (he : illegalToken email = false)
    (heh : email.head?.map isWs ≠ some true) (hel : email.getLast?.map isWs ≠ some true)
    (ht1 : ∀ b ∈ t1, (b == 10) = false ∧ (b == 62) = false)
    (hrest : StopsAt (· == 10) rest) :
    identity (name ++ 32 :: 60 :: (email ++ 62 :: (t1 ++ rest))) = .ok (name, email) (t1 ++ rest) := by
  have hnb := illegalToken_false name hn
  have heb := illegalToken_false email he
  -- the first line
  have hline : spanTill (· == 10) (name ++ 32 :: 60 :: (email ++ 62 :: (t1 ++ rest)))
      = (name ++ 32 :: 60 :: (email ++ 62 :: t1), rest) := by
    have := spanTill_append (· == 10) (name ++ 32 :: 60 :: (email ++ 62 :: t1)) rest ?_ hrest
    · simpa using this
    · intro b hb
      simp only [List.mem_append, List.mem_cons] at hb
      rcases hb with hb | rfl | rfl | hb | rfl | hb
      · exact (hnb b hb).2.2
      · decide
      · decide
      · exact (heb b hb).2.2
      · decide
      · exact (ht1 b hb).1
  have hlast : splitLast 62 (name ++ 32 :: 60 :: (email ++ 62 :: t1)) = some (name ++ 32 :: 60 :: email, t1) := by
    have := splitLast_append 62 (name ++ 32 :: 60 :: email) t1 (fun b hb => (ht1 b hb).2)
    simpa using this
  have hfirst : splitFirst 60 (name ++ 32 :: 60 :: email) = some (name ++ [32], email) := by
    have := splitFirst_append 60 (name ++ [32]) email ?_
    · simpa using this
    · intro b hb
      simp only [List.mem_append, List.mem_singleton] at hb
      rcases hb with hb | rfl
      · exact (hnb b hb).1
      · decide
  have hL : (email.takeWhile wsOrLt) = [] := by
    apply takeWhile_head_false
    cases email with
    | nil => simp
    | cons b e =>
      have h60 := (heb b (by simp)).1
      have hws : isWs b = false := by
        cases hb : isWs b with
        | false => rfl
        | true => simp [hb] at heh
      simp [wsOrLt, hws, h60]
  have hR : (email.reverse.takeWhile wsOrGt) = [] := by
    apply takeWhile_head_false
    rw [List.head?_reverse]
    cases hl : email.getLast? with
    | none => simp
    | some b =>
      have hmem : b ∈ email := List.mem_of_getLast? hl
      have h62 := (heb b hmem).2.1
      have hws : isWs b = false := by
        cases hb : isWs b with
        | false => rfl
        | true => simp [hl, hb] at hel
      simp [wsOrGt, hws, h62]
  unfold identity
  simp only [hline, hlast, hfirst]
  have h60 : wsOrLt 60 = true := by decide
  simp [List.takeWhile, h60, hL, hR, stripOneSpace_concat]

/-! ### signature -/

/-- what may follow a printed signature: the end of the data, or the LF ending its header line -/
def LineEnd (rest : Bytes) : Prop := rest = [] ∨ ∃ t, rest = 10 :: t

theorem signature_canonical (s : Signature) (hs : SigWritable s) :
    ∃ bs, s.write = some bs ∧ ∀ rest, LineEnd rest → signature (bs ++ rest) = .ok s rest := by
  obtain ⟨hn, he, heh, hel, ht⟩ := hs
  obtain ⟨tb, htw, htt, htb⟩ := time_roundtrip_core s.time ht
  refine ⟨s.name ++ [32, 60] ++ s.email ++ [62, 32] ++ tb, ?_, ?_⟩
  · simp [Signature.write, hn, he, htw]
  · intro rest hrest
    have hrd : StopsAt (fun b => !isDigit b) rest := by
      rcases hrest with rfl | ⟨t, rfl⟩
      · exact StopsAt.nil _
      · exact StopsAt.cons _ (by decide)
    have hrn : StopsAt (· == 10) rest := by
      rcases hrest with rfl | ⟨t, rfl⟩
      · exact StopsAt.nil _
      · exact StopsAt.cons _ (by decide)
    have hid := identity_canonical s.name s.email (32 :: tb) rest hn he heh hel ?_ hrn
    · have e : s.name ++ [32, 60] ++ s.email ++ [62, 32] ++ tb ++ rest
          = s.name ++ 32 :: 60 :: (s.email ++ 62 :: (32 :: tb ++ rest)) := by simp
      rw [e]
      simp only [List.cons_append] at hid ⊢
      unfold signature
      simp only [hid, optSpace, htt rest hrd]
    · intro b hb
      simp only [List.mem_cons] at hb
      rcases hb with rfl | hb
      · decide
      · exact htb b hb

end GixModel.C02
