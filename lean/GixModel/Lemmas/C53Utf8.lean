import GixModel.Model.C53
/-
C53 — ASCII case folding does not change UTF-8 validity, and `eqIgnoreCase` (strcasecmp == 0) is
equality of the folded strings.
-/
namespace GixModel.C53
open GixModel

theorem forall_u8 (p : UInt8 → Bool) (h : (List.range 256).all (fun n => p (UInt8.ofNat n)) = true) :
    ∀ c : UInt8, p c = true := by
  intro c
  have := List.all_eq_true.mp h c.toNat (by simp [List.mem_range]; exact c.toNat_lt)
  simpa using this

theorem lower_lt80 (b : UInt8) : decide (asciiLower b < 0x80) = decide (b < 0x80) := by
  have := forall_u8 (fun b => decide (asciiLower b < 0x80) == decide (b < 0x80)) (by decide +kernel) b
  simpa using this

theorem lower_id_of_ge80 (b : UInt8) (h : ¬ b < 0x80) : asciiLower b = b := by
  have := forall_u8 (fun b => decide (b < 0x80) || asciiLower b == b) (by decide +kernel) b
  simp only [Bool.or_eq_true, decide_eq_true_eq, beq_iff_eq] at this
  rcases this with h1 | h1
  · exact absurd h1 h
  · exact h1

theorem lower_isCont (b : UInt8) : isCont (asciiLower b) = isCont b := by
  have := forall_u8 (fun b => isCont (asciiLower b) == isCont b) (by decide +kernel) b
  simpa using this

theorem lower_rA0 (b : UInt8) : (0xA0 ≤ asciiLower b && asciiLower b ≤ 0xBF) = (0xA0 ≤ b && b ≤ 0xBF) := by
  have := forall_u8 (fun b => (decide (0xA0 ≤ asciiLower b) && decide (asciiLower b ≤ 0xBF)) == (decide (0xA0 ≤ b) && decide (b ≤ 0xBF))) (by decide +kernel) b
  simpa using this

theorem lower_r80 (b : UInt8) : (0x80 ≤ asciiLower b && asciiLower b ≤ 0x9F) = (0x80 ≤ b && b ≤ 0x9F) := by
  have := forall_u8 (fun b => (decide (0x80 ≤ asciiLower b) && decide (asciiLower b ≤ 0x9F)) == (decide (0x80 ≤ b) && decide (b ≤ 0x9F))) (by decide +kernel) b
  simpa using this

theorem lower_r90 (b : UInt8) : (0x90 ≤ asciiLower b && asciiLower b ≤ 0xBF) = (0x90 ≤ b && b ≤ 0xBF) := by
  have := forall_u8 (fun b => (decide (0x90 ≤ asciiLower b) && decide (asciiLower b ≤ 0xBF)) == (decide (0x90 ≤ b) && decide (b ≤ 0xBF))) (by decide +kernel) b
  simpa using this

theorem lower_r8F (b : UInt8) : (0x80 ≤ asciiLower b && asciiLower b ≤ 0x8F) = (0x80 ≤ b && b ≤ 0x8F) := by
  have := forall_u8 (fun b => (decide (0x80 ≤ asciiLower b) && decide (asciiLower b ≤ 0x8F)) == (decide (0x80 ≤ b) && decide (b ≤ 0x8F))) (by decide +kernel) b
  simpa using this

theorem utf8Len_foldB (bs : Bytes) : utf8Len (foldB bs) = utf8Len bs := by
  cases bs with
  | nil => rfl
  | cons b0 rest =>
    simp only [foldB, List.map_cons]
    by_cases h0 : b0 < 0x80
    · have h0' : asciiLower b0 < 0x80 := by
        have := lower_lt80 b0; simp only [h0, decide_true, decide_eq_true_eq] at this; exact this
      simp only [utf8Len, h0, h0', if_true]
    · rw [lower_id_of_ge80 b0 h0]
      simp only [utf8Len, h0, if_false]
      split
      · cases rest with
        | nil => rfl
        | cons b1 r => simp only [List.map_cons, lower_isCont]
      · split
        · cases rest with
          | nil => rfl
          | cons b1 r =>
            cases r with
            | nil => rfl
            | cons b2 r2 => simp only [List.map_cons, lower_isCont, lower_rA0, lower_r80]
        · split
          · cases rest with
            | nil => rfl
            | cons b1 r =>
              cases r with
              | nil => rfl
              | cons b2 r2 =>
                cases r2 with
                | nil => rfl
                | cons b3 r3 => simp only [List.map_cons, lower_isCont, lower_r90, lower_r8F]
          · rfl

theorem isUtf8Fuel_foldB (fuel : Nat) (bs : Bytes) : isUtf8Fuel fuel (foldB bs) = isUtf8Fuel fuel bs := by
  induction fuel generalizing bs with
  | zero => cases bs <;> simp [isUtf8Fuel, foldB]
  | succ fuel ih =>
    cases bs with
    | nil => simp [isUtf8Fuel, foldB]
    | cons b rest =>
      have hl := utf8Len_foldB (b :: rest)
      simp only [foldB, List.map_cons] at hl ⊢
      simp only [isUtf8Fuel, hl]
      split
      · rfl
      · have := ih ((b :: rest).drop (utf8Len (b :: rest)))
        simp only [foldB, List.map_drop, List.map_cons] at this
        exact this

theorem isUtf8_foldB (bs : Bytes) : isUtf8 (foldB bs) = isUtf8 bs := by
  unfold isUtf8
  rw [show (foldB bs).length = bs.length by simp [foldB]]
  exact isUtf8Fuel_foldB _ _

theorem isUtf8_congr {a b : Bytes} (h : foldB a = foldB b) : isUtf8 a = isUtf8 b := by
  rw [← isUtf8_foldB a, ← isUtf8_foldB b, h]

theorem eqIgnoreCase_iff (a b : Bytes) : eqIgnoreCase a b = (foldB a == foldB b) := by
  induction a generalizing b with
  | nil => cases b <;> simp [eqIgnoreCase, foldB]
  | cons x xs ih =>
    cases b with
    | nil => simp [eqIgnoreCase, foldB]
    | cons y ys =>
      simp only [eqIgnoreCase, ih, foldB, List.map_cons]
      by_cases hxy : asciiLower x = asciiLower y
      · simp [hxy]
      · simp [hxy]

end GixModel.C53
