import GixModel.Spec.C14
import GixModel.Lemmas.C09Offsets
import GixModel.Lemmas.C09Bytes
/-
C14 helper lemmas, part 1: decoding one CDAT record and walking the extra edge list give back
what git's writer put in.
-/
namespace GixModel.C14
open GixModel
open GixModel.C09 (be32 readU32 readU64 slice be32_length readU32_be32 slice_peel slice_in)

theorem mask_eq : EXTENDED_EDGES_MASK = C09.HIGH_BIT := rfl

theorem and_mask_ne_zero {x : Nat} (h1 : 2147483648 ≤ x) (h2 : x < 4294967296) : x &&& EXTENDED_EDGES_MASK ≠ 0 := by
  rw [mask_eq, C09.and_high_of_ge h1 h2]; decide

theorem and_mask_zero {x : Nat} (h : x < 2147483648) : x &&& EXTENDED_EDGES_MASK = 0 := by
  have e : EXTENDED_EDGES_MASK = 2 ^ 31 := by decide
  rw [e]
  apply Nat.eq_of_testBit_eq
  intro i
  rw [Nat.testBit_and, Nat.testBit_two_pow, Nat.zero_testBit]
  by_cases hi : 31 = i
  · subst hi; rw [C09.testBit31_of_lt h]; rfl
  · simp [hi]

theorem and_low31 (x : Nat) : x &&& LOW31 = x % 2147483648 := by
  have e : LOW31 = 2 ^ 31 - 1 := by decide
  rw [e, Nat.and_two_pow_sub_one_eq_mod]

theorem and_34 (x : Nat) : x &&& 0x3ffffffff = x % 17179869184 := by
  have e : (0x3ffffffff : Nat) = 2 ^ 34 - 1 := by decide
  rw [e, Nat.and_two_pow_sub_one_eq_mod]

theorem readU64_two (a b : Nat) (ha : a < 4294967296) (hb : b < 4294967296) :
    readU64 (be32 a ++ be32 b) = some (a * 4294967296 + b) := by
  have ht : (be32 a ++ be32 b).take 4 = be32 a := List.take_left' rfl
  have hd : (be32 a ++ be32 b).drop 4 = be32 b := List.drop_left' rfl
  have hl : (be32 a ++ be32 b).length = 8 := rfl
  simp only [readU64, hl, if_true, ht, hd, readU32_be32 ha, readU32_be32 hb, Option.bind_eq_bind,
    Option.bind_some, C09.U32]

/-- the raw parent fields decode as intended -/
theorem fromRaw_none : ParentEdge.fromRaw NO_PARENT = .none := by simp [ParentEdge.fromRaw]

theorem fromRaw_pos {p : Nat} (h : p < NO_PARENT) : ParentEdge.fromRaw p = .pos p := by
  have h1 : p ≠ NO_PARENT := by omega
  have h2 : p &&& EXTENDED_EDGES_MASK = 0 := and_mask_zero (by simp only [NO_PARENT] at h; omega)
  simp [ParentEdge.fromRaw, h1, h2]

theorem fromRaw_extra {i : Nat} (h : i < 2147483648) :
    ParentEdge.fromRaw (EXTENDED_EDGES_MASK + i) = .extra i := by
  have hm : EXTENDED_EDGES_MASK = 2147483648 := rfl
  have h1 : EXTENDED_EDGES_MASK + i ≠ NO_PARENT := by simp only [hm, NO_PARENT]; omega
  have h2 : (EXTENDED_EDGES_MASK + i) &&& EXTENDED_EDGES_MASK ≠ 0 :=
    and_mask_ne_zero (by rw [hm]; omega) (by rw [hm]; omega)
  have h3 : (EXTENDED_EDGES_MASK + i) &&& LOW31 = i := by rw [and_low31, hm]; omega
  simp only [ParentEdge.fromRaw, h1, if_false, h2, ne_eq, not_false_eq_true, if_true, h3]

/-- what the writer's numbers must satisfy to fit their fields -/
structure Fits (c : SCommit) : Prop where
  tree20 : c.tree.length = 20
  gen : c.generation < 1073741824
  time : c.time < 17179869184
  parents : ∀ p ∈ c.parents, p < NO_PARENT

theorem sParent1_lt (c : SCommit) (h : Fits c) : sParent1 c < 4294967296 := by
  unfold sParent1
  cases hp : c.parents with
  | nil => simp [NO_PARENT]
  | cons p _ =>
    have := h.parents p (by simp [hp])
    simp only [NO_PARENT] at this
    show p < 4294967296
    omega

theorem sParent2_lt (c : SCommit) (h : Fits c) (eb : Nat) (heb : eb < 2147483648) : sParent2 c eb < 4294967296 := by
  unfold sParent2
  match hp : c.parents with
  | [] => simp [NO_PARENT]
  | [_] => simp [NO_PARENT]
  | [_, q] =>
    have := h.parents q (by simp [hp])
    simp only [NO_PARENT] at this
    show q < 4294967296
    omega
  | _ :: _ :: _ :: _ =>
    show EXTENDED_EDGES_MASK + eb < 4294967296
    simp only [EXTENDED_EDGES_MASK]; omega

/-- `Commit::new` on the record git writes -/
theorem Commit.new_sRecord (c : SCommit) (h : Fits c) (eb : Nat) (heb : eb < 2147483648) :
    Commit.new (sRecord c eb) = some
      { tree := c.tree, parent1 := ParentEdge.fromRaw (sParent1 c), parent2 := ParentEdge.fromRaw (sParent2 c eb),
        generation := c.generation, time := c.time } := by
  have hg : c.generation * 4 + c.time / 4294967296 % 4 < 4294967296 := by have := h.gen; omega
  have ht : c.time % 4294967296 < 4294967296 := Nat.mod_lt _ (by decide)
  have hshape : sRecord c eb = c.tree ++ (be32 (sParent1 c) ++ (be32 (sParent2 c eb) ++
      (be32 (c.generation * 4 + c.time / 4294967296 % 4) ++ be32 (c.time % 4294967296)))) := by
    simp [sRecord, List.append_assoc]
  have h20 := h.tree20
  have s0 : slice (sRecord c eb) 0 20 = some c.tree := by
    rw [hshape, slice_in _ _ _ (by simp [be32_length]; omega)]
    simp only [List.drop_zero]
    rw [List.take_append_of_le_length (by omega), ← h20, List.take_length]
  have s1 : slice (sRecord c eb) 20 4 = some (be32 (sParent1 c)) := by
    rw [hshape]
    have e : 20 = c.tree.length + 0 := by omega
    rw [e, slice_peel, slice_in _ _ _ (by simp [be32_length])]
    simp only [List.drop_zero]; exact congrArg some (List.take_left' rfl)
  have s2 : slice (sRecord c eb) 24 4 = some (be32 (sParent2 c eb)) := by
    rw [hshape]
    have e : 24 = c.tree.length + ((be32 (sParent1 c)).length + 0) := by rw [h20]; rfl
    rw [e, slice_peel, slice_peel, slice_in _ _ _ (by simp [be32_length])]
    simp only [List.drop_zero]; exact congrArg some (List.take_left' rfl)
  have s3 : slice (sRecord c eb) 28 4 = some (be32 (c.generation * 4 + c.time / 4294967296 % 4)) := by
    rw [hshape]
    have e : 28 = c.tree.length + ((be32 (sParent1 c)).length + ((be32 (sParent2 c eb)).length + 0)) := by rw [h20]; rfl
    rw [e, slice_peel, slice_peel, slice_peel, slice_in _ _ _ (by simp [be32_length])]
    simp only [List.drop_zero]; exact congrArg some (List.take_left' rfl)
  have s4 : slice (sRecord c eb) 28 8 = some (be32 (c.generation * 4 + c.time / 4294967296 % 4) ++ be32 (c.time % 4294967296)) := by
    rw [hshape]
    have e : 28 = c.tree.length + ((be32 (sParent1 c)).length + ((be32 (sParent2 c eb)).length + 0)) := by rw [h20]; rfl
    rw [e, slice_peel, slice_peel, slice_peel, slice_in _ _ _ (by simp [be32_length])]
    simp only [List.drop_zero]; exact congrArg some (List.take_of_length_le (by simp [be32_length]))
  have htime : (c.generation * 4 + c.time / 4294967296 % 4) * 4294967296 + c.time % 4294967296 &&& 0x3ffffffff = c.time := by
    rw [and_34]; have := h.time; omega
  have hgen : (c.generation * 4 + c.time / 4294967296 % 4) / 4 = c.generation := by omega
  unfold Commit.new
  rw [s0, s1, s2, s3, s4, Option.bind_some, Option.bind_some, Option.bind_some, Option.bind_some,
    readU32_be32 (sParent1_lt c h), readU32_be32 (sParent2_lt c h eb heb), readU32_be32 hg,
    readU64_two _ _ hg ht]
  show some _ = some _
  rw [htime, hgen]

/-- walking the marked list gives the positions back -/
theorem extraLoop_markLast : ∀ (es : List Nat), es ≠ [] → (∀ p ∈ es, p < NO_PARENT) →
    ∀ (fuel : Nat) (post : Bytes), es.length ≤ fuel →
      extraLoop fuel ((markLast es).flatMap be32 ++ post) = some (es, none) := by
  intro es
  induction es with
  | nil => intro h; exact absurd rfl h
  | cons p rest ih =>
    intro _ hb fuel post hf
    have hp := hb p (by simp)
    simp only [NO_PARENT] at hp
    cases fuel with
    | zero => simp at hf
    | succ f =>
      cases rest with
      | nil =>
        have hm : EXTENDED_EDGES_MASK = 2147483648 := rfl
        have hne : ¬ ((be32 (p + EXTENDED_EDGES_MASK) ++ post).length < 4) := by simp [be32_length]
        have ht : (be32 (p + EXTENDED_EDGES_MASK) ++ post).take 4 = be32 (p + EXTENDED_EDGES_MASK) := List.take_left' rfl
        have hr : readU32 (be32 (p + EXTENDED_EDGES_MASK)) = some (p + EXTENDED_EDGES_MASK) :=
          readU32_be32 (by rw [hm]; omega)
        have h2 : (p + EXTENDED_EDGES_MASK) &&& EXTENDED_EDGES_MASK ≠ 0 :=
          and_mask_ne_zero (by rw [hm]; omega) (by rw [hm]; omega)
        have h3 : (p + EXTENDED_EDGES_MASK) &&& LOW31 = p := by rw [and_low31, hm]; omega
        simp only [markLast, List.flatMap_cons, List.flatMap_nil, List.append_nil, extraLoop, hne, if_false, ht, hr,
          h2, ne_eq, not_false_eq_true, if_true, h3]
      | cons q rest' =>
        have hne : ¬ ((be32 p ++ ((markLast (q :: rest')).flatMap be32 ++ post)).length < 4) := by simp [be32_length]
        have ht : (be32 p ++ ((markLast (q :: rest')).flatMap be32 ++ post)).take 4 = be32 p := List.take_left' rfl
        have hd : (be32 p ++ ((markLast (q :: rest')).flatMap be32 ++ post)).drop 4 = (markLast (q :: rest')).flatMap be32 ++ post :=
          List.drop_left' rfl
        have hr : readU32 (be32 p) = some p := readU32_be32 (by omega)
        have h2 : p &&& EXTENDED_EDGES_MASK = 0 := and_mask_zero (by omega)
        have hrec := ih (by simp) (fun x hx => hb x (by simp [hx])) f post (by simpa using hf)
        simp only [markLast, List.flatMap_cons, List.append_assoc, extraLoop, hne, if_false, ht, hr, h2, ne_eq,
          not_true_eq_false, hd, hrec, Option.map_some]

theorem flatMap_be32_length' (l : List Nat) : (l.flatMap be32).length = l.length * 4 := C09.flatMap_be32_length l

theorem markLast_length (es : List Nat) : (markLast es).length = es.length := by
  induction es with
  | nil => rfl
  | cons p rest ih =>
    cases rest with
    | nil => rfl
    | cons q r => simp only [markLast, List.length_cons] at ih ⊢; omega

/-- One commit: root tree, generation, time and *all* parents (0, 1, 2 or an octopus of any width)
come back from the record and the extra edge list, wherever in the list its entries start. -/
theorem commit_roundtrip_at (c : SCommit) (h : Fits c) (pre post : List Nat) (hpre : pre.length < 2147483648) :
    ∃ d, Commit.new (sRecord c pre.length) = some d ∧ d.tree = c.tree ∧ d.generation = c.generation ∧
      d.time = c.time ∧
      d.parents (some ((pre ++ sExtraEdges c ++ post).flatMap be32)) = some (c.parents, none) ∧
      ((sExtraEdges c = []) → ∀ e, d.parents e = some (c.parents, none)) := by
  refine ⟨_, Commit.new_sRecord c h pre.length hpre, rfl, rfl, rfl, ?_, ?_⟩
  · match hp : c.parents with
    | [] => simp [Commit.parents, sParent1, sParent2, hp, fromRaw_none]
    | [p] =>
      have := h.parents p (by simp [hp])
      simp [Commit.parents, sParent1, sParent2, hp, fromRaw_none, fromRaw_pos this]
    | [p, q] =>
      have h1 := h.parents p (by simp [hp])
      have h2 := h.parents q (by simp [hp])
      simp [Commit.parents, sParent1, sParent2, hp, fromRaw_pos h1, fromRaw_pos h2]
    | p :: q :: r :: rest =>
      have h1 := h.parents p (by simp [hp])
      have hx : sExtraEdges c = markLast (q :: r :: rest) := by simp [sExtraEdges, hp]
      have hbytes : (pre ++ sExtraEdges c ++ post).flatMap be32
          = pre.flatMap be32 ++ ((markLast (q :: r :: rest)).flatMap be32 ++ post.flatMap be32) := by
        rw [hx]; simp [List.flatMap_append, List.append_assoc]
      have hdrop : ((pre ++ sExtraEdges c ++ post).flatMap be32).drop (pre.length * 4)
          = (markLast (q :: r :: rest)).flatMap be32 ++ post.flatMap be32 := by
        rw [hbytes]; exact List.drop_left' (flatMap_be32_length' pre)
      have hle : pre.length * 4 ≤ ((pre ++ sExtraEdges c ++ post).flatMap be32).length := by
        rw [hbytes]; simp only [List.length_append, flatMap_be32_length']; omega
      have hloop := extraLoop_markLast (q :: r :: rest) (by simp)
        (fun x hx => h.parents x (by rw [hp]; simp only [List.mem_cons] at hx ⊢; right; exact hx))
        (((pre ++ sExtraEdges c ++ post).flatMap be32).length + 1) (post.flatMap be32)
        (by
          rw [hbytes]
          simp only [List.length_append, flatMap_be32_length', markLast_length]
          omega)
      simp only [Commit.parents, sParent1, sParent2, hp, fromRaw_pos h1, fromRaw_extra hpre, hle, if_true, hdrop,
        hloop, Option.map_some]
  · intro hnone e
    match hp : c.parents with
    | [] => simp [Commit.parents, sParent1, sParent2, hp, fromRaw_none]
    | [p] =>
      have := h.parents p (by simp [hp])
      simp [Commit.parents, sParent1, sParent2, hp, fromRaw_none, fromRaw_pos this]
    | [p, q] =>
      have h1 := h.parents p (by simp [hp])
      have h2 := h.parents q (by simp [hp])
      simp [Commit.parents, sParent1, sParent2, hp, fromRaw_pos h1, fromRaw_pos h2]
    | p :: q :: r :: rest =>
      have : sExtraEdges c ≠ [] := by simp [sExtraEdges, hp, markLast]
      exact absurd hnone this

end GixModel.C14
