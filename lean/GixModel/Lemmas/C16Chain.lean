/-
C16, reflogs, the general dereferencing case: how `leaf_referent_previous_oid` travels up the parent
chains in `prepare_inner`, and that what arrives at a split symbolic ref is the object at the end
of its chain (`leafOld`).
-/
import GixModel.Lemmas.C16Leaf

namespace GixModel.C16Fs
open GixModel.C17 GixModel.C16

/-- `Up es p i`: following parent pointers from index `p` (zero or more steps) reaches `i` -/
inductive Up (es : List Edit) : Nat → Nat → Prop
  | refl (p : Nat) : Up es p p
  | step {p q i : Nat} {x : Edit} : es[p]? = some x → x.parent = some q → Up es q i → Up es p i

theorem Up.snoc {es : List Edit} {p j i : Nat} {x : Edit} (h : Up es p j) :
    es[j]? = some x → x.parent = some i → Up es p i := by
  induction h with
  | refl p => intro hj hx; exact .step hj hx (.refl i)
  | step h1 h2 _ ih => intro hj hx; exact .step h1 h2 (ih hj hx)

/-- the parent pointers of the working list are those of the preprocessed edits -/
def ParEq (cur es : List Edit) : Prop := ∀ k : Nat, (cur[k]?).map Edit.parent = (es[k]?).map Edit.parent

/-- the second walk writes `oid` to exactly the indices above the cursor -/
theorem setLeaf_up (oid : Oid) (es : List Edit) :
    ∀ fuel cursor (cur cur' : List Edit), setLeaf oid fuel cursor cur = some (some cur') → ParEq cur es →
      ParEq cur' es ∧ ∀ i,
        ((∃ p, cursor = some p ∧ Up es p i) → ∀ e', cur'[i]? = some e' → e'.leafPrev = some oid) ∧
        ((¬ ∃ p, cursor = some p ∧ Up es p i) → (cur'[i]?).map Edit.leafPrev = (cur[i]?).map Edit.leafPrev) := by
  intro fuel
  induction fuel with
  | zero =>
    intro cursor cur cur' h hpe
    cases cursor with
    | none =>
      simp [setLeaf] at h; rw [← h]
      exact ⟨hpe, fun i => ⟨fun hh => (by obtain ⟨p, hp, _⟩ := hh; cases hp), fun _ => rfl⟩⟩
    | some p => simp [setLeaf] at h
  | succ fuel ih =>
    intro cursor cur cur' h hpe
    cases cursor with
    | none =>
      simp [setLeaf] at h; rw [← h]
      exact ⟨hpe, fun i => ⟨fun hh => (by obtain ⟨p, hp, _⟩ := hh; cases hp), fun _ => rfl⟩⟩
    | some p =>
      simp only [setLeaf] at h
      cases hget : cur[p]? with
      | none => rw [hget] at h; cases h
      | some parent =>
        rw [hget] at h
        simp only [] at h
        have hpe2 : ParEq (cur.set p { parent with leafPrev := some oid }) es := by
          intro k
          rw [setLeaf_parent_eq cur p parent oid hget k]; exact hpe k
        obtain ⟨g1, g2⟩ := ih parent.parent _ cur' h hpe2
        -- the pointer at p in es
        have hesp : ∃ x, es[p]? = some x ∧ x.parent = parent.parent := by
          have := hpe p
          rw [hget] at this
          simp only [Option.map_some] at this
          cases hx : es[p]? with
          | none => rw [hx] at this; cases this
          | some x => rw [hx] at this; simp only [Option.map_some, Option.some.injEq] at this; exact ⟨x, rfl, this.symm⟩
        obtain ⟨x, hx, hxp⟩ := hesp
        refine ⟨g1, fun i => ⟨?_, ?_⟩⟩
        · rintro ⟨p', hp', hup⟩ e' he'
          cases hp'
          by_cases hq : ∃ q, parent.parent = some q ∧ Up es q i
          · exact (g2 i).1 hq e' he'
          · have hm := (g2 i).2 hq
            cases hup with
            | refl _ =>
              have hlt : p < cur.length := by
                rcases Nat.lt_or_ge p cur.length with hh | hh
                · exact hh
                · rw [List.getElem?_eq_none hh] at hget; cases hget
              rw [he', List.getElem?_set_self hlt] at hm
              simp only [Option.map_some, Option.some.injEq] at hm
              exact hm
            | step h1 h2 h3 =>
              rw [hx] at h1; cases h1
              exact absurd ⟨_, hxp ▸ h2, h3⟩ hq
        · intro hno
          have hpi : p ≠ i := fun hh => hno ⟨p, rfl, hh ▸ Up.refl p⟩
          have hq : ¬ ∃ q, parent.parent = some q ∧ Up es q i := by
            rintro ⟨q, hq1, hq2⟩
            exact hno ⟨p, rfl, Up.step hx (hxp ▸ hq1) hq2⟩
          rw [(g2 i).2 hq, List.getElem?_set_ne hpi]

theorem leafOld_mono (M : RefMap) (es : List Edit) :
    ∀ f n o, leafOld M es f n = some o → ∀ k, leafOld M es (f + k) n = some o := by
  intro f
  induction f with
  | zero => intro n o h; simp [leafOld] at h
  | succ f ih =>
    intro n o h k
    have hk : f + 1 + k = (f + k) + 1 := by omega
    rw [hk]
    unfold leafOld at h ⊢
    cases hm : M n with
    | none => rw [hm] at h; simpa using h
    | some t =>
      rw [hm] at h
      cases t with
      | object p => simpa using h
      | symbolic r => simp only [] at h ⊢; exact ih r o h k

theorem find?_name_nodup : ∀ (es : List Edit), (es.map Edit.name).Nodup → ∀ x ∈ es,
    es.find? (fun y => y.name = x.name) = some x := by
  intro es
  induction es with
  | nil => intro _ x hx; cases hx
  | cons a rest ih =>
    intro hn x hx
    simp only [List.map_cons, List.nodup_cons] at hn
    rcases List.mem_cons.mp hx with hx1 | hx1
    · subst hx1; simp [List.find?]
    · have hne : ¬ a.name = x.name := by
        intro hh; apply hn.1; rw [hh]; exact List.mem_map_of_mem hx1
      simp only [List.find?, hne, decide_false]
      exact ih hn.2 x hx1

/-- the writer's value is the `leafOld` of its own name with one step of fuel -/
theorem prevOid_applied_leafOld (cx : Ctx) (M : RefMap) (es : List Edit) (hn : (es.map Edit.name).Nodup)
    (x : Edit) (hx : x ∈ es) (hchk : checkC (M x.name) x = none) (o : Oid)
    (h : prevOid (applied cx (M x.name) x).update.change = some o) : leafOld M es 1 x.name = some o := by
  unfold leafOld
  unfold checkC at hchk
  unfold applied at h
  cases hm : M x.name with
  | some t =>
    rw [hm] at h
    cases t with
    | object p =>
      cases hch : x.update.change <;> (rw [hch] at h; simpa [recordExisting, prevOid] using h)
    | symbolic r =>
      cases hch : x.update.change <;> (rw [hch] at h; simp [recordExisting, prevOid] at h)
  | none =>
    rw [hm] at h hchk
    simp only []
    rw [find?_name_nodup es hn x hx]
    simp only []
    cases hch : x.update.change with
    | update log ex new =>
      rw [hch] at h hchk
      simp only [recordExisting] at h hchk
      cases ex with
      | any => simp [prevOid] at h
      | mustExist => simp [prevOid] at h
      | mustNotExist => simp [prevOid] at h
      | mustExistAndMatch t => simp [checkUpdate] at hchk
      | existingMustMatch t => cases t <;> simp_all [prevOid]
    | delete ex log =>
      rw [hch] at h hchk
      simp only [recordExisting] at h hchk
      cases ex with
      | any => simp [prevOid] at h
      | mustExist => simp [prevOid] at h
      | mustNotExist => simp [prevOid] at h
      | mustExistAndMatch t => simp [checkDelete] at hchk
      | existingMustMatch t => cases t <;> simp_all [prevOid]

/-- what preprocessing guarantees about the parent pointers (proved for `preProcess` below) -/
structure Chains (M : RefMap) (es : List Edit) : Prop where
  wf : WfParents es
  nodup : (es.map Edit.name).Nodup
  c1 : ∀ (j : Nat) (x : Edit) (i : Nat), es[j]? = some x → x.parent = some i →
        ∃ pe, es[i]? = some pe ∧ pe.update.change.logMode = .only ∧ M pe.name = some (.symbolic x.name)
  c2 : ∀ (i : Nat) (pe : Edit), es[i]? = some pe → pe.update.change.logMode = .only →
        ∃ (j : Nat) (x : Edit), es[j]? = some x ∧ x.parent = some i
  c4 : ∀ x ∈ es, x.parent ≠ none → ∀ r, M x.name = some (.symbolic r) → x.update.change.logMode = .only

/-- the leaf value index `i` must end up with -/
def leafT (M : RefMap) (es : List Edit) (i : Nat) : Option Oid :=
  match es[i]? with
  | some pe => (match pe.update.change.logMode, M pe.name with
      | .only, some (.symbolic next) => leafOld M es (es.length + 1) next
      | _, _ => none)
  | none => none

theorem leafT_of_chain (M : RefMap) (es : List Edit) (hc : Chains M es) :
    ∀ p i, Up es p i → ∀ (c : Nat) (xc : Edit) (f : Nat) (o : Oid), es[c]? = some xc → xc.parent = some p →
      leafOld M es f xc.name = some o → f + p ≤ es.length → leafT M es i = some o := by
  intro p i hup
  induction hup with
  | refl p =>
    intro c xc f o hc1 hc2 hl hf
    obtain ⟨pe, hpe, honly, hsym⟩ := hc.c1 c xc p hc1 hc2
    unfold leafT
    rw [hpe]
    simp only [honly, hsym]
    have := leafOld_mono M es f xc.name o hl (es.length + 1 - f)
    rw [show f + (es.length + 1 - f) = es.length + 1 by omega] at this
    exact this
  | @step p q i x h1 h2 _ ih =>
    intro c xc f o hc1 hc2 hl hf
    obtain ⟨pe, hpe, honly, hsym⟩ := hc.c1 c xc p hc1 hc2
    rw [h1] at hpe; cases hpe
    have hqp := hc.wf p x q h1 h2
    apply ih p x (f + 1) o h1 h2 ?_ (by omega)
    simp only [leafOld, hsym]
    exact hl

/-- safety: whatever a writer sends up is the `leafOld` value of every index it reaches -/
theorem leafT_of_writer (cx : Ctx) (M : RefMap) (es : List Edit) (hc : Chains M es)
    (hchk : ∀ e ∈ es, checkC (M e.name) e = none)
    (j : Nat) (x : Edit) (p i : Nat) (o : Oid) (hj : es[j]? = some x) (hp : x.parent = some p) (hup : Up es p i)
    (hprev : prevOid (applied cx (M x.name) x).update.change = some o) : leafT M es i = some o := by
  have hxm : x ∈ es := List.mem_of_getElem? hj
  have h1 := prevOid_applied_leafOld cx M es hc.nodup x hxm (hchk x hxm) o hprev
  have hpj := hc.wf j x p hj hp
  have hjl : j < es.length := by
    rcases Nat.lt_or_ge j es.length with hh | hh
    · exact hh
    · rw [List.getElem?_eq_none hh] at hj; cases hj
  exact leafT_of_chain M es hc p i hup j x 1 o hj hp h1 (by omega)

/-- liveness: if the chain of a split symbolic ref ends in a value, some edit below it sends it up -/
theorem writer_of_leafOld (cx : Ctx) (M : RefMap) (es : List Edit) (hc : Chains M es) (v : Oid) :
    ∀ (f i : Nat) (pe : Edit) (next : Name), es[i]? = some pe → pe.update.change.logMode = .only →
      M pe.name = some (.symbolic next) → leafOld M es f next = some v →
      ∃ (j : Nat) (x : Edit) (p : Nat), es[j]? = some x ∧ x.parent = some p ∧ Up es p i ∧
        prevOid (applied cx (M x.name) x).update.change = some v := by
  intro f
  induction f with
  | zero => intro i pe next _ _ _ h; simp [leafOld] at h
  | succ f ih =>
    intro i pe next hi honly hsym h
    obtain ⟨j, x, hj, hxp⟩ := hc.c2 i pe hi honly
    obtain ⟨pe', hpe', _, hsym'⟩ := hc.c1 j x i hj hxp
    rw [hi] at hpe'; cases hpe'
    rw [hsym] at hsym'
    have hnx : next = x.name := by injection hsym' with h1; injection h1
    subst hnx
    have hxm : x ∈ es := List.mem_of_getElem? hj
    unfold leafOld at h
    cases hm : M x.name with
    | some t =>
      rw [hm] at h
      cases t with
      | symbolic r =>
        simp only [] at h
        have honly' := hc.c4 x hxm (by rw [hxp]; simp) r hm
        obtain ⟨j', x', p', g1, g2, g3, g4⟩ := ih j x r hj honly' hm h
        exact ⟨j', x', p', g1, g2, g3.snoc hj hxp, g4⟩
      | object o =>
        simp only [Option.some.injEq] at h
        subst h
        refine ⟨j, x, i, hj, hxp, Up.refl i, ?_⟩
        unfold applied
        cases x.update.change <;> simp [recordExisting, prevOid, hm]
    | none =>
      rw [hm] at h
      simp only [] at h
      rw [find?_name_nodup es hc.nodup x hxm] at h
      simp only [] at h
      refine ⟨j, x, i, hj, hxp, Up.refl i, ?_⟩
      unfold applied
      rw [hm]
      cases hch : x.update.change with
      | update log ex new =>
        rw [hch] at h
        cases ex with
        | existingMustMatch t => cases t <;> simp_all [recordExisting, prevOid]
        | any => simp at h
        | mustExist => simp at h
        | mustNotExist => simp at h
        | mustExistAndMatch t => simp at h
      | delete ex log =>
        rw [hch] at h
        cases ex with
        | existingMustMatch t => cases t <;> simp_all [recordExisting, prevOid]
        | any => simp at h
        | mustExist => simp at h
        | mustNotExist => simp at h
        | mustExistAndMatch t => simp at h

theorem getElem?_set_map {β : Type} (f : Edit → β) (cur : List Edit) (cid : Nat) (e e1 : Edit)
    (hget : cur[cid]? = some e) (hf : f e1 = f e) (k : Nat) :
    ((cur.set cid e1)[k]?).map f = (cur[k]?).map f := by
  by_cases hk : cid = k
  · subst hk
    have hlt : cid < cur.length := by
      rcases Nat.lt_or_ge cid cur.length with hh | hh
      · exact hh
      · rw [List.getElem?_eq_none hh] at hget; cases hget
    rw [hget, List.getElem?_set_self hlt]
    simp [hf]
  · rw [List.getElem?_set_ne hk]

/-- later rounds of the loop do not touch what `lock_ref_and_apply_change` left in earlier edits -/
theorem prepLoop_core_before (cx : Ctx) (unlockPacked : Store → Store) :
    ∀ todo cid S (cur out : List Edit) S', prepLoop .fixed cx unlockPacked todo cid S cur = .ok out S' →
      ∀ k, k < cid → (out[k]?).map Edit.core = (cur[k]?).map Edit.core := by
  intro todo
  induction todo with
  | zero =>
    intro cid S cur out S' h k _
    simp only [prepLoop] at h
    injection h with h1 h2
    rw [h1]
  | succ todo ih =>
    intro cid S cur out S' h k hk
    simp only [prepLoop] at h
    cases hget : cur[cid]? with
    | none =>
      rw [hget] at h
      injection h with h1 h2
      rw [h1]
    | some e =>
      rw [hget] at h
      simp only [] at h
      cases hla : lockAndApply cx S e with
      | error err =>
        rw [hla] at h
        cases err with
        | lock =>
          simp only [] at h
          cases hw : walkBy .fixed cur cur.length e.parent e.name with
          | none => rw [hw] at h; cases h
          | some w => rw [hw] at h; cases w <;> cases h
        | check ce =>
          simp only [] at h
          cases he : errOfCheck e.name ce with
          | none => rw [he] at h; cases h
          | some _ => rw [he] at h; cases h
      | ok r =>
        obtain ⟨S1, e1⟩ := r
        rw [hla] at h
        simp only [] at h
        have hk1 : (( cur.set cid e1)[k]?) = cur[k]? := List.getElem?_set_ne (by omega)
        cases hpo : prevOid e1.update.change with
        | none =>
          rw [hpo] at h
          simp only [] at h
          rw [ih (cid + 1) S1 _ out S' h k (by omega), hk1]
        | some oid =>
          rw [hpo] at h
          cases hpp : e1.parent with
          | none =>
            rw [hpp] at h
            simp only [] at h
            rw [ih (cid + 1) S1 _ out S' h k (by omega), hk1]
          | some p =>
            rw [hpp] at h
            simp only [] at h
            cases hsl : setLeaf oid (cur.set cid e1).length (some p) (cur.set cid e1) with
            | none => rw [hsl] at h; cases h
            | some r2 =>
              cases r2 with
              | none => rw [hsl] at h; cases h
              | some es2 =>
                rw [hsl] at h
                simp only [] at h
                have hc2 := congrArg (fun l => l[k]?) (setLeaf_core oid _ _ _ es2 hsl)
                simp only [List.getElem?_map] at hc2
                rw [ih (cid + 1) S1 es2 out S' h k (by omega), hc2, hk1]

theorem inv_finish (M : RefMap) (es cur : List Edit) (cid : Nat)
    (I1 : ∀ (i : Nat) (v : Oid), (cur[i]?).map Edit.leafPrev = some (some v) → leafT M es i = some v)
    (I2 : ∀ (i : Nat) (v : Oid), leafT M es i = some v → (cur[i]?).map Edit.leafPrev = some (some v) ∨
      ∃ (j : Nat) (x : Edit), cid ≤ j ∧ es[j]? = some x)
    (hend : ∀ j, cid ≤ j → es[j]? = none) :
    ∀ (i : Nat) (e' : Edit), cur[i]? = some e' → e'.leafPrev = leafT M es i := by
  intro i e' he'
  cases hl : e'.leafPrev with
  | some v => exact (I1 i v (by rw [he']; simp [hl])).symm
  | none =>
    cases ht : leafT M es i with
    | none => rfl
    | some v =>
      rcases I2 i v ht with h | ⟨j, x, hj, hjx⟩
      · rw [he'] at h; simp [hl] at h
      · rw [hend j hj] at hjx; cases hjx

/-- a value still to be sent up to index `i` by an edit the loop has not reached yet -/
def Pending (cx : Ctx) (M : RefMap) (es : List Edit) (cid i : Nat) (v : Oid) : Prop :=
  ∃ (j : Nat) (x : Edit) (p : Nat), cid ≤ j ∧ es[j]? = some x ∧ x.parent = some p ∧ Up es p i ∧
    prevOid (applied cx (M x.name) x).update.change = some v

theorem some_of_map_eq {α β : Type} (f : α → β) (a b : Option α) (h : a.map f = b.map f) (hb : b.isSome) :
    ∃ x, a = some x := by
  cases a with
  | none => cases b with
    | none => cases hb
    | some y => cases h
  | some x => exact ⟨x, rfl⟩

/-- the loop of `prepare_inner` leaves in every edit exactly the leaf value `leafT` -/
theorem prepLoop_leafT (cx : Ctx) (unlockPacked : Store → Store) (M : RefMap) (es : List Edit) (hc : Chains M es)
    (hchk : ∀ e ∈ es, checkC (M e.name) e = none) (out : List Edit) (Sfin : Store)
    (hfinal : ∀ k : Nat, (out[k]?).map Edit.core = (es[k]?).map (fun e => (applied cx (M e.name) e).core)) :
    ∀ todo cid S (cur : List Edit), prepLoop .fixed cx unlockPacked todo cid S cur = .ok out Sfin →
      todo + cid = es.length → ParEq cur es →
      (∀ (i : Nat) (v : Oid), (cur[i]?).map Edit.leafPrev = some (some v) → leafT M es i = some v) →
      (∀ (i : Nat) (v : Oid), leafT M es i = some v →
        (cur[i]?).map Edit.leafPrev = some (some v) ∨ Pending cx M es cid i v) →
      ∀ (i : Nat) (e' : Edit), out[i]? = some e' → e'.leafPrev = leafT M es i := by
  intro todo
  induction todo with
  | zero =>
    intro cid S cur h hlen hpe I1 I2
    simp only [prepLoop] at h
    injection h with h1 h2
    subst h1
    apply inv_finish M es cur cid I1
    · intro i v ht
      rcases I2 i v ht with h | ⟨j, x, p, hj, hjx, _⟩
      · exact Or.inl h
      · exact Or.inr ⟨j, x, hj, hjx⟩
    · intro j hj; exact List.getElem?_eq_none (by omega)
  | succ todo ih =>
    intro cid S cur h hlen hpe I1 I2
    have hlt : cid < es.length := by omega
    have hx : es[cid]? = some es[cid] := List.getElem?_eq_getElem hlt
    generalize es[cid] = x at hx
    simp only [prepLoop] at h
    cases hget : cur[cid]? with
    | none =>
      have := hpe cid
      rw [hget, hx] at this
      cases this
    | some e =>
      rw [hget] at h
      simp only [] at h
      have hxp : x.parent = e.parent := by
        have := hpe cid
        rw [hget, hx] at this
        simp only [Option.map_some, Option.some.injEq] at this
        exact this.symm
      cases hla : lockAndApply cx S e with
      | error err =>
        rw [hla] at h
        cases err with
        | lock =>
          simp only [] at h
          cases hw : walkBy .fixed cur cur.length e.parent e.name with
          | none => rw [hw] at h; cases h
          | some w => rw [hw] at h; cases w <;> cases h
        | check ce =>
          simp only [] at h
          cases he : errOfCheck e.name ce with
          | none => rw [he] at h; cases h
          | some _ => rw [he] at h; cases h
      | ok r =>
        obtain ⟨S1, e1⟩ := r
        rw [hla] at h
        simp only [] at h
        have hp1 : e1.parent = e.parent := lockAndApply_parent cx S e S1 e1 hla
        have hl1 : e1.leafPrev = e.leafPrev := lockAndApply_leaf cx S e S1 e1 hla
        have hpe1 : ParEq (cur.set cid e1) es := fun k => by
          rw [getElem?_set_map Edit.parent cur cid e e1 hget hp1 k]; exact hpe k
        have hL1 : ∀ k : Nat, ((cur.set cid e1)[k]?).map Edit.leafPrev = (cur[k]?).map Edit.leafPrev :=
          getElem?_set_map Edit.leafPrev cur cid e e1 hget hl1
        have hcl : cid < cur.length := by
          rcases Nat.lt_or_ge cid cur.length with hh | hh
          · exact hh
          · rw [List.getElem?_eq_none hh] at hget; cases hget
        have key : ∀ curN : List Edit, curN.map Edit.core = (cur.set cid e1).map Edit.core →
            prepLoop .fixed cx unlockPacked todo (cid + 1) S1 curN = .ok out Sfin →
            e1.update = (applied cx (M x.name) x).update := by
          intro curN hcN hN
          have hcb := prepLoop_core_before cx unlockPacked todo (cid + 1) S1 curN out Sfin hN cid (Nat.lt_succ_self _)
          have h2 := congrArg (fun l => l[cid]?) hcN
          simp only [List.getElem?_map, List.getElem?_set_self hcl, Option.map_some] at h2
          have h3 := hfinal cid
          rw [hx, hcb, h2] at h3
          simp only [Option.map_some, Option.some.injEq] at h3
          show e1.core.update = (applied cx (M x.name) x).core.update
          exact congrArg Edit.update h3
        have caseA : (prevOid e1.update.change = none ∨ e1.parent = none) →
            prepLoop .fixed cx unlockPacked todo (cid + 1) S1 (cur.set cid e1) = .ok out Sfin →
            ∀ (i : Nat) (e' : Edit), out[i]? = some e' → e'.leafPrev = leafT M es i := by
          intro hA hN
          have hupd := key _ rfl hN
          apply ih (cid + 1) S1 _ hN (by omega) hpe1
          · intro i v hv; rw [hL1] at hv; exact I1 i v hv
          · intro i v ht
            rcases I2 i v ht with hh | ⟨j, x', p', hj, hjx, hjp, hup, hprev⟩
            · left; rw [hL1]; exact hh
            · right
              by_cases hjc : j = cid
              · subst hjc
                rw [hx] at hjx; cases hjx
                rw [← hupd] at hprev
                rcases hA with hA | hA
                · rw [hA] at hprev; cases hprev
                · rw [hp1, ← hxp, hjp] at hA; cases hA
              · exact ⟨j, x', p', by omega, hjx, hjp, hup, hprev⟩
        cases hpo : prevOid e1.update.change with
        | none =>
          rw [hpo] at h
          simp only [] at h
          exact caseA (Or.inl hpo) h
        | some oid =>
          rw [hpo] at h
          cases hpp : e1.parent with
          | none =>
            rw [hpp] at h
            simp only [] at h
            exact caseA (Or.inr hpp) h
          | some p =>
            rw [hpp] at h
            simp only [] at h
            cases hsl : setLeaf oid (cur.set cid e1).length (some p) (cur.set cid e1) with
            | none => rw [hsl] at h; cases h
            | some r2 =>
              cases r2 with
              | none => rw [hsl] at h; cases h
              | some es2 =>
                rw [hsl] at h
                simp only [] at h
                have hupd := key es2 (setLeaf_core oid _ _ _ es2 hsl) h
                obtain ⟨hpe2, hsl2⟩ := setLeaf_up oid es _ _ _ es2 hsl hpe1
                have hxpp : x.parent = some p := by rw [hxp, ← hp1, hpp]
                have hprevx : prevOid (applied cx (M x.name) x).update.change = some oid := by
                  rw [← hupd]; exact hpo
                have hW : ∀ i, Up es p i → leafT M es i = some oid := fun i hup =>
                  leafT_of_writer cx M es hc hchk cid x p i oid hx hxpp hup hprevx
                apply ih (cid + 1) S1 es2 h (by omega) hpe2
                · intro i v hv
                  by_cases hu : ∃ p', (some p : Option Nat) = some p' ∧ Up es p' i
                  · obtain ⟨p', hp', hup⟩ := hu
                    cases hp'
                    cases he2 : es2[i]? with
                    | none => rw [he2] at hv; cases hv
                    | some e' =>
                      rw [he2] at hv
                      simp only [Option.map_some, Option.some.injEq] at hv
                      have := (hsl2 i).1 ⟨p, rfl, hup⟩ e' he2
                      rw [this] at hv
                      cases hv
                      exact hW i hup
                  · rw [(hsl2 i).2 hu, hL1] at hv; exact I1 i v hv
                · intro i v ht
                  by_cases hu : ∃ p', (some p : Option Nat) = some p' ∧ Up es p' i
                  · left
                    obtain ⟨p', hp', hup⟩ := hu
                    cases hp'
                    have hov : oid = v := by
                      have := hW i hup
                      rw [ht] at this
                      cases this; rfl
                    have hsome : (es[i]?).isSome := by
                      unfold leafT at ht
                      cases hes : es[i]? with
                      | none => rw [hes] at ht; cases ht
                      | some _ => rfl
                    obtain ⟨e', he2⟩ := some_of_map_eq Edit.parent _ _ (hpe2 i) hsome
                    rw [he2]
                    simp only [Option.map_some]
                    rw [(hsl2 i).1 ⟨p, rfl, hup⟩ e' he2, hov]
                  · rcases I2 i v ht with hh | ⟨j, x', p', hj, hjx, hjp, hup, hprev⟩
                    · left; rw [(hsl2 i).2 hu, hL1]; exact hh
                    · by_cases hjc : j = cid
                      · subst hjc
                        rw [hx] at hjx; cases hjx
                        rw [hxpp] at hjp; cases hjp
                        exact absurd ⟨p, rfl, hup⟩ hu
                      · right; exact ⟨j, x', p', by omega, hjx, hjp, hup, hprev⟩

theorem logLineOf_congr (a b : Edit) (hu : a.update = b.update) (hl : a.leafPrev = b.leafPrev) :
    logLineOf a = logLineOf b := by
  unfold logLineOf
  rw [hu, hl]

theorem logsU_pointwise (M : RefMap) (es : List Edit) :
    ∀ (out es' : List Edit) (logs : List (Name × List LogLine)), out.length = es'.length →
      (∀ (i : Nat) (a e : Edit), out[i]? = some a → es'[i]? = some e →
        logLineOf a = specLineFull M es e ∧ a.name = e.name) →
      logsU logs out = specLogsUFull M es logs es' := by
  intro out
  induction out with
  | nil =>
    intro es' logs hlen _
    cases es' with
    | nil => rfl
    | cons _ _ => simp at hlen
  | cons a out ih =>
    intro es' logs hlen hpt
    cases es' with
    | nil => simp at hlen
    | cons e es'' =>
      obtain ⟨h1, h2⟩ := hpt 0 a e rfl rfl
      simp only [logsU, specLogsUFull, h1, h2]
      apply ih es'' _ (by simpa using hlen)
      intro i a' e' ha he
      exact hpt (i + 1) a' e' (by simpa using ha) (by simpa using he)

/-- every split symbolic ref has a symbolic value (from the chain facts) -/
theorem Chains.only_sym {M : RefMap} {es : List Edit} (hc : Chains M es) (i : Nat) (pe : Edit)
    (hi : es[i]? = some pe) (ho : pe.update.change.logMode = .only) : ∃ r, M pe.name = some (.symbolic r) := by
  obtain ⟨j, x, hj, hxp⟩ := hc.c2 i pe hi ho
  obtain ⟨pe', hpe', _, hsym⟩ := hc.c1 j x i hj hxp
  rw [hi] at hpe'; cases hpe'
  exact ⟨x.name, hsym⟩

/-- the reflog line of a prepared edit whose leaf value is `leafT` is the line of the full statement -/
theorem logLine_full (cx : Ctx) (M : RefMap) (es : List Edit) (hc : Chains M es) (i : Nat) (e a : Edit)
    (hi : es[i]? = some e) (hel : e.leafPrev = none) (hchk : checkC (M e.name) e = none)
    (hau : a.update = (applied cx (M e.name) e).update) (hal : a.leafPrev = leafT M es i) :
    logLineOf a = specLineFull M es e := by
  cases hmode : e.update.change.logMode with
  | andReference =>
    have hT : leafT M es i = none := by
      unfold leafT; rw [hi]; simp only [hmode]
    rw [logLineOf_congr a (applied cx (M e.name) e) hau (by rw [hal, hT, applied_leaf, hel]),
      logLineOf_applied cx _ e hel hchk]
    unfold specLineFull
    cases hch : e.update.change with
    | delete ex log => rfl
    | update log ex new =>
      rw [hch] at hmode
      simp only [Change.logMode] at hmode
      subst hmode
      rfl
  | only =>
    obtain ⟨r, hsym⟩ := hc.only_sym i e hi hmode
    have hT : leafT M es i = leafOld M es (es.length + 1) r := by
      unfold leafT; rw [hi]; simp only [hmode, hsym]
    rw [logLineOf_congr a { applied cx (M e.name) e with leafPrev := leafT M es i } hau hal]
    unfold logLineOf specLineFull specLine applied
    rw [hT, hsym]
    cases hch : e.update.change with
    | delete ex log => rfl
    | update log ex new =>
      rw [hch] at hmode
      simp only [Change.logMode] at hmode
      subst hmode
      cases new with
      | object o => first | (simp [recordExisting]; done) | (simp [recordExisting]; rfl) | rfl
      | symbolic s => first | (simp [recordExisting]; done) | (simp [recordExisting]; rfl) | rfl

/-- the full reflog statement for every transaction whose preprocessed edits have the chain facts -/
theorem reflog_full_of_chains (env : Env) (SX SX' : StoreX) (t : Txn) (hS : StoreOk SX.base) (hL : NoLocks SX.base)
    (hT : PlainTxn t) (h : runX env SX t = .ok SX') (es : List Edit)
    (hp : preProcess (fun n => lookup SX.base.loose n) t.edits = .ok es) (hc : Chains (abs SX.base) es) :
    SX'.logs = logsD (specLogsUFull (abs SX.base) es SX.logs es) es := by
  obtain ⟨p, S1, hprep, hcm⟩ := runX_ok_parts env SX SX' t hL h
  obtain ⟨_, hlogs⟩ := commitX_ok { SX with base := S1 } SX' p hcm
  obtain ⟨cx, hcore, hff, todo, cid, S0, es0, hes0, hloop, htodo, hcid⟩ :=
    prepared_edits env SX.base t hS hL hT es hp p S1 hprep
  subst hes0 htodo hcid
  have hleaf0 := preProcess_leaf _ _ es0 hp
  have hchk := firstFailure_none _ _ hff
  have hfinal : ∀ k : Nat, (p.edits[k]?).map Edit.core
      = (es0[k]?).map (fun e => (applied cx (abs SX.base e.name) e).core) := by
    intro k
    have := congrArg (fun l => l[k]?) hcore
    simp only [List.getElem?_map, Option.map_map] at this
    exact this
  have hLT := prepLoop_leafT cx _ (abs SX.base) es0 hc hchk p.edits S1 hfinal es0.length 0 S0 es0 hloop (by omega)
    (fun _ => rfl)
    (by
      intro i v hv
      cases hes : es0[i]? with
      | none => rw [hes] at hv; cases hv
      | some e =>
        rw [hes] at hv
        simp only [Option.map_some, Option.some.injEq] at hv
        rw [hleaf0 e (List.mem_of_getElem? hes)] at hv; cases hv)
    (by
      intro i v ht
      right
      unfold leafT at ht
      cases hes : es0[i]? with
      | none => rw [hes] at ht; cases ht
      | some pe =>
        rw [hes] at ht
        simp only [] at ht
        cases hm : pe.update.change.logMode with
        | andReference => rw [hm] at ht; cases ht
        | only =>
          rw [hm] at ht
          cases hM : abs SX.base pe.name with
          | none => rw [hM] at ht; cases ht
          | some tg =>
            rw [hM] at ht
            cases tg with
            | object o => cases ht
            | symbolic next =>
              simp only [] at ht
              obtain ⟨j, x, p', g1, g2, g3, g4⟩ :=
                writer_of_leafOld cx (abs SX.base) es0 hc v _ i pe next hes hm hM ht
              exact ⟨j, x, p', Nat.zero_le _, g1, g2, g3, g4⟩)
  rw [hlogs]
  simp only []
  rw [logsD_congr _ _ _ (commit_kinds cx SX.base.find _ S1 p.edits es0 hcore)]
  congr 1
  apply logsU_pointwise (abs SX.base) es0 p.edits es0 SX.logs
  · have := congrArg List.length hcore
    simpa using this
  · intro i a e ha he
    have hk := hfinal i
    rw [ha, he] at hk
    simp only [Option.map_some, Option.some.injEq] at hk
    have hau : a.update = (applied cx (abs SX.base e.name) e).update := by
      show a.core.update = (applied cx (abs SX.base e.name) e).core.update
      exact congrArg Edit.update hk
    have hem : e ∈ es0 := List.mem_of_getElem? he
    refine ⟨logLine_full cx (abs SX.base) es0 hc i e a he (hleaf0 e hem) (hchk e hem) hau (hLT i a ha), ?_⟩
    show a.update.name = e.name
    rw [hau]; exact applied_name cx _ e

end GixModel.C16Fs
