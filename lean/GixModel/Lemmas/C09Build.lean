import GixModel.Lemmas.C09Lookup
import GixModel.Lemmas.C09Offsets
/-
C09 helper lemmas, part 7: the index writer (`build`) never panics on fewer than 2^31 entries with
distinct 20-byte ids and produces a well-formed table holding exactly the sorted entries.
-/
namespace GixModel.C09
open GixModel

theorem leL_trans {a b c : List Nat} (h1 : leL a b) (h2 : leL b c) : leL a c := by
  intro hgt
  rw [cmpL_swap_gt] at hgt
  have := cmpL_lt_of_lt_of_le hgt h1
  rw [cmpL_swap_lt] at this
  exact h2 this

/-- `a.id ≤ b.id` -/
def leE (a b : Entry) : Prop := cmpBytes a.id b.id ≠ .gt

theorem leE_trans {a b c : Entry} (h1 : leE a b) (h2 : leE b c) : leE a c := by
  unfold leE at *
  rw [cmpBytes_eq_cmpL] at *
  exact leL_trans h1 h2

theorem leE_of_gt {a b : Entry} (h : cmpBytes a.id b.id = .gt) : leE b a := by
  unfold leE
  rw [cmpBytes_eq_cmpL] at *
  rw [cmpL_swap_gt] at h
  rw [h]; decide

theorem mem_insertById {e y : Entry} {l : List Entry} : y ∈ insertById e l ↔ y = e ∨ y ∈ l := by
  induction l with
  | nil => simp [insertById]
  | cons x xs ih =>
    simp only [insertById]
    by_cases h : cmpBytes e.id x.id = .gt
    · simp only [h, if_true, List.mem_cons, ih]
      constructor
      · rintro (h1 | h1 | h1) <;> simp [h1]
      · rintro (h1 | h1 | h1) <;> simp [h1]
    · simp [h]

theorem insertById_perm (e : Entry) (l : List Entry) : (insertById e l).Perm (e :: l) := by
  induction l with
  | nil => simp [insertById]
  | cons x xs ih =>
    simp only [insertById]
    by_cases h : cmpBytes e.id x.id = .gt
    · simp only [h, if_true]
      exact (List.Perm.cons x ih).trans (List.Perm.swap e x xs)
    · simp [h]

theorem sortById_perm (es : List Entry) : (sortById es).Perm es := by
  induction es with
  | nil => simp [sortById]
  | cons e es ih =>
    have : sortById (e :: es) = insertById e (sortById es) := rfl
    rw [this]
    exact (insertById_perm e _).trans (List.Perm.cons e ih)

theorem insertById_sorted (e : Entry) (l : List Entry) (h : l.Pairwise leE) : (insertById e l).Pairwise leE := by
  induction l with
  | nil => simp [insertById]
  | cons x xs ih =>
    have h' := List.pairwise_cons.mp h
    simp only [insertById]
    by_cases hgt : cmpBytes e.id x.id = .gt
    · simp only [hgt, if_true]
      refine List.pairwise_cons.mpr ⟨?_, ih h'.2⟩
      intro y hy
      rcases mem_insertById.mp hy with rfl | hy
      · exact leE_of_gt hgt
      · exact h'.1 y hy
    · simp only [hgt, if_false]
      refine List.pairwise_cons.mpr ⟨?_, h⟩
      intro y hy
      rcases List.mem_cons.mp hy with rfl | hy
      · exact hgt
      · exact leE_trans hgt (h'.1 y hy)

theorem sortById_sorted (es : List Entry) : (sortById es).Pairwise leE := by
  induction es with
  | nil => simp [sortById]
  | cons e es ih => exact insertById_sorted e _ ih

/-- distinct ids: the sorted ids are strictly ascending -/
theorem sortById_strict (es : List Entry) (hnd : (es.map (·.id)).Nodup) :
    SortedIds ((sortById es).map (·.id)) := by
  unfold SortedIds
  rw [List.pairwise_map]
  have hnd' : ((sortById es).map (·.id)).Nodup := ((sortById_perm es).map _).nodup_iff.mpr hnd
  have hne : (sortById es).Pairwise (fun a b => a.id ≠ b.id) := by
    rw [List.Nodup, List.pairwise_map] at hnd'; exact hnd'
  have hboth := (sortById_sorted es).and hne
  refine hboth.imp ?_
  intro a b ⟨h1, h2⟩
  cases hc : cmpBytes a.id b.id with
  | lt => rfl
  | eq => exact absurd ((cmpBytes_eq_iff _ _).mp hc) h2
  | gt => exact absurd hc h1

theorem countLarge_le (offs : List Nat) : countLarge offs ≤ offs.length := List.length_filter_le _ _

/-- Everything the theorems need about the written index. -/
theorem build_spec (es : List Entry) (h20 : ∀ e ∈ es, e.id.length = 20)
    (hnd : (es.map (·.id)).Nodup) (hsmall : es.length < 2147483648) :
    ∃ x, build es = some x ∧
      x.ids = (sortById es).map (·.id) ∧ x.crcs = (sortById es).map (·.crc) ∧
      TableOk x.fan x.oidAt x.ids ∧ x.numObjects = some x.ids.length ∧
      (∀ i (h : i < (sortById es).length), x.offsetAt i = some (sortById es)[i].offset) ∧
      x.ofs32.length = es.length ∧ (∀ v ∈ x.ofs32, v < 4294967296) ∧
      (∀ v ∈ x.ofs64, ∃ e ∈ es, e.offset = v) ∧ x.fan.length = 256 ∧ (∀ v ∈ x.fan, v ≤ es.length) ∧
      fanMonotone x.fan = true ∧ x.ofs64.length ≤ es.length := by
  have hperm := sortById_perm es
  have hlen : (sortById es).length = es.length := hperm.length_eq
  have hs20 : ∀ x ∈ (sortById es).map (·.id), x.length = 20 := by
    intro x hx
    obtain ⟨e, he, rfl⟩ := List.mem_map.mp hx
    exact h20 e (hperm.mem_iff.mp he)
  have hsorted := sortById_strict es hnd
  have hfb := firstBytes_eq hs20
  have hfan := fanout_spec _ (sortedFb_of_sorted hsorted hs20)
  obtain ⟨o32, suffix, ho1, ho2, ho3, hob, ho4⟩ := encodeOffsets_spec ((sortById es).map (·.offset)) [] (by
    have := countLarge_le ((sortById es).map (·.offset))
    simp only [List.length_map, List.length_nil, LARGE_OFFSET_THRESHOLD] at this ⊢
    omega)
  have hnot : ¬ (sortById es).length > 4294967295 := by omega
  refine ⟨{ fan := (List.range 256).map (fun b => countLe b (((sortById es).map (·.id)).map hd)),
            ids := (sortById es).map (·.id), crcs := (sortById es).map (·.crc),
            ofs32 := o32, ofs64 := suffix }, ?_, rfl, rfl, ?_, ?_, ?_, ?_, hob, ?_, by simp, ?_,
            fanMonotone_counts _, ?_⟩
  · simp only [build, hnot, if_false, hfb, hfan, ho1, Option.bind_eq_bind, Option.bind_some,
      List.nil_append]
  · exact {
      sorted := hsorted
      len20 := hs20
      fanOk := rfl
      small := by simp only [List.length_map]; omega
      get := by intro i h; simp [Idx.oidAt, List.getElem?_eq_getElem h] }
  · simp only [Idx.numObjects]
    rw [List.getElem?_map, List.getElem?_range (by omega)]
    simp only [Option.map_some]
    congr 1
    rw [countLe_all (by intro y _; have := y.toNat_lt; omega)]
    simp
  · intro i h
    have := ho4 [] i (by simpa using h)
    simpa [Idx.offsetAt] using this
  · simp only [ho2, List.length_map, hlen]
  · intro v hv
    rw [ho3] at hv
    obtain ⟨hv1, _⟩ := List.mem_filter.mp hv
    obtain ⟨e, he, rfl⟩ := List.mem_map.mp hv1
    exact ⟨e, hperm.mem_iff.mp he, rfl⟩
  · intro v hv
    obtain ⟨b, _, rfl⟩ := List.mem_map.mp hv
    have := countLe_le_length b (((sortById es).map (·.id)).map hd)
    simp only [List.length_map, hlen] at this
    exact this
  · rw [ho3]
    have := List.length_filter_le (fun o => decide (o > LARGE_OFFSET_THRESHOLD)) ((sortById es).map (·.offset))
    simp only [List.length_map, hlen] at this
    exact this

end GixModel.C09
