import GixModel.Lemmas.C43
/-
C43 — helper lemmas, part 2: `ident::undo` (Rust) and `ident_to_git` (git) compute the same
function. Both are related to one reference function `collapse` that decides at the first `$`.
-/
set_option linter.unusedSimpArgs false
namespace GixModel.C43
open GixModel GixModel.C43Scan

/-! ### scanning primitives -/

theorem breakAt_append {p : UInt8 → Bool} : ∀ (pre rest : Bytes), (∀ x ∈ pre, p x = false) →
    breakAt p (pre ++ rest) = (breakAt p rest).map (fun r => (pre ++ r.1, r.2.1, r.2.2)) := by
  intro pre
  induction pre with
  | nil => intro rest _; cases h : breakAt p rest <;> simp [h]
  | cons b pre ih =>
    intro rest h
    have hb := h b (by simp)
    simp only [List.cons_append, breakAt, hb, Bool.false_eq_true, if_false]
    rw [ih rest (fun x hx => h x (by simp [hx]))]
    cases breakAt p rest <;> simp

theorem breakAt_none_of {p : UInt8 → Bool} : ∀ (bs : Bytes), (∀ x ∈ bs, p x = false) → breakAt p bs = none := by
  intro bs
  induction bs with
  | nil => intro _; rfl
  | cons b rest ih =>
    intro h
    simp only [breakAt, h b (by simp), Bool.false_eq_true, if_false, ih (fun x hx => h x (by simp [hx]))]

theorem breakAt_length {p : UInt8 → Bool} {bs pre : Bytes} {hit : UInt8} {post : Bytes}
    (h : breakAt p bs = some (pre, hit, post)) : bs.length = pre.length + 1 + post.length := by
  have := (breakAt_some h).1
  rw [this]; simp; omega

theorem startsWith_cons (c : UInt8) (pat bs : Bytes) (b : UInt8) :
    startsWith (c :: pat) (b :: bs) = (b == c && startsWith pat bs) := by
  simp only [startsWith, List.length_cons, List.take_succ_cons]
  by_cases h : b = c
  · subst h; simp
  · simp [h]

theorem splitOnSub_cons_ne (c : UInt8) (pat : Bytes) (b : UInt8) (rest : Bytes) (h : b ≠ c) :
    splitOnSub (c :: pat) (b :: rest) = (splitOnSub (c :: pat) rest).map (fun r => (b :: r.1, r.2)) := by
  simp only [splitOnSub, startsWith_cons, beq_eq_false_iff_ne.mpr h, Bool.false_and, Bool.false_eq_true, if_false]
  cases splitOnSub (c :: pat) rest <;> simp

theorem splitOnSub_append (c : UInt8) (pat : Bytes) : ∀ (x y : Bytes), (∀ b ∈ x, (b == c) = false) →
    splitOnSub (c :: pat) (x ++ y) = (splitOnSub (c :: pat) y).map (fun r => (x ++ r.1, r.2)) := by
  intro x
  induction x with
  | nil => intro y _; cases h : splitOnSub (c :: pat) y <;> simp [h]
  | cons b x ih =>
    intro y h
    have hb : b ≠ c := by simpa using h b (by simp)
    rw [List.cons_append, splitOnSub_cons_ne c pat b _ hb, ih y (fun z hz => h z (by simp [hz]))]
    cases splitOnSub (c :: pat) y <;> simp

theorem splitOnSub_some {pat : Bytes} : ∀ {bs pre post : Bytes},
    splitOnSub pat bs = some (pre, post) → bs = pre ++ pat ++ post := by
  intro bs
  induction bs with
  | nil => intro pre post h; simp [splitOnSub] at h
  | cons b rest ih =>
    intro pre post h
    unfold splitOnSub at h
    split at h
    · rename_i hs
      simp only [Option.some.injEq, Prod.mk.injEq] at h
      obtain ⟨rfl, rfl⟩ := h
      simp only [startsWith, beq_iff_eq] at hs
      simp only [List.nil_append]
      have := (List.take_append_drop pat.length (b :: rest)).symm
      rw [hs] at this
      exact this
    · cases hr : splitOnSub pat rest with
      | none => simp [hr] at h
      | some r =>
        obtain ⟨p1, p2⟩ := r
        simp only [hr, Option.some.injEq, Prod.mk.injEq] at h
        obtain ⟨rfl, rfl⟩ := h
        rw [ih hr]; simp

/-- `find(b"$Id:")` at a `$` -/
theorem splitOnSub_tag_dollar (s : Bytes) :
    splitOnSub tagIdColon (36 :: s) =
      if startsWith [73, 100, 58] s then some ([], s.drop 3)
      else (splitOnSub tagIdColon s).map (fun r => (36 :: r.1, r.2)) := by
  simp only [tagIdColon, splitOnSub, startsWith_cons, beq_self_eq_true, Bool.true_and]
  split
  · simp
  · cases splitOnSub [36, 73, 100, 58] s <;> simp


def isDollar (b : UInt8) : Bool := b == 36
def isDollarOrLf (b : UInt8) : Bool := b == 36 || b == 10

/-- reference semantics of "collapse every `$Id:…$` that has no line break in it": decide at the
first `$`; fuel = number of recursive calls allowed (`len + 1` always suffices) -/
def collapse : Nat → Bytes → Bytes
  | 0, src => src
  | fuel + 1, src =>
    match breakAt isDollar src with
    | none => src
    | some (pre, _, s1) =>
      if startsWith [73, 100, 58] s1 then
        match breakAt isDollarOrLf (s1.drop 3) with
        | none => src
        | some (mid, hit, post) =>
          if hit == 36 then pre ++ tagIdDollar ++ collapse fuel post
          else pre ++ tagIdColon ++ mid ++ [10] ++ collapse fuel post
      else pre ++ [36] ++ collapse fuel s1

theorem startsWith_length {pat bs : Bytes} (h : startsWith pat bs = true) : pat.length ≤ bs.length := by
  simp only [startsWith, beq_iff_eq] at h
  have := congrArg List.length h
  simp at this
  omega

theorem collapse_fuel : ∀ (n : Nat) (src : Bytes) (f1 f2 : Nat), src.length ≤ n → src.length < f1 → src.length < f2 →
    collapse f1 src = collapse f2 src := by
  intro n
  induction n with
  | zero =>
    intro src f1 f2 h h1 h2
    have : src = [] := List.eq_nil_of_length_eq_zero (by omega)
    subst this
    cases f1 <;> cases f2 <;> simp [collapse, breakAt]
  | succ n ih =>
    intro src f1 f2 h h1 h2
    cases f1 with
    | zero => omega
    | succ f1 =>
      cases f2 with
      | zero => omega
      | succ f2 =>
        simp only [collapse]
        cases hb : breakAt isDollar src with
        | none => rfl
        | some r =>
          obtain ⟨pre, hit, s1⟩ := r
          have hl := breakAt_length hb
          simp only
          split
          · rename_i hs
            have hsl := startsWith_length hs
            simp only [List.length_cons, List.length_nil] at hsl
            cases hb2 : breakAt isDollarOrLf (s1.drop 3) with
            | none => rfl
            | some r2 =>
              obtain ⟨mid, hit2, post⟩ := r2
              have hl2 := breakAt_length hb2
              simp only [List.length_drop] at hl2
              simp only
              have := ih post f1 f2 (by omega) (by omega) (by omega)
              rw [this]
          · have := ih s1 f1 f2 (by omega) (by omega) (by omega)
            rw [this]

theorem collapse_succ (fuel : Nat) (src : Bytes) :
    collapse (fuel + 1) src =
      match breakAt isDollar src with
      | none => src
      | some (pre, _, s1) =>
        if startsWith [73, 100, 58] s1 then
          match breakAt isDollarOrLf (s1.drop 3) with
          | none => src
          | some (mid, hit, post) =>
            if hit == 36 then pre ++ tagIdDollar ++ collapse fuel post
            else pre ++ tagIdColon ++ mid ++ [10] ++ collapse fuel post
        else pre ++ [36] ++ collapse fuel s1 := rfl

/-- `collapse` with the canonical fuel -/
def collapseAll (src : Bytes) : Bytes := collapse (src.length + 1) src

theorem collapse_eq_all (f : Nat) (src : Bytes) (h : src.length < f) : collapse f src = collapseAll src :=
  collapse_fuel src.length src f (src.length + 1) (Nat.le_refl _) h (Nat.lt_succ_self _)

theorem collapseAll_noDollar (src : Bytes) (h : ∀ x ∈ src, isDollar x = false) : collapseAll src = src := by
  simp [collapseAll, collapse, breakAt_none_of src h]

/-- unfolding at the first `$` -/
theorem collapseAll_step (pre s1 : Bytes) (hpre : ∀ x ∈ pre, isDollar x = false) :
    collapseAll (pre ++ 36 :: s1) =
      if startsWith [73, 100, 58] s1 then
        match breakAt isDollarOrLf (s1.drop 3) with
        | none => pre ++ 36 :: s1
        | some (mid, hit, post) =>
          if hit == 36 then pre ++ tagIdDollar ++ collapseAll post
          else pre ++ tagIdColon ++ mid ++ [10] ++ collapseAll post
      else pre ++ [36] ++ collapseAll s1 := by
  have hb : breakAt isDollar (pre ++ 36 :: s1) = some (pre, 36, s1) := by
    rw [breakAt_append pre _ hpre]
    simp [breakAt, isDollar]
  have hlen : (pre ++ 36 :: s1).length = pre.length + s1.length + 1 := by simp; omega
  rw [collapseAll, collapse_succ, hb]
  simp only
  split
  · rename_i hs
    have hsl := startsWith_length hs
    simp only [List.length_cons, List.length_nil] at hsl
    cases hb2 : breakAt isDollarOrLf (s1.drop 3) with
    | none => rfl
    | some r2 =>
      obtain ⟨mid, hit2, post⟩ := r2
      have hl2 := breakAt_length hb2
      simp only [List.length_drop] at hl2
      simp only
      rw [collapse_eq_all _ post (by rw [hlen]; omega)]
  · rw [collapse_eq_all _ s1 (by rw [hlen]; omega)]

/-- a `$`-free prefix is copied -/
theorem collapseAll_prefix (x y : Bytes) (hx : ∀ b ∈ x, isDollar b = false) :
    collapseAll (x ++ y) = x ++ collapseAll y := by
  cases hb : breakAt isDollar y with
  | none =>
    have hy := breakAt_none hb
    rw [collapseAll_noDollar y hy, collapseAll_noDollar]
    intro b hbm
    rcases List.mem_append.mp hbm with h | h
    · exact hx b h
    · exact hy b h
  | some r =>
    obtain ⟨pre, hit, s1⟩ := r
    obtain ⟨hy, hhit, hpre⟩ := breakAt_some hb
    have h36 : hit = 36 := by simpa [isDollar] using hhit
    subst h36
    rw [hy, ← List.append_assoc, collapseAll_step (x ++ pre) s1, collapseAll_step pre s1 hpre]
    · split
      · cases breakAt isDollarOrLf (s1.drop 3) with
        | none => simp
        | some r2 =>
          obtain ⟨mid, hit2, post⟩ := r2
          simp only
          split <;> simp
      · simp
    · intro b hbm
      rcases List.mem_append.mp hbm with h | h
      · exact hx b h
      · exact hpre b h


open GixModel.Spec.C43 (identToGitLoop)

theorem isDollar_eq : (fun b : UInt8 => b == 36) = isDollar := rfl

theorem noDollar_of_noDollarOrLf {l : Bytes} (h : ∀ x ∈ l, isDollarOrLf x = false) : ∀ x ∈ l, isDollar x = false := by
  intro x hx
  have := h x hx
  simp only [isDollarOrLf, Bool.or_eq_false_iff] at this
  exact this.1

theorem noLf_of_noDollarOrLf {l : Bytes} (h : ∀ x ∈ l, isDollarOrLf x = false) : l.contains 10 = false := by
  rw [Bool.eq_false_iff]
  intro hc
  have hm : (10 : UInt8) ∈ l := by simpa using hc
  have := h 10 hm
  simp [isDollarOrLf] at this

theorem identToGitLoop_eq : ∀ (n : Nat) (src dst : Bytes) (fuel : Nat), src.length ≤ n → src.length < fuel →
    identToGitLoop fuel src dst = dst ++ collapseAll src := by
  intro n
  induction n with
  | zero =>
    intro src dst fuel h hf
    have : src = [] := List.eq_nil_of_length_eq_zero (by omega)
    subst this
    cases fuel with
    | zero => omega
    | succ fuel => simp [identToGitLoop, breakAt, collapseAll, collapse]
  | succ n ih =>
    intro src dst fuel h hf
    cases fuel with
    | zero => omega
    | succ fuel =>
      unfold identToGitLoop
      rw [isDollar_eq]
      cases hb : breakAt isDollar src with
      | none =>
        simp only
        rw [collapseAll_noDollar src (breakAt_none hb)]
      | some r =>
        obtain ⟨pre, hit, s1⟩ := r
        obtain ⟨hsrc, hhit, hpre⟩ := breakAt_some hb
        have h36 : hit = 36 := by simpa [isDollar] using hhit
        subst h36
        have hl := breakAt_length hb
        simp only
        rw [hsrc, collapseAll_step pre s1 hpre]
        by_cases hs : startsWith [73, 100, 58] s1 = true
        · have hsl := startsWith_length hs
          simp only [List.length_cons, List.length_nil] at hsl
          simp only [hs, Bool.and_true, if_true]
          by_cases hlen : s1.length > 3
          · simp only [hlen, decide_true, if_true]
            cases hb2 : breakAt isDollarOrLf (s1.drop 3) with
            | none =>
              -- no `$` after the tag
              have hnd := noDollar_of_noDollarOrLf (breakAt_none hb2)
              rw [breakAt_none_of _ hnd]
              simp
            | some r2 =>
              obtain ⟨mid, hit2, post⟩ := r2
              obtain ⟨hdrop, hhit2, hmid⟩ := breakAt_some hb2
              have hl2 := breakAt_length hb2
              simp only [List.length_drop] at hl2
              simp only
              by_cases h2 : hit2 = 36
              · subst h2
                have : breakAt isDollar (s1.drop 3) = some (mid, 36, post) := by
                  rw [hdrop, breakAt_append mid _ (noDollar_of_noDollarOrLf hmid)]
                  simp [breakAt, isDollar]
                rw [this]
                simp only [noLf_of_noDollarOrLf hmid, Bool.false_eq_true, if_false, beq_self_eq_true, if_true]
                rw [ih post _ fuel (by omega) (by omega)]
                simp [tagIdDollar]
              · have h10 : hit2 = 10 := by
                  simp only [isDollarOrLf, Bool.or_eq_true, beq_iff_eq] at hhit2
                  rcases hhit2 with h | h
                  · exact absurd h h2
                  · exact h
                subst h10
                simp only [show ((10 : UInt8) == 36) = false by decide, Bool.false_eq_true, if_false]
                have hs1 : s1 = [73, 100, 58] ++ mid ++ 10 :: post := by
                  have := (List.take_append_drop 3 s1).symm
                  simp only [startsWith, beq_iff_eq, List.length_cons, List.length_nil] at hs
                  rw [hs, hdrop] at this
                  simpa using this
                have hpfx : ∀ b ∈ [73, 100, 58] ++ mid ++ [10], isDollar b = false := by
                  intro b hbm
                  simp only [List.mem_append, List.mem_cons, List.mem_singleton] at hbm
                  rcases hbm with (h | h) | h
                  · rcases h with rfl | rfl | rfl | h <;> first | rfl | simp at h
                  · exact noDollar_of_noDollarOrLf hmid b h
                  · rcases h with rfl | h <;> first | rfl | simp at h
                have hcs1 : collapseAll s1 = [73, 100, 58] ++ mid ++ [10] ++ collapseAll post := by
                  have : s1 = ([73, 100, 58] ++ mid ++ [10]) ++ post := by rw [hs1]; simp
                  rw [this, collapseAll_prefix _ _ hpfx]
                cases hb3 : breakAt isDollar post with
                | none =>
                  have hnd : ∀ x ∈ s1.drop 3, isDollar x = false := by
                    rw [hdrop]
                    intro x hx
                    rcases List.mem_append.mp hx with h | h
                    · exact noDollar_of_noDollarOrLf hmid x h
                    · simp only [List.mem_cons] at h
                      rcases h with rfl | h
                      · rfl
                      · exact breakAt_none hb3 x h
                  rw [breakAt_none_of _ hnd]
                  simp only
                  rw [collapseAll_noDollar post (breakAt_none hb3)]
                  rw [hs1]; simp [tagIdColon]
                | some r3 =>
                  obtain ⟨p1, hit3, src2⟩ := r3
                  obtain ⟨hpost, hhit3, hp1⟩ := breakAt_some hb3
                  have h336 : hit3 = 36 := by simpa [isDollar] using hhit3
                  subst h336
                  have : breakAt isDollar (s1.drop 3) = some (mid ++ 10 :: p1, 36, src2) := by
                    rw [hdrop, hpost]
                    have : mid ++ 10 :: (p1 ++ 36 :: src2) = (mid ++ 10 :: p1) ++ 36 :: src2 := by simp
                    rw [this, breakAt_append (mid ++ 10 :: p1)]
                    · simp [breakAt, isDollar]
                    · intro x hx
                      rcases List.mem_append.mp hx with h | h
                      · exact noDollar_of_noDollarOrLf hmid x h
                      · simp only [List.mem_cons] at h
                        rcases h with rfl | h
                        · rfl
                        · exact hp1 x h
                  rw [this]
                  have hc : (mid ++ 10 :: p1).contains 10 = true := by simp
                  simp only [hc, if_true]
                  rw [ih s1 _ fuel (by omega) (by omega), hcs1]
                  simp [tagIdColon]
          · -- exactly "Id:" and nothing more
            have hs1len : s1.length = 3 := by omega
            have hdrop : s1.drop 3 = [] := List.drop_eq_nil_of_le (by omega)
            simp only [hlen, decide_false, Bool.false_eq_true, if_false, hdrop, breakAt]
            rw [ih s1 _ fuel (by omega) (by omega)]
            have hnd : ∀ x ∈ s1, isDollar x = false := by
              have := (List.take_append_drop 3 s1).symm
              simp only [startsWith, beq_iff_eq, List.length_cons, List.length_nil] at hs
              rw [hs, hdrop] at this
              rw [this]
              intro x hx
              simp at hx
              rcases hx with rfl | rfl | rfl <;> rfl
            rw [collapseAll_noDollar s1 hnd]
            simp
        · simp only [hs, Bool.and_false, Bool.false_eq_true, if_false]
          rw [ih s1 _ fuel (by omega) (by omega)]
          simp


open GixModel.Spec.C43 (countIdentInner countIdentLoop countIdent identToGit)

theorem countIdentInner_eq : ∀ (cp : Bytes) (cnt : Nat),
    countIdentInner cp cnt =
      match breakAt isDollarOrLf cp with
      | none => ([], cnt)
      | some (_, hit, post) => (post, if hit == 36 then cnt + 1 else cnt) := by
  intro cp
  induction cp with
  | nil => intro cnt; rfl
  | cons ch cp ih =>
    intro cnt
    by_cases h36 : ch = 36
    · subst h36; simp [countIdentInner, breakAt, isDollarOrLf]
    · by_cases h10 : ch = 10
      · subst h10; simp [countIdentInner, breakAt, isDollarOrLf]
      · have hp : isDollarOrLf ch = false := by simp [isDollarOrLf, h36, h10]
        simp only [countIdentInner, breakAt, hp, beq_iff_eq, h36, h10, if_false, Bool.false_eq_true]
        rw [ih cnt]
        cases hb : breakAt isDollarOrLf cp with
        | none => rfl
        | some v => obtain ⟨a, b, c⟩ := v; simp

theorem collapseAll_short : ∀ (n : Nat) (src : Bytes), src.length ≤ n → src.length < 5 → collapseAll src = src := by
  intro n
  induction n with
  | zero =>
    intro src h _
    have : src = [] := List.eq_nil_of_length_eq_zero (by omega)
    subst this; rfl
  | succ n ih =>
    intro src h h5
    cases hb : breakAt isDollar src with
    | none => exact collapseAll_noDollar src (breakAt_none hb)
    | some r =>
      obtain ⟨pre, hit, s1⟩ := r
      obtain ⟨hsrc, hhit, hpre⟩ := breakAt_some hb
      have h36 : hit = 36 := by simpa [isDollar] using hhit
      subst h36
      have hl := breakAt_length hb
      rw [hsrc, collapseAll_step pre s1 hpre]
      split
      · rename_i hs
        have hsl := startsWith_length hs
        simp only [List.length_cons, List.length_nil] at hsl
        have : s1.drop 3 = [] := List.drop_eq_nil_of_le (by omega)
        simp [this, breakAt]
      · rw [ih s1 (by omega) (by omega)]; simp

theorem startsWith_Id_of_IdColon {cp : Bytes} (h : startsWith [73, 100, 58] cp = true) :
    startsWith [73, 100] cp = true := by
  match cp, h with
  | a :: b :: c :: rest, h =>
    simp only [startsWith_cons, Bool.and_eq_true, beq_iff_eq] at h ⊢
    exact ⟨h.1, h.2.1, by simp [startsWith]⟩
  | [], h => simp [startsWith] at h
  | [_], h => simp [startsWith] at h
  | [_, _], h => simp [startsWith] at h

theorem countIdentLoop_spec : ∀ (n : Nat) (src : Bytes) (fuel cnt : Nat), src.length ≤ n → src.length < fuel →
    cnt ≤ countIdentLoop fuel src cnt ∧ (countIdentLoop fuel src cnt = cnt → collapseAll src = src) := by
  intro n
  induction n with
  | zero =>
    intro src fuel cnt h hf
    have : src = [] := List.eq_nil_of_length_eq_zero (by omega)
    subst this
    cases fuel with
    | zero => omega
    | succ fuel => exact ⟨by simp [countIdentLoop], fun _ => rfl⟩
  | succ n ih =>
    intro src fuel cnt h hf
    cases fuel with
    | zero => omega
    | succ fuel =>
      cases src with
      | nil => exact ⟨by simp [countIdentLoop], fun _ => rfl⟩
      | cons ch cp =>
        have hcp : cp.length ≤ n := by simp at h; omega
        have hcpf : cp.length < fuel := by simp at hf; omega
        unfold countIdentLoop
        by_cases h36 : ch = 36
        · subst h36
          simp only [bne_self_eq_false, Bool.false_eq_true, if_false]
          have hstep := collapseAll_step [] cp (by intro x hx; simp at hx)
          simp only [List.nil_append] at hstep
          by_cases hlen : cp.length < 3
          · simp only [hlen, decide_true, if_true]
            refine ⟨Nat.le_refl _, fun _ => ?_⟩
            exact collapseAll_short _ _ (Nat.le_refl _) (by simp; omega)
          · simp only [hlen, decide_false, Bool.false_eq_true, if_false]
            by_cases hid : startsWith [73, 100] cp = true
            · simp only [hid, Bool.not_true, Bool.false_eq_true, if_false]
              -- cp = I d ch2 :: cp3
              match cp, hlen, hid, hcp, hcpf, hstep with
              | a :: b :: ch2 :: cp3, _, hid, hcp, hcpf, hstep =>
                simp only [startsWith_cons, Bool.and_eq_true, beq_iff_eq] at hid
                obtain ⟨rfl, rfl, _⟩ := hid
                simp only [List.drop_succ_cons, List.drop_zero, List.headD_cons]
                have hcp3 : cp3.length ≤ n := by simp at hcp; omega
                have hcp3f : cp3.length < fuel := by simp at hcpf; omega
                by_cases hd : ch2 = 36
                · subst hd
                  simp only [beq_self_eq_true, if_true, show ((36 : UInt8) != 58) = true by decide]
                  have := (ih cp3 fuel (cnt + 1) hcp3 hcp3f).1
                  exact ⟨by omega, fun he => by omega⟩
                · by_cases hc : ch2 = 58
                  · subst hc
                    simp only [show ((58 : UInt8) == 36) = false by decide, Bool.false_eq_true, if_false,
                      bne_self_eq_false]
                    rw [countIdentInner_eq]
                    have hsw : startsWith [73, 100, 58] (73 :: 100 :: 58 :: cp3) = true := by
                      simp [startsWith]
                    simp only [hsw, if_true, List.drop_succ_cons, List.drop_zero] at hstep
                    cases hb2 : breakAt isDollarOrLf cp3 with
                    | none =>
                      simp only [hb2] at hstep ⊢
                      refine ⟨?_, fun _ => hstep⟩
                      cases fuel <;> simp [countIdentLoop]
                    | some r2 =>
                      obtain ⟨mid, hit2, post⟩ := r2
                      obtain ⟨hcp3e, hhit2, hmid⟩ := breakAt_some hb2
                      have hl2 := breakAt_length hb2
                      simp only [hb2] at hstep ⊢
                      have hpost := ih post fuel (if hit2 == 36 then cnt + 1 else cnt) (by omega) (by omega)
                      by_cases h2 : hit2 = 36
                      · subst h2
                        simp only [beq_self_eq_true, if_true] at hpost ⊢
                        exact ⟨by omega, fun he => by omega⟩
                      · have h10 : hit2 = 10 := by
                          simp only [isDollarOrLf, Bool.or_eq_true, beq_iff_eq] at hhit2
                          rcases hhit2 with h | h
                          · exact absurd h h2
                          · exact h
                        subst h10
                        simp only [show ((10 : UInt8) == 36) = false by decide, Bool.false_eq_true, if_false]
                          at hpost hstep ⊢
                        refine ⟨hpost.1, fun he => ?_⟩
                        rw [hstep, hpost.2 he, hcp3e]
                        simp [tagIdColon]
                  · have hne : (ch2 != 58) = true := by simpa using hc
                    have hne2 : (ch2 == 36) = false := by simpa using hd
                    simp only [hne, hne2, Bool.false_eq_true, if_false, if_true]
                    have hrec := ih cp3 fuel cnt hcp3 hcp3f
                    refine ⟨hrec.1, fun he => ?_⟩
                    have hsw : startsWith [73, 100, 58] (73 :: 100 :: ch2 :: cp3) = false := by
                      simp [startsWith, hc]
                    simp only [hsw, Bool.false_eq_true, if_false] at hstep
                    rw [hstep]
                    have hpfx : ∀ x ∈ [73, 100, ch2], isDollar x = false := by
                      intro x hx
                      simp at hx
                      rcases hx with rfl | rfl | rfl
                      · rfl
                      · rfl
                      · simpa [isDollar] using hd
                    have := collapseAll_prefix [73, 100, ch2] cp3 hpfx
                    simp only [List.cons_append, List.nil_append] at this
                    rw [this, hrec.2 he]
                    rfl
              | [], hlen, _, _, _, _ => simp at hlen
              | [_], hlen, _, _, _, _ => simp at hlen
              | [_, _], hlen, _, _, _, _ => simp at hlen
            · simp only [hid, Bool.not_false, if_true]
              have hrec := ih cp fuel cnt hcp hcpf
              refine ⟨hrec.1, fun he => ?_⟩
              have hsw : startsWith [73, 100, 58] cp = false := by
                cases hh : startsWith [73, 100, 58] cp with
                | false => rfl
                | true => exact absurd (startsWith_Id_of_IdColon hh) hid
              simp only [hsw, Bool.false_eq_true, if_false] at hstep
              rw [hstep, hrec.2 he]
              rfl
        · have hne : (ch != 36) = true := by simpa using h36
          simp only [hne, if_true]
          have hrec := ih cp fuel cnt hcp hcpf
          refine ⟨hrec.1, fun he => ?_⟩
          have := collapseAll_prefix [ch] cp (by intro x hx; simp at hx; subst hx; simpa [isDollar] using h36)
          simp only [List.cons_append, List.nil_append] at this
          rw [this, hrec.2 he]

/-- git's `ident_to_git` is `collapse` -/
theorem identToGit_eq_collapse (src : Bytes) : identToGit src true = collapseAll src := by
  unfold identToGit
  simp only [Bool.not_true, Bool.false_or]
  split
  · rename_i h
    have := (countIdentLoop_spec src.length src (src.length + 1) 0 (Nat.le_refl _) (Nat.lt_succ_self _)).2
    simp only [countIdent, beq_iff_eq] at h
    exact (this h).symm
  · rw [identToGitLoop_eq src.length src [] _ (Nat.le_refl _) (Nat.lt_succ_self _)]
    simp



theorem isDollarOrLf_eq : (fun b : UInt8 => b == 36 || b == 10) = isDollarOrLf := rfl

def prependBefore (sk : Bytes) (r : Bytes × Bytes) : Bytes × Bytes := (sk ++ r.1, r.2)

theorem findRange_fuel : ∀ (n : Nat) (cur sk : Bytes) (f1 f2 : Nat), cur.length ≤ n → cur.length < f1 → cur.length < f2 →
    findRange f1 cur sk = (findRange f2 cur []).map (prependBefore sk) := by
  intro n
  induction n with
  | zero =>
    intro cur sk f1 f2 h h1 h2
    have : cur = [] := List.eq_nil_of_length_eq_zero (by omega)
    subst this
    cases f1 <;> cases f2 <;> simp [findRange, splitOnSub] <;> omega
  | succ n ih =>
    intro cur sk f1 f2 h h1 h2
    cases f1 with
    | zero => omega
    | succ f1 =>
      cases f2 with
      | zero => omega
      | succ f2 =>
        simp only [findRange]
        cases hs : splitOnSub tagIdColon cur with
        | none => rfl
        | some r =>
          obtain ⟨pre, afterTag⟩ := r
          have hcur := splitOnSub_some hs
          simp only
          cases hb : breakAt (fun b => b == 36 || b == 10) afterTag with
          | none => rfl
          | some r2 =>
            obtain ⟨mid, hit, post⟩ := r2
            have hl := breakAt_length hb
            have hlen : post.length < cur.length := by
              rw [hcur]; simp [tagIdColon]; omega
            simp only
            split
            · rw [ih post _ f1 f2 (by omega) (by omega) (by omega)]
              rw [ih post ([] ++ pre ++ tagIdColon ++ mid ++ [10]) f2 f2 (by omega) (by omega) (by omega)]
              cases findRange f2 post [] with
              | none => rfl
              | some v => simp [prependBefore]
            · simp [prependBefore]

/-- `find_range` on the whole remaining input -/
def FR (cur : Bytes) : Option (Bytes × Bytes) := findRange (cur.length + 1) cur []

theorem findRange_eq_FR (cur sk : Bytes) (f : Nat) (h : cur.length < f) :
    findRange f cur sk = (FR cur).map (prependBefore sk) :=
  findRange_fuel cur.length cur sk f (cur.length + 1) (Nat.le_refl _) h (Nat.lt_succ_self _)

theorem FR_noDollar (cur : Bytes) (h : ∀ x ∈ cur, isDollar x = false) : FR cur = none := by
  have : splitOnSub tagIdColon cur = none := by
    have := splitOnSub_append 36 [73, 100, 58] cur [] (by intro b hb; simpa [isDollar] using h b hb)
    simp only [List.append_nil] at this
    rw [tagIdColon, this]
    simp [splitOnSub]
  simp [FR, findRange, this]

/-- `find_range` at the first `$` -/
theorem FR_step (pre s1 : Bytes) (hpre : ∀ x ∈ pre, isDollar x = false) :
    FR (pre ++ 36 :: s1) =
      if startsWith [73, 100, 58] s1 then
        match breakAt isDollarOrLf (s1.drop 3) with
        | none => none
        | some (mid, hit, post) =>
          if hit == 10 then (FR post).map (prependBefore (pre ++ tagIdColon ++ mid ++ [10]))
          else some (pre, post)
      else (FR s1).map (prependBefore (pre ++ [36])) := by
  have hsplit : splitOnSub tagIdColon (pre ++ 36 :: s1) =
      (splitOnSub tagIdColon (36 :: s1)).map (fun r => (pre ++ r.1, r.2)) := by
    rw [tagIdColon]
    exact splitOnSub_append 36 [73, 100, 58] pre (36 :: s1) (by intro b hb; simpa [isDollar] using hpre b hb)
  rw [FR, findRange, hsplit, splitOnSub_tag_dollar]
  by_cases hs : startsWith [73, 100, 58] s1 = true
  · have hsl := startsWith_length hs
    simp only [List.length_cons, List.length_nil] at hsl
    simp only [hs, if_true, Option.map_some, List.append_nil]
    rw [isDollarOrLf_eq]
    cases hb : breakAt isDollarOrLf (s1.drop 3) with
    | none => rfl
    | some r2 =>
      obtain ⟨mid, hit, post⟩ := r2
      have hl := breakAt_length hb
      simp only [List.length_drop] at hl
      simp only
      split
      · rw [findRange_eq_FR post _ _ (by simp; omega)]
        simp [prependBefore]
      · simp
  · simp only [hs, Bool.false_eq_true, if_false]
    cases hs1 : splitOnSub tagIdColon s1 with
    | none =>
      have : FR s1 = none := by simp [FR, findRange, hs1]
      rw [this]; rfl
    | some r =>
      obtain ⟨p1, afterTag⟩ := r
      have hs1e := splitOnSub_some hs1
      simp only [Option.map_some]
      rw [isDollarOrLf_eq]
      have hfr : FR s1 = match breakAt isDollarOrLf afterTag with
          | none => none
          | some (mid, hit, post) =>
            if hit == 10 then findRange s1.length post ([] ++ p1 ++ tagIdColon ++ mid ++ [10])
            else some ([] ++ p1, post) := by
        simp only [FR, findRange, hs1]
        rfl
      rw [hfr]
      cases hb : breakAt isDollarOrLf afterTag with
      | none => rfl
      | some r2 =>
        obtain ⟨mid, hit, post⟩ := r2
        have hl := breakAt_length hb
        have hlen : post.length < s1.length := by rw [hs1e]; simp [tagIdColon]; omega
        simp only
        split
        · rw [findRange_eq_FR post _ _ (by simp; omega), findRange_eq_FR post _ _ hlen]
          cases FR post with
          | none => rfl
          | some v => simp [prependBefore]
        · simp [prependBefore]



theorem FR_collapse : ∀ (n : Nat) (cur : Bytes), cur.length ≤ n →
    (FR cur = none → collapseAll cur = cur) ∧
    (∀ b a, FR cur = some (b, a) → collapseAll cur = b ++ tagIdDollar ++ collapseAll a ∧ a.length < cur.length) := by
  intro n
  induction n with
  | zero =>
    intro cur h
    have : cur = [] := List.eq_nil_of_length_eq_zero (by omega)
    subst this
    exact ⟨fun _ => rfl, fun b a h => by simp [FR, findRange, splitOnSub] at h⟩
  | succ n ih =>
    intro cur h
    cases hb : breakAt isDollar cur with
    | none =>
      have hnd := breakAt_none hb
      exact ⟨fun _ => collapseAll_noDollar cur hnd, fun b a h => by rw [FR_noDollar cur hnd] at h; simp at h⟩
    | some r =>
      obtain ⟨pre, hit, s1⟩ := r
      obtain ⟨hcur, hhit, hpre⟩ := breakAt_some hb
      have h36 : hit = 36 := by simpa [isDollar] using hhit
      subst h36
      have hl := breakAt_length hb
      rw [hcur, FR_step pre s1 hpre, collapseAll_step pre s1 hpre]
      by_cases hs : startsWith [73, 100, 58] s1 = true
      · have hsl := startsWith_length hs
        simp only [List.length_cons, List.length_nil] at hsl
        simp only [hs, if_true]
        cases hb2 : breakAt isDollarOrLf (s1.drop 3) with
        | none => exact ⟨fun _ => rfl, fun b a h => by simp at h⟩
        | some r2 =>
          obtain ⟨mid, hit2, post⟩ := r2
          obtain ⟨hdrop, hhit2, hmid⟩ := breakAt_some hb2
          have hl2 := breakAt_length hb2
          simp only [List.length_drop] at hl2
          have hs1 : s1 = [73, 100, 58] ++ mid ++ hit2 :: post := by
            have := (List.take_append_drop 3 s1).symm
            simp only [startsWith, beq_iff_eq, List.length_cons, List.length_nil] at hs
            rw [hs, hdrop] at this
            simpa using this
          simp only
          by_cases h10 : hit2 = 10
          · subst h10
            simp only [beq_self_eq_true, if_true, show ((10 : UInt8) == 36) = false by decide,
              Bool.false_eq_true, if_false]
            obtain ⟨ih1, ih2⟩ := ih post (by omega)
            constructor
            · intro hnone
              have : FR post = none := by
                cases hfp : FR post with
                | none => rfl
                | some v => simp [hfp] at hnone
              rw [ih1 this, hs1]; simp [tagIdColon]
            · intro b a hsome
              cases hfp : FR post with
              | none => simp [hfp] at hsome
              | some v =>
                obtain ⟨b', a'⟩ := v
                simp only [hfp, Option.map_some, prependBefore, Option.some.injEq, Prod.mk.injEq] at hsome
                obtain ⟨rfl, rfl⟩ := hsome
                obtain ⟨hc, hlen⟩ := ih2 b' a' hfp
                rw [hc]
                exact ⟨by simp, by simp; omega⟩
          · have h2 : hit2 = 36 := by
              simp only [isDollarOrLf, Bool.or_eq_true, beq_iff_eq] at hhit2
              rcases hhit2 with h | h
              · exact h
              · exact absurd h h10
            subst h2
            simp only [show ((36 : UInt8) == 10) = false by decide, Bool.false_eq_true, if_false,
              beq_self_eq_true, if_true]
            exact ⟨fun h => by simp at h, fun b a h => by
              simp only [Option.some.injEq, Prod.mk.injEq] at h
              obtain ⟨rfl, rfl⟩ := h
              exact ⟨rfl, by simp; omega⟩⟩
      · simp only [hs, Bool.false_eq_true, if_false]
        obtain ⟨ih1, ih2⟩ := ih s1 (by omega)
        constructor
        · intro hnone
          have : FR s1 = none := by
            cases hfp : FR s1 with
            | none => rfl
            | some v => simp [hfp] at hnone
          rw [ih1 this]; simp
        · intro b a hsome
          cases hfp : FR s1 with
          | none => simp [hfp] at hsome
          | some v =>
            obtain ⟨b', a'⟩ := v
            simp only [hfp, Option.map_some, prependBefore, Option.some.injEq, Prod.mk.injEq] at hsome
            obtain ⟨rfl, rfl⟩ := hsome
            obtain ⟨hc, hlen⟩ := ih2 b' a' hfp
            rw [hc]
            exact ⟨by simp, by simp; omega⟩

theorem identUndoLoop_eq : ∀ (n : Nat) (cur buf : Bytes) (fuel : Nat) (init : Bool), cur.length ≤ n → cur.length < fuel →
    identUndoLoop fuel cur buf init =
      if init || (FR cur).isSome then some (buf ++ collapseAll cur) else none := by
  intro n
  induction n with
  | zero =>
    intro cur buf fuel init h hf
    have : cur = [] := List.eq_nil_of_length_eq_zero (by omega)
    subst this
    cases fuel with
    | zero => omega
    | succ fuel => cases init <;> simp [identUndoLoop, findRange, splitOnSub, FR, collapseAll, collapse, breakAt]
  | succ n ih =>
    intro cur buf fuel init h hf
    cases fuel with
    | zero => omega
    | succ fuel =>
      obtain ⟨h1, h2⟩ := FR_collapse cur.length cur (Nat.le_refl _)
      simp only [identUndoLoop]
      have : findRange (cur.length + 1) cur [] = FR cur := rfl
      rw [this]
      cases hfr : FR cur with
      | none =>
        simp only [Option.isSome_none, Bool.or_false]
        rw [h1 hfr]
      | some v =>
        obtain ⟨b, a⟩ := v
        obtain ⟨hc, hlen⟩ := h2 b a hfr
        simp only [Option.isSome_some, Bool.or_true, if_true]
        rw [ih a _ fuel true (by omega) (by omega), hc]
        simp

/-- `ident::undo` is `collapse` -/
theorem identUndo_eq_collapse (src : Bytes) : (identUndo src).getD src = collapseAll src := by
  rw [identUndo, identUndoLoop_eq src.length src [] _ false (Nat.le_refl _) (Nat.lt_succ_self _)]
  cases hfr : FR src with
  | none =>
    simp only [Bool.false_or, Option.isSome_none, Bool.false_eq_true, if_false, Option.getD_none]
    exact ((FR_collapse src.length src (Nat.le_refl _)).1 hfr).symm
  | some v => simp

/-- `ident::undo` agrees with git's `ident_to_git` on every byte string -/
theorem identUndo_eq_identToGit (src : Bytes) : (identUndo src).getD src = Spec.C43.identToGit src true := by
  rw [identUndo_eq_collapse, identToGit_eq_collapse]


open GixModel.Spec.C43 (identStream identFilterStep IdentFilter IdentMode identHead)

theorem identApply_noDollar (hash : Bytes → Bytes) (src : Bytes) (h : ∀ x ∈ src, isDollar x = false) :
    identApply hash src = none := by
  have : splitOnSub tagIdDollar src = none := by
    have := splitOnSub_append 36 [73, 100, 36] src [] (by intro b hb; simpa [isDollar] using h b hb)
    simp only [List.append_nil] at this
    rw [tagIdDollar, this]
    simp [splitOnSub]
  simp [identApply, identApplyLoop, this]

theorem countIdentLoop_noDollar : ∀ (src : Bytes) (fuel cnt : Nat), (∀ x ∈ src, isDollar x = false) →
    countIdentLoop fuel src cnt = cnt := by
  intro src
  induction src with
  | nil => intro fuel cnt _; cases fuel <;> rfl
  | cons ch cp ih =>
    intro fuel cnt h
    cases fuel with
    | zero => rfl
    | succ fuel =>
      have hch : (ch != 36) = true := by
        have := h ch (by simp)
        simpa [isDollar] using this
      simp only [countIdentLoop, hch, if_true]
      exact ih fuel cnt (fun x hx => h x (by simp [hx]))

theorem identStream_fold_noDollar (identStr : Bytes) : ∀ (l : Bytes) (out : Bytes), (∀ x ∈ l, isDollar x = false) →
    l.foldl (identFilterStep identStr) { out := out, left := [], mode := .head 0 } =
      { out := out ++ l, left := [], mode := .head 0 } := by
  intro l
  induction l with
  | nil => intro out _; simp
  | cons ch rest ih =>
    intro out h
    have hch : ((36 : UInt8) == ch) = false := by
      have := h ch (by simp)
      simp only [isDollar, beq_eq_false_iff_ne, ne_eq] at this ⊢
      exact fun e => this e.symm
    have hstep : identFilterStep identStr { out := out, left := [], mode := .head 0 } ch =
        { out := out ++ [ch], left := [], mode := .head 0 } := by
      simp [identFilterStep, identHead, hch, IdentFilter.drain]
    rw [List.foldl_cons, hstep, ih _ (fun x hx => h x (by simp [hx]))]
    simp

theorem identStream_noDollar (hex src : Bytes) (h : ∀ x ∈ src, isDollar x = false) : identStream hex src = src := by
  unfold identStream
  have := identStream_fold_noDollar ([58, 32] ++ hex ++ Spec.C43.gitIdTail) src [] h
  have e : ({} : IdentFilter) = { out := [], left := [], mode := .head 0 } := rfl
  rw [e, this]
  simp [identHead]



/-- what `ident::apply` inserts between `$Id` and the closing `$`… as a whole: `$Id: <hex>$` -/
def expandedId (hex : Bytes) : Bytes := [36, 73, 100] ++ [58, 32] ++ hex ++ [36]

/-- reference semantics of "expand every `$Id$`", deciding at the first `$` -/
def expand (hex : Bytes) : Nat → Bytes → Bytes
  | 0, src => src
  | fuel + 1, src =>
    match breakAt isDollar src with
    | none => src
    | some (pre, _, s1) =>
      if startsWith [73, 100, 36] s1 then pre ++ expandedId hex ++ expand hex fuel (s1.drop 3)
      else pre ++ [36] ++ expand hex fuel s1

theorem expand_succ (hex : Bytes) (fuel : Nat) (src : Bytes) :
    expand hex (fuel + 1) src =
      match breakAt isDollar src with
      | none => src
      | some (pre, _, s1) =>
        if startsWith [73, 100, 36] s1 then pre ++ expandedId hex ++ expand hex fuel (s1.drop 3)
        else pre ++ [36] ++ expand hex fuel s1 := rfl

theorem expand_fuel (hex : Bytes) : ∀ (n : Nat) (src : Bytes) (f1 f2 : Nat), src.length ≤ n → src.length < f1 →
    src.length < f2 → expand hex f1 src = expand hex f2 src := by
  intro n
  induction n with
  | zero =>
    intro src f1 f2 h h1 h2
    have : src = [] := List.eq_nil_of_length_eq_zero (by omega)
    subst this
    cases f1 <;> cases f2 <;> simp [expand, breakAt]
  | succ n ih =>
    intro src f1 f2 h h1 h2
    cases f1 with
    | zero => omega
    | succ f1 =>
      cases f2 with
      | zero => omega
      | succ f2 =>
        rw [expand_succ, expand_succ]
        cases hb : breakAt isDollar src with
        | none => rfl
        | some r =>
          obtain ⟨pre, hit, s1⟩ := r
          have hl := breakAt_length hb
          simp only
          split
          · rw [ih (s1.drop 3) f1 f2 (by simp; omega) (by simp; omega) (by simp; omega)]
          · rw [ih s1 f1 f2 (by omega) (by omega) (by omega)]

def expandAll (hex : Bytes) (src : Bytes) : Bytes := expand hex (src.length + 1) src

theorem expand_eq_all (hex : Bytes) (f : Nat) (src : Bytes) (h : src.length < f) : expand hex f src = expandAll hex src :=
  expand_fuel hex src.length src f (src.length + 1) (Nat.le_refl _) h (Nat.lt_succ_self _)

theorem expandAll_noDollar (hex src : Bytes) (h : ∀ x ∈ src, isDollar x = false) : expandAll hex src = src := by
  simp [expandAll, expand, breakAt_none_of src h]

theorem expandAll_step (hex pre s1 : Bytes) (hpre : ∀ x ∈ pre, isDollar x = false) :
    expandAll hex (pre ++ 36 :: s1) =
      if startsWith [73, 100, 36] s1 then pre ++ expandedId hex ++ expandAll hex (s1.drop 3)
      else pre ++ [36] ++ expandAll hex s1 := by
  have hb : breakAt isDollar (pre ++ 36 :: s1) = some (pre, 36, s1) := by
    rw [breakAt_append pre _ hpre]
    simp [breakAt, isDollar]
  have hlen : (pre ++ 36 :: s1).length = pre.length + s1.length + 1 := by simp; omega
  rw [expandAll, expand_succ, hb]
  simp only
  split
  · rw [expand_eq_all hex _ (s1.drop 3) (by rw [hlen]; simp; omega)]
  · rw [expand_eq_all hex _ s1 (by rw [hlen]; omega)]

theorem expandAll_prefix (hex x y : Bytes) (hx : ∀ b ∈ x, isDollar b = false) :
    expandAll hex (x ++ y) = x ++ expandAll hex y := by
  cases hb : breakAt isDollar y with
  | none =>
    have hy := breakAt_none hb
    rw [expandAll_noDollar hex y hy, expandAll_noDollar]
    intro b hbm
    rcases List.mem_append.mp hbm with h | h
    · exact hx b h
    · exact hy b h
  | some r =>
    obtain ⟨pre, hit, s1⟩ := r
    obtain ⟨hy, hhit, hpre⟩ := breakAt_some hb
    have h36 : hit = 36 := by simpa [isDollar] using hhit
    subst h36
    rw [hy, ← List.append_assoc, expandAll_step hex (x ++ pre) s1, expandAll_step hex pre s1 hpre]
    · split <;> simp
    · intro b hbm
      rcases List.mem_append.mp hbm with h | h
      · exact hx b h
      · exact hpre b h

theorem splitOnSub_dollar_dollar (s : Bytes) :
    splitOnSub tagIdDollar (36 :: s) =
      if startsWith [73, 100, 36] s then some ([], s.drop 3)
      else (splitOnSub tagIdDollar s).map (fun r => (36 :: r.1, r.2)) := by
  simp only [tagIdDollar, splitOnSub, startsWith_cons, beq_self_eq_true, Bool.true_and]
  split
  · simp
  · cases splitOnSub [36, 73, 100, 36] s <;> simp

/-- `find(b"$Id$")` and `expand` at the first `$` -/
theorem split_expand : ∀ (n : Nat) (cur : Bytes) (hex : Bytes), cur.length ≤ n →
    (splitOnSub tagIdDollar cur = none → expandAll hex cur = cur) ∧
    (∀ p q, splitOnSub tagIdDollar cur = some (p, q) →
      expandAll hex cur = p ++ expandedId hex ++ expandAll hex q ∧ q.length < cur.length) := by
  intro n
  induction n with
  | zero =>
    intro cur hex h
    have : cur = [] := List.eq_nil_of_length_eq_zero (by omega)
    subst this
    exact ⟨fun _ => rfl, fun p q h => by simp [splitOnSub] at h⟩
  | succ n ih =>
    intro cur hex h
    cases hb : breakAt isDollar cur with
    | none =>
      have hnd := breakAt_none hb
      have hnone : splitOnSub tagIdDollar cur = none := by
        have := splitOnSub_append 36 [73, 100, 36] cur [] (by intro b hb; simpa [isDollar] using hnd b hb)
        simp only [List.append_nil] at this
        rw [tagIdDollar, this]; simp [splitOnSub]
      exact ⟨fun _ => expandAll_noDollar hex cur hnd, fun p q h => by rw [hnone] at h; simp at h⟩
    | some r =>
      obtain ⟨pre, hit, s1⟩ := r
      obtain ⟨hcur, hhit, hpre⟩ := breakAt_some hb
      have h36 : hit = 36 := by simpa [isDollar] using hhit
      subst h36
      have hl := breakAt_length hb
      have hsplit : splitOnSub tagIdDollar (pre ++ 36 :: s1) =
          (splitOnSub tagIdDollar (36 :: s1)).map (fun r => (pre ++ r.1, r.2)) := by
        rw [tagIdDollar]
        exact splitOnSub_append 36 [73, 100, 36] pre (36 :: s1) (by intro b hb; simpa [isDollar] using hpre b hb)
      rw [hcur, hsplit, splitOnSub_dollar_dollar, expandAll_step hex pre s1 hpre]
      by_cases hs : startsWith [73, 100, 36] s1 = true
      · simp only [hs, if_true, Option.map_some, List.append_nil]
        exact ⟨fun h => by simp at h, fun p q h => by
          simp only [Option.some.injEq, Prod.mk.injEq] at h
          obtain ⟨rfl, rfl⟩ := h
          exact ⟨rfl, by simp; omega⟩⟩
      · simp only [hs, Bool.false_eq_true, if_false]
        obtain ⟨ih1, ih2⟩ := ih s1 hex (by omega)
        constructor
        · intro hnone
          have : splitOnSub tagIdDollar s1 = none := by
            cases hfp : splitOnSub tagIdDollar s1 with
            | none => rfl
            | some v => simp [hfp] at hnone
          rw [ih1 this]; simp
        · intro p q hsome
          cases hfp : splitOnSub tagIdDollar s1 with
          | none => simp [hfp] at hsome
          | some v =>
            obtain ⟨p', q'⟩ := v
            simp only [hfp, Option.map_some, Option.some.injEq, Prod.mk.injEq] at hsome
            obtain ⟨rfl, rfl⟩ := hsome
            obtain ⟨hc, hlen⟩ := ih2 p' q' hfp
            rw [hc]
            exact ⟨by simp, by simp; omega⟩

theorem identApplyLoop_eq (hex : Bytes) : ∀ (n : Nat) (cur buf : Bytes) (fuel : Nat) (found : Bool),
    cur.length ≤ n → cur.length < fuel →
    identApplyLoop hex fuel cur buf found =
      if found || (splitOnSub tagIdDollar cur).isSome then some (buf ++ expandAll hex cur) else none := by
  intro n
  induction n with
  | zero =>
    intro cur buf fuel found h hf
    have : cur = [] := List.eq_nil_of_length_eq_zero (by omega)
    subst this
    cases fuel with
    | zero => omega
    | succ fuel => cases found <;> simp [identApplyLoop, splitOnSub, expandAll, expand, breakAt]
  | succ n ih =>
    intro cur buf fuel found h hf
    cases fuel with
    | zero => omega
    | succ fuel =>
      obtain ⟨h1, h2⟩ := split_expand cur.length cur hex (Nat.le_refl _)
      simp only [identApplyLoop]
      cases hfr : splitOnSub tagIdDollar cur with
      | none =>
        simp only [Option.isSome_none, Bool.or_false]
        rw [h1 hfr]
      | some v =>
        obtain ⟨p, q⟩ := v
        obtain ⟨hc, hlen⟩ := h2 p q hfr
        simp only [Option.isSome_some, Bool.or_true, if_true]
        rw [ih q _ fuel true (by omega) (by omega), hc]
        simp [expandedId]

/-- `ident::apply` is `expand` -/
theorem identApply_eq_expand (hash : Bytes → Bytes) (src : Bytes) :
    (identApply hash src).getD src = expandAll (hash src) src := by
  rw [identApply, identApplyLoop_eq (hash src) src.length src [] _ false (Nat.le_refl _) (Nat.lt_succ_self _)]
  cases hfr : splitOnSub tagIdDollar src with
  | none =>
    simp only [Bool.false_or, Option.isSome_none, Bool.false_eq_true, if_false, Option.getD_none]
    exact ((split_expand src.length src (hash src) (Nat.le_refl _)).1 hfr).symm
  | some v => simp



theorem FR_prefix (x y : Bytes) (hx : ∀ b ∈ x, isDollar b = false) :
    FR (x ++ y) = (FR y).map (prependBefore x) := by
  cases hb : breakAt isDollar y with
  | none =>
    have hy := breakAt_none hb
    rw [FR_noDollar y hy, FR_noDollar]
    · rfl
    · intro b hbm
      rcases List.mem_append.mp hbm with h | h
      · exact hx b h
      · exact hy b h
  | some r =>
    obtain ⟨pre, hit, s1⟩ := r
    obtain ⟨hy, hhit, hpre⟩ := breakAt_some hb
    have h36 : hit = 36 := by simpa [isDollar] using hhit
    subst h36
    have hxp : ∀ b ∈ x ++ pre, isDollar b = false := by
      intro b hbm
      rcases List.mem_append.mp hbm with h | h
      · exact hx b h
      · exact hpre b h
    rw [hy, ← List.append_assoc, FR_step (x ++ pre) s1 hxp, FR_step pre s1 hpre]
    split
    · cases breakAt isDollarOrLf (s1.drop 3) with
      | none => rfl
      | some r2 =>
        obtain ⟨mid, hit2, post⟩ := r2
        simp only
        split
        · cases FR post <;> simp [prependBefore]
        · simp [prependBefore]
    · cases FR s1 <;> simp [prependBefore]

/-- `hex` is what `write_hex_to` produces: no `$`, no line break -/
def HexLike (hex : Bytes) : Prop := ∀ b ∈ hex, isDollarOrLf b = false

theorem startsWith_expand (hex s1 : Bytes) :
    startsWith [73, 100, 58] (expandAll hex s1) = startsWith [73, 100, 58] s1 := by
  cases hb : breakAt isDollar s1 with
  | none => rw [expandAll_noDollar hex s1 (breakAt_none hb)]
  | some r =>
    obtain ⟨pre, hit, s2⟩ := r
    obtain ⟨hs1, hhit, hpre⟩ := breakAt_some hb
    have h36 : hit = 36 := by simpa [isDollar] using hhit
    subst h36
    rw [hs1, expandAll_step hex pre s2 hpre]
    -- both strings are `pre ++ 36 :: …`
    have key : ∀ (t u : Bytes), startsWith [73, 100, 58] (pre ++ 36 :: t) = startsWith [73, 100, 58] (pre ++ 36 :: u) := by
      intro t u
      match pre with
      | [] => simp [startsWith]
      | [a] => simp [startsWith]
      | [a, b] => simp [startsWith]
      | a :: b :: c :: rest => simp [startsWith]
    split
    · have : pre ++ expandedId hex ++ expandAll hex (s2.drop 3) =
          pre ++ 36 :: ([73, 100, 58, 32] ++ hex ++ [36] ++ expandAll hex (s2.drop 3)) := by simp [expandedId]
      rw [this]; exact key _ _
    · have : pre ++ [36] ++ expandAll hex s2 = pre ++ 36 :: expandAll hex s2 := by simp
      rw [this]; exact key _ _

theorem roundtrip_aux (hex : Bytes) (hhex : HexLike hex) : ∀ (n : Nat) (x : Bytes), x.length ≤ n → FR x = none →
    collapseAll (expandAll hex x) = x := by
  intro n
  induction n with
  | zero =>
    intro x h _
    have : x = [] := List.eq_nil_of_length_eq_zero (by omega)
    subst this; rfl
  | succ n ih =>
    intro x h hfr
    cases hb : breakAt isDollar x with
    | none =>
      have hnd := breakAt_none hb
      rw [expandAll_noDollar hex x hnd, collapseAll_noDollar x hnd]
    | some r =>
      obtain ⟨pre, hit, s1⟩ := r
      obtain ⟨hx, hhit, hpre⟩ := breakAt_some hb
      have h36 : hit = 36 := by simpa [isDollar] using hhit
      subst h36
      have hl := breakAt_length hb
      rw [hx, FR_step pre s1 hpre] at hfr
      rw [hx, expandAll_step hex pre s1 hpre]
      by_cases hsd : startsWith [73, 100, 36] s1 = true
      · -- `$Id$`: expanded, then collapsed again
        have hsl := startsWith_length hsd
        simp only [List.length_cons, List.length_nil] at hsl
        have hs1 : s1 = [73, 100] ++ 36 :: s1.drop 3 := by
          have := (List.take_append_drop 3 s1).symm
          simp only [startsWith, beq_iff_eq, List.length_cons, List.length_nil] at hsd
          rw [hsd] at this
          simpa using this
        have hnc : startsWith [73, 100, 58] s1 = false := by
          rw [hs1]; simp [startsWith]
        simp only [hnc, Bool.false_eq_true, if_false] at hfr
        have hfrs1 : FR s1 = none := by
          cases hh : FR s1 with
          | none => rfl
          | some v => simp [hh] at hfr
        -- FR of the rest
        have hfrrest : FR (s1.drop 3) = none := by
          rw [hs1, FR_step [73, 100] (s1.drop 3) (by intro b hb; simp at hb; rcases hb with rfl | rfl <;> rfl)] at hfrs1
          by_cases hc : startsWith [73, 100, 58] (s1.drop 3) = true
          · simp only [hc, if_true] at hfrs1
            have hrest : s1.drop 3 = [73, 100, 58] ++ (s1.drop 3).drop 3 := by
              have := (List.take_append_drop 3 (s1.drop 3)).symm
              simp only [startsWith, beq_iff_eq, List.length_cons, List.length_nil] at hc
              rw [hc] at this
              exact this
            cases hb2 : breakAt isDollarOrLf ((s1.drop 3).drop 3) with
            | none =>
              have hnd := noDollar_of_noDollarOrLf (breakAt_none hb2)
              apply FR_noDollar
              rw [hrest]
              intro b hbm
              rcases List.mem_append.mp hbm with h1 | h1
              · simp at h1; rcases h1 with rfl | rfl | rfl <;> rfl
              · exact hnd b h1
            | some r2 =>
              obtain ⟨mid, hit2, post⟩ := r2
              obtain ⟨hdrop, hhit2, hmid⟩ := breakAt_some hb2
              simp only [hb2] at hfrs1
              by_cases h10 : hit2 = 10
              · subst h10
                simp only [beq_self_eq_true, if_true] at hfrs1
                have hpost : FR post = none := by
                  cases hh : FR post with
                  | none => rfl
                  | some v => simp [hh] at hfrs1
                have : s1.drop 3 = ([73, 100, 58] ++ mid ++ [10]) ++ post := by
                  rw [hrest, hdrop]; simp
                rw [this, FR_prefix _ _ (by
                  intro b hbm
                  simp only [List.mem_append, List.mem_cons, List.mem_singleton] at hbm
                  rcases hbm with (h1 | h1) | h1
                  · rcases h1 with rfl | rfl | rfl | h1 <;> first | rfl | simp at h1
                  · exact noDollar_of_noDollarOrLf hmid b h1
                  · rcases h1 with rfl | h1 <;> first | rfl | simp at h1), hpost]
                rfl
              · have : (hit2 == 10) = false := by simpa using h10
                simp [this] at hfrs1
          · simp only [hc, Bool.false_eq_true, if_false] at hfrs1
            cases hh : FR (s1.drop 3) with
            | none => rfl
            | some v => simp [hh] at hfrs1
        simp only [hsd, if_true]
        have hform : pre ++ expandedId hex ++ expandAll hex (s1.drop 3) =
            pre ++ 36 :: ([73, 100, 58] ++ (32 :: hex ++ 36 :: expandAll hex (s1.drop 3))) := by
          simp [expandedId]
        rw [hform, collapseAll_step pre _ hpre]
        have hsw : startsWith [73, 100, 58] ([73, 100, 58] ++ (32 :: hex ++ 36 :: expandAll hex (s1.drop 3))) = true := by
          simp [startsWith]
        simp only [hsw, if_true]
        have hdrop3 : ([73, 100, 58] ++ (32 :: hex ++ 36 :: expandAll hex (s1.drop 3))).drop 3 =
            (32 :: hex) ++ 36 :: expandAll hex (s1.drop 3) := by simp
        rw [hdrop3, breakAt_append (32 :: hex) _ (by
          intro b hbm
          simp only [List.mem_cons] at hbm
          rcases hbm with rfl | hbm
          · rfl
          · exact hhex b hbm)]
        simp only [breakAt, isDollarOrLf, beq_self_eq_true, Bool.true_or, if_true, Option.map_some]
        rw [ih (s1.drop 3) (by simp; omega) hfrrest]
        conv => rhs; rw [hs1]
        simp [tagIdDollar]
      · simp only [hsd, Bool.false_eq_true, if_false]
        have hform : pre ++ [36] ++ expandAll hex s1 = pre ++ 36 :: expandAll hex s1 := by simp
        rw [hform, collapseAll_step pre _ hpre, startsWith_expand]
        by_cases hc : startsWith [73, 100, 58] s1 = true
        · simp only [hc, if_true] at hfr ⊢
          have hs1 : s1 = [73, 100, 58] ++ s1.drop 3 := by
            have := (List.take_append_drop 3 s1).symm
            simp only [startsWith, beq_iff_eq, List.length_cons, List.length_nil] at hc
            rw [hc] at this
            exact this
          have hsl := startsWith_length hc
          simp only [List.length_cons, List.length_nil] at hsl
          have hexp : expandAll hex s1 = [73, 100, 58] ++ expandAll hex (s1.drop 3) := by
            conv => lhs; rw [hs1]
            exact expandAll_prefix hex _ _ (by intro b hb; simp at hb; rcases hb with rfl | rfl | rfl <;> rfl)
          have hd3 : (expandAll hex s1).drop 3 = expandAll hex (s1.drop 3) := by rw [hexp]; simp
          rw [hd3]
          cases hb2 : breakAt isDollarOrLf (s1.drop 3) with
          | none =>
            have hnd := noDollar_of_noDollarOrLf (breakAt_none hb2)
            rw [expandAll_noDollar hex _ hnd, hb2]
            have : expandAll hex s1 = s1 := by
              rw [hexp, expandAll_noDollar hex _ hnd]; exact hs1.symm
            rw [this]
          | some r2 =>
            obtain ⟨mid, hit2, post⟩ := r2
            obtain ⟨hdrop, hhit2, hmid⟩ := breakAt_some hb2
            have hl2 := breakAt_length hb2
            simp only [List.length_drop] at hl2
            simp only [hb2] at hfr
            by_cases h10 : hit2 = 10
            · subst h10
              simp only [beq_self_eq_true, if_true] at hfr
              have hpost : FR post = none := by
                cases hh : FR post with
                | none => rfl
                | some v => simp [hh] at hfr
              have hexp3 : expandAll hex (s1.drop 3) = mid ++ 10 :: expandAll hex post := by
                rw [hdrop]
                have : mid ++ 10 :: post = (mid ++ [10]) ++ post := by simp
                rw [this, expandAll_prefix hex _ _ (by
                  intro b hbm
                  rcases List.mem_append.mp hbm with h1 | h1
                  · exact noDollar_of_noDollarOrLf hmid b h1
                  · simp at h1; subst h1; rfl)]
                simp
              rw [hexp3, breakAt_append mid _ hmid]
              simp only [breakAt, isDollarOrLf, show ((10 : UInt8) == 36) = false by decide, beq_self_eq_true,
                Bool.or_true, if_true, Option.map_some, Bool.false_eq_true, if_false]
              rw [ih post (by omega) hpost]
              conv => rhs; rw [hs1, hdrop]
              simp [tagIdColon]
            · have : (hit2 == 10) = false := by simpa using h10
              simp [this] at hfr
        · simp only [hc, Bool.false_eq_true, if_false] at hfr ⊢
          have hfrs1 : FR s1 = none := by
            cases hh : FR s1 with
            | none => rfl
            | some v => simp [hh] at hfr
          rw [ih s1 (by omega) hfrs1]
          simp


theorem identUndo_none_iff (x : Bytes) : identUndo x = none ↔ FR x = none := by
  rw [identUndo, identUndoLoop_eq x.length x [] _ false (Nat.le_refl _) (Nat.lt_succ_self _)]
  cases FR x <;> simp

/-- content that `ident::undo` leaves alone survives `ident::apply` followed by `ident::undo` -/
theorem ident_roundtrip_lemma (hash : Bytes → Bytes) (x : Bytes) (hhex : HexLike (hash x))
    (hx : identUndo x = none) :
    (identUndo ((identApply hash x).getD x)).getD ((identApply hash x).getD x) = x := by
  rw [identUndo_eq_collapse, identApply_eq_expand]
  exact roundtrip_aux (hash x) hhex x.length x (Nat.le_refl _) ((identUndo_none_iff x).mp hx)

end GixModel.C43
