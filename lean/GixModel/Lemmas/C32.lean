import GixModel.Model.C32
import GixModel.Spec.C32
/-
Helper lemmas for C32: both glob matchers (gitoxide's `Needle::matches` glob arm and git's
`match_name_with_pattern`) are characterised by the same four conditions; totality of the
matching phases for balanced specs; what `parse` guarantees.
-/
namespace GixModel.C32
open GixModel

theorem findStar_eq_indexOf (v : Bytes) : findStar v = Spec.C32.indexOf 42 v := by
  induction v with
  | nil => rfl
  | cons b rest ih => simp only [findStar, Spec.C32.indexOf, ih]

theorem findStar_lt {v : Bytes} {p : Nat} (h : findStar v = some p) : p < v.length := by
  induction v generalizing p with
  | nil => simp [findStar] at h
  | cons b rest ih =>
    simp only [findStar] at h
    split at h
    · simp at h; subst h; simp
    · cases hr : findStar rest with
      | none => simp [hr] at h
      | some q => simp [hr] at h; subst h; have := ih hr; simp; omega

/-- the glob arm of `Needle::matches`, characterised -/
theorem glob_matches (key : Bytes) (pos : Nat) (item : Item) :
    (Needle.glob key pos).matches item =
      if item.name.take pos = key.take pos ∧ pos ≤ item.name.length ∧
          item.name.length ≥ pos + (key.length - (pos + 1)) ∧
          item.name.drop (item.name.length - (key.length - (pos + 1))) = key.drop (pos + 1)
      then .range pos (item.name.length - (key.length - (pos + 1))) else .miss := by
  simp only [Needle.matches, endsWith, List.length_drop]
  by_cases h1 : item.name.length < pos
  · have : ¬ (pos ≤ item.name.length) := by omega
    simp [h1, this]
  · by_cases h2 : List.take pos item.name = List.take pos key
    · by_cases h4 : item.name.length < pos + (key.length - (pos + 1))
      · have h4' : ¬ (item.name.length ≥ pos + (key.length - (pos + 1))) := by omega
        simp [h1, h2, h4, h4']
      · have h4' : (item.name.length ≥ pos + (key.length - (pos + 1))) := by omega
        have h5 : key.length - (pos + 1) ≤ item.name.length := by omega
        have h6 : pos ≤ item.name.length := by omega
        by_cases h3 : List.drop (item.name.length - (key.length - (pos + 1))) item.name = List.drop (pos + 1) key
        · simp [h1, h2, h3, h4, h4', h5, h6]
        · simp [h1, h2, h3, h4', h5, h6]
    · simp [h1, h2]

theorem git_pattern (key name : Bytes) (value : Option Bytes) (pos : Nat) (hk : findStar key = some pos) :
    Spec.C32.matchNameWithPattern key name value =
      if name.take pos = key.take pos ∧ pos ≤ name.length ∧
          name.length ≥ pos + (key.length - (pos + 1)) ∧
          name.drop (name.length - (key.length - (pos + 1))) = key.drop (pos + 1)
      then (match value with
            | none => .matched none
            | some v => match findStar v with
              | none => .die
              | some vlen => .matched (some (v.take vlen ++ (name.drop pos).take (name.length - pos - (key.length - (pos + 1))) ++ v.drop (vlen + 1))))
      else .noMatch := by
  have hk' : Spec.C32.indexOf 42 key = some pos := by rw [← findStar_eq_indexOf]; exact hk
  simp only [Spec.C32.matchNameWithPattern, hk', ← findStar_eq_indexOf]
  by_cases h2 : List.take pos name = List.take pos key
  · by_cases h4 : name.length ≥ pos + (key.length - (pos + 1))
    · have h6 : pos ≤ name.length := by omega
      by_cases h3 : List.drop (name.length - (key.length - (pos + 1))) name = List.drop (pos + 1) key
      · simp [h2, h3, h4, h6]
        cases value with
        | none => rfl
        | some v => cases hv : findStar v <;> simp [hv]
      · simp [h2, h3, h4, h6]
    · simp [h2, h4]
  · simp [h2]


theorem needleOf_glob {v : Bytes} {p : Nat} (h : findStar v = some p) : needleOf v = .glob v p := by
  simp [needleOf, h]

def NoGlob : Needle → Prop
  | .glob _ _ => False
  | _ => True

theorem needleOf_noglob {v : Bytes} (h : findStar v = none) : NoGlob (needleOf v) := by
  simp only [needleOf, h]
  split
  · trivial
  · split <;> trivial

theorem noglob_matches {n : Needle} (h : NoGlob n) (item : Item) :
    n.matches item = .miss ∨ n.matches item = .normal := by
  cases n with
  | full name => simp only [Needle.matches]; split <;> simp
  | part name => simp only [Needle.matches]; split <;> simp
  | glob _ _ => exact absurd h (by simp [NoGlob])
  | object id =>
    simp only [Needle.matches]
    split
    · simp
    · split
      · split <;> simp
      · simp

theorem noglob_toBstr {n : Needle} (h : NoGlob n) : (n.toBstrReplace none).isSome := by
  cases n with
  | glob _ _ => exact absurd h (by simp [NoGlob])
  | _ => simp [Needle.toBstrReplace]

/-- what `parse` guarantees about the two sides of a spec: both have a `*` or neither has -/
def Balanced (s : RefSpec) : Prop :=
  ∀ k v, s.src = some k → s.dst = some v → (findStar k).isSome = (findStar v).isSome

def MatcherOk (m : Matcher) : Prop := ∀ item, (m.matchesLhs item).isSome

theorem glob_matchesLhs_isSome (key value : Bytes) (kp vp : Nat) (hk : findStar key = some kp)
    (hv : findStar value = some vp) (item : Item) :
    ((Matcher.mk (some (needleOf key)) (some (needleOf value))).matchesLhs item).isSome := by
  simp only [Matcher.matchesLhs, needleOf_glob hk, needleOf_glob hv, glob_matches]
  split
  · rename_i hc
    obtain ⟨h1, h2, h3, h4⟩ := hc
    have hle : kp ≤ item.name.length - (key.length - (kp + 1)) ∧
        item.name.length - (key.length - (kp + 1)) ≤ item.name.length := by omega
    simp [Match.intoOutcome, Needle.toBstrReplace, hle]
  · simp [Match.intoOutcome]

theorem matcherOf_ok (s : RefSpec) (h : Balanced s) : MatcherOk (matcherOf s) := by
  intro item
  obtain ⟨mode, src, dst⟩ := s
  cases src with
  | none => simp [matcherOf, Matcher.matchesLhs]
  | some k =>
    cases dst with
    | none => simp [matcherOf, Matcher.matchesLhs]
    | some v =>
      have hb := h k v rfl rfl
      cases hk : findStar k with
      | none =>
        have hv : findStar v = none := by
          cases hv : findStar v with
          | none => rfl
          | some _ => simp [hk, hv] at hb
        have hn := needleOf_noglob hk
        have hd := needleOf_noglob hv
        simp only [matcherOf, Option.map_some, Matcher.matchesLhs]
        cases noglob_matches hn item with
        | inl e => simp [e, Match.intoOutcome]
        | inr e =>
          simp only [e, Match.intoOutcome]
          have := noglob_toBstr hd
          cases hh : (needleOf v).toBstrReplace none with
          | none => simp [hh] at this
          | some b => simp
      | some kp =>
        cases hv : findStar v with
        | none => simp [hk, hv] at hb
        | some vp =>
          simpa [matcherOf] using glob_matchesLhs_isSome k v kp vp hk hv item

theorem mem_enumFrom {α : Type} {l : List α} {n i : Nat} {a : α} (h : (i, a) ∈ enumFrom n l) : a ∈ l := by
  induction l generalizing n with
  | nil => simp [enumFrom] at h
  | cons x xs ih =>
    simp only [enumFrom, List.mem_cons, Prod.mk.injEq] at h
    cases h with
    | inl e => simp [e.2]
    | inr e => exact List.mem_cons_of_mem _ (ih e)

def MatchersOk (ms : List (Option Matcher)) : Prop := ∀ mm, some mm ∈ ms → MatcherOk mm

theorem phase1_total : ∀ (l : List (Nat × RefSpec)) (out : List Mapping),
    (∀ x ∈ l, Balanced x.2) → ∃ o ms, phase1 l out = some (o, ms) ∧ MatchersOk ms := by
  intro l
  induction l with
  | nil => intro out _; exact ⟨out, [], rfl, by intro mm h; simp at h⟩
  | cons x xs ih =>
    intro out hb
    obtain ⟨idx, s⟩ := x
    have hs : Balanced s := hb (idx, s) (by simp)
    have hxs : ∀ x ∈ xs, Balanced x.2 := fun x hx => hb x (List.mem_cons_of_mem _ hx)
    simp only [phase1]
    split
    · -- object id source
      rename_i id hobj
      -- the destination cannot be a glob
      have hrhs : ∃ rhs, optToBstr (matcherOf s).rhs = some rhs := by
        obtain ⟨mode, src, dst⟩ := s
        cases dst with
        | none => exact ⟨none, by simp [matcherOf, optToBstr]⟩
        | some v =>
          cases src with
          | none => simp [matcherOf] at hobj
          | some k =>
            have hk : findStar k = none := by
              cases hk : findStar k with
              | none => rfl
              | some p => simp [matcherOf, needleOf_glob hk] at hobj
            have hb2 := hs k v rfl rfl
            have hv : findStar v = none := by
              cases hv : findStar v with
              | none => rfl
              | some _ => simp [hk, hv] at hb2
            have := noglob_toBstr (needleOf_noglob hv)
            cases hh : (needleOf v).toBstrReplace none with
            | none => simp [hh] at this
            | some b => exact ⟨some b, by simp [matcherOf, optToBstr, Needle.toBstr, hh]⟩
      obtain ⟨rhs, hr⟩ := hrhs
      obtain ⟨o, ms, h1, h2⟩ := ih (pushUnique out ⟨none, .oid id, rhs, idx⟩) hxs
      refine ⟨o, none :: ms, ?_, ?_⟩
      · rw [hr]; simp only []; rw [h1]
      · intro mm hm
        simp at hm
        exact h2 mm hm
    · obtain ⟨o, ms, h1, h2⟩ := ih out hxs
      refine ⟨o, some (matcherOf s) :: ms, ?_, ?_⟩
      · rw [h1]
      · intro mm hm
        simp at hm
        cases hm with
        | inl e => subst e; exact matcherOf_ok s hs
        | inr e => exact h2 mm e

theorem phase2Items_total (m : Matcher) (hm : MatcherOk m) (si : Nat) :
    ∀ (items : List (Nat × Item)) (out : List Mapping), (phase2Items m si items out).isSome := by
  intro items
  induction items with
  | nil => intro out; simp [phase2Items]
  | cons x xs ih =>
    intro out
    obtain ⟨ii, it⟩ := x
    simp only [phase2Items]
    have := hm it
    cases h : m.matchesLhs it with
    | none => simp [h] at this
    | some r => obtain ⟨a, b⟩ := r; simp only; exact ih _

theorem phase2_total : ∀ (l : List (Nat × RefSpec × Option Matcher)) (items : List (Nat × Item))
    (out : List Mapping), (∀ x ∈ l, ∀ mm, x.2.2 = some mm → MatcherOk mm) →
    (phase2 l items out).isSome := by
  intro l
  induction l with
  | nil => intro items out _; simp [phase2]
  | cons x xs ih =>
    intro items out h
    obtain ⟨si, s, m?⟩ := x
    have hxs : ∀ x ∈ xs, ∀ mm, x.2.2 = some mm → MatcherOk mm := fun x hx => h x (List.mem_cons_of_mem _ hx)
    simp only [phase2]
    split
    · exact ih items out hxs
    · cases m? with
      | none => exact ih items out hxs
      | some m =>
        have hm : MatcherOk m := h (si, s, some m) (by simp) m rfl
        have := phase2Items_total m hm si items out
        cases h2 : phase2Items m si items out with
        | none => simp [h2] at this
        | some out' => simp only [h2]; exact ih items out' hxs

theorem retainNot_total (m : Matcher) (hm : MatcherOk m) : ∀ (l : List Mapping), (retainNot m l).isSome := by
  intro l
  induction l with
  | nil => simp [retainNot]
  | cons x xs ih =>
    simp only [retainNot]
    cases hx : retainNot m xs with
    | none => simp [hx] at ih
    | some r =>
      split
      · simp
      · rename_i n _
        have := hm ⟨n, nullId, none⟩
        cases h : m.matchesLhs ⟨n, nullId, none⟩ with
        | none => simp [h] at this
        | some q => simp

theorem phase3_total : ∀ (l : List (RefSpec × Option Matcher)) (out : List Mapping),
    (∀ x ∈ l, ∀ mm, x.2 = some mm → MatcherOk mm) → (phase3 l out).isSome := by
  intro l
  induction l with
  | nil => intro out _; simp [phase3]
  | cons x xs ih =>
    intro out h
    obtain ⟨s, m?⟩ := x
    have hxs : ∀ x ∈ xs, ∀ mm, x.2 = some mm → MatcherOk mm := fun x hx => h x (List.mem_cons_of_mem _ hx)
    simp only [phase3]
    cases m? with
    | none => exact ih out hxs
    | some m =>
      have hm : MatcherOk m := h (s, some m) (by simp) m rfl
      simp only
      split
      · have := retainNot_total m hm out
        cases h2 : retainNot m out with
        | none => simp [h2] at this
        | some out' => simp only; exact ih out' hxs
      · exact ih out hxs

theorem matchRemotes_total (specs : List RefSpec) (items : List Item) (h : ∀ s ∈ specs, Balanced s) :
    (matchRemotes specs items).isSome := by
  have hb : ∀ x ∈ enumFrom 0 specs, Balanced x.2 := by
    intro x hx
    obtain ⟨i, s⟩ := x
    exact h s (mem_enumFrom hx)
  obtain ⟨o, ms, h1, h2⟩ := phase1_total (enumFrom 0 specs) [] hb
  simp only [matchRemotes, h1]
  have hz : ∀ x ∈ specs.zip ms, ∀ mm, x.2 = some mm → MatcherOk mm := by
    intro x hx mm hmm
    obtain ⟨s, m⟩ := x
    have := (List.of_mem_zip hx).2
    simp only at hmm
    subst hmm
    exact h2 mm this
  have hp2 := phase2_total (enumFrom 0 (specs.zip ms)) (enumFrom 0 items) o (by
    intro x hx mm hmm
    obtain ⟨i, s, m⟩ := x
    exact hz (s, m) (mem_enumFrom hx) mm hmm)
  cases h3 : phase2 (enumFrom 0 (specs.zip ms)) (enumFrom 0 items) o with
  | none => simp [h3] at hp2
  | some out =>
    simp only
    split
    · exact phase3_total _ out hz
    · simp


/-- gitoxide's glob match + destination substitution, characterised like `git_pattern` -/
theorem glob_matchesLhs (key value : Bytes) (kp vp : Nat) (hk : findStar key = some kp)
    (hv : findStar value = some vp) (item : Item) :
    (Matcher.mk (some (needleOf key)) (some (needleOf value))).matchesLhs item =
      some (match Spec.C32.matchNameWithPattern key item.name (some value) with
            | .matched r => (true, r)
            | _ => (false, none)) := by
  rw [git_pattern key item.name (some value) kp hk]
  simp only [Matcher.matchesLhs, needleOf_glob hk, needleOf_glob hv, glob_matches, hv]
  split
  · rename_i hc
    obtain ⟨h1, h2, h3, h4⟩ := hc
    have hle : kp ≤ item.name.length - (key.length - (kp + 1)) ∧
        item.name.length - (key.length - (kp + 1)) ≤ item.name.length := by omega
    simp only [Match.intoOutcome, Needle.toBstrReplace, hle, and_self, if_true, Option.map_some]
    rw [List.drop_take]
    have : item.name.length - (key.length - (kp + 1)) - kp = item.name.length - kp - (key.length - (kp + 1)) := by omega
    rw [this]
  · simp [Match.intoOutcome]



theorem findStar_isSome_countStar (v : Bytes) : (findStar v).isSome = decide (countStar v ≥ 1) := by
  induction v with
  | nil => simp [findStar, countStar]
  | cons b rest ih =>
    simp only [findStar, countStar, List.filter_cons]
    by_cases hb : b == 42
    · simp [hb]
    · simp only [hb, Bool.false_eq_true, if_false, Option.isSome_map]
      rw [ih]; simp [countStar]

def optHasStar : Option Bytes → Bool
  | none => false
  | some s => (findStar s).isSome

theorem validatedSide_ok {valid : Bytes → Bool} {x y : Option Bytes} {pat : Bool}
    (h : validatedSide valid x = .ok (y, pat)) : y = x ∧ pat = optHasStar x := by
  cases x with
  | none =>
    simp [validatedSide] at h
    exact ⟨h.1.symm, by rw [h.2]; rfl⟩
  | some s =>
    simp only [validatedSide] at h
    simp only [optHasStar]
    have hc := findStar_isSome_countStar s
    split at h
    · simp at h
    · split at h
      · rename_i h1 h2
        split at h
        · simp at h
          refine ⟨h.1.symm, ?_⟩
          rw [h.2, hc]; simp at h2; simp [h2]
        · simp at h
      · rename_i h1 h2
        split at h
        · simp at h
          refine ⟨h.1.symm, ?_⟩
          rw [h.2, hc]
          have : countStar s = 0 := by simp at h1 h2; omega
          simp [this]
        · simp at h

theorem parseFinish_balanced {valid : Bytes → Bool} {mode : Mode} {src dst : Option Bytes} {spec : RefSpec}
    (h : parseFinish valid mode src dst = .ok spec) (hneg : mode = .negative → dst = none) :
    Balanced spec := by
  simp only [parseFinish] at h
  split at h
  · simp at h
  · rename_i src' srcPat hs
    split at h
    · simp at h
    · rename_i dst' dstPat hd
      obtain ⟨e1, e2⟩ := validatedSide_ok hs
      obtain ⟨e3, e4⟩ := validatedSide_ok hd
      -- in every successful branch the result is ⟨mode, src', dst'⟩
      have hspec : spec = ⟨mode, src', dst'⟩ ∧ (mode = .negative ∨ srcPat = dstPat) := by
        split at h
        · simp at h
        · rename_i hbal
          split at h
          · rename_i hn
            have hm : mode = .negative := by simpa using hn
            split at h
            · split at h
              · simp at h
              · split at h
                · simp at h
                · split at h
                  · simp at h
                  · simp at h; exact ⟨h.symm, Or.inl hm⟩
            · simp at h
          · rename_i hn
            simp at h
            refine ⟨h.symm, Or.inr ?_⟩
            have hm : mode ≠ .negative := by simpa using hn
            simp [hm] at hbal
            exact hbal
      obtain ⟨hsp, hor⟩ := hspec
      subst hsp
      intro k v hk hv
      simp only at hk hv
      cases hor with
      | inl hm =>
        have := hneg hm
        subst this
        subst e3
        simp at hv
      | inr hp =>
        rw [e2, e4] at hp
        rw [← e1] at hp
        rw [hk] at hp
        rw [← e3, hv] at hp
        simpa [optHasStar] using hp

theorem parseFetch_balanced {valid : Bytes → Bool} {s : Bytes} {spec : RefSpec}
    (h : parseFetch valid s = .ok spec) : Balanced spec := by
  unfold parseFetch at h
  split at h
  · simp at h; subst h; intro k v _ hv; simp at hv
  · rename_i first tail
    simp only [] at h
    generalize (if first == 94 then Mode.negative else if first == 43 then Mode.force else Mode.normal) = mode at h
    generalize (if (first == 94 || first == 43) = true then tail else first :: tail) = sp at h
    cases hc : findColon sp with
    | some pos =>
      rw [hc] at h
      simp only [] at h
      by_cases hm : mode = .negative
      · simp [hm] at h
      · have hm' : (mode == Mode.negative) = false := by simpa using hm
        simp only [hm', Bool.false_eq_true, if_false] at h
        cases h1 : nonEmpty (List.take pos sp) <;> cases h2 : nonEmpty (List.drop (pos + 1) sp) <;>
          simp only [h1, h2] at h <;> exact parseFinish_balanced h (fun e => absurd e hm)
    | none =>
      rw [hc] at h
      simp only [] at h
      split at h
      · simp at h; subst h; intro k v _ hv; simp at hv
      · exact parseFinish_balanced h (fun _ => rfl)



theorem nothex_not_prefix {b c : UInt8} {p rest : Bytes} (hb : isHexDigit b = true)
    (hc : isHexDigit c = false) : (c :: p).isPrefixOf (b :: rest) = false := by
  have : c ≠ b := by intro e; subst e; simp [hb] at hc
  simp [List.isPrefixOf, this]

theorem dst_eq_git (d : Bytes) (hd : findStar d = none) (hcase : isHex40 d = true → d.map lowerHexByte = d) :
    (needleOf d).toBstr = some (Spec.C32.getLocalRef d) := by
  simp only [needleOf, hd, Needle.toBstr, startsWith, bRefs, Spec.C32.getLocalRef, Spec.C32.sRefs]
  by_cases h1 : [114, 101, 102, 115, 47].isPrefixOf d
  · simp [h1, Needle.toBstrReplace]
  · simp only [h1, Bool.false_eq_true, if_false]
    by_cases h2 : (d.length == 40 && d.all isHexDigit) = true
    · have hc := hcase (by simpa [isHex40] using h2)
      simp only [h2, if_true, Needle.toBstrReplace, hc]
      -- a string of hex digits cannot start with heads/ tags/ remotes/
      have hne : (Spec.C32.sHeads.isPrefixOf d || Spec.C32.sTags.isPrefixOf d || Spec.C32.sRemotes.isPrefixOf d) = false := by
        cases d with
        | nil => simp at h2
        | cons b rest =>
          simp only [List.all_cons, Bool.and_eq_true] at h2
          have hb := h2.2.1
          simp only [Spec.C32.sHeads, Spec.C32.sTags, Spec.C32.sRemotes]
          rw [nothex_not_prefix (c := 104) hb (by decide), nothex_not_prefix (c := 116) hb (by decide),
            nothex_not_prefix (c := 114) hb (by decide)]
          rfl
      rw [hne]
      rfl
    · simp only [h2, Bool.false_eq_true, if_false, Needle.toBstrReplace, startsWith, bTags, bRemotes, bHeads,
        Spec.C32.sHeads, Spec.C32.sTags, Spec.C32.sRemotes]
      by_cases a : [104, 101, 97, 100, 115, 47].isPrefixOf d <;>
      by_cases b : [116, 97, 103, 115, 47].isPrefixOf d <;>
      by_cases c : [114, 101, 109, 111, 116, 101, 115, 47].isPrefixOf d <;> simp [a, b, c, bRefs]



theorem expandPartial_eq_rules (s : Bytes) : expandPartial s = Spec.C32.revParseRules s := by
  simp [expandPartial, Spec.C32.revParseRules, bRefs, bTags, bHeads, bRemotes, bSlashHEAD,
    Spec.C32.sRefs, Spec.C32.sTags, Spec.C32.sHeads, Spec.C32.sRemotes, Spec.C32.sHEAD]

theorem refnameMatch_go_pos (l : List Bytes) (full : Bytes) (n : Nat) (hn : l.length ≤ n) :
    (0 < Spec.C32.refnameMatch.go full l n) = (l.any (· == full) = true) := by
  induction l generalizing n with
  | nil => simp [Spec.C32.refnameMatch.go]
  | cons r rest ih =>
    simp only [Spec.C32.refnameMatch.go, List.any_cons]
    simp only [List.length_cons] at hn
    by_cases h : r == full
    · simp [h]; omega
    · simp only [h, Bool.false_eq_true, if_false, Bool.false_or]
      exact ih (n - 1) (by omega)

/-- a partial name matches an item exactly when git's `refname_match` gives a positive score -/
theorem partial_matches (s : Bytes) (item : Item) :
    ((Needle.part s).matches item).isMatch = decide (0 < Spec.C32.refnameMatch s item.name) := by
  have h := refnameMatch_go_pos (Spec.C32.revParseRules s) item.name 6 (by simp [Spec.C32.revParseRules])
  simp only [Needle.matches, Spec.C32.refnameMatch, expandPartial_eq_rules]
  by_cases hm : (Spec.C32.revParseRules s).any (· == item.name) = true
  · have : 0 < Spec.C32.refnameMatch.go item.name (Spec.C32.revParseRules s) 6 := by rw [h]; exact hm
    simp [hm, Match.isMatch, this]
  · have : ¬ 0 < Spec.C32.refnameMatch.go item.name (Spec.C32.revParseRules s) 6 := by rw [h]; exact hm
    simp only [Bool.not_eq_true] at hm
    simp [hm, Match.isMatch, this]

/-- the negative-spec predicate for a full ref name is git's `!strcmp(refspec->src, name)` -/
theorem negative_full (mode : Mode) (s n : Bytes) (hs : findStar s = none) (hr : startsWith s bRefs = true) :
    (matcherOf ⟨mode, some s, none⟩).matchesLhs ⟨n, nullId, none⟩ =
      some (Spec.C32.refspecMatch ⟨true, false, false, false, s, none⟩ n, none) := by
  simp [matcherOf, needleOf, hs, hr, Matcher.matchesLhs, Needle.matches, Spec.C32.refspecMatch]
  split <;> simp_all [Match.isMatch]


/-! ### the mapping-level statement: vocabulary -/

/-- matching `specs` against `items` never panics and yields git's mappings -/
def AgreesOn (validRef : Bytes → Bool) (specs : List RefSpec) (items : List Item) : Prop :=
  ∃ ms, matchRemotes specs items = some ms ∧
    sameMappings specs (validated ms) (Spec.C32.getRefMap validRef (items.map (·.name)) (specs.map gitItemOf)) = true

theorem agreesOn_iff (validRef : Bytes → Bool) (specs : List RefSpec) (items : List Item) :
    AgreesOn validRef specs items ↔ agreesOn validRef specs items = true := by
  unfold AgreesOn agreesOn
  cases h : matchRemotes specs items with
  | none => simp
  | some ms => simp

instance (validRef : Bytes → Bool) (specs : List RefSpec) (items : List Item) :
    Decidable (AgreesOn validRef specs items) :=
  decidable_of_iff _ (agreesOn_iff validRef specs items).symm


/-- what one glob spec contributes for one item (git's verdict and expansion) -/
def globHit (k v : Bytes) (it : Item) : Option (Option Bytes) :=
  match Spec.C32.matchNameWithPattern k it.name (some v) with
  | .matched r => some r
  | _ => none

/-- the mappings a single glob spec `k:v` (spec index `si`) yields for the enumerated items -/
def globMaps (k v : Bytes) (si : Nat) : List (Nat × Item) → List Mapping
  | [] => []
  | (ii, it) :: rest =>
    match globHit k v it with
    | some r => ⟨some ii, .name it.name, r, si⟩ :: globMaps k v si rest
    | none => globMaps k v si rest

theorem pushUnique_fresh (out : List Mapping) (m : Mapping) (h : ∀ x ∈ out, x.lhs ≠ m.lhs) :
    pushUnique out m = out ++ [m] := by
  have : out.any (sameKey m) = false := by
    rw [List.any_eq_false]
    intro x hx
    have := h x hx
    simp only [sameKey, Bool.and_eq_true, beq_iff_eq, not_and]
    intro e; exact absurd e.symm this
  simp [pushUnique, this]

theorem globMaps_lhs (k v : Bytes) (si : Nat) (items : List (Nat × Item)) :
    ∀ x ∈ globMaps k v si items, ∃ p ∈ items, x.lhs = .name p.2.name := by
  induction items with
  | nil => intro x hx; simp [globMaps] at hx
  | cons p rest ih =>
    obtain ⟨ii, it⟩ := p
    intro x hx
    simp only [globMaps] at hx
    split at hx
    · simp only [List.mem_cons] at hx
      cases hx with
      | inl e => exact ⟨(ii, it), by simp, by rw [e]⟩
      | inr e => obtain ⟨q, hq, hl⟩ := ih x e; exact ⟨q, List.mem_cons_of_mem _ hq, hl⟩
    · obtain ⟨q, hq, hl⟩ := ih x hx; exact ⟨q, List.mem_cons_of_mem _ hq, hl⟩

/-- the inner loop of phase 2 for a glob spec: with pairwise distinct item names (none of them already a
source in `out`) every hit is appended -/
theorem phase2Items_glob (k v : Bytes) (kp vp : Nat) (hk : findStar k = some kp) (hv : findStar v = some vp) (si : Nat) :
    ∀ (items : List (Nat × Item)) (out : List Mapping),
      (items.map (·.2.name)).Nodup → (∀ x ∈ out, ∀ p ∈ items, x.lhs ≠ .name p.2.name) →
      phase2Items ⟨some (needleOf k), some (needleOf v)⟩ si items out = some (out ++ globMaps k v si items) := by
  intro items
  induction items with
  | nil => intro out _ _; simp [phase2Items, globMaps]
  | cons p rest ih =>
    obtain ⟨ii, it⟩ := p
    intro out hnd hfresh
    simp only [List.map_cons, List.nodup_cons] at hnd
    simp only [phase2Items, glob_matchesLhs k v kp vp hk hv it, globMaps, globHit]
    have hrest : ∀ x ∈ out, ∀ p ∈ rest, x.lhs ≠ .name p.2.name :=
      fun x hx p hp => hfresh x hx p (List.mem_cons_of_mem _ hp)
    cases hm : Spec.C32.matchNameWithPattern k it.name (some v) with
    | die => simp only [Bool.false_eq_true, if_false]; exact ih out hnd.2 hrest
    | noMatch => simp only [Bool.false_eq_true, if_false]; exact ih out hnd.2 hrest
    | matched r =>
      simp only [if_true]
      have hfr : ∀ x ∈ out, x.lhs ≠ (Mapping.mk (some ii) (.name it.name) r si).lhs :=
        fun x hx => hfresh x hx (ii, it) (by simp)
      rw [pushUnique_fresh out _ hfr]
      have := ih (out ++ [⟨some ii, .name it.name, r, si⟩]) hnd.2 (by
        intro x hx p hp
        simp only [List.mem_append, List.mem_singleton] at hx
        cases hx with
        | inl h => exact hrest x h p hp
        | inr h =>
          subst h
          simp only [ne_eq, Source.name.injEq]
          intro e
          exact hnd.1 (by rw [e]; exact List.mem_map_of_mem (f := fun q : Nat × Item => q.2.name) hp))
      rw [this]; simp



def pairOf (m : Mapping) : Spec.C32.Src × Option Bytes := (srcOfModel m.lhs, m.rhs)
def gitPairOf (g : Spec.C32.Map) : Spec.C32.Src × Option Bytes := (g.src, g.dst)

theorem enumFrom_names {n : Nat} (items : List Item) :
    (enumFrom n items).map (·.2.name) = items.map (·.name) := by
  induction items generalizing n with
  | nil => rfl
  | cons a rest ih => simp [enumFrom, ih]

theorem matchRemotes_single_glob (mode : Mode) (k v : Bytes) (kp vp : Nat) (hk : findStar k = some kp)
    (hv : findStar v = some vp) (hm : mode ≠ .negative) (items : List Item)
    (hd : (items.map (·.name)).Nodup) :
    matchRemotes [⟨mode, some k, some v⟩] items = some (globMaps k v 0 (enumFrom 0 items)) := by
  have hneg : (mode == Mode.negative) = false := by
    cases mode <;> first | rfl | exact absurd rfl hm
  have hp2 := phase2Items_glob k v kp vp hk hv 0 (enumFrom 0 items) []
    (by rw [enumFrom_names]; exact hd) (by intro x hx; simp at hx)
  rw [needleOf_glob hk] at hp2
  simp only [matchRemotes, enumFrom, phase1, matcherOf, Option.map_some, needleOf_glob hk, List.zip_cons_cons,
    List.zip_nil_right, phase2, hneg, Bool.false_eq_true, if_false, List.any_cons,
    List.any_nil, Bool.or_false, Bool.false_and]
  rw [hp2]
  simp

/-- git's `get_expanded_map` for the same spec gives the same (source, destination) pairs, in the same order -/
theorem expandedMap_eq_globMaps (k v : Bytes) (kp vp : Nat) (hk : findStar k = some kp) (hv : findStar v = some vp)
    (neg force pat sha : Bool) (si : Nat) :
    ∀ (items : List Item) (n : Nat), (∀ it ∈ items, it.name.contains 94 = false) →
      ∃ gm, Spec.C32.getExpandedMap (items.map (·.name)) ⟨neg, force, pat, sha, k, some v⟩ = .ok gm ∧
        gm.map gitPairOf = (globMaps k v si (enumFrom n items)).map pairOf := by
  intro items
  induction items with
  | nil => intro n _; exact ⟨[], rfl, rfl⟩
  | cons it rest ih =>
    intro n hc
    have hc0 : it.name.contains 94 = false := hc it (by simp)
    obtain ⟨gm, hg, he⟩ := ih (n + 1) (fun x hx => hc x (List.mem_cons_of_mem _ hx))
    have hpat := git_pattern k it.name (some v) kp hk
    simp only [List.map_cons, Spec.C32.getExpandedMap, hc0, Bool.false_eq_true, if_false, enumFrom, globMaps, globHit]
    cases hmm : Spec.C32.matchNameWithPattern k it.name (some v) with
    | die =>
      exfalso
      rw [hpat] at hmm
      split at hmm
      · simp [hv] at hmm
      · simp at hmm
    | noMatch => exact ⟨gm, by simp only [hg], he⟩
    | matched r =>
      refine ⟨⟨.ref it.name, r, force⟩ :: gm, by simp only [hg], ?_⟩
      simp [gitPairOf, pairOf, srcOfModel, he]


end GixModel.C32
