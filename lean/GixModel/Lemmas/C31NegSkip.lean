import GixModel.Lemmas.C31NegBase
/-
C31 — `skipping.rs`: every operation keeps the invariant; every `have` is a local commit.
-/
namespace GixModel.C31.Neg.Skipping
open GixModel.C31.Neg

theorem or_common (a b : Flags) : (a.or b).common = (a.common || b.common) := rfl
theorem or_commonRef (a b : Flags) : (a.or b).commonRef = (a.commonRef || b.commonRef) := rfl
theorem or_advertised (a b : Flags) : (a.or b).advertised = (a.advertised || b.advertised) := rfl

theorem addToQueue_inv {o : Odb} {src : List Nat} {st : St} (hinv : Inv o src st) (id : Nat) (mark : Flags)
    (hc : mark.common = true → Just o src id)
    (hr : (mark.commonRef = true ∨ mark.advertised = true) → id ∈ src) :
    Inv o src (addToQueue o st id mark) := by
  unfold addToQueue
  cases ht : touch o st id (fun m => { m with flags := (m.flags.or mark).or { seen := true } }) with
  | none => exact hinv
  | some r =>
    obtain ⟨old, new, st'⟩ := r
    obtain ⟨hnew, _, _⟩ := touch_some ht
    have hinv' : Inv o src st' := by
      apply hinv.touch ht
      · intro hn
        rw [hnew] at hn
        by_cases ho : old.flags.common = true
        · exact Or.inl ho
        · refine Or.inr (hc ?_)
          simpa [or_common, ho] using hn
      · intro hn
        rw [hnew] at hn
        rcases hn with h | h
        · by_cases ho : old.flags.commonRef = true
          · exact Or.inl (Or.inl ho)
          · refine Or.inr (hr (Or.inl ?_))
            simpa [or_commonRef, ho] using h
        · by_cases ho : old.flags.advertised = true
          · exact Or.inl (Or.inr ho)
          · refine Or.inr (hr (Or.inr ?_))
            simpa [or_advertised, ho] using h
    exact hinv'.push _ _ _ (touch_graph_ne_none ht)

theorem markParents_inv {o : Odb} {src : List Nat} (ps : List Nat) :
    ∀ (st : St) (q : List (Int × Nat × Nat)), Inv o src st → (∀ p, p ∈ ps → Just o src p) →
      (∀ e, e ∈ q → Just o src e.2.1) →
      Inv o src (markParents o st q ps).1 ∧ ∀ e, e ∈ (markParents o st q ps).2 → Just o src e.2.1 := by
  induction ps with
  | nil => intro st q hinv _ hq; exact ⟨hinv, hq⟩
  | cons p ps ih =>
    intro st q hinv hps hq
    have hp := hps p (by simp)
    have hps' : ∀ x, x ∈ ps → Just o src x := fun x hx => hps x (by simp [hx])
    unfold markParents
    cases hg : st.graph p with
    | none => exact ih st q hinv hps' hq
    | some m =>
      have hinv' : Inv o src (setMeta st p { m with flags := { m.flags with common := true } }) :=
        hinv.setMeta p _ (hinv.graphPresent p m hg) (fun _ => hp) (fun hn => hinv.refJust p m hg hn)
      simp only
      split
      · exact ih _ q hinv' hps' hq
      · apply ih _ _ hinv' hps'
        intro e he
        rcases List.mem_cons.mp he with h1 | h1
        · subst h1; exact hp
        · exact hq e h1

theorem markLoop_inv {o : Odb} {src : List Nat} (pk : Picker) (fuel : Nat) :
    ∀ (st : St) (q : List (Int × Nat × Nat)) (st' : St), Inv o src st → (∀ e, e ∈ q → Just o src e.2.1) →
      markLoop o pk fuel st q = .ok st' → Inv o src st' := by
  induction fuel with
  | zero => intro st q st' _ _ h; simp [markLoop] at h
  | succ fuel ih =>
    intro st q st' hinv hq h
    unfold markLoop at h
    cases hpop : popWith pk q with
    | none => simp only [hpop] at h; cases h; exact hinv
    | some r =>
      obtain ⟨⟨t, id, gen⟩, q'⟩ := r
      obtain ⟨hmem, hsub⟩ := popWith_mem hpop
      have hq' : ∀ e, e ∈ q' → Just o src e.2.1 := fun e he => hq e (hsub e he)
      have hid : Just o src id := hq _ hmem
      simp only [hpop] at h
      cases ht : touch o st id (fun m => m) with
      | none => simp only [ht] at h; exact ih _ _ _ hinv hq' h
      | some r2 =>
        obtain ⟨old, new, st1⟩ := r2
        obtain ⟨hnew, _, _⟩ := touch_some ht
        have hinv1 : Inv o src st1 := by
          apply hinv.touch ht
          · intro hn; rw [hnew] at hn; exact Or.inl hn
          · intro hn; rw [hnew] at hn; exact Or.inl hn
        simp only [ht] at h
        have hinv2 : Inv o src (if !old.flags.popped then { st1 with nonCommon := st1.nonCommon - 1 } else st1) := by
          split
          · exact hinv1.withCounter _
          · exact hinv1
        have hmp := markParents_inv (o := o) (src := src) (o.parents id) _ q' hinv2 (fun p hp => hid.parent hp) hq'
        cases hm : markParents o (if !old.flags.popped then { st1 with nonCommon := st1.nonCommon - 1 } else st1) q'
            (o.parents id) with
        | mk st2 q2 =>
          rw [hm] at hmp h
          exact ih _ _ _ hmp.1 hmp.2 h

theorem markCommon_inv {o : Odb} {src : List Nat} (pk : Picker) (fuel : Nat) {st st' : St} (id : Nat)
    (hinv : Inv o src st) (hid : Just o src id) (h : markCommon o pk fuel st id = .ok st') : Inv o src st' := by
  unfold markCommon at h
  cases ht : touch o st id (fun m => { m with flags := { m.flags with common := true } }) with
  | none => simp only [ht] at h; cases h; exact hinv
  | some r =>
    obtain ⟨old, new, st1⟩ := r
    obtain ⟨hnew, _, _⟩ := touch_some ht
    have hinv1 : Inv o src st1 := by
      apply hinv.touch ht
      · intro _; exact Or.inr hid
      · intro hn; rw [hnew] at hn; exact Or.inl hn
    simp only [ht] at h
    split at h
    · cases h; exact hinv1
    · refine markLoop_inv pk fuel _ _ _ hinv1 ?_ h
      intro e he
      simp only [List.mem_singleton] at he
      subst he
      exact hid

theorem pushRest_inv {o : Odb} {src : List Nat} (pk : Picker) (fuel : Nat) (entry : Meta) (p : Nat) {st st' : St}
    (b : Bool) (hinv : Inv o src st) (hj : (entry.flags.common = true ∨ entry.flags.advertised = true) → Just o src p)
    (h : pushParent.pushRest o pk fuel entry p st = .ok (b, st')) : Inv o src st' := by
  unfold pushParent.pushRest at h
  split at h
  · rename_i hc
    cases hm : markCommon o pk fuel st p with
    | ok st2 =>
      simp only [hm, Res.ok.injEq, Prod.mk.injEq] at h
      obtain ⟨_, rfl⟩ := h
      refine markCommon_inv pk fuel p hinv (hj ?_) hm
      simpa [Bool.or_eq_true] using hc
    | panic => simp [hm] at h
    | fuel => simp [hm] at h
  · cases hg : st.graph p with
    | none => simp only [hg] at h; cases h; exact hinv
    | some pm =>
      simp only [hg] at h
      repeat' split at h
      all_goals
        cases h
        first
        | exact hinv
        | exact hinv.setMeta p _ (hinv.graphPresent p pm hg) (fun hc => hinv.commonJust p pm hg hc)
            (fun hc => hinv.refJust p pm hg hc)

theorem pushParent_inv {o : Odb} {src : List Nat} (pk : Picker) (fuel : Nat) (entry : Meta) (p : Nat) {st st' : St}
    (b : Bool) (hinv : Inv o src st) (hj : (entry.flags.common = true ∨ entry.flags.advertised = true) → Just o src p)
    (h : pushParent o pk fuel entry st p = .ok (b, st')) : Inv o src st' := by
  unfold pushParent at h
  cases hf : Option.filter (fun m => m.flags.seen) (st.graph p) with
  | some m =>
    simp only [hf] at h
    split at h
    · cases h
      exact hinv
    · exact pushRest_inv pk fuel entry p b hinv hj h
  | none =>
    simp only [hf] at h
    refine pushRest_inv pk fuel entry p b ?_ hj h
    exact addToQueue_inv hinv p fNone (by intro hc; cases hc) (by intro hc; rcases hc with hc | hc <;> cases hc)

theorem pushParents_inv {o : Odb} {src : List Nat} (pk : Picker) (fuel : Nat) (entry : Meta) (ps : List Nat) :
    ∀ (st st' : St) (acc b : Bool), Inv o src st →
      ((entry.flags.common = true ∨ entry.flags.advertised = true) → ∀ p, p ∈ ps → Just o src p) →
      pushParents o pk fuel entry st acc ps = .ok (b, st') → Inv o src st' := by
  induction ps with
  | nil =>
    intro st st' acc b hinv _ h
    simp only [pushParents, Res.ok.injEq, Prod.mk.injEq] at h
    obtain ⟨_, rfl⟩ := h
    exact hinv
  | cons p ps ih =>
    intro st st' acc b hinv hj h
    unfold pushParents at h
    cases hp : pushParent o pk fuel entry st p with
    | ok r =>
      obtain ⟨rb, st1⟩ := r
      simp only [hp] at h
      exact ih _ _ _ _ (pushParent_inv pk fuel entry p rb hinv (fun hc => hj hc p (by simp)) hp)
        (fun hc x hx => hj hc x (by simp [hx])) h
    | panic => simp [hp] at h
    | fuel => simp [hp] at h

theorem knownCommon_inv {o : Odb} {src : List Nat} {st : St} (id : Nat) (hinv : Inv o src st) (hid : id ∈ src) :
    Inv o src (knownCommon o st id) := by
  unfold knownCommon
  split
  · exact hinv
  · exact addToQueue_inv hinv id fAdvertised (by intro hc; cases hc) (fun _ => hid)

theorem addTip_inv {o : Odb} {src : List Nat} {st : St} (id : Nat) (hinv : Inv o src st) :
    Inv o src (addTip o st id) := by
  unfold addTip
  split
  · exact hinv
  · exact addToQueue_inv hinv id fNone (by intro hc; cases hc) (by intro hc; rcases hc with hc | hc <;> cases hc)

theorem nextHave_inv {o : Odb} {src : List Nat} (pk : Picker) (fuel : Nat) :
    ∀ (st st' : St) (r : Option Nat), Inv o src st → nextHave o pk fuel st = .ok (r, st') →
      Inv o src st' ∧ ∀ h, r = some h → o.present h = true := by
  induction fuel with
  | zero => intro st st' r _ h; simp [nextHave] at h
  | succ fuel ih =>
    intro st st' r hinv h
    unfold nextHave at h
    cases hpop : popWith pk st.revs with
    | none =>
      simp only [hpop, Res.ok.injEq, Prod.mk.injEq] at h
      obtain ⟨rfl, rfl⟩ := h
      exact ⟨hinv, by intro h hh; cases hh⟩
    | some pr =>
      obtain ⟨⟨t, id, g⟩, revs'⟩ := pr
      obtain ⟨hmem, hsub⟩ := popWith_mem hpop
      have hinvR : Inv o src { st with revs := revs' } :=
        hinv.withRevs revs' (fun e he => hinv.revsInGraph e (hsub e he))
      simp only [hpop] at h
      split at h
      · simp only [Res.ok.injEq, Prod.mk.injEq] at h
        obtain ⟨rfl, rfl⟩ := h
        exact ⟨hinvR, by intro h hh; cases hh⟩
      · cases hg : st.graph id with
        | none => exact absurd hg (hinv.revsInGraph _ hmem)
        | some m =>
          have hpres := hinv.graphPresent id m hg
          first | simp only [hg] at h | skip
          have hinvP : Inv o src (setMeta { st with revs := revs' } id { m with flags := { m.flags with popped := true } }) :=
            hinvR.setMeta id _ hpres (fun hc => hinv.commonJust id m hg hc) (fun hc => hinv.refJust id m hg hc)
          split at h
          all_goals
            first
            | cases h
            | skip
          all_goals
            rename_i pushed stp hpp
            have hinvPP : Inv o src stp := by
              refine pushParents_inv pk fuel _ (o.parents id) _ _ _ _ ?_ ?_ hpp
              · split
                · exact hinvP.withCounter _
                · exact hinvP
              · intro hc p hp
                rcases hc with hc | hc
                · exact (hinv.commonJust id m hg hc).parent hp
                · exact (Just.of_mem (hinv.refJust id m hg (Or.inr hc))).parent hp
            split at h
            · rename_i hres
              simp only [Res.ok.injEq, Prod.mk.injEq] at h
              obtain ⟨rfl, rfl⟩ := h
              refine ⟨hinvPP, ?_⟩
              intro h' hh
              cases hh
              first
              | exact hpres
              | (split at hres <;> (try split at hres) <;> simp_all)
            · exact ih _ _ _ hinvPP h

theorem inCommonWithRemote_inv {o : Odb} {src : List Nat} (pk : Picker) (fuel : Nat) {st st' : St} (id : Nat)
    (b : Bool) (hinv : Inv o src st) (hid : id ∈ src)
    (h : inCommonWithRemote o pk fuel st id = .ok (b, st')) : Inv o src st' := by
  unfold inCommonWithRemote at h
  simp only at h
  split at h
  · cases h
  · cases hm : markCommon o pk fuel st id with
    | ok st2 =>
      simp only [hm, Res.ok.injEq, Prod.mk.injEq] at h
      obtain ⟨_, rfl⟩ := h
      exact markCommon_inv pk fuel id hinv (Just.of_mem hid) hm
    | panic => simp [hm] at h
    | fuel => simp [hm] at h

end GixModel.C31.Neg.Skipping
