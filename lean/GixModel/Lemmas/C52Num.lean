import GixModel.Model.C52
/-
C52 — numbers: what `strftime` writes for the numeric directives is read back by
`Extension::parse_number`.
-/
namespace GixModel.C52
open GixModel

def dig (d : Nat) : UInt8 := UInt8.ofNat (48 + d)

def decVal (bs : Bytes) : Nat := bs.foldl (fun acc b => acc * 10 + (b.toNat - 48)) 0

theorem dig_facts : ∀ d, d < 10 →
    isDigit (dig d) = true ∧ (dig d).toNat - 48 = d ∧ ((dig d == 48) = decide (d = 0)) ∧ isWs (dig d) = false ∧
      dig d ≠ 45 ∧ dig d ≠ 43 := by
  decide

theorem pad2_eq : ∀ n, n < 100 → pad2 n = [dig (n / 10), dig (n % 10)] := by decide +kernel

theorem natDec_small : ∀ n, n < 32 →
    natDec n = if n < 10 then [dig n] else [dig (n / 10), dig (n % 10)] := by decide +kernel

theorem decVal_zeros (zs ds : Bytes) (hz : ∀ z ∈ zs, (z == 48) = true) : decVal (zs ++ ds) = decVal ds := by
  unfold decVal
  rw [List.foldl_append]
  have : zs.foldl (fun acc b => acc * 10 + (b.toNat - 48)) 0 = 0 := by
    induction zs with
    | nil => rfl
    | cons z r ih =>
      have hz0 : z = 48 := by simpa using hz z (by simp)
      subst hz0
      simp only [List.foldl_cons]
      exact ih (fun x hx => hz x (by simp [hx]))
  rw [this]

theorem mem_takeWhile_p (p : UInt8 → Bool) (l : Bytes) : ∀ x ∈ l.takeWhile p, p x = true := by
  induction l with
  | nil => simp
  | cons a l ih =>
    intro x hx
    simp only [List.takeWhile_cons] at hx
    split at hx
    · simp at hx; rcases hx with rfl | hx
      · assumption
      · exact ih x hx
    · simp at hx

theorem takeWhile_all (p : UInt8 → Bool) (l : Bytes) (h : l.all p = true) : l.takeWhile p = l := by
  induction l with
  | nil => rfl
  | cons a l ih =>
    simp only [List.all_cons, Bool.and_eq_true] at h
    simp [List.takeWhile_cons, h.1, ih h.2]

/-- exactly `k` digits (leading zeros included) are read as their value, whatever follows -/
theorem parseNumber_exact (k : Nat) (ds rest : Bytes) (hl : ds.length = k) (hk : 1 ≤ k)
    (hd : ds.all isDigit = true) : parseNumber k false (ds ++ rest) = some (decVal ds, rest) := by
  unfold parseNumber
  simp only [Bool.false_eq_true, if_false]
  have htake : (ds ++ rest).take k = ds := by
    rw [List.take_append_of_le_length (by omega), List.take_of_length_le (by omega)]
  rw [htake]
  generalize hzs : ds.takeWhile (· == 48) = zs
  have hsplit : ds = zs ++ ds.dropWhile (· == 48) := by
    rw [← hzs]; exact (List.takeWhile_append_dropWhile (p := (· == 48)) (l := ds)).symm
  generalize hds' : ds.dropWhile (· == 48) = ds' at hsplit
  have hzall : ∀ z ∈ zs, (z == 48) = true := by
    intro z hz; rw [← hzs] at hz; exact mem_takeWhile_p _ _ z hz
  have hlen : zs.length + ds'.length = k := by
    rw [← hl, hsplit, List.length_append]
  have hdrop : (ds ++ rest).drop zs.length = ds' ++ rest := by
    rw [hsplit, List.append_assoc, List.drop_left]
  rw [hdrop]
  have htake2 : (ds' ++ rest).take (k - zs.length) = ds' := by
    rw [List.take_append_of_le_length (by omega), List.take_of_length_le (by omega)]
  rw [htake2]
  have hd' : ds'.all isDigit = true := by
    rw [hsplit, List.all_append, Bool.and_eq_true] at hd; exact hd.2
  rw [takeWhile_all isDigit ds' hd']
  have hne : ¬ zs.length + ds'.length = 0 := by omega
  rw [if_neg hne]
  have hval : decVal ds = decVal ds' := by rw [hsplit]; exact decVal_zeros zs ds' hzall
  rw [hval, List.drop_left]
  rfl

theorem parseNumber_pad2 (n : Nat) (hn : n < 100) (rest : Bytes) :
    parseNumber 2 false (pad2 n ++ rest) = some (n, rest) := by
  rw [pad2_eq n hn]
  have ha := dig_facts (n / 10) (by omega)
  have hb := dig_facts (n % 10) (by omega)
  rw [parseNumber_exact 2 _ rest rfl (by omega) (by simp [ha.1, hb.1])]
  simp only [decVal, List.foldl_cons, List.foldl_nil, ha.2.1, hb.2.1]
  congr 2; omega

theorem pad2_length (n : Nat) (hn : n < 100) : (pad2 n).length = 2 := by rw [pad2_eq n hn]; rfl

theorem pad2_digits (n : Nat) (hn : n < 100) : (pad2 n).all isDigit = true := by
  rw [pad2_eq n hn]
  simp [(dig_facts (n / 10) (by omega)).1, (dig_facts (n % 10) (by omega)).1]

theorem decVal_pad2 (n : Nat) (hn : n < 100) : decVal (pad2 n) = n := by
  rw [pad2_eq n hn]
  simp only [decVal, List.foldl_cons, List.foldl_nil, (dig_facts (n / 10) (by omega)).2.1,
    (dig_facts (n % 10) (by omega)).2.1]
  omega

theorem decVal_append (a b : Bytes) : decVal (a ++ b) = b.foldl (fun acc x => acc * 10 + (x.toNat - 48)) (decVal a) := by
  unfold decVal; rw [List.foldl_append]

theorem parseNumber_pad4 (n : Nat) (hn : n ≤ 9999) (rest : Bytes) :
    parseNumber 4 false (pad4 n ++ rest) = some (n, rest) := by
  unfold pad4
  have h1 : n / 100 < 100 := by omega
  have h2 : n % 100 < 100 := by omega
  rw [parseNumber_exact 4 _ rest (by simp [pad2_length _ h1, pad2_length _ h2]) (by omega)
    (by rw [List.all_append, pad2_digits _ h1, pad2_digits _ h2]; rfl)]
  rw [decVal_append, decVal_pad2 _ h1, pad2_eq _ h2]
  simp only [List.foldl_cons, List.foldl_nil, (dig_facts (n % 100 / 10) (by omega)).2.1,
    (dig_facts (n % 100 % 10) (by omega)).2.1]
  congr 2; omega

/-- `%-d`: one or two digits, the next byte is not a digit -/
theorem parseNumber_nopad (n : Nat) (h1 : 1 ≤ n) (h31 : n ≤ 31) (rest : Bytes)
    (hr : ∀ b r, rest = b :: r → isDigit b = false) :
    parseNumber 2 true (natDec n ++ rest) = some (n, rest) := by
  unfold parseNumber
  simp only [if_true, List.take_zero, List.takeWhile_nil, List.length_nil, List.drop_zero, Nat.sub_zero, Nat.zero_add]
  rw [natDec_small n (by omega)]
  by_cases h10 : n < 10
  · simp only [h10, if_true]
    have hd := dig_facts n h10
    cases rest with
    | nil => simp [List.takeWhile, hd.1, hd.2.1]
    | cons b r =>
      have hb := hr b r rfl
      simp [List.takeWhile, hd.1, hd.2.1, hb]
  · simp only [h10, if_false]
    have ha := dig_facts (n / 10) (by omega)
    have hb := dig_facts (n % 10) (by omega)
    simp only [List.cons_append, List.nil_append, List.take_succ_cons, List.take_zero, List.takeWhile_cons, ha.1, hb.1,
      if_true, List.takeWhile_nil, List.length_cons, List.length_nil, List.foldl_cons, List.foldl_nil, ha.2.1, hb.2.1,
      List.drop_succ_cons, List.drop_zero]
    simp only [Nat.zero_add, Nat.reduceAdd, Nat.reduceEqDiff, if_false]
    congr 2; omega

end GixModel.C52
