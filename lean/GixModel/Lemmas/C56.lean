import GixModel.Model.C56
/-
Helper lemmas and the CONTRACTS of the external components for C56 (and C11).

`CompressorOk` / `DecompressorOk` are the assumed contracts of `flate2::Compress` /
`flate2::Decompress` relative to an abstract relation `IsStream z d` ("`z` is a complete zlib
stream whose content is `d`"). They are hypotheses of the theorems, never axioms.
-/
namespace GixModel.C56
open GixModel

/-- per-run obligations on the constants extracted from the source: the loops need non-empty buffers -/
theorem BUF_SIZE_pos : 0 < BUF_SIZE := by decide
theorem HASH_BUF_SIZE_pos : 0 < HASH_BUF_SIZE := by decide

/-! ## SHA-1 streaming wrapper -/

theorem blocks_succ_lt (f : BlockFn) (m : Nat) (h : H5) (buf : Bytes) (hl : (buf.take 64).length < 64) :
    blocks f (m + 1) h buf = (h, buf) := by
  simp only [blocks]; rw [if_pos hl]

theorem blocks_succ_ge (f : BlockFn) (m : Nat) (h : H5) (buf : Bytes) (hl : ¬ (buf.take 64).length < 64) :
    blocks f (m + 1) h buf = blocks f m (f h (buf.take 64)) (buf.drop 64) := by
  simp only [blocks]; rw [if_neg hl]

theorem blocks_fuel_irrel (f : BlockFn) : ∀ (m n : Nat) (h : H5) (buf : Bytes),
    buf.length < 64 * m → buf.length < 64 * n → blocks f m h buf = blocks f n h buf := by
  intro m
  induction m with
  | zero => intro n h buf hm; omega
  | succ m ih =>
    intro n h buf hm hn
    cases n with
    | zero => omega
    | succ n =>
      by_cases hl : (buf.take 64).length < 64
      · rw [blocks_succ_lt f m h buf hl, blocks_succ_lt f n h buf hl]
      · rw [blocks_succ_ge f m h buf hl, blocks_succ_ge f n h buf hl]
        have : (buf.take 64).length = min 64 buf.length := List.length_take
        apply ih
        · simp only [List.length_drop]; omega
        · simp only [List.length_drop]; omega

theorem blocks_rest_lt (f : BlockFn) : ∀ (m : Nat) (h : H5) (buf : Bytes),
    buf.length < 64 * m → (blocks f m h buf).2.length < 64 := by
  intro m
  induction m with
  | zero => intro h buf hm; omega
  | succ m ih =>
    intro h buf hm
    have hk : (buf.take 64).length = min 64 buf.length := List.length_take
    by_cases hl : (buf.take 64).length < 64
    · rw [blocks_succ_lt f m h buf hl]; simp only; omega
    · rw [blocks_succ_ge f m h buf hl]
      apply ih
      simp only [List.length_drop]; omega

theorem blocks_rest_le (f : BlockFn) : ∀ (m : Nat) (h : H5) (buf : Bytes),
    (blocks f m h buf).2.length ≤ buf.length := by
  intro m
  induction m with
  | zero => intro h buf; simp [blocks]
  | succ m ih =>
    intro h buf
    by_cases hl : (buf.take 64).length < 64
    · rw [blocks_succ_lt f m h buf hl]; exact Nat.le_refl _
    · rw [blocks_succ_ge f m h buf hl]
      have := ih (f h (buf.take 64)) (buf.drop 64)
      simp only [List.length_drop] at this; omega

theorem blocks_small (f : BlockFn) (m : Nat) (h : H5) (buf : Bytes) (hs : buf.length < 64) :
    blocks f m h buf = (h, buf) := by
  cases m with
  | zero => rfl
  | succ m =>
    have hk : (buf.take 64).length = min 64 buf.length := List.length_take
    have : (buf.take 64).length < 64 := by omega
    exact blocks_succ_lt f m h buf this

theorem blocks_append (f : BlockFn) : ∀ (m n k : Nat) (h : H5) (x y : Bytes),
    x.length < 64 * m → (x ++ y).length < 64 * n →
    ((blocks f m h x).2 ++ y).length < 64 * k →
    blocks f n h (x ++ y) = blocks f k (blocks f m h x).1 ((blocks f m h x).2 ++ y) := by
  intro m
  induction m with
  | zero => intro n k h x y hm; omega
  | succ m ih =>
    intro n k h x y hm hn hk
    have hxk : (x.take 64).length = min 64 x.length := List.length_take
    by_cases hl : (x.take 64).length < 64
    · have hx : x.length < 64 := by omega
      rw [blocks_small f (m + 1) h x hx] at hk ⊢
      exact blocks_fuel_irrel f n k h (x ++ y) hn hk
    · have hx : 64 ≤ x.length := by omega
      cases n with
      | zero => omega
      | succ n =>
        have e1 : (x ++ y).take 64 = x.take 64 := by
          rw [List.take_append_of_le_length hx]
        have e2 : (x ++ y).drop 64 = x.drop 64 ++ y := by
          rw [List.drop_append_of_le_length hx]
        have hb : blocks f (m + 1) h x = blocks f m (f h (x.take 64)) (x.drop 64) :=
          blocks_succ_ge f m h x hl
        rw [hb] at hk ⊢
        have hl' : ¬ ((x ++ y).take 64).length < 64 := by rw [e1]; exact hl
        have hc : blocks f (n + 1) h (x ++ y) = blocks f n (f h (x.take 64)) (x.drop 64 ++ y) := by
          rw [blocks_succ_ge f n h (x ++ y) hl', e1, e2]
        rw [hc]
        apply ih
        · simp only [List.length_drop]; omega
        · simp only [List.length_append, List.length_drop] at hn ⊢; omega
        · exact hk

/-- the hasher's invariant: fewer than 64 bytes wait for the next block -/
def Sha1.WF (s : Sha1) : Prop := s.pending.length < 64

theorem Sha1.new_wf : Sha1.new.WF := by simp [Sha1.WF, Sha1.new]

theorem Sha1.update_wf (f : BlockFn) (s : Sha1) (data : Bytes) : (s.update f data).WF := by
  simp only [Sha1.WF, Sha1.update]
  apply blocks_rest_lt
  omega

theorem Sha1.update_nil (f : BlockFn) (s : Sha1) (hs : s.WF) : s.update f [] = s := by
  simp only [Sha1.WF] at hs
  simp only [Sha1.update, List.append_nil]
  rw [blocks_small f _ s.h s.pending hs]
  simp

theorem Sha1.update_append (f : BlockFn) (s : Sha1) (a b : Bytes) :
    (s.update f a).update f b = s.update f (a ++ b) := by
  have key := blocks_append f ((s.pending ++ a).length / 64 + 1) ((s.pending ++ (a ++ b)).length / 64 + 1)
    (((blocks f ((s.pending ++ a).length / 64 + 1) s.h (s.pending ++ a)).2 ++ b).length / 64 + 1)
    s.h (s.pending ++ a) b (by omega) (by rw [List.append_assoc]; omega) (by omega)
  have hle := blocks_rest_le f ((s.pending ++ a).length / 64 + 1) s.h (s.pending ++ a)
  have hle2 := blocks_rest_le f
    (((blocks f ((s.pending ++ a).length / 64 + 1) s.h (s.pending ++ a)).2 ++ b).length / 64 + 1)
    (blocks f ((s.pending ++ a).length / 64 + 1) s.h (s.pending ++ a)).1
    ((blocks f ((s.pending ++ a).length / 64 + 1) s.h (s.pending ++ a)).2 ++ b)
  rw [List.append_assoc] at key
  simp only [Sha1.update]
  rw [key]
  simp only [List.length_append] at hle hle2 ⊢
  congr 1
  omega

theorem Sha1.foldl_update (f : BlockFn) (chunks : List Bytes) : ∀ (s : Sha1), s.WF →
    chunks.foldl (Sha1.update f) s = s.update f chunks.flatten := by
  induction chunks with
  | nil => intro s hs; simp [Sha1.update_nil f s hs]
  | cons c cs ih =>
    intro s hs
    simp only [List.foldl_cons, List.flatten_cons]
    rw [ih _ (Sha1.update_wf f s c), Sha1.update_append]

/-! ### `bytes_with_hasher` -/

theorem take_take_drop (l : Bytes) (n m : Nat) (h : n ≤ m) :
    l.take n ++ (l.drop n).take (m - n) = l.take m := by
  have : m = n + (m - n) := by omega
  rw [this, List.take_add]
  simp

theorem bytesWithHasher_ok (f : BlockFn) : ∀ (fuel : Nat) (s : Sha1) (stream : Bytes) (left : Nat),
    left < fuel → left ≤ stream.length →
    bytesWithHasher f fuel s stream left = .ok ((s.update f (stream.take left)).digest f) ∨
    (left = 0 ∧ bytesWithHasher f fuel s stream left = .ok (s.digest f)) := by
  intro fuel
  induction fuel with
  | zero => intro s stream left h; omega
  | succ fuel ih =>
    intro s stream left hf hl
    by_cases h0 : left = 0
    · right; simp [bytesWithHasher, h0]
    · left
      simp only [bytesWithHasher, h0, if_false]
      have hn : min HASH_BUF_SIZE left ≤ stream.length := by omega
      have hlen : (stream.take (min HASH_BUF_SIZE left)).length = min HASH_BUF_SIZE left := by
        rw [List.length_take]; omega
      have hpos : 0 < min HASH_BUF_SIZE left := by have := HASH_BUF_SIZE_pos; omega
      simp only [hlen, Nat.lt_irrefl, if_false]
      rcases ih (s.update f (stream.take (min HASH_BUF_SIZE left))) (stream.drop (min HASH_BUF_SIZE left))
          (left - min HASH_BUF_SIZE left) (by omega) (by simp only [List.length_drop]; omega) with h | ⟨hz, h⟩
      · rw [h, Sha1.update_append, take_take_drop _ _ _ (Nat.min_le_right _ _)]
      · rw [h]
        have : min HASH_BUF_SIZE left = left := by omega
        rw [this]

theorem bytesWithHasher_short (f : BlockFn) : ∀ (fuel : Nat) (s : Sha1) (stream : Bytes) (left : Nat),
    left < fuel → stream.length < left → bytesWithHasher f fuel s stream left = .err := by
  intro fuel
  induction fuel with
  | zero => intro s stream left h; omega
  | succ fuel ih =>
    intro s stream left hf hl
    have h0 : left ≠ 0 := by omega
    simp only [bytesWithHasher, h0, if_false]
    have hpos : 0 < min HASH_BUF_SIZE left := by have := HASH_BUF_SIZE_pos; omega
    by_cases hs : (stream.take (min HASH_BUF_SIZE left)).length < min HASH_BUF_SIZE left
    · rw [if_pos hs]
    · rw [if_neg hs]
      rw [List.length_take] at hs
      apply ih
      · omega
      · simp only [List.length_drop]; omega

/-! ### `hash::Write` driven by `write_all` over an inner writer that may write short -/

/-- the inner writer accepts a non-empty prefix of whatever it is offered and never fails -/
def AcceptsPrefix {S : Type} (innerWrite : S → Bytes → IoRes (S × Nat)) : Prop :=
  ∀ s buf, buf ≠ [] → ∃ s' n, innerWrite s buf = .ok (s', n) ∧ 0 < n ∧ n ≤ buf.length

theorem hashWrite_writeAllWith {S : Type} (f : BlockFn) (innerWrite : S → Bytes → IoRes (S × Nat))
    (hacc : AcceptsPrefix innerWrite) : ∀ (fuel : Nat) (hw : HashWrite S) (buf : Bytes),
    buf.length < fuel →
    ∃ hw', writeAllWith (HashWrite.write f innerWrite) fuel hw buf = .ok hw' ∧
      hw'.hash = hw.hash.update f buf ∨
      (buf = [] ∧ writeAllWith (HashWrite.write f innerWrite) fuel hw buf = .ok hw) := by
  intro fuel
  induction fuel with
  | zero => intro hw buf h; omega
  | succ fuel ih =>
    intro hw buf hf
    by_cases he : buf = []
    · refine ⟨hw, Or.inr ⟨he, ?_⟩⟩
      simp [writeAllWith, he]
    · obtain ⟨s', n, hiw, hn0, hnl⟩ := hacc hw.inner buf he
      have hne : buf.isEmpty = false := by
        cases buf with
        | nil => exact absurd rfl he
        | cons _ _ => rfl
      have hstep : writeAllWith (HashWrite.write f innerWrite) (fuel + 1) hw buf =
          writeAllWith (HashWrite.write f innerWrite) fuel
            { hash := hw.hash.update f (buf.take n), inner := s' } (buf.drop n) := by
        simp only [writeAllWith, hne, HashWrite.write, hiw]
        have h1 : ¬ n > buf.length := by omega
        have h2 : ¬ n = 0 := by omega
        simp [h1, h2]
      obtain ⟨hw', hres⟩ := ih { hash := hw.hash.update f (buf.take n), inner := s' } (buf.drop n)
        (by simp only [List.length_drop]; omega)
      rcases hres with ⟨h1, h2⟩ | ⟨h1, h2⟩
      · refine ⟨hw', Or.inl ⟨by rw [hstep]; exact h1, ?_⟩⟩
        rw [h2]
        simp only
        rw [Sha1.update_append, List.take_append_drop]
      · refine ⟨_, Or.inl ⟨by rw [hstep]; exact h2, ?_⟩⟩
        simp only
        have : buf.take n = buf := by
          have := List.take_append_drop n buf
          rw [h1, List.append_nil] at this
          exact this
        rw [this]

/-! ### `write_all` into a writer that accepts only part of what it is offered -/

theorem sinkContent_cons (x : Bytes) (s : List Bytes) : sinkContent (x :: s) = sinkContent s ++ x := by
  simp [sinkContent]

theorem sink_writeAllWith (maxWrite : Nat) : ∀ (fuel : Nat) (s : List Bytes) (buf : Bytes), buf.length < fuel →
    ∃ s', writeAllWith (sinkWrite maxWrite) fuel s buf = .ok s' ∧ sinkContent s' = sinkContent s ++ buf := by
  intro fuel
  induction fuel with
  | zero => intro s buf h; omega
  | succ fuel ih =>
    intro s buf hf
    cases hb : buf with
    | nil => exact ⟨s, by simp [writeAllWith], by simp⟩
    | cons a l =>
      rw [← hb]
      have hl : 0 < buf.length := by rw [hb]; simp
      have hne : buf.isEmpty = false := by rw [hb]; rfl
      -- the number of bytes this call accepts
      have hn : ∃ n, 0 < n ∧ n ≤ buf.length ∧ sinkWrite maxWrite s buf = .ok (buf.take n :: s, n) := by
        by_cases hm : maxWrite = 0
        · exact ⟨buf.length, hl, Nat.le_refl _, by simp [sinkWrite, hm]⟩
        · exact ⟨min maxWrite buf.length, by omega, Nat.min_le_right _ _, by simp [sinkWrite, hm]⟩
      obtain ⟨n, hn0, hnl, hw⟩ := hn
      obtain ⟨s', h1, h2⟩ := ih (buf.take n :: s) (buf.drop n) (by simp only [List.length_drop]; omega)
      refine ⟨s', ?_, ?_⟩
      · have g1 : ¬ n = 0 := by omega
        have g2 : ¬ n > buf.length := by omega
        simp only [writeAllWith, hne, hw, g1, g2, if_false, Bool.false_eq_true]
        exact h1
      · rw [h2, sinkContent_cons, List.append_assoc, List.take_append_drop]

/-! ## contract of `flate2::Compress` and the `write_inner` loop -/

/-- Assumed contract of the external compressor, relative to `IsStream z d` ("`z` is a complete
zlib stream with content `d`"), for calls with the output room `deflate::Write` always offers
(`BUF_SIZE`). `Inv s i o`: state `s` is what `init` becomes after consuming `i` and producing `o` in
total, and `StreamEnd` has not been reported yet (ghost relation). -/
structure CompressorOk (C : Compressor) (IsStream : Bytes → Bytes → Prop) where
  Inv : C.σ → Bytes → Bytes → Prop
  /-- bound on the number of further calls that make progress, given the input still to offer -/
  rank : C.σ → Nat → Flush → Nat
  inv_init : Inv C.init [] []
  /-- `compress` does not return `Err` before the stream has ended -/
  total : ∀ {s i o} (inp : Bytes) (fl : Flush), Inv s i o → ∃ r, C.compress s inp BUF_SIZE fl = some r
  /-- it reads at most the input and writes at most the output slice -/
  bounded : ∀ {s i o inp fl r}, Inv s i o → C.compress s inp BUF_SIZE fl = some r →
    r.consumed ≤ inp.length ∧ r.produced.length ≤ BUF_SIZE
  step : ∀ {s i o inp fl r}, Inv s i o → C.compress s inp BUF_SIZE fl = some r → r.status ≠ .streamEnd →
    Inv r.state (i ++ inp.take r.consumed) (o ++ r.produced)
  /-- `StreamEnd` is only reported for `Finish`, and then everything produced is a complete stream
  of everything consumed -/
  stream_end : ∀ {s i o inp fl r}, Inv s i o → C.compress s inp BUF_SIZE fl = some r → r.status = .streamEnd →
    fl = .finish ∧ IsStream (o ++ r.produced) (i ++ inp.take r.consumed)
  /-- with input on offer (and the writer's whole output buffer as room) a call makes progress -/
  progress_none : ∀ {s i o inp r}, Inv s i o → inp ≠ [] → C.compress s inp BUF_SIZE .none = some r →
    0 < r.consumed ∨ r.produced ≠ []
  /-- with `Finish` a call makes progress or ends the stream -/
  progress_finish : ∀ {s i o inp r}, Inv s i o → C.compress s inp BUF_SIZE .finish = some r →
    r.status = .streamEnd ∨ 0 < r.consumed ∨ r.produced ≠ []
  rank_decr : ∀ {s i o inp fl r}, Inv s i o → C.compress s inp BUF_SIZE fl = some r → r.status ≠ .streamEnd →
    (0 < r.consumed ∨ r.produced ≠ []) → rank r.state (inp.length - r.consumed) fl < rank s inp.length fl

/-- `Writer` invariant: the sink holds exactly what the compressor produced for the input `i` -/
def Writer.Ok {C : Compressor} {IsStream : Bytes → Bytes → Prop} (K : CompressorOk C IsStream)
    (w : Writer C.σ) (i : Bytes) : Prop := K.Inv w.comp i w.inner

theorem Writer.new_ok {C : Compressor} {IsStream : Bytes → Bytes → Prop} (K : CompressorOk C IsStream) :
    (Writer.new C).Ok K [] := K.inv_init

/-- the writer after one `compress` call that returned `r` -/
def Writer.after {σ : Type} (w : Writer σ) (r : Step σ) : Writer σ :=
  { comp := r.state, totalIn := w.totalIn + r.consumed, totalOut := w.totalOut + r.produced.length,
    inner := w.inner ++ r.produced }

@[simp] theorem Writer.after_comp {σ : Type} (w : Writer σ) (r : Step σ) : (w.after r).comp = r.state := rfl
@[simp] theorem Writer.after_totalIn {σ : Type} (w : Writer σ) (r : Step σ) :
    (w.after r).totalIn = w.totalIn + r.consumed := rfl
@[simp] theorem Writer.after_inner {σ : Type} (w : Writer σ) (r : Step σ) :
    (w.after r).inner = w.inner ++ r.produced := rfl

theorem writeInner_spec {C : Compressor} {IsStream : Bytes → Bytes → Prop} (K : CompressorOk C IsStream) :
    ∀ (fuel : Nat) (w : Writer C.σ) (start : Nat) (buf : Bytes) (fl : Flush) (i : Bytes),
    w.Ok K i → K.rank w.comp buf.length fl < fuel →
    ∃ w' k, writeInner C fuel w start buf fl = .ok (w', w'.totalIn - start) ∧ k ≤ buf.length ∧
      w'.totalIn = w.totalIn + k ∧
      ((fl = .none ∧ k = buf.length ∧ w'.Ok K (i ++ buf)) ∨
       (fl = .finish ∧ IsStream w'.inner (i ++ buf.take k))) := by
  intro fuel
  induction fuel with
  | zero => intro w start buf fl i _ h; omega
  | succ fuel ih =>
    intro w start buf fl i hinv hrank
    obtain ⟨r, hr⟩ := K.total buf fl hinv
    obtain ⟨hc, hp⟩ := K.bounded hinv hr
    have hnp : ¬ r.produced.length > BUF_SIZE := by omega
    have hinner : (if r.produced.length > 0 then w.inner ++ r.produced else w.inner) = w.inner ++ r.produced := by
      by_cases h0 : r.produced.length > 0
      · rw [if_pos h0]
      · rw [if_neg h0]
        have : r.produced = [] := List.eq_nil_of_length_eq_zero (by omega)
        rw [this, List.append_nil]
    by_cases hend : r.status = .streamEnd
    · obtain ⟨hfl, hstream⟩ := K.stream_end hinv hr hend
      refine ⟨(w.after r), r.consumed, ?_, hc, rfl, Or.inr ⟨hfl, hstream⟩⟩
      simp only [writeInner, hr, hnp, if_false, hend, hinner, Writer.after]
    · have hstep := K.step hinv hr hend
      have hcons : w.totalIn + r.consumed - w.totalIn = r.consumed := by omega
      have hnc : ¬ r.consumed > buf.length := by omega
      have hunf : writeInner C (fuel + 1) w start buf fl =
          (if w.totalOut + r.produced.length > w.totalOut then
            writeInner C fuel (w.after r) start
              (buf.drop r.consumed) fl
          else if w.totalIn + r.consumed > w.totalIn then
            writeInner C fuel (w.after r) start
              (buf.drop r.consumed) fl
          else .ok ((w.after r),
              w.totalIn + r.consumed - start)) := by
        simp only [writeInner, hr, hnp, if_false, hinner, hcons, hnc, Writer.after]
      by_cases hprog : 0 < r.consumed ∨ r.produced ≠ []
      · -- the loop continues
        have hrd := K.rank_decr hinv hr hend hprog
        have hcont : writeInner C (fuel + 1) w start buf fl =
            writeInner C fuel (w.after r) start
              (buf.drop r.consumed) fl := by
          rw [hunf]
          by_cases ho : w.totalOut + r.produced.length > w.totalOut
          · rw [if_pos ho]
          · rw [if_neg ho]
            have : r.produced = [] := List.eq_nil_of_length_eq_zero (by omega)
            have hci : w.totalIn + r.consumed > w.totalIn := by
              rcases hprog with h | h
              · omega
              · exact absurd this h
            rw [if_pos hci]
        obtain ⟨w', k, hw, hk, hti, hres⟩ := ih
          (w.after r) start (buf.drop r.consumed) fl (i ++ buf.take r.consumed)
          hstep (by simp only [List.length_drop, Writer.after_comp]; omega)
        simp only [List.length_drop] at hk
        refine ⟨w', r.consumed + k, by rw [hcont]; exact hw, by omega,
          by rw [hti]; simp only [Writer.after_totalIn]; omega, ?_⟩
        rcases hres with ⟨h1, h2, h3⟩ | ⟨h1, h2⟩
        · left
          refine ⟨h1, by simp only [List.length_drop] at h2; omega, ?_⟩
          rw [List.append_assoc, List.take_append_drop] at h3
          exact h3
        · right
          refine ⟨h1, ?_⟩
          rw [List.append_assoc, ← List.take_add] at h2
          exact h2
      · -- no progress: the loop returns
        have hc0 : r.consumed = 0 := by
          rcases Nat.eq_zero_or_pos r.consumed with h | h
          · exact h
          · exact absurd (Or.inl h) hprog
        have hp0 : r.produced = [] := by
          cases hpp : r.produced with
          | nil => rfl
          | cons a l => exact absurd (Or.inr (by rw [hpp]; simp)) hprog
        have hret : writeInner C (fuel + 1) w start buf fl =
            .ok ((w.after r),
              w.totalIn + r.consumed - start) := by
          rw [hunf, hc0, hp0]
          simp
        cases fl with
        | none =>
          have hbuf : buf = [] := by
            cases hb : buf with
            | nil => rfl
            | cons a l =>
              have := K.progress_none hinv (by rw [hb]; simp) hr
              exact absurd this hprog
          refine ⟨_, 0, hret, by omega, by simp only [Writer.after_totalIn, hc0], Or.inl ⟨rfl, by rw [hbuf]; rfl, ?_⟩⟩
          have := hstep
          rw [hc0, hbuf] at this
          rw [hbuf]
          simpa [Writer.Ok, Writer.after] using this
        | finish =>
          have := K.progress_finish hinv hr
          rcases this with h | h
          · exact absurd h hend
          · exact absurd h hprog

/-- `write`: one call takes the whole buffer (so `write_all` never loops) and keeps the invariant -/
theorem Writer.write_ok {C : Compressor} {IsStream : Bytes → Bytes → Prop} (K : CompressorOk C IsStream)
    (fuel : Nat) (w : Writer C.σ) (buf i : Bytes) (hinv : w.Ok K i)
    (hf : K.rank w.comp buf.length .none < fuel) :
    ∃ w', Writer.write C fuel w buf = .ok (w', buf.length) ∧ w'.Ok K (i ++ buf) := by
  obtain ⟨w', k, hw, _, hti, hres⟩ := writeInner_spec K fuel w w.totalIn buf .none i hinv hf
  rcases hres with ⟨_, h2, h3⟩ | ⟨h1, _⟩
  · refine ⟨w', ?_, h3⟩
    rw [Writer.write, hw, hti, h2]
    congr 2
    omega
  · exact absurd h1 (by simp)

/-- `flush`: the sink then holds a complete stream of everything written -/
theorem Writer.flush_ok {C : Compressor} {IsStream : Bytes → Bytes → Prop} (K : CompressorOk C IsStream)
    (fuel : Nat) (w : Writer C.σ) (i : Bytes) (hinv : w.Ok K i)
    (hf : K.rank w.comp 0 .finish < fuel) :
    ∃ w', Writer.flush C fuel w = .ok w' ∧ IsStream w'.inner i := by
  obtain ⟨w', k, hw, hk, _, hres⟩ := writeInner_spec K fuel w w.totalIn [] .finish i hinv hf
  rcases hres with ⟨h1, _, _⟩ | ⟨_, h2⟩
  · exact absurd h1 (by simp)
  · refine ⟨w', ?_, ?_⟩
    · rw [Writer.flush, hw]
    · simpa using h2

/-- write every chunk with one `write` call each (its return value must be the chunk's length),
then `flush`; the result is what the inner writer received -/
def deflateChunks (C : Compressor) (fuelW : Writer C.σ → Bytes → Nat) (fuelF : Writer C.σ → Nat) :
    Writer C.σ → List Bytes → IoRes Bytes
  | w, [] =>
    match Writer.flush C (fuelF w) w with
    | .ok w' => .ok w'.inner
    | .err => .err
    | .panic => .panic
    | .outOfFuel => .outOfFuel
  | w, c :: cs =>
    match Writer.write C (fuelW w c) w c with
    | .ok (w', n) => if n = c.length then deflateChunks C fuelW fuelF w' cs else .err
    | .err => .err
    | .panic => .panic
    | .outOfFuel => .outOfFuel

theorem deflateChunks_ok {C : Compressor} {IsStream : Bytes → Bytes → Prop} (K : CompressorOk C IsStream)
    (fuelW : Writer C.σ → Bytes → Nat) (fuelF : Writer C.σ → Nat)
    (hW : ∀ w c, K.rank w.comp c.length .none < fuelW w c) (hF : ∀ w, K.rank w.comp 0 .finish < fuelF w)
    (chunks : List Bytes) : ∀ (w : Writer C.σ) (i : Bytes), w.Ok K i →
    ∃ z, deflateChunks C fuelW fuelF w chunks = .ok z ∧ IsStream z (i ++ chunks.flatten) := by
  induction chunks with
  | nil =>
    intro w i hinv
    obtain ⟨w', h1, h2⟩ := Writer.flush_ok K (fuelF w) w i hinv (hF w)
    exact ⟨w'.inner, by simp only [deflateChunks, h1], by simpa using h2⟩
  | cons c cs ih =>
    intro w i hinv
    obtain ⟨w', h1, h2⟩ := Writer.write_ok K (fuelW w c) w c i hinv (hW w c)
    obtain ⟨z, h3, h4⟩ := ih w' (i ++ c) h2
    refine ⟨z, ?_, ?_⟩
    · simp only [deflateChunks, h1, if_true]
      exact h3
    · simpa [List.append_assoc] using h4

/-! ## contract of `flate2::Decompress` and the `inflate::read` loop -/

/-- Assumed contract of the external decompressor. `Inv s z d i o`: `s` is `init` after being fed
the first `i` bytes of the valid stream `z` (content `d`), having produced the first `o` bytes of
`d`, and not yet having reported `StreamEnd` (ghost relation). -/
structure DecompressorOk (D : Decompressor) (IsStream : Bytes → Bytes → Prop) where
  Inv : D.σ → Bytes → Bytes → Nat → Nat → Prop
  stream_ne : ∀ {z d}, IsStream z d → z ≠ []
  inv_init : ∀ {z d}, IsStream z d → Inv D.init z d 0 0
  /-- any call (with or without `Finish`) that returns `Ok`, fed with a prefix of what is left of
  the stream: it stays within its slices, what it writes is the next piece of the content, and
  `StreamEnd` is reported exactly at the end of stream and content -/
  step : ∀ {s z d i o inp cap fin r}, Inv s z d i o → inp <+: z.drop i → D.decompress s inp cap fin = some r →
    r.consumed ≤ inp.length ∧ r.produced.length ≤ cap ∧ r.produced <+: d.drop o ∧
    (r.status ≠ .streamEnd → Inv r.state z d (i + r.consumed) (o + r.produced.length)) ∧
    (r.status = .streamEnd → i + r.consumed = z.length ∧ o + r.produced.length = d.length)
  /-- without `Finish`, a prefix of a valid stream never gives `Err` -/
  total : ∀ {s z d i o inp} (cap : Nat), Inv s z d i o → inp <+: z.drop i →
    ∃ r, D.decompress s inp cap false = some r
  /-- with input on offer and room in the output a call makes progress (it may return early, e.g.
  after only handing out bytes it had buffered internally — miniz_oxide does that) -/
  progress : ∀ {s z d i o inp cap r}, Inv s z d i o → inp <+: z.drop i → inp ≠ [] → 0 < cap →
    D.decompress s inp cap false = some r → r.status ≠ .streamEnd → 0 < r.consumed ∨ r.produced ≠ []
  /-- end detection: a call that consumed all it was offered and still has room in the output but does
  not report `StreamEnd` has not seen the whole stream yet -/
  end_detect : ∀ {s z d i o inp cap r}, Inv s z d i o → inp <+: z.drop i → D.decompress s inp cap false = some r →
    r.status ≠ .streamEnd → r.consumed = inp.length → r.produced.length < cap → i + inp.length < z.length
  /-- the first call on a stream is greedy: before the end it returns only with the output slice full
  or the offered input used up -/
  greedy_init : ∀ {z d inp cap r}, IsStream z d → inp <+: z → D.decompress D.init inp cap false = some r →
    r.status ≠ .streamEnd → r.produced.length = cap ∨ r.consumed = inp.length
  /-- with the whole rest of the stream on offer and room for the whole rest of the content, a call
  ends the stream or makes progress (used by the loop of `loose::Store::find_inner`) -/
  finish_progress : ∀ {s z d i o cap r}, Inv s z d i o → d.length - o ≤ cap →
    D.decompress s (z.drop i) cap false = some r → r.status ≠ .streamEnd → 0 < r.consumed ∨ r.produced ≠ []
  /-- `BufError` (without `Finish`) means nothing happened -/
  buf_error : ∀ {s inp cap r}, D.decompress s inp cap false = some r → r.status = .bufError →
    r.consumed = 0 ∧ r.produced = []

theorem prefix_take_eq {l p : Bytes} (h : p <+: l) : p = l.take p.length := List.prefix_iff_eq_take.mp h

theorem BufRead.consume_spec (rd : BufRead) (n : Nat) (hne : ∀ c ∈ rd, c ≠ []) (hn : n ≤ rd.fillBuf.length) :
    ∃ rd', rd.consume n = some rd' ∧ rd'.flatten = rd.flatten.drop n ∧ (∀ c ∈ rd', c ≠ []) ∧
      rd'.total + n = rd.total := by
  cases rd with
  | nil =>
    simp only [BufRead.fillBuf, List.length_nil, Nat.le_zero] at hn
    subst hn
    exact ⟨[], by simp [BufRead.consume], by simp, by simp, by simp [BufRead.total]⟩
  | cons c rest =>
    simp only [BufRead.fillBuf] at hn
    by_cases h1 : n = c.length
    · refine ⟨rest, ?_, ?_, ?_, ?_⟩
      · simp [BufRead.consume, h1]
      · simp [h1]
      · intro x hx; exact hne x (by simp [hx])
      · simp [BufRead.total, h1]; omega
    · refine ⟨c.drop n :: rest, ?_, ?_, ?_, ?_⟩
      · have : ¬ n > c.length := by omega
        simp [BufRead.consume, h1, this]
      · simp only [List.flatten_cons]
        rw [List.drop_append_of_le_length hn]
      · intro x hx
        simp only [List.mem_cons] at hx
        rcases hx with hx | hx
        · subst hx
          intro hd
          have := congrArg List.length hd
          simp only [List.length_drop, List.length_nil] at this
          omega
        · exact hne x (by simp [hx])
      · simp only [BufRead.total, List.map_cons, List.sum_cons, List.length_drop]; omega

/-- the `inflate::read` loop on (the rest of) a valid stream, for any chunking of the input: it
returns the next `dstLen` bytes of the content (all that is left if `dst` is longer) -/
theorem inflateReadLoop_valid {D : Decompressor} {IsStream : Bytes → Bytes → Prop} (K : DecompressorOk D IsStream)
    (z d : Bytes) : ∀ (fuel : Nat) (s : D.σ) (rd : BufRead) (dstLen : Nat) (acc : Bytes) (i o : Nat),
    K.Inv s z d i o → rd.flatten = z.drop i → (∀ c ∈ rd, c ≠ []) → i < z.length → o ≤ d.length →
    acc = d.take o → rd.total + dstLen < fuel →
    ∃ r, inflateReadLoop D fuel s rd dstLen acc = .ok r ∧ r.out = d.take (o + dstLen) := by
  intro fuel
  induction fuel with
  | zero => intro s rd dstLen acc i o _ _ _ _ _ _ h; omega
  | succ fuel ih =>
    intro s rd dstLen acc i o hinv hrd hne hi ho hacc hfuel
    -- the current buffer is a non-empty prefix of the rest of the stream
    have hrdne : rd ≠ [] := by
      intro h
      rw [h] at hrd
      have := congrArg List.length hrd
      simp only [List.flatten_nil, List.length_nil, List.length_drop] at this
      omega
    obtain ⟨c, rest, hrdc⟩ := List.exists_cons_of_ne_nil hrdne
    have hcne : c ≠ [] := hne c (by rw [hrdc]; simp)
    have hfill : rd.fillBuf = c := by rw [hrdc]; rfl
    have hpre : c <+: z.drop i := by
      rw [← hrd, hrdc, List.flatten_cons]
      exact List.prefix_append _ _
    have heof : c.isEmpty = false := by
      cases c with
      | nil => exact absurd rfl hcne
      | cons _ _ => rfl
    obtain ⟨r, hr⟩ := K.total dstLen hinv hpre
    obtain ⟨hcons, hprod, hppre, hnext, hend⟩ := K.step hinv hpre hr
    have hnp : ¬ r.produced.length > dstLen := by omega
    obtain ⟨rd', hcs, hrd', hne', htot⟩ := BufRead.consume_spec rd r.consumed hne (by rw [hfill]; exact hcons)
    have hpeq : r.produced = (d.drop o).take r.produced.length := prefix_take_eq hppre
    have hplen : o + r.produced.length ≤ d.length := by
      have := List.IsPrefix.length_le hppre
      simp only [List.length_drop] at this
      omega
    have hacc' : acc ++ r.produced = d.take (o + r.produced.length) := by
      rw [hacc, List.take_add]
      congr 1
    by_cases hst : r.status = .streamEnd
    · obtain ⟨_, hdl⟩ := hend hst
      refine ⟨{ state := r.state, rd := rd', out := acc ++ r.produced }, ?_, ?_⟩
      · simp only [inflateReadLoop, hfill, heof, hr, hnp, if_false, hcs, hst]
      · simp only
        rw [hacc', List.take_of_length_le (by omega), List.take_of_length_le (by omega)]
    · have hinv' := hnext hst
      have hunf : inflateReadLoop D (fuel + 1) s rd dstLen acc =
          (if (false || decide (dstLen - r.produced.length = 0)) = true then
             .ok { state := r.state, rd := rd', out := acc ++ r.produced }
           else if (r.consumed ≠ 0 || r.produced.length ≠ 0) = true then
             inflateReadLoop D fuel r.state rd' (dstLen - r.produced.length) (acc ++ r.produced)
           else .panic) := by
        simp only [inflateReadLoop, hfill, heof, hr, hnp, if_false, hcs]
      by_cases hfull : dstLen - r.produced.length = 0
      · refine ⟨{ state := r.state, rd := rd', out := acc ++ r.produced }, ?_, ?_⟩
        · rw [hunf]; simp [hfull]
        · simp only
          rw [hacc']
          have : r.produced.length = dstLen := by omega
          rw [this]
      · have hcpos : 0 < c.length := by
          cases c with
          | nil => exact absurd rfl hcne
          | cons _ _ => simp
        have hprog := K.progress hinv hpre hcne (by omega) hr hst
        have hi' : i + r.consumed < z.length := by
          have hcl := List.IsPrefix.length_le hpre
          simp only [List.length_drop] at hcl
          by_cases hall : r.consumed = c.length
          · have := K.end_detect hinv hpre hr hst hall (by omega)
            omega
          · omega
        have hgo : inflateReadLoop D (fuel + 1) s rd dstLen acc =
            inflateReadLoop D fuel r.state rd' (dstLen - r.produced.length) (acc ++ r.produced) := by
          rw [hunf]
          have h1 : ¬ ((false || decide (dstLen - r.produced.length = 0)) = true) := by simp [hfull]
          have h2 : (r.consumed ≠ 0 || r.produced.length ≠ 0) = true := by
            rcases hprog with h | h
            · have : r.consumed ≠ 0 := by omega
              simp [this]
            · have : r.produced.length ≠ 0 := by
                intro h0
                exact h (List.eq_nil_of_length_eq_zero h0)
              simp [this]
          rw [if_neg h1, if_pos h2]
        have hdec : rd'.total + (dstLen - r.produced.length) < rd.total + dstLen := by
          rcases hprog with h | h
          · omega
          · have : r.produced.length ≠ 0 := by
              intro h0
              exact h (List.eq_nil_of_length_eq_zero h0)
            omega
        obtain ⟨res, hres, hout⟩ := ih r.state rd' (dstLen - r.produced.length) (acc ++ r.produced)
          (i + r.consumed) (o + r.produced.length) hinv'
          (by rw [hrd', hrd, List.drop_drop]) hne' hi' hplen hacc' (by omega)
        refine ⟨res, by rw [hgo]; exact hres, ?_⟩
        rw [hout]
        congr 1
        omega

/-- `inflate::read` of a complete valid stream, cut into any non-empty chunks, into a buffer of
`dstLen` bytes -/
theorem inflateRead_valid {D : Decompressor} {IsStream : Bytes → Bytes → Prop} (K : DecompressorOk D IsStream)
    (z d : Bytes) (hz : IsStream z d) (rd : BufRead) (hrd : rd.flatten = z) (hne : ∀ c ∈ rd, c ≠ [])
    (dstLen : Nat) : ∃ r, inflateRead D D.init rd dstLen = .ok r ∧ r.out = d.take dstLen := by
  have hzne := K.stream_ne hz
  have hzl : 0 < z.length := by
    cases z with
    | nil => exact absurd rfl hzne
    | cons _ _ => simp
  obtain ⟨r, h1, h2⟩ := inflateReadLoop_valid K z d (rd.total + dstLen + 2) D.init rd dstLen [] 0 0
    (K.inv_init hz) (by simpa using hrd) hne hzl (Nat.zero_le _) (by simp) (by omega)
  exact ⟨r, h1, by simpa using h2⟩

end GixModel.C56
