import GixModel.Model.C48
/-
C48 — the tokenizer model never reaches a panic site and never runs out of loop fuel.
-/
namespace GixModel.C48
open GixModel

/-- the run ended by returning (`ok` or a parse error), not by a panic or by exhausting the fuel -/
def Safe (r : Res) : Prop := (∀ p, r.out ≠ .panic p) ∧ r.out ≠ .fuel

theorem finish_err_safe (s : St) (e : Err) : Safe (s.finish (.err e)) := by
  constructor
  · intro p h; cases h
  · intro h; cases h

theorem finish_ok_safe (s : St) : Safe (s.finish .ok) := by
  constructor
  · intro p h; cases h
  · intro h; cases h

theorem callK_safe (D : Delegate) (s : St) (c : Call) (k : St → Res) (hk : ∀ s', Safe (k s')) :
    Safe (callK D s c k) := by
  unfold callK
  split
  · exact hk _
  · exact finish_err_safe _ _

/-! ### number parsers do not panic -/

theorem parseIsize_ne_nil {input : Bytes} {n : Int} (h : parseIsize input = some n) : input ≠ [] := by
  intro hnil; subst hnil
  simp [parseIsize, allDigits] at h

theorem parseUsize_ne_nil {input : Bytes} {n : Nat} (h : parseUsize input = some n) : input ≠ [] := by
  intro hnil; subst hnil
  simp [parseUsize, stripPlus, allDigits] at h

theorem tryParseI_no_panic (input : Bytes) (p : PanicSite) : tryParseI input ≠ .panic p := by
  unfold tryParseI
  cases h : parseIsize input with
  | none => simp
  | some n =>
    have hne := parseIsize_ne_nil h
    cases input with
    | nil => exact absurd rfl hne
    | cons b rest =>
      simp only
      split
      · split <;> simp
      · simp

theorem tryParseU_no_panic (input : Bytes) (p : PanicSite) : tryParseU input ≠ .panic p := by
  unfold tryParseU
  cases h : parseUsize input with
  | none => simp
  | some n =>
    have hne := parseUsize_ne_nil h
    cases input with
    | nil => exact absurd rfl hne
    | cons b rest =>
      simp only
      split
      · split <;> simp
      · simp

theorem tryParseUsize_no_panic (input : Bytes) (p : PanicSite) : tryParseUsize input ≠ .panic p := by
  unfold tryParseUsize
  split
  · simp
  · simp only
    split
    · simp
    · cases h : tryParseU (List.takeWhile isDigit input) with
      | none => simp
      | some n => simp
      | err e => simp
      | panic q => exact absurd h (tryParseU_no_panic _ q)

theorem tryParseIsize_no_panic (input : Bytes) (p : PanicSite) : tryParseIsize input ≠ .panic p := by
  unfold tryParseIsize
  split
  · simp
  · simp only
    split
    · simp
    · split
      · simp
      · cases h : tryParseI (List.takeWhile (fun b => isDigit b || b == 45) input) with
        | none => simp
        | some n => simp
        | err e => simp
        | panic q => exact absurd h (tryParseI_no_panic _ q)

/-- sign facts of `isize::from_str` as modelled -/
theorem parseIsize_sign {input : Bytes} {n : Int} (h : parseIsize input = some n) :
    (input.head? = some 45 → n ≤ 0) ∧ (input.head? ≠ some 45 → 0 ≤ n) := by
  unfold parseIsize at h
  split at h
  · -- '-' :: ds
    split at h
    · simp only [Option.some.injEq] at h
      subst h
      constructor
      · intro _; omega
      · intro hh; simp at hh
    · cases h
  · split at h
    · simp only [Option.some.injEq] at h
      subst h
      constructor
      · intro hh; simp at hh
      · intro _; omega
    · cases h
  · rename_i _ h1 h2
    split at h
    · simp only [Option.some.injEq] at h
      subst h
      constructor
      · intro hh
        cases input with
        | nil => simp at hh
        | cons b r =>
          simp only [List.head?_cons, Option.some.injEq] at hh
          subst hh
          exact absurd rfl (h1 r)
      · intro _; omega
    · cases h

theorem takeWhile_head {p : UInt8 → Bool} {l : Bytes} (h : (l.takeWhile p).isEmpty = false) :
    (l.takeWhile p).head? = l.head? := by
  cases l with
  | nil => simp at h
  | cons b r =>
    by_cases hp : p b = true
    · simp [hp]
    · simp [hp] at h

theorem tryParseI_sign {input : Bytes} {n : Int} (h : tryParseI input = .some n) :
    (input.head? = some 45 → n < 0) ∧ (input.head? ≠ some 45 → 0 ≤ n) := by
  unfold tryParseI at h
  cases hp : parseIsize input with
  | none => simp [hp] at h
  | some m =>
    have hs := parseIsize_sign hp
    simp only [hp] at h
    by_cases h0 : (m == 0) = true
    · simp only [h0, if_true] at h
      cases input with
      | nil => simp at h
      | cons b r =>
        simp only at h
        by_cases hb : (b == 45) = true
        · simp [hb] at h
        · simp only [hb] at h
          simp only [Bool.false_eq_true, if_false, TryNum.some.injEq] at h
          subst h
          constructor
          · intro hh
            simp only [List.head?_cons, Option.some.injEq] at hh
            subst hh
            simp at hb
          · intro hh; exact hs.2 hh
    · simp only [h0, Bool.false_eq_true, if_false, TryNum.some.injEq] at h
      subst h
      have hm : m ≠ 0 := by simpa using h0
      constructor
      · intro hh; have := hs.1 hh; omega
      · intro hh; exact hs.2 hh

/-- what `try_parse_isize` can return: the `negative` flag agrees with the sign, and the consumed
count is the length of a prefix of the input -/
theorem tryParseIsize_some {input : Bytes} {n : Int} {neg : Bool} {c : Nat}
    (h : tryParseIsize input = .some (n, neg, c)) :
    (neg = true → n < 0) ∧ (neg = false → 0 ≤ n) := by
  unfold tryParseIsize at h
  split at h
  · cases h
  · rename_i hplus
    simp only at h
    split at h
    · cases h
    · rename_i hne
      split at h
      · simp only [TryNum.some.injEq, Prod.mk.injEq] at h
        obtain ⟨h1, h2, _⟩ := h
        subst h1; subst h2
        constructor
        · intro _; decide
        · intro hh; cases hh
      · rename_i hone
        cases hI : tryParseI (List.takeWhile (fun b => isDigit b || b == 45) input) with
        | none => simp [hI] at h
        | err e => simp [hI] at h
        | panic q => simp [hI] at h
        | some m =>
          simp only [hI, TryNum.some.injEq, Prod.mk.injEq] at h
          obtain ⟨h1, h2, _⟩ := h
          subst h1
          have hs := tryParseI_sign hI
          have hhead := takeWhile_head (p := fun b => isDigit b || b == 45) (l := input)
            (by simpa using hne)
          rw [hhead] at hs
          constructor
          · intro hn
            rw [← h2] at hn
            exact hs.1 (by simpa using hn)
          · intro hn
            rw [← h2] at hn
            exact hs.2 (by simpa using hn)

/-! ### `parens` consumes input -/

theorem parensGo_length : ∀ (input : Bytes) (d : Nat) (ign : Bool) (acc inner rest : Bytes),
    parensGo d ign acc input = some (inner, rest) → rest.length < input.length := by
  intro input
  induction input with
  | nil => intro d ign acc inner rest h; simp [parensGo] at h
  | cons b tl ih =>
    intro d ign acc inner rest h
    unfold parensGo at h
    simp only [List.length_cons]
    split at h
    · split at h
      · have := ih _ _ _ _ _ h; omega
      · have := ih _ _ _ _ _ h; omega
    · split at h
      · split at h
        · have := ih _ _ _ _ _ h; omega
        · split at h
          · simp only [Option.some.injEq, Prod.mk.injEq] at h
            rw [← h.2]; omega
          · have := ih _ _ _ _ _ h; omega
      · split at h
        · split at h
          · have := ih _ _ _ _ _ h; omega
          · have := ih _ _ _ _ _ h; omega
        · have := ih _ _ _ _ _ h; omega

theorem parens_found_length {input inner rest : Bytes} (h : parens input = .found inner rest) :
    rest.length < input.length := by
  unfold parens at h
  split at h
  · rename_i tl
    cases hg : parensGo 1 false [] tl with
    | none => simp [hg] at h
    | some ir =>
      obtain ⟨i, r⟩ := ir
      simp only [hg, Parens.found.injEq] at h
      have := parensGo_length _ _ _ _ _ _ hg
      rw [← h.2]
      simp only [List.length_cons]; omega
  · cases h

/-! ### `navigate` is safe when the continuation is -/

theorem navigate_safe (D : Delegate) : ∀ (fuel : Nat) (s : St) (input : Bytes) (k : St → Bytes → Res),
    input.length < fuel → (∀ s' r, Safe (k s' r)) → Safe (navigate D fuel s input k) := by
  intro fuel
  induction fuel with
  | zero => intro s input k h; omega
  | succ fuel ih =>
    intro s input k hlen hk
    cases input with
    | nil => simp only [navigate]; exact hk _ _
    | cons b past =>
      simp only [List.length_cons] at hlen
      have hpast : past.length < fuel := by omega
      have hdrop : ∀ c, (past.drop c).length < fuel := by
        intro c; simp only [List.length_drop]; omega
      simp only [navigate]
      split
      · -- '~'
        cases hU : tryParseUsize past with
        | err e => exact finish_err_safe _ _
        | panic p => exact absurd hU (tryParseUsize_no_panic _ p)
        | none => exact callK_safe _ _ _ _ (fun s' => ih _ _ _ hpast hk)
        | some nc =>
          obtain ⟨n, c⟩ := nc
          simp only
          split
          · exact callK_safe _ _ _ _ (fun s' => ih _ _ _ (hdrop c) hk)
          · exact ih _ _ _ (hdrop c) hk
      · split
        · -- '^'
          cases hI : tryParseIsize past with
          | err e => exact finish_err_safe _ _
          | panic p => exact absurd hI (tryParseIsize_no_panic _ p)
          | some nnc =>
            obtain ⟨n, neg, c⟩ := nnc
            have hsign := tryParseIsize_some hI
            simp only
            split
            · rename_i hneg
              have hn := hsign.1 hneg
              split
              · exact finish_err_safe _ _
              · split
                · omega
                · apply callK_safe; intro s1
                  apply callK_safe; intro s2
                  split
                  · apply callK_safe; intro s3; exact hk _ _
                  · split
                    · apply callK_safe; intro s3; exact hk _ _
                    · exact finish_err_safe _ _
            · rename_i hneg
              have hn := hsign.2 (by simpa using hneg)
              split
              · exact callK_safe _ _ _ _ (fun s' => ih _ _ _ (hdrop c) hk)
              · split
                · omega
                · exact callK_safe _ _ _ _ (fun s' => ih _ _ _ (hdrop c) hk)
          | none =>
            simp only
            cases hP : parens past with
            | unclosed => exact finish_err_safe _ _
            | found inner rest =>
              have hr : rest.length < fuel := by
                have := parens_found_length hP; omega
              simp only
              split
              · split
                · exact finish_err_safe _ _
                · split
                  · exact callK_safe _ _ _ _ (fun s' => ih _ _ _ hr hk)
                  · exact ih _ _ _ hr hk
              · split
                · exact callK_safe _ _ _ _ (fun s' => ih _ _ _ hr hk)
                · exact finish_err_safe _ _
            | notBrace =>
              simp only
              split
              · apply callK_safe; intro s1; exact hk _ _
              · apply callK_safe; intro s1; exact hk _ _
              · exact callK_safe _ _ _ _ (fun s' => ih _ _ _ hpast hk)
        · split
          · apply callK_safe; intro s1; exact hk _ _
          · exact hk _ _

end GixModel.C48

namespace GixModel.C48
open GixModel

/-! ### `try_set_prefix` is only ever called with ASCII -/

theorem isHexDigit_lt (b : UInt8) (h : isHexDigit b = true) : b < 128 := by
  simp only [isHexDigit, Bool.or_eq_true, Bool.and_eq_true, decide_eq_true_eq, UInt8.le_iff_toNat_le] at h
  rw [UInt8.lt_iff_toNat_lt]
  have : (128 : UInt8).toNat = 128 := rfl
  simp at h
  omega

theorem allHex_ascii (l : Bytes) (h : l.all isHexDigit = true) : l.all (fun b => decide (b < 128)) = true := by
  rw [List.all_eq_true] at h ⊢
  intro b hb
  simpa using isHexDigit_lt b (h b hb)

theorem trySetPrefix_no_panic (D : Delegate) (s : St) (name : Bytes) (hint : Hint)
    (h : name.all (fun b => decide (b < 128)) = true) : (trySetPrefix D s name hint).2 ≠ .panic := by
  unfold trySetPrefix
  simp only [h, if_true]
  split
  · simp
  · simp only
    split <;> simp

theorem hexStep_isSome {hex : Option Nat} {b : UInt8} (h : (hexStep hex b).isSome = true) :
    hex.isSome = true ∧ isHexDigit b = true := by
  unfold hexStep at h
  cases hex with
  | none => simp at h
  | some n =>
    by_cases hb : isHexDigit b = true
    · exact ⟨rfl, hb⟩
    · simp [hb] at h

theorem scan_ascii : ∀ (input : Bytes) (atStart : Bool) (hex : Option Nat) (acc : Bytes),
    (hex.isSome = true → acc.all (fun b => decide (b < 128)) = true) →
    ((scan atStart hex acc input).2.2.isSome = true →
      (scan atStart hex acc input).1.all (fun b => decide (b < 128)) = true) := by
  intro input
  induction input with
  | nil =>
    intro atStart hex acc hacc
    simp only [scan, List.all_reverse]
    exact hacc
  | cons b rest ih =>
    intro atStart hex acc hacc
    unfold scan
    split
    · rename_i hb
      have hb' : b = 64 := by simpa using hb
      split
      · simp only [List.all_reverse]; exact hacc
      · apply ih
        intro hs
        simp only [List.all_cons, hacc hs, Bool.and_true]
        subst hb'; decide
    · split
      · rename_i hsep
        split
        · simp only [List.all_reverse]; exact hacc
        · apply ih
          intro hs
          rename_i hdot
          have hb46 : b = 46 := by
            simp only [bne_iff_ne, ne_eq, Bool.or_eq_true, decide_eq_true_eq, not_or, Decidable.not_not] at hdot
            exact hdot.1
          simp only [List.all_cons, hacc hs, Bool.and_true]
          subst hb46; decide
      · apply ih
        intro hs
        have := hexStep_isSome hs
        simp only [List.all_cons, hacc this.1, Bool.and_true]
        simpa using isHexDigit_lt b this.2

theorem findG_hex : ∀ (l : List Bytes) (c : Bytes) (left : List Bytes),
    findG l = some (c, left) → c.all isHexDigit = true := by
  intro l
  induction l with
  | nil => intro c left h; simp [findG] at h
  | cons t ts ih =>
    intro c left h
    unfold findG at h
    cases hg : isGHex t with
    | none => simp only [hg] at h; exact ih _ _ h
    | some c' =>
      simp only [hg, Option.some.injEq, Prod.mk.injEq] at h
      obtain ⟨h1, _⟩ := h
      subst h1
      unfold isGHex at hg
      split at hg
      · split at hg
        · rename_i hall
          simp only [Option.some.injEq] at hg
          subst hg; exact hall
        · cases hg
      · cases hg

theorem longDescribe_hex {name c : Bytes} {h : Hint} (hl : longDescribe name = some (c, h)) :
    c.all isHexDigit = true := by
  unfold longDescribe at hl
  cases hf : findG (splitOn 45 name).reverse with
  | none => simp [hf] at hl
  | some cl =>
    obtain ⟨c', left⟩ := cl
    simp only [hf] at hl
    split at hl
    · simp only [Option.some.injEq, Prod.mk.injEq] at hl
      rw [← hl.1]
      exact findG_hex _ _ _ hf
    · cases hl

theorem shortDescribe_hex {name c : Bytes} (hs : shortDescribe name = some c) :
    c.all isHexDigit = true := by
  unfold shortDescribe at hs
  split at hs
  · split at hs
    · rename_i hall
      simp only [Option.some.injEq] at hs
      subst hs; exact hall
    · cases hs
  · cases hs

/-! ### `revision` and `parse` -/

theorem afterName_safe (D : Delegate) (dateOk : Bytes → Bool) (s : St) (name : Bytes) (hasRef z : Bool)
    (rest : Bytes) (k : St → Bytes → Res) (hk : ∀ s' r, Safe (k s' r)) :
    Safe (afterName D dateOk s name hasRef z rest k) := by
  unfold afterName
  split
  · rename_i pastSep
    cases hP : parens pastSep with
    | unclosed => exact finish_err_safe _ _
    | notBrace => exact finish_err_safe _ _
    | found nav rest2 =>
      simp only
      have hnav : ∀ s', Safe (navigate D (rest2.length + 1) s' rest2 k) :=
        fun s' => navigate_safe D _ _ _ _ (by omega) hk
      cases hI : tryParseI nav with
      | err e => exact finish_err_safe _ _
      | panic p => exact absurd hI (tryParseI_no_panic _ p)
      | some n =>
        simp only
        split
        · split
          · exact callK_safe _ _ _ _ hnav
          · exact finish_err_safe _ _
        · split
          · exact callK_safe _ _ _ _ hnav
          · exact finish_err_safe _ _
      | none =>
        simp only
        split
        · split
          · exact callK_safe _ _ _ _ hnav
          · exact finish_err_safe _ _
        · split
          · split
            · exact callK_safe _ _ _ _ hnav
            · exact finish_err_safe _ _
          · exact finish_err_safe _ _
  · split
    · exact finish_err_safe _ _
    · exact navigate_safe D _ _ _ _ (by omega) hk

theorem refStep_no_panic (D : Delegate) (s : St) (name : Bytes) : (refStep D s name).2 ≠ .panic := by
  unfold refStep
  split
  · simp
  · split <;> simp

theorem describeCand_hex {name c : Bytes} {h : Hint} (hc : describeCand name = some (c, h)) :
    c.all isHexDigit = true := by
  unfold describeCand at hc
  cases hl : longDescribe name with
  | some ch' =>
    simp only [hl, Option.some.injEq] at hc
    subst hc
    exact longDescribe_hex hl
  | none =>
    simp only [hl] at hc
    cases hsd : shortDescribe name with
    | none => simp [hsd] at hc
    | some c' =>
      simp only [hsd, Option.map_some, Option.some.injEq, Prod.mk.injEq] at hc
      rw [← hc.1]
      exact shortDescribe_hex hsd

theorem describeStep_no_panic (D : Delegate) (s : St) (name : Bytes) :
    (describeStep D s name).2 ≠ .panic := by
  unfold describeStep
  cases hc : describeCand name with
  | none => exact refStep_no_panic _ _ _
  | some ch =>
    obtain ⟨c, h⟩ := ch
    simp only
    have hp := trySetPrefix_no_panic D s c h (allHex_ascii _ (describeCand_hex hc))
    generalize trySetPrefix D s c h = p at hp
    obtain ⟨s', r⟩ := p
    cases r with
    | panic => exact absurd rfl hp
    | yes => simp
    | no => exact refStep_no_panic _ _ _

theorem nameChain_no_panic (D : Delegate) (s : St) (name : Bytes) (hex : Option Nat)
    (hascii : hex.isSome = true → name.all (fun b => decide (b < 128)) = true) :
    (nameChain D s name hex).2 ≠ .panic := by
  unfold nameChain
  split
  · rename_i hge
    have hs : hex.isSome = true := by
      cases hex with
      | none => simp at hge
      | some n => rfl
    have hp := trySetPrefix_no_panic D s name .none (hascii hs)
    generalize trySetPrefix D s name .none = p at hp
    obtain ⟨s', r⟩ := p
    cases r with
    | panic => exact absurd rfl hp
    | yes => simp
    | no => exact describeStep_no_panic _ _ _
  · exact describeStep_no_panic _ _ _

theorem revision_safe (D : Delegate) (dateOk : Bytes → Bool) (s : St) (input : Bytes)
    (k : St → Bytes → Res) (hk : ∀ s' r, Safe (k s' r)) :
    Safe (revision D dateOk s input k) := by
  unfold revision
  split
  · exact finish_err_safe _ _
  · exact finish_err_safe _ _
  · split
    · exact finish_err_safe _ _
    · split
      · exact finish_err_safe _ _
      · exact callK_safe _ _ _ _ (fun _ => hk _ _)
  · exact callK_safe _ _ _ _ (fun _ => hk _ _)
  · exact callK_safe _ _ _ _ (fun _ => hk _ _)
  · exact callK_safe _ _ _ _ (fun _ => hk _ _)
  · exact callK_safe _ _ _ _ (fun _ => hk _ _)
  · exact callK_safe _ _ _ _ (fun _ => hk _ _)
  · -- the general case
    have hsc := scan_ascii input true (some 0) [] (by intro _; rfl)
    generalize scan true (some 0) [] input = sc at hsc
    obtain ⟨name, rest, hex⟩ := sc
    simp only at hsc
    unfold revisionMain
    simp only
    split
    · apply callK_safe; intro s1
      split
      · exact hk _ _
      · exact afterName_safe _ _ _ _ _ _ _ _ hk
    · have hnp := nameChain_no_panic D s name hex hsc
      generalize nameChain D s name hex = nc at hnp
      obtain ⟨s', r⟩ := nc
      cases r with
      | panic => exact absurd rfl hnp
      | refused => exact finish_err_safe _ _
      | ok hasRef => exact afterName_safe _ _ _ _ _ _ _ _ hk

theorem finishParse_safe (s : St) (input : Bytes) : Safe (finishParse s input) := by
  unfold finishParse
  split
  · exact finish_ok_safe _
  · exact finish_err_safe _ _

theorem parseSecond_safe (D : Delegate) (dateOk : Bytes → Bool) (kind : SKind) (rest2 : Bytes) (s : St) :
    Safe (parseSecond D dateOk kind rest2 s) := by
  unfold parseSecond
  apply callK_safe; intro s3
  apply revision_safe; intro s4 r4
  split
  · exact finishParse_safe _ _
  · exact callK_safe _ _ _ _ (fun _ => finishParse_safe _ _)

theorem parseStart_safe (D : Delegate) (dateOk : Bytes → Bool) (s : St) (input : Bytes)
    (prevKind : Option SKind) : Safe (parseStart D dateOk s input prevKind) := by
  unfold parseStart
  apply revision_safe
  intro s' r
  unfold parseAfterFirst
  split
  · split
    · exact finish_ok_safe _
    · exact finish_err_safe _ _
  · split
    · split
      · exact finish_err_safe _ _
      · split
        · exact parseSecond_safe _ _ _ _ _
        · exact callK_safe _ _ _ _ (parseSecond_safe _ _ _ _)
    · exact finishParse_safe _ _

theorem tokenize_safe (D : Delegate) (dateOk : Bytes → Bool) (input : Bytes) :
    Safe (tokenize D dateOk input) := by
  unfold tokenize
  split
  · exact callK_safe _ _ _ _ (fun _ => parseStart_safe _ _ _ _ _)
  · exact parseStart_safe _ _ _ _ _

end GixModel.C48
