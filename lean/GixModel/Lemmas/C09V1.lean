import GixModel.Lemmas.C09Bytes
import GixModel.Lemmas.C09Total
import GixModel.Lemmas.C09Lookup
/-
C09 helper lemmas, part 12: the version-1 index (what `git index-pack --index-version=1` writes:
fan-out, then one 24-byte record `offset32 ++ id` per object, then the two checksums) read by
`File.at` and the V1 branches of the accessors.
-/
namespace GixModel.C09
open GixModel

/-- the V1 file: fan-out table, records, pack checksum, index checksum -/
def encodeV1 (fan : List Nat) (recs : List (Nat × Bytes)) (ph ih : Bytes) : Bytes :=
  fan.flatMap be32 ++ ((recs.map (fun r => be32 r.1 ++ r.2)).flatten ++ (ph ++ ih))

structure V1Ok (fan : List Nat) (recs : List (Nat × Bytes)) : Prop where
  fanLen : fan.length = 256
  fanU32 : ∀ v ∈ fan, v < 2147483648
  fanMono : fanMonotone fan = true
  fanLast : fan[255]? = some recs.length
  ids20 : ∀ r ∈ recs, r.2.length = 20
  ofsU32 : ∀ r ∈ recs, r.1 < 4294967296

theorem recs24 {recs : List (Nat × Bytes)} (h : ∀ r ∈ recs, r.2.length = 20) :
    ∀ a ∈ recs.map (fun r => be32 r.1 ++ r.2), a.length = 24 := by
  intro a ha
  obtain ⟨r, hr, rfl⟩ := List.mem_map.mp ha
  simp [be32_length, h r hr]

/-- a field inside the `i`-th fixed-width record -/
theorem slice_in_record {w : Nat} (xss : List Bytes) (hw : ∀ a ∈ xss, a.length = w) (i : Nat) (hi : i < xss.length)
    (rest : Bytes) (a b : Nat) (hab : a + b ≤ w) :
    slice (xss.flatten ++ rest) (i * w + a) b = some ((xss[i].drop a).take b) := by
  have hlen := flatten_length_fixed xss hw
  have hmul : (i + 1) * w ≤ xss.length * w := Nat.mul_le_mul_right w hi
  rw [slice_in _ _ _ (by simp only [List.length_append, hlen]; rw [Nat.add_mul] at hmul; omega)]
  have hrec := drop_take_flatten xss hw i hi rest
  rw [← hrec]
  congr 1
  rw [← List.drop_drop, List.drop_take]
  have : w - a ≥ b := by omega
  rw [List.take_take, Nat.min_eq_left (by omega)]

theorem File.at_encodeV1 (fan : List Nat) (recs : List (Nat × Bytes)) (ph ih : Bytes) (h : V1Ok fan recs)
    (hph : ph.length = 20) (hih : ih.length = 20) :
    File.at (encodeV1 fan recs ph ih) = some (.ok
      { data := encodeV1 fan recs ph ih, v2 := false, numObjects := recs.length, fan := fan, hashLen := 20 }) := by
  have hfl : (fan.flatMap be32).length = 1024 := by rw [flatMap_be32_length, h.fanLen]
  have hrl : ((recs.map (fun r => be32 r.1 ++ r.2)).flatten).length = recs.length * 24 := by
    rw [flatten_length_fixed _ (recs24 h.ids20)]; simp
  have hlen : (encodeV1 fan recs ph ih).length = 1024 + recs.length * 24 + 40 := by
    simp only [encodeV1, List.length_append, hfl, hrl, hph, hih]; omega
  -- the first byte is below 0x80, so this is not taken for a V2 file
  have hsig : ¬ ((encodeV1 fan recs ph ih).take 4 = V2_SIGNATURE) := by
    obtain ⟨v, rest, hfan⟩ : ∃ v rest, fan = v :: rest := by
      cases hf : fan with
      | nil => have := h.fanLen; rw [hf] at this; simp at this
      | cons v rest => exact ⟨v, rest, rfl⟩
    have hv := h.fanU32 v (by rw [hfan]; simp)
    intro heq
    have : (encodeV1 fan recs ph ih).take 4 = be32 v := by
      rw [hfan]; simp only [encodeV1, List.flatMap_cons, List.append_assoc]
      exact List.take_left' rfl
    rw [this] at heq
    have h0 := congrArg (fun l => (l.head?.map UInt8.toNat)) heq
    simp only [be32, V2_SIGNATURE, List.head?_cons, Option.map_some, Option.some.injEq, UInt8.toNat_ofNat'] at h0
    have : v / 16777216 % 256 < 128 := by omega
    simp at h0
    omega
  have hread := readFan_flatMap fan (fun v hv => by have := h.fanU32 v hv; omega)
    ((recs.map (fun r => be32 r.1 ++ r.2)).flatten ++ (ph ++ ih))
  rw [h.fanLen] at hread
  have hm : ¬ ((!fanMonotone fan) = true) := by rw [h.fanMono]; decide
  unfold File.at
  simp only []
  rw [if_neg (by rw [hlen]; omega), if_neg hsig]
  have : readFan 256 (encodeV1 fan recs ph ih) = some fan := hread
  simp only [this, File.validate, h.fanLast]
  rw [if_neg hm]
  simp only [Bool.false_eq_true, if_false]
  rw [if_neg (by rw [hlen]; omega)]

theorem v1_oidAt (fan : List Nat) (recs : List (Nat × Bytes)) (ph ih : Bytes) (h : V1Ok fan recs)
    (i : Nat) (hi : i < recs.length) :
    File.oidAt { data := encodeV1 fan recs ph ih, v2 := false, numObjects := recs.length, fan := fan, hashLen := 20 } i
      = some recs[i].2 := by
  have hfl : (fan.flatMap be32).length = 1024 := by rw [flatMap_be32_length, h.fanLen]
  simp only [File.oidAt, Bool.false_eq_true, if_false, V1_HEADER, encodeV1]
  have e : 1024 + i * (4 + 20) + 4 = (fan.flatMap be32).length + (i * 24 + 4) := by rw [hfl]; omega
  rw [e, slice_peel, slice_in_record _ (recs24 h.ids20) i (by simpa using hi) _ 4 20 (by omega)]
  simp only [List.getElem_map]
  rw [List.drop_left' (be32_length _), ← h.ids20 _ (List.getElem_mem hi), List.take_length]

theorem v1_offsetAt (fan : List Nat) (recs : List (Nat × Bytes)) (ph ih : Bytes) (h : V1Ok fan recs)
    (i : Nat) (hi : i < recs.length) :
    File.offsetAt { data := encodeV1 fan recs ph ih, v2 := false, numObjects := recs.length, fan := fan, hashLen := 20 } i
      = some recs[i].1 := by
  have hfl : (fan.flatMap be32).length = 1024 := by rw [flatMap_be32_length, h.fanLen]
  simp only [File.offsetAt, Bool.false_eq_true, if_false, V1_HEADER, encodeV1]
  have e : 1024 + i * (4 + 20) = (fan.flatMap be32).length + (i * 24 + 0) := by rw [hfl]; omega
  rw [e, slice_peel, slice_in_record _ (recs24 h.ids20) i (by simpa using hi) _ 0 4 (by omega)]
  simp only [List.getElem_map, List.drop_zero]
  rw [List.take_left' (be32_length _), Option.bind_some, readU32_be32 (h.ofsU32 _ (List.getElem_mem hi))]

end GixModel.C09
