import GixModel.Lemmas.C11
import GixModel.Lemmas.C56Toy
/-
Non-vacuity of the two extra hypotheses of Props/C11: the codec of Lemmas/C56Toy.lean also satisfies
`EarlyOutput` (192 stream bytes carry 95 content bytes) and `DecompressorBounded`.
-/
namespace GixModel.C56.Toy
open GixModel GixModel.C56 GixModel.C11

theorem earlyOutput : EarlyOutput decompressor IsToy where
  early := by
    intro z d inp cap r hz hpre hlen hr hne
    have hinv : Inv .marker z d 0 0 := ⟨hz, Nat.zero_le _, by simp, by simp [posOf], by simp⟩
    obtain ⟨r', h1, _, _, _, _, _, h7⟩ := decompress_spec inp cap false hinv (by simpa using hpre)
    have hr' : decompressor.decompress .marker inp cap false = some r := hr
    rw [h1] at hr'
    have := Option.some.inj hr'
    subst this
    obtain ⟨⟨_, _, hs', hi', _⟩, hstop⟩ := h7 hne
    have hE : 192 ≤ inp.length := by
      have : TRY_HEADER_BUF_SIZE - HEADER_MAX_SIZE = 192 := by decide
      omega
    rcases hstop with hk | ⟨hk, _⟩
    · have hp : posOf r'.state ≤ 1 := by cases r'.state <;> simp [posOf]
      simp only [Nat.zero_add] at hi'
      omega
    · omega

theorem run_bounded : ∀ (fuel : Nat) (p : Ph) (inp : Bytes) (room c : Nat) (acc : Bytes) (p' : Ph) (c' : Nat) (acc' : Bytes),
    run fuel p inp room c acc = some (p', c', acc') → c' ≤ c + inp.length ∧ acc'.length ≤ acc.length + room := by
  intro fuel
  induction fuel with
  | zero =>
    intro p inp room c acc p' c' acc' h
    simp only [run, Option.some.injEq, Prod.mk.injEq] at h
    obtain ⟨_, h2, h3⟩ := h
    subst h2; subst h3
    exact ⟨by omega, by omega⟩
  | succ fuel ih =>
    intro p inp room c acc p' c' acc' h
    cases p with
    | done =>
      simp only [run, Option.some.injEq, Prod.mk.injEq] at h
      obtain ⟨_, h2, h3⟩ := h
      subst h2; subst h3
      exact ⟨by omega, by omega⟩
    | marker =>
      cases inp with
      | nil =>
        simp only [run, Option.some.injEq, Prod.mk.injEq] at h
        obtain ⟨_, h2, h3⟩ := h
        subst h2; subst h3
        exact ⟨by omega, by omega⟩
      | cons x rest =>
        simp only [run] at h
        by_cases h0 : x = 0
        · simp only [h0, if_true, Option.some.injEq, Prod.mk.injEq] at h
          obtain ⟨_, h2, h3⟩ := h
          subst h2; subst h3
          exact ⟨by simp only [List.length_cons]; omega, by omega⟩
        · simp only [h0, if_false] at h
          by_cases h1 : x = 1
          · simp only [h1, if_true] at h
            obtain ⟨a, b⟩ := ih _ _ _ _ _ _ _ _ h
            exact ⟨by simp only [List.length_cons]; omega, b⟩
          · simp [h1] at h
    | data =>
      cases inp with
      | nil =>
        simp only [run, Option.some.injEq, Prod.mk.injEq] at h
        obtain ⟨_, h2, h3⟩ := h
        subst h2; subst h3
        exact ⟨by omega, by omega⟩
      | cons x rest =>
        simp only [run] at h
        by_cases hr : room = 0
        · simp only [hr, if_true, Option.some.injEq, Prod.mk.injEq] at h
          obtain ⟨_, h2, h3⟩ := h
          subst h2; subst h3
          exact ⟨by omega, by omega⟩
        · simp only [hr, if_false] at h
          obtain ⟨a, b⟩ := ih _ _ _ _ _ _ _ _ h
          simp only [List.length_append, List.length_cons, List.length_nil] at b
          exact ⟨by simp only [List.length_cons]; omega, by omega⟩

theorem decompressorBounded : DecompressorBounded decompressor := by
  intro s inp cap fin r hr
  simp only [decompressor, decompress] at hr
  cases hrun : run (inp.length + 1) s inp cap 0 [] with
  | none => simp [hrun] at hr
  | some t =>
    obtain ⟨p', c, out⟩ := t
    simp only [hrun] at hr
    have hr' := (Option.some.inj hr).symm
    subst hr'
    have := run_bounded _ _ _ _ _ _ _ _ _ hrun
    simpa using this

end GixModel.C56.Toy
