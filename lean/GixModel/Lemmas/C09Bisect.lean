import GixModel.Model.C09
/-
C09 helper lemmas, part 2: the bisection loop and the neighbour scans, generically.

`k i` is the classification of entry `i` by the comparator (`target.cmp(entry i)`), `Cls` says the
closure `oidAt` and the comparator `c` really produce it for every `i < n`, `Mono` says the
classification is monotone along the table (greater…, equal…, less…) — which is what sortedness
gives for both the full-id and the prefix comparator.
-/
namespace GixModel.C09
open GixModel

def Cls (c : Bytes → Option Ordering) (oidAt : Nat → Option Bytes) (n : Nat) (k : Nat → Ordering) : Prop :=
  ∀ i, i < n → ∃ m, oidAt i = some m ∧ c m = some (k i)

def Mono (n : Nat) (k : Nat → Ordering) : Prop :=
  ∀ i j, i < j → j < n → (k i = .lt → k j = .lt) ∧ (k j = .gt → k i = .gt)

theorem bisect_spec {c : Bytes → Option Ordering} {oidAt : Nat → Option Bytes} {n : Nat} {k : Nat → Ordering}
    (hc : Cls c oidAt n k) (hm : Mono n k) (hn : n < 2147483648) :
    ∀ (fuel lo hi : Nat), hi ≤ n → hi - lo ≤ fuel →
      (∀ i, i < lo → i < n → k i = .gt) → (∀ i, hi ≤ i → i < n → k i = .lt) →
      ∃ r, bisect c oidAt fuel lo hi = some r ∧
        (match r with
         | some mid => lo ≤ mid ∧ mid < hi ∧ k mid = .eq
         | none => ∀ i, i < n → k i ≠ .eq) := by
  intro fuel
  induction fuel with
  | zero =>
    intro lo hi hhi hf hl hh
    have : ¬ lo < hi := by omega
    refine ⟨none, by simp [bisect, this], ?_⟩
    intro i hi'
    by_cases h : i < lo
    · rw [hl i h hi']; decide
    · rw [hh i (by omega) hi']; decide
  | succ fuel ih =>
    intro lo hi hhi hf hl hh
    by_cases hlt : lo < hi
    · have hsum : lo + hi < U32 := by simp only [U32]; omega
      have hmid1 : lo ≤ (lo + hi) / 2 := by omega
      have hmid2 : (lo + hi) / 2 < hi := by omega
      obtain ⟨m, hm1, hm2⟩ := hc ((lo + hi) / 2) (by omega)
      simp only [bisect, hlt, hsum, if_true, hm1, hm2]
      cases hk : k ((lo + hi) / 2) with
      | lt =>
        simp only []
        obtain ⟨r, hr1, hr2⟩ := ih lo ((lo + hi) / 2) (by omega) (by omega) hl (by
          intro i hi1 hi2
          by_cases he : i = (lo + hi) / 2
          · rw [he]; exact hk
          · exact (hm ((lo + hi) / 2) i (by omega) hi2).1 hk)
        refine ⟨r, hr1, ?_⟩
        cases r with
        | none => exact hr2
        | some mid => exact ⟨hr2.1, by omega, hr2.2.2⟩
      | eq =>
        exact ⟨some ((lo + hi) / 2), rfl, hmid1, hmid2, hk⟩
      | gt =>
        simp only []
        obtain ⟨r, hr1, hr2⟩ := ih ((lo + hi) / 2 + 1) hi hhi (by omega) (by
          intro i hi1 hi2
          by_cases he : i = (lo + hi) / 2
          · rw [he]; exact hk
          · exact (hm i ((lo + hi) / 2) (by omega) (by omega)).2 hk) hh
        refine ⟨r, hr1, ?_⟩
        cases r with
        | none => exact hr2
        | some mid => exact ⟨by omega, hr2.2.1, hr2.2.2⟩
    · refine ⟨none, by simp [bisect, hlt], ?_⟩
      intro i hi'
      by_cases h : i < lo
      · rw [hl i h hi']; decide
      · rw [hh i (by omega) hi']; decide

/-- going down from `m`: the run of `Equal` entries directly below `m` starts at `a` -/
theorem scanDown_spec {c : Bytes → Option Ordering} {oidAt : Nat → Option Bytes} {n : Nat} {k : Nat → Ordering}
    (hc : Cls c oidAt n k) :
    ∀ m, m ≤ n → ∃ a, a ≤ m ∧ (∀ i, a ≤ i → i < m → k i = .eq) ∧ (0 < a → k (a - 1) ≠ .eq) ∧
      scanDown c oidAt m = some (if a < m then some a else none) := by
  intro m
  induction m with
  | zero => intro _; exact ⟨0, by omega, by intro i h1 h2; omega, by omega, by simp [scanDown]⟩
  | succ m ih =>
    intro hmn
    obtain ⟨x, hx1, hx2⟩ := hc m (by omega)
    cases hk : k m with
    | eq =>
      obtain ⟨a, ha1, ha2, ha3, ha4⟩ := ih (by omega)
      refine ⟨a, by omega, ?_, ha3, ?_⟩
      · intro i h1 h2
        by_cases he : i = m
        · rw [he]; exact hk
        · exact ha2 i h1 (by omega)
      · simp only [scanDown, hx1, hx2, hk, ha4]
        by_cases ham : a < m
        · have : a < m + 1 := by omega
          simp [ham, this]
        · have : a = m := by omega
          subst this
          simp
    | lt =>
      refine ⟨m + 1, by omega, by intro i h1 h2; omega, ?_, ?_⟩
      · intro _; simp [hk]
      · simp [scanDown, hx1, hx2, hk]
    | gt =>
      refine ⟨m + 1, by omega, by intro i h1 h2; omega, ?_, ?_⟩
      · intro _; simp [hk]
      · simp [scanDown, hx1, hx2, hk]

/-- going up from `i` for at most `f` entries: the run of `Equal` entries ends before `b` -/
theorem scanUp_spec {c : Bytes → Option Ordering} {oidAt : Nat → Option Bytes} {n : Nat} {k : Nat → Ordering}
    (hc : Cls c oidAt n k) :
    ∀ f i, i + f ≤ n → ∃ b, i ≤ b ∧ b ≤ i + f ∧ (∀ j, i ≤ j → j < b → k j = .eq) ∧
      (b < i + f → k b ≠ .eq) ∧
      scanUp c oidAt f i = some (if i < b then some (b - 1) else none) := by
  intro f
  induction f with
  | zero => intro i _; exact ⟨i, by omega, by omega, by intro j h1 h2; omega, by omega, by simp [scanUp]⟩
  | succ f ih =>
    intro i hif
    obtain ⟨x, hx1, hx2⟩ := hc i (by omega)
    cases hk : k i with
    | eq =>
      obtain ⟨b, hb1, hb2, hb3, hb4, hb5⟩ := ih (i + 1) (by omega)
      refine ⟨b, by omega, by omega, ?_, by intro h; exact hb4 (by omega), ?_⟩
      · intro j h1 h2
        by_cases he : j = i
        · rw [he]; exact hk
        · exact hb3 j (by omega) h2
      · simp only [scanUp, hx1, hx2, hk, hb5]
        have hib : i < b := by omega
        by_cases h : i + 1 < b
        · simp [h, hib]
        · have : b = i + 1 := by omega
          subst this
          simp
    | lt =>
      refine ⟨i, by omega, by omega, by intro j h1 h2; omega, ?_, ?_⟩
      · intro _; simp [hk]
      · simp [scanUp, hx1, hx2, hk]
    | gt =>
      refine ⟨i, by omega, by omega, by intro j h1 h2; omega, ?_, ?_⟩
      · intro _; simp [hk]
      · simp [scanUp, hx1, hx2, hk]

theorem isEqAt_spec {c : Bytes → Option Ordering} {oidAt : Nat → Option Bytes} {n : Nat} {k : Nat → Ordering}
    (hc : Cls c oidAt n k) (i : Nat) (hi : i < n) : isEqAt c oidAt i = some (k i == .eq) := by
  obtain ⟨x, hx1, hx2⟩ := hc i hi
  simp [isEqAt, hx1, hx2]

/-- With a monotone classification the `Equal` entries are exactly one interval `[a, b)`. -/
theorem eq_interval {n : Nat} {k : Nat → Ordering} (hm : Mono n k) {a b mid : Nat}
    (hamid : a ≤ mid) (hmidb : mid < b) (hbn : b ≤ n)
    (hin : ∀ i, a ≤ i → i < b → k i = .eq) (hlow : 0 < a → k (a - 1) ≠ .eq) (hup : b < n → k b ≠ .eq) :
    ∀ i, i < n → (k i = .eq ↔ a ≤ i ∧ i < b) := by
  intro i hi
  constructor
  · intro he
    have hmid := hin mid hamid hmidb
    refine ⟨?_, ?_⟩
    · -- i < a impossible
      apply Classical.byContradiction
      intro hlt
      have hia : i < a := by omega
      have h0 : 0 < a := by omega
      have hne := hlow h0
      cases hk : k (a - 1) with
      | eq => exact hne hk
      | lt =>
        have := (hm (a - 1) mid (by omega) (by omega)).1 hk
        rw [hmid] at this; cases this
      | gt =>
        by_cases hia' : i = a - 1
        · rw [hia'] at he; rw [he] at hk; cases hk
        · have := (hm i (a - 1) (by omega) (by omega)).2 hk
          rw [he] at this; cases this
    · apply Classical.byContradiction
      intro hge
      have hbi : b ≤ i := by omega
      have hbn' : b < n := by omega
      have hne := hup hbn'
      cases hk : k b with
      | eq => exact hne hk
      | gt =>
        have := (hm mid b hmidb hbn').2 hk
        rw [hmid] at this; cases this
      | lt =>
        by_cases hib : i = b
        · rw [hib] at he; rw [he] at hk; cases hk
        · have := (hm b i (by omega) hi).1 hk
          rw [he] at this; cases this
  · intro ⟨h1, h2⟩
    exact hin i h1 h2

end GixModel.C09
