import GixModel.Lemmas.C02Sig
/-
C02 helper lemmas, part 3: header fields, extra headers (single- and multi-line), and the commit
decoder on what the commit writer prints.
-/
namespace GixModel.C02
open GixModel GixModel.C01 GixModel.Spec.C02

/-! ### header fields -/

theorem hdr_ok {α : Type} (name : Bytes) (p : Bytes → PRes α) (v r : Bytes) (a : α)
    (hp : p (v ++ 10 :: r) = .ok a (10 :: r)) :
    hdr name p (name ++ 32 :: (v ++ 10 :: r)) = .ok a r := by
  unfold hdr
  simp only [stripPrefix_append, hp]

theorem hdr_strip_none {α : Type} (name : Bytes) (p : Bytes → PRes α) (i : Bytes)
    (h : stripPrefix name i = none) : hdr name p i = .fail := by
  unfold hdr
  simp only [h]

/-- a header whose name differs is not taken for `name` -/
theorem strip_name_mismatch : ∀ (name n rest : Bytes), (∀ b ∈ n, (b == 32) = false) →
    (∀ b ∈ name, (b == 32) = false) → n ≠ name →
    (stripPrefix name (n ++ 32 :: rest) = none
      ∨ ∃ c t, stripPrefix name (n ++ 32 :: rest) = some (c :: t) ∧ (c == 32) = false) := by
  intro name
  induction name with
  | nil =>
    intro n rest hn _ hne
    cases n with
    | nil => exact absurd rfl hne
    | cons b n => exact Or.inr ⟨b, n ++ 32 :: rest, by simp [stripPrefix], hn b (by simp)⟩
  | cons a name ih =>
    intro n rest hn hname hne
    cases n with
    | nil =>
      have : (a == 32) = false := hname a (by simp)
      left
      simp only [List.nil_append, stripPrefix]
      have h2 : (a == (32 : UInt8)) = false := this
      simp [h2]
    | cons b n =>
      by_cases hab : (a == b) = true
      · have : a = b := by simpa using hab
        subst this
        have hne' : n ≠ name := fun h => hne (by rw [h])
        have := ih n rest (fun x hx => hn x (by simp [hx])) (fun x hx => hname x (by simp [hx])) hne'
        simpa [stripPrefix] using this
      · left
        simp [stripPrefix, hab]

theorem hdr_name_mismatch {α : Type} (name : Bytes) (p : Bytes → PRes α) (n rest : Bytes)
    (hn : ∀ b ∈ n, (b == 32) = false) (hname : ∀ b ∈ name, (b == 32) = false) (hne : n ≠ name) :
    hdr name p (n ++ 32 :: rest) = .fail := by
  rcases strip_name_mismatch name n rest hn hname hne with h | ⟨c, t, h, hc⟩
  · exact hdr_strip_none _ _ _ h
  · unfold hdr
    simp only [h]
    split
    · rename_i r1 heq
      simp only [List.cons.injEq] at heq
      rw [heq.1] at hc
      exact absurd hc (by decide)
    · rfl

theorem hexBytes_len (id : Bytes) : (hexBytes id).length = 2 * id.length := by
  induction id with
  | nil => rfl
  | cons b id ih => rw [hexBytes_cons]; simp only [List.length_cons, ih]; omega

theorem hexHash_ok (id r : Bytes) (h20 : id.length = 20) :
    hexHash (hexBytes id ++ 10 :: r) = .ok (hexBytes id) (10 :: r) := by
  have hl : (hexBytes id).length = 40 := by rw [hexBytes_len]; omega
  have := takeUpTo_exact isHexLc (hexBytes id) (10 :: r) (hexBytes_all id)
  rw [hl] at this
  unfold hexHash
  simp [this, hl]

theorem line1_ok (v r : Bytes) (hne : v ≠ []) (hv : ∀ b ∈ v, (b == 10) = false) :
    line1 (v ++ 10 :: r) = .ok v (10 :: r) := by
  have := spanTill_append (· == 10) v (10 :: r) hv (StopsAt.cons _ (by decide))
  unfold line1
  have hne' : v.isEmpty = false := by cases v <;> simp_all
  simp [this, hne']

/-! ### repeat -/

theorem repeat0_list {α β : Type} (p : Bytes → PRes α) (render : β → Bytes) (val : β → α)
    (Good : Bytes → Prop) (tail : Bytes) (htail : p tail = .fail) (hgt : Good tail) :
    ∀ (xs : List β) (f : Nat), xs.length ≤ f →
      (∀ x ∈ xs, ∀ r, Good (render x ++ r)) →
      (∀ x ∈ xs, ∀ r, Good r → p (render x ++ r) = .ok (val x) r) →
      repeat0 p f (xs.flatMap render ++ tail) = .ok (xs.map val) tail := by
  intro xs
  induction xs with
  | nil =>
    intro f _ _ _
    cases f with
    | zero => rfl
    | succ f => simp [repeat0, htail]
  | cons x xs ih =>
    intro f hf hg hp
    cases f with
    | zero => simp at hf
    | succ f =>
      have hgood : Good (xs.flatMap render ++ tail) := by
        cases xs with
        | nil => simpa using hgt
        | cons y ys =>
          have := hg y (by simp) (ys.flatMap render ++ tail)
          simpa using this
      have h1 := hp x (by simp) (xs.flatMap render ++ tail) hgood
      have h2 := ih f (by simpa using hf) (fun y hy => hg y (by simp [hy])) (fun y hy => hp y (by simp [hy]))
      simp only [List.flatMap_cons, List.append_assoc, List.map_cons, repeat0, h1, h2]

theorem length_le_flatMap {β : Type} (f : β → Bytes) (xs : List β) (h : ∀ x ∈ xs, 1 ≤ (f x).length) :
    xs.length ≤ (xs.flatMap f).length := by
  induction xs with
  | nil => simp
  | cons x xs ih =>
    have h1 := h x (by simp)
    have h2 := ih (fun y hy => h y (by simp [hy]))
    simp only [List.flatMap_cons, List.length_append, List.length_cons]
    omega

theorem length_le_flatMap_of_mem {β : Type} (f : β → Bytes) (xs : List β) (x : β) (hx : x ∈ xs) :
    (f x).length ≤ (xs.flatMap f).length := by
  induction xs with
  | nil => simp at hx
  | cons y xs ih =>
    simp only [List.mem_cons] at hx
    simp only [List.flatMap_cons, List.length_append]
    rcases hx with rfl | hx
    · omega
    · have := ih hx; omega

/-! ### extra headers -/

theorem contLine_none (tail : Bytes) (h : tail.head? ≠ some 32) : contLine tail = none := by
  cases tail with
  | nil => rfl
  | cons b t =>
    have hb : b ≠ 32 := by simpa using h
    unfold contLine
    split
    · rename_i r heq
      simp only [List.cons.injEq] at heq
      exact absurd heq.1 hb
    · rfl

theorem contLines_render (more : List Bytes) (hm : ∀ l ∈ more, ∀ b ∈ l, (b == 10) = false)
    (tail : Bytes) (htail : tail.head? ≠ some 32) :
    ∀ fuel, more.length ≤ fuel →
      contLines fuel (more.flatMap (fun l => 32 :: l ++ [10]) ++ tail) = (more, tail) := by
  induction more with
  | nil =>
    intro fuel _
    cases fuel with
    | zero => rfl
    | succ f => simp [contLines, contLine_none tail htail]
  | cons l more ih =>
    intro fuel hf
    cases fuel with
    | zero => simp at hf
    | succ f =>
      have hl := hm l (by simp)
      have h2 := ih (fun x hx => hm x (by simp [hx])) f (by simpa using hf)
      have hsp := spanTill_append (· == 10) l (10 :: (more.flatMap (fun l => 32 :: l ++ [10]) ++ tail)) hl
        (StopsAt.cons _ (by decide))
      simp only [List.cons_append] at hsp h2
      simp only [List.flatMap_cons, List.cons_append, List.append_assoc, List.nil_append,
        contLines, contLine, hsp, h2]

theorem fieldName_ok (name rest : Bytes) (hne : name ≠ [])
    (hn : name.all (fun b => b != 32 && b != 10) = true) :
    fieldName (name ++ 32 :: rest) = some (name, rest) := by
  have hn' : ∀ b ∈ name, spOrNl b = false := by
    intro b hb
    have := (List.all_eq_true.mp hn) b hb
    simp only [Bool.and_eq_true, bne_iff_ne, ne_eq] at this
    simp [spOrNl, this.1, this.2]
  have := spanTill_append spOrNl name (32 :: rest) hn' (StopsAt.cons _ (by decide))
  unfold fieldName
  have hne' : name.isEmpty = false := by cases name <;> simp_all
  simp [this, hne']

theorem name_no_space (name : Bytes) (hn : name.all (fun b => b != 32 && b != 10) = true) :
    ∀ b ∈ name, (b == 32) = false := by
  intro b hb
  have := (List.all_eq_true.mp hn) b hb
  simp only [Bool.and_eq_true, bne_iff_ne, ne_eq] at this
  simp [this.1]

theorem fieldName_nl (msg : Bytes) : fieldName (10 :: msg) = none := by
  simp [fieldName, spanTill, spOrNl]

theorem extraHeader_nl (fuel : Nat) (msg : Bytes) : extraHeader fuel (10 :: msg) = .fail := by
  simp [extraHeader, multiLine, singleLine, fieldName_nl]

theorem lwt_cont_lines (first : Bytes) (more : List Bytes) (hf : ∀ b ∈ first, (b == 10) = false)
    (hm : ∀ l ∈ more, ∀ b ∈ l, (b == 10) = false) :
    linesWithTerminator (first ++ [10] ++ more.flatMap (fun b => 32 :: b ++ [10]))
      = (first ++ [10]) :: more.map (fun l => 32 :: l ++ [10]) := by
  have e : more.flatMap (fun b => 32 :: b ++ [10]) = (more.map (fun l => 32 :: l)).flatMap (fun l => l ++ [10]) := by
    simp [List.flatMap_map]
  have := lwt_lines (more.map (fun l => 32 :: l)) (by
    intro l hl b hb
    simp only [List.mem_map] at hl
    obtain ⟨l0, hl0, rfl⟩ := hl
    simp only [List.mem_cons] at hb
    rcases hb with rfl | hb
    · decide
    · exact hm l0 hl0 b hb)
  rw [e]
  simp only [List.append_assoc, List.singleton_append]
  rw [lwt_line first _ hf, this]
  simp [List.map_map]

theorem unfoldValue_lines (first : Bytes) (more : List Bytes) (hf : ∀ b ∈ first, (b == 10) = false)
    (hm : ∀ l ∈ more, ∀ b ∈ l, (b == 10) = false) :
    unfoldValue (first ++ [10] ++ more.flatMap (fun b => 32 :: b ++ [10]))
      = first ++ [10] ++ more.flatMap (fun l => l ++ [10]) := by
  unfold unfoldValue
  rw [lwt_cont_lines first more hf hm]
  simp [List.flatMap_map]

theorem extraHeader_render (h : GitHeader) (hw : h.Wf) (tail : Bytes) (htail : tail.head? ≠ some 32)
    (fuel : Nat) (hfuel : h.more.length ≤ fuel) :
    extraHeader fuel (h.render ++ tail) = .ok (h.name, headerValue h) tail := by
  obtain ⟨hne, hn, hfne, hfnl, hmore⟩ := hw
  have hf : ∀ b ∈ h.first, (b == 10) = false := (noNl_iff _).mp hfnl
  have hm : ∀ l ∈ h.more, ∀ b ∈ l, (b == 10) = false := by
    intro l hl
    exact (noNl_iff _).mp ((List.all_eq_true.mp hmore) l hl)
  have hfn := fieldName_ok h.name (h.first ++ 10 :: (h.more.flatMap (fun l => 32 :: l ++ [10]) ++ tail)) hne hn
  have hsp := spanTill_append (· == 10) h.first (10 :: (h.more.flatMap (fun l => 32 :: l ++ [10]) ++ tail)) hf
    (StopsAt.cons _ (by decide))
  have hcl := contLines_render h.more hm tail htail fuel hfuel
  have hfe : h.first.isEmpty = false := by cases hh : h.first <;> simp_all
  have e : h.render ++ tail = h.name ++ 32 :: (h.first ++ 10 :: (h.more.flatMap (fun l => 32 :: l ++ [10]) ++ tail)) := by
    simp [GitHeader.render]
  rw [e]
  cases hmo : h.more with
  | nil =>
    rw [hmo] at hfn hsp hcl
    simp only [List.flatMap_nil, List.nil_append] at hfn hsp hcl ⊢
    simp [extraHeader, multiLine, singleLine, hfn, hsp, hfe, hcl, headerValue, hmo]
  | cons l ls =>
    rw [hmo] at hfn hsp hcl hm
    have hu := unfoldValue_lines h.first (l :: ls) hf hm
    simp only [List.append_assoc, List.singleton_append, List.cons_append] at hu hfn hsp hcl ⊢
    simp only [extraHeader, multiLine, hfn, hsp, hfe, hcl, headerValue, hmo, hu, Bool.false_eq_true,
      if_false, List.append_assoc, List.singleton_append, List.cons_append]

theorem endsWithNl_lines : ∀ (ls : List Bytes), ls ≠ [] → ∀ pre : Bytes,
    endsWithNl (pre ++ ls.flatMap (fun l => l ++ [10])) = true := by
  intro ls
  induction ls with
  | nil => intro h; exact absurd rfl h
  | cons l ls ih =>
    intro _ pre
    cases ls with
    | nil =>
      have := endsWithNl_append_nl (pre ++ l)
      simpa using this
    | cons l2 ls =>
      have := ih (by simp) (pre ++ (l ++ [10]))
      simpa [List.flatMap_cons] using this

/-- the writer prints an extra header of value `headerValue h` exactly as git renders `h` -/
theorem headerFieldMultiLine_render (h : GitHeader) (hw : h.Wf) :
    headerFieldMultiLine h.name (headerValue h) = some h.render := by
  obtain ⟨_, _, hfne, hfnl, hmore⟩ := hw
  have hf : ∀ b ∈ h.first, (b == 10) = false := (noNl_iff _).mp hfnl
  have hm : ∀ l ∈ h.more, ∀ b ∈ l, (b == 10) = false := by
    intro l hl
    exact (noNl_iff _).mp ((List.all_eq_true.mp hmore) l hl)
  unfold headerFieldMultiLine headerValue GitHeader.render
  cases hmo : h.more with
  | nil =>
    have hlast : endsWithNl h.first = false := by
      unfold endsWithNl
      cases hl : h.first.getLast? with
      | none => simp
      | some b =>
        have := hf b (List.mem_of_getLast? hl)
        simpa using this
    simp [lwt_single h.first hfne hf, hlast]
  | cons l ls =>
    rw [hmo] at hm
    have h1 := lwt_lines (l :: ls) hm
    have e : h.first ++ [10] ++ (l :: ls).flatMap (fun l => l ++ [10])
        = h.first ++ 10 :: ((l :: ls).flatMap (fun l => l ++ [10])) := by simp
    have hend : endsWithNl (h.first ++ [10] ++ (l :: ls).flatMap (fun l => l ++ [10])) = true :=
      endsWithNl_lines (l :: ls) (by simp) _
    simp only [hend]
    rw [e, lwt_line h.first _ hf, h1]
    simp [List.flatMap_map]

/-! ### the commit -/

/-- the bytes of a commit object, from its pieces (`aw`/`cw`: the printed signatures) -/
def commitBytes (tree : Bytes) (parents : List Bytes) (aw cw : Bytes) (enc : Option Bytes)
    (hs : List GitHeader) (msg : Bytes) : Bytes :=
  kTree ++ 32 :: (hexBytes tree ++ 10 ::
    (parents.flatMap (fun p => kParent ++ 32 :: (hexBytes p ++ [10])) ++
      (kAuthor ++ 32 :: (aw ++ 10 ::
        (kCommitter ++ 32 :: (cw ++ 10 ::
          (renderEncoding enc ++ (hs.flatMap GitHeader.render ++ 10 :: msg))))))))

theorem hdr_parent_author (p : Bytes → PRes Bytes) (rest : Bytes) :
    hdr kParent p (kAuthor ++ rest) = .fail := by
  apply hdr_strip_none
  simp [kParent, kAuthor, stripPrefix]

theorem hdr_encoding_none (hs : List GitHeader) (hw : ∀ h ∈ hs, h.Wf)
    (hfe : firstExtraNotEncoding none hs) (msg : Bytes) :
    hdr kEncoding line1 (hs.flatMap GitHeader.render ++ 10 :: msg) = .fail := by
  cases hs with
  | nil =>
    apply hdr_strip_none
    simp [kEncoding, stripPrefix]
  | cons h hs =>
    have hwf := hw h (by simp)
    have hne : h.name ≠ kEncoding := by
      have := hfe rfl
      simpa [encodingName, kEncoding] using this
    have e : (h :: hs).flatMap GitHeader.render ++ 10 :: msg
        = h.name ++ 32 :: (h.first ++ [10] ++ h.more.flatMap (fun l => 32 :: l ++ [10])
            ++ (hs.flatMap GitHeader.render ++ 10 :: msg)) := by
      simp [GitHeader.render]
    rw [e]
    exact hdr_name_mismatch kEncoding line1 h.name _ (name_no_space h.name hwf.2.1) (by decide) hne

theorem commitBytes_length (tree : Bytes) (parents : List Bytes) (aw cw : Bytes) (enc : Option Bytes)
    (hs : List GitHeader) (msg : Bytes) :
    parents.length ≤ (commitBytes tree parents aw cw enc hs msg).length
    ∧ hs.length ≤ (commitBytes tree parents aw cw enc hs msg).length
    ∧ ∀ h ∈ hs, h.more.length ≤ (commitBytes tree parents aw cw enc hs msg).length := by
  have h1 := length_le_flatMap (fun p => kParent ++ 32 :: (hexBytes p ++ [10])) parents
    (by intro x _; simp only [List.length_append, List.length_cons]; omega)
  have h2 := length_le_flatMap GitHeader.render hs
    (by intro x _; simp only [GitHeader.render, List.length_append, List.length_cons]; omega)
  refine ⟨?_, ?_, ?_⟩
  · simp only [commitBytes, List.length_append, List.length_cons]; omega
  · simp only [commitBytes, List.length_append, List.length_cons]; omega
  · intro h hh
    have h3 := length_le_flatMap_of_mem GitHeader.render hs h hh
    have h4 : h.more.length ≤ h.render.length := by
      have := length_le_flatMap (fun l : List UInt8 => 32 :: l ++ [10]) h.more
        (by intro x _; simp only [List.length_append, List.length_cons]; omega)
      simp only [GitHeader.render, List.length_append]
      omega
    simp only [commitBytes, List.length_append, List.length_cons]; omega

theorem render_head (h : GitHeader) (hw : h.Wf) (r : Bytes) : (h.render ++ r).head? ≠ some 32 := by
  obtain ⟨hne, hn, _⟩ := hw
  cases hnm : h.name with
  | nil => exact absurd hnm hne
  | cons b n =>
    have := name_no_space h.name hn b (by simp [hnm])
    simp only [GitHeader.render, hnm, List.cons_append, List.head?_cons, ne_eq, Option.some.injEq]
    intro hb
    rw [hb] at this
    exact absurd this (by decide)

/-- the commit decoder on a commit assembled from writable pieces -/
theorem parseCommit_bytes (tree : Bytes) (parents : List Bytes) (author committer : Signature)
    (enc : Option Bytes) (hs : List GitHeader) (msg : Bytes)
    (ht : tree.length = 20) (hp : ∀ p ∈ parents, p.length = 20)
    (ha : SigWritable author) (hc : SigWritable committer) (henc : encodingWf enc)
    (hhs : ∀ h ∈ hs, h.Wf) (hfe : firstExtraNotEncoding enc hs) :
    ∃ aw cw, author.write = some aw ∧ committer.write = some cw ∧
      parseCommit (commitBytes tree parents aw cw enc hs msg)
        = some { tree := hexBytes tree, parents := parents.map hexBytes, author := author,
                 committer := committer, encoding := enc,
                 extra := hs.map (fun h => (h.name, headerValue h)), message := msg } := by
  obtain ⟨aw, haw, hap⟩ := signature_canonical author ha
  obtain ⟨cw, hcw, hcp⟩ := signature_canonical committer hc
  refine ⟨aw, cw, haw, hcw, ?_⟩
  obtain ⟨hl1, hl2, hl3⟩ := commitBytes_length tree parents aw cw enc hs msg
  unfold parseCommit
  generalize hF : (commitBytes tree parents aw cw enc hs msg).length + 1 = F
  have hF1 : parents.length ≤ F := by omega
  have hF2 : hs.length ≤ F := by omega
  have hF3 : ∀ h ∈ hs, h.more.length ≤ F := fun h hh => by have := hl3 h hh; omega
  -- back to front
  have s6 : repeat0 (extraHeader F) F (hs.flatMap GitHeader.render ++ 10 :: msg)
      = .ok (hs.map (fun h => (h.name, headerValue h))) (10 :: msg) :=
    repeat0_list (extraHeader F) GitHeader.render (fun h => (h.name, headerValue h))
      (fun r => r.head? ≠ some 32) (10 :: msg) (extraHeader_nl F msg) (by simp) hs F hF2
      (fun h hh r => render_head h (hhs h hh) r)
      (fun h hh r hr => extraHeader_render h (hhs h hh) r hr F (hF3 h hh))
  have s5 : popt (hdr kEncoding line1 (renderEncoding enc ++ (hs.flatMap GitHeader.render ++ 10 :: msg)))
      (renderEncoding enc ++ (hs.flatMap GitHeader.render ++ 10 :: msg))
      = .ok enc (hs.flatMap GitHeader.render ++ 10 :: msg) := by
    cases enc with
    | none =>
      simp only [renderEncoding, List.nil_append, hdr_encoding_none hs hhs hfe msg, popt]
    | some e =>
      obtain ⟨hene, henl⟩ := henc
      have := hdr_ok kEncoding line1 e (hs.flatMap GitHeader.render ++ 10 :: msg) e
        (line1_ok e _ hene ((noNl_iff e).mp henl))
      have e2 : renderEncoding (some e) ++ (hs.flatMap GitHeader.render ++ 10 :: msg)
          = kEncoding ++ 32 :: (e ++ 10 :: (hs.flatMap GitHeader.render ++ 10 :: msg)) := by
        simp [renderEncoding, encodingName, kEncoding]
      rw [e2, this]
      rfl
  have s4 := hdr_ok kCommitter signature cw
    (renderEncoding enc ++ (hs.flatMap GitHeader.render ++ 10 :: msg)) committer
    (hcp _ (Or.inr ⟨_, rfl⟩))
  have s3 := hdr_ok kAuthor signature aw
    (kCommitter ++ 32 :: (cw ++ 10 :: (renderEncoding enc ++ (hs.flatMap GitHeader.render ++ 10 :: msg)))) author
    (hap _ (Or.inr ⟨_, rfl⟩))
  have s2 : repeat0 (hdr kParent hexHash) F
      (parents.flatMap (fun p => kParent ++ 32 :: (hexBytes p ++ [10])) ++
        (kAuthor ++ 32 :: (aw ++ 10 :: (kCommitter ++ 32 :: (cw ++ 10 ::
          (renderEncoding enc ++ (hs.flatMap GitHeader.render ++ 10 :: msg)))))))
      = .ok (parents.map hexBytes) (kAuthor ++ 32 :: (aw ++ 10 :: (kCommitter ++ 32 :: (cw ++ 10 ::
          (renderEncoding enc ++ (hs.flatMap GitHeader.render ++ 10 :: msg)))))) :=
    repeat0_list (hdr kParent hexHash) (fun p => kParent ++ 32 :: (hexBytes p ++ [10])) hexBytes
      (fun _ => True) _ (hdr_parent_author _ _) trivial parents F hF1 (fun _ _ _ => trivial)
      (fun p hpm r _ => by
        have := hdr_ok kParent hexHash (hexBytes p) r (hexBytes p) (hexHash_ok p r (hp p hpm))
        simpa using this)
  have s1 := hdr_ok kTree hexHash (hexBytes tree)
    (parents.flatMap (fun p => kParent ++ 32 :: (hexBytes p ++ [10])) ++
        (kAuthor ++ 32 :: (aw ++ 10 :: (kCommitter ++ 32 :: (cw ++ 10 ::
          (renderEncoding enc ++ (hs.flatMap GitHeader.render ++ 10 :: msg)))))))
    (hexBytes tree) (hexHash_ok tree _ ht)
  simp only [commitBytes, s1, s2, s3, s4, s5, s6, commitMessage]

end GixModel.C02
