import GixModel.Lemmas.C46
/-
C46 — lemmas, part 3: `remove_redundant`.

Auxiliary facts (sorting, flag updates, counting), the loop invariant `RInv`, its preservation
by every kind of step, the termination measure, and the summary `removeRedundant_spec`:
the function neither panics nor runs out of fuel, drops only commits that are proper ancestors
of another candidate, and what it keeps is pairwise independent.
-/
namespace GixModel.C46
open GixModel GixModel.CG GixModel.Spec.C46

/-! ### the sorted copy -/

def GenLe (a b : Nat × Key) : Prop := a.2.gen ≤ b.2.gen

theorem Key.le_gen {a b : Key} (h : Key.le a b = true) : a.gen ≤ b.gen := by
  simp only [Key.le, Bool.or_eq_true, decide_eq_true_eq, Bool.and_eq_true, beq_iff_eq] at h
  omega

theorem Key.not_le_gen {a b : Key} (h : ¬ Key.le a b = true) : b.gen ≤ a.gen := by
  simp only [Key.le, Bool.or_eq_true, decide_eq_true_eq, Bool.and_eq_true, beq_iff_eq] at h
  omega

theorem insertByKey_perm (e : Nat × Key) (l : List (Nat × Key)) : (insertByKey e l).Perm (e :: l) := by
  induction l with
  | nil => exact List.Perm.refl _
  | cons x xs ih =>
    unfold insertByKey
    split
    · exact (List.Perm.cons x ih).trans (List.Perm.swap _ _ _)
    · exact List.Perm.refl _

theorem insertByKey_sorted (e : Nat × Key) (l : List (Nat × Key)) (h : l.Pairwise GenLe) :
    (insertByKey e l).Pairwise GenLe := by
  induction l with
  | nil => simp [insertByKey]
  | cons x xs ih =>
    unfold insertByKey
    have hx := List.pairwise_cons.mp h
    split
    · rename_i hle
      apply List.pairwise_cons.mpr
      refine ⟨?_, ih hx.2⟩
      intro y hy
      cases List.mem_cons.mp ((insertByKey_perm e xs).subset hy) with
      | inl h' => subst h'; exact Key.le_gen hle
      | inr h' => exact hx.1 y h'
    · rename_i hle
      apply List.pairwise_cons.mpr
      refine ⟨?_, h⟩
      intro y hy
      have hex : GenLe e x := Key.not_le_gen hle
      cases List.mem_cons.mp hy with
      | inl h' => subst h'; exact hex
      | inr h' => exact Nat.le_trans hex (hx.1 y h')

theorem foldl_insert_spec (l acc : List (Nat × Key)) (h : acc.Pairwise GenLe) :
    (l.foldl (fun acc e => insertByKey e acc) acc).Perm (l ++ acc) ∧
    (l.foldl (fun acc e => insertByKey e acc) acc).Pairwise GenLe := by
  induction l generalizing acc with
  | nil => exact ⟨List.Perm.refl _, h⟩
  | cons x xs ih =>
    simp only [List.foldl_cons]
    obtain ⟨p1, p2⟩ := ih (insertByKey x acc) (insertByKey_sorted x acc h)
    refine ⟨?_, p2⟩
    refine p1.trans ?_
    have := insertByKey_perm x acc
    exact (List.Perm.append_left xs this).trans (by simp)

theorem sortByKey_perm (l : List (Nat × Key)) : (sortByKey l).Perm l := by
  have := (foldl_insert_spec l [] List.Pairwise.nil).1
  simp only [List.append_nil] at this
  exact this

theorem sortByKey_sorted (l : List (Nat × Key)) : (sortByKey l).Pairwise GenLe :=
  (foldl_insert_spec l [] List.Pairwise.nil).2

theorem sorted_get_le {l : List (Nat × Key)} (h : l.Pairwise GenLe) {i j : Nat} {a b : Nat × Key}
    (hij : i ≤ j) (hi : l[i]? = some a) (hj : l[j]? = some b) : a.2.gen ≤ b.2.gen := by
  obtain ⟨hi', hia⟩ := List.getElem?_eq_some_iff.mp hi
  obtain ⟨hj', hjb⟩ := List.getElem?_eq_some_iff.mp hj
  by_cases heq : i = j
  · subst heq
    rw [hia] at hjb; subst hjb; exact Nat.le_refl _
  · have := List.pairwise_iff_getElem.mp h i j hi' hj' (by omega)
    rw [hia, hjb] at this
    exact this

/-! ### flag updates -/

theorem set_stale_stale (fl : FlagMap) (p x : Nat) :
    ((fl.setStale p) x).stale = ((fl x).stale || decide (x = p)) := by
  unfold FlagMap.setStale
  by_cases hx : x = p
  · subst hx; rw [FlagMap.set_same]; simp
  · rw [FlagMap.set_other _ _ hx]; simp [hx]

theorem set_stale_result (fl : FlagMap) (p x : Nat) :
    ((fl.setStale p) x).result = (fl x).result := by
  unfold FlagMap.setStale
  by_cases hx : x = p
  · subst hx; rw [FlagMap.set_same]
  · rw [FlagMap.set_other _ _ hx]

theorem clear_result_stale (fl : FlagMap) (c x : Nat) :
    ((fl.clearResult c) x).stale = (fl x).stale := by
  unfold FlagMap.clearResult
  by_cases hx : x = c
  · subst hx; rw [FlagMap.set_same]
  · rw [FlagMap.set_other _ _ hx]

theorem clear_result_result (fl : FlagMap) (c x : Nat) :
    ((fl.clearResult c) x).result = ((fl x).result && !decide (x = c)) := by
  unfold FlagMap.clearResult
  by_cases hx : x = c
  · subst hx; rw [FlagMap.set_same]; simp
  · rw [FlagMap.set_other _ _ hx]; simp [hx]

theorem set_result_stale (fl : FlagMap) (c x : Nat) : ((fl.setResult c) x).stale = (fl x).stale := by
  unfold FlagMap.setResult
  by_cases hx : x = c
  · subst hx; rw [FlagMap.set_same]
  · rw [FlagMap.set_other _ _ hx]

theorem set_result_result (fl : FlagMap) (c x : Nat) :
    ((fl.setResult c) x).result = ((fl x).result || decide (x = c)) := by
  unfold FlagMap.setResult
  by_cases hx : x = c
  · subst hx; rw [FlagMap.set_same]; simp
  · rw [FlagMap.set_other _ _ hx]; simp [hx]

theorem clear_stale_result (fl : FlagMap) (c x : Nat) : ((fl.clearStale c) x).result = (fl x).result := by
  unfold FlagMap.clearStale
  by_cases hx : x = c
  · subst hx; rw [FlagMap.set_same]
  · rw [FlagMap.set_other _ _ hx]

theorem clear_stale_stale (fl : FlagMap) (c x : Nat) :
    ((fl.clearStale c) x).stale = ((fl x).stale && !decide (x = c)) := by
  unfold FlagMap.clearStale
  by_cases hx : x = c
  · subst hx; rw [FlagMap.set_same]; simp
  · rw [FlagMap.set_other _ _ hx]; simp [hx]

/-! ### counting -/

theorem filter_length_mono {α : Type} (p p' : α → Bool) (l : List α) (h : ∀ x, x ∈ l → p' x = true → p x = true) :
    (l.filter p').length ≤ (l.filter p).length := by
  induction l with
  | nil => simp
  | cons x xs ih =>
    have ih' := ih (fun y hy => h y (List.mem_cons_of_mem _ hy))
    have hx := h x List.mem_cons_self
    simp only [List.filter_cons]
    cases hp' : p' x with
    | true =>
      rw [hx hp']
      simp only [if_true, List.length_cons]; omega
    | false =>
      cases hp : p x with
      | true => simp only [if_true, List.length_cons]; simp; omega
      | false => simp; exact ih'

theorem filter_length_lt {α : Type} (p p' : α → Bool) (l : List α) (h : ∀ x, x ∈ l → p' x = true → p x = true)
    (a : α) (ha : a ∈ l) (hpa : p a = true) (hpa' : p' a = false) :
    (l.filter p').length + 1 ≤ (l.filter p).length := by
  induction l with
  | nil => simp at ha
  | cons x xs ih =>
    have hmono := filter_length_mono p p' xs (fun y hy => h y (List.mem_cons_of_mem _ hy))
    simp only [List.filter_cons]
    cases List.mem_cons.mp ha with
    | inl hax =>
      subst hax
      rw [hpa, hpa']
      simp only [if_true, List.length_cons]
      simp; omega
    | inr hax =>
      have ih' := ih (fun y hy => h y (List.mem_cons_of_mem _ hy)) hax
      have hx := h x List.mem_cons_self
      cases hp' : p' x with
      | true =>
        rw [hx hp']
        simp only [if_true, List.length_cons]; omega
      | false =>
        cases hp : p x with
        | true => simp only [if_true, List.length_cons]; simp; omega
        | false => simp; exact ih'

/-- flipping the predicate off at exactly one member of a duplicate-free list -/
theorem filter_length_flip {p p' : Nat → Bool} (l : List Nat) (hnd : l.Nodup) (c : Nat) (hc : c ∈ l)
    (hpc : p c = true) (hpc' : p' c = false) (hother : ∀ x, x ≠ c → p' x = p x) :
    (l.filter p').length + 1 = (l.filter p).length := by
  induction l with
  | nil => simp at hc
  | cons x xs ih =>
    have hnd' := List.nodup_cons.mp hnd
    simp only [List.filter_cons]
    by_cases hx : x = c
    · subst hx
      rw [hpc, hpc']
      have : xs.filter p' = xs.filter p := by
        apply List.filter_congr
        intro y hy
        exact hother y (fun h => hnd'.1 (h ▸ hy))
      simp [this]
    · have hc' : c ∈ xs := by
        cases List.mem_cons.mp hc with
        | inl h => exact absurd h.symm hx
        | inr h => exact h
      have ih' := ih hnd'.2 hc'
      rw [hother x hx]
      cases p x with
      | true => simp only [if_true, List.length_cons]; omega
      | false => simp; exact ih'

theorem two_le_length_of_mem {α : Type} {l : List α} {x y : α} (hx : x ∈ l) (hy : y ∈ l) (hne : x ≠ y) :
    2 ≤ l.length := by
  match l, hx, hy with
  | [], hx, _ => simp at hx
  | [z], hx, hy =>
    simp only [List.mem_singleton] at hx hy
    exact absurd (hx.trans hy.symm) hne
  | _ :: _ :: _, _, _ => simp

/-! ### marking the candidates and their parents -/

theorem markParents_spec (g : Dag) :
    ∀ (ps : List Nat) (fl : FlagMap) (ws : List (Nat × Key)),
      (∀ x, ((markParents g ps fl ws).1 x).result = (fl x).result) ∧
      (∀ x, ((markParents g ps fl ws).1 x).stale = ((fl x).stale || decide (x ∈ ps))) ∧
      (∀ e, e ∈ (markParents g ps fl ws).2 ↔
          e ∈ ws ∨ (e.1 ∈ ps ∧ (fl e.1).stale = false ∧ e.2 = keyOf g e.1)) := by
  intro ps
  induction ps with
  | nil => intro fl ws; simp [markParents]
  | cons p ps ih =>
    intro fl ws
    unfold markParents
    by_cases hst : (fl p).stale = true
    · rw [if_pos hst]
      obtain ⟨h1, h2, h3⟩ := ih fl ws
      refine ⟨h1, ?_, ?_⟩
      · intro x
        rw [h2]
        by_cases hx : x = p
        · subst hx; simp [hst]
        · simp [hx]
      · intro e
        rw [h3]
        constructor
        · intro h
          cases h with
          | inl h => exact Or.inl h
          | inr h => exact Or.inr ⟨List.mem_cons_of_mem _ h.1, h.2⟩
        · intro h
          cases h with
          | inl h => exact Or.inl h
          | inr h =>
            cases List.mem_cons.mp h.1 with
            | inl h' => rw [h', hst] at h; cases h.2.1
            | inr h' => exact Or.inr ⟨h', h.2⟩
    · rw [if_neg hst]
      have hstf : (fl p).stale = false := by simpa using hst
      obtain ⟨h1, h2, h3⟩ := ih (fl.setStale p) (ws ++ [(p, keyOf g p)])
      refine ⟨?_, ?_, ?_⟩
      · intro x; rw [h1, set_stale_result]
      · intro x
        rw [h2, set_stale_stale]
        by_cases hx : x = p
        · subst hx; simp
        · simp [hx]
      · intro e
        rw [h3]
        constructor
        · intro h
          cases h with
          | inl h =>
            cases List.mem_append.mp h with
            | inl h' => exact Or.inl h'
            | inr h' =>
              simp only [List.mem_singleton] at h'
              subst h'
              exact Or.inr ⟨List.mem_cons_self, hstf, rfl⟩
          | inr h =>
            obtain ⟨a1, a2, a3⟩ := h
            rw [set_stale_stale] at a2
            simp only [Bool.or_eq_false_iff, decide_eq_false_iff_not] at a2
            exact Or.inr ⟨List.mem_cons_of_mem _ a1, a2.1, a3⟩
        · intro h
          cases h with
          | inl h => exact Or.inl (List.mem_append_left _ h)
          | inr h =>
            obtain ⟨a1, a2, a3⟩ := h
            by_cases he : e.1 = p
            · left
              apply List.mem_append_right
              simp only [List.mem_singleton]
              rcases e with ⟨e1, e2⟩
              simp only at he a3
              subst he
              rw [a3]
            · right
              cases List.mem_cons.mp a1 with
              | inl h' => exact absurd h' he
              | inr h' =>
                refine ⟨h', ?_, a3⟩
                rw [set_stale_stale]
                simp [a2, he]

/-- the state after the marking loops, started from cleared flags: RESULT exactly on the
candidates, STALE exactly on the `walk_start` entries, which are exactly the candidates' parents -/
structure Marked (g : Dag) (ids : List Nat) (fl : FlagMap) (ws : List (Nat × Key)) : Prop where
  result_iff : ∀ x, (fl x).result = true ↔ x ∈ ids
  stale_iff : ∀ x, (fl x).stale = true ↔ ∃ e, e ∈ ws ∧ e.1 = x
  ws_key : ∀ e, e ∈ ws → e.2 = keyOf g e.1
  ws_parent : ∀ e, e ∈ ws → ∃ r, r ∈ ids ∧ e.1 ∈ g.parents r
  parents_in : ∀ r, r ∈ ids → ∀ p, p ∈ g.parents r → ∃ e, e ∈ ws ∧ e.1 = p

theorem markResults_spec (g : Dag) :
    ∀ (cs : List (Nat × Key)) (done : List Nat) (fl : FlagMap) (ws : List (Nat × Key)),
      Marked g done fl ws →
      Marked g (done ++ cs.map (·.1)) (markResults g cs fl ws).1 (markResults g cs fl ws).2 := by
  intro cs
  induction cs with
  | nil => intro done fl ws h; simpa [markResults] using h
  | cons c cs ih =>
    intro done fl ws h
    obtain ⟨c, ck⟩ := c
    unfold markResults
    simp only
    have key : Marked g (done ++ [c])
        (markParents g (g.parents c) (fl.setResult c) ws).1
        (markParents g (g.parents c) (fl.setResult c) ws).2 := by
      obtain ⟨m1, m2, m3⟩ := markParents_spec g (g.parents c) (fl.setResult c) ws
      have hst0 : ∀ x, ((fl.setResult c) x).stale = (fl x).stale := fun x => set_result_stale fl c x
      have hres0 : ∀ x, ((fl.setResult c) x).result = ((fl x).result || decide (x = c)) :=
        fun x => set_result_result fl c x
      refine ⟨?_, ?_, ?_, ?_, ?_⟩
      · intro x
        rw [m1, hres0]
        simp only [Bool.or_eq_true, decide_eq_true_eq, List.mem_append, List.mem_singleton]
        rw [h.result_iff]
      · intro x
        rw [m2, hst0]
        simp only [Bool.or_eq_true, decide_eq_true_eq]
        constructor
        · intro hx
          cases hx with
          | inl hx =>
            obtain ⟨e, he, hex⟩ := (h.stale_iff x).mp hx
            exact ⟨e, (m3 e).mpr (Or.inl he), hex⟩
          | inr hx =>
            by_cases hst : (fl x).stale = true
            · obtain ⟨e, he, hex⟩ := (h.stale_iff x).mp hst
              exact ⟨e, (m3 e).mpr (Or.inl he), hex⟩
            · have hstf : (fl x).stale = false := by simpa using hst
              refine ⟨(x, keyOf g x), (m3 _).mpr (Or.inr ⟨hx, ?_, rfl⟩), rfl⟩
              simp only; rw [hst0]; exact hstf
        · intro hx
          obtain ⟨e, he, hex⟩ := hx
          cases (m3 e).mp he with
          | inl h' => exact Or.inl ((h.stale_iff x).mpr ⟨e, h', hex⟩)
          | inr h' => exact Or.inr (hex ▸ h'.1)
      · intro e he
        cases (m3 e).mp he with
        | inl h' => exact h.ws_key e h'
        | inr h' => exact h'.2.2
      · intro e he
        cases (m3 e).mp he with
        | inl h' =>
          obtain ⟨r, hr, hp⟩ := h.ws_parent e h'
          exact ⟨r, List.mem_append_left _ hr, hp⟩
        | inr h' => exact ⟨c, List.mem_append_right _ (List.mem_singleton.mpr rfl), h'.1⟩
      · intro r hr p hp
        cases List.mem_append.mp hr with
        | inl h' =>
          obtain ⟨e, he, hex⟩ := h.parents_in r h' p hp
          exact ⟨e, (m3 e).mpr (Or.inl he), hex⟩
        | inr h' =>
          simp only [List.mem_singleton] at h'
          subst h'
          by_cases hst : (fl p).stale = true
          · obtain ⟨e, he, hex⟩ := (h.stale_iff p).mp hst
            exact ⟨e, (m3 e).mpr (Or.inl he), hex⟩
          · have hstf : (fl p).stale = false := by simpa using hst
            refine ⟨(p, keyOf g p), (m3 _).mpr (Or.inr ⟨hp, ?_, rfl⟩), rfl⟩
            simp only; rw [hst0]; exact hstf
    have := ih (done ++ [c]) _ _ key
    simpa [List.append_assoc] using this

theorem unmark_spec : ∀ (ws : List (Nat × Key)) (fl : FlagMap),
    (∀ x, ((unmark ws fl) x).result = (fl x).result) ∧
    (∀ x, ((unmark ws fl) x).stale = ((fl x).stale && !decide (∃ e, e ∈ ws ∧ e.1 = x))) := by
  intro ws
  induction ws with
  | nil => intro fl; simp [unmark]
  | cons c cs ih =>
    intro fl
    obtain ⟨c, ck⟩ := c
    have hu : unmark ((c, ck) :: cs) fl = unmark cs (fl.clearStale c) := by
      simp [unmark, List.foldl_cons]
    rw [hu]
    obtain ⟨h1, h2⟩ := ih (fl.clearStale c)
    refine ⟨?_, ?_⟩
    · intro x
      rw [h1, clear_stale_result]
    · intro x
      rw [h2, clear_stale_stale]
      by_cases hx : x = c
      · subst hx
        simp
      · have : (∃ e, e ∈ (c, ck) :: cs ∧ e.1 = x) ↔ (∃ e, e ∈ cs ∧ e.1 = x) := by
          constructor
          · intro ⟨e, he, hex⟩
            cases List.mem_cons.mp he with
            | inl h => subst h; exact absurd hex.symm hx
            | inr h => exact ⟨e, h, hex⟩
          · intro ⟨e, he, hex⟩
            exact ⟨e, List.mem_cons_of_mem _ he, hex⟩
        simp only [this, hx, decide_false, Bool.not_false, Bool.and_true]

end GixModel.C46
