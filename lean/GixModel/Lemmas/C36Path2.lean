import GixModel.Lemmas.C36Path
/-
C36 — path mode with runs of stars (joint induction with the look-behind byte).
-/
namespace GixModel.C36
open GixModel GixModel.Spec.C36

theorem getElem?_of_drop {l : Bytes} {k : Nat} {c : UInt8} {r : Bytes} (h : l.drop k = c :: r) : l[k]? = some c := by
  have := congrArg (fun x => x[0]?) h
  simpa [List.getElem?_drop] using this

theorem run_drop (r2 : Bytes) :
    ((42 : UInt8) :: r2).drop (r2.length - (r2.dropWhile (· == 42)).length) = 42 :: r2.dropWhile (· == 42) := by
  induction r2 with
  | nil => rfl
  | cons a r' ih =>
    by_cases ha : a = 42
    · subst ha
      have hl := dropWhile_length_le (· == 42) r'
      simp only [List.dropWhile_cons, beq_self_eq_true, if_true, List.length_cons]
      rw [show r'.length + 1 - (List.dropWhile (fun x => x == 42) r').length
        = (r'.length - (List.dropWhile (fun x => x == 42) r').length) + 1 by omega]
      simpa using ih
    · simp [List.dropWhile_cons, ha]

/-- path mode with runs of stars that are not `**/` boundaries in the middle -/
theorem go_rel_p (m : Mode) (hpm : m.noMatchSlash = true) :
    ∀ (fuel d : Nat) (pattern text : Bytes), PatOk m pattern → (∀ c ∈ text, c ≠ 0) →
      ∀ (ps ts : Bytes) (i ti : Nat) (prev : Option UInt8),
        pattern.drop i = ps → text.drop ti = ts → ps.length ≤ fuel → count42 ps ≤ d →
        (ps ≠ [] → prev = if i = 0 then none else pattern[i - 1]?) → okDSaux prev ps = true →
        RelAA (go m fuel d pattern text ⟨i, ps⟩ ⟨ti, ts⟩) (dowild (flagsOf m) fuel prev ps ts) := by
  intro fuel
  induction fuel with
  | zero => intros; left; simp [go, dowild, ofWm]
  | succ n ih =>
    intro d pattern text hok htext ps ts i ti prev hinv htinv hfuel hdepth hprev hds
    have htnn : ∀ c ∈ ts, c ≠ 0 := fun c hc => htext c (List.mem_of_mem_drop (htinv ▸ hc))
    cases ps with
    | nil =>
      left
      rw [go_nil, dw_nil (by intro h; exact (htnn 0 h) rfl)]
      cases ts <;> simp [ofWm]
    | cons c r =>
      have hmem : ∀ x ∈ c :: r, x ∈ pattern := fun x hx => List.mem_of_mem_drop (hinv ▸ hx)
      have hc0 : c ≠ 0 := hok.noNul c (hmem c (by simp))
      have hr := drop_succ_of_drop hinv
      have hrl : r.length ≤ n := by simp at hfuel; omega
      have hrd : count42 r ≤ d := Nat.le_trans (count42_tail_le c r) hdepth
      obtain ⟨s42, s92, s63, s91, s47, s0, s93⟩ := lc_special m c
      by_cases h42 : c = 42
      · subst h42
        have hpf : (flagsOf m).pathname = true := by simpa using hpm
        -- a single star (or the last star of a collapsed run) at index `i` in front of `r`
        have arm : ∀ (i : Nat) (r : Bytes) (prev : Option UInt8), pattern.drop i = 42 :: r → hd r ≠ 42 →
            okDSaux (some 42) r = true → r.length ≤ n → count42 r + 1 ≤ d →
            RelAA (go m (n + 1) d pattern text ⟨i, 42 :: r⟩ ⟨ti, ts⟩)
              (dowild (flagsOf m) (n + 1) prev (42 :: r) ts) := by
          intro i r prev hinv hne hrds hrl hdpos
          have hr := drop_succ_of_drop hinv
          have hdne : d ≠ 0 := by omega
          have hilen : i + 1 ≤ pattern.length := lt_of_drop_cons hinv
          cases r with
          | nil =>
            left
            rw [go_star_end', dw_star_end]
            have hs : sliceFrom text (if ts.isEmpty then text.length else ti) = some ts := by
              unfold sliceFrom
              cases ts with
              | nil => simp
              | cons a b =>
                have := lt_of_drop_cons htinv
                simp [Nat.le_of_lt this, htinv]
            rw [hs]
            simp only [contains47_iff, flagsOf_pathname]
            by_cases hcnd : (m.noMatchSlash && (strchrSlash ts).isSome) = true
            · simp [hcnd, ofWm]
            · simp [hcnd, ofWm]
          | cons c1 r' =>
            have hc1_42 : c1 ≠ 42 := by simpa [hd] using hne
            have hc1_0 : c1 ≠ 0 := hok.noNul c1 (List.mem_of_mem_drop (hinv ▸ (by simp : c1 ∈ (42 : UInt8) :: c1 :: r')))
            have hl42 : lc m c1 ≠ 42 := fun h => hc1_42 ((lc_special m c1).1.mp h)
            have h47 : lc m c1 = 47 ↔ c1 = 47 := (lc_special m c1).2.2.2.2.1
            have hr2 := drop_succ_of_drop hr
            rw [dw_star1 hc1_0 hc1_42]
            by_cases hns : m.noMatchSlash = true ∧ lc m c1 = 47
            · have hcS : ((flagsOf m).pathname && c1 == 47) = true := by
                simp [hns.1, h47.mp hns.2]
              simp only [hcS, if_true]
              cases ts with
              | nil =>
                left
                rw [go_star1_slash_nil hns]
                simp [strchrSlash, ofWm]
              | cons tc tr =>
                have hti := lt_of_drop_cons htinv
                rw [go_star1_slash hns]
                have hsl : sliceFrom text ti = some (tc :: tr) := by
                  unfold sliceFrom; simp [Nat.le_of_lt hti, htinv]
                rw [hsl]
                simp only []
                cases hf : findSlash (tc :: tr) with
                | none => left; simp [findSlash_none hf, ofWm]
                | some dist =>
                  obtain ⟨h1, h2⟩ := findSlash_some hf
                  rw [h1]
                  simp only []
                  have hd' : dist ≤ tr.length := by simp at h2; omega
                  have hadv : (Iter.mk (ti + 1) tr).advance dist = ⟨ti + 1 + dist, tr.drop dist⟩ := by
                    simp [Iter.advance, Nat.min_eq_left hd']
                  rw [hadv]
                  have htail : (List.drop dist (tc :: tr)).tail = tr.drop dist := by
                    rw [List.tail_drop]; simp
                  rw [htail]
                  have hc47 : c1 = 47 := h47.mp hns.2
                  exact ih d pattern text hok htext r' (tr.drop dist) (i + 2) (ti + 1 + dist) (some 47) hr2
                    (by
                      have := drop_add_eq htinv (1 + dist)
                      rw [← Nat.add_assoc] at this
                      rw [this]; simp [Nat.add_comm 1 dist])
                    (by simp at hrl ⊢; omega)
                    (Nat.le_trans (count42_tail_le c1 r') (by omega))
                    (fun _ => by
                      have := getElem?_of_drop hr
                      simp [this, hc47])
                    (hc47 ▸ okDSaux_tail hrds)
            · have hcS : ((flagsOf m).pathname && c1 == 47) = false := by
                cases hp : m.noMatchSlash with
                | false => simp [hp]
                | true =>
                  have : ¬ c1 = 47 := fun e => hns ⟨hp, h47.mpr e⟩
                  simp [hp, this]
              simp only [hcS, Bool.false_eq_true, if_false]
              -- the recursive calls: by the induction hypothesis, on the rest of the pattern
              have hsubok : PatOk m (c1 :: r') := by rw [← hr]; exact patOk_drop hok (i + 1)
              have hsubds : okDSaux none (c1 :: r') = true := by rw [okDSaux_head (p2 := some 42) hc1_42]; exact hrds
              have hrecM : ∀ k, k ≤ text.length →
                  RelAA (recCall m n d pattern text (i + 1) k)
                    (dowild (flagsOf m) n none (c1 :: r') (text.drop k)) := by
                intro k hk
                unfold recCall sliceFrom
                simp only [hilen, hk, if_true]
                have hd' : (d == 0) = false := by simpa using hdne
                simp only [hd', Bool.false_eq_true, if_false, Iter.ofSlice, hr]
                exact ih (d - 1) (c1 :: r') (text.drop k) hsubok
                  (fun c hc => htext c (List.mem_of_mem_drop hc)) (c1 :: r') (text.drop k) 0 0 none
                  (by simp) (by simp) (by simpa using hrl) (by omega) (fun _ => rfl) hsubds
              have hrecBeyond : ∀ k, text.length < k → recCall m n d pattern text (i + 1) k ≠ .matched := by
                intro k hk
                unfold recCall sliceFrom
                have : ¬ k ≤ text.length := by omega
                simp [this]
              cases ts with
              | nil =>
                rw [go_star1_nil hl42 hns]
                simp only [hd, List.headD_nil]
                have hf0 : Spec.C36.fold (flagsOf m) 0 = 0 := by rw [fold_eq_lc]; exact (lc_special m 0).2.2.2.2.2.1.mpr rfl
                rw [hf0, List.length_nil, sl_zero]
                right
                refine ⟨rfl, ?_⟩
                by_cases hg : isGlobCharacter (lc m c1) = true
                · rw [starLoop_glob m _ _ _ _ hg]
                  have hR := hrecM text.length (Nat.le_refl _)
                  simp only [List.drop_length] at hR
                  obtain ⟨n', e⟩ : ∃ n', n = n' + 1 := ⟨n - 1, by simp at hrl; omega⟩
                  subst e
                  rw [dw_abort hc1_0 hc1_42] at hR
                  have hne := hR.ne_matched (by simp)
                  simp only [Iter.next]
                  split
                  · exact hne
                  · split <;> simp
                · simp only [Bool.not_eq_true] at hg
                  have hne : (0 : UInt8) ≠ lc m c1 := fun h => hc1_0 ((lc_special m c1).2.2.2.2.2.1.mp h.symm)
                  rw [starLoop_end m _ _ _ _ hg hne]
                  simp
              | cons tc tr =>
                have hti := lt_of_drop_cons htinv
                have hlen : text.length - ti = tr.length + 1 := by
                  have := congrArg List.length htinv
                  simpa using this
                rw [go_star1 hl42 hns]
                have := starLoop_relAA m (fun k => recCall m n d pattern text (i + 1) k)
                  (fun tx => dowild (flagsOf m) n none (c1 :: r') tx) (c1 :: r') (!m.noMatchSlash)
                  (by simpa [hd] using hc1_0)
                  (by
                    intro ⟨h1, h2⟩
                    apply hns
                    refine ⟨by simpa using h1, by simpa [hd] using h2⟩)
                  (tc :: tr) htnn (by simp) ti (tr.length + 1) ((tc :: tr).length + 1)
                  (Spec.C36.fold (flagsOf m) (hd (tc :: tr)))
                  (by simp) (by simp) (Or.inr rfl)
                  (by
                    intro j hj
                    have := hrecM (ti + j) (by simp at hj; omega)
                    rwa [drop_add_eq htinv j] at this)
                  (by
                    intro k' hk'
                    by_cases hk : k' ≤ text.length
                    · -- exactly the end of the text: the recursive call sees an empty text and aborts
                      have hke : k' = text.length := by simp at hk'; omega
                      subst hke
                      have hR := hrecM text.length (Nat.le_refl _)
                      simp only [List.drop_length] at hR
                      obtain ⟨n', e⟩ : ∃ n', n = n' + 1 := ⟨n - 1, by simp at hrl; omega⟩
                      subst e
                      rw [dw_abort hc1_0 hc1_42] at hR
                      exact hR.ne_matched (by simp)
                    · exact hrecBeyond k' (by omega))
                  (by
                    intro j hj' i'
                    have := dowild_abort_sound_p m n none (c1 :: r') ((tc :: tr).drop j) hsubds hsubok.noNul
                      (fun c hc => htnn c (List.mem_of_mem_drop hc)) hj' i'
                    rwa [List.drop_drop] at this)
                simpa [hd, flagsOf_pathname] using this
        have hr2len : r.length ≤ n := hrl
        cases r with
        | nil => exact arm i [] prev hinv (by simp [hd]) (okDSaux_nil _) (by simp) (by rw [count42_cons42] at hdepth; exact hdepth)
        | cons a r2 =>
          by_cases ha : a = 42
          · subst ha
            -- a run of stars
            have hxds := okDSaux_dropWhile hds
            have hxlen := dropWhile_length_le (· == 42) r2
            have hxcnt : count42 (r2.dropWhile (· == 42)) ≤ count42 r2 := by
              obtain ⟨kx, hkx⟩ := dropWhile_is_drop (· == 42) r2
              rw [hkx]; exact count42_drop r2 kx
            have hdep2 : count42 r2 + 2 ≤ d := by
              rw [count42_cons42, count42_cons42] at hdepth; omega
            have hilt : i < pattern.length := lt_of_drop_cons hinv
            -- the look-behind of the model is the look-behind of git
            have hlead : leadOf pattern i = some (prevOk prev) := by
              have hp := hprev (by simp)
              unfold leadOf
              by_cases hi : i = 0
              · simp [hi] at hp ⊢; simp [hp, prevOk]
              · simp only [hi, if_false] at hp ⊢
                have : i - 1 < pattern.length := by omega
                rw [List.getElem?_eq_getElem this] at hp ⊢
                simp [hp, prevOk]
            have hxn : ∀ c ∈ r2.dropWhile (· == 42), c ≠ 0 := by
              obtain ⟨kx, hkx⟩ := dropWhile_is_drop (· == 42) r2
              intro c hc; rw [hkx] at hc
              have h1 : c ∈ r2 := List.mem_of_mem_drop hc
              have h2 : c ∈ ((42 : UInt8) :: 42 :: r2) := by simp [h1]
              exact hok.noNul c (List.mem_of_mem_drop (hinv ▸ h2))
            by_cases hb : prevOk prev = true ∧ r2.dropWhile (· == 42) = []
            · left
              rw [go_run_end hpm (by rw [hlead, hb.1]) hb.2 (fun hts => Nat.le_of_lt (by
                  cases ts with
                  | nil => exact absurd rfl hts
                  | cons a b => exact lt_of_drop_cons htinv)),
                dw_run_end hpf hb.2 hb.1]
              rfl
            · have hh := hds
              unfold okDSaux at hh
              simp only [Bool.and_eq_true, Bool.not_eq_true'] at hh
              have hsl : (prevOk prev && slashish (r2.dropWhile (· == 42))) = false := hh.1
              have hnbS : (prevOk prev && followsB (r2.dropWhile (· == 42))) = false := by
                cases hpo : prevOk prev with
                | false => simp
                | true =>
                  have hne : r2.dropWhile (· == 42) ≠ [] := fun e => hb ⟨hpo, e⟩
                  rw [hpo] at hsl
                  simp only [Bool.true_and] at hsl
                  cases hx : r2.dropWhile (· == 42) with
                  | nil => exact absurd hx hne
                  | cons b x' =>
                    have hb0 : b ≠ 0 := by rw [hx] at hxn; exact hxn b (by simp)
                    rw [hx] at hsl
                    simp only [slashish, hd, List.headD_cons, List.tail_cons] at hsl
                    simp only [followsB, hd, List.headD_cons, List.tail_cons, Bool.true_and]
                    simp [hb0] at hsl ⊢
                    exact hsl
              have hnbM : (prevOk prev && followsM (r2.dropWhile (· == 42))) = false := by
                cases hpo : prevOk prev with
                | false => simp
                | true =>
                  have hne : r2.dropWhile (· == 42) ≠ [] := fun e => hb ⟨hpo, e⟩
                  rw [hpo] at hsl
                  simp only [Bool.true_and] at hsl
                  cases hx : r2.dropWhile (· == 42) with
                  | nil => exact absurd hx hne
                  | cons b x' =>
                    rw [hx] at hsl
                    simp only [slashish, hd, List.headD_cons, List.tail_cons] at hsl
                    simpa [followsM, hd] using hsl
              rw [go_run_collapse hpm (prevOk prev) hlead hnbM, dw_run_collapse (prev' := some 42) hpf hnbS]
              have hr2 : pattern.drop (i + 1) = 42 :: r2 := drop_succ_of_drop hinv
              exact arm _ _ (some 42)
                (by rw [← List.drop_drop, hr2]; exact run_drop r2)
                (hd_dropWhile42 r2) hxds (by simp at hr2len; omega) (by omega)
          · exact arm i (a :: r2) prev hinv (by simpa [hd] using ha) (okDSaux_tail hds) hrl
              (by rw [count42_cons42] at hdepth; exact hdepth)
      · have hc42 : c ≠ 42 := h42
        cases ts with
        | nil =>
          left
          rw [go_abort (by rw [Ne, s42]; exact hc42), dw_abort hc0 hc42]
          rfl
        | cons tc tr =>
          have htc : tc ≠ 0 := htnn tc (by simp)
          have htr := drop_succ_of_drop htinv
          have htc' : lc m tc ≠ 0 := fun h => htc ((lc_special m tc).2.2.2.2.2.1.mp h)
          by_cases h92 : c = 92
          · subst h92
            cases r with
            | nil =>
              left
              rw [go_esc_end (by rw [s92]), dw_esc hc0 htc (by rw [fold_eq_lc, s92])]
              simp [hd, fold_eq_lc, ofWm, htc']
            | cons e r2 =>
              rw [go_esc (by rw [s92]), dw_esc hc0 htc (by rw [fold_eq_lc, s92])]
              have hle : lc m e = e := by
                cases hic : m.ignoreCase with
                | false => simp [lc, hic]
                | true =>
                  have := escSafe_drop pattern (hok.icase hic).2 i
                  rw [hinv] at this
                  simp [escSafe] at this
                  exact lc_of_not_upper m e (by simpa using this.1)
              simp only [hd, List.headD_cons, List.tail_cons, fold_eq_lc, hle]
              have hr2 := drop_succ_of_drop hr
              have := ih d pattern text hok htext r2 tr (i + 2) (ti + 1) (some e) hr2 htr
                (by simp at hrl ⊢; omega) (Nat.le_trans (count42_tail_le e r2) hrd)
                (fun _ => by have := getElem?_of_drop hr; simp [this]) (okDSaux_tail (okDSaux_tail hds))
              exact relAA_if (by constructor <;> (intro h; exact fun x => h x.symm)) this
          · by_cases h63 : c = 63
            · subst h63
              rw [go_qm (by rw [s63]), dw_qm hc0 htc (by rw [fold_eq_lc, s63])]
              have := ih d pattern text hok htext r tr (i + 1) (ti + 1) (some 63) hr htr hrl hrd
                (fun _ => by have := getElem?_of_drop hinv; simp [this]) (okDSaux_tail hds)
              simp only [fold_eq_lc, flagsOf_pathname]
              exact relAA_if (by simp) this
            · by_cases h91 : c = 91
              · subst h91
                have hic : m.ignoreCase = false := by
                  cases h : m.ignoreCase with
                  | false => rfl
                  | true => exact absurd rfl ((hok.icase h).1 91 (hmem 91 (by simp)))
                rw [go_br (by rw [s91]), dw_br hc0 htc (by rw [fold_eq_lc, s91])]
                have hb := bracket_rel m hic pattern hok.noNul (lc m tc) n (i + 1) r hr
                simp only [fold_eq_lc, flagsOf_pathname]
                cases hbs : Spec.C36.bracket (flagsOf m) (lc m tc) n r with
                | abort =>
                  rw [hbs] at hb
                  cases hbm : C36.bracket m pattern (lc m tc) n ⟨i + 1, r⟩ <;> rw [hbm] at hb <;> simp [BrRel] at hb
                  left; rfl
                | fuel =>
                  rw [hbs] at hb
                  cases hbm : C36.bracket m pattern (lc m tc) n ⟨i + 1, r⟩ <;> rw [hbm] at hb <;> simp [BrRel] at hb
                  left; rfl
                | done ok' rest =>
                  rw [hbs] at hb
                  have hlen := spec_bracket_len _ _ _ _ _ _ hbs
                  obtain ⟨jd, hjd⟩ := spec_bracket_suffix _ _ _ _ _ _ hbs
                  cases hbm : C36.bracket m pattern (lc m tc) n ⟨i + 1, r⟩ with
                  | abort => rw [hbm] at hb; simp [BrRel] at hb
                  | panic => rw [hbm] at hb; simp [BrRel] at hb
                  | fuel => rw [hbm] at hb; simp [BrRel] at hb
                  | done ok p =>
                    rw [hbm] at hb
                    obtain ⟨h1, h2, h3⟩ := hb
                    obtain ⟨k, pr⟩ := p
                    simp at h2 h3
                    subst h1 h2
                    simp only []
                    obtain ⟨kc, hkc⟩ := spec_bracket_close _ _ _ _ _ _ hbs
                    have := ih d pattern text hok htext pr tr k (ti + 1) (some 93) h3 htr (by omega)
                      (by rw [hjd]; exact Nat.le_trans (count42_drop r jd) hrd)
                      (fun hpr => by
                        -- the byte in front of what the bracket leaves is its `]`
                        have h93 : pattern.drop (i + 1 + kc) = 93 :: pr := by rw [← List.drop_drop, hr]; exact hkc
                        have h1 : i + 1 + kc < pattern.length := lt_of_drop_cons h93
                        have hk2 : pattern.drop (i + 1 + kc + 1) = pr := drop_succ_of_drop h93
                        have hklt : k < pattern.length := by
                          cases pr with
                          | nil => exact absurd rfl hpr
                          | cons a b => exact lt_of_drop_cons h3
                        have hkeq : k = i + 1 + kc + 1 := by
                          have e1 := congrArg List.length h3
                          have e2 := congrArg List.length hk2
                          simp at e1 e2
                          have : pr.length ≠ 0 := by
                            cases pr with
                            | nil => exact absurd rfl hpr
                            | cons a b => simp
                          omega
                        subst hkeq
                        have := getElem?_of_drop h93
                        simp [this])
                      (okDSaux_drop (okDSaux_tail hds) kc 93 pr hkc)
                    exact relAA_if (by simp) this
              · rw [go_lit (by rw [Ne, s42]; exact hc42) (by rw [Ne, s92]; exact h92)
                    (by rw [Ne, s63]; exact h63) (by rw [Ne, s91]; exact h91),
                  dw_lit hc0 htc (by rw [fold_eq_lc, Ne, s42]; exact hc42) (by rw [fold_eq_lc, Ne, s92]; exact h92)
                    (by rw [fold_eq_lc, Ne, s63]; exact h63) (by rw [fold_eq_lc, Ne, s91]; exact h91)]
                have := ih d pattern text hok htext r tr (i + 1) (ti + 1) (some c) hr htr hrl hrd
                  (fun _ => by have := getElem?_of_drop hinv; simp [this]) (okDSaux_tail hds)
                simp only [fold_eq_lc]
                exact relAA_if (by constructor <;> (intro h; exact fun x => h x.symm)) this



end GixModel.C36
