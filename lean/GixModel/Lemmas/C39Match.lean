import GixModel.Lemmas.C39Prefix
import GixModel.Spec.C39
/-
C39 — one pattern: gitoxide's `match_verbatim` / glob-with-fallback decision is git's
`match_pathspec_item`, and the first-match-in-exclude-first-order of `Search` is git's
"some positive item matches and no exclude item does".
-/
namespace GixModel.Lemmas.C39
open GixModel GixModel.C38 GixModel.C39 GixModel.Spec.C39

/-- the `pathspec_item` git builds for the pathspec gitoxide parsed and normalised to `s`:
`match` keeps the trailing slash that gitoxide turns into MUST_BE_DIR -/
def itemOf (s : PSpec) : Item :=
  { top := s.top, literal := decide (s.mode = Mode.literal), glob := decide (s.mode = Mode.glob), icase := s.icase,
    exclude := s.exclude, hasAttr := !s.attrs.isEmpty, attrMatch := s.attrs,
    match_ := if s.nil || s.path.isEmpty then [] else s.path ++ (if s.mustBeDir then [47] else []) }

/-- what the proof needs of a wildcard matcher: a pattern that ends in a literal `/` only matches
values that end in `/` (true of `wildmatch`; property C36) -/
def WmSlash (wm : Bytes → Bytes → Bool → Bool → Bool) : Prop :=
  ∀ (text value : Bytes) (pathname icase : Bool), wm (text ++ [47]) value pathname icase = true →
    value.getLast? = some 47

/-- a normalised spec: its path does not end in a slash -/
def SpecOk (s : PSpec) : Prop := s.path.getLast? ≠ some 47

/-- an index path: non-empty, no trailing slash -/
def NameOk (n : Bytes) : Prop := n ≠ [] ∧ n.getLast? ≠ some 47

theorem all_congr' {α : Type} (l : List α) (f g : α → Bool) (h : ∀ a ∈ l, f a = g a) : l.all f = l.all g := by
  induction l with
  | nil => rfl
  | cons a l ih =>
    simp only [List.all_cons, h a (by simp), ih (fun b hb => h b (by simp [hb]))]

theorem attrsMatch_eq (env : C39.Env) (m : Mapping) (path : Bytes) :
    attrsMatch env m path = m.spec.attrs.all fun a => (env.attr path a.name).getD St.unspecified == a.st := by
  unfold attrsMatch
  by_cases he : m.spec.attrs.isEmpty = true
  · have : m.spec.attrs = [] := by simpa using he
    simp [this]
  · simp only [he, Bool.false_eq_true, if_false]
    by_cases hany : (m.spec.attrs.any fun a => (env.attr path a.name).isSome) = true
    · simp [hany]
    · have hnone : ∀ a ∈ m.spec.attrs, env.attr path a.name = none := by simpa using hany
      simp only [hany, Bool.not_false, if_true]
      rw [all_congr' m.spec.attrs (fun a => (env.attr path a.name).getD St.unspecified == a.st)
        (fun a => St.unspecified == a.st) (fun a ha => by simp only [hnone a ha]; rfl)]
      generalize m.spec.attrs = l
      induction l with
      | nil => rfl
      | cons a as ih =>
        simp only [List.any_cons, List.all_cons, Bool.not_or, ih]
        congr 1
        cases a.st <;> rfl

/-! ### case-insensitive comparison of equally long pieces -/

theorem eqIgnoreCase_length {a b : Bytes} (h : eqIgnoreCase a b = true) : a.length = b.length := by
  induction a generalizing b with
  | nil => cases b with | nil => rfl | cons _ _ => simp [eqIgnoreCase] at h
  | cons x a ih =>
    cases b with
    | nil => simp [eqIgnoreCase] at h
    | cons y b =>
      simp only [eqIgnoreCase, Bool.and_eq_true] at h
      simp [ih h.2]

theorem eqIgnoreCase_append (a b a' b' : Bytes) (hl : a.length = b.length) :
    eqIgnoreCase (a ++ a') (b ++ b') = (eqIgnoreCase a b && eqIgnoreCase a' b') := by
  induction a generalizing b with
  | nil =>
    cases b with
    | nil => simp [eqIgnoreCase]
    | cons _ _ => simp at hl
  | cons x a ih =>
    cases b with
    | nil => simp at hl
    | cons y b =>
      simp only [List.cons_append, eqIgnoreCase, List.length_cons, Nat.add_right_cancel_iff] at hl ⊢
      rw [ih b hl, Bool.and_assoc]

theorem lower_eq_slash (c : UInt8) : (asciiLower 47 == asciiLower c) = (c == 47) := by
  have h47 : asciiLower 47 = 47 := by decide
  rw [h47]
  unfold asciiLower
  by_cases h : (65 ≤ c && c ≤ 90) = true
  · simp only [h, if_true]
    simp only [Bool.and_eq_true, decide_eq_true_eq] at h
    have h1 : 65 ≤ c.toNat := h.1
    have h2 : c.toNat ≤ 90 := h.2
    have hne : ¬ c = 47 := by intro hc; rw [hc] at h1; simp at h1
    have hne2 : ¬ (47 : UInt8) = c + 32 := by
      intro hc
      have := congrArg UInt8.toNat hc
      rw [UInt8.toNat_add] at this
      simp at this
      omega
    rw [beq_eq_false_iff_ne.mpr hne2, beq_eq_false_iff_ne.mpr hne]
  · simp only [h, Bool.false_eq_true, if_false]
    by_cases hc : c = 47
    · simp [hc]
    · have hc' : ¬ (47 : UInt8) = c := fun h => hc h.symm
      rw [beq_eq_false_iff_ne.mpr hc', beq_eq_false_iff_ne.mpr hc]

theorem append_singleton_eq (p q : Bytes) (x y : UInt8) :
    (p ++ [x] == q ++ [y]) = (p == q && x == y) := by
  by_cases h1 : p = q
  · subst h1
    by_cases h2 : x = y
    · subst h2; simp
    · have : ¬ (p ++ [x] = p ++ [y]) := by
        intro h; apply h2; have := List.append_cancel_left h; simpa using this
      simp [h2]
  · have : ¬ (p ++ [x] = q ++ [y]) := fun h => h1 (List.append_inj_left' h rfl)
    simp [this, h1]

/-- comparing `p/` with the first `|p|+1` bytes of a name: the name continues with a slash after `p` -/
theorem psEq_slash (it : Item) (p name : Bytes) :
    (decide (p.length + 1 ≤ name.length) && psEq it (p ++ [47]) (name.take (p.length + 1)))
      = (name[p.length]? == some 47 && psEq it p (name.take p.length)) := by
  by_cases hlen : p.length + 1 ≤ name.length
  · have hlt : p.length < name.length := by omega
    have htake : name.take (p.length + 1) = name.take p.length ++ [name[p.length]] := by
      rw [List.take_add_one, List.getElem?_eq_getElem hlt]; rfl
    have hget : (name[p.length]? == some 47) = (name[p.length] == 47) := by
      rw [List.getElem?_eq_getElem hlt]; simp
    have hl : p.length = (name.take p.length).length := by rw [List.length_take]; omega
    rw [htake, hget]
    simp only [hlen, decide_true, Bool.true_and]
    unfold psEq
    cases it.icase
    · simp only [Bool.false_eq_true, if_false]
      rw [append_singleton_eq, Bool.and_comm]
      congr 1
      exact BEq.comm
    · simp only [if_true]
      rw [eqIgnoreCase_append p (name.take p.length) [47] [name[p.length]] hl]
      simp only [eqIgnoreCase, Bool.and_true, lower_eq_slash]
      rw [Bool.and_comm]
  · have hnone : name[p.length]? = none := List.getElem?_eq_none (by omega)
    simp [hlen, hnone]

theorem firstWildcardPos_append_slash (p : Bytes) :
    (firstWildcardPos (p ++ [47])).isSome = (firstWildcardPos p).isSome := by
  induction p with
  | nil => simp [firstWildcardPos, isGlobChar]
  | cons c p ih =>
    simp only [List.cons_append, firstWildcardPos]
    split
    · rfl
    · cases h1 : firstWildcardPos (p ++ [47]) <;> cases h2 : firstWildcardPos p <;> simp_all

theorem nowildcard_lt (s : PSpec) (hne : (s.nil || s.path.isEmpty) = false) :
    (decide ((itemOf s).nowildcardLen < (itemOf s).match_.length))
      = (decide (s.mode ≠ Mode.literal) && (firstWildcardPos s.path).isSome) := by
  unfold Item.nowildcardLen itemOf
  simp only [hne, Bool.false_eq_true, if_false]
  by_cases hl : s.mode = Mode.literal
  · simp [hl]
  · simp only [hl, decide_false, Bool.false_eq_true, if_false, ne_eq, not_false_eq_true, decide_true, Bool.true_and]
    have key : ∀ (t : Bytes), decide ((firstWildcardPos t).getD t.length < t.length) = (firstWildcardPos t).isSome := by
      intro t
      cases hf : firstWildcardPos t with
      | none => simp
      | some k => have := firstWildcardPos_lt t k hf; simp [this]
    rw [key]
    cases s.mustBeDir
    · simp
    · simp only [if_true]; exact firstWildcardPos_append_slash s.path

/-- `match_pathspec_item` after the attribute check -/
def itemPathMatch (env : C39.Env) (it : Item) (name : Bytes) : Bool :=
  let m := it.match_
  if m.isEmpty then true
  else if decide (m.length ≤ name.length) && psEq it m (name.take m.length)
      && (m.length == name.length || m.getLast? == some 47 || name[m.length]? == some 47) then true
  else if decide (it.nowildcardLen < m.length) && env.wm m name it.glob it.icase then true
  else false

theorem matchItem_split (env : C39.Env) (it : Item) (name : Bytes) :
    matchItem env it name = (matchAttrs env it name && itemPathMatch env it name) := by
  unfold matchItem itemPathMatch
  by_cases he : it.attrMatch.isEmpty = true
  · have : matchAttrs env it name = true := by
      unfold matchAttrs
      have : it.attrMatch = [] := by simpa using he
      simp [this]
    simp [he, this]
  · cases hm : matchAttrs env it name <;> simp [he, hm]

/-- gitoxide's verbatim match is the literal comparison of `match_pathspec_item` -/
theorem matchVerbatim_eq (s : PSpec) (hs : SpecOk s) (hal : (s.nil || s.path.isEmpty) = false) (name : Bytes)
    (f : Option Nat) :
    matchVerbatim ⟨s, f⟩ name false
      = (decide ((itemOf s).match_.length ≤ name.length) && psEq (itemOf s) (itemOf s).match_ (name.take (itemOf s).match_.length)
          && ((itemOf s).match_.length == name.length || (itemOf s).match_.getLast? == some 47
              || name[(itemOf s).match_.length]? == some 47)) := by
  unfold matchVerbatim
  simp only [Bool.or_false]
  have hpsEq : ∀ a b, (if s.icase then eqIgnoreCase a b else a == b) = psEq (itemOf s) a b := fun _ _ => rfl
  rw [hpsEq]
  cases hd : s.mustBeDir with
  | false =>
    have hm : (itemOf s).match_ = s.path := by simp [itemOf, hal, hd]
    have hlast : (s.path.getLast? == some 47) = false := by
      have := hs; unfold SpecOk at this
      cases hg : s.path.getLast? with
      | none => rfl
      | some x => rw [hg] at this; simp; intro hx; exact this (by rw [hx])
    rw [hm, hlast]
    simp only [Bool.not_false, Bool.true_or, Bool.and_true, Bool.or_false]
    cases hget : name[s.path.length]? with
    | none =>
      have hle : name.length ≤ s.path.length := by
        by_cases h : s.path.length < name.length
        · rw [List.getElem?_eq_getElem h] at hget; simp at hget
        · omega
      by_cases heq : name.length = s.path.length
      · simp [heq]
      · have hlt : ¬ s.path.length ≤ name.length := by omega
        have hne : (s.path.length == name.length) = false := by simp; omega
        have hne2 : (name.length == s.path.length) = false := by simp; omega
        simp [hlt, hne, hne2]
    | some c =>
      have hlt : s.path.length < name.length := by
        by_cases h : s.path.length < name.length
        · exact h
        · rw [List.getElem?_eq_none (by omega)] at hget; simp at hget
      have hle : s.path.length ≤ name.length := by omega
      have hne : (s.path.length == name.length) = false := by simp; omega
      simp only [hle, decide_true, Bool.true_and, hne, Bool.false_or]
      by_cases hc : c = 47
      · simp [hc]
      · simp [hc]
  | true =>
    have hm : (itemOf s).match_ = s.path ++ [47] := by simp [itemOf, hal, hd]
    rw [hm]
    have hlen : (s.path ++ [47]).length = s.path.length + 1 := by simp
    have hlast : ((s.path ++ [47]).getLast? == some 47) = true := by simp
    rw [hlen, hlast]
    simp only [Bool.not_true, Bool.false_or, Bool.or_true, Bool.true_or, Bool.and_true]
    rw [psEq_slash]
    cases hget : name[s.path.length]? with
    | none => simp
    | some c =>
      by_cases hc : c = 47
      · simp [hc]
      · simp [hc]

/-- the path part of the decision -/
theorem pathMatch_eq_item (env : C39.Env) (hwm : WmSlash env.wm) (s : PSpec) (hs : SpecOk s) (name : Bytes)
    (hn : NameOk name) : pathMatch env (toMapping s) name false = itemPathMatch env (itemOf s) name := by
  unfold pathMatch itemPathMatch Mapping.always toMapping
  simp only
  by_cases hal : (s.nil || s.path.isEmpty) = true
  · have hm : (itemOf s).match_ = [] := by simp [itemOf, hal]
    simp [hal, hm]
  · have hal' : (s.nil || s.path.isEmpty) = false := by simpa using hal
    simp only [hal', Bool.false_eq_true, if_false]
    have hpne : s.path ≠ [] := by
      intro h; simp [h] at hal'
    have hmne : (itemOf s).match_.isEmpty = false := by
      simp only [itemOf, hal', Bool.false_eq_true, if_false]
      cases hp : s.path with
      | nil => exact absurd hp hpne
      | cons _ _ => rfl
    simp only [hmne, Bool.false_eq_true, if_false]
    have hverb := matchVerbatim_eq s hs hal' name
    have hnw := nowildcard_lt s hal'
    generalize hV : (decide ((itemOf s).match_.length ≤ name.length) && psEq (itemOf s) (itemOf s).match_ (name.take (itemOf s).match_.length)
          && ((itemOf s).match_.length == name.length || (itemOf s).match_.getLast? == some 47
              || name[(itemOf s).match_.length]? == some 47)) = V at hverb ⊢
    clear hV
    cases hf : firstWildcardPos s.path with
    | none =>
      simp only [hf, Option.isSome_none, Bool.and_false] at hnw
      simp only [Option.isNone_none, if_true, hverb none, hnw, Bool.false_and, Bool.false_eq_true, if_false]
      cases V <;> rfl
    | some k =>
      simp only [hf, Option.isSome_some, Bool.and_true] at hnw
      simp only [Option.isNone_some, Bool.false_eq_true, if_false]
      cases hmode : s.mode with
      | literal =>
        simp only [hmode, ne_eq, not_true_eq_false, decide_false] at hnw
        simp only [hverb (some k), hnw, Bool.false_and, Bool.false_eq_true, if_false]
        cases V <;> rfl
      | shell =>
        simp only [hmode, ne_eq, reduceCtorEq, not_false_eq_true, decide_true] at hnw
        simp only [hnw, Bool.true_and]
        unfold matchGlob
        simp only [Bool.not_false, Bool.true_and, hverb (some k)]
        have hg : (itemOf s).glob = false := by simp [itemOf, hmode]
        have hi : (itemOf s).icase = s.icase := rfl
        rw [hg, hi]
        cases hd : s.mustBeDir with
        | false =>
          have hm : (itemOf s).match_ = s.path := by simp [itemOf, hal', hd]
          rw [hm]
          cases env.wm s.path name false s.icase <;> cases V <;> rfl
        | true =>
          have hm : (itemOf s).match_ = s.path ++ [47] := by simp [itemOf, hal', hd]
          rw [hm]
          have : env.wm (s.path ++ [47]) name false s.icase = false := by
            cases hw : env.wm (s.path ++ [47]) name false s.icase with
            | false => rfl
            | true => exact absurd (hwm _ _ _ _ hw) hn.2
          rw [this]
          cases V <;> rfl
      | glob =>
        simp only [hmode, ne_eq, reduceCtorEq, not_false_eq_true, decide_true] at hnw
        simp only [hnw, Bool.true_and]
        unfold matchGlob
        simp only [Bool.not_false, Bool.true_and, hverb (some k)]
        have hg : (itemOf s).glob = true := by simp [itemOf, hmode]
        have hi : (itemOf s).icase = s.icase := rfl
        rw [hg, hi]
        cases hd : s.mustBeDir with
        | false =>
          have hm : (itemOf s).match_ = s.path := by simp [itemOf, hal', hd]
          rw [hm]
          cases env.wm s.path name true s.icase <;> cases V <;> rfl
        | true =>
          have hm : (itemOf s).match_ = s.path ++ [47] := by simp [itemOf, hal', hd]
          rw [hm]
          have : env.wm (s.path ++ [47]) name true s.icase = false := by
            cases hw : env.wm (s.path ++ [47]) name true s.icase with
            | false => rfl
            | true => exact absurd (hwm _ _ _ _ hw) hn.2
          rw [this]
          cases V <;> rfl

/-- **one pattern**: gitoxide's decision for a mapping is git's for the corresponding item -/
theorem mapping_eq_item (env : C39.Env) (hwm : WmSlash env.wm) (s : PSpec) (hs : SpecOk s) (name : Bytes)
    (hn : NameOk name) : mappingMatches env (toMapping s) name false = matchItem env (itemOf s) name := by
  rw [matchItem_split]
  unfold mappingMatches
  rw [attrsMatch_eq, pathMatch_eq_item env hwm s hs name hn, Bool.and_comm]
  rfl

end GixModel.Lemmas.C39
