import GixModel.Lemmas.C30V1a
/-
C30 — protocol v0/v1, part 2: one advertised reference at a time (its line and, for tags, its
`^{}` line), the invariant of the ref vector across the whole advertisement, and the symref
capabilities of the first line.
-/
namespace GixModel.C30
open GixModel
open GixModel.Spec.C30

/-- the lookup entry `from_capabilities` makes of `symref=<name>:<target>` -/
def mkL (p : Bytes × Bytes) : IRef := .lookup p.1 (some p.2)

/-- what the ref vector holds for an entry once its lines are read (`target`: what a `symref=`
capability said about the entry's name) -/
def irefOf (target : Option Bytes) (e : Entry) : IRef :=
  match target, e.peeled with
  | some t, some p => .symbolic e.name (some t) (some e.oid) p
  | some t, none => .symbolic e.name (some t) none e.oid
  | none, some p => .peeled e.name e.oid p
  | none, none => .direct e.name e.oid

theorem irefOf_not_lookup (t : Option Bytes) (e : Entry) : (irefOf t e).isLookup = false := by
  unfold irefOf; cases t <;> cases e.peeled <;> rfl

/-- `<hex> <name>\n` -/
def plainLine (name : Bytes) (oid : Oid) : Bytes := toHex oid ++ 32 :: (name ++ [10])
/-- `<hex> <name>^{}\n` -/
def peelLine (name : Bytes) (p : Oid) : Bytes := toHex p ++ 32 :: (name ++ bPeelSuffix ++ [10])

theorem refLines_nil_eq (e : Entry) :
    refLines e [] = plainLine e.name e.oid ::
      (match e.peeled with
        | some p => [peelLine e.name p]
        | none => []) := by
  cases h : e.peeled <;> simp [refLines, plainLine, peelLine, h]

theorem startsWith_ERR_plain (name : Bytes) (o : Oid) (h : o.length = 20) :
    startsWith bERR (plainLine name o) = false := startsWith_ERR_hexline o h _

theorem startsWith_ERR_peel (name : Bytes) (o : Oid) (h : o.length = 20) :
    startsWith bERR (peelLine name o) = false := startsWith_ERR_hexline o h _

/-- an entry whose name no waiting `symref=` capability mentions -/
theorem entry_step_plain (k : Nat) (out : List IRef) (sh : List Oid) (e : Entry) (he : WfEntry e)
    (more : List Bytes) (hpos : position (lookupHasPath e.name) k out = none) :
    parseV1Lines k { refs := out, shallow := sh } (refLines e [] ++ more) =
      parseV1Lines k { refs := out ++ [irefOf none e], shallow := sh } more := by
  have h1 : parseV1 k { refs := out, shallow := sh } (plainLine e.name e.oid)
      = .ok { refs := out ++ [.direct e.name e.oid], shallow := sh } :=
    parseV1_refLine_direct k out sh e.name e.oid he.name he.oid hpos
  rw [refLines_nil_eq]
  cases hp : e.peeled with
  | none =>
    simp only [List.cons_append, List.nil_append, parseV1Lines, startsWith_ERR_plain e.name e.oid he.oid, h1]
    simp [irefOf, hp]
  | some p =>
    have hpl := he.peeled p hp
    have h2 : parseV1 k { refs := out ++ [.direct e.name e.oid], shallow := sh } (peelLine e.name p)
        = .ok { refs := out ++ [.peeled e.name e.oid p], shallow := sh } :=
      parseV1_peelLine_direct k out sh e.name e.oid p he.name hpl
    simp only [List.cons_append, List.nil_append, parseV1Lines, startsWith_ERR_plain e.name e.oid he.oid,
      startsWith_ERR_peel e.name p hpl, h1, h2]
    simp [irefOf, hp]

/-- an entry a `symref=` capability is waiting for -/
theorem entry_step_symbolic (k : Nat) (out : List IRef) (sh : List Oid) (e : Entry) (he : WfEntry e)
    (more : List Bytes) (pos : Nat) (hpos : position (lookupHasPath e.name) k out = some pos)
    (lp t : Bytes) (rest : List IRef) (hsr : swapRemove out pos = some (.lookup lp (some t), rest)) :
    parseV1Lines k { refs := out, shallow := sh } (refLines e [] ++ more) =
      parseV1Lines k { refs := rest ++ [irefOf (some t) e], shallow := sh } more := by
  have h1 : parseV1 k { refs := out, shallow := sh } (plainLine e.name e.oid)
      = .ok { refs := rest ++ [.symbolic e.name (some t) none e.oid], shallow := sh } :=
    parseV1_refLine_symbolic k out sh e.name e.oid he.name he.oid pos hpos lp (some t) rest hsr
  rw [refLines_nil_eq]
  cases hp : e.peeled with
  | none =>
    simp only [List.cons_append, List.nil_append, parseV1Lines, startsWith_ERR_plain e.name e.oid he.oid, h1]
    simp [irefOf, hp]
  | some p =>
    have hpl := he.peeled p hp
    have h2 : parseV1 k { refs := rest ++ [.symbolic e.name (some t) none e.oid], shallow := sh } (peelLine e.name p)
        = .ok { refs := rest ++ [.symbolic e.name (some t) (some e.oid) p], shallow := sh } :=
      parseV1_peelLine_symbolic k rest sh e.name (some t) e.oid p he.name hpl
    simp only [List.cons_append, List.nil_append, parseV1Lines, startsWith_ERR_plain e.name e.oid he.oid,
      startsWith_ERR_peel e.name p hpl, h1, h2]
    simp [irefOf, hp]

/-! ### the invariant of the ref vector -/

/-- `out` holds the still unused lookup entries `rem` and the finished refs `done`, in some order;
lookup entries only live in the first `k` slots (where `position` searches) -/
structure Inv (k : Nat) (out : List IRef) (rem : List (Bytes × Bytes)) (done : List IRef) : Prop where
  perm : out.Perm (rem.map mkL ++ done)
  front : ∀ y ∈ out.drop k, y.isLookup = false
  doneNoLookup : ∀ y ∈ done, y.isLookup = false

theorem lookupSym_none_iff (name : Bytes) (l : List (Bytes × Bytes)) :
    lookupSym name l = none ↔ ∀ p ∈ l, p.1 ≠ name := by
  induction l with
  | nil => simp [lookupSym]
  | cons p l ih =>
    obtain ⟨n, t⟩ := p
    by_cases h : n = name
    · simp [lookupSym, h]
    · simp [lookupSym, h, ih]

theorem lookupSym_some_mem (name t : Bytes) (l : List (Bytes × Bytes)) (h : lookupSym name l = some t) :
    (name, t) ∈ l := by
  induction l with
  | nil => simp [lookupSym] at h
  | cons p l ih =>
    obtain ⟨n, t'⟩ := p
    by_cases hn : n = name
    · simp only [lookupSym, hn, if_true, Option.some.injEq] at h
      simp [hn, h]
    · simp only [lookupSym, hn, if_false] at h
      simp [ih h]

theorem lookupSym_of_mem_nodup (name t : Bytes) (l : List (Bytes × Bytes)) (hnd : (l.map (·.1)).Nodup)
    (h : (name, t) ∈ l) : lookupSym name l = some t := by
  induction l with
  | nil => simp at h
  | cons p l ih =>
    obtain ⟨n, t'⟩ := p
    simp only [List.map_cons, List.nodup_cons] at hnd
    rcases List.mem_cons.mp h with heq | hm
    · cases heq; simp [lookupSym]
    · have hne : n ≠ name := by
        intro e; subst e
        exact hnd.1 (List.mem_map.mpr ⟨(n, t), hm, rfl⟩)
      simp [lookupSym, hne, ih hnd.2 hm]

theorem lookupSym_erase_ne (name : Bytes) (q : Bytes × Bytes) (l : List (Bytes × Bytes)) (h : q.1 ≠ name) :
    lookupSym name (l.erase q) = lookupSym name l := by
  induction l with
  | nil => rfl
  | cons p l ih =>
    obtain ⟨n, t⟩ := p
    by_cases hq : (n, t) = q
    · subst hq
      simp only [List.erase_cons_head]
      simp only [lookupSym]
      have : n ≠ name := h
      simp [this]
    · have : ((n, t) == q) = false := by simpa using hq
      rw [List.erase_cons_tail (by simpa using hq)]
      by_cases hn : n = name
      · simp [lookupSym, hn]
      · simp [lookupSym, hn, ih]

theorem mem_take_of_mem_not_drop (l : List IRef) (k : Nat) (x : IRef) (h : x ∈ l) (hd : x ∉ l.drop k) :
    x ∈ l.take k := by
  have : x ∈ l.take k ++ l.drop k := by rw [List.take_append_drop]; exact h
  rcases List.mem_append.mp this with h1 | h1
  · exact h1
  · exact absurd h1 hd

theorem mem_drop_append_singleton (a : List IRef) (x y : IRef) (k : Nat) (h : y ∈ (a ++ [x]).drop k) :
    y ∈ a.drop k ∨ y = x := by
  rw [List.drop_append] at h
  rcases List.mem_append.mp h with h1 | h1
  · exact Or.inl h1
  · have := List.mem_of_mem_drop h1
    simp at this
    exact Or.inr this

/-- reading the lines of all entries keeps the invariant and appends the entries' refs -/
theorem entries_loop (k : Nat) (syms : List (Bytes × Bytes)) (es : List Entry) :
    ∀ (out : List IRef) (rem : List (Bytes × Bytes)) (done : List IRef) (sh : List Oid) (more : List Bytes),
      (∀ e ∈ es, WfEntry e) → (es.map (·.name)).Nodup → (rem.map (·.1)).Nodup →
      (∀ e ∈ es, lookupSym e.name rem = lookupSym e.name syms) → Inv k out rem done →
      ∃ out' rem',
        parseV1Lines k { refs := out, shallow := sh } (es.flatMap (fun e => refLines e []) ++ more) =
          parseV1Lines k { refs := out', shallow := sh } more ∧
        Inv k out' rem' (done ++ es.map fun e => irefOf (lookupSym e.name syms) e) := by
  induction es with
  | nil =>
    intro out rem done sh more _ _ _ _ hinv
    exact ⟨out, rem, by simp, by simpa using hinv⟩
  | cons e es ih =>
    intro out rem done sh more hwf hnd hrnd hlk hinv
    have he := hwf e (by simp)
    have hwf' : ∀ x ∈ es, WfEntry x := fun x hx => hwf x (by simp [hx])
    simp only [List.map_cons, List.nodup_cons] at hnd
    have hlke := hlk e (by simp)
    simp only [List.flatMap_cons, List.append_assoc]
    cases hl : lookupSym e.name rem with
    | none =>
      -- nothing in the first k slots is a lookup entry for this name
      have hnone := (lookupSym_none_iff e.name rem).mp hl
      have hpos : position (lookupHasPath e.name) k out = none := by
        apply position_eq_none
        intro x hx
        have hxo : x ∈ out := List.mem_of_mem_take hx
        have := (hinv.perm.mem_iff).mp hxo
        rcases List.mem_append.mp this with h1 | h1
        · obtain ⟨p, hp, rfl⟩ := List.mem_map.mp h1
          have := hnone p hp
          simp [mkL, lookupHasPath, this]
        · have := hinv.doneNoLookup x h1
          cases x <;> simp_all [lookupHasPath, IRef.isLookup]
      rw [entry_step_plain k out sh e he _ hpos]
      have hinv' : Inv k (out ++ [irefOf none e]) rem (done ++ [irefOf none e]) := by
        refine ⟨?_, ?_, ?_⟩
        · have := hinv.perm.append_right [irefOf none e]
          simpa [List.append_assoc] using this
        · intro y hy
          rcases mem_drop_append_singleton _ _ _ _ hy with h1 | h1
          · exact hinv.front y h1
          · subst h1; exact irefOf_not_lookup _ _
        · intro y hy
          rcases List.mem_append.mp hy with h1 | h1
          · exact hinv.doneNoLookup y h1
          · simp at h1; subst h1; exact irefOf_not_lookup _ _
      obtain ⟨out', rem', hrun, hinv''⟩ := ih _ rem _ sh more hwf' hnd.2 hrnd
        (fun x hx => hlk x (by simp [hx])) hinv'
      refine ⟨out', rem', hrun, ?_⟩
      simp only [List.map_cons]
      rw [← hlke, hl]
      simpa [List.append_assoc] using hinv''
    | some t =>
      have hmem : (e.name, t) ∈ rem := lookupSym_some_mem _ _ _ hl
      have hLout : mkL (e.name, t) ∈ out :=
        (hinv.perm.mem_iff).mpr (List.mem_append.mpr (Or.inl (List.mem_map.mpr ⟨_, hmem, rfl⟩)))
      have hLtake : mkL (e.name, t) ∈ out.take k := by
        apply mem_take_of_mem_not_drop _ _ _ hLout
        intro hd
        have := hinv.front _ hd
        simp [mkL, IRef.isLookup] at this
      obtain ⟨pos, hpos⟩ := position_some_of_mem (lookupHasPath e.name) k out
        ⟨_, hLtake, by simp [mkL, lookupHasPath]⟩
      obtain ⟨x, rest, hsr, hpx, hperm, hdrop⟩ := position_swapRemove _ _ _ _ hpos
      obtain ⟨tg, hx⟩ := lookupHasPath_eq _ _ hpx
      -- the removed element is the lookup entry for (name, t)
      have hxo : x ∈ out := (hperm.mem_iff).mp (by simp)
      have hxt : tg = some t := by
        have := (hinv.perm.mem_iff).mp hxo
        rcases List.mem_append.mp this with h1 | h1
        · obtain ⟨p, hp, hpe⟩ := List.mem_map.mp h1
          obtain ⟨n', t'⟩ := p
          simp only [mkL, hx, IRef.lookup.injEq] at hpe
          obtain ⟨hn', ht'⟩ := hpe
          subst hn'
          have := lookupSym_of_mem_nodup _ _ _ hrnd hp
          rw [hl] at this
          cases this
          exact ht'.symm
        · have := hinv.doneNoLookup x h1
          simp [hx, IRef.isLookup] at this
      subst hxt
      subst hx
      rw [entry_step_symbolic k out sh e he _ pos hpos e.name t rest hsr]
      have hremperm : rem.Perm ((e.name, t) :: rem.erase (e.name, t)) := List.perm_cons_erase hmem
      have hrest : rest.Perm ((rem.erase (e.name, t)).map mkL ++ done) := by
        have h1 : (IRef.lookup e.name (some t) :: rest).Perm (rem.map mkL ++ done) := hperm.trans hinv.perm
        have h2 : (rem.map mkL ++ done).Perm
            (IRef.lookup e.name (some t) :: ((rem.erase (e.name, t)).map mkL ++ done)) := by
          have := (hremperm.map mkL).append_right done
          simpa [mkL] using this
        exact (h1.trans h2).cons_inv
      have hinv' : Inv k (rest ++ [irefOf (some t) e]) (rem.erase (e.name, t)) (done ++ [irefOf (some t) e]) := by
        refine ⟨?_, ?_, ?_⟩
        · have := hrest.append_right [irefOf (some t) e]
          simpa [List.append_assoc] using this
        · intro y hy
          rcases mem_drop_append_singleton _ _ _ _ hy with h1 | h1
          · exact hinv.front y (hdrop y h1)
          · subst h1; exact irefOf_not_lookup _ _
        · intro y hy
          rcases List.mem_append.mp hy with h1 | h1
          · exact hinv.doneNoLookup y h1
          · simp at h1; subst h1; exact irefOf_not_lookup _ _
      have hrnd' : ((rem.erase (e.name, t)).map (·.1)).Nodup :=
        hrnd.sublist ((List.erase_sublist).map _)
      obtain ⟨out', rem', hrun, hinv''⟩ := ih _ (rem.erase (e.name, t)) _ sh more hwf' hnd.2 hrnd'
        (fun x hx => by
          have hne : e.name ≠ x.name := fun heq => hnd.1 (List.mem_map.mpr ⟨x, hx, heq.symm⟩)
          rw [lookupSym_erase_ne x.name (e.name, t) rem hne]
          exact hlk x (by simp [hx])) hinv'
      refine ⟨out', rem', hrun, ?_⟩
      simp only [List.map_cons]
      rw [← hlke, hl]
      simpa [List.append_assoc] using hinv''

end GixModel.C30
