import GixModel.Lemmas.C20Run
/-
C20 helper lemmas, part 5: from the files to what readers see; the steps of the full transaction
restricted to one ref; files only appear where the transaction is meant to put them.
-/
namespace GixModel.C20
open GixModel

/-- `readRef` as a function of the two files it reads -/
def readOf (cd : Codec) (a b : Option Bytes) (n : Name) : Option Target :=
  match a.bind cd.parseRef with
  | some t => some t
  | none => lookupPacked (b.bind cd.parsePacked) n

theorem readRef_eq (cd : Codec) (fs : Fs) (n : Name) :
    readRef cd fs n = readOf cd (fileAt fs n) (fileAt fs packedPath) n := rfl

theorem find_filter_of_imp {α : Type} (l : List α) (p q : α → Bool) (h : ∀ x ∈ l, q x = true → p x = true) :
    (l.filter p).find? q = l.find? q := by
  induction l with
  | nil => rfl
  | cons x xs ih =>
    have ih' := ih (fun y hy => h y (List.mem_cons_of_mem _ hy))
    by_cases hq : q x = true
    · have hp := h x (List.mem_cons_self ..) hq
      simp [List.filter_cons, hp, List.find?_cons, hq]
    · by_cases hp : p x = true
      · simp [List.filter_cons, hp, List.find?_cons, hq, ih']
      · simp [List.filter_cons, hp, List.find?_cons, hq, ih']

theorem packedDeletions_subset (s : Store) (txn : List Edit) {n : Name} (h : n ∈ s.packedDeletions txn) :
    Edit.delete n ∈ txn ∧ (s.packedOf n).isSome = true := by
  simp only [Store.packedDeletions, List.mem_filterMap] at h
  obtain ⟨e, he, hn⟩ := h
  cases e with
  | update m t => simp at hn
  | delete m =>
    simp only at hn
    split at hn
    · rename_i hs; simp at hn; subst hn; exact ⟨he, hs⟩
    · simp at hn

theorem mem_packedDeletions (s : Store) (txn : List Edit) {n : Name} (he : Edit.delete n ∈ txn)
    (hs : (s.packedOf n).isSome = true) : n ∈ s.packedDeletions txn := by
  simp only [Store.packedDeletions, List.mem_filterMap]
  exact ⟨.delete n, he, by simp [hs]⟩

/-- what the new packed-refs file says about a name that is not deleted from it: what the old said -/
theorem lookup_new_keep (cd : Codec) (s : Store) (txn : List Edit) (m : Name)
    (hm : m ∉ s.packedDeletions txn) :
    lookupPacked ((newPackedFile s txn).bind cd.parsePacked) m =
      lookupPacked ((s.packed.map renderPacked).bind cd.parsePacked) m := by
  unfold newPackedFile
  split
  · rename_i hc
    have hsome : s.packed.isSome = true := by
      have := hc.1; simp only [Store.hasGlobalLock, Bool.and_eq_true] at this; exact this.1
    obtain ⟨rs, hrs⟩ := Option.isSome_iff_exists.mp hsome
    have hrem : s.remaining txn = rs.filter fun r => !(s.packedDeletions txn).contains r.1 := by
      simp [Store.remaining, hrs]
    have hfind : (s.remaining txn).find? (fun r => decide (r.1 = m)) = rs.find? (fun r => decide (r.1 = m)) := by
      rw [hrem]
      apply find_filter_of_imp
      intro x _ hx
      have : x.1 = m := by simpa using hx
      simp [this, hm]
    split
    · rename_i hr
      have : s.remaining txn = [] := by simpa using hr
      rw [this] at hfind
      simp [hrs, cd.packed_rt, lookupPacked, ← hfind]
    · simp [hrs, cd.packed_rt, lookupPacked, hfind]
  · rfl

/-- a deleted ref is not in the new packed-refs file -/
theorem lookup_new_deleted (cd : Codec) (s : Store) (txn : List Edit) (n : Name) (he : Edit.delete n ∈ txn) :
    lookupPacked ((newPackedFile s txn).bind cd.parsePacked) n = none := by
  by_cases hs : (s.packedOf n).isSome = true
  · have hmem := mem_packedDeletions s txn he hs
    have hg : s.hasGlobalLock txn = true := by
      simp only [Store.hasGlobalLock, Bool.and_eq_true, Bool.not_eq_true', List.isEmpty_eq_false_iff]
      refine ⟨?_, List.ne_nil_of_mem he⟩
      cases hp : s.packed with
      | none => simp [Store.packedOf, hp] at hs
      | some rs => rfl
    have hd : (s.packedDeletions txn).isEmpty = false := by
      cases hl : s.packedDeletions txn with
      | nil => rw [hl] at hmem; cases hmem
      | cons => rfl
    unfold newPackedFile
    simp only [hg, hd, and_self, if_true]
    split
    · rfl
    · simp only [Option.bind_some, cd.packed_rt, lookupPacked]
      have : (s.remaining txn).find? (fun r => decide (r.1 = n)) = none := by
        apply List.find?_eq_none.mpr
        intro x hx
        simp only [Store.remaining, List.mem_filter] at hx
        intro hxn
        have : x.1 = n := by simpa using hxn
        rw [this] at hx
        simp [hmem] at hx
      simp [this]
  · have hnone : s.packedOf n = none := by simpa using hs
    rw [lookup_new_keep cd s txn n (fun hm => hs (packedDeletions_subset s txn hm).2)]
    cases hp : s.packed with
    | none => simp [lookupPacked]
    | some rs =>
      simp only [Store.packedOf, hp] at hnone
      simp only [Option.map_some, Option.bind_some, cd.packed_rt, lookupPacked]
      cases hf : rs.find? (fun x => decide (x.1 = n)) with
      | none => rfl
      | some r => simp [hf] at hnone

/-- an allowed pair reads as the old or the intended value -/
theorem allowed_reads (cd : Codec) (s : Store) (txn : List Edit) (e : Edit) (he : e ∈ txn)
    (a b : Option Bytes) (h : Allowed s txn e a b) :
    readOf cd a b e.name = readOf cd ((s.looseOf e.name).map renderRef) (s.packed.map renderPacked) e.name ∨
      readOf cd a b e.name = e.intended := by
  cases e with
  | update n new =>
    simp only [Allowed, Edit.name] at h
    rcases h with ⟨rfl, rfl⟩ | ⟨rfl, _⟩
    · exact .inl rfl
    · right; simp [readOf, cd.ref_rt, Edit.intended]
  | delete n =>
    simp only [Allowed, Edit.name] at h
    have hdel := lookup_new_deleted cd s txn n he
    rcases h with ⟨rfl, rfl | rfl⟩ | ⟨rfl, rfl⟩
    · exact .inl rfl
    · cases hl : s.looseOf n with
      | some t => left; simp [readOf, cd.ref_rt, Edit.name, hl]
      | none => right; simp [readOf, Edit.name, hl, hdel, Edit.intended]
    · right; simp [readOf, Edit.name, hdel, Edit.intended]

/-! ### the full step list -/

theorem mem_steps_cases (c : Cfg) (s : Store) (txn : List Edit) (h : ∀ e ∈ txn, isRefName e.name = true)
    {op : FsOp} (ho : op ∈ txnSteps c s txn) :
    op.isDirOp = true ∨ isLogOp op = true ∨ op ∈ core c s txn := by
  by_cases h1 : op.isDirOp = true
  · exact .inl h1
  · by_cases h2 : isLogOp op = true
    · exact .inr (.inl h2)
    · right; right
      rw [← strip_txnSteps c s txn h]
      simp only [strip, List.mem_filter]
      exact ⟨ho, by simp [h1, h2]⟩

theorem mem_core_cases (c : Cfg) (s : Store) (txn : List Edit) {op : FsOp} (ho : op ∈ core c s txn) :
    op = .create (lockPath packedPath) ∨ op ∈ packedCommit c s txn ∨
      ∃ e ∈ txn, op ∈ prepCoreEdit c (s.hasGlobalLock txn) e ++ renameCore e ++ delCore s (s.hasGlobalLock txn) e := by
  simp only [core, List.mem_append, List.mem_flatMap] at ho
  rcases ho with (((ho | ⟨e, he, ho⟩) | ⟨e, he, ho⟩) | ho) | ⟨e, he, ho⟩
  · split at ho
    · simp at ho; exact .inl ho
    · cases ho
  · exact .inr (.inr ⟨e, he, by simp [ho]⟩)
  · exact .inr (.inr ⟨e, he, by simp [ho]⟩)
  · exact .inr (.inl ho)
  · exact .inr (.inr ⟨e, he, by simp [ho]⟩)

/-- on the watched paths of an edit, the full steps are `coreOf` -/
theorem steps_filter (c : Cfg) (s : Store) (txn : List Edit) (h : TxnOk c s txn) (e : Edit) (he : e ∈ txn) :
    (txnSteps c s txn).filter (touchesAny (Qn e.name)) = coreOf c s txn e := by
  have hn := h.names_ref e he
  rw [← filter_core c s txn h e he, ← strip_txnSteps c s txn h.names_ref]
  simp only [strip, List.filter_filter]
  apply List.filter_congr
  intro op ho
  by_cases ht : touchesAny (Qn e.name) op = true
  · obtain ⟨t, htm, htq⟩ := List.any_eq_true.mp ht
    have h1 : op.isDirOp = false := by
      cases hd : op.isDirOp with
      | false => rfl
      | true =>
        have := h.no_dir_clash op ho hd t htm
        rw [Qn_subset_inW he htq] at this; cases this
    have h2 : isLogOp op = false := by
      cases hl : isLogOp op with
      | false => rfl
      | true =>
        have := List.all_eq_true.mp hl t htm
        rw [Qn_not_log hn htq] at this; cases this
    simp [ht, h1, h2]
  · simp [ht]

theorem steps_closed (c : Cfg) (s : Store) (txn : List Edit) (h : TxnOk c s txn) (e : Edit) (he : e ∈ txn) :
    ∀ op ∈ txnSteps c s txn, touchesAny (Qn e.name) op = true → closedIn (Qn e.name) op = true := by
  intro op ho ht
  have hn := h.names_ref e he
  have hq := Qn_self e.name
  have hmem : op ∈ coreOf c s txn e := by
    rw [← steps_filter c s txn h e he]
    exact List.mem_filter.mpr ⟨ho, ht⟩
  simp only [coreOf, List.mem_append] at hmem
  apply List.all_eq_true.mpr
  intro t htm
  have edit := edit_core_touches c s (s.hasGlobalLock txn) e
  rcases hmem with (((hm | hm) | hm) | hm) | hm
  · simp only [pk0] at hm
    split at hm
    · simp at hm; subst hm; simp [FsOp.touches] at htm; subst htm; exact hq.2.2.2
    · cases hm
  · rcases edit op (by simp [hm]) t htm with rfl | rfl
    · exact hq.1
    · exact hq.2.1
  · rcases edit op (by simp [hm]) t htm with rfl | rfl
    · exact hq.1
    · exact hq.2.1
  · rcases packedCommit_touches c s txn op hm t htm with rfl | rfl
    · exact hq.2.2.1
    · exact hq.2.2.2
  · rcases edit op (by simp [hm]) t htm with rfl | rfl
    · exact hq.1
    · exact hq.2.1

/-- the file of an edited ref and packed-refs after any prefix of the full steps form an allowed pair -/
theorem prefix_allowed (c : Cfg) (s : Store) (txn : List Edit) (h : TxnOk c s txn) (e : Edit) (he : e ∈ txn)
    (k : Nat) :
    Allowed s txn e (fileAt (applyAll ((txnSteps c s txn).take k) s.toFs) e.name)
      (fileAt (applyAll ((txnSteps c s txn).take k) s.toFs) packedPath) := by
  obtain ⟨j, hj⟩ := take_restrict (Qn e.name) (txnSteps c s txn) (steps_closed c s txn h e he) s.toFs k
  rw [steps_filter c s txn h e he] at hj
  have hq := Qn_self e.name
  rw [fileAt_congr (hj _ hq.1), fileAt_congr (hj _ hq.2.2.1)]
  exact (run_edit c s txn h e he).1 j

theorem full_run (c : Cfg) (s : Store) (txn : List Edit) (h : TxnOk c s txn) (e : Edit) (he : e ∈ txn) :
    fileAt (applyAll (txnSteps c s txn) s.toFs) e.name = finalN e ∧
      fileAt (applyAll (txnSteps c s txn) s.toFs) packedPath = newPackedFile s txn := by
  have hq := Qn_self e.name
  have hr := applyAll_restrict (Qn e.name) (txnSteps c s txn) (steps_closed c s txn h e he) s.toFs s.toFs
    (fun _ _ => rfl)
  rw [steps_filter c s txn h e he] at hr
  rw [fileAt_congr (hr _ hq.1), fileAt_congr (hr _ hq.2.2.1)]
  exact (run_edit c s txn h e he).2

/-! ### files appear only where they are meant to -/

def FsOp.creates : FsOp → List Path
  | .create p => [p]
  | .rename _ d => [d]
  | _ => []

theorem fileAt_new (op : FsOp) (fs : Fs) (p : Path) (h : (fileAt (op.apply fs) p).isSome = true) :
    (fileAt fs p).isSome = true ∨ p ∈ op.creates := by
  by_cases hp : p ∈ op.touches
  · by_cases hc : p ∈ op.creates
    · exact .inr hc
    · left
      cases op with
      | create q => simp [FsOp.touches, FsOp.creates] at hp hc; exact absurd hp hc
      | append q bs =>
        simp [FsOp.touches] at hp; subst hp
        cases hq : fs p with
        | none => simp [FsOp.apply, hq, fileAt] at h
        | some x =>
          cases x with
          | dir => simp [FsOp.apply, hq, fileAt] at h
          | file c => simp [fileAt, hq]
      | rename a b =>
        simp [FsOp.touches, FsOp.creates] at hp hc
        have hpa : p = a := by rcases hp with e | e; exact e; exact absurd e hc
        subst hpa
        cases hq : fs p with
        | none => simp [FsOp.apply, hq, fileAt] at h
        | some x =>
          cases x with
          | dir => simp [FsOp.apply, hq, fileAt] at h
          | file c => simp [fileAt, hq]
      | unlink q =>
        simp [FsOp.touches] at hp; subst hp
        cases hq : fs p with
        | none => simp [FsOp.apply, hq, fileAt] at h
        | some x =>
          cases x with
          | dir => simp [FsOp.apply, hq, fileAt] at h
          | file c => simp [fileAt, hq]
      | mkdir q => rwa [fileAt_dirOp _ rfl] at h
      | rmdir q => rwa [fileAt_dirOp _ rfl] at h
  · left
    have : fileAt (op.apply fs) p = fileAt fs p := by simp [fileAt, apply_frame op fs hp]
    rwa [this] at h

theorem files_grow (C : Path → Prop) (ops : List FsOp) (hC : ∀ op ∈ ops, ∀ p ∈ op.creates, C p) (fs : Fs)
    (p : Path) (h : (fileAt (applyAll ops fs) p).isSome = true) : (fileAt fs p).isSome = true ∨ C p := by
  induction ops generalizing fs with
  | nil => exact .inl h
  | cons op ops ih =>
    rw [applyAll_cons] at h
    rcases ih (fun o ho => hC o (List.mem_cons_of_mem _ ho)) _ h with h1 | h1
    · rcases fileAt_new op fs p h1 with h2 | h2
      · exact .inl h2
      · exact .inr (hC op (List.mem_cons_self ..) p h2)
    · exact .inr h1

def isLockPath (p : Path) : Bool := lockSuffix.reverse.isPrefixOf p.reverse

theorem isLockPath_lockPath (p : Path) : isLockPath (lockPath p) = true := by
  simp [isLockPath, lockPath, List.reverse_append, List.isPrefixOf_iff_prefix]

/-- where the transaction may put a file: a lock, a reflog, an updated ref, packed-refs -/
def Produced (txn : List Edit) (p : Path) : Prop :=
  isLockPath p = true ∨ isLogPath p = true ∨ (∃ t, Edit.update p t ∈ txn) ∨ p = packedPath

theorem steps_create (c : Cfg) (s : Store) (txn : List Edit) (h : ∀ e ∈ txn, isRefName e.name = true) :
    ∀ op ∈ txnSteps c s txn, ∀ p ∈ op.creates, Produced txn p := by
  intro op ho p hp
  have hsub : ∀ q ∈ op.creates, q ∈ op.touches := by
    intro q hq; cases op <;> simp_all [FsOp.creates, FsOp.touches]
  rcases mem_steps_cases c s txn h ho with h1 | h1 | h1
  · cases op <;> simp_all [FsOp.creates, FsOp.isDirOp]
  · exact .inr (.inl (List.all_eq_true.mp h1 p (hsub p hp)))
  · rcases mem_core_cases c s txn h1 with rfl | hm | ⟨e, he, hm⟩
    · simp [FsOp.creates] at hp; subst hp; exact .inl (isLockPath_lockPath _)
    · simp only [packedCommit] at hm
      split at hm
      · cases hm
      · split at hm
        · simp at hm; subst hm; simp [FsOp.creates] at hp
        · simp only [List.mem_append, writeOps, List.mem_map] at hm
          rcases hm with ⟨x, _, rfl⟩ | hm
          · simp [FsOp.creates] at hp
          · split at hm
            · simp at hm; rcases hm with rfl | rfl <;> simp [FsOp.creates] at hp
            · simp at hm; subst hm; simp [FsOp.creates] at hp; subst hp; exact .inr (.inr (.inr rfl))
    · simp only [List.mem_append] at hm
      cases e with
      | update n new =>
        simp only [prepCoreEdit, renameCore, delCore, List.mem_cons, writeOps, List.mem_map, List.not_mem_nil,
          or_false] at hm
        rcases hm with (rfl | ⟨x, _, rfl⟩) | rfl
        · simp [FsOp.creates] at hp; subst hp; exact .inl (isLockPath_lockPath _)
        · simp [FsOp.creates] at hp
        · simp [FsOp.creates] at hp; subst hp; exact .inr (.inr (.inl ⟨new, he⟩))
      | delete n =>
        simp only [prepCoreEdit, renameCore, delCore, List.not_mem_nil, or_false, List.mem_append] at hm
        rcases hm with hm | hm | hm
        · split at hm
          · cases hm
          · simp at hm; subst hm; simp [FsOp.creates] at hp; subst hp; exact .inl (isLockPath_lockPath _)
        · split at hm
          · simp at hm; subst hm; simp [FsOp.creates] at hp
          · cases hm
        · split at hm
          · cases hm
          · simp at hm; subst hm; simp [FsOp.creates] at hp

theorem txnSteps_nil (c : Cfg) (s : Store) : txnSteps c s [] = [] := by
  simp [txnSteps, Store.hasGlobalLock, prepEdits, commitUpdates, logDeletes, looseDeletes, packedCommit]

theorem allowed_packed {s : Store} {txn : List Edit} {e : Edit} {a b : Option Bytes}
    (h : Allowed s txn e a b) : b = s.packed.map renderPacked ∨ b = newPackedFile s txn := by
  cases e with
  | update n new =>
    simp only [Allowed] at h
    rcases h with ⟨_, h⟩ | ⟨_, h | h⟩
    · exact .inl h
    · exact .inl h
    · exact .inr h
  | delete n =>
    simp only [Allowed] at h
    rcases h with ⟨_, h | h⟩ | ⟨_, h⟩
    · exact .inl h
    · exact .inr h
    · exact .inr h


end GixModel.C20
