import GixModel.Lemmas.C38Loops
/-
C38 — the metadata collection: every attribute name of every loaded list and macro body has an id
(`names`), and the macro table answers with the definition that was loaded last — which is what
git's `determine_macros` finds first when it walks the stack from the top.
-/
namespace GixModel.Lemmas.C38
open GixModel GixModel.C38 GixModel.Spec.C38

/-! ### names are closed -/

theorem addName_macros (c : Coll) (n : Bytes) : (c.addName n).macros = c.macros := by
  unfold Coll.addName; split <;> rfl

theorem addName_mono (c : Coll) (n m : Bytes) (h : m ∈ c.names) : m ∈ (c.addName n).names := by
  unfold Coll.addName; split
  · exact h
  · simp [h]

theorem addName_mem (c : Coll) (n : Bytes) : n ∈ (c.addName n).names := by
  unfold Coll.addName
  by_cases h : n ∈ c.names
  · simp [h]
  · simp [h]

theorem addAsgs_macros (c : Coll) (as : List Asg) : (c.addAsgs as).macros = c.macros := by
  unfold Coll.addAsgs
  induction as generalizing c with
  | nil => rfl
  | cons a as ih => rw [List.foldl_cons, ih, addName_macros]

theorem addAsgs_mono (c : Coll) (as : List Asg) (m : Bytes) (h : m ∈ c.names) : m ∈ (c.addAsgs as).names := by
  unfold Coll.addAsgs
  induction as generalizing c with
  | nil => exact h
  | cons a as ih => rw [List.foldl_cons]; exact ih _ (addName_mono c a.name m h)

theorem addAsgs_mem (c : Coll) (as : List Asg) : ∀ a ∈ as, a.name ∈ (c.addAsgs as).names := by
  unfold Coll.addAsgs
  induction as generalizing c with
  | nil => intro a ha; simp at ha
  | cons b as ih =>
    intro a ha
    rw [List.foldl_cons]
    rcases List.mem_cons.mp ha with rfl | h
    · exact addAsgs_mono _ as _ (addName_mem c a.name)
    · exact ih _ a h

theorem addLine_mono (c : Coll) (l : Line) (m : Bytes) (h : m ∈ c.names) : m ∈ (c.addLine l).names := by
  unfold Coll.addLine
  split
  · exact addAsgs_mono _ _ _ (addName_mono c _ m h)
  · exact addAsgs_mono _ _ _ h

theorem addLine_mem (c : Coll) (l : Line) : ∀ a ∈ l.attrs, a.name ∈ (c.addLine l).names := by
  unfold Coll.addLine
  split
  · exact addAsgs_mem _ _
  · exact addAsgs_mem _ _

/-- the macro bodies only mention names with an id -/
def CollOk (c : Coll) : Prop := ∀ m ∈ c.macros, ∀ a ∈ m.2, a.name ∈ c.names

theorem addLine_ok (c : Coll) (l : Line) (h : CollOk c) : CollOk (c.addLine l) := by
  intro m hm a ha
  have hmono := addLine_mono c l
  unfold Coll.addLine at hm hmono ⊢
  split at hm
  · rename_i n hk
    simp only [hk] at hmono ⊢
    simp only [List.mem_cons] at hm
    cases hm with
    | inl hm => subst hm; exact addAsgs_mem _ _ a ha
    | inr hm =>
      rw [addAsgs_macros, addName_macros] at hm
      exact hmono _ (h m hm a ha)
  · rename_i p hk
    simp only [hk] at hmono ⊢
    rw [addAsgs_macros] at hm
    exact hmono _ (h m hm a ha)

theorem addLines_mono (c : Coll) (ls : List Line) (m : Bytes) (h : m ∈ c.names) : m ∈ (ls.foldl Coll.addLine c).names := by
  induction ls generalizing c with
  | nil => exact h
  | cons l ls ih => rw [List.foldl_cons]; exact ih _ (addLine_mono c l m h)

theorem addLines_ok (c : Coll) (ls : List Line) (h : CollOk c) : CollOk (ls.foldl Coll.addLine c) := by
  induction ls generalizing c with
  | nil => exact h
  | cons l ls ih => rw [List.foldl_cons]; exact ih _ (addLine_ok c l h)

theorem addLines_mem (c : Coll) (ls : List Line) : ∀ l ∈ ls, ∀ a ∈ l.attrs, a.name ∈ (ls.foldl Coll.addLine c).names := by
  induction ls generalizing c with
  | nil => intro l hl; simp at hl
  | cons x ls ih =>
    intro l hl a ha
    rw [List.foldl_cons]
    rcases List.mem_cons.mp hl with rfl | h
    · exact addLines_mono _ ls _ (addLine_mem c l a ha)
    · exact ih _ l h a ha

theorem addLists_mono (c : Coll) (pls : List PList) (m : Bytes) (h : m ∈ c.names) : m ∈ (pls.foldl Coll.addList c).names := by
  induction pls generalizing c with
  | nil => exact h
  | cons pl pls ih => rw [List.foldl_cons]; exact ih _ (addLines_mono c pl.lines m h)

theorem addLists_ok (c : Coll) (pls : List PList) (h : CollOk c) : CollOk (pls.foldl Coll.addList c) := by
  induction pls generalizing c with
  | nil => exact h
  | cons pl pls ih => rw [List.foldl_cons]; exact ih _ (addLines_ok c pl.lines h)

theorem addLists_mem (c : Coll) (pls : List PList) :
    ∀ pl ∈ pls, ∀ l ∈ pl.lines, ∀ a ∈ l.attrs, a.name ∈ (pls.foldl Coll.addList c).names := by
  induction pls generalizing c with
  | nil => intro pl hpl; simp at hpl
  | cons x pls ih =>
    intro pl hpl l hl a ha
    rw [List.foldl_cons]
    rcases List.mem_cons.mp hpl with rfl | h
    · exact addLists_mono _ pls _ (addLines_mem c pl.lines l hl a ha)
    · exact ih _ pl h l hl a ha

theorem lookup_mem {β : Type} (l : List (Bytes × β)) (n : Bytes) (b : β) (h : l.lookup n = some b) : (n, b) ∈ l := by
  induction l with
  | nil => simp at h
  | cons x l ih =>
    obtain ⟨k, v⟩ := x
    simp only [List.lookup_cons] at h
    by_cases hk : n == k
    · simp only [hk, Option.some.injEq] at h
      have : n = k := by simpa using hk
      subst this; subst h; simp
    · simp only [hk] at h
      exact List.mem_cons_of_mem _ (ih h)

theorem macrosOk_of_collOk (c : Coll) (sel : List Bytes) (h : CollOk c) : MacrosOk ⟨c, sel⟩ := by
  intro n a ha
  unfold Coll.macroOf at ha
  cases hl : c.macros.lookup n with
  | none => simp [hl] at ha
  | some body =>
    simp only [hl, Option.getD_some] at ha
    exact h (n, body) (lookup_mem _ _ _ hl) a ha

/-! ### the macro table is "last definition wins" -/

theorem frameMacro_append (n : Bytes) (a b : List Line) :
    frameMacro n (a ++ b) = (frameMacro n a).or (frameMacro n b) := by
  induction a with
  | nil => simp [frameMacro]
  | cons l a ih =>
    simp only [List.cons_append, frameMacro]
    split
    · rfl
    · exact ih

theorem findMacro_append (n : Bytes) (a b : List Frame) :
    findMacro (a ++ b) n = (findMacro a n).or (findMacro b n) := by
  induction a with
  | nil => simp [findMacro]
  | cons fr a ih =>
    simp only [List.cons_append, findMacro]
    cases frameMacro n fr.lines.reverse with
    | none => simpa using ih
    | some x => rfl

theorem addLines_lookup (c : Coll) (ls : List Line) (n : Bytes) :
    (ls.foldl Coll.addLine c).macros.lookup n = (frameMacro n ls.reverse).or (c.macros.lookup n) := by
  induction ls generalizing c with
  | nil => simp [frameMacro]
  | cons l ls ih =>
    rw [List.foldl_cons, ih, List.reverse_cons, frameMacro_append]
    have : (c.addLine l).macros.lookup n = (frameMacro n [l]).or (c.macros.lookup n) := by
      unfold Coll.addLine frameMacro frameMacro
      split
      · rename_i m hk
        simp only [hk, List.lookup_cons]
        by_cases hnm : n == m
        · have : n = m := by simpa using hnm
          subst this; simp
        · have hne : ¬ (Kind.macro m = Kind.macro n) := by
            intro h; injection h with h; subst h; simp at hnm
          simp [hnm, hne, addAsgs_macros, addName_macros]
      · rename_i p hk
        simp [hk, addAsgs_macros]
    rw [this]
    cases frameMacro n ls.reverse <;> cases frameMacro n [l] <;> simp

def toFrame (pl : PList) : Frame := ⟨pl.base, pl.lines⟩

theorem addLists_lookup (c : Coll) (pls : List PList) (n : Bytes) :
    (pls.foldl Coll.addList c).macros.lookup n = (findMacro (pls.reverse.map toFrame) n).or (c.macros.lookup n) := by
  induction pls generalizing c with
  | nil => simp [findMacro]
  | cons pl pls ih =>
    rw [List.foldl_cons, ih, List.reverse_cons, List.map_append, findMacro_append]
    have : (c.addList pl).macros.lookup n = (findMacro [toFrame pl] n).or (c.macros.lookup n) := by
      unfold Coll.addList
      rw [addLines_lookup]
      simp only [findMacro, toFrame]
      cases frameMacro n pl.lines.reverse <;> simp
    rw [this, List.map_cons, List.map_nil]
    cases findMacro (List.map toFrame pls.reverse) n <;> cases findMacro [toFrame pl] n <;> simp

theorem frameMacro_noMacros (n : Bytes) (ls : List Line) (h : ∀ l ∈ ls, l.isMacro = false) : frameMacro n ls = none := by
  induction ls with
  | nil => rfl
  | cons l ls ih =>
    unfold frameMacro
    have hl := h l (by simp)
    have : ¬ l.kind = Kind.macro n := by
      intro hk; simp [Line.isMacro, hk] at hl
    simp only [this, if_false]
    exact ih (fun x hx => h x (by simp [hx]))

theorem findMacro_noMacros (n : Bytes) (frs : List Frame) (h : ∀ fr ∈ frs, ∀ l ∈ fr.lines, l.isMacro = false) :
    findMacro frs n = none := by
  induction frs with
  | nil => rfl
  | cons fr frs ih =>
    unfold findMacro
    rw [frameMacro_noMacros n fr.lines.reverse (fun l hl => h fr (by simp) l (List.mem_reverse.mp hl))]
    exact ih (fun x hx => h x (by simp [hx]))

theorem dropMacros_isMacro (f : PFile) : ∀ l ∈ dropMacros f, l.isMacro = false := by
  intro l hl
  have := (List.mem_filter.mp hl).2
  simpa using this

/-- the names of the macro lines of a stack (with multiplicity): the measure for the recursion depth -/
def macroNames (stack : List Frame) : List Bytes :=
  stack.flatMap fun fr => fr.lines.filterMap fun l => match l.kind with | .macro n => some n | .pattern _ => none

theorem frameMacro_mem (n : Bytes) (ls : List Line) (b : List Asg) (h : frameMacro n ls = some b) :
    n ∈ ls.filterMap fun l => match l.kind with | .macro n => some n | .pattern _ => none := by
  induction ls with
  | nil => simp [frameMacro] at h
  | cons l ls ih =>
    unfold frameMacro at h
    by_cases hk : l.kind = Kind.macro n
    · simp [List.filterMap_cons, hk]
    · simp only [hk, if_false] at h
      have := ih h
      rw [List.filterMap_cons]
      split
      · exact this
      · exact List.mem_cons_of_mem _ this

theorem findMacro_mem (stack : List Frame) (n : Bytes) (b : List Asg) (h : findMacro stack n = some b) :
    n ∈ macroNames stack := by
  induction stack with
  | nil => simp [findMacro] at h
  | cons fr frs ih =>
    unfold findMacro at h
    unfold macroNames
    rw [List.flatMap_cons, List.mem_append]
    cases hf : frameMacro n fr.lines.reverse with
    | none => simp only [hf] at h; exact Or.inr (ih h)
    | some x =>
      have := frameMacro_mem n _ x hf
      rw [List.filterMap_reverse, List.mem_reverse] at this
      exact Or.inl this

theorem filterMap_macro_length (ls : List Line) :
    (ls.filterMap fun l => match l.kind with | .macro n => some n | .pattern _ => none).length
      = (ls.filter Line.isMacro).length := by
  induction ls with
  | nil => rfl
  | cons l ls ih =>
    rw [List.filterMap_cons, List.filter_cons]
    cases hk : l.kind <;> simp [Line.isMacro, hk, ih]

theorem macroNames_length (stack : List Frame) : (macroNames stack).length + 1 = macroDepth stack := by
  unfold macroNames macroDepth
  rw [List.length_flatMap]
  congr 1
  congr 1
  apply List.map_congr_left
  intro fr _
  exact filterMap_macro_length fr.lines

end GixModel.Lemmas.C38
