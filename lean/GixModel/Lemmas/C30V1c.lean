import GixModel.Lemmas.C30V1b
/-
C30 — protocol v0/v1, part 3: the capabilities of the first line, the conversion at the end, and
the reduction of `handshakeV1 (advertiseV1 s)` to the read loop over plain lines.
-/
namespace GixModel.C30
open GixModel
open GixModel.Spec.C30

/-! ### `from_capabilities` on what the server sends -/

theorem isPrefixB_append (p x : Bytes) : isPrefixB p (p ++ x) = true := by
  induction p with
  | nil => cases x <;> rfl
  | cons a p ih => simp [isPrefixB, ih]

theorem fromCapabilities_skip (t : Bytes) (cs : List Bytes) (h : isPrefixB bSymrefEq t = false) :
    fromCapabilities (t :: cs) = fromCapabilities cs := by
  rw [fromCapabilities]
  by_cases hn : capName t = bSymref
  · have hv : capValue t = none := by
      unfold capName at hn
      unfold capValue
      cases hs : splitOnce 61 t with
      | none => rfl
      | some p =>
        obtain ⟨n, v⟩ := p
        simp only [hs] at hn
        obtain ⟨e, _⟩ := splitOnce_some 61 t n v hs
        have : t = bSymrefEq ++ v := by rw [e, hn]; simp [bSymref, bSymrefEq]
        rw [this, isPrefixB_append] at h
        exact absurd h (by simp)
    simp [hn, hv]
  · simp [hn]

theorem fromCapabilities_skip_append (a b : List Bytes) (h : ∀ t ∈ a, isPrefixB bSymrefEq t = false) :
    fromCapabilities (a ++ b) = fromCapabilities b := by
  induction a with
  | nil => rfl
  | cons t a ih =>
    rw [List.cons_append, fromCapabilities_skip t _ (h t (by simp))]
    exact ih (fun x hx => h x (by simp [hx]))

theorem fromCapabilities_symTok (p : Bytes × Bytes) (cs : List Bytes) (h1 : p.1 ≠ [])
    (h2 : (58 : UInt8) ∉ p.1) (h3 : p.2 ≠ bNull) :
    fromCapabilities (symrefTok p :: cs) =
      match fromCapabilities cs with
      | .ok rest => .ok (mkL p :: rest)
      | other => other := by
  have e : symrefTok p = bSymref ++ 61 :: (p.1 ++ 58 :: p.2) := by
    simp [symrefTok, bSymrefEq, bSymref]
  have h61 : (61 : UInt8) ∉ bSymref := by decide
  have hs := splitOnce_append 61 bSymref (p.1 ++ 58 :: p.2) h61
  have hne := isEmpty_false_of_ne h1
  rw [fromCapabilities]
  simp only [capName, capValue, e, hs, Option.map_some, if_true, splitOnce_append 58 _ _ h2, hne]
  simp only [mkL, mkTarget, h3, if_false, Bool.false_eq_true]
  cases fromCapabilities cs <;> rfl

theorem fromCapabilities_symToks (syms : List (Bytes × Bytes)) (cs : List Bytes)
    (h : ∀ p ∈ syms, p.1 ≠ [] ∧ (58 : UInt8) ∉ p.1 ∧ (32 : UInt8) ∉ p.1 ∧ (32 : UInt8) ∉ p.2 ∧ p.2 ≠ bNull)
    (hcs : fromCapabilities cs = .ok []) :
    fromCapabilities (syms.map symrefTok ++ cs) = .ok (syms.map mkL) := by
  induction syms with
  | nil => simpa using hcs
  | cons p syms ih =>
    obtain ⟨h1, h2, _, _, h5⟩ := h p (by simp)
    simp only [List.map_cons, List.cons_append]
    rw [fromCapabilities_symTok p _ h1 h2 h5, ih (fun q hq => h q (by simp [hq]))]

theorem fromCapabilities_capTokens (s : V1Server) (h : WfV1 s) :
    fromCapabilities s.capTokens = .ok (s.symrefs.map mkL) := by
  unfold V1Server.capTokens
  rw [List.append_assoc, fromCapabilities_skip_append _ _
    (fun t ht => (h.capTokens t (List.mem_append.mpr (Or.inl ht))).2)]
  apply fromCapabilities_symToks _ _ h.symrefs
  have := fromCapabilities_skip_append s.capsPost []
    (fun t ht => (h.capTokens t (List.mem_append.mpr (Or.inr ht))).2)
  simpa [fromCapabilities] using this

theorem capTokens_noSp (s : V1Server) (h : WfV1 s) : ∀ t ∈ s.capTokens, (32 : UInt8) ∉ t := by
  intro t ht
  unfold V1Server.capTokens at ht
  rcases List.mem_append.mp ht with h1 | h1
  · rcases List.mem_append.mp h1 with h2 | h2
    · exact (h.capTokens t (List.mem_append.mpr (Or.inl h2))).1
    · obtain ⟨p, hp, rfl⟩ := List.mem_map.mp h2
      obtain ⟨_, _, h3, h4, _⟩ := h.symrefs p hp
      have : (32 : UInt8) ∉ bSymrefEq := by decide
      simp [symrefTok, List.mem_append, this, h3, h4]
  · exact (h.capTokens t (List.mem_append.mpr (Or.inr h1))).1

theorem capTokens_ne_nil (s : V1Server) (h : WfV1 s) : s.capTokens ≠ [] := by
  intro e
  apply h.capsNe
  simp [V1Server.caps, e, joinSp]

theorem splitAll_caps (s : V1Server) (h : WfV1 s) : splitAll 32 s.caps = s.capTokens :=
  splitAll_joinSp _ (capTokens_ne_nil s h) (capTokens_noSp s h)

/-! ### `into_refs` -/

/-- `From<InternalRef> for Ref` on everything but lookup entries -/
def toRefD : IRef → Ref
  | .symbolic p (some t) tag o => .symbolic p t tag o
  | .symbolic p none none o => .direct p o
  | .symbolic p none (some tag) o => .peeled p tag o
  | .peeled p tag o => .peeled p tag o
  | .direct p o => .direct p o
  | .lookup p _ => .direct p []

theorem toRef_of_not_lookup (x : IRef) (h : x.isLookup = false) : x.toRef = some (toRefD x) := by
  cases x with
  | symbolic p t tag o => cases t <;> cases tag <;> rfl
  | lookup p t => simp [IRef.isLookup] at h
  | _ => rfl

theorem convertAll_noLookup (l : List IRef) (h : ∀ x ∈ l, x.isLookup = false) :
    convertAll l = .ok (l.map toRefD) := by
  induction l with
  | nil => rfl
  | cons x l ih =>
    simp [convertAll, toRef_of_not_lookup x (h x (by simp)), ih (fun y hy => h y (by simp [hy]))]

theorem intoRefs_eq (l : List IRef) :
    intoRefs l = .ok ((l.filter fun r => !r.isLookup).map toRefD) := by
  unfold intoRefs
  apply convertAll_noLookup
  intro x hx
  have := (List.mem_filter.mp hx).2
  simpa using this

theorem filter_mkL (rem : List (Bytes × Bytes)) : (rem.map mkL).filter (fun r => !r.isLookup) = [] := by
  induction rem with
  | nil => rfl
  | cons p rem ih =>
    have : (mkL p).isLookup = true := rfl
    simp only [List.map_cons, List.filter_cons, this]
    simpa using ih

theorem filter_noLookup (l : List IRef) (h : ∀ x ∈ l, x.isLookup = false) :
    l.filter (fun r => !r.isLookup) = l := by
  apply List.filter_eq_self.mpr
  intro x hx
  simp [h x hx]

theorem toRefD_irefOf (syms : List (Bytes × Bytes)) (e : Entry) :
    toRefD (irefOf (lookupSym e.name syms) e) =
      match lookupSym e.name syms with
      | some t => symRef e t
      | none => plainRef e := by
  cases lookupSym e.name syms <;> cases h : e.peeled <;> simp [irefOf, toRefD, symRef, plainRef, h]

/-! ### from the wire lines to the read loop -/

/-- the lines as the read loop sees them: the first one without its capabilities -/
def bodyLines (s : V1Server) : List Bytes :=
  s.entries.flatMap (fun e => refLines e []) ++ shallowLines s.shallow

def runBody (s : V1Server) : Res V1State :=
  parseV1Lines s.symrefs.length { refs := s.symrefs.map mkL, shallow := [] } (bodyLines s)

theorem startsWith_version_false (c : UInt8) (rest : Bytes) (h : c ≠ 118) :
    startsWith bVersionSp (c :: rest) = false := by
  simp [startsWith, stripPrefix, bVersionSp, Ne.symm h]

theorem not_hex_118 : ¬ IsHexDigit 118 := by decide

/-- the shared first steps of `handshake()`: `pre\0caps\n` is split into the capabilities and the
line `pre\n` that is handed to the ref parser -/
theorem handshakeV1_firstLine (s : V1Server) (h : WfV1 s) (c : UInt8) (pre : Bytes) (rest : List Bytes)
    (hc : IsHexDigit c) (h0 : (0 : UInt8) ∉ c :: pre) :
    handshakeV1 (((c :: pre) ++ 0 :: s.caps ++ [10]) :: rest) =
      some (match parseV1Lines s.symrefs.length { refs := s.symrefs.map mkL, shallow := [] }
              (((c :: pre) ++ [10]) :: rest) with
        | .err e => .err e
        | .panic => .panic
        | .ok st =>
          match intoRefs st.refs with
          | .ok refs => .ok { proto := 1, refs := refs, shallow := st.shallow }
          | .err e => .err e
          | .panic => .panic) := by
  have e1 : (c :: pre) ++ 0 :: s.caps ++ [10] = ((c :: pre) ++ 0 :: s.caps) ++ [10] := by simp
  have hE : startsWith bERR ((c :: pre) ++ 0 :: s.caps ++ [10]) = false := by
    have : (69 : UInt8) ≠ c := by intro e; subst e; revert hc; decide
    exact startsWith_false_of_head bERR _ 69 c [82, 82, 32] (pre ++ (0 :: s.caps ++ [10])) rfl (by simp) this
  have hv : extractProtocol ((c :: pre) ++ 0 :: s.caps) = .v1 := by
    have : c ≠ 118 := by intro e; subst e; revert hc; decide
    simp [extractProtocol, startsWith_version_false c _ this]
  have hcaps := isEmpty_false_of_ne h.capsNe
  unfold handshakeV1
  simp only [hE, chomp_append_nl, hv, splitOnce_append 0 _ _ h0, hcaps, splitAll_caps s h,
    fromCapabilities_capTokens s h, List.length_map]
  cases parseV1Lines s.symrefs.length { refs := s.symrefs.map mkL, shallow := [] } (((c :: pre) ++ [10]) :: rest) with
  | ok st => cases hq : intoRefs st.refs <;> simp [hq]
  | err e => simp
  | panic => simp

/-- `handshakeV1` on a whole advertisement is the read loop over the plain lines followed by the
conversion; an advertisement without any line is protocol "V0" with nothing in it -/
theorem handshake_reduce (s : V1Server) (h : WfV1 s) (st : V1State) (refs : List Ref)
    (hrun : runBody s = .ok st) (hconv : intoRefs st.refs = .ok refs) :
    handshakeV1 (advertiseV1 s) =
      some (.ok { proto := if (advertiseV1 s).isEmpty then 0 else 1, refs := refs, shallow := st.shallow }) := by
  unfold runBody bodyLines at hrun
  cases hes : s.entries with
  | nil =>
    simp only [hes, List.flatMap_nil, List.nil_append] at hrun
    by_cases hd : s.dummy = true
    · -- the dummy line carries the capabilities
      have hz : IsHexDigit 48 := by decide
      have h0 : (0 : UInt8) ∉ (48 : UInt8) :: (List.replicate 39 48 ++ 32 :: (bCapabilities ++ bPeelSuffix)) := by decide
      have hl : zeros40 ++ 32 :: (bCapabilities ++ bPeelSuffix ++ 0 :: s.caps ++ [10])
          = ((48 : UInt8) :: (List.replicate 39 48 ++ 32 :: (bCapabilities ++ bPeelSuffix))) ++ 0 :: s.caps ++ [10] := by
        simp [zeros40, List.replicate]
      have hl2 : ((48 : UInt8) :: (List.replicate 39 48 ++ 32 :: (bCapabilities ++ bPeelSuffix))) ++ [10]
          = zeros40 ++ 32 :: (bCapabilities ++ bPeelSuffix) ++ [10] := by
        simp [zeros40, List.replicate]
      have hEz : startsWith bERR (zeros40 ++ 32 :: (bCapabilities ++ bPeelSuffix) ++ [10]) = false := by
        have := startsWith_ERR_zeros (32 :: (bCapabilities ++ bPeelSuffix) ++ [10])
        simpa using this
      have hadv : advertiseV1 s =
          (zeros40 ++ 32 :: (bCapabilities ++ bPeelSuffix ++ 0 :: s.caps ++ [10])) :: shallowLines s.shallow := by
        simp [advertiseV1, hes, hd]
      rw [hadv, hl, handshakeV1_firstLine s h 48 _ _ hz h0, hl2]
      simp only [parseV1Lines, hEz, parseV1_dummyLine, hrun, Bool.false_eq_true, if_false]
      rw [hconv]
      simp
    · have hd' : s.dummy = false := by simpa using hd
      have hsh := h.emptyShallow hes hd'
      simp only [hsh, shallowLines, List.map_nil, parseV1Lines, Res.ok.injEq] at hrun
      subst hrun
      have : refs = [] := by
        have := intoRefs_eq (s.symrefs.map mkL)
        rw [filter_mkL] at this
        simp only [] at hconv
        rw [this] at hconv
        simpa using hconv.symm
      subst this
      simp [advertiseV1, hes, hd', hsh, shallowLines, handshakeV1]
  | cons e es =>
    have he := h.entries e (by simp [hes])
    obtain ⟨c, r, hc, hcd⟩ := toHex_head e.oid he.oid
    have h0 : (0 : UInt8) ∉ c :: (r ++ 32 :: e.name) := by
      have h1 : (0 : UInt8) ∉ toHex e.oid := not_mem_toHex _ _ not_hex_0
      rw [hc] at h1
      intro hm
      rcases List.mem_cons.mp hm with h2 | h2
      · exact h1 (by simp [h2])
      · rcases List.mem_append.mp h2 with h3 | h3
        · exact h1 (by simp [h3])
        · rcases List.mem_cons.mp h3 with h4 | h4
          · exact absurd h4 (by decide)
          · exact he.name.noNul h4
    have hl : toHex e.oid ++ 32 :: (e.name ++ 0 :: s.caps ++ [10])
        = (c :: (r ++ 32 :: e.name)) ++ 0 :: s.caps ++ [10] := by simp [hc]
    have hl2 : (c :: (r ++ 32 :: e.name)) ++ [10] = plainLine e.name e.oid := by simp [plainLine, hc]
    have hadv : advertiseV1 s = (toHex e.oid ++ 32 :: (e.name ++ 0 :: s.caps ++ [10])) ::
        ((match e.peeled with | some p => [peelLine e.name p] | none => [])
          ++ es.flatMap (fun e => refLines e []) ++ shallowLines s.shallow) := by
      cases hp : e.peeled <;> simp [advertiseV1, hes, refLines, peelLine, hp]
      all_goals rfl
    have hbody : plainLine e.name e.oid ::
        ((match e.peeled with | some p => [peelLine e.name p] | none => [])
          ++ es.flatMap (fun e => refLines e []) ++ shallowLines s.shallow)
        = (e :: es).flatMap (fun e => refLines e []) ++ shallowLines s.shallow := by
      rw [List.flatMap_cons, refLines_nil_eq]
      cases e.peeled <;> simp
    rw [hes] at hrun
    rw [hadv, hl, handshakeV1_firstLine s h c _ _ hcd h0, hl2, hbody, hrun]
    simp [hconv]

end GixModel.C30
