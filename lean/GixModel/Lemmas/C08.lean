import GixModel.Model.C08
/-
C08 — specification (`Spec.obj`: the obvious recursive resolution), the cache contract, and the
lemmas behind `resolve_exact`.
-/
namespace GixModel.C08
open GixModel

/-! ## specification -/

/-- apply a delta the way git does: the base must have the advertised size -/
def applyStrict (bd : Bytes) (i : DeltaInfo) : Option Bytes :=
  if i.baseSize = bd.length then applyDelta bd i.resultSize i.instr else none

/-- the object at `off`: a full entry as it is, a delta applied to the object of its base.
Fuel = an upper bound on the length of the delta chain (a pack is acyclic: some fuel works). -/
def Spec.obj (P : Pack) : Nat → Nat → Option (Kind × Bytes)
  | 0, _ => none
  | fuel + 1, off =>
    match P.entry off with
    | none => none
    | some (.base k d _) => some (k, d)
    | some (.ofs b delta _) =>
      match Spec.obj P fuel b with
      | none => none
      | some (k, bd) => (applyStrict bd (deltaInfo delta)).map fun r => (k, r)
    | some (.ref id delta _) =>
      match P.resolve id with
      | some b =>
        match Spec.obj P fuel b with
        | none => none
        | some (k, bd) => (applyStrict bd (deltaInfo delta)).map fun r => (k, r)
      | none =>
        -- a thin pack: the base is an object outside the pack
        match P.external id with
        | none => none
        | some (k, bd) => (applyStrict bd (deltaInfo delta)).map fun r => (k, r)

theorem Spec.obj_succ (P : Pack) : ∀ (fuel off : Nat) (v : Kind × Bytes),
    Spec.obj P fuel off = some v → Spec.obj P (fuel + 1) off = some v := by
  intro fuel
  induction fuel with
  | zero => intro off v h; simp [Spec.obj] at h
  | succ fuel ih =>
    intro off v h
    rw [Spec.obj] at h ⊢
    cases he : P.entry off with
    | none => simp [he] at h
    | some e =>
      cases e with
      | base k d p => simpa [he] using h
      | ofs b delta p =>
        simp only [he] at h ⊢
        cases hb : Spec.obj P fuel b with
        | none => simp [hb] at h
        | some kb => rw [ih b kb hb]; simpa [hb] using h
      | ref id delta p =>
        simp only [he] at h ⊢
        cases hr : P.resolve id with
        | none => simpa [hr] using h
        | some b =>
          simp only [hr] at h ⊢
          cases hb : Spec.obj P fuel b with
          | none => simp [hb] at h
          | some kb => rw [ih b kb hb]; simpa [hb] using h

theorem Spec.obj_mono (P : Pack) (f g off : Nat) (v : Kind × Bytes) (hfg : f ≤ g)
    (h : Spec.obj P f off = some v) : Spec.obj P g off = some v := by
  induction g with
  | zero =>
    have : f = 0 := by omega
    subst this; exact h
  | succ g ih =>
    by_cases hf : f = g + 1
    · subst hf; exact h
    · exact Spec.obj_succ P g off v (ih (by omega))

theorem Spec.obj_unique (P : Pack) (f g off : Nat) (v w : Kind × Bytes)
    (h1 : Spec.obj P f off = some v) (h2 : Spec.obj P g off = some w) : v = w := by
  have a := Spec.obj_mono P f (max f g) off v (Nat.le_max_left _ _) h1
  have b := Spec.obj_mono P g (max f g) off w (Nat.le_max_right _ _) h2
  rw [a] at b
  exact Option.some.inj b

/-- "the cache value under key `k` is the object at `k`" -/
def IsObj (P : Pack) (k : Nat) (v : Val) : Prop := ∃ fuel, Spec.obj P fuel k = some (v.kind, v.data)

/-! ## the cache contract -/

/-- What `resolve_deltas` needs of a cache: for every predicate `Q` on (key, value) pairs there is an
invariant `Inv Q` of cache states such that — as long as only `Q`-pairs are put — `get` only returns
`Q`-pairs, and `put` never panics. ("`get` returns nothing, or a value that was put under that key.") -/
structure CacheContract (M : CacheModel) where
  Inv : (Nat → Val → Prop) → M.σ → Prop
  get_inv : ∀ {Q s} (k : Nat), Inv Q s → Inv Q (M.get s k).2
  get_sound : ∀ {Q s k v}, Inv Q s → (M.get s k).1 = some v → Q k v
  put_ok : ∀ {Q s k v}, Inv Q s → Q k v → ∃ s', M.put s k v = some s' ∧ Inv Q s'

/-! ## `delta::apply` writes exactly `result_size` bytes -/

theorem applyGo_length (fuel : Nat) (base : Bytes) (room : Nat) (data : Bytes) (acc : List Bytes) (out : Bytes)
    (h : applyGo fuel base room data acc = some out) : out.length = (acc.map List.length).sum + room := by
  fun_induction applyGo fuel base room data acc <;> simp_all
  · subst h
    simp [List.length_flatten, List.sum_reverse]
  all_goals omega

theorem applyDelta_length (base : Bytes) (n : Nat) (data out : Bytes) (h : applyDelta base n data = some out) :
    out.length = n := by
  have := applyGo_length _ _ _ _ _ _ h
  simpa using this

/-! ## the walk along the bases -/

def WalkEnd.val : WalkEnd → Kind × Bytes
  | .base k d => (k, d)
  | .hit v => (v.kind, v.data)
  | .external k d => (k, d)

/-- apply the chain items (oldest first) the strict way -/
def replay : Kind × Bytes → List ChainItem → Option (Kind × Bytes)
  | v, [] => some v
  | (k, bd), d :: rest =>
    match applyStrict bd d.info with
    | none => none
    | some r => replay (k, r) rest

theorem replay_append (v : Kind × Bytes) (xs ys : List ChainItem) :
    replay v (xs ++ ys) = (replay v xs).bind fun w => replay w ys := by
  induction xs generalizing v with
  | nil => simp [replay]
  | cons d rest ih =>
    obtain ⟨k, bd⟩ := v
    simp only [List.cons_append, replay]
    cases applyStrict bd d.info with
    | none => simp
    | some r => simp [ih]

theorem replay_kind (v w : Kind × Bytes) (xs : List ChainItem) (h : replay v xs = some w) : w.1 = v.1 := by
  induction xs generalizing v with
  | nil => simp [replay] at h; rw [← h]
  | cons d rest ih =>
    obtain ⟨k, bd⟩ := v
    simp only [replay] at h
    cases ha : applyStrict bd d.info with
    | none => simp [ha] at h
    | some r => simp only [ha] at h; exact ih (k, r) h

/-- The walk stops at a full base or at a cache hit; what it collected, replayed on where it stopped,
is the object at the cursor; the cache invariant survives. -/
theorem walk_spec (P : Pack) (M : CacheModel) (K : CacheContract M) :
    ∀ (fuel : Nat) (c : M.σ) (cursor : Nat) (acc : List ChainItem) (v : Kind × Bytes),
    Spec.obj P fuel cursor = some v → K.Inv (IsObj P) c →
    ∃ items stop c', walk P M fuel c cursor acc = .ok (items ++ acc, stop, c') ∧ K.Inv (IsObj P) c' ∧
      replay stop.val items = some v ∧
      (items = [] → (∃ k d p, P.entry cursor = some (.base k d p)) ∨ ∃ val, stop = .hit val) := by
  intro fuel
  induction fuel with
  | zero => intro c cursor acc v h; simp [Spec.obj] at h
  | succ fuel ih =>
    intro c cursor acc v hs hinv
    rw [Spec.obj] at hs
    -- the common step for both kinds of delta, once the base offset is known
    have step : ∀ (baseOff : Nat) (delta : Bytes) (packed : Nat) (kb : Kind × Bytes),
        Spec.obj P fuel baseOff = some kb →
        (applyStrict kb.2 (deltaInfo delta)).map (fun r => (kb.1, r)) = some v →
        (M.get c cursor).1 = none →
        ∃ items stop c', walk P M fuel (M.get c cursor).2 baseOff
            ({ off := cursor, info := deltaInfo delta, packed := packed, raw := delta } :: acc) = .ok (items ++ acc, stop, c') ∧
          K.Inv (IsObj P) c' ∧ replay stop.val items = some v ∧ items ≠ [] := by
      intro baseOff delta packed kb hb happ _
      obtain ⟨items, stop, c', h1, h2, h3, _⟩ := ih (M.get c cursor).2 baseOff
        ({ off := cursor, info := deltaInfo delta, packed := packed, raw := delta } :: acc) kb hb (K.get_inv cursor hinv)
      refine ⟨items ++ [{ off := cursor, info := deltaInfo delta, packed := packed, raw := delta }], stop, c', ?_, h2, ?_, by simp⟩
      · rw [h1]; simp
      · rw [replay_append, h3]
        obtain ⟨k, bd⟩ := kb
        simp only [Option.bind_some, replay]
        cases ha : applyStrict bd (deltaInfo delta) with
        | none => simp [ha] at happ
        | some r => simpa [ha, replay] using happ
    cases he : P.entry cursor with
    | none => simp [he] at hs
    | some e =>
      cases e with
      | base k d p =>
        simp only [he, Option.some.injEq] at hs
        refine ⟨[], .base k d, c, by simp [walk, he], hinv, by simp [replay, WalkEnd.val, hs], ?_⟩
        intro _; exact Or.inl ⟨k, d, p, rfl⟩
      | ofs baseOff delta packed =>
        simp only [he] at hs
        cases hg : (M.get c cursor).1 with
        | some val =>
          -- a cache hit: the value is the object at the cursor
          obtain ⟨f', hf'⟩ := K.get_sound hinv hg
          have hv : (val.kind, val.data) = v := by
            have hs' : Spec.obj P (fuel + 1) cursor = some v := by rw [Spec.obj]; simp only [he]; exact hs
            exact Spec.obj_unique P f' (fuel + 1) cursor _ _ hf' hs'
          refine ⟨[], .hit val, (M.get c cursor).2, ?_, K.get_inv cursor hinv, by simp [replay, WalkEnd.val, hv], ?_⟩
          · have : M.get c cursor = (some val, (M.get c cursor).2) := by rw [← hg]
            simp only [walk, he]; rw [this]; simp
          · intro _; exact Or.inr ⟨val, rfl⟩
        | none =>
          cases hb : Spec.obj P fuel baseOff with
          | none => simp [hb] at hs
          | some kb =>
            simp only [hb] at hs
            obtain ⟨items, stop, c', h1, h2, h3, h4⟩ := step baseOff delta packed kb hb (by simpa using hs) hg
            refine ⟨items, stop, c', ?_, h2, h3, fun h => absurd h h4⟩
            have : M.get c cursor = (none, (M.get c cursor).2) := by rw [← hg]
            simp only [walk, he]; rw [this]; exact h1
      | ref baseId delta packed =>
        simp only [he] at hs
        cases hg : (M.get c cursor).1 with
        | some val =>
          obtain ⟨f', hf'⟩ := K.get_sound hinv hg
          have hv : (val.kind, val.data) = v := by
            have hs' : Spec.obj P (fuel + 1) cursor = some v := by rw [Spec.obj]; simp only [he]; exact hs
            exact Spec.obj_unique P f' (fuel + 1) cursor _ _ hf' hs'
          refine ⟨[], .hit val, (M.get c cursor).2, ?_, K.get_inv cursor hinv, by simp [replay, WalkEnd.val, hv], ?_⟩
          · have : M.get c cursor = (some val, (M.get c cursor).2) := by rw [← hg]
            simp only [walk, he]; rw [this]; simp
          · intro _; exact Or.inr ⟨val, rfl⟩
        | none =>
          cases hr : P.resolve baseId with
          | none =>
            -- a base outside the pack: the walk stops there, with the delta already on the chain
            simp only [hr] at hs
            cases hx : P.external baseId with
            | none => simp [hx] at hs
            | some kd =>
              obtain ⟨k, bd⟩ := kd
              simp only [hx] at hs
              refine ⟨[{ off := cursor, info := deltaInfo delta, packed := packed, raw := delta }], .external k bd,
                (M.get c cursor).2, ?_, K.get_inv cursor hinv, ?_, by simp⟩
              · have : M.get c cursor = (none, (M.get c cursor).2) := by rw [← hg]
                simp only [walk, he]; rw [this]; simp only [hr, hx]; simp
              · simp only [replay, WalkEnd.val]
                cases ha : applyStrict bd (deltaInfo delta) with
                | none => simp [ha] at hs
                | some r => simpa [ha, replay] using hs
          | some baseOff =>
            simp only [hr] at hs
            cases hb : Spec.obj P fuel baseOff with
            | none => simp [hb] at hs
            | some kb =>
              simp only [hb] at hs
              obtain ⟨items, stop, c', h1, h2, h3, h4⟩ := step baseOff delta packed kb hb (by simpa using hs) hg
              refine ⟨items, stop, c', ?_, h2, h3, fun h => absurd h h4⟩
              have : M.get c cursor = (none, (M.get c cursor).2) := by rw [← hg]
              simp only [walk, he]; rw [this]; simp only [hr]; exact h1

/-! ## the two swapping buffers -/

theorem fitTo_length (n : Nat) (bs : Bytes) : (fitTo n bs).length = n := by
  simp only [fitTo, List.length_take, List.length_append, List.length_replicate]; omega

theorem fitTo_take (n : Nat) (bs : Bytes) (h : bs.length ≤ n) : (fitTo n bs).take bs.length = bs := by
  simp only [fitTo]
  rw [List.take_take, Nat.min_eq_left h, List.take_left' rfl]

theorem overwrite_length (buf front : Bytes) (h : front.length ≤ buf.length) :
    (overwrite buf front).length = buf.length := by
  simp only [overwrite, List.length_append, List.length_drop]; omega

theorem overwrite_take (buf front : Bytes) : (overwrite buf front).take front.length = front := by
  simp only [overwrite]; exact List.take_left' rfl

/-- After the loop the buffer `source_buf` refers to starts with the final result; the orientation has
flipped once per delta (`srcIsA` at the end = `srcIsA` at the start XOR odd length). -/
theorem applyChain_spec (n : Nat) : ∀ (items : List ChainItem) (a b : Bytes) (srcIsA : Bool) (last0 : Nat)
    (k : Kind) (data : Bytes) (fin : Kind × Bytes),
    a.length = n → b.length = n → (∀ d ∈ items, d.info.baseSize ≤ n ∧ d.info.resultSize ≤ n) →
    (if srcIsA then a else b).take data.length = data → data.length ≤ n →
    replay (k, data) items = some fin →
    ∃ a' b' s' last, applyChain items a b srcIsA last0 = some (a', b', s', last) ∧
      a'.length = n ∧ b'.length = n ∧ s' = (srcIsA != (items.length % 2 == 1)) ∧
      (items ≠ [] → last = fin.2.length) ∧ (if s' then a' else b').take fin.2.length = fin.2 ∧ fin.1 = k := by
  intro items
  induction items with
  | nil =>
    intro a b srcIsA last0 k data fin ha hb _ hsrc _ hrep
    simp only [replay, Option.some.injEq] at hrep
    subst hrep
    exact ⟨a, b, srcIsA, last0, rfl, ha, hb, by simp, by simp, hsrc, rfl⟩
  | cons d rest ih =>
    intro a b srcIsA last0 k data fin ha hb hsz hsrc hdl hrep
    simp only [replay] at hrep
    cases hap : applyStrict data d.info with
    | none => simp [hap] at hrep
    | some r =>
      simp only [hap] at hrep
      obtain ⟨hd1, hd2⟩ := hsz d (by simp)
      -- strict application: the advertised base size is the data's length
      have hbs : d.info.baseSize = data.length := by
        unfold applyStrict at hap
        by_cases h : d.info.baseSize = data.length
        · exact h
        · simp [h] at hap
      have happ : applyDelta data d.info.resultSize d.info.instr = some r := by
        unfold applyStrict at hap; simpa [hbs] using hap
      have hrl : r.length = d.info.resultSize := applyDelta_length _ _ _ _ happ
      have hsl : (if srcIsA then a else b).length = n := by cases srcIsA <;> simp [ha, hb]
      have htl : (if srcIsA then b else a).length = n := by cases srcIsA <;> simp [ha, hb]
      have g1 : ¬ d.info.baseSize > (if srcIsA then a else b).length := by omega
      have g2 : ¬ d.info.resultSize > (if srcIsA then b else a).length := by omega
      have hov : (overwrite (if srcIsA then b else a) r).length = n := by
        rw [overwrite_length _ _ (by omega), htl]
      have hrest : ∀ d' ∈ rest, d'.info.baseSize ≤ n ∧ d'.info.resultSize ≤ n :=
        fun d' hd' => hsz d' (by simp [hd'])
      have hunf : applyChain (d :: rest) a b srcIsA last0 =
          (if srcIsA then applyChain rest a (overwrite (if srcIsA then b else a) r) false d.info.resultSize
           else applyChain rest (overwrite (if srcIsA then b else a) r) b true d.info.resultSize) := by
        have g1' : ¬ data.length > (if srcIsA then a else b).length := by omega
        simp only [applyChain, g2, if_false, hbs, hsrc, happ, g1']
      cases srcIsA with
      | true =>
        simp only [if_true, Bool.true_bne] at *
        obtain ⟨a', b', s', last, h1, h2, h3, h4, h5, h6, h7⟩ := ih a (overwrite b r) false d.info.resultSize k r fin
          ha hov hrest (by simpa using overwrite_take b r) (by omega) hrep
        refine ⟨a', b', s', last, by rw [hunf]; exact h1, h2, h3, ?_, ?_, h6, h7⟩
        · rw [h4]; simp only [List.length_cons]
          cases hm : rest.length % 2 == 1 <;> simp_all <;> omega
        · intro _
          by_cases hr0 : rest = []
          · subst hr0
            simp only [applyChain, Option.some.injEq, Prod.mk.injEq] at h1
            simp only [replay, Option.some.injEq] at hrep
            rw [← h1.2.2.2, ← hrep, hrl]
          · exact h5 hr0
      | false =>
        simp only [Bool.false_eq_true, if_false, Bool.false_bne] at *
        obtain ⟨a', b', s', last, h1, h2, h3, h4, h5, h6, h7⟩ := ih (overwrite a r) b true d.info.resultSize k r fin
          hov hb hrest (by simpa using overwrite_take a r) (by omega) hrep
        refine ⟨a', b', s', last, by rw [hunf]; exact h1, h2, h3, ?_, ?_, h6, h7⟩
        · rw [h4]; simp only [List.length_cons]
          cases hm : rest.length % 2 == 1 <;> simp_all <;> omega
        · intro _
          by_cases hr0 : rest = []
          · subst hr0
            simp only [applyChain, Option.some.injEq, Prod.mk.injEq] at h1
            simp only [replay, Option.some.injEq] at hrep
            rw [← h1.2.2.2, ← hrep, hrl]
          · exact h5 hr0

theorem le_foldl_max (xs : List Nat) : ∀ (m x : Nat), (x ∈ xs ∨ x ≤ m) → x ≤ xs.foldl max m := by
  induction xs with
  | nil => intro m x h; simpa using h
  | cons y ys ih =>
    intro m x h
    simp only [List.foldl_cons]
    apply ih
    rcases h with h | h
    · simp only [List.mem_cons] at h
      rcases h with h | h
      · right; subst h; exact Nat.le_max_right _ _
      · left; exact h
    · right; exact Nat.le_trans h (Nat.le_max_left _ _)

/-! ## `decode_entry` -/

theorem WalkEnd.val_eq (w : WalkEnd) : w.val = (w.kind, w.data) := by cases w <;> rfl

theorem replay_first_size (k : Kind) (data : Bytes) (d : ChainItem) (rest : List ChainItem) (fin : Kind × Bytes)
    (h : replay (k, data) (d :: rest) = some fin) : d.info.baseSize = data.length := by
  simp only [replay] at h
  unfold applyStrict at h
  by_cases hb : d.info.baseSize = data.length
  · exact hb
  · simp [hb] at h

theorem sizes_le_biggest (acc : List ChainItem) : ∀ d ∈ acc, d.info.baseSize ≤ biggestSize acc ∧ d.info.resultSize ≤ biggestSize acc := by
  intro d hd
  have h : max d.info.baseSize d.info.resultSize ≤ biggestSize acc := by
    apply le_foldl_max
    left
    exact List.mem_map.mpr ⟨d, hd, rfl⟩
  exact ⟨Nat.le_trans (Nat.le_max_left _ _) h, Nat.le_trans (Nat.le_max_right _ _) h⟩

/-- the parity copy: whatever orientation the loop ended in, the first physical buffer starts with the
result — GIVEN that the orientation is what an odd/even number of swaps produces -/
theorem assemble_spec (n chainLen : Nat) (a b : Bytes) (last : Nat) (fin : Bytes)
    (_ha : a.length = n) (hb : b.length = n) (hl : last = fin.length) (hln : last ≤ n)
    (hfin : (if (true != (chainLen % 2 == 1)) then a else b).take fin.length = fin) :
    assemble chainLen a b (true != (chainLen % 2 == 1)) last = fin := by
  subst hl
  by_cases hodd : chainLen % 2 = 1
  · have h1 : (true != (chainLen % 2 == 1)) = false := by simp [hodd]
    rw [h1] at hfin ⊢
    simp only [Bool.false_eq_true, if_false] at hfin
    simp only [assemble, Bool.false_eq_true, if_false, hodd, if_true]
    have hlen : (b.take fin.length).length = fin.length := by rw [List.length_take]; omega
    have := overwrite_take a (b.take fin.length)
    rw [hlen] at this
    rw [this, hfin]
  · have h1 : (true != (chainLen % 2 == 1)) = true := by simp [hodd]
    rw [h1] at hfin ⊢
    simp only [if_true] at hfin
    simp only [assemble, if_true, hodd, if_false]
    exact hfin

/-- the buffer part of `resolve_deltas` on its own: two buffers of the biggest announced size, the base
in the first, every delta applied from the current source into the current target, the references
swapped each time, the odd-length copy-back, the truncation: what remains is the chain's result -/
theorem buffers_spec (acc : List ChainItem) (kind : Kind) (baseData : Bytes) (v : Kind × Bytes)
    (hne : acc ≠ []) (hrep : replay (kind, baseData) acc = some v) :
    ∃ a b s last, applyChain acc (fitTo (biggestSize acc) baseData) (fitTo (biggestSize acc) []) true 0
        = some (a, b, s, last) ∧ assemble acc.length a b s last = v.2 ∧ v.1 = kind := by
  obtain ⟨i0, irest, hacc⟩ := List.exists_cons_of_ne_nil hne
  have hb0 : i0.info.baseSize = baseData.length := replay_first_size kind baseData i0 irest v (by rw [← hacc]; exact hrep)
  have hsz := sizes_le_biggest acc
  have hbl : baseData.length ≤ biggestSize acc := by
    rw [← hb0]; exact (hsz i0 (by rw [hacc]; simp)).1
  obtain ⟨a', b', s', last, h1, h2, h3, h4, h5, h6, h7⟩ := applyChain_spec (biggestSize acc) acc
    (fitTo (biggestSize acc) baseData) (fitTo (biggestSize acc) []) true 0 kind baseData v
    (fitTo_length _ _) (fitTo_length _ _) hsz (by simpa using fitTo_take _ _ hbl) hbl hrep
  have hlast := h5 hne
  -- the final result is some delta's result, hence fits the buffers
  have hfl : v.2.length ≤ biggestSize acc := by
    have := congrArg List.length h6
    rw [List.length_take] at this
    have hs'l : (if s' = true then a' else b').length = biggestSize acc := by cases s' <;> simp [h2, h3]
    omega
  refine ⟨a', b', s', last, h1, ?_, h7⟩
  rw [h4]
  exact assemble_spec (biggestSize acc) acc.length a' b' last v.2 h2 h3 hlast (by omega) (by rw [← h4]; exact h6)

theorem finishChain_spec (P : Pack) (M : CacheModel) (K : CacheContract M) (c : M.σ) (off : Nat)
    (acc : List ChainItem) (first : ChainItem) (kind : Kind) (baseData : Bytes) (v : Kind × Bytes)
    (hne : acc ≠ []) (hrep : replay (kind, baseData) acc = some v) (hinv : K.Inv (IsObj P) c)
    (hobj : ∃ f, Spec.obj P f off = some v) :
    ∃ d c', finishChain M c off acc first kind baseData = .ok (d, c') ∧ (d.kind, d.data) = v ∧
      d.numDeltas = acc.length ∧ K.Inv (IsObj P) c' := by
  obtain ⟨a', b', s', last, h1, hout, h7⟩ := buffers_spec acc kind baseData v hne hrep
  have hq : IsObj P off { kind := kind, data := assemble acc.length a' b' s' last, packed := first.packed } := by
    obtain ⟨f, hf⟩ := hobj
    refine ⟨f, ?_⟩
    rw [hf, hout]
    obtain ⟨vk, vd⟩ := v
    simp only at h7
    simp [h7]
  obtain ⟨c', hp, hinv'⟩ := K.put_ok hinv hq
  refine ⟨{ kind := kind, data := assemble acc.length a' b' s' last, numDeltas := acc.length,
             compressedSize := first.packed }, c', by simp only [finishChain, h1, hp], ?_, rfl, hinv'⟩
  simp only [hout]
  obtain ⟨vk, vd⟩ := v
  simp only at h7
  simp [h7]

theorem resolveDeltas_spec (P : Pack) (M : CacheModel) (K : CacheContract M) (fuel : Nat) (c : M.σ) (off : Nat)
    (v : Kind × Bytes) (hs : Spec.obj P fuel off = some v) (hinv : K.Inv (IsObj P) c)
    (hnb : ∀ k d p, P.entry off ≠ some (.base k d p)) :
    ∃ d c', resolveDeltas P M fuel c off = .ok (d, c') ∧ (d.kind, d.data) = v ∧ K.Inv (IsObj P) c' := by
  obtain ⟨items, stop, c', hw, hinv', hrep, hempty⟩ := walk_spec P M K fuel c off [] v hs hinv
  simp only [List.append_nil] at hw
  rw [WalkEnd.val_eq] at hrep
  cases hl : items.getLast? with
  | none =>
    have hnil : items = [] := List.getLast?_eq_none_iff.mp hl
    subst hnil
    rcases hempty rfl with ⟨k, d, p, hbase⟩ | ⟨val, hval⟩
    · exact absurd hbase (hnb k d p)
    · subst hval
      simp only [replay, WalkEnd.kind, WalkEnd.data, Option.some.injEq] at hrep
      exact ⟨{ kind := val.kind, data := val.data, numDeltas := 0, compressedSize := val.packed }, c',
        by simp only [resolveDeltas, hw, hl], hrep, hinv'⟩
  | some first =>
    have hne : items ≠ [] := by
      intro h; subst h; simp at hl
    obtain ⟨d, c'', h1, h2, _, h4⟩ := finishChain_spec P M K c' off items first stop.kind stop.data v hne hrep hinv' ⟨fuel, hs⟩
    exact ⟨d, c'', by simp only [resolveDeltas, hw, hl]; exact h1, h2, h4⟩

/-- `decode_entry` returns the object the recursive specification assigns to the offset and keeps the
cache invariant — for ANY cache satisfying the contract and ANY cache state satisfying its invariant -/
theorem decodeEntry_exact (P : Pack) (M : CacheModel) (K : CacheContract M) (fuel : Nat) (c : M.σ) (off : Nat)
    (v : Kind × Bytes) (hs : Spec.obj P fuel off = some v) (hinv : K.Inv (IsObj P) c) :
    ∃ d c', decodeEntry P M fuel c off = .ok (d, c') ∧ (d.kind, d.data) = v ∧ K.Inv (IsObj P) c' := by
  cases he : P.entry off with
  | none =>
    cases fuel with
    | zero => simp [Spec.obj] at hs
    | succ f => rw [Spec.obj] at hs; simp [he] at hs
  | some e =>
    cases e with
    | base k d p =>
      cases fuel with
      | zero => simp [Spec.obj] at hs
      | succ f =>
        rw [Spec.obj] at hs
        simp only [he, Option.some.injEq] at hs
        exact ⟨{ kind := k, data := d, numDeltas := 0, compressedSize := p }, c, by simp only [decodeEntry, he], hs, hinv⟩
    | ofs b delta p =>
      obtain ⟨d, c', h1, h2, h3⟩ := resolveDeltas_spec P M K fuel c off v hs hinv (by intro k d p; rw [he]; simp)
      exact ⟨d, c', by simp only [decodeEntry, he]; exact h1, h2, h3⟩
    | ref id delta p =>
      obtain ⟨d, c', h1, h2, h3⟩ := resolveDeltas_spec P M K fuel c off v hs hinv (by intro k d p; rw [he]; simp)
      exact ⟨d, c', by simp only [decodeEntry, he]; exact h1, h2, h3⟩

/-! ## request sequences -/

/-- serve the requests one after the other, threading the cache through -/
def serve (P : Pack) (M : CacheModel) (fuel : Nat) : M.σ → List Nat → Outcome (List Decoded × M.σ)
  | c, [] => .ok ([], c)
  | c, off :: rest =>
    match decodeEntry P M fuel c off with
    | .ok (d, c') =>
      match serve P M fuel c' rest with
      | .ok (ds, c'') => .ok (d :: ds, c'')
      | .err => .err
      | .panic => .panic
      | .outOfFuel => .outOfFuel
    | .err => .err
    | .panic => .panic
    | .outOfFuel => .outOfFuel

theorem serve_exact (P : Pack) (M : CacheModel) (K : CacheContract M) (fuel : Nat) (reqs : List Nat) :
    ∀ (c : M.σ), K.Inv (IsObj P) c → (∀ off ∈ reqs, ∃ v, Spec.obj P fuel off = some v) →
    ∃ ds c', serve P M fuel c reqs = .ok (ds, c') ∧ K.Inv (IsObj P) c' ∧
      ds.map (fun d => some (d.kind, d.data)) = reqs.map (Spec.obj P fuel) := by
  induction reqs with
  | nil => intro c hinv _; exact ⟨[], c, rfl, hinv, rfl⟩
  | cons off rest ih =>
    intro c hinv hdef
    obtain ⟨v, hv⟩ := hdef off (by simp)
    obtain ⟨d, c1, h1, h2, h3⟩ := decodeEntry_exact P M K fuel c off v hv hinv
    obtain ⟨ds, c2, h4, h5, h6⟩ := ih c1 h3 (fun o ho => hdef o (by simp [ho]))
    refine ⟨d :: ds, c2, by simp only [serve, h1, h4], h5, ?_⟩
    simp only [List.map_cons, h6, hv, h2]

end GixModel.C08
