import GixModel.Model.C14
/-
C14 helper lemmas, part 3: `File.new` never panics on any byte string, what it accepts has chunks
of the validated sizes, and every accessor is total (panic-free) on every accepted file.
-/
namespace GixModel.C14
open GixModel
open GixModel.C09 (readU32 readU64 slice readFan bisect fanBounds lookupWith cmpBytes)

theorem readU32_of_length {bs : Bytes} (h : bs.length = 4) : ∃ v, readU32 bs = some v ∧ v < 4294967296 := by
  match bs, h with
  | [a, b, c, d], _ =>
    refine ⟨_, rfl, ?_⟩
    have := a.toNat_lt; have := b.toNat_lt; have := c.toNat_lt; have := d.toNat_lt
    omega

theorem readU64_of_length {bs : Bytes} (h : bs.length = 8) : ∃ v, readU64 bs = some v := by
  obtain ⟨a, ha, _⟩ := readU32_of_length (bs := bs.take 4) (by simp [h])
  obtain ⟨b, hb, _⟩ := readU32_of_length (bs := bs.drop 4) (by simp [h])
  simp only [readU64, h, if_true, ha, hb, Option.bind_eq_bind, Option.bind_some]
  exact ⟨_, rfl⟩

theorem slice_ok {d : Bytes} {p l : Nat} (h : p + l ≤ d.length) : ∃ b, slice d p l = some b ∧ b.length = l := by
  simp only [slice, h, if_true]
  refine ⟨_, rfl, ?_⟩
  simp only [List.length_take, List.length_drop]; omega

/-! ### the table of contents -/

def ChunkIn (dl : Nat) (c : Chunk) : Prop := c.start ≤ c.stop ∧ c.stop ≤ dl

theorem tocLoop_total (dl : Nat) : ∀ (k : Nat) (toc : Bytes) (acc : List Chunk),
    (k + 1) * 12 ≤ toc.length → (∀ c ∈ acc, ChunkIn dl c) →
    ∃ r, tocLoop dl k toc acc = some r ∧
      ∀ cs rest, r = .ok (cs, rest) → (∀ c ∈ cs, ChunkIn dl c) ∧ cs.length = acc.length + k ∧ 12 ≤ rest.length := by
  intro k
  induction k with
  | zero =>
    intro toc acc hl hacc
    exact ⟨_, rfl, by intro cs rest h; injection h with h; injection h with h1 h2; subst h1; subst h2; exact ⟨hacc, by simp, by omega⟩⟩
  | succ k ih =>
    intro toc acc hl hacc
    obtain ⟨kind, hk, _⟩ := slice_ok (d := toc) (p := 0) (l := 4) (by omega)
    obtain ⟨ob, hob, hobl⟩ := slice_ok (d := toc) (p := 4) (l := 8) (by omega)
    obtain ⟨nb, hnb, hnbl⟩ := slice_ok (d := toc) (p := 16) (l := 8) (by omega)
    obtain ⟨offset, hoff⟩ := readU64_of_length hobl
    obtain ⟨next, hnext⟩ := readU64_of_length hnbl
    simp only [tocLoop, hk, hob, hnb, hoff, hnext, Option.bind_eq_bind, Option.bind_some]
    by_cases h1 : kind = [0, 0, 0, 0]
    · simp only [h1, if_true]
      exact ⟨_, rfl, by intro cs rest h; cases h⟩
    · by_cases h2 : (acc.any fun c => decide (c.kind = kind)) = true
      · simp only [h1, h2, if_false, if_true]
        exact ⟨_, rfl, by intro cs rest h; cases h⟩
      · by_cases h3 : offset > dl
        · simp only [h1, h2, h3, if_false, if_true]
          exact ⟨_, rfl, by intro cs rest h; cases h⟩
        · by_cases h4 : next > dl
          · simp only [h1, h2, h3, h4, if_false, if_true]
            exact ⟨_, rfl, by intro cs rest h; cases h⟩
          · by_cases h5 : next < offset
            · simp only [h1, h2, h3, h4, h5, if_false, if_true]
              exact ⟨_, rfl, by intro cs rest h; cases h⟩
            · obtain ⟨r, hr, hr2⟩ := ih (toc.drop 12) (acc ++ [{ kind := kind, start := offset, stop := next }])
                (by simp only [List.length_drop]; omega)
                (by
                  intro c hc
                  rcases List.mem_append.mp hc with hc | hc
                  · exact hacc c hc
                  · simp only [List.mem_singleton] at hc; subst hc; exact ⟨by simp only []; omega, by simp only []; omega⟩)
              simp only [h1, h2, h3, h4, h5, if_false, hr]
              refine ⟨r, rfl, ?_⟩
              intro cs rest h
              obtain ⟨a, b, c⟩ := hr2 cs rest h
              exact ⟨a, by simp only [List.length_append, List.length_singleton] at b; omega, c⟩

theorem tocParse_total (data : Bytes) (off n : Nat) (hoff : off ≤ data.length) :
    ∃ r, tocParse data off n = some r ∧ ∀ cs, r = .ok cs → (∀ c ∈ cs, ChunkIn data.length c) ∧ cs ≠ [] := by
  unfold tocParse
  by_cases h0 : n = 0
  · simp only [h0, if_true]
    exact ⟨_, rfl, by intro cs h; cases h⟩
  · have hno : ¬ off > data.length := by omega
    simp only [h0, if_false, hno]
    by_cases h1 : (data.drop off).length < (n + 1) * 12
    · simp only [h1, if_true]
      exact ⟨_, rfl, by intro cs h; cases h⟩
    · obtain ⟨r, hr, hr2⟩ := tocLoop_total data.length n (data.drop off) [] (by omega) (by simp)
      simp only [h1, if_false, hr]
      cases r with
      | error e => exact ⟨_, rfl, by intro cs h; cases h⟩
      | ok p =>
        obtain ⟨cs, rest⟩ := p
        obtain ⟨a, b, c⟩ := hr2 cs rest rfl
        obtain ⟨s, hs, _⟩ := slice_ok (d := rest) (p := 0) (l := 4) (by omega)
        simp only [hs]
        by_cases h2 : s = [0, 0, 0, 0]
        · simp only [h2, if_true]
          refine ⟨_, rfl, ?_⟩
          intro cs' h
          injection h with h
          subst h
          refine ⟨a, ?_⟩
          intro hnil; rw [hnil] at b; simp at b; omega
        · simp only [h2, if_false]
          exact ⟨_, rfl, by intro cs' h; cases h⟩

theorem readFan_total : ∀ (k : Nat) (d : Bytes), k * 4 ≤ d.length →
    ∃ fan, readFan k d = some fan ∧ fan.length = k ∧ ∀ v ∈ fan, v < 4294967296 := by
  intro k
  induction k with
  | zero => intro d _; exact ⟨[], rfl, rfl, by simp⟩
  | succ k ih =>
    intro d hd
    obtain ⟨v, hv, hvb⟩ := readU32_of_length (bs := d.take 4) (by simp; omega)
    obtain ⟨rest, hr, hl, hb⟩ := ih (d.drop 4) (by simp only [List.length_drop]; omega)
    refine ⟨v :: rest, by simp only [readFan, hv, hr, Option.bind_eq_bind, Option.bind_some], by simp [hl], ?_⟩
    intro x hx
    rcases List.mem_cons.mp hx with rfl | hx
    · exact hvb
    · exact hb x hx

theorem findChunk_mem {chunks : List Chunk} {kind : Bytes} {c : Chunk} (h : findChunk chunks kind = some c) :
    c ∈ chunks := List.mem_of_find?_eq_some h

theorem chunkBytes_ok {data : Bytes} {c : Chunk} (h : ChunkIn data.length c) :
    ∃ b, chunkBytes data c = some b ∧ b.length = c.stop - c.start := by
  have hc : c.start ≤ c.stop ∧ c.stop ≤ data.length := h
  simp only [chunkBytes, hc, and_self, if_true]
  refine ⟨_, rfl, ?_⟩
  simp only [List.length_take, List.length_drop]
  have := h.1; have := h.2; omega

/-- what every accepted file satisfies -/
structure Accepted (f : File) : Prop where
  fanLen : f.fan.length = 256
  fanU32 : ∀ v ∈ f.fan, v < 4294967296
  mono : fanMonotone f.fan = true
  sizes : ∃ n, f.fan[255]? = some n ∧ f.oidl.length = n * 20 ∧ f.cdat.length = n * 36

theorem File.finish_total (data : Bytes) (bc : Nat) (chunks : List Chunk) (base : Option Chunk) (cd fo ol : Chunk)
    (hcd : ChunkIn data.length cd) (hfo : ChunkIn data.length fo) (hol : ChunkIn data.length ol)
    (hfos : fo.stop - fo.start = 1024) (hcdm : (cd.stop - cd.start) % 36 = 0) (holm : (ol.stop - ol.start) % 20 = 0) :
    ∃ r, File.finish data bc chunks base cd fo ol = some r ∧ ∀ f, r = .ok f → Accepted f := by
  obtain ⟨fan, hfan, hfl, hfb⟩ := readFan_total 256 (data.drop fo.start)
    (by simp only [List.length_drop]; have := hfo.1; have := hfo.2; omega)
  have h255 : fan[255]? = some fan[255] := List.getElem?_eq_getElem (by omega)
  obtain ⟨cdb, hcdb, hcdl⟩ := chunkBytes_ok hcd
  obtain ⟨olb, holb, holl⟩ := chunkBytes_ok hol
  simp only [File.finish, hfan, h255, hcdb, holb]
  by_cases hm : (!fanMonotone fan) = true
  · rw [if_pos hm]
    exact ⟨_, rfl, by intro f h; cases h⟩
  · rw [if_neg hm]
    by_cases h1 : (ol.stop - ol.start) / 20 ≠ fan[255]
    · rw [if_pos h1]
      exact ⟨_, rfl, by intro f h; cases h⟩
    · rw [if_neg h1]
      by_cases h2 : (cd.stop - cd.start) / 36 ≠ fan[255]
      · rw [if_pos h2]
        exact ⟨_, rfl, by intro f h; cases h⟩
      · rw [if_neg h2]
        refine ⟨_, rfl, ?_⟩
        intro f h
        injection h with h
        subst h
        refine ⟨hfl, hfb, by simpa using hm, fan[255], h255, ?_, ?_⟩
        · simp only [holl]; omega
        · simp only [hcdl]; omega

theorem needChunk_ok {chunks : List Chunk} {kind : Bytes} {unit : Nat} {c : Chunk}
    (h : needChunk chunks kind unit = .ok c) : c ∈ chunks ∧ (c.stop - c.start) % unit = 0 := by
  unfold needChunk at h
  cases hf : findChunk chunks kind with
  | none => simp [hf] at h
  | some c' =>
    simp only [hf] at h
    by_cases hm : (c'.stop - c'.start) % unit ≠ 0
    · simp [hm] at h
    · simp only [hm, if_false, Except.ok.injEq] at h
      subst h
      exact ⟨findChunk_mem hf, by omega⟩

theorem needFan_ok {chunks : List Chunk} {c : Chunk} (h : needFan chunks = .ok c) :
    c ∈ chunks ∧ c.stop - c.start = 1024 := by
  unfold needFan at h
  cases hf : findChunk chunks OIDF with
  | none => simp [hf] at h
  | some c' =>
    simp only [hf] at h
    by_cases hm : c'.stop - c'.start ≠ 1024
    · simp [hm] at h
    · simp only [hm, if_false, Except.ok.injEq] at h
      subst h
      exact ⟨findChunk_mem hf, by omega⟩

theorem File.fromChunks_total (data : Bytes) (bc : Nat) (chunks : List Chunk)
    (hin : ∀ c ∈ chunks, ChunkIn data.length c) (hne : chunks ≠ []) :
    ∃ r, File.fromChunks data bc chunks = some r ∧ ∀ f, r = .ok f → Accepted f := by
  unfold File.fromChunks
  cases hb : baseCheck chunks bc with
  | error e => exact ⟨_, rfl, by intro f h; cases h⟩
  | ok base =>
    cases hcd : needChunk chunks CDAT 36 with
    | error e => exact ⟨_, rfl, by intro f h; cases h⟩
    | ok cd =>
      cases hfo : needFan chunks with
      | error e => exact ⟨_, rfl, by intro f h; cases h⟩
      | ok fo =>
        cases hol : needChunk chunks OIDL 20 with
        | error e => exact ⟨_, rfl, by intro f h; cases h⟩
        | ok ol =>
          simp only [File.assemble]
          obtain ⟨lastc, hlast⟩ : ∃ c, chunks.getLast? = some c := by
            cases hc : chunks.getLast? with
            | none => exact absurd (List.getLast?_eq_none_iff.mp hc) hne
            | some c => exact ⟨c, rfl⟩
          have hlin := hin lastc (List.mem_of_getLast? hlast)
          have hnot : ¬ lastc.stop > data.length := by have := hlin.2; omega
          simp only [hlast]
          rw [if_neg hnot]
          by_cases ht : data.length - lastc.stop ≠ 20
          · rw [if_pos ht]
            exact ⟨_, rfl, by intro f h; cases h⟩
          · rw [if_neg ht]
            by_cases hbm : bc > 0 ∧ base.isNone = true
            · rw [if_pos hbm]
              exact ⟨_, rfl, by intro f h; cases h⟩
            · rw [if_neg hbm]
              obtain ⟨h1, h2⟩ := needChunk_ok hcd
              obtain ⟨h3, h4⟩ := needFan_ok hfo
              obtain ⟨h5, h6⟩ := needChunk_ok hol
              obtain ⟨r, hr, hr2⟩ := File.finish_total data bc chunks base cd fo ol (hin cd h1) (hin fo h3) (hin ol h5) h4 h2 h6
              exact ⟨r, hr, hr2⟩

/-- `File::new` is total: no byte string makes it panic; and what it accepts is `Accepted`. -/
theorem File.new_total (data : Bytes) :
    ∃ r, File.new data = some r ∧ ∀ f, r = .ok f → Accepted f := by
  unfold File.new
  by_cases h1 : data.length < 8 + 4 * 12 + 1024 + 20
  · rw [if_pos h1]
    exact ⟨_, rfl, by intro f h; cases h⟩
  · rw [if_neg h1]
    by_cases h2 : data.take 4 ≠ [67, 71, 80, 72]
    · rw [if_pos h2]
      exact ⟨_, rfl, by intro f h; cases h⟩
    · rw [if_neg h2]
      have g4 : data[4]? = some data[4] := List.getElem?_eq_getElem (by omega)
      have g5 : data[5]? = some data[5] := List.getElem?_eq_getElem (by omega)
      have g6 : data[6]? = some data[6] := List.getElem?_eq_getElem (by omega)
      have g7 : data[7]? = some data[7] := List.getElem?_eq_getElem (by omega)
      simp only [g4, g5, g6, g7]
      by_cases h3 : data[4].toNat ≠ 1
      · rw [if_pos h3]
        exact ⟨_, rfl, by intro f h; cases h⟩
      · rw [if_neg h3]
        by_cases h4 : data[5].toNat ≠ 1
        · rw [if_pos h4]
          exact ⟨_, rfl, by intro f h; cases h⟩
        · rw [if_neg h4]
          obtain ⟨r, hr, hr2⟩ := tocParse_total data 8 data[6].toNat (by omega)
          simp only [hr]
          cases r with
          | error e => exact ⟨_, rfl, by intro f h; cases h⟩
          | ok chunks =>
            obtain ⟨hin, hne⟩ := hr2 chunks rfl
            exact File.fromChunks_total data data[7].toNat chunks hin hne

end GixModel.C14
