import GixModel.Model.C15
/-
C15 — lemmas, part 1: the byte classes, the declarative description of valid names (`Valid`, on
REVERSED names so that "append a byte" is `::`), and git's loop (`Spec.C15.gitLoop`) = `Valid`.
-/
namespace GixModel.C15
open GixModel Spec.C15


def gitBad (b : UInt8) : Bool := disp b == 4 || disp b == 5 || b == 0

def tableOk (t : Table) : Bool :=
  (List.range 256).all fun n =>
    inRanges t.forbidden (UInt8.ofNat n) == (disp (UInt8.ofNat n) == 4 || UInt8.ofNat n == 0)
      && inRanges t.star (UInt8.ofNat n) == (disp (UInt8.ofNat n) == 5)

theorem forall_byte {P : UInt8 → Prop} (h : ∀ n, n < 256 → P (UInt8.ofNat n)) (b : UInt8) : P b := by
  have := h b.toNat (UInt8.toNat_lt b)
  simpa using this

theorem tableOk_spec {t : Table} (h : tableOk t = true) (b : UInt8) :
    inRanges t.forbidden b = (disp b == 4 || b == 0) ∧ inRanges t.star b = (disp b == 5) := by
  revert b
  apply forall_byte
  intro n hn
  simp only [tableOk, List.all_eq_true, List.mem_range, Bool.and_eq_true, beq_iff_eq] at h
  exact h n hn

theorem extracted_ok : tableOk extractedTable = true := by decide +kernel

def gstep (x y : Bool) (b : UInt8) : Bool :=
  match disp b with
  | 2 => x | 3 => y | 4 => false | 5 => false | 1 => false | _ => true

theorem gitStep_eq_gstep (last b : UInt8) : gitStep last b = gstep (last != 46) (last != 64) b := by
  unfold gitStep gstep; rfl

theorem gstep_char : ∀ n, n < 256 → ∀ x y : Bool,
    gstep x y (UInt8.ofNat n) =
      (!gitBad (UInt8.ofNat n) && UInt8.ofNat n != 47 && (UInt8.ofNat n != 46 || x) && (UInt8.ofNat n != 123 || y)) := by
  decide +kernel

theorem gitStep_char (last b : UInt8) :
    gitStep last b = (!gitBad b && b != 47 && (b != 46 || last != 46) && (b != 123 || last != 64)) := by
  rw [gitStep_eq_gstep]
  revert b
  apply forall_byte
  intro n hn
  exact gstep_char n hn _ _



def pairOk (prev b : UInt8) : Bool :=
  !(b == 46 && prev == 46) && !(b == 46 && prev == 47) && !(b == 123 && prev == 64) && !(b == 47 && prev == 47)

def PreOk (p0 : UInt8) : Bytes → Bool
  | [] => true
  | b :: r => PreOk p0 r && !gitBad b && pairOk (r.headD p0) b && !(b == 47 && rlock.isPrefixOf r)

def Valid (r : Bytes) : Bool :=
  PreOk 47 r && !r.isEmpty && r.headD 0 != 47 && r.headD 0 != 46 && !rlock.isPrefixOf r

def comp (r : Bytes) : Bytes := r.takeWhile (· != 47)

theorem PreOk_append {p0 : UInt8} (x r : Bytes) (h : PreOk p0 (x ++ r) = true) : PreOk p0 r = true := by
  induction x with
  | nil => simpa using h
  | cons a x ih =>
    simp only [List.cons_append, PreOk, Bool.and_eq_true] at h
    exact ih h.1.1.1

theorem isPrefixOf_takeWhile (p : UInt8 → Bool) (l : Bytes) (hl : ∀ x ∈ l, p x = true) (r : Bytes) :
    l.isPrefixOf (r.takeWhile p) = l.isPrefixOf r := by
  induction l generalizing r with
  | nil => simp
  | cons x l ih =>
    cases r with
    | nil => simp
    | cons y r =>
      by_cases hy : p y = true
      · simp only [List.takeWhile_cons, hy, if_true, List.isPrefixOf_cons_cons]
        rw [ih (fun z hz => hl z (List.mem_cons_of_mem _ hz))]
      · have hx := hl x (List.mem_cons_self ..)
        have : (x == y) = false := by
          cases hxy : x == y
          · rfl
          · rw [beq_iff_eq] at hxy; subst hxy; exact absurd hx hy
        simp [hy, List.isPrefixOf_cons_cons, this]

theorem rlock_comp (r : Bytes) : rlock.isPrefixOf (comp r) = rlock.isPrefixOf r := by
  apply isPrefixOf_takeWhile
  decide

theorem comp_cons (b : UInt8) (r : Bytes) : comp (b :: r) = if b != 47 then b :: comp r else [] := by
  simp [comp, List.takeWhile_cons]

theorem comp_isEmpty (r : Bytes) : (comp r).isEmpty = (r.headD 47 == 47) := by
  cases r with
  | nil => simp [comp]
  | cons b r =>
    rw [comp_cons]
    by_cases h : b = 47
    · subst h; simp
    · simp [h]

theorem comp_headD (r : Bytes) (h : (r.headD 47 == 47) = false) : (comp r).headD 0 = r.headD 47 := by
  cases r with
  | nil => simp at h
  | cons b r =>
    simp only [List.headD_cons] at h ⊢
    rw [comp_cons]
    simp [bne, h]

theorem comp_lead {r : Bytes} (h : PreOk 47 r = true) : (comp r).getLast? ≠ some 46 := by
  induction r with
  | nil => simp [comp]
  | cons b r ih =>
    simp only [PreOk, Bool.and_eq_true] at h
    obtain ⟨⟨⟨h1, _⟩, h3⟩, _⟩ := h
    rw [comp_cons]
    by_cases hb : b = 47
    · subst hb; simp
    · have hb' : (b != 47) = true := by simp [hb]
      simp only [hb', if_true]
      by_cases he : comp r = []
      · rw [he]
        have : (comp r).isEmpty = true := by simp [he]
        rw [comp_isEmpty] at this
        rw [beq_iff_eq] at this
        rw [this] at h3
        simp only [List.getLast?_singleton, ne_eq, Option.some.injEq]
        intro hb46; subst hb46
        simp [pairOk] at h3
      · rw [List.getLast?_cons_of_ne_nil he]
        exact ih h1


theorem gitLoop_lead (one : Bool) (rest : Bytes) : ∀ (rc : Bytes) (n : Nat),
    rc.getLast? = some 46 → gitLoop one rc n rest = false := by
  induction rest with
  | nil => intro rc n h; simp [gitLoop, gitCompEnd, h]
  | cons b rest ih =>
    intro rc n h
    unfold gitLoop
    by_cases hb : (b == 47) = true
    · simp [hb, gitCompEnd, h]
    · simp only [hb]
      have hne : rc ≠ [] := by intro e; subst e; simp at h
      rw [ih (b :: rc) n (by rw [List.getLast?_cons_of_ne_nil hne]; exact h)]
      simp

def slashes (r : Bytes) : Nat := r.count 47

theorem Valid_of_not_PreOk {x r : Bytes} (h : PreOk 47 r = false) : Valid (x ++ r) = false := by
  cases hv : Valid (x ++ r)
  · rfl
  · simp only [Valid, Bool.and_eq_true] at hv
    have := PreOk_append x r hv.1.1.1.1
    rw [h] at this; cases this

theorem bool_aux (g n p q r s : Bool) :
    (!g && n && (!p || !q) && (!r || !s)) = (!g && n && !(p && q) && !(r && s)) := by
  cases g <;> cases n <;> cases p <;> cases q <;> cases r <;> cases s <;> rfl

theorem gitStep_char' (last b : UInt8) :
    gitStep last b = (!gitBad b && b != 47 && !(b == 46 && last == 46) && !(b == 123 && last == 64)) := by
  rw [gitStep_char]
  exact bool_aux _ _ (b == 46) (last == 46) (b == 123) (last == 64)

theorem pairOk_mid {h b : UInt8} (h1 : (b == 47) = false) (h2 : (h == 47) = false) :
    pairOk h b = (!(b == 46 && h == 46) && !(b == 123 && h == 64)) := by
  simp [pairOk, h1, h2]

theorem gitLoop_eq (one : Bool) (rest : Bytes) : ∀ pre : Bytes, PreOk 47 pre = true →
    gitLoop one (comp pre) (slashes pre) rest
      = (Valid (rest.reverse ++ pre) && (one || decide (slashes (rest.reverse ++ pre) + 1 ≥ 2))) := by
  induction rest with
  | nil =>
    intro pre hp
    simp only [gitLoop, List.reverse_nil, List.nil_append, Valid, hp, Bool.true_and, gitCompEnd,
      rlock_comp, comp_isEmpty]
    have hl := comp_lead hp
    cases pre with
    | nil => simp
    | cons b r =>
      by_cases hb : b = 47
      · subst hb; simp
      · have h3 : (comp (b :: r)).head? = some b := by
          rw [comp_cons]; simp [hb]
        have h4 : ((comp (b :: r)).getLast? != some 46) = true := by
          simp only [bne_iff_ne]; exact hl
        have hb' : (b == 47) = false := by simp [hb]
        simp only [h3, h4, List.headD_cons, hb', List.isEmpty_cons, Bool.not_false, Bool.true_and, Bool.and_true]
        by_cases h46 : b = 46
        · subst h46; simp
        · have : (b == 46) = false := by simp [h46]
          simp [bne, this, hb']
  | cons b rest ih =>
    intro pre hp
    have hrev : (b :: rest).reverse ++ pre = rest.reverse ++ (b :: pre) := by simp
    rw [hrev]
    unfold gitLoop
    by_cases hb : b = 47
    · subst hb
      simp only [beq_self_eq_true, if_true]
      -- gitCompEnd (comp pre) = PreOk 47 (47 :: pre)
      have hce : gitCompEnd (comp pre) = PreOk 47 (47 :: pre) := by
        have hl : ((comp pre).getLast? != some 46) = true := by
          simp only [bne_iff_ne]; exact comp_lead hp
        simp only [gitCompEnd, PreOk, hp, rlock_comp, comp_isEmpty, hl, pairOk]
        have : gitBad 47 = false := by decide
        simp [this]
      rw [hce]
      cases hq : PreOk 47 (47 :: pre)
      · simp [Valid_of_not_PreOk hq]
      · have := ih (47 :: pre) hq
        simp only [comp_cons, slashes, List.count_cons_self] at this
        simp only [Bool.true_and]
        simpa [slashes] using this
    · have hb' : (b == 47) = false := by simp [hb]
      simp only [hb', Bool.false_eq_true, if_false]
      have hcomp : comp (b :: pre) = b :: comp pre := by rw [comp_cons]; simp [hb]
      have hsl : slashes (b :: pre) = slashes pre := by
        simp [slashes, List.count_cons, hb']
      have hpre : PreOk 47 (b :: pre) = (!gitBad b && pairOk (pre.headD 47) b) := by
        simp [PreOk, hp, hb']
      have hbne : (b != 47) = true := by simp [hb]
      by_cases he : (pre.headD 47 == 47) = true
      · -- start of a component
        have hc : comp pre = [] := by
          have := comp_isEmpty pre; rw [he] at this; simpa using this
        have h47 : pre.headD 47 = 47 := by simpa using he
        rw [hc, gitStep_char']
        simp only [List.headD_nil]
        cases hbad : gitBad b
        · by_cases h46 : b = 46
          · subst h46
            have : PreOk 47 (46 :: pre) = false := by rw [hpre, h47]; simp [pairOk]
            rw [Valid_of_not_PreOk this]
            rw [gitLoop_lead one rest [46] _ (by simp)]
            simp
          · have hq : PreOk 47 (b :: pre) = true := by
              rw [hpre, h47, hbad]; simp [pairOk, h46, hb]
            have := ih (b :: pre) hq
            rw [hcomp, hsl, hc] at this
            rw [this]
            have h46' : (b == 46) = false := by simp [h46]
            simp [hbne, h46']
        · have : PreOk 47 (b :: pre) = false := by rw [hpre, hbad]; simp
          rw [Valid_of_not_PreOk this]; simp
      · have he' : (pre.headD 47 == 47) = false := by simpa using he
        rw [comp_headD pre he']
        have hst : gitStep (pre.headD 47) b = PreOk 47 (b :: pre) := by
          rw [gitStep_char', hpre, pairOk_mid hb' he', hbne]
          simp [Bool.and_assoc]
        rw [hst]
        cases hq : PreOk 47 (b :: pre)
        · rw [Valid_of_not_PreOk hq]; simp
        · have := ih (b :: pre) hq
          rw [hcomp, hsl] at this
          rw [this]; simp

theorem PreOk_bytes {p0 : UInt8} {r : Bytes} (h : PreOk p0 r = true) : ∀ b ∈ r, gitBad b = false := by
  induction r with
  | nil => simp
  | cons a r ih =>
    simp only [PreOk, Bool.and_eq_true] at h
    intro b hb
    rcases List.mem_cons.1 hb with rfl | hb
    · simpa using h.1.1.2
    · exact ih h.1.1.1 b hb

theorem Valid_no_nul {bs : Bytes} (h : Valid bs.reverse = true) : bs.contains 0 = false := by
  cases hc : bs.contains 0
  · rfl
  · simp only [Valid, Bool.and_eq_true] at h
    have := PreOk_bytes h.1.1.1.1 0 (by simpa using hc)
    revert this; decide

theorem contains_iff_count (bs : Bytes) : decide (bs.reverse.count 47 + 1 ≥ 2) = bs.contains 47 := by
  rw [List.count_reverse]
  cases hc : bs.contains 47
  · have : 47 ∉ bs := by simpa using hc
    simp [List.count_eq_zero_of_not_mem this]
  · have : 47 ∈ bs := by simpa using hc
    have := List.count_pos_iff.2 this
    simp; omega

/-- git's rule in declarative form -/
theorem gitCheck_eq (one : Bool) (bs : Bytes) :
    gitCheckRefFormat one bs = (Valid bs.reverse && bs != [64] && (one || bs.contains 47)) := by
  have h := gitLoop_eq one bs [] (by rfl)
  simp only [comp, List.takeWhile_nil, slashes, List.count_nil, List.append_nil] at h
  rw [contains_iff_count] at h
  unfold gitCheckRefFormat
  rw [h]
  cases hv : Valid bs.reverse
  · simp
  · rw [Valid_no_nul hv]
    cases (bs != [64]) <;> cases (one || bs.contains 47) <;> rfl
end GixModel.C15
