import GixModel.Lemmas.C12Lc
/-
C12 (liveness) — the invariant along runs; the ghost `alive` really is "on disk during the whole lookup".
-/
namespace GixModel.C12.Live

theorem run_append (s : S) (a b : List Ev) : run s (a ++ b) = (run s a).bind fun s' => run s' b := by
  induction a generalizing s with
  | nil => rfl
  | cons e es ih =>
    simp only [List.cons_append, run]
    cases step s e with
    | none => rfl
    | some s' => exact ih s'

theorem run_inv {s s' : S} (inv : Inv s) (sched : List Ev) (hr : run s sched = some s') : Inv s' := by
  induction sched generalizing s with
  | nil => cases hr; exact inv
  | cons e es ih =>
    simp only [run] at hr
    cases hst : step s e with
    | none => rw [hst] at hr; cases hr
    | some s1 => rw [hst] at hr; exact ih (step_inv inv hst) hr

theorem reachable_inv {sched : List Ev} {s : S} (hr : run (S.init Cfg.fixed) sched = some s) : Inv s :=
  run_inv inv_init sched hr

/-- a file stays in `alive` of handle `h` as long as it is not removed and `h` does not start another lookup -/
theorem alive_kept {s s' : S} {ev : Ev} {h F : Nat} (hs : step s ev = some s')
    (h1 : ev ≠ Ev.envRemove F) (h2 : ∀ o, ev ≠ Ev.start h o) (hF : F ∈ (s.hs h).alive) : F ∈ (s'.hs h).alive := by
  cases ev <;> simp only [step] at hs <;> (repeat' split at hs) <;> (try cases hs) <;>
    (try (first
      | exact hF
      | (simp only [S.setH, S.setObj, setAt]; split <;> simp_all)))
  rename_i f _
  refine List.mem_filter.mpr ⟨hF, ?_⟩
  have : F ≠ f := fun e => h1 (by rw [e])
  simpa using this

theorem alive_run {s s' : S} {h F : Nat} (post : List Ev) (hr : run s post = some s')
    (hkeep : ∀ ev ∈ post, ev ≠ Ev.envRemove F ∧ ∀ o, ev ≠ Ev.start h o) (hF : F ∈ (s.hs h).alive) :
    F ∈ (s'.hs h).alive := by
  induction post generalizing s with
  | nil => cases hr; exact hF
  | cons e es ih =>
    simp only [run] at hr
    cases hst : step s e with
    | none => rw [hst] at hr; cases hr
    | some s1 =>
      rw [hst] at hr
      have hk := hkeep e List.mem_cons_self
      exact ih hr (fun ev hev => hkeep ev (List.mem_cons_of_mem _ hev)) (alive_kept hst hk.1 hk.2 hF)

/-- what `start` records -/
theorem alive_start {s s' : S} {h o F : Nat} (hs : step s (Ev.start h o) = some s') (hd : F ∈ s.disk)
    (hh : holds s F o = true) : F ∈ (s'.hs h).alive ∧ (s'.hs h).obj = o := by
  simp only [step] at hs
  split at hs
  · cases hs
    simp only [S.setH, setAt_same]
    exact ⟨List.mem_filter.mpr ⟨hd, hh⟩, trivial⟩
  · cases hs

/-! The two schedules in which the code as found gave up although the object was on disk all the time
(they are the forced interleavings S5 and S1 of harness/c12). Handle 1 looks for an absent object and thereby
publishes the first slot map index; handle 0 looks for object 7 of index file 0. -/

/-- S5: handle 1 loads the only index after handle 0 compared its marker and before handle 0 reads
`previous_state_id`: handle 0 sees nothing left to load, no state change, an unchanged directory. -/
def schedS5 : List Ev :=
  [Ev.envAdd [7], Ev.newHandle, Ev.newHandle,
   Ev.start 1 99, Ev.scan 1, Ev.loi 1, Ev.cons 1,
   Ev.start 0 7, Ev.scan 0, Ev.loi 0, Ev.collLoad 0, Ev.collMarker 0, Ev.collRead 0, Ev.scan 0, Ev.loi 0,
   Ev.collLoad 1, Ev.collMarker 1, Ev.collRead 1, Ev.scan 1, Ev.loi 1, Ev.lnStart 1, Ev.announce 1, Ev.claim 1, Ev.load 1,
   Ev.lnStart 0, Ev.announce 0, Ev.claim 0, Ev.wait 0, Ev.lnEnd 0, Ev.cons 0]

/-- S1: handle 1 has claimed the only index but has not announced its load yet: handle 0 finds nothing to
claim, nobody to wait for, no state change, an unchanged directory. -/
def schedS1 : List Ev :=
  [Ev.envAdd [7], Ev.newHandle, Ev.newHandle,
   Ev.start 1 99, Ev.scan 1, Ev.loi 1, Ev.cons 1,
   Ev.start 0 7, Ev.scan 0, Ev.loi 0, Ev.collLoad 0, Ev.collMarker 0, Ev.collRead 0, Ev.scan 0, Ev.loi 0,
   Ev.collLoad 1, Ev.collMarker 1, Ev.collRead 1, Ev.scan 1, Ev.loi 1, Ev.lnStart 1, Ev.announce 1, Ev.claim 1,
   Ev.lnStart 0, Ev.announce 0, Ev.claim 0, Ev.wait 0, Ev.lnEnd 0, Ev.cons 0, Ev.recheck 0]

/-- what is observable of handle 0 and the directory -/
def view0 (r : Option S) : Option (Pc × List Nat × List Nat) :=
  r.map fun s => ((s.hs 0).pc, (s.hs 0).alive, s.disk)

end GixModel.C12.Live
