import GixModel.Lemmas.C04a
import GixModel.Spec.C04
/-
C04 helper lemmas, part b: the abstraction function (what leaf the editor state holds at a path:
walk down through the cached trees, falling back to `find`), the invariant, and the refinement of
one `upsert_or_remove_at_pathbuf` call.
-/
namespace GixModel.C04
open GixModel GixModel.Tree
open GixModel.Spec.C04 (Leaf FS)

/-- the tree a directory entry with id `oid` at path `pb` stands for: the cached one if any, else
what `find` delivers (nothing to find for the empty tree) -/
def resolve (ed : Ed) (pb : Path) (oid : Bytes) : Option (List Entry) :=
  match aget pb ed.trees with
  | some t => some t
  | none => if noFind oid then some [] else aget oid ed.store

/-- the leaf an entry denotes: non-tree and not a null-id placeholder -/
def leafOf (e : Entry) : Option Leaf :=
  if e.isTree then none else if e.oid == nullId then none else some (e.mode, e.oid)

/-- the leaf found by walking path `q` down from tree `t` which lives at `pb` -/
def lookupIn (ed : Ed) : List Entry → Path → Path → Option Leaf
  | _, _, [] => none
  | t, _, [n] => (findName t n).bind leafOf
  | t, pb, n :: m :: rest =>
    match findName t n with
    | some e =>
      if e.isTree then
        match resolve ed (pb ++ [n]) e.oid with
        | some t' => lookupIn ed t' (pb ++ [n]) (m :: rest)
        | none => none
      else none
    | none => none

/-- the abstraction: the file system an editor state stands for -/
def abs (ed : Ed) : FS := fun q =>
  match aget [] ed.trees with
  | some root => lookupIn ed root [] q
  | none => none

/-- the same walk through the object store only (what a written tree id stands for) -/
def storeEd (store : Assoc Bytes (List Entry)) : Ed := { trees := [], store := store, pathBuf := [] }

def absStore (store : Assoc Bytes (List Entry)) (t : List Entry) : FS := lookupIn (storeEd store) t []

structure StoreOk (store : Assoc Bytes (List Entry)) : Prop where
  trees : ∀ id t, aget id store = some t → TreeOk t
  closed : ∀ id t, aget id store = some t → ∀ e ∈ t, e.isTree = true →
    e.oid = emptyTreeId ∨ (aget e.oid store).isSome = true
  /-- nothing is stored under the null id -/
  nonull : aget nullId store = none

structure Inv (ed : Ed) : Prop where
  root : (aget [] ed.trees).isSome = true
  trees : ∀ K t, aget K ed.trees = some t → TreeOk t
  linked : ∀ K n t, aget (K ++ [n]) ed.trees = some t →
    ∃ tp e, aget K ed.trees = some tp ∧ findName tp n = some e ∧ e.isTree = true
  closed : ∀ K t, aget K ed.trees = some t → ∀ e ∈ t, e.isTree = true →
    (resolve ed (K ++ [e.name]) e.oid).isSome = true
  store : StoreOk ed.store

/-! ### frame lemmas: which cache entries a lookup can see -/

theorem resolve_congr {ed ed' : Ed} (hs : ed'.store = ed.store) {pb : Path}
    (hc : aget pb ed'.trees = aget pb ed.trees) (oid : Bytes) :
    resolve ed' pb oid = resolve ed pb oid := by
  simp only [resolve, hc, hs]

/-- a lookup from a tree at `pb` only consults cache entries strictly below `pb` -/
theorem lookupIn_congr {ed ed' : Ed} (hs : ed'.store = ed.store) (q : Path) :
    ∀ (t : List Entry) (pb : Path),
      (∀ K, pb <+: K → K ≠ pb → aget K ed'.trees = aget K ed.trees) →
      lookupIn ed' t pb q = lookupIn ed t pb q := by
  induction q with
  | nil => intro t pb _; rfl
  | cons n rest ih =>
    intro t pb hc
    cases rest with
    | nil => rfl
    | cons m rest' =>
      simp only [lookupIn]
      cases hf : findName t n with
      | none => rfl
      | some e =>
        simp only
        by_cases hd : e.isTree = true
        · simp only [hd, if_true]
          have hk : aget (pb ++ [n]) ed'.trees = aget (pb ++ [n]) ed.trees :=
            hc _ (List.prefix_append _ _) (by simp)
          rw [resolve_congr hs hk]
          cases resolve ed (pb ++ [n]) e.oid with
          | none => rfl
          | some t' =>
            simp only
            apply ih
            intro K hK hne
            exact hc K ((List.prefix_append pb [n]).trans hK) (by
              intro h; subst h
              have := List.IsPrefix.length_le hK
              simp at this
              omega)
        · simp [hd]

/-- …and a lookup of `m :: qs` only consults cache entries at or below `pb ++ [m]` -/
theorem lookupIn_congr_name {ed ed' : Ed} (hs : ed'.store = ed.store) (t : List Entry) (pb : Path)
    (m : Bytes) (qs : Path) (hc : ∀ K, (pb ++ [m]) <+: K → aget K ed'.trees = aget K ed.trees) :
    lookupIn ed' t pb (m :: qs) = lookupIn ed t pb (m :: qs) := by
  cases qs with
  | nil => rfl
  | cons m2 rest =>
    simp only [lookupIn]
    cases hf : findName t m with
    | none => rfl
    | some e =>
      simp only
      by_cases hd : e.isTree = true
      · simp only [hd, if_true]
        rw [resolve_congr hs (hc _ (List.prefix_refl _))]
        cases resolve ed (pb ++ [m]) e.oid with
        | none => rfl
        | some t' =>
          simp only
          apply lookupIn_congr hs
          intro K hK _
          exact hc K hK
      · simp [hd]

/-- a lookup only depends on the map `findName t` -/
theorem lookupIn_tree_congr (ed : Ed) {t t' : List Entry} (pb : Path)
    (h : ∀ m, findName t' m = findName t m) (q : Path) : lookupIn ed t' pb q = lookupIn ed t pb q := by
  cases q with
  | nil => rfl
  | cons n rest =>
    cases rest with
    | nil => simp only [lookupIn, h]
    | cons m rest' => simp only [lookupIn, h]

theorem lookupIn_nil (ed : Ed) (pb q : Path) : lookupIn ed [] pb q = none := by
  cases q with
  | nil => rfl
  | cons n rest =>
    cases rest with
    | nil => simp [lookupIn, findName]
    | cons m rest' => simp [lookupIn, findName]

/-! ### small facts about paths -/

theorem append_singleton_inj {K K' : Path} {n n' : Bytes} (h : K ++ [n] = K' ++ [n']) :
    K = K' ∧ n = n' := by
  have := List.append_inj' h rfl
  exact ⟨this.1, by simpa using this.2⟩

theorem ne_append_singleton (K : Path) (n : Bytes) : K ≠ K ++ [n] := by
  intro h
  have := congrArg List.length h
  simp at this

theorem not_prefix_append_singleton (K : Path) (n : Bytes) : ¬ (K ++ [n]) <+: K := by
  intro h
  have := List.IsPrefix.length_le h
  simp at this
  omega

/-! ### `resolve` and the invariant under cache updates -/

theorem resolve_isSome_of_cached {ed : Ed} {pb : Path} {t : List Entry} (h : aget pb ed.trees = some t)
    (oid : Bytes) : (resolve ed pb oid).isSome = true := by
  simp [resolve, h]

/-- `resolve` stays defined when the cache only grows (same store) -/
theorem resolve_isSome_mono {ed ed' : Ed} (hs : ed'.store = ed.store) {pb : Path}
    (hc : (aget pb ed.trees).isSome = true → (aget pb ed'.trees).isSome = true) {oid : Bytes}
    (h : (resolve ed pb oid).isSome = true) : (resolve ed' pb oid).isSome = true := by
  unfold resolve at h ⊢
  cases h1 : aget pb ed.trees with
  | some t =>
    have := hc (by simp [h1])
    cases h2 : aget pb ed'.trees with
    | some t' => simp
    | none => simp [h2] at this
  | none =>
    simp only [h1] at h
    cases h2 : aget pb ed'.trees with
    | some t' => simp
    | none => simpa [hs] using h

/-- what a stored tree's directory entries need: they can be found -/
theorem storeOk_resolve {ed : Ed} (hs : StoreOk ed.store) {id : Bytes} {t : List Entry}
    (ht : aget id ed.store = some t) {e : Entry} (he : e ∈ t) (hd : e.isTree = true) (pb : Path) :
    (resolve ed pb e.oid).isSome = true := by
  unfold resolve
  cases aget pb ed.trees with
  | some _ => simp
  | none =>
    rcases hs.closed id t ht e he hd with h | h
    · have : noFind e.oid = true := by simp [noFind, h]
      simp [this]
    · by_cases h2 : noFind e.oid = true
      · simp [h2]
      · simpa [h2] using h

/-- the invariant only looks at the cache through `aget` -/
theorem inv_congr {ed ed' : Ed} (hc : ∀ K, aget K ed'.trees = aget K ed.trees)
    (hs : ed'.store = ed.store) (h : Inv ed) : Inv ed' := by
  have hres : ∀ pb oid, resolve ed' pb oid = resolve ed pb oid := fun pb oid =>
    resolve_congr hs (hc pb) oid
  refine ⟨by rw [hc]; exact h.root, ?_, ?_, ?_, by rw [hs]; exact h.store⟩
  · intro K t hK; rw [hc] at hK; exact h.trees K t hK
  · intro K n t hK
    rw [hc] at hK
    obtain ⟨tp, e, h1, h2, h3⟩ := h.linked K n t hK
    exact ⟨tp, e, by rw [hc]; exact h1, h2, h3⟩
  · intro K t hK e he hd
    rw [hc] at hK
    rw [hres]; exact h.closed K t hK e he hd

theorem aget_aset_same_noop {κ β : Type} [DecidableEq κ] {k : κ} {v : β} {l : Assoc κ β}
    (h : aget k l = some v) (k' : κ) : aget k' (aset k v l) = aget k' l := by
  by_cases hk : k' = k
  · subst hk; rw [aget_aset_self, h]
  · rw [aget_aset_ne _ _ hk]

/-- Replace the tree at `P` by `t'` (same map except possibly at `n`, where it now has a directory
entry) and cache `tn` at `P ++ [n]`: the invariant survives. -/
theorem inv_update {ed : Ed} (hinv : Inv ed) {P : Path} {t : List Entry}
    (hP : aget P ed.trees = some t) {n : Bytes} {t' tn : List Entry} (pb : Path)
    (ht' : TreeOk t') (htn : TreeOk tn) {e' : Entry} (hfind : findName t' n = some e')
    (htree : e'.isTree = true) (hother : ∀ m, m ≠ n → findName t' m = findName t m)
    (htn_closed : ∀ e ∈ tn, e.isTree = true →
      (resolve ed (P ++ [n] ++ [e.name]) e.oid).isSome = true)
    (hbelow : ∀ m tm, aget (P ++ [n] ++ [m]) ed.trees = some tm →
      ∃ e, findName tn m = some e ∧ e.isTree = true) :
    Inv { ed with pathBuf := pb, trees := aset (P ++ [n]) tn (aset P t' ed.trees) } := by
  have hne : P ≠ P ++ [n] := ne_append_singleton P n
  -- the new cache, pointwise
  have hget : ∀ K, aget K (aset (P ++ [n]) tn (aset P t' ed.trees)) =
      if K = P ++ [n] then some tn else if K = P then some t' else aget K ed.trees := by
    intro K
    by_cases h1 : K = P ++ [n]
    · subst h1; simp [aget_aset_self]
    · rw [aget_aset_ne _ _ h1]
      by_cases h2 : K = P
      · subst h2; simp [aget_aset_self, h1]
      · rw [aget_aset_ne _ _ h2]; simp [h1, h2]
  have hgrow : ∀ K, (aget K ed.trees).isSome = true →
      (aget K (aset (P ++ [n]) tn (aset P t' ed.trees))).isSome = true := by
    intro K h
    rw [hget]
    by_cases h1 : K = P ++ [n]
    · simp [h1]
    · by_cases h2 : K = P
      · simp [h2]
      · simpa [h1, h2] using h
  have hmono : ∀ pb' oid, (resolve ed pb' oid).isSome = true →
      (resolve { ed with pathBuf := pb, trees := aset (P ++ [n]) tn (aset P t' ed.trees) } pb' oid).isSome = true :=
    fun pb' oid h => resolve_isSome_mono (ed := ed)
      (ed' := { ed with pathBuf := pb, trees := aset (P ++ [n]) tn (aset P t' ed.trees) }) rfl (hgrow pb') h
  refine ⟨?_, ?_, ?_, ?_, hinv.store⟩
  · exact hgrow [] hinv.root
  · intro K tk hK
    simp only [hget] at hK
    by_cases h1 : K = P ++ [n]
    · simp only [h1, if_true, Option.some.injEq] at hK; subst hK; exact htn
    · by_cases h2 : K = P
      · subst h2
        simp only [hne, if_false, if_true, Option.some.injEq] at hK
        subst hK; exact ht'
      · simp only [h1, h2, if_false] at hK; exact hinv.trees K tk hK
  · intro K m tk hK
    simp only [hget] at hK
    have hgetP : aget P (aset (P ++ [n]) tn (aset P t' ed.trees)) = some t' := by
      rw [hget]; simp [hne]
    have hgetPn : aget (P ++ [n]) (aset (P ++ [n]) tn (aset P t' ed.trees)) = some tn := by
      rw [hget]; simp
    -- the parent `K` of the cached key `K ++ [m]`
    by_cases hKP : K = P
    · subst hKP
      by_cases hm : m = n
      · subst hm; exact ⟨t', e', hgetP, hfind, htree⟩
      · have hk1 : K ++ [m] ≠ K ++ [n] := fun h => hm (append_singleton_inj h).2
        have hk2 : K ++ [m] ≠ K := (ne_append_singleton K m).symm
        simp only [hk1, hk2, if_false] at hK
        obtain ⟨tp, e, h1, h2, h3⟩ := hinv.linked K m tk hK
        rw [hP] at h1
        simp only [Option.some.injEq] at h1
        subst h1
        exact ⟨t', e, hgetP, (hother m hm).trans h2, h3⟩
    · by_cases hKn : K = P ++ [n]
      · subst hKn
        have hk1 : P ++ [n] ++ [m] ≠ P ++ [n] := (ne_append_singleton _ m).symm
        have hk2 : P ++ [n] ++ [m] ≠ P := by
          intro h
          have := congrArg List.length h
          simp at this
        simp only [hk1, hk2, if_false] at hK
        obtain ⟨e, h1, h2⟩ := hbelow m tk hK
        exact ⟨tn, e, hgetPn, h1, h2⟩
      · have hk1 : K ++ [m] ≠ P ++ [n] := fun h => hKP (append_singleton_inj h).1
        have hgetK : aget K (aset (P ++ [n]) tn (aset P t' ed.trees)) = aget K ed.trees := by
          rw [hget]; simp [hKn, hKP]
        simp only [hk1, if_false] at hK
        by_cases hk2 : K ++ [m] = P
        · -- the cached tree at `P` itself: its parent is unchanged
          obtain ⟨tp, e, h1, h2, h3⟩ := hinv.linked K m t (hk2 ▸ hP)
          exact ⟨tp, e, hgetK.trans h1, h2, h3⟩
        · simp only [hk2, if_false] at hK
          obtain ⟨tp, e, h1, h2, h3⟩ := hinv.linked K m tk hK
          exact ⟨tp, e, hgetK.trans h1, h2, h3⟩
  · intro K tk hK e he hd
    simp only [hget] at hK
    by_cases h1 : K = P ++ [n]
    · simp only [h1, if_true, Option.some.injEq] at hK
      subst hK; subst h1
      exact hmono _ _ (htn_closed e he hd)
    · by_cases h2 : K = P
      · subst h2
        simp only [hne, if_false, if_true, Option.some.injEq] at hK
        subst hK
        by_cases hm : e.name = n
        · -- the directory entry `n` itself: its tree is cached now
          apply resolve_isSome_of_cached (t := tn)
          simp only [hm]
          exact aget_aset_self _ _ _
        · have hfe : findName t' e.name = some e := (findName_eq_some_iff ht'.uniq).2 ⟨he, rfl⟩
          rw [hother _ hm] at hfe
          have hmem := ((findName_eq_some_iff (hinv.trees _ _ hP).uniq).1 hfe).1
          exact hmono _ _ (hinv.closed K t hP e hmem hd)
      · simp only [h1, h2, if_false] at hK
        exact hmono _ _ (hinv.closed K tk hK e he hd)

/-! ### one step down that makes sure a directory exists -/

/-- outcome of one loop iteration that (creates and) enters the directory `n` of the tree at `P` -/
def MkdirOut (ed : Ed) (P : Path) (t : List Entry) (n : Bytes) (isLast : Bool) (k : KI) : Prop :=
  ∃ edS lookup ed1 t' tn,
    stepAt ed n isLast (some k) = .down edS lookup ∧ descend edS n lookup = .ok ed1 ∧
    ed1.pathBuf = P ++ [n] ∧ Inv ed1 ∧ ed1.store = ed.store ∧
    aget P ed1.trees = some t' ∧ aget (P ++ [n]) ed1.trees = some tn ∧
    (∃ e', findName t' n = some e' ∧ e'.isTree = true) ∧
    (∀ m, m ≠ n → findName t' m = findName t m) ∧
    (∀ K, K ≠ P → K ≠ P ++ [n] → aget K ed1.trees = aget K ed.trees) ∧
    (∀ qs, qs ≠ [] → lookupIn ed1 tn (P ++ [n]) qs = lookupIn ed t P (n :: qs))

/-- when the last component is reached in "make a directory" mode -/
def MkdirMode (isLast : Bool) (k : KI) : Prop :=
  isLast = true → k.um = .assureTreeOnly ∧ k.mode = 0o040000 ∧ k.id = nullId

theorem lookupIn_cons_dir {ed : Ed} {t : List Entry} {P : Path} {n : Bytes} {e : Entry}
    (hf : findName t n = some e) (hd : e.isTree = true) {tn : List Entry}
    (hr : resolve ed (P ++ [n]) e.oid = some tn) {qs : Path} (hq : qs ≠ []) :
    lookupIn ed t P (n :: qs) = lookupIn ed tn (P ++ [n]) qs := by
  cases qs with
  | nil => exact absurd rfl hq
  | cons m rest => simp only [lookupIn, hf, hd, if_true, hr]

theorem lookupIn_cons_nodir {ed : Ed} {t : List Entry} {P : Path} {n : Bytes}
    (hf : ∀ e, findName t n = some e → e.isTree = false) {qs : Path} (hq : qs ≠ []) :
    lookupIn ed t P (n :: qs) = none := by
  cases qs with
  | nil => exact absurd rfl hq
  | cons m rest =>
    simp only [lookupIn]
    cases h : findName t n with
    | none => rfl
    | some e => simp [hf e h]

/-- entering an existing directory entry: `trees.entry(path).or_insert(find_tree(..))` -/
theorem descend_dir {ed : Ed} (hinv : Inv ed) {P : Path} (hpb : ed.pathBuf = P) {t : List Entry}
    (hP : aget P ed.trees = some t) {n : Bytes} {e : Entry} (hf : findName t n = some e)
    (hd : e.isTree = true) :
    ∃ ed1 tn, descend ed n (some e.oid) = .ok ed1 ∧ ed1.pathBuf = P ++ [n] ∧ Inv ed1 ∧
      ed1.store = ed.store ∧ aget P ed1.trees = some t ∧ aget (P ++ [n]) ed1.trees = some tn ∧
      (∀ K, K ≠ P → K ≠ P ++ [n] → aget K ed1.trees = aget K ed.trees) ∧
      (∀ qs, qs ≠ [] → lookupIn ed1 tn (P ++ [n]) qs = lookupIn ed t P (n :: qs)) := by
  have ht := hinv.trees P t hP
  have hmemE : e ∈ t := ((findName_eq_some_iff ht.uniq).1 hf).1
  have hen : e.name = n := ((findName_eq_some_iff ht.uniq).1 hf).2
  have hclosed := hinv.closed P t hP e hmemE hd
  rw [hen] at hclosed
  cases hc : aget (P ++ [n]) ed.trees with
  | some tn =>
    -- already cached: nothing changes but `path_buf`
    have hres : resolve ed (P ++ [n]) e.oid = some tn := by simp [resolve, hc]
    refine ⟨{ ed with pathBuf := P ++ [n] }, tn, ?_, rfl,
      inv_congr (ed := ed) (ed' := { ed with pathBuf := P ++ [n] }) (fun _ => rfl) rfl hinv, rfl, hP, hc,
      fun _ _ _ => rfl, ?_⟩
    · simp [descend, hpb, hc]
    · intro qs hq
      rw [lookupIn_cons_dir hf hd hres hq]
      exact lookupIn_congr (ed := ed) (ed' := { ed with pathBuf := P ++ [n] }) rfl qs tn _ (fun _ _ _ => rfl)
  | none =>
    -- load it: `find_tree`, or the empty tree
    have hres : ∃ tn, resolve ed (P ++ [n]) e.oid = some tn ∧
        descend ed n (some e.oid) = .ok { ed with pathBuf := P ++ [n], trees := aset (P ++ [n]) tn ed.trees } ∧
        TreeOk tn ∧ (∀ x ∈ tn, x.isTree = true → (resolve ed (P ++ [n] ++ [x.name]) x.oid).isSome = true) := by
      simp only [resolve, hc] at hclosed
      by_cases hempty : noFind e.oid = true
      · exact ⟨[], by simp [resolve, hc, hempty], by simp [descend, hpb, hc, hempty], treeOk_nil,
          by simp⟩
      · simp only [hempty, Bool.false_eq_true, if_false] at hclosed
        cases hst : aget e.oid ed.store with
        | none => simp [hst] at hclosed
        | some ts =>
          refine ⟨ts, by simp [resolve, hc, hempty, hst], by simp [descend, hpb, hc, hempty, hst],
            hinv.store.trees _ _ hst, ?_⟩
          intro x hx hxd
          exact storeOk_resolve hinv.store hst hx hxd _
    obtain ⟨tn, hr, hdesc, htn, htnc⟩ := hres
    have hnobelow : ∀ m tm, aget (P ++ [n] ++ [m]) ed.trees = some tm →
        ∃ x, findName tn m = some x ∧ x.isTree = true := by
      intro m tm h
      obtain ⟨tp, _, h1, _, _⟩ := hinv.linked (P ++ [n]) m tm h
      rw [hc] at h1; cases h1
    have hinv1 := inv_update hinv hP (P ++ [n]) ht htn hf hd (fun _ _ => rfl) htnc hnobelow
    have hsame : ∀ K, aget K (aset (P ++ [n]) tn ed.trees) =
        aget K (aset (P ++ [n]) tn (aset P t ed.trees)) := by
      intro K
      by_cases h1 : K = P ++ [n]
      · subst h1; rw [aget_aset_self, aget_aset_self]
      · rw [aget_aset_ne _ _ h1, aget_aset_ne _ _ h1, aget_aset_same_noop hP]
    have hinv1' : Inv { ed with pathBuf := P ++ [n], trees := aset (P ++ [n]) tn ed.trees } :=
      inv_congr (ed := { ed with pathBuf := P ++ [n], trees := aset (P ++ [n]) tn (aset P t ed.trees) })
        (ed' := { ed with pathBuf := P ++ [n], trees := aset (P ++ [n]) tn ed.trees }) hsame rfl hinv1
    refine ⟨_, tn, hdesc, rfl, hinv1', rfl, ?_, aget_aset_self _ _ _, ?_, ?_⟩
    · show aget P (aset (P ++ [n]) tn ed.trees) = some t
      rw [aget_aset_ne _ _ (ne_append_singleton P n)]; exact hP
    · intro K _ h2
      show aget K (aset (P ++ [n]) tn ed.trees) = aget K ed.trees
      exact aget_aset_ne _ _ h2
    · intro qs hq
      rw [lookupIn_cons_dir hf hd hr hq]
      apply lookupIn_congr (ed := ed)
        (ed' := { ed with pathBuf := P ++ [n], trees := aset (P ++ [n]) tn ed.trees }) rfl
      intro K _ hne
      show aget K (aset (P ++ [n]) tn ed.trees) = aget K ed.trees
      exact aget_aset_ne _ _ hne

theorem mkdir_step_dir {ed : Ed} (hinv : Inv ed) {P : Path} (hpb : ed.pathBuf = P) {t : List Entry}
    (hP : aget P ed.trees = some t) {n : Bytes} (hn : ValidName n) {isLast : Bool} {k : KI}
    (hk : MkdirMode isLast k) {e : Entry} (hf : findName t n = some e) (hd : e.isTree = true) :
    MkdirOut ed P t n isLast k := by
  have ht := hinv.trees P t hP
  obtain ⟨i, hs, hi, hti⟩ := searchName_found ht hn hf (!isLast || (k.mode == 0o040000))
  have hstep : stepAt ed n isLast (some k) = .down ed (some e.oid) := by
    simp only [stepAt, hpb, hP, hs, List.getElem?_eq_getElem hi, hti, hd]
    cases isLast with
    | false => simp
    | true => simp [(hk rfl).1]
  obtain ⟨ed1, tn, hdesc, h1, h2, h3, h4, h5, h6, h7⟩ := descend_dir hinv hpb hP hf hd
  exact ⟨ed, some e.oid, ed1, t, tn, hstep, hdesc, h1, h2, h3, h4, h5, ⟨e, hf, hd⟩,
    fun _ _ => rfl, h6, h7⟩

theorem isTree_040000 : isTreeMode 0o040000 = true := by decide

theorem null_ne_empty : nullId ≠ emptyTreeId := by decide

theorem good_placeholder (n : Bytes) : GoodEntry ⟨0o040000, n, nullId⟩ := fun _ => ⟨null_ne_empty, rfl⟩

/-- common end of the two cases that create a null-id placeholder directory `n` in the tree at `P` -/
theorem mkdir_finish {ed : Ed} (hinv : Inv ed) {P : Path} (hpb : ed.pathBuf = P) {t : List Entry}
    (hP : aget P ed.trees = some t) {n : Bytes} {t' : List Entry} (ht' : TreeOk t') {e' : Entry}
    (hfind : findName t' n = some e') (htree : e'.isTree = true)
    (hother : ∀ m, m ≠ n → findName t' m = findName t m)
    (hnodir : ∀ e, findName t n = some e → e.isTree = false) {isLast : Bool} {k : KI}
    (hstep : stepAt ed n isLast (some k) = .down { ed with trees := aset P t' ed.trees } none) :
    MkdirOut ed P t n isLast k := by
  have hc : aget (P ++ [n]) ed.trees = none := by
    cases h : aget (P ++ [n]) ed.trees with
    | none => rfl
    | some tn =>
      obtain ⟨tp, e, h1, h2, h3⟩ := hinv.linked P n tn h
      rw [hP] at h1
      simp only [Option.some.injEq] at h1
      subst h1
      rw [hnodir e h2] at h3; cases h3
  have hc' : aget (P ++ [n]) (aset P t' ed.trees) = none := by
    rw [aget_aset_ne _ _ (ne_append_singleton P n).symm]; exact hc
  have hdesc : descend { ed with trees := aset P t' ed.trees } n none =
      .ok { ed with pathBuf := P ++ [n], trees := aset (P ++ [n]) [] (aset P t' ed.trees) } := by
    simp [descend, hpb, hc']
  have hinv1 := inv_update hinv hP (P ++ [n]) ht' treeOk_nil hfind htree hother (by simp)
    (by
      intro m tm h
      obtain ⟨tp, _, h1, _, _⟩ := hinv.linked (P ++ [n]) m tm h
      rw [hc] at h1; cases h1)
  refine ⟨_, none, _, t', [], hstep, hdesc, rfl, hinv1, rfl, ?_, aget_aset_self _ _ _,
    ⟨e', hfind, htree⟩, hother, ?_, ?_⟩
  · show aget P (aset (P ++ [n]) [] (aset P t' ed.trees)) = some t'
    rw [aget_aset_ne _ _ (ne_append_singleton P n), aget_aset_self]
  · intro K h1 h2
    show aget K (aset (P ++ [n]) [] (aset P t' ed.trees)) = aget K ed.trees
    rw [aget_aset_ne _ _ h2, aget_aset_ne _ _ h1]
  · intro qs hq
    rw [lookupIn_nil, lookupIn_cons_nodir hnodir hq]

theorem mkdir_step_file {ed : Ed} (hinv : Inv ed) {P : Path} (hpb : ed.pathBuf = P) {t : List Entry}
    (hP : aget P ed.trees = some t) {n : Bytes} (hn : ValidName n) {isLast : Bool} {k : KI}
    (hk : MkdirMode isLast k) {e : Entry} (hf : findName t n = some e) (hd : e.isTree = false) :
    MkdirOut ed P t n isLast k := by
  have ht := hinv.trees P t hP
  obtain ⟨i, hs, hi, hti⟩ := searchName_found ht hn hf (!isLast || (k.mode == 0o040000))
  have hen : e.name = n := ((findName_eq_some_iff ht.uniq).1 hf).2
  let e2 : Entry := { e with oid := nullId, mode := 0o040000 }
  have he2n : e2.name = t[i].name := by rw [hti]
  have ht' := treeOk_set_sort ht hi e2 he2n (good_placeholder _)
  have hmem : ∀ x, x ∈ sortEntries (t.set i e2) ↔ x ∈ t.set i e2 :=
    fun x => (sortEntries_perm _).mem_iff
  have hfn := findName_set ht hi e2 he2n ht' hmem
  rw [hti, hen] at hfn
  have hstep : stepAt ed n isLast (some k) =
      .down { ed with trees := aset P (sortEntries (t.set i e2)) ed.trees } none := by
    simp only [stepAt, hpb, hP, hs, List.getElem?_eq_getElem hi, hti, hd, setAt]
    cases isLast with
    | false => simp [e2]
    | true =>
      obtain ⟨h1, h2, h3⟩ := hk rfl
      simp [h1, h2, h3, e2]
  refine mkdir_finish hinv hpb hP ht' (e' := e2) ?_ isTree_040000 ?_ ?_ hstep
  · rw [hfn]; simp
  · intro m hm; rw [hfn]; simp [hm]
  · intro x hx; rw [hf] at hx; cases hx; exact hd

theorem mkdir_step_absent {ed : Ed} (hinv : Inv ed) {P : Path} (hpb : ed.pathBuf = P) {t : List Entry}
    (hP : aget P ed.trees = some t) {n : Bytes} (hn : ValidName n) {isLast : Bool} {k : KI}
    (hk : MkdirMode isLast k) (hf : findName t n = none) :
    MkdirOut ed P t n isLast k := by
  have ht := hinv.trees P t hP
  have hmb : (!isLast || (k.mode == 0o040000)) = true := by
    cases isLast with
    | false => rfl
    | true => simp [(hk rfl).2.1]
  obtain ⟨i, hs, hp⟩ := searchName_absent ht hn hf (!isLast || (k.mode == 0o040000))
  rw [hmb] at hp
  let e3 : Entry := { name := n, mode := 0o040000, oid := nullId }
  have ht' := treeOk_insertAt ht hn hf hp e3 rfl isTree_040000 (good_placeholder _)
  have hfn := findName_insertAt ht hn hf hp e3 rfl isTree_040000 (good_placeholder _)
  have hstep : stepAt ed n isLast (some k) =
      .down { ed with trees := aset P (insertAt t i e3) ed.trees } none := by
    simp only [stepAt, hpb, hP, hs]
    cases isLast with
    | false => simp [e3]
    | true =>
      obtain ⟨h1, h2, h3⟩ := hk rfl
      simp [h1, h2, h3, e3]
  refine mkdir_finish hinv hpb hP ht' (e' := e3) ?_ isTree_040000 ?_ ?_ hstep
  · rw [hfn]; simp
  · intro m hm; rw [hfn]; simp [hm]
  · intro x hx; rw [hf] at hx; cases hx

/-- one loop iteration in "make sure the directory exists and enter it" mode, all cases -/
theorem mkdir_step {ed : Ed} (hinv : Inv ed) {P : Path} (hpb : ed.pathBuf = P) {t : List Entry}
    (hP : aget P ed.trees = some t) {n : Bytes} (hn : ValidName n) {isLast : Bool} {k : KI}
    (hk : MkdirMode isLast k) : MkdirOut ed P t n isLast k := by
  cases hf : findName t n with
  | none => exact mkdir_step_absent hinv hpb hP hn hk hf
  | some e =>
    cases hd : e.isTree with
    | true => exact mkdir_step_dir hinv hpb hP hn hk hf hd
    | false => exact mkdir_step_file hinv hpb hP hn hk hf hd

/-! ### combining one step down with what happens below -/

theorem lookupIn_tree_congr_name (ed : Ed) {t t' : List Entry} (pb : Path) {m : Bytes}
    (h : findName t' m = findName t m) (qs : Path) :
    lookupIn ed t' pb (m :: qs) = lookupIn ed t pb (m :: qs) := by
  cases qs with
  | nil => simp only [lookupIn, h]
  | cons m2 rest => simp only [lookupIn, h]

/-- After entering directory `n` (state `ed1`) and editing below it (state `ed2`), lookups through
the tree at `P`: other names are untouched, `n` is a directory, below `n` see `ed2`. -/
theorem lookup_down {ed ed1 ed2 : Ed} {P : Path} {t t' tn2 : List Entry} {n : Bytes}
    (hs1 : ed1.store = ed.store) (hs2 : ed2.store = ed1.store)
    (hdir : ∃ e', findName t' n = some e' ∧ e'.isTree = true)
    (hother : ∀ m, m ≠ n → findName t' m = findName t m)
    (hframe1 : ∀ K, K ≠ P → K ≠ P ++ [n] → aget K ed1.trees = aget K ed.trees)
    (hframe2 : ∀ K, ¬ (P ++ [n]) <+: K → aget K ed2.trees = aget K ed1.trees)
    (hcached2 : aget (P ++ [n]) ed2.trees = some tn2) :
    (lookupIn ed2 t' P [] = none) ∧ (lookupIn ed2 t' P [n] = none) ∧
    (∀ qs, qs ≠ [] → lookupIn ed2 t' P (n :: qs) = lookupIn ed2 tn2 (P ++ [n]) qs) ∧
    (∀ m qs, m ≠ n → lookupIn ed2 t' P (m :: qs) = lookupIn ed t P (m :: qs)) := by
  obtain ⟨e', hfe, hde⟩ := hdir
  refine ⟨rfl, ?_, ?_, ?_⟩
  · simp [lookupIn, hfe, leafOf, hde]
  · intro qs hq
    exact lookupIn_cons_dir hfe hde (by simp [resolve, hcached2]) hq
  · intro m qs hm
    rw [lookupIn_tree_congr_name ed2 P (hother m hm) qs]
    apply lookupIn_congr_name (hs2.trans hs1)
    intro K hK
    have hnot : ¬ (P ++ [n]) <+: K := by
      intro h2
      -- `K` would extend both `P ++ [m]` and `P ++ [n]`
      obtain ⟨r1, hr1⟩ := hK
      obtain ⟨r2, hr2⟩ := h2
      have : P ++ ([m] ++ r1) = P ++ ([n] ++ r2) := by
        rw [← List.append_assoc, ← List.append_assoc, hr1, hr2]
      have := List.append_cancel_left this
      simp at this
      exact hm this.1
    rw [hframe2 K hnot]
    apply hframe1
    · intro h; subst h; exact not_prefix_append_singleton _ _ hK
    · intro h; subst h
      obtain ⟨r1, hr1⟩ := hK
      have : P ++ ([m] ++ r1) = P ++ [n] := by rw [← List.append_assoc]; exact hr1
      have := List.append_cancel_left this
      simp at this
      exact hm this.1

end GixModel.C04
