import GixModel.Lemmas.C40
/-
C40 — lemmas, part 2: HFS. One call of git's `next_hfs_char` against the character sequence
`is_dot_hfs` iterates over; `is_hfs_dot_generic` refusing (not because of a malformed sequence where
the name should end) implies `is_dot_hfs`.
-/
namespace GixModel.C40
open GixModel

theorem charsFuel_indep : ∀ (f g : Nat) (l : Bytes), l.length ≤ f → l.length ≤ g → charsFuel f l = charsFuel g l := by
  intro f
  induction f with
  | zero =>
    intro g l h _
    have : l = [] := List.eq_nil_of_length_eq_zero (by omega)
    subst this
    cases g <;> rfl
  | succ f ih =>
    intro g l h hg
    cases l with
    | nil => cases g <;> rfl
    | cons b t =>
      cases g with
      | zero => simp at hg
      | succ g =>
        simp only [charsFuel]
        simp only [List.length_cons] at h hg
        have hd : (t.drop ((decode1 b t).2 - 1)).length ≤ t.length := by simp
        rw [ih g _ (by omega) (by omega)]

theorem charsFuel_enough (f : Nat) (l : Bytes) (h : l.length ≤ f) : charsFuel f l = charsFuel l.length l :=
  charsFuel_indep f l.length l h (Nat.le_refl _)

theorem chars_nil : chars [] = [] := rfl

theorem chars_cons (b : UInt8) (t : Bytes) :
    chars (b :: t) = (decode1 b t).1.getD 0xfffd :: chars (t.drop ((decode1 b t).2 - 1)) := by
  unfold chars
  simp only [charsFuel, List.length_cons]
  rw [charsFuel_enough t.length _ (by simp)]

/-- the extracted ignorable code points are git's -/
def ignorableOk (t : Tables) : Bool :=
  t.ignorable.all Spec.C40.hfsIgnorable.contains && Spec.C40.hfsIgnorable.all t.ignorable.contains

theorem ignorable_eq {t : Tables} (h : ignorableOk t = true) (c : Nat) :
    t.ignorable.contains c = Spec.C40.hfsIgnorable.contains c := by
  simp only [ignorableOk, Bool.and_eq_true, List.all_eq_true] at h
  cases h1 : t.ignorable.contains c <;> cases h2 : Spec.C40.hfsIgnorable.contains c
  · rfl
  · have := h.2 c (by simpa using h2); rw [h1] at this; cases this
  · have := h.1 c (by simpa using h1); rw [h2] at this; cases this
  · rfl

/-- what `is_dot_hfs` iterates over -/
def filt (t : Tables) (p : Bytes) : List Nat := (chars p).filter (fun c => !t.ignorable.contains c)

theorem filt_nil (t : Tables) : filt t [] = [] := rfl

theorem drop_no_nul {l : Bytes} (n : Nat) (h : l.contains 0 = false) : (l.drop n).contains 0 = false := by
  cases hc : (l.drop n).contains 0
  · rfl
  · have : (0 : UInt8) ∈ l := List.mem_of_mem_drop (by simpa using hc)
    have : l.contains 0 = true := by simpa using this
    rw [h] at this; cases this

/-- one call of git's `next_hfs_char` against gitoxide's filtered character sequence -/
theorem nextHfs_spec {t : Tables} (ht : ignorableOk t = true) :
    ∀ (f : Nat) (p : Bytes), p.length < f → p.contains 0 = false →
      ∀ c p' , Spec.C40.nextHfs f p = (c, p', false) →
        (c = 0 → filt t p = []) ∧
        (c ≠ 0 → filt t p = c :: filt t p' ∧ p'.length < p.length ∧ p'.contains 0 = false
                  ∧ Spec.C40.hfsIgnorable.contains c = false ∧ (c < 128 → ∃ b ∈ p, b.toNat = c) ∧ p' <:+ p) := by
  intro f
  induction f with
  | zero => intro p h; omega
  | succ f ih =>
    intro p hlen h0 c p' hn
    unfold Spec.C40.nextHfs at hn
    cases p with
    | nil =>
      simp [Spec.C40.pickOne] at hn
      exact ⟨fun _ => rfl, fun hc => absurd hn.1.symm hc⟩
    | cons b tl =>
      cases hpk : Spec.C40.pickOne (b :: tl) with
      | none => simp [hpk] at hn
      | some r =>
        obtain ⟨ch, rest⟩ := r
        simp only [hpk, List.isEmpty_cons, Bool.false_eq_true, if_false] at hn
        obtain ⟨k, hd, hk, hrest⟩ := pickOne_decode b tl ch rest hpk
        have hch : filt t (b :: tl) = (if t.ignorable.contains ch then filt t rest else ch :: filt t rest) := by
          unfold filt
          rw [chars_cons, hd]
          simp only [Option.getD_some, hrest, List.filter_cons]
          cases t.ignorable.contains ch <;> simp
        have hrlen : rest.length < (b :: tl).length := by rw [← hrest]; simp; omega
        have hr0 : rest.contains 0 = false := by
          rw [← hrest]; apply drop_no_nul
          simp only [List.contains_cons, Bool.or_eq_false_iff] at h0; exact h0.2
        by_cases hig : Spec.C40.hfsIgnorable.contains ch = true
        · simp only [hig, if_true] at hn
          have hig' : t.ignorable.contains ch = true := by rw [ignorable_eq ht]; exact hig
          rw [hch, hig']
          simp only [if_true]
          have := ih rest (by simp at hlen hrlen; omega) hr0 c p' hn
          refine ⟨this.1, fun hc => ?_⟩
          obtain ⟨a1, a2, a3, a4, a5, a6⟩ := this.2 hc
          have hsuf : rest <:+ b :: tl := by
            rw [← hrest]; exact (List.drop_suffix _ _).trans (List.suffix_cons _ _)
          refine ⟨a1, by omega, a3, a4, fun hlt => ?_, a6.trans hsuf⟩
          obtain ⟨x, hx, hxe⟩ := a5 hlt
          exact ⟨x, hsuf.subset hx, hxe⟩
        · have hig0 := bfalse hig
          simp only [hig0, Bool.false_eq_true, if_false, Prod.mk.injEq, and_true] at hn
          obtain ⟨e1, e2⟩ := hn
          subst e1; subst e2
          have hig' : t.ignorable.contains ch = false := by rw [ignorable_eq ht]; exact hig0
          rw [hch, hig']
          simp only [Bool.false_eq_true, if_false]
          refine ⟨fun hc => ?_, fun _ => ⟨by trivial, hrlen, hr0, hig0, fun hlt => ?_, ?_⟩⟩
          rotate_left
          · exact ⟨b, List.mem_cons_self .., (decode1_small b tl ch k hd hlt).1.symm⟩
          · rw [← hrest]; exact (List.drop_suffix _ _).trans (List.suffix_cons _ _)
          -- the scalar value 0 only comes from a NUL byte
          subst hc
          have := decode1_zero b tl k hd
          subst this
          simp at h0

/-- needles are lower-case ASCII letters -/
def needleOk (needle : Bytes) : Bool := needle.all fun n => 97 ≤ n && n ≤ 122

theorem lower_needle (n : UInt8) : (97 ≤ n && n ≤ 122) = true → toLower n = n ∧ n.toNat ≠ 0 := by
  revert n; apply forall_byte; decide +kernel

theorem nextHfs_flag (f : Nat) (p : Bytes) (c : Nat) (p' : Bytes) (h : Spec.C40.nextHfs f p = (c, p', true)) : c = 0 := by
  induction f generalizing p with
  | zero => simp [Spec.C40.nextHfs] at h; exact h.1.symm
  | succ f ih =>
    unfold Spec.C40.nextHfs at h
    split at h
    · simp at h; exact h.1.symm
    · split at h
      · simp at h
      · split at h
        · exact ih _ h
        · simp at h

theorem hfsNeedle_imp {t : Tables} (ht : ignorableOk t = true) (needle : Bytes) (hn : needleOk needle = true) :
    ∀ p : Bytes, p.contains 0 = false → Spec.C40.hfsNeedle needle p = true →
      Spec.C40.hfsNeedleEndsMalformed needle p = false →
      hfsCompare needle (filt t p) = true ∨ p.contains 47 = true := by
  induction needle with
  | nil =>
    intro p h0 hm hf
    simp only [Spec.C40.hfsNeedle, Spec.C40.hfsNeedleEndsMalformed] at hm hf
    rcases hx : Spec.C40.nextHfs (p.length + 1) p with ⟨c, p', fl⟩
    rw [hx] at hm hf
    simp only at hm hf
    subst hf
    have sp := nextHfs_spec ht (p.length + 1) p (by omega) h0 c p' hx
    by_cases hc : c = 0
    · left; rw [sp.1 hc]; rfl
    · right
      have hc47 : c = 47 := by
        simp only [Bool.or_eq_true, beq_iff_eq] at hm
        rcases hm with h | h
        · exact absurd h hc
        · exact h
      obtain ⟨_, _, _, _, hmem, _⟩ := sp.2 hc
      obtain ⟨b, hb, hbe⟩ := hmem (by omega)
      have : b = 47 := UInt8.toNat_inj.1 (by rw [hbe, hc47]; rfl)
      subst this
      simpa using hb
  | cons n ns ih =>
    intro p h0 hm hf
    simp only [needleOk, List.all_cons, Bool.and_eq_true] at hn
    obtain ⟨hn1, hn2⟩ := hn
    obtain ⟨hlow, hnz⟩ := lower_needle n (by simp only [Bool.and_eq_true]; exact hn1)
    simp only [Spec.C40.hfsNeedle, Spec.C40.hfsNeedleEndsMalformed] at hm hf
    rcases hx : Spec.C40.nextHfs (p.length + 1) p with ⟨c, p', fl⟩
    rw [hx] at hm hf
    simp only at hm hf
    by_cases h127 : c > 127
    · simp [h127] at hm
    simp only [h127, if_false] at hm hf
    by_cases hlc : (Spec.C40.toLowerCp c != n.toNat) = true
    · simp [hlc] at hm
    have hlc' := bfalse hlc
    simp only [hlc', Bool.false_eq_true, if_false] at hm hf
    have hceq : Spec.C40.toLowerCp c = n.toNat := by simpa using hlc'
    cases fl with
    | true =>
      have := nextHfs_flag _ _ _ _ hx
      subst this
      simp [Spec.C40.toLowerCp] at hceq
      exact absurd hceq.symm hnz
    | false =>
      have sp := nextHfs_spec ht (p.length + 1) p (by omega) h0 c p' hx
      have hc : c ≠ 0 := by
        intro e; subst e
        simp [Spec.C40.toLowerCp] at hceq
        exact absurd hceq.symm hnz
      obtain ⟨hfilt, hlen, h0', _, _, hsuf⟩ := sp.2 hc
      rcases ih (by simpa [needleOk] using hn2) p' h0' hm hf with h | h
      · left
        rw [hfilt]
        simp only [hfsCompare, Bool.and_eq_true]
        refine ⟨?_, h⟩
        simp only [charEqIC, hlow, beq_iff_eq]
        rw [← hceq]; rfl
      · right
        have : (47 : UInt8) ∈ p := hsuf.subset (by simpa using h)
        simpa using this

/-- git's HFS test refusing (for a reason other than a malformed sequence where the name should
end) implies gitoxide's HFS test, for a '/'-free name -/
theorem hfs_imp {t : Tables} (ht : ignorableOk t = true) (needle : Bytes) (hn : needleOk needle = true)
    (c : Bytes) (h0 : c.contains 0 = false) (hm : Spec.C40.hfsDotGeneric c needle = true)
    (hf : Spec.C40.hfsEndsMalformed c needle = false) :
    isDotHfs t c needle = true ∨ c.contains 47 = true := by
  simp only [Spec.C40.hfsDotGeneric, Spec.C40.hfsEndsMalformed] at hm hf
  rcases hx : Spec.C40.nextHfs (c.length + 1) c with ⟨ch, p, fl⟩
  rw [hx] at hm hf
  simp only at hm hf
  by_cases h46 : (ch != 46) = true
  · simp [h46] at hm
  have h46' := bfalse h46
  simp only [h46', Bool.false_eq_true, if_false] at hm hf
  have hch : ch = 46 := by simpa using h46'
  subst hch
  cases fl with
  | true => have := nextHfs_flag _ _ _ _ hx; cases this
  | false =>
    have sp := nextHfs_spec ht (c.length + 1) c (by omega) h0 46 p hx
    obtain ⟨hfilt, _, h0', _, _, hsuf⟩ := sp.2 (by decide)
    rcases hfsNeedle_imp ht needle hn p h0' hm hf with h | h
    · left
      unfold isDotHfs
      have : (chars c).filter (fun c => !t.ignorable.contains c) = 46 :: filt t p := hfilt
      rw [this]
      exact h
    · right
      have : (47 : UInt8) ∈ c := hsuf.subset (by simpa using h)
      simpa using this
end GixModel.C40
