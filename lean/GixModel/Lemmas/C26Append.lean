import GixModel.Lemmas.C26
/-
C26 — print-then-parse, first instalment: what the parser does when a newline (`\n` or `\r\n`) is
appended to a text it accepts. Every sub-parser is stable under the appended newline as long as it
did not stop at the very end of the text on a newline or a comment.
-/
namespace GixModel.C26
open GixModel

/-- the two newline texts `File::write_to` can insert -/
def NL (t : Bytes) : Prop := t = [10] ∨ t = [13, 10]

/-- the text does not end in a lone CR -/
def Q (i : Bytes) : Prop := i.getLast? ≠ some 13

theorem Q_suffix {x r : Bytes} (h : Q (x ++ r)) (hr : r ≠ []) : Q r ∧ r ≠ [13] := by
  unfold Q at h ⊢
  have : (x ++ r).getLast? = r.getLast? := by
    cases r with
    | nil => exact absurd rfl hr
    | cons c r' =>
      rw [List.getLast?_append]
      cases hg : (c :: r').getLast? with
      | none => simp at hg
      | some v => simp
  rw [this] at h
  refine ⟨h, ?_⟩
  intro h13; rw [h13] at h; simp at h

theorem Q_nil : Q [] := by simp [Q]

theorem spanP_app (p : UInt8 → Bool) (t : Bytes) : ∀ (a : Bytes),
    ((spanP p a).2 ≠ [] ∨ ∀ c, t.head? = some c → p c = false) →
    spanP p (a ++ t) = ((spanP p a).1, (spanP p a).2 ++ t) := by
  intro a
  induction a with
  | nil =>
    intro h
    rcases h with h | h
    · simp [spanP] at h
    · cases t with
      | nil => simp [spanP]
      | cons c t' =>
        have := h c rfl
        simp [spanP, List.takeWhile_cons, List.dropWhile_cons, this]
  | cons x a ih =>
    intro h
    by_cases hx : p x = true
    · have h' : (spanP p a).2 ≠ [] ∨ ∀ c, t.head? = some c → p c = false := by
        rcases h with h | h
        · left; simpa [spanP, List.dropWhile_cons, hx] using h
        · exact Or.inr h
      have := ih h'
      simp only [spanP, Prod.mk.injEq] at this ⊢
      simp [List.takeWhile_cons, List.dropWhile_cons, hx, this.1, this.2]
    · simp [spanP, List.takeWhile_cons, List.dropWhile_cons, hx]

theorem NL_head {t : Bytes} (ht : NL t) : ∃ c r, t = c :: r ∧ (c = 10 ∨ c = 13) := by
  rcases ht with rfl | rfl
  · exact ⟨10, [], rfl, Or.inl rfl⟩
  · exact ⟨13, [10], rfl, Or.inr rfl⟩

theorem NL_head_p {t : Bytes} (ht : NL t) (p : UInt8 → Bool) (h10 : p 10 = false) (h13 : p 13 = false) :
    ∀ c, t.head? = some c → p c = false := by
  intro c hc
  rcases ht with rfl | rfl <;> simp at hc <;> subst hc <;> assumption

theorem optSpaces_app {t : Bytes} (ht : NL t) (a : Bytes) :
    optSpaces (a ++ t) = ((optSpaces a).1, (optSpaces a).2 ++ t) := by
  have hs := spanP_app isSpace t a (Or.inr (NL_head_p ht isSpace (by decide) (by decide)))
  unfold optSpaces takeSpaces1
  simp only [hs]
  by_cases he : (spanP isSpace a).1.isEmpty = true
  · simp only [he, ↓reduceIte]
  · simp [he]

theorem takeSpaces1_app {t : Bytes} (ht : NL t) {a w b : Bytes} (h : takeSpaces1 a = some (w, b)) :
    takeSpaces1 (a ++ t) = some (w, b ++ t) := by
  have hs := spanP_app isSpace t a (Or.inr (NL_head_p ht isSpace (by decide) (by decide)))
  unfold takeSpaces1 at h ⊢
  simp only [hs]
  simp only at h
  split at h
  · simp at h
  · rename_i he
    simp only [Option.some.injEq] at h
    rw [h] at he
    simp [h]
    simpa using he

theorem takeSpaces1_none_app {t : Bytes} (ht : NL t) {a : Bytes} (h : takeSpaces1 a = none) :
    takeSpaces1 (a ++ t) = none := by
  have hs := spanP_app isSpace t a (Or.inr (NL_head_p ht isSpace (by decide) (by decide)))
  unfold takeSpaces1 at h ⊢
  simp only [hs]
  simp only at h
  split at h
  · rename_i he; simp [he]
  · simp at h

theorem configName_app {t : Bytes} (ht : NL t) (a : Bytes) :
    configName (a ++ t) = (configName a).map fun p => (p.1, p.2 ++ t) := by
  cases a with
  | nil =>
    obtain ⟨c, r, rfl, hc⟩ := NL_head ht
    rcases hc with rfl | rfl <;> simp [configName, isAlpha] <;> decide
  | cons c r =>
    simp only [List.cons_append, configName]
    by_cases hc : isAlpha c = true
    · have hs := spanP_app isNameChar t r (Or.inr (NL_head_p ht isNameChar (by decide) (by decide)))
      simp [hc, hs]
    · simp [hc]

theorem comment_app {t : Bytes} (ht : NL t) {a b : Bytes} {c : Event} (h : comment a = some (c, b)) (hb : b ≠ []) :
    comment (a ++ t) = some (c, b ++ t) := by
  cases a with
  | nil => simp [comment] at h
  | cons x r =>
    simp only [comment, List.cons_append] at h ⊢
    split at h
    · rename_i hx
      simp only [Option.some.injEq, Prod.mk.injEq] at h
      obtain ⟨rfl, rfl⟩ := h
      have hs := spanP_app (fun b => b != 10) t r (Or.inl hb)
      simp [hx, hs]
    · simp at h

theorem comment_none_app {t : Bytes} (ht : NL t) {a : Bytes} (h : comment a = none) : comment (a ++ t) = none := by
  cases a with
  | nil =>
    obtain ⟨c, r, rfl, hc⟩ := NL_head ht
    rcases hc with rfl | rfl <;> simp [comment]
  | cons x r =>
    simp only [comment, List.cons_append] at h ⊢
    split at h
    · simp at h
    · rename_i hx; simp [hx]

theorem optComment_app {t : Bytes} (ht : NL t) (a : Bytes) (h : (optComment a).1 = [] ∨ (optComment a).2 ≠ []) :
    optComment (a ++ t) = ((optComment a).1, (optComment a).2 ++ t) := by
  unfold optComment at h ⊢
  cases hc : comment a with
  | none => simp [comment_none_app ht hc]
  | some p =>
    obtain ⟨c, b⟩ := p
    simp only [hc] at h
    rcases h with h | h
    · simp at h
    · simp [comment_app ht hc h]

/-! ### newlines -/

theorem takeNewlines_app {t : Bytes} (ht : NL t) : ∀ (n : Nat) (a : Bytes),
    (takeNewlines n a).2 ≠ [] → (takeNewlines n a).2 ≠ [13] →
    takeNewlines n (a ++ t) = ((takeNewlines n a).1, (takeNewlines n a).2 ++ t) := by
  intro n
  induction n with
  | zero => intro a _ _; simp [takeNewlines]
  | succ n ih =>
    intro a h1 h2
    match a with
    | [] => simp [takeNewlines] at h1
    | [c] =>
      by_cases hc : c = 10
      · subst hc
        simp only [takeNewlines] at h1 h2 ⊢
        cases n <;> simp [takeNewlines] at h1
      · by_cases hc13 : c = 13
        · subst hc13; simp [takeNewlines] at h2
        · rcases ht with rfl | rfl <;> simp [takeNewlines, hc, hc13]
    | c :: d :: r =>
      by_cases hc : c = 10
      · subst hc
        simp only [takeNewlines, List.cons_append] at h1 h2 ⊢
        have := ih (d :: r) h1 h2
        simp only [List.cons_append] at this
        rw [this]
      · by_cases hcd : c = 13 ∧ d = 10
        · obtain ⟨rfl, rfl⟩ := hcd
          simp only [takeNewlines, List.cons_append] at h1 h2 ⊢
          have := ih r h1 h2
          rw [this]
        · have hfall : ∀ (rr : Bytes), takeNewlines (n + 1) (c :: d :: rr) = ([], c :: d :: rr) := by
            intro rr
            rw [takeNewlines.eq_def]
            split
            · rename_i heq; simp at heq
            · rename_i heq; simp at heq; exact absurd ⟨heq.1, heq.2.1⟩ hcd
            · rename_i heq; simp at heq; exact absurd heq.1 hc
            · rfl
          rw [List.cons_append, List.cons_append, hfall, hfall]
          simp

theorem optNewlines_app {t : Bytes} (ht : NL t) (a : Bytes) (h1 : (optNewlines a).2 ≠ []) (h2 : (optNewlines a).2 ≠ [13]) :
    optNewlines (a ++ t) = ((optNewlines a).1, (optNewlines a).2 ++ t) := by
  unfold optNewlines takeNewlines1 at h1 h2 ⊢
  simp only at h1 h2 ⊢
  by_cases he : (takeNewlines 1023 a).1.isEmpty = true
  · -- nothing taken: `a` does not start with a newline, and is neither empty nor a lone CR
    have hnil : (takeNewlines 1023 a).1 = [] := by simpa using he
    have hrest : (takeNewlines 1023 a).2 = a := by
      have := takeNewlines_ok 1023 a
      rw [hnil] at this; simpa using this
    simp only [he, ↓reduceIte] at h1 h2
    have := takeNewlines_app ht 1023 a (by rw [hrest]; exact h1) (by rw [hrest]; exact h2)
    simp only [this, he, ↓reduceIte]
  · simp only [he, Bool.false_eq_true, ↓reduceIte] at h1 h2
    have := takeNewlines_app ht 1023 a h1 h2
    simp only [this, he, Bool.false_eq_true, ↓reduceIte]

theorem optNewlines_nl {t : Bytes} (ht : NL t) : optNewlines t = ([.newline t], []) := by
  rcases ht with rfl | rfl <;> decide

/-! ### values -/

theorem trimEnd_snoc13 (acc : Bytes) : trimEnd (acc ++ [13]) = trimEnd acc := by
  simp [trimEnd, List.reverse_append, List.dropWhile_cons, isAsciiWs]

theorem trimEnd_length_le (acc : Bytes) : (trimEnd acc).length ≤ acc.length := by
  have := trimEnd_prefix acc
  have h2 := congrArg List.length this
  simp at h2; omega

theorem valueFinish_rest_app (t : Bytes) {acc rest : Bytes} {inQ part : Bool} {em out : List Event} {b : Bytes}
    (h : valueFinish acc rest inQ part false em = some (out, b)) :
    valueFinish acc (rest ++ t) inQ part false em = some (out, b ++ t) := by
  unfold valueFinish at h ⊢
  split at h
  · simp at h
  · rename_i hq
    simp only [Bool.false_and, Bool.false_eq_true, ↓reduceIte, Option.some.injEq, Prod.mk.injEq] at h
    obtain ⟨rfl, rfl⟩ := h
    simp [hq]

theorem valueScan_nl {t : Bytes} (ht : NL t) {acc : Bytes} {inQ part : Bool} {em out : List Event} {b : Bytes}
    (h : valueFinish acc [] inQ part true em = some (out, b)) :
    valueScan t acc inQ part em = some (out, b ++ t) := by
  unfold valueFinish at h
  split at h
  · simp at h
  · rename_i hq
    have hq' : inQ = false := by simpa using hq
    subst hq'
    rcases ht with rfl | rfl
    · -- "\n"
      simp only [valueScan, beq_self_eq_true, ↓reduceIte, valueFinish, Bool.false_eq_true, Bool.false_and]
      split at h
      · rename_i he
        have hacc : acc = [] := by simpa using he
        subst hacc
        simp only [Option.some.injEq, Prod.mk.injEq] at h
        obtain ⟨rfl, rfl⟩ := h
        simp [trimEnd]
      · simp only [Option.some.injEq, Prod.mk.injEq] at h
        obtain ⟨rfl, rfl⟩ := h
        simp
    · -- "\r\n"
      have e1 : valueScan [13, 10] acc false part em = valueScan [10] (acc ++ [13]) false part em := by
        rw [valueScan.eq_def]
        simp
      rw [e1]
      simp only [valueScan, beq_self_eq_true, ↓reduceIte, valueFinish, Bool.false_eq_true, Bool.false_and, trimEnd_snoc13]
      have hle := trimEnd_length_le acc
      split at h
      · rename_i he
        have hacc : acc = [] := by simpa using he
        subst hacc
        simp only [Option.some.injEq, Prod.mk.injEq] at h
        obtain ⟨rfl, rfl⟩ := h
        simp [trimEnd]
      · simp only [Option.some.injEq, Prod.mk.injEq] at h
        obtain ⟨rfl, rfl⟩ := h
        simp [List.drop_append_of_le_length hle]

theorem valueScan_app {t : Bytes} (ht : NL t) : ∀ (a acc : Bytes) (inQ part : Bool) (em out : List Event) (b : Bytes),
    valueScan a acc inQ part em = some (out, b) → valueScan (a ++ t) acc inQ part em = some (out, b ++ t) := by
  intro a acc inQ part em
  obtain ⟨d0, r0, rfl, _⟩ := NL_head ht
  fun_induction valueScan a acc inQ part em <;> intro out b h
  all_goals simp only [List.cons_append, List.nil_append]
  all_goals first
    | exact valueScan_nl ht h
    | (simp at h; done)
    | (rw [valueScan.eq_def]; simp only [*]; simp; have := valueFinish_rest_app (d0 :: r0) h; simpa using this)
    | (rw [valueScan.eq_def]; simp only [*]; simp; exact valueScan_nl ht h)
    | skip
  all_goals rw [valueScan.eq_def]
  all_goals first
    | (rename_i ih; have := ih out b h; simp_all; done)
    | (have := valueScan_nl ht h; simp_all; done)
    | skip

/-! ### key/value pairs and the section body -/

theorem configValue_app {t : Bytes} (ht : NL t) {a b : Bytes} {out : List Event} (h : configValue a = some (out, b)) :
    configValue (a ++ t) = some (out, b ++ t) := by
  cases a with
  | nil =>
    simp only [configValue, Option.some.injEq, Prod.mk.injEq] at h
    obtain ⟨rfl, rfl⟩ := h
    rcases ht with rfl | rfl <;> rfl
  | cons c r =>
    by_cases hc : c = 61
    · subst hc
      simp only [configValue, List.cons_append] at h ⊢
      rw [optSpaces_app ht r]
      exact valueScan_app ht _ _ _ _ _ _ _ h
    · have e1 : ∀ rr, configValue (c :: rr) = some ([.value []], c :: rr) := by
        intro rr
        rw [configValue.eq_def]
        split
        · rename_i heq; simp at heq; exact absurd heq.1 hc
        · rfl
      rw [e1] at h
      simp only [Option.some.injEq, Prod.mk.injEq] at h
      obtain ⟨rfl, rfl⟩ := h
      rw [List.cons_append, e1]

theorem keyValuePair_app {t : Bytes} (ht : NL t) {a b : Bytes} {out : List Event} (h : keyValuePair a = some (out, b)) :
    keyValuePair (a ++ t) = some (out, b ++ t) := by
  unfold keyValuePair at h ⊢
  rw [configName_app ht a]
  cases hn : configName a with
  | none =>
    simp only [hn, Option.some.injEq, Prod.mk.injEq] at h
    obtain ⟨rfl, rfl⟩ := h
    simp
  | some p =>
    obtain ⟨n, r⟩ := p
    simp only [hn] at h
    simp only [Option.map_some]
    rw [optSpaces_app ht r]
    cases hv : configValue (optSpaces r).2 with
    | none => simp [hv] at h
    | some q =>
      obtain ⟨evs, r2⟩ := q
      simp only [hv, Option.some.injEq, Prod.mk.injEq] at h
      obtain ⟨rfl, rfl⟩ := h
      simp [configValue_app ht hv]

theorem length_le_of_ok {x r i : Bytes} (h : x ++ r = i) : r.length ≤ i.length := by
  rw [← h]; simp

/-- an iteration of the body loop that stops before the end of the text is unaffected -/
theorem bodyIter_app {t : Bytes} (ht : NL t) {a r : Bytes} {evs : List Event} (h : bodyIter a = some (evs, r))
    (hr : r ≠ []) (hr13 : r ≠ [13]) : bodyIter (a ++ t) = some (evs, r ++ t) := by
  unfold bodyIter at h ⊢
  simp only at h ⊢
  rw [optSpaces_app ht a]
  simp only
  cases hk : keyValuePair (optNewlines (optSpaces a).2).2 with
  | none => simp [hk] at h
  | some p =>
    obtain ⟨kv, r1⟩ := p
    simp only [hk, Option.some.injEq, Prod.mk.injEq] at h
    obtain ⟨rfl, hrr⟩ := h
    have l1 := length_le_of_ok (optComment_ok r1)
    have l2 := length_le_of_ok (keyValuePair_ok hk)
    rw [hrr] at l1
    have hrpos : 0 < r.length := List.length_pos_iff.mpr hr
    have hb2 : (optNewlines (optSpaces a).2).2 ≠ [] := by
      intro he
      have : r1.length ≤ 0 := by rw [he] at l2; exact l2
      omega
    have hb13 : (optNewlines (optSpaces a).2).2 ≠ [13] := by
      intro he
      rw [he] at hk
      have : keyValuePair [13] = some ([], [13]) := by decide
      rw [this] at hk
      simp only [Option.some.injEq, Prod.mk.injEq] at hk
      obtain ⟨_, rfl⟩ := hk
      have : optComment [13] = ([], [13]) := by decide
      rw [this] at hrr
      exact hr13 hrr.symm
    rw [optNewlines_app ht _ hb2 hb13]
    simp only
    rw [keyValuePair_app ht hk]
    simp only
    rw [optComment_app ht r1 (Or.inr (by rw [hrr]; exact hr))]
    simp [hrr]

def isValueEnd : Event → Bool
  | .value _ => true
  | .done _ => true
  | _ => false

theorem keyValuePair_last {i r : Bytes} {kv : List Event} (h : keyValuePair i = some (kv, r)) :
    kv = [] ∧ r = i ∨ ∃ e, kv.getLast? = some e := by
  cases kv with
  | nil =>
    left
    have := keyValuePair_ok h
    simpa [renderRaw] using this
  | cons e l =>
    right
    cases hg : (e :: l).getLast? with
    | none => simp at hg
    | some v => exact ⟨v, rfl⟩

/-- the iteration that reaches the end of the text with a key/value pair: the pair is parsed as
before and the appended newline is left over -/
theorem bodyIter_eof {t : Bytes} (ht : NL t) {a : Bytes} {evs : List Event} (h : bodyIter a = some (evs, []))
    (hl : ∃ e, evs.getLast? = some e ∧ isValueEnd e = true) : bodyIter (a ++ t) = some (evs, t) := by
  unfold bodyIter at h ⊢
  simp only at h ⊢
  rw [optSpaces_app ht a]
  simp only
  cases hk : keyValuePair (optNewlines (optSpaces a).2).2 with
  | none => simp [hk] at h
  | some p =>
    obtain ⟨kv, r1⟩ := p
    simp only [hk, Option.some.injEq, Prod.mk.injEq] at h
    obtain ⟨rfl, hrr⟩ := h
    obtain ⟨e, he, hv⟩ := hl
    -- the comment slot is empty: otherwise the last event is a comment
    have hc : (optComment r1).1 = [] := by
      unfold optComment at he ⊢
      cases hcm : comment r1 with
      | none => rfl
      | some q =>
        obtain ⟨c, rc⟩ := q
        simp only [hcm] at he
        rw [List.getLast?_append] at he
        simp only [List.getLast?_singleton, Option.some_or, Option.some.injEq] at he
        subst he
        cases r1 with
        | nil => simp [comment] at hcm
        | cons x rr =>
          simp only [comment] at hcm
          split at hcm
          · simp only [Option.some.injEq, Prod.mk.injEq] at hcm
            rw [← hcm.1] at hv; simp [isValueEnd] at hv
          · simp at hcm
    have hr1 : r1 = [] := by
      have := optComment_ok r1
      rw [hc, hrr] at this
      simpa [renderRaw] using this.symm
    subst hr1
    -- the key/value pair is there: otherwise the last event is whitespace or a newline
    have hkv : ∃ e', kv.getLast? = some e' := by
      rcases keyValuePair_last hk with ⟨rfl, hi⟩ | h'
      · exfalso
        simp only [hc, List.append_nil] at he
        unfold optNewlines optSpaces at he
        rw [List.getLast?_append] at he
        split at he <;> split at he <;> simp at he <;> subst he <;> simp [isValueEnd] at hv
      · exact h'
    -- so the newline slot stopped before the key
    have hb2 : (optNewlines (optSpaces a).2).2 ≠ [] := by
      intro hnil
      rw [hnil] at hk
      have : keyValuePair [] = some ([], []) := by decide
      rw [this] at hk
      simp only [Option.some.injEq, Prod.mk.injEq] at hk
      obtain ⟨e', he'⟩ := hkv
      rw [← hk.1] at he'; simp at he'
    have hb13 : (optNewlines (optSpaces a).2).2 ≠ [13] := by
      intro h13
      rw [h13] at hk
      have : keyValuePair [13] = some ([], [13]) := by decide
      rw [this] at hk
      simp at hk
    rw [optNewlines_app ht _ hb2 hb13]
    simp only
    rw [keyValuePair_app ht hk]
    simp only [List.nil_append]
    have hct : optComment t = ([], t) := by rcases ht with rfl | rfl <;> decide
    rw [hct]
    simp [hc]

/-- the events end in a value (or there are none) -/
def GoodEnd (evs : List Event) : Prop := evs = [] ∨ ∃ e, evs.getLast? = some e ∧ isValueEnd e = true

theorem bodyLoop_nl {t : Bytes} (ht : NL t) (g : Nat) (hg : t.length < g) : bodyLoop g t = some ([.newline t], []) := by
  rw [bodyLoop_fuel g 3 t hg (by rcases ht with rfl | rfl <;> simp)]
  rcases ht with rfl | rfl <;> decide +kernel

theorem bodyLoop_nil (g : Nat) : bodyLoop g [] = some ([], []) := by
  cases g with
  | zero => rfl
  | succ g => simp [bodyLoop, show bodyIter [] = some ([], []) by decide]

theorem getLast?_append_ne {α} (x y : List α) (hy : y ≠ []) : (x ++ y).getLast? = y.getLast? := by
  rw [List.getLast?_append]
  cases hg : y.getLast? with
  | none => simp at hg; exact absurd hg hy
  | some v => simp

theorem renderRaw_nil_of {evs : List Event} {r : Bytes} (h : renderRaw evs ++ [] = r) (hr : r ≠ []) : evs ≠ [] := by
  intro he; subst he; simp [renderRaw] at h; exact hr h

theorem bodyLoop_app {t : Bytes} (ht : NL t) : ∀ (f : Nat) (a : Bytes) (evs : List Event) (b : Bytes) (g : Nat),
    bodyLoop f a = some (evs, b) → a.length < f → (a ++ t).length < g → Q a →
    (b ≠ [] → bodyLoop g (a ++ t) = some (evs, b ++ t)) ∧
    (b = [] → GoodEnd evs → bodyLoop g (a ++ t) = some (evs ++ [.newline t], [])) := by
  intro f
  induction f with
  | zero => intro a evs b g _ hf; omega
  | succ f ih =>
    intro a evs b g h hf hg hq
    obtain ⟨g', rfl⟩ : ∃ g', g = g' + 1 := ⟨g - 1, by omega⟩
    have htpos : 0 < t.length := by rcases ht with rfl | rfl <;> simp
    simp only [bodyLoop] at h
    cases hbi : bodyIter a with
    | none => simp [hbi] at h
    | some p =>
      obtain ⟨e1, r1⟩ := p
      simp only [hbi] at h
      have hok := bodyIter_ok hbi
      have hle : r1.length ≤ a.length := length_le_of_ok hok
      by_cases hprog : r1.length = a.length
      · simp only [hprog, beq_self_eq_true, ↓reduceIte, Option.some.injEq, Prod.mk.injEq] at h
        obtain ⟨rfl, rfl⟩ := h
        by_cases ha : a = []
        · subst ha
          have hr1 : r1 = [] := by simpa using hprog
          subst hr1
          have : bodyIter [] = some ([], []) := by decide
          rw [this] at hbi
          simp only [Option.some.injEq, Prod.mk.injEq] at hbi
          obtain ⟨rfl, _⟩ := hbi
          refine ⟨fun h => absurd rfl h, fun _ _ => ?_⟩
          simp only [List.nil_append]
          exact bodyLoop_nl ht _ (by simpa using hg)
        · have hr1 : r1 ≠ [] := by
            intro he; subst he; simp at hprog; exact ha (by simpa using hprog.symm)
          have hq1 := Q_suffix (hok ▸ hq) hr1
          have hit := bodyIter_app ht hbi hr1 hq1.2
          refine ⟨fun _ => ?_, fun he => absurd he hr1⟩
          simp only [bodyLoop, hit]
          simp [hprog]
      · have hne : (r1.length == a.length) = false := by simpa using hprog
        simp only [hne, Bool.false_eq_true, ↓reduceIte] at h
        cases hbl : bodyLoop f r1 with
        | none => simp [hbl] at h
        | some q =>
          obtain ⟨more, r'⟩ := q
          simp only [hbl, Option.some.injEq, Prod.mk.injEq] at h
          obtain ⟨rfl, rfl⟩ := h
          by_cases hr1 : r1 = []
          · subst hr1
            rw [bodyLoop_nil] at hbl
            simp only [Option.some.injEq, Prod.mk.injEq] at hbl
            obtain ⟨rfl, rfl⟩ := hbl
            refine ⟨fun h => absurd rfl h, fun _ hge => ?_⟩
            have ha : a ≠ [] := by intro he; subst he; simp at hprog
            simp only [List.append_nil] at hge ⊢
            have hl : ∃ e, e1.getLast? = some e ∧ isValueEnd e = true := by
              rcases hge with he | he
              · subst he; simp [renderRaw] at hok; exact absurd hok ha
              · exact he
            have hit := bodyIter_eof ht hbi hl
            have hapos : 0 < a.length := List.length_pos_iff.mpr ha
            simp only [bodyLoop, hit]
            have : (t.length == (a ++ t).length) = false := by simp; omega
            simp only [this, Bool.false_eq_true, ↓reduceIte]
            rw [bodyLoop_nl ht g' (by simp at hg; omega)]
          · have hq1 := Q_suffix (hok ▸ hq) hr1
            have hit := bodyIter_app ht hbi hr1 hq1.2
            have hih := ih r1 more r' g' hbl (by omega) (by simp at hg ⊢; omega) hq1.1
            have hne' : ((r1 ++ t).length == (a ++ t).length) = false := by simp; omega
            constructor
            · intro hb
              simp only [bodyLoop, hit, hne', Bool.false_eq_true, ↓reduceIte, hih.1 hb]
            · intro hb hge
              subst hb
              have hmore : more ≠ [] := renderRaw_nil_of (bodyLoop_ok _ _ _ _ hbl) hr1
              have hge' : GoodEnd more := by
                right
                rcases hge with he | ⟨e, he, hv⟩
                · simp at he; exact absurd he.2 hmore
                · rw [getLast?_append_ne _ _ hmore] at he; exact ⟨e, he, hv⟩
              simp only [bodyLoop, hit, hne', Bool.false_eq_true, ↓reduceIte, hih.2 rfl hge']
              simp

/-! ### headers, sections, the whole text -/

theorem subSectionRaw_app (t : Bytes) : ∀ (i : Bytes) (r' : Bytes), (subSectionRaw i).2 = 34 :: r' →
    subSectionRaw (i ++ t) = ((subSectionRaw i).1, (subSectionRaw i).2 ++ t) := by
  intro i
  fun_induction subSectionRaw i <;> intro r' h
  all_goals first
    | (simp at h; done)
    | skip
  all_goals simp only [List.cons_append, List.nil_append]
  all_goals first
    | (rename_i ih; have := ih r' h; rw [subSectionRaw.eq_def]; simp_all; done)
    | (rw [subSectionRaw.eq_def]; cases t <;> simp_all; done)
    | skip

theorem sectionHeaderRaw_app {t : Bytes} (ht : NL t) {a b : Bytes} {h : Header} (hh : sectionHeaderRaw a = some (h, b)) :
    sectionHeaderRaw (a ++ t) = some (h, b ++ t) := by
  unfold sectionHeaderRaw at hh ⊢
  cases a with
  | nil => simp at hh
  | cons c r =>
    by_cases hc : c = 91
    · subst hc
      simp only [List.cons_append] at hh ⊢
      have hs := spanP_app isSectionChar t r (Or.inr (NL_head_p ht isSectionChar (by decide) (by decide)))
      rw [hs]
      simp only at hh ⊢
      split at hh
      · simp at hh
      · rename_i hne
        simp only [hne, Bool.false_eq_true, ↓reduceIte]
        generalize hp2 : (spanP isSectionChar r).2 = p2 at hh ⊢
        generalize (spanP isSectionChar r).1 = p1 at hh ⊢
        cases p2 with
        | nil => simp [takeSpaces1, spanP] at hh
        | cons x r1 =>
          by_cases hx : x = 93
          · subst hx
            simp only [List.cons_append] at hh ⊢
            cases hsd : splitLastDot p1 with
            | none => simp only [hsd, Option.some.injEq, Prod.mk.injEq] at hh ⊢; simp [hh.1, hh.2]
            | some q =>
              obtain ⟨qa, qb⟩ := q
              simp only [hsd] at hh ⊢
              split at hh
              · simp at hh
              · rename_i hqa
                simp only [Option.some.injEq, Prod.mk.injEq] at hh
                simp [hqa, hh.1, hh.2]
          · split at hh
            · rename_i heq; simp at heq; exact absurd heq.1 hx
            rw [List.cons_append]
            split
            · rename_i heq; simp at heq; exact absurd heq.1 hx
            cases hts : takeSpaces1 (x :: r1) with
            | none => simp [hts] at hh
            | some wq =>
              obtain ⟨w, r2⟩ := wq
              have := takeSpaces1_app ht hts
              simp only [List.cons_append] at this
              simp only [hts] at hh
              simp only [this]
              cases r2 with
              | nil => simp at hh
              | cons y r3 =>
                by_cases hy : y = 34
                · subst hy
                  simp only [List.cons_append] at hh ⊢
                  cases hq2 : (subSectionRaw r3).2 with
                  | nil => simp [hq2] at hh
                  | cons z1 q3 =>
                    cases q3 with
                    | nil => simp [hq2] at hh
                    | cons z2 r5 =>
                      by_cases hz : z1 = 34 ∧ z2 = 93
                      · obtain ⟨rfl, rfl⟩ := hz
                        rw [subSectionRaw_app t r3 _ hq2]
                        simp only [hq2, Option.some.injEq, Prod.mk.injEq] at hh ⊢
                        simp [hh.1, hh.2]
                      · exfalso
                        simp only [hq2] at hh
                        split at hh
                        · rename_i heq; simp at heq; exact hz ⟨heq.1, heq.2.1⟩
                        · simp at hh
                · exfalso
                  split at hh
                  · rename_i heq; simp at heq; exact hy heq.1
                  · simp at hh
    · exfalso
      split at hh
      · rename_i heq; simp at heq; exact hc heq.1
      · simp at hh

/-- the events end in a value -/
def LastV (evs : List Event) : Prop := ∃ e, evs.getLast? = some e ∧ isValueEnd e = true

theorem sectionRaw_shrinks {a r : Bytes} {evs : List Event} (h : sectionRaw a = some (evs, r)) :
    r.length < a.length ∧ ∃ hd body, evs = .header hd :: body := by
  have hok := sectionRaw_ok h
  unfold sectionRaw at h
  split at h
  · simp at h
  · rename_i hd r0 hh
    split at h
    · simp at h
    · rename_i body r' hb
      simp only [Option.some.injEq, Prod.mk.injEq] at h
      obtain ⟨rfl, rfl⟩ := h
      refine ⟨?_, hd, body, rfl⟩
      have h1 := sectionHeaderRaw_ok hh
      have h2 := bodyLoop_ok _ _ _ _ hb
      have h3 := headerWrite_pos hd id
      have := congrArg List.length h1
      have := congrArg List.length h2
      simp at *
      omega

theorem sectionRaw_app {t : Bytes} (ht : NL t) {a b : Bytes} {evs : List Event} (h : sectionRaw a = some (evs, b)) (hq : Q a) :
    (b ≠ [] → sectionRaw (a ++ t) = some (evs, b ++ t)) ∧
    (b = [] → LastV evs → sectionRaw (a ++ t) = some (evs ++ [.newline t], [])) := by
  unfold sectionRaw at h ⊢
  cases hh : sectionHeaderRaw a with
  | none => simp [hh] at h
  | some p =>
    obtain ⟨hd, r0⟩ := p
    simp only [hh] at h
    rw [sectionHeaderRaw_app ht hh]
    simp only
    cases hb : bodyLoop (r0.length + 1) r0 with
    | none => simp [hb] at h
    | some q =>
      obtain ⟨body, r'⟩ := q
      simp only [hb, Option.some.injEq, Prod.mk.injEq] at h
      obtain ⟨rfl, rfl⟩ := h
      have hok := sectionHeaderRaw_ok hh
      have hq0 : Q r0 := by
        by_cases h0 : r0 = []
        · subst h0; exact Q_nil
        · exact (Q_suffix (hok ▸ hq) h0).1
      have := bodyLoop_app ht (r0.length + 1) r0 body r' ((r0 ++ t).length + 1) hb (by omega) (by omega) hq0
      constructor
      · intro hne
        rw [this.1 hne]
      · intro he hl
        subst he
        have hge : GoodEnd body := by
          obtain ⟨e, hle, hv⟩ := hl
          by_cases hbody : body = []
          · exact Or.inl hbody
          · right
            rw [show Event.header hd :: body = [Event.header hd] ++ body from rfl, getLast?_append_ne _ _ hbody] at hle
            exact ⟨e, hle, hv⟩
        rw [this.2 rfl hge]
        simp

theorem sectionsRaw_app {t : Bytes} (ht : NL t) : ∀ (f : Nat) (a : Bytes) (evs : List Event) (g : Nat),
    sectionsRaw f a = some evs → a ≠ [] → a.length ≤ f → (a ++ t).length ≤ g → Q a → LastV evs →
    sectionsRaw g (a ++ t) = some (evs ++ [.newline t]) := by
  intro f
  induction f with
  | zero => intro a evs g _ ha hf; simp at hf; exact absurd hf ha
  | succ f ih =>
    intro a evs g h ha hf hg hq hl
    have htpos : 0 < t.length := by rcases ht with rfl | rfl <;> simp
    obtain ⟨g', rfl⟩ : ∃ g', g = g' + 1 := ⟨g - 1, by simp at hg; omega⟩
    have hae : a.isEmpty = false := by simpa using ha
    have hate : (a ++ t).isEmpty = false := by simp [ha]
    simp only [sectionsRaw, hae, hate, Bool.false_eq_true, ↓reduceIte] at h ⊢
    cases hs : sectionRaw a with
    | none => simp [hs] at h
    | some p =>
      obtain ⟨e1, r⟩ := p
      simp only [hs, Option.map_eq_some_iff] at h
      obtain ⟨more, hm, rfl⟩ := h
      obtain ⟨hlt, hd, body, rfl⟩ := sectionRaw_shrinks hs
      have hok := sectionRaw_ok hs
      have hsa := sectionRaw_app ht hs hq
      by_cases hr : r = []
      · subst hr
        have hmore : more = [] := by
          cases f <;> simp [sectionsRaw] at hm <;> exact hm
        subst hmore
        simp only [List.append_nil] at hl ⊢
        rw [hsa.2 rfl hl]
        cases g' <;> simp [sectionsRaw]
      · have hq1 := Q_suffix (hok ▸ hq) hr
        rw [hsa.1 hr]
        simp only
        have hmne : more ≠ [] := by
          intro he; subst he
          have := sectionsRaw_ok _ _ _ hm
          simp [renderRaw] at this; exact hr this
        have hl' : LastV more := by
          obtain ⟨e, hle, hv⟩ := hl
          rw [getLast?_append_ne _ _ hmne] at hle
          exact ⟨e, hle, hv⟩
        rw [ih r more g' hm hr (by omega) (by simp at hg ⊢; omega) hq1.1 hl']
        simp

theorem takeNewlines1_app {t : Bytes} (ht : NL t) {a n r : Bytes} (h : takeNewlines1 a = some (n, r))
    (hr : r ≠ []) (hr13 : r ≠ [13]) : takeNewlines1 (a ++ t) = some (n, r ++ t) := by
  unfold takeNewlines1 at h ⊢
  simp only at h ⊢
  split at h
  · simp at h
  · rename_i he
    simp only [Option.some.injEq] at h
    have := takeNewlines_app ht 1023 a (by rw [h]; exact hr) (by rw [h]; exact hr13)
    rw [this, h]
    rw [h] at he
    simp at he
    simp [he]

theorem takeNewlines1_none_app {t : Bytes} (ht : NL t) {a : Bytes} (h : takeNewlines1 a = none)
    (ha : a ≠ []) (ha13 : a ≠ [13]) : takeNewlines1 (a ++ t) = none := by
  unfold takeNewlines1 at h ⊢
  simp only at h ⊢
  split at h
  · rename_i he
    have hnil : (takeNewlines 1023 a).1 = [] := by simpa using he
    have hrest : (takeNewlines 1023 a).2 = a := by
      have := takeNewlines_ok 1023 a
      rw [hnil] at this; simpa using this
    have := takeNewlines_app ht 1023 a (by rw [hrest]; exact ha) (by rw [hrest]; exact ha13)
    rw [this]
    simp [he]
  · simp at h

theorem frontStep_app {t : Bytes} (ht : NL t) {a r : Bytes} {e : Event} (h : frontStep a = some (e, r))
    (hr : r ≠ []) (hr13 : r ≠ [13]) : frontStep (a ++ t) = some (e, r ++ t) := by
  unfold frontStep at h ⊢
  cases hc : comment a with
  | some x =>
    obtain ⟨c, rc⟩ := x
    simp only [hc, Option.some.injEq, Prod.mk.injEq] at h
    obtain ⟨rfl, rfl⟩ := h
    simp [comment_app ht hc hr]
  | none =>
    simp only [hc] at h
    simp only [comment_none_app ht hc]
    cases hs : takeSpaces1 a with
    | some x =>
      obtain ⟨w, rw'⟩ := x
      simp only [hs, Option.some.injEq, Prod.mk.injEq] at h
      obtain ⟨rfl, rfl⟩ := h
      simp [takeSpaces1_app ht hs]
    | none =>
      simp only [hs] at h
      simp only [takeSpaces1_none_app ht hs]
      cases hn : takeNewlines1 a with
      | some x =>
        obtain ⟨n, rn⟩ := x
        simp only [hn, Option.some.injEq, Prod.mk.injEq] at h
        obtain ⟨rfl, rfl⟩ := h
        simp [takeNewlines1_app ht hn hr hr13]
      | none => simp [hn] at h

theorem frontStep_none_app {t : Bytes} (ht : NL t) {a : Bytes} (h : frontStep a = none)
    (ha : a ≠ []) (ha13 : a ≠ [13]) : frontStep (a ++ t) = none := by
  unfold frontStep at h ⊢
  cases hc : comment a with
  | some x => simp [hc] at h
  | none =>
    simp only [hc] at h
    simp only [comment_none_app ht hc]
    cases hs : takeSpaces1 a with
    | some x => simp [hs] at h
    | none =>
      simp only [hs] at h
      simp only [takeSpaces1_none_app ht hs]
      cases hn : takeNewlines1 a with
      | some x => simp [hn] at h
      | none => simp [takeNewlines1_none_app ht hn ha ha13]

theorem frontLoop_app {t : Bytes} (ht : NL t) : ∀ (f : Nat) (a : Bytes) (g : Nat),
    a.length ≤ f → (a ++ t).length ≤ g → Q a → (frontLoop f a).2 ≠ [] →
    frontLoop g (a ++ t) = ((frontLoop f a).1, (frontLoop f a).2 ++ t) := by
  intro f
  induction f with
  | zero =>
    intro a g hf _ _ h
    have : a = [] := by simpa using hf
    subst this
    simp [frontLoop] at h
  | succ f ih =>
    intro a g hf hg hq h
    have htpos : 0 < t.length := by rcases ht with rfl | rfl <;> simp
    obtain ⟨g', rfl⟩ : ∃ g', g = g' + 1 := ⟨g - 1, by simp at hg; omega⟩
    simp only [frontLoop] at h ⊢
    cases hs : frontStep a with
    | none =>
      simp only [hs] at h ⊢
      have ha : a ≠ [] := h
      have hq1 := Q_suffix (x := []) (by simpa using hq) ha
      simp [frontStep_none_app ht hs ha hq1.2]
    | some p =>
      obtain ⟨e, r⟩ := p
      simp only [hs] at h ⊢
      have hok := frontStep_ok hs
      have hr : r ≠ [] := by
        intro he; subst he
        have := frontLoop_ok f []
        cases hfl : frontLoop f [] with
        | mk x y =>
          rw [hfl] at this h
          simp at this
          exact h this.2
      have hq1 := Q_suffix (hok.1 ▸ hq) hr
      rw [frontStep_app ht hs hr hq1.2]
      simp only
      rw [ih r g' (by omega) (by simp at hg ⊢; omega) hq1.1 h]

theorem frontStep_kind {a r : Bytes} {e : Event} (h : frontStep a = some (e, r)) : isValueEnd e = false := by
  unfold frontStep at h
  cases hc : comment a with
  | some x =>
    obtain ⟨c, rc⟩ := x
    simp only [hc, Option.some.injEq, Prod.mk.injEq] at h
    obtain ⟨rfl, _⟩ := h
    cases a with
    | nil => simp [comment] at hc
    | cons y rr =>
      simp only [comment] at hc
      split at hc
      · simp only [Option.some.injEq, Prod.mk.injEq] at hc
        rw [← hc.1]; rfl
      · simp at hc
  | none =>
    simp only [hc] at h
    cases hs : takeSpaces1 a with
    | some x =>
      simp only [hs, Option.some.injEq, Prod.mk.injEq] at h
      rw [← h.1]; rfl
    | none =>
      simp only [hs] at h
      cases hn : takeNewlines1 a with
      | some x =>
        simp only [hn, Option.some.injEq, Prod.mk.injEq] at h
        rw [← h.1]; rfl
      | none => simp [hn] at h

theorem frontLoop_kind : ∀ (f : Nat) (a : Bytes), ∀ e ∈ (frontLoop f a).1, isValueEnd e = false := by
  intro f
  induction f with
  | zero => intro a e he; simp [frontLoop] at he
  | succ f ih =>
    intro a e he
    simp only [frontLoop] at he
    cases hs : frontStep a with
    | none => simp [hs] at he
    | some p =>
      obtain ⟨e0, r⟩ := p
      simp only [hs, List.mem_cons] at he
      rcases he with rfl | he
      · exact frontStep_kind hs
      · exact ih r e he

/-- no byte that can start a byte-order mark at the head of the text -/
def noBomHead : Bytes → Bool
  | [] => true
  | c :: _ => !(c == 0 || c == 14 || c == 43 || c == 132 || c == 221 || c == 239 || c == 247 || c == 251 || c == 254 || c == 255)

theorem bomLen_of_noBomHead (bs : Bytes) (h : noBomHead bs = true) : bomLen bs = 0 := by
  unfold bomLen
  split <;> simp_all [noBomHead]

theorem noBomHead_app {t : Bytes} (ht : NL t) (bs : Bytes) (h : noBomHead bs = true) : noBomHead (bs ++ t) = true := by
  cases bs with
  | nil => rcases ht with rfl | rfl <;> decide
  | cons c r => simpa [noBomHead] using h

/-- the parser on a text it accepts, with a newline appended: the same events and one more newline
event — provided the events end in a value, the text has no byte-order mark and does not end in CR -/
theorem parseRaw_app {t : Bytes} (ht : NL t) {bs : Bytes} {evs : List Event} (h : parseRaw bs = some evs)
    (hb : noBomHead bs = true) (hq : Q bs) (hl : LastV evs) :
    parseRaw (bs ++ t) = some (evs ++ [.newline t]) := by
  unfold parseRaw at h ⊢
  rw [bomLen_of_noBomHead _ (noBomHead_app ht bs hb)]
  rw [bomLen_of_noBomHead _ hb] at h
  simp only [List.drop_zero] at h ⊢
  by_cases he : (frontLoop bs.length bs).2.isEmpty = true
  · exfalso
    simp only [he, ↓reduceIte, Option.some.injEq] at h
    obtain ⟨e, hle, hv⟩ := hl
    rw [← h] at hle
    have := frontLoop_kind bs.length bs e (List.mem_of_getLast? hle)
    rw [this] at hv; simp at hv
  · simp only [he, Bool.false_eq_true, ↓reduceIte, Option.map_eq_some_iff] at h
    obtain ⟨more, hm, rfl⟩ := h
    have hne : (frontLoop bs.length bs).2 ≠ [] := by simpa using he
    have hfl := frontLoop_app ht bs.length bs (bs ++ t).length (by omega) (by omega) hq hne
    rw [hfl]
    have hok := frontLoop_ok bs.length bs
    have hq2 := Q_suffix (hok ▸ hq) hne
    have hmne : more ≠ [] := by
      intro hmm; subst hmm
      have := sectionsRaw_ok _ _ _ hm
      simp [renderRaw] at this; exact hne this
    have hl' : LastV more := by
      obtain ⟨e, hle, hv⟩ := hl
      rw [getLast?_append_ne _ _ hmne] at hle
      exact ⟨e, hle, hv⟩
    have hs := sectionsRaw_app ht _ _ more ((frontLoop bs.length bs).2 ++ t).length hm hne (by omega) (by omega) hq2.1 hl'
    simp only
    have hne2 : ((frontLoop bs.length bs).2 ++ t).isEmpty = false := by simp [hne]
    simp only [hne2, Bool.false_eq_true, ↓reduceIte, hs]
    simp

/-! ### the file read back from the text with the appended newline -/

theorem bodyEntries_nl (h : Header) (t : Bytes) (cur : Option Bytes) (acc : Bytes) :
    bodyEntries h [.newline t] cur acc = [] := by
  cases cur <;> simp [bodyEntries]

/-- a newline event at the very end changes neither the headers nor the entries -/
theorem groupSections_snoc_nl (t : Bytes) : ∀ (evs : List Event),
    (groupSections (evs ++ [.newline t])).2.map (·.header) = (groupSections evs).2.map (·.header) ∧
    (groupSections (evs ++ [.newline t])).2.flatMap (fun s => bodyEntries s.header s.body none []) =
      (groupSections evs).2.flatMap (fun s => bodyEntries s.header s.body none []) ∧
    ∀ (h : Header) (cur : Option Bytes) (acc : Bytes),
      bodyEntries h (groupSections (evs ++ [.newline t])).1 cur acc = bodyEntries h (groupSections evs).1 cur acc := by
  intro evs
  induction evs with
  | nil =>
    refine ⟨rfl, rfl, ?_⟩
    intro h cur acc
    simp only [List.nil_append, groupSections]
    rw [bodyEntries_nl]; rfl
  | cons e rest ih =>
    obtain ⟨ih1, ih2, ih3⟩ := ih
    cases e with
    | header hd =>
      simp only [List.cons_append, groupSections, List.map_cons, List.flatMap_cons]
      exact ⟨by rw [ih1], by rw [ih2, ih3], fun _ _ _ => trivial⟩
    | _ =>
      simp only [List.cons_append, groupSections]
      refine ⟨ih1, ih2, ?_⟩
      intro h cur acc
      cases cur <;> simp [bodyEntries, ih3]

theorem fileOfEvents_snoc_nl (t : Bytes) (evs : List Event) :
    (fileOfEvents (evs ++ [.newline t])).entries = (fileOfEvents evs).entries ∧
    (fileOfEvents (evs ++ [.newline t])).headers = (fileOfEvents evs).headers := by
  obtain ⟨h1, h2, _⟩ := groupSections_snoc_nl t evs
  constructor
  · simpa [File.entries, fileOfEvents] using h2
  · simp only [File.headers, fileOfEvents]
    have : ∀ l : List Section, l.map (fun s => (s.header.name, s.header.sub)) =
        (l.map (·.header)).map (fun h => (h.name, h.sub)) := by intro l; simp
    rw [this, this, h1]

theorem extract_NL : ∀ (l : List Event) (x : Bytes), l.findSome? extractNewline = some x → NL x := by
  intro l
  induction l with
  | nil => intro x h; simp at h
  | cons e l ih =>
    intro x h
    simp only [List.findSome?_cons] at h
    cases he : extractNewline e with
    | none => rw [he] at h; exact ih x h
    | some v =>
      rw [he] at h
      simp only [Option.some.injEq] at h
      subst h
      cases e <;> simp [extractNewline] at he
      subst he
      split
      · exact Or.inr rfl
      · exact Or.inl rfl

theorem detectNewline_NL (f : File) : NL (detectNewline f) := by
  unfold detectNewline
  split
  · rename_i nl h; exact extract_NL _ _ h
  · split
    · rename_i nl h
      generalize f.sections = ss at h
      induction ss with
      | nil => simp at h
      | cons sct ss ih =>
        simp only [List.findSome?_cons] at h
        cases hb : sct.body.findSome? extractNewline with
        | none => rw [hb] at h; exact ih h
        | some v =>
          rw [hb] at h
          simp only [Option.some.injEq] at h
          subst h
          exact extract_NL _ _ hb
    · exact Or.inl rfl

theorem isValueEnd_toReal (e : Event) : isValueEnd e.toReal = isValueEnd e := by
  cases e <;> rfl

theorem render_snoc_nl (evs : List Event) (t : Bytes) : render (evs ++ [.newline t]) = render evs ++ t := by
  simp [render, Event.write, Event.writeWith]

/-- reading back the text with the final newline appended -/
theorem fileFromBytes_app {t : Bytes} (ht : NL t) {bs : Bytes} {f : File} (h : fileFromBytes bs = some f)
    (hb : noBomHead bs = true) (hq : Q bs) (hl : LastV f.events) :
    ∃ g, fileFromBytes (bs ++ t) = some g ∧ g.entries = f.entries ∧ g.headers = f.headers := by
  unfold fileFromBytes parseEvents at h ⊢
  simp only [Option.map_eq_some_iff] at h
  obtain ⟨evs, ⟨revs, hr, rfl⟩, rfl⟩ := h
  rw [fileOfEvents_events] at hl
  have hl' : LastV revs := by
    obtain ⟨e, hle, hv⟩ := hl
    rw [List.getLast?_map] at hle
    cases hg : revs.getLast? with
    | none => rw [hg] at hle; simp at hle
    | some e0 =>
      rw [hg] at hle
      simp only [Option.map_some, Option.some.injEq] at hle
      subst hle
      exact ⟨e0, hg, by rw [← isValueEnd_toReal]; exact hv⟩
  rw [parseRaw_app ht hr hb hq hl']
  refine ⟨_, rfl, ?_⟩
  simp only [List.map_append, List.map_cons, List.map_nil, Event.toReal]
  exact fileOfEvents_snoc_nl t _

/-- per section: header, entries and comments are unchanged by a newline event at the very end -/
theorem groupSections_snoc_nl2 (t : Bytes) : ∀ (evs : List Event),
    (groupSections (evs ++ [.newline t])).2.map (fun s => (s.header, bodyEntries s.header s.body none [], s.body.filter isComment)) =
      (groupSections evs).2.map (fun s => (s.header, bodyEntries s.header s.body none [], s.body.filter isComment)) ∧
    (∀ (h : Header) (cur : Option Bytes) (acc : Bytes),
      bodyEntries h (groupSections (evs ++ [.newline t])).1 cur acc = bodyEntries h (groupSections evs).1 cur acc) ∧
    (groupSections (evs ++ [.newline t])).1.filter isComment = (groupSections evs).1.filter isComment := by
  intro evs
  induction evs with
  | nil =>
    refine ⟨rfl, ?_, rfl⟩
    intro h cur acc
    simp only [List.nil_append, groupSections]
    rw [bodyEntries_nl]; rfl
  | cons e rest ih =>
    obtain ⟨ih1, ih2, ih3⟩ := ih
    cases e with
    | header hd =>
      simp only [List.cons_append, groupSections, List.map_cons]
      exact ⟨by rw [ih1, ih2, ih3], fun _ _ _ => trivial, trivial⟩
    | _ =>
      simp only [List.cons_append, groupSections]
      refine ⟨ih1, ?_, ?_⟩
      · intro h cur acc
        cases cur <;> simp [bodyEntries, ih2]
      · simp [List.filter_cons, ih3]

/-- the file read back from the text with the final newline appended, exactly -/
theorem fileFromBytes_app_eq {t : Bytes} (ht : NL t) {bs : Bytes} {f : File} (h : fileFromBytes bs = some f)
    (hb : noBomHead bs = true) (hq : Q bs) (hl : LastV f.events) :
    fileFromBytes (bs ++ t) = some (fileOfEvents (f.events ++ [.newline t])) := by
  unfold fileFromBytes parseEvents at h ⊢
  simp only [Option.map_eq_some_iff] at h
  obtain ⟨evs, ⟨revs, hr, rfl⟩, rfl⟩ := h
  rw [fileOfEvents_events] at hl ⊢
  have hl' : LastV revs := by
    obtain ⟨e, hle, hv⟩ := hl
    rw [List.getLast?_map] at hle
    cases hg : revs.getLast? with
    | none => rw [hg] at hle; simp at hle
    | some e0 =>
      rw [hg] at hle
      simp only [Option.map_some, Option.some.injEq] at hle
      subst hle
      exact ⟨e0, hg, by rw [← isValueEnd_toReal]; exact hv⟩
  rw [parseRaw_app ht hr hb hq hl']
  simp [Event.toReal]

theorem fileOfEvents_of_parsed {bs : Bytes} {F : File} (h : fileFromBytes bs = some F) : fileOfEvents F.events = F := by
  unfold fileFromBytes at h
  simp only [Option.map_eq_some_iff] at h
  obtain ⟨evs, _, rfl⟩ := h
  rw [fileOfEvents_events]

end GixModel.C26
