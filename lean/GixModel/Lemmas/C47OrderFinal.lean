import GixModel.Lemmas.C47OrderSim
/-
C47 — lemmas, part 13: `build()` in lock-step with the specification's start, `topoWalk_order`, and
the executable selection `selOf` (two verified breadth-first walks) is `git rev-list tips ^hidden`.
-/
namespace GixModel.C47
open GixModel GixModel.CG GixModel.Spec.C47

section
variable {E : TopoEnv} {nodes tips ends : List Nat} {sel : Nat → Bool}

theorem registerAll_frame (E : TopoEnv) : ∀ (l : List (Nat × WalkFlags)) (s : TS E),
    (registerAll E l s).dateQ = s.dateQ ∧ (registerAll E l s).dateCtr = s.dateCtr ∧
    (registerAll E l s).stack = s.stack := by
  intro l
  induction l with
  | nil => intro s; exact ⟨rfl, rfl, rfl⟩
  | cons e rest ih =>
    intro s
    obtain ⟨c, fl⟩ := e
    unfold registerAll
    cases s.states.get c with
    | some st => dsimp only; exact ih _
    | none => dsimp only; exact ih _

theorem insertByTime_map (g : Dag) (e : Int × Nat) (he : e.1 = g.time e.2) :
    ∀ (acc : List (Int × Nat)), (∀ x, x ∈ acc → x.1 = g.time x.2) →
      (insertByTime e acc).map (·.2) = insertAsc g e.2 (acc.map (·.2)) := by
  intro acc
  induction acc with
  | nil => intro _; rfl
  | cons x xs ih =>
    intro hacc
    have hx := hacc x List.mem_cons_self
    unfold insertByTime
    simp only [List.map_cons]
    unfold insertAsc
    rw [← hx, ← he]
    by_cases hle : x.1 ≤ e.1
    · rw [if_pos hle, if_pos hle]
      simp only [List.map_cons]
      rw [ih (fun y hy => hacc y (List.mem_cons_of_mem _ hy))]
    · rw [if_neg hle, if_neg hle]
      simp

theorem sortByTime_map (g : Dag) (l : List (Int × Nat)) (hl : ∀ x, x ∈ l → x.1 = g.time x.2) :
    (sortByTime l).map (·.2) = sortAsc g (l.map (·.2)) := by
  have key : ∀ (l acc : List (Int × Nat)), (∀ x, x ∈ l → x.1 = g.time x.2) → (∀ x, x ∈ acc → x.1 = g.time x.2) →
      (l.foldl (fun acc e => insertByTime e acc) acc).map (·.2)
        = (l.map (·.2)).foldl (fun acc c => insertAsc g c acc) (acc.map (·.2)) := by
    intro l
    induction l with
    | nil => intro acc _ _; rfl
    | cons e rest ih =>
      intro acc hl hacc
      simp only [List.foldl_cons, List.map_cons]
      rw [ih _ (fun x hx => hl x (List.mem_cons_of_mem _ hx))]
      · rw [insertByTime_map g e (hl e List.mem_cons_self) acc hacc]
      · intro x hx
        cases List.mem_cons.mp ((insertByTime_perm e acc).subset hx) with
        | inl h => subst h; exact hl _ List.mem_cons_self
        | inr h => exact hacc x h
  have := key l [] hl (by intro x hx; simp at hx)
  simpa [sortByTime, sortAsc] using this

theorem topoBuild_sim (ctx : TCtx E nodes tips ends) (o : OCtx E tips ends sel) (nfuel : Nat)
    (hn : nodes.length < nfuel) :
    ∃ s, topoBuild E nfuel tips ends = .ok s ∧ WInv E nodes tips ends s [] [] [] ∧
      QRel E s (let k0 := kTips E.g sel nodes (dOrd E) tips [] { dq := [], ctr := 0, stack := [] }
                if dOrd E then k0 else { k0 with stack := (sortAsc E.g k0.stack).reverse }) := by
  unfold topoBuild
  dsimp only
  have hreg0 : RegInv E nodes
      ({ indeg := DegMap.empty, states := StateMap.empty, explore := E.qg.empty, indegQ := E.qg.empty,
         dateQ := E.qd.empty, dateCtr := 0, stack := [], minGen := genInfinity } : TS E) [] [] :=
    { reg_nodup := List.nodup_nil
      reg_nodes := by intro x hx; simp at hx
      has_iff := by intro x; simp [StateMap.has, StateMap.empty]
      fl_expl := by intro x hx; simp at hx
      fl_indeg := by intro x hx; simp at hx
      fl_added := by intro x; simp [StateMap.fAdded, StateMap.empty]
      fU_iff := by intro x; simp [StateMap.fU, StateMap.empty]
      deg := by intro x; simp [DegMap.empty]
      eq_ids := by simp [ctx.qg_lawful.items_empty]
      eq_key := by intro e he; rw [ctx.qg_lawful.items_empty] at he; simp at he
      iq_ids := by simp [ctx.qg_lawful.items_empty]
      iq_key := by intro e he; rw [ctx.qg_lawful.items_empty] at he; simp at he
      mingen := by intro x hx; simp at hx
      date_empty := ctx.qd_lawful.items_empty
      stack_empty := rfl }
  obtain ⟨reg, uset, hr, hregm, husm⟩ := registerAll_spec ctx
    (tips.map (fun t => (t, tipFlags)) ++ ends.map (fun e => (e, endFlags))) _ [] [] hreg0 (by
      intro e he
      cases List.mem_append.mp he with
      | inl h' =>
        obtain ⟨t, ht, hte⟩ := List.mem_map.mp h'
        subst hte
        exact ⟨ctx.tips_nodes t ht, Or.inl rfl⟩
      | inr h' =>
        obtain ⟨t, ht, hte⟩ := List.mem_map.mp h'
        subst hte
        exact ⟨ctx.ends_nodes t ht, Or.inr rfl⟩)
  obtain ⟨rf1, rf2, rf3⟩ := registerAll_frame E
    (tips.map (fun t => (t, tipFlags)) ++ ends.map (fun e => (e, endFlags)))
    ({ indeg := DegMap.empty, states := StateMap.empty, explore := E.qg.empty, indegQ := E.qg.empty,
       dateQ := E.qd.empty, dateCtr := 0, stack := [], minGen := genInfinity } : TS E)
  have hregm' : ∀ x, x ∈ reg ↔ x ∈ tips ++ ends := by
    intro x
    rw [hregm]
    simp [List.map_append, List.map_map, Function.comp_def]
  have husm' : ∀ x, x ∈ uset ↔ x ∈ ends := by
    intro x
    rw [husm]
    constructor
    · intro hx
      cases hx with
      | inl h' => simp at h'
      | inr h' =>
        cases List.mem_append.mp h' with
        | inl h'' =>
          obtain ⟨t, _, hte⟩ := List.mem_map.mp h''
          have h2 : tipFlags = endFlags := congrArg Prod.snd hte
          simp [tipFlags, endFlags] at h2
        | inr h'' =>
          obtain ⟨t, ht, hte⟩ := List.mem_map.mp h''
          have h1 : t = x := congrArg Prod.fst hte
          rw [← h1]; exact ht
    · intro hx
      exact Or.inr (List.mem_append_right _ (List.mem_map.mpr ⟨x, hx, rfl⟩))
  obtain ⟨hex1, hn1⟩ := hr.to_inv ctx hregm' husm'
  have hmgreg := hr.mingen
  generalize registerAll E (tips.map (fun t => (t, tipFlags)) ++ ends.map (fun e => (e, endFlags)))
    ({ indeg := DegMap.empty, states := StateMap.empty, explore := E.qg.empty, indegQ := E.qg.empty,
       dateQ := E.qd.empty, dateCtr := 0, stack := [], minGen := genInfinity } : TS E) = s1 at *
  obtain ⟨hex2, hfr2⟩ := markEndParents_spec ctx hex1
  have hn2 := hn1.of_frame hfr2
  obtain ⟨s3, hs3, a1, a2, a3, a4, a5, a6, a7, _⟩ := computeIndegrees_spec ctx nfuel s1.minGen hn nfuel
    { s1 with states := markEndParents E.g ends s1.states } hex2 hn2 (by
      have := hn2.psi_le
      omega)
  have hs3' : computeIndegrees E nfuel
      ({ s1 with states := markEndParents E.g ends s1.states } : TS E).minGen nfuel
      { s1 with states := markEndParents E.g ends s1.states } = .ok s3 := hs3
  rw [hs3']
  dsimp only
  have hw3 : WInv E nodes tips ends s3 [] [] tips := ⟨a1, a2, by
    intro e he
    rw [a4]
    exact a3 e he⟩
  have hdq3 : s3.dateQ = E.qd.empty := by rw [a5]; exact rf1
  have hctr3 : s3.dateCtr = 0 := by rw [a6]; exact rf2
  have hst3 : s3.stack = [] := by rw [a7]; exact rf3
  have htq3 : tqIds E s3 = [] := by
    unfold tqIds
    cases E.cfg.sorting with
    | dateOrder => dsimp only; rw [hdq3, ctx.qd_lawful.items_empty]; rfl
    | topoOrder => dsimp only; rw [hst3]; rfl
  have hq3 : QRel E s3 { dq := [], ctr := 0, stack := [] } := by
    unfold QRel
    cases E.cfg.sorting with
    | dateOrder =>
      dsimp only
      rw [hdq3, ctx.qd_lawful.items_empty, hctr3]
      exact ⟨List.Perm.refl _, rfl, List.nodup_nil, by intro e he; simp at he⟩
    | topoOrder =>
      dsimp only
      rw [hst3]
      exact ⟨rfl, by intro e he; simp at he⟩
  obtain ⟨s4, hs4, hw4, hq4⟩ := queueTips_sim ctx o tips NatSet.empty [] s3 _ hw3
    (by intro x; rw [htq3]; simp [NatSet.empty]) (by intro x; simp [NatSet.empty]) (fun t ht => ht)
    (by
      intro t ht
      rw [a4]
      exact hmgreg t ((hregm' t).mpr (List.mem_append_left _ ht)))
    hq3
  rw [hs4]
  dsimp only
  refine ⟨_, rfl, ?_, ?_⟩
  · have hperm : (tqIds E { s4 with stack := (sortByTime s4.stack).reverse }).Perm (tqIds E s4) := by
      unfold tqIds
      cases E.cfg.sorting with
      | dateOrder => exact List.Perm.refl _
      | topoOrder =>
        dsimp only
        exact ((List.reverse_perm _).trans (sortByTime_perm s4.stack)).map (·.2)
    exact ⟨hw4.ex.of_states_eq rfl rfl, hw4.n.of_tq_perm rfl rfl rfl rfl hperm, hw4.depth⟩
  · unfold QRel at hq4 ⊢
    unfold dOrd at hq4 ⊢
    cases hs : E.cfg.sorting with
    | dateOrder =>
      rw [hs] at hq4
      dsimp only at hq4 ⊢
      simp only [beq_self_eq_true, if_true]
      exact hq4
    | topoOrder =>
      rw [hs] at hq4
      dsimp only at hq4 ⊢
      have hne : (TopoSorting.topoOrder == TopoSorting.dateOrder) = false := by decide
      simp only [hne, Bool.false_eq_true, if_false] at hq4 ⊢
      refine ⟨?_, ?_⟩
      · rw [List.map_reverse, sortByTime_map E.g s4.stack hq4.2, hq4.1]
      · intro e he
        have := (sortByTime_perm s4.stack).subset (List.mem_reverse.mp he)
        exact hq4.2 e this

/-- The sequence of a topo walk over all parents is the one of git's sort (`Spec.C47.gitKahn`),
whatever the generation numbers are and however the queues break ties. -/
theorem topoWalk_order (ctx : TCtx E nodes tips ends) (o : OCtx E tips ends sel) {n : Nat}
    (hn : nodes.length ≤ n) :
    topoWalk E n tips ends = .ok (gitKahn E.g sel nodes tips (dOrd E) n) := by
  unfold topoWalk gitKahn
  obtain ⟨s, hs, hw, hq⟩ := topoBuild_sim ctx o (n + 1) (by omega)
  rw [hs]
  dsimp only at hq ⊢
  exact topoLoop_sim ctx o (n + 1) (by omega) (n + 1) s _ [] hw hq (by simp; omega)

end

/-! ### the executable selection -/

theorem listPQ_leIntS_lawful : (listPQ leIntS).Lawful := listPQ_lawful _

theorem reachList_spec {g : Dag} {n : Nat} (hcl : Closed g (List.range n)) (pred : Nat → Bool) {xs : List Nat}
    (hxs : ∀ t, t ∈ xs → t ∈ List.range n) (x : Nat) :
    x ∈ reachList g n pred xs ↔ Walkable g false pred xs x := by
  obtain ⟨out, h1, _, h3⟩ := simple_spec (g := g) listPQ_leIntS_lawful
    { pred := pred, sorting := .breadthFirst, firstParent := false } (by intro h; cases h) hcl hxs
    (n := n) (by simp)
  unfold reachList
  rw [h1]
  dsimp only
  rw [h3]
  have : (SimpleCfg.mk pred .breadthFirst false).ok g = pred := by
    funext y; simp [SimpleCfg.ok, SimpleCfg.byTopology]
  rw [this]

/-- `selOf` selects exactly what `git rev-list tips ^hidden` prints -/
theorem selOf_spec {g : Dag} {n : Nat} (hcl : Closed g (List.range n)) {tips hidden : List Nat}
    (htips : ∀ t, t ∈ tips → t ∈ List.range n) (hhid : ∀ t, t ∈ hidden → t ∈ List.range n) (x : Nat) :
    selOf g n tips hidden x = true ↔ RevList g tips hidden x := by
  have hH : ∀ y, y ∈ hiddenList g n hidden ↔ Hidden g hidden y := by
    intro y
    unfold hiddenList
    rw [reachList_spec hcl _ hhid]
    have hacc : HidesAncestors g [] (fun _ => true) := by intro z; simp [Hidden]
    rw [walkable_iff_revList hacc]
    simp [RevList, Hidden]
  have hacc : HidesAncestors g hidden (fun y => !(hiddenList g n hidden).contains y) := by
    intro y
    simp only [Bool.not_eq_true', List.contains_eq_mem, decide_eq_false_iff_not]
    rw [hH]
  unfold selOf
  rw [List.contains_iff_mem, reachList_spec hcl _ htips]
  exact walkable_iff_revList hacc x

/-- with all parents walked the commits the topo walk is to return are those of
`git rev-list tips ^ends` -/
theorem revList_iff_vis {E : TopoEnv} {tips ends : List Nat} (hall : E.cfg.firstParent = false) (x : Nat) :
    RevList E.g tips ends x ↔ (Rch E tips ends x ∧ ¬ Hid E ends x) := by
  have hwalk : ∀ c, walkParents E c = E.g.parents c := by
    intro c; simp [walkParents, hall]
  have hreach : ∀ a b, Reach E.eg a b ↔ Reach E.g a b := by
    intro a b
    constructor
    · exact eg_reach_g E
    · intro h
      induction h with
      | refl => exact Reach.refl _
      | head hp _ ih =>
        refine Reach.head ?_ ih
        show _ ∈ walkParents E _
        rw [hwalk]; exact hp
  constructor
  · intro ⟨⟨t, ht, hr⟩, hh⟩
    exact ⟨⟨t, List.mem_append_left _ ht, (hreach _ _).mpr hr⟩, hh⟩
  · intro ⟨⟨s, hs, hr⟩, hh⟩
    refine ⟨?_, hh⟩
    cases List.mem_append.mp hs with
    | inl h => exact ⟨s, h, (hreach _ _).mp hr⟩
    | inr h => exact absurd ⟨s, h, eg_reach_g E hr⟩ hh

theorem DateKey.le_total' (a b : DateKey) : DateKey.le a b = false → DateKey.le b a = true :=
  DKey.le_total a b

theorem DateKey.le_trans' (a b c : DateKey) : DateKey.le a b = true → DateKey.le b c = true → DateKey.le a c = true :=
  DKey.le_trans a b c

/-! ### git's sort reads only the parents and the commit times -/

section congr
variable {g₁ g₂ : Dag} (hp : g₁.parents = g₂.parents) (ht : g₁.time = g₂.time)
include hp ht

omit hp in
theorem kPush_congr (d : Bool) (k : KQ) (c : Nat) : kPush g₁ d k c = kPush g₂ d k c := by
  unfold kPush; rw [ht]

omit ht in
theorem ready_congr (sel : Nat → Bool) (nodes outp : List Nat) (p : Nat) :
    ready g₁ sel nodes outp p = ready g₂ sel nodes outp p := by
  unfold ready; rw [hp]

theorem kExpand_congr (sel : Nat → Bool) (nodes : List Nat) (d : Bool) (outp : List Nat) :
    ∀ (l : List Nat) (k : KQ), kExpand g₁ sel nodes d outp l k = kExpand g₂ sel nodes d outp l k := by
  intro l
  induction l with
  | nil => intro k; rfl
  | cons x xs ih =>
    intro k
    unfold kExpand
    rw [ready_congr hp, kPush_congr ht, ih, ih]

theorem kLoop_congr (sel : Nat → Bool) (nodes : List Nat) (d : Bool) :
    ∀ (fuel : Nat) (k : KQ) (out : List Nat), kLoop g₁ sel nodes d fuel k out = kLoop g₂ sel nodes d fuel k out := by
  intro fuel
  induction fuel with
  | zero => intro k out; rfl
  | succ f ih =>
    intro k out
    unfold kLoop
    cases kPop d k with
    | none => rfl
    | some r =>
      obtain ⟨c, k1⟩ := r
      dsimp only
      rw [kExpand_congr hp ht, hp, ih]

theorem kTips_congr (sel : Nat → Bool) (nodes : List Nat) (d : Bool) :
    ∀ (l done : List Nat) (k : KQ), kTips g₁ sel nodes d l done k = kTips g₂ sel nodes d l done k := by
  intro l
  induction l with
  | nil => intro done k; rfl
  | cons x xs ih =>
    intro done k
    unfold kTips
    rw [ready_congr hp, kPush_congr ht, ih, ih]

omit hp in
theorem insertAsc_congr (c : Nat) : ∀ (l : List Nat), insertAsc g₁ c l = insertAsc g₂ c l := by
  intro l
  induction l with
  | nil => rfl
  | cons x xs ih => unfold insertAsc; rw [ht, ih]

omit hp in
theorem sortAsc_congr (l : List Nat) : sortAsc g₁ l = sortAsc g₂ l := by
  unfold sortAsc
  have : (fun acc c => insertAsc g₁ c acc) = (fun acc c => insertAsc g₂ c acc) := by
    funext acc c; exact insertAsc_congr ht c acc
  rw [this]

theorem gitKahn_congr (sel : Nat → Bool) (nodes tips : List Nat) (d : Bool) (n : Nat) :
    gitKahn g₁ sel nodes tips d n = gitKahn g₂ sel nodes tips d n := by
  unfold gitKahn
  dsimp only
  rw [kTips_congr hp ht, sortAsc_congr ht]
  exact kLoop_congr hp ht sel nodes d _ _ _

omit ht in
theorem revList_congr (tips hidden : List Nat) (x : Nat) : RevList g₁ tips hidden x ↔ RevList g₂ tips hidden x := by
  have h12 : ∀ a b, Reach g₁ a b → Reach g₂ a b := by
    intro a b h
    induction h with
    | refl => exact Reach.refl _
    | head hpar _ ih => exact Reach.head (hp ▸ hpar) ih
  have h21 : ∀ a b, Reach g₂ a b → Reach g₁ a b := by
    intro a b h
    induction h with
    | refl => exact Reach.refl _
    | head hpar _ ih => exact Reach.head (hp.symm ▸ hpar) ih
  constructor
  · intro ⟨⟨t, ht, hr⟩, hh⟩
    exact ⟨⟨t, ht, h12 _ _ hr⟩, fun ⟨e, he, hre⟩ => hh ⟨e, he, h21 _ _ hre⟩⟩
  · intro ⟨⟨t, ht, hr⟩, hh⟩
    exact ⟨⟨t, ht, h21 _ _ hr⟩, fun ⟨e, he, hre⟩ => hh ⟨e, he, h12 _ _ hre⟩⟩

end congr

end GixModel.C47
