import GixModel.Basic.Tree
/-
Order facts about gitoxide's tree-entry comparison (shared by C03, C04, C44).

Main results
* `cmpNames_eq_rec`      the slice-based Rust body = a structural recursion over both names
* `cmpNames_eq_key`      for slash-free names it is the plain lexicographic order of
                         `key = name ++ (if tree then "/" else "")`
* `cmpBytes_*`           lexicographic order on bytes is a strict total order
* `sortBy_perm`, `sortBy_sorted`   the stable insertion sort sorts
* `binarySearchBy_spec`  Rust's `binary_search_by` loop meets its documented contract
-/
namespace GixModel.Tree
open GixModel

/-! ### bytes: lexicographic order -/

theorem u8_eq_of_not_lt {a b : UInt8} (h1 : ¬ a < b) (h2 : ¬ b < a) : a = b := by
  apply UInt8.le_antisymm <;> simp_all [UInt8.not_lt]

theorem cmpBytes_refl (a : Bytes) : cmpBytes a a = .eq := by
  induction a with
  | nil => rfl
  | cons x xs ih => simp [cmpBytes, UInt8.lt_irrefl, ih]

theorem cmpBytes_eq {a b : Bytes} (h : cmpBytes a b = .eq) : a = b := by
  induction a generalizing b with
  | nil => cases b with
    | nil => rfl
    | cons y ys => simp [cmpBytes] at h
  | cons x xs ih => cases b with
    | nil => simp [cmpBytes] at h
    | cons y ys =>
      simp only [cmpBytes] at h
      by_cases h1 : x < y
      · simp [h1] at h
      · by_cases h2 : y < x
        · simp [h1, h2] at h
        · simp only [h1, h2, if_false] at h
          rw [u8_eq_of_not_lt h1 h2, ih h]

theorem cmpBytes_swap (a b : Bytes) : (cmpBytes a b).swap = cmpBytes b a := by
  induction a generalizing b with
  | nil => cases b <;> rfl
  | cons x xs ih => cases b with
    | nil => rfl
    | cons y ys =>
      simp only [cmpBytes]
      by_cases h1 : x < y
      · have := UInt8.lt_asymm h1
        simp [h1, this]
      · by_cases h2 : y < x
        · simp [h1, h2]
        · simp [h1, h2, ih]

theorem cmpBytes_gt_iff {a b : Bytes} : cmpBytes a b = .gt ↔ cmpBytes b a = .lt := by
  rw [← cmpBytes_swap b a]; cases cmpBytes b a <;> simp [Ordering.swap]

theorem cmpBytes_trans {a b c : Bytes} (h1 : cmpBytes a b = .lt) (h2 : cmpBytes b c = .lt) :
    cmpBytes a c = .lt := by
  induction a generalizing b c with
  | nil => cases c with
    | nil => cases b <;> simp [cmpBytes] at h1 h2
    | cons z zs => rfl
  | cons x xs ih =>
    cases b with
    | nil => simp [cmpBytes] at h1
    | cons y ys =>
      cases c with
      | nil => simp [cmpBytes] at h2
      | cons z zs =>
        simp only [cmpBytes] at h1 h2 ⊢
        by_cases hxy : x < y
        · by_cases hyz : y < z
          · simp [UInt8.lt_trans hxy hyz]
          · by_cases hzy : z < y
            · simp [hyz, hzy] at h2
            · have := u8_eq_of_not_lt hyz hzy; subst this; simp [hxy]
        · by_cases hyx : y < x
          · simp [hxy, hyx] at h1
          · have := u8_eq_of_not_lt hxy hyx; subst this
            simp only [hxy, if_false] at h1
            by_cases hyz : x < z
            · simp [hyz]
            · by_cases hzy : z < x
              · simp [hyz, hzy] at h2
              · simp only [hyz, hzy, if_false] at h2 ⊢
                exact ih h1 h2

/-! ### the Rust comparison as a structural recursion -/

def treeByte (t : Bool) : Option UInt8 := if t then some 47 else none

def cmpRec : Bytes → Bool → Bytes → Bool → Ordering
  | [], t1, [], t2 => cmpOptByte (treeByte t1) (treeByte t2)
  | [], t1, b :: _, _ => cmpOptByte (treeByte t1) (some b)
  | a :: _, _, [], t2 => cmpOptByte (some a) (treeByte t2)
  | a :: as, t1, b :: bs, t2 =>
    if a < b then .lt else if b < a then .gt else cmpRec as t1 bs t2

theorem cmpNames_eq_rec (n1 : Bytes) (t1 : Bool) (n2 : Bytes) (t2 : Bool) :
    cmpNames n1 t1 n2 t2 = cmpRec n1 t1 n2 t2 := by
  induction n1 generalizing n2 with
  | nil =>
    cases n2 with
    | nil => simp [cmpNames, cmpRec, cmpBytes, nextByte, treeByte, Ordering.then]
    | cons b bs => simp [cmpNames, cmpRec, cmpBytes, nextByte, treeByte, Ordering.then]
  | cons a as ih =>
    cases n2 with
    | nil => simp [cmpNames, cmpRec, cmpBytes, nextByte, treeByte, Ordering.then]
    | cons b bs =>
      have := ih bs
      simp only [cmpNames, List.length_cons, Nat.succ_min_succ, List.take_succ_cons, cmpBytes,
        nextByte, List.getElem?_cons_succ, cmpRec, Nat.succ_eq_add_one] at this ⊢
      by_cases h1 : a < b
      · simp [h1, Ordering.then]
      · by_cases h2 : b < a
        · simp [h1, h2, Ordering.then]
        · simp only [h1, h2, if_false]; exact this

theorem cmpOptByte_swap (a b : Option UInt8) : (cmpOptByte a b).swap = cmpOptByte b a := by
  cases a with
  | none => cases b <;> rfl
  | some x => cases b with
    | none => rfl
    | some y =>
      simp only [cmpOptByte]
      by_cases h1 : x < y
      · have := UInt8.lt_asymm h1
        simp [h1, this]
      · by_cases h2 : y < x
        · simp [h1, h2]
        · simp [h1, h2]

/-- the comparison is antisymmetric as a function for ALL names (no side condition) -/
theorem cmpRec_swap (n1 : Bytes) (t1 : Bool) (n2 : Bytes) (t2 : Bool) :
    (cmpRec n1 t1 n2 t2).swap = cmpRec n2 t2 n1 t1 := by
  induction n1 generalizing n2 with
  | nil => cases n2 <;> simp [cmpRec, cmpOptByte_swap]
  | cons a as ih =>
    cases n2 with
    | nil => simp [cmpRec, cmpOptByte_swap]
    | cons b bs =>
      simp only [cmpRec]
      by_cases h1 : a < b
      · have := UInt8.lt_asymm h1
        simp [h1, this]
      · by_cases h2 : b < a
        · simp [h1, h2]
        · simp [h1, h2, ih]

theorem cmpNames_swap (n1 : Bytes) (t1 : Bool) (n2 : Bytes) (t2 : Bool) :
    (cmpNames n1 t1 n2 t2).swap = cmpNames n2 t2 n1 t1 := by
  rw [cmpNames_eq_rec, cmpNames_eq_rec, cmpRec_swap]

theorem entryCmp_swap (a b : Entry) : (entryCmp a b).swap = entryCmp b a :=
  cmpNames_swap _ _ _ _

/-! ### key: the name with the implicit trailing slash of trees -/

def key (name : Bytes) (isTree : Bool) : Bytes := name ++ (if isTree then [47] else [])

def Entry.key (e : Entry) : Bytes := GixModel.Tree.key e.name e.isTree

def SlashFree (n : Bytes) : Prop := ∀ b ∈ n, b ≠ 47

instance (n : Bytes) : Decidable (SlashFree n) := by unfold SlashFree; infer_instance

theorem SlashFree.tail {a : UInt8} {as : Bytes} (h : SlashFree (a :: as)) : SlashFree as :=
  fun b hb => h b (List.mem_cons_of_mem _ hb)

theorem cmpRec_eq_key (n1 : Bytes) (t1 : Bool) (n2 : Bytes) (t2 : Bool)
    (h1 : SlashFree n1) (h2 : SlashFree n2) :
    cmpRec n1 t1 n2 t2 = cmpBytes (key n1 t1) (key n2 t2) := by
  induction n1 generalizing n2 with
  | nil =>
    cases n2 with
    | nil => cases t1 <;> cases t2 <;> simp [cmpRec, key, treeByte, cmpOptByte, cmpBytes, UInt8.lt_irrefl]
    | cons b bs =>
      have hb : b ≠ 47 := h2 b (by simp)
      cases t1
      · simp [cmpRec, key, treeByte, cmpOptByte, cmpBytes]
      · simp only [cmpRec, key, treeByte, cmpOptByte, cmpBytes, if_true, List.nil_append, List.cons_append]
        by_cases hlt : (47 : UInt8) < b
        · simp [hlt]
        · by_cases hgt : b < 47
          · simp [hlt, hgt]
          · exact absurd (u8_eq_of_not_lt hgt hlt) hb
  | cons a as ih =>
    have ha : a ≠ 47 := h1 a (by simp)
    cases n2 with
    | nil =>
      cases t2
      · simp [cmpRec, key, treeByte, cmpOptByte, cmpBytes]
      · simp only [cmpRec, key, treeByte, cmpOptByte, cmpBytes, if_true, List.nil_append, List.cons_append]
        by_cases hlt : a < 47
        · simp [hlt]
        · by_cases hgt : (47 : UInt8) < a
          · simp [hlt, hgt]
          · exact absurd (u8_eq_of_not_lt hlt hgt) ha
    | cons b bs =>
      have := ih bs h1.tail h2.tail
      simp only [cmpRec, key, List.cons_append, cmpBytes] at this ⊢
      rw [this]

theorem cmpNames_eq_key (n1 : Bytes) (t1 : Bool) (n2 : Bytes) (t2 : Bool)
    (h1 : SlashFree n1) (h2 : SlashFree n2) :
    cmpNames n1 t1 n2 t2 = cmpBytes (key n1 t1) (key n2 t2) := by
  rw [cmpNames_eq_rec, cmpRec_eq_key _ _ _ _ h1 h2]

/-- the key determines name and kind when names have no slash -/
theorem key_inj {n1 n2 : Bytes} {t1 t2 : Bool} (h1 : SlashFree n1) (h2 : SlashFree n2)
    (h : key n1 t1 = key n2 t2) : n1 = n2 ∧ t1 = t2 := by
  induction n1 generalizing n2 with
  | nil =>
    cases n2 with
    | nil => cases t1 <;> cases t2 <;> simp [key] at h ⊢
    | cons b bs =>
      have hb : b ≠ 47 := h2 b (by simp)
      cases t1 <;> simp [key] at h
      exact absurd h.1.symm hb
  | cons a as ih =>
    have ha : a ≠ 47 := h1 a (by simp)
    cases n2 with
    | nil =>
      cases t2 <;> simp [key] at h
      exact absurd h.1 ha
    | cons b bs =>
      simp only [key, List.cons_append, List.cons.injEq] at h
      have := ih h1.tail h2.tail (by simpa [key] using h.2)
      simp [h.1, this.1, this.2]

/-! ### entries -/

theorem entryCmp_eq_key {a b : Entry} (ha : SlashFree a.name) (hb : SlashFree b.name) :
    entryCmp a b = cmpBytes a.key b.key := cmpNames_eq_key _ _ _ _ ha hb

/-- strictly ascending in gitoxide's order (what a canonical tree is) -/
def Sorted (l : List Entry) : Prop := l.Pairwise (fun a b => entryCmp a b = .lt)

/-- ascending, `Equal` neighbours allowed (what `sort()` establishes) -/
def SortedLe (l : List Entry) : Prop := l.Pairwise (fun a b => entryCmp a b ≠ .gt)

def NamesOk (l : List Entry) : Prop := ∀ e ∈ l, SlashFree e.name

instance (l : List Entry) : Decidable (NamesOk l) := by unfold NamesOk; infer_instance
instance (l : List Entry) : Decidable (Sorted l) := by unfold Sorted; infer_instance
instance (l : List Entry) : Decidable (SortedLe l) := by unfold SortedLe; infer_instance

theorem cmpBytes_le_trans {a b c : Bytes} (h1 : cmpBytes a b ≠ .gt) (h2 : cmpBytes b c ≠ .gt) :
    cmpBytes a c ≠ .gt := by
  cases hab : cmpBytes a b with
  | gt => exact absurd hab h1
  | eq => rw [cmpBytes_eq hab]; exact h2
  | lt =>
    cases hbc : cmpBytes b c with
    | gt => exact absurd hbc h2
    | eq => rw [← cmpBytes_eq hbc, hab]; simp
    | lt => rw [cmpBytes_trans hab hbc]; simp

/-! ### the stable insertion sort -/

theorem insertBy_perm (cmp : α → α → Ordering) (x : α) (l : List α) :
    (insertBy cmp x l).Perm (x :: l) := by
  induction l with
  | nil => exact List.Perm.refl _
  | cons y ys ih =>
    simp only [insertBy]
    split
    · exact List.Perm.refl _
    · exact (List.Perm.cons y ih).trans (List.Perm.swap x y ys)

theorem foldl_insertBy_perm (cmp : α → α → Ordering) (l acc : List α) :
    (l.foldl (fun acc x => insertBy cmp x acc) acc).Perm (l ++ acc) := by
  induction l generalizing acc with
  | nil => exact List.Perm.refl _
  | cons x xs ih =>
    simp only [List.foldl_cons, List.cons_append]
    refine (ih _).trans ?_
    exact (List.Perm.append_left xs (insertBy_perm cmp x acc)).trans List.perm_middle

theorem sortBy_perm (cmp : α → α → Ordering) (l : List α) : (sortBy cmp l).Perm l := by
  have := foldl_insertBy_perm cmp l []
  simpa [sortBy] using this

theorem insertBy_sortedLe (x : Entry) (l : List Entry) (hx : SlashFree x.name) (hl : NamesOk l)
    (hs : SortedLe l) : SortedLe (insertBy entryCmp x l) := by
  induction l with
  | nil => simp [insertBy, SortedLe]
  | cons y ys ih =>
    have hy : SlashFree y.name := hl y (by simp)
    have hys : NamesOk ys := fun e he => hl e (List.mem_cons_of_mem _ he)
    have hs' := List.pairwise_cons.1 hs
    simp only [insertBy]
    split
    · rename_i hgt
      have hgt : entryCmp y x = .gt := by simpa using hgt
      rw [entryCmp_eq_key hy hx, cmpBytes_gt_iff] at hgt
      refine List.pairwise_cons.2 ⟨?_, hs⟩
      intro z hz
      have hzn : SlashFree z.name := hl z hz
      rw [entryCmp_eq_key hx hzn]
      have hxy : cmpBytes x.key y.key ≠ .gt := by rw [hgt]; simp
      rcases List.mem_cons.1 hz with rfl | hz'
      · exact hxy
      · have := hs'.1 z hz'
        rw [entryCmp_eq_key hy hzn] at this
        exact cmpBytes_le_trans hxy this
    · rename_i hngt
      have hngt : entryCmp y x ≠ .gt := by simpa using hngt
      refine List.pairwise_cons.2 ⟨?_, ih hys hs'.2⟩
      intro z hz
      have hz' := (insertBy_perm entryCmp x ys).subset hz
      rcases List.mem_cons.1 hz' with rfl | hz''
      · exact hngt
      · exact hs'.1 z hz''

theorem foldl_insertBy_sortedLe (l acc : List Entry) (hl : NamesOk l) (ha : NamesOk acc)
    (hs : SortedLe acc) :
    SortedLe (l.foldl (fun acc x => insertBy entryCmp x acc) acc) := by
  induction l generalizing acc with
  | nil => exact hs
  | cons x xs ih =>
    simp only [List.foldl_cons]
    have hx : SlashFree x.name := hl x (by simp)
    refine ih _ (fun e he => hl e (List.mem_cons_of_mem _ he)) ?_ (insertBy_sortedLe x acc hx ha hs)
    intro e he
    rcases List.mem_cons.1 ((insertBy_perm entryCmp x acc).subset he) with rfl | h
    · exact hx
    · exact ha e h

theorem sortEntries_perm (l : List Entry) : (sortEntries l).Perm l := sortBy_perm _ l

theorem sortEntries_sortedLe (l : List Entry) (hl : NamesOk l) : SortedLe (sortEntries l) :=
  foldl_insertBy_sortedLe l [] hl (fun _ h => by simp at h) (by simp [SortedLe])

/-- ascending + pairwise distinct keys = strictly ascending -/
theorem sorted_of_sortedLe_nodup {l : List Entry} (hl : NamesOk l) (hs : SortedLe l)
    (hn : (l.map Entry.key).Nodup) : Sorted l := by
  induction l with
  | nil => simp [Sorted]
  | cons x xs ih =>
    have hs' := List.pairwise_cons.1 hs
    have hn' := List.nodup_cons.1 hn
    refine List.pairwise_cons.2 ⟨?_, ih (fun e he => hl e (List.mem_cons_of_mem _ he)) hs'.2 hn'.2⟩
    intro z hz
    have hle := hs'.1 z hz
    have hx : SlashFree x.name := hl x (by simp)
    have hzn : SlashFree z.name := hl z (List.mem_cons_of_mem _ hz)
    rw [entryCmp_eq_key hx hzn] at hle ⊢
    cases h : cmpBytes x.key z.key with
    | lt => rfl
    | gt => exact absurd h hle
    | eq => exact absurd (List.mem_map.2 ⟨z, hz, (cmpBytes_eq h).symm⟩) hn'.1

theorem sortEntries_sorted (l : List Entry) (hl : NamesOk l) (hn : (l.map Entry.key).Nodup) :
    Sorted (sortEntries l) := by
  have hp := sortEntries_perm l
  refine sorted_of_sortedLe_nodup (fun e he => hl e (hp.subset he)) ?_ ?_
  · exact sortEntries_sortedLe l hl
  · exact (hp.map Entry.key).nodup_iff.2 hn

/-! ### `binary_search_by` -/

/-- the precondition of `binary_search_by`: along the slice `f` goes Less…, Equal…, Greater… -/
def Mono (f : α → Ordering) (l : List α) : Prop :=
  ∀ (i j : Nat) (hi : i < l.length) (hj : j < l.length), i < j →
    (f l[i] = .gt → f l[j] = .gt) ∧ (f l[j] = .lt → f l[i] = .lt)

theorem searchLoop_spec (f : α → Ordering) (l : List α) (hm : Mono f l) :
    ∀ (fuel base size : Nat), 1 ≤ size → base + size ≤ l.length → size ≤ fuel →
      (base = 0 ∨ ∃ h : base < l.length, f l[base] ≠ .gt) →
      (∀ j (h : j < l.length), base + size ≤ j → f l[j] = .gt) →
      ∃ b, searchLoop f l fuel base size = some b ∧ b < l.length ∧
        (b = 0 ∨ ∃ h : b < l.length, f l[b] ≠ .gt) ∧
        (∀ j (h : j < l.length), b < j → f l[j] = .gt) := by
  intro fuel
  induction fuel with
  | zero => intro base size h1 _ h3; omega
  | succ fuel ih =>
    intro base size h1 h2 h3 hA hB
    unfold searchLoop
    by_cases hs : size > 1
    · simp only [hs, if_true]
      have hmid : base + size / 2 < l.length := by omega
      rw [List.getElem?_eq_getElem hmid]
      simp only
      by_cases hg : f l[base + size / 2] = .gt
      · simp only [hg, beq_self_eq_true, if_true]
        refine ih base (size - size / 2) (by omega) (by omega) (by omega) hA ?_
        intro j hj hle
        by_cases hjm : j = base + size / 2
        · subst hjm; exact hg
        · exact (hm (base + size / 2) j hmid hj (by omega)).1 hg
      · have hg' : (f l[base + size / 2] == Ordering.gt) = false := by
          cases h : f l[base + size / 2] <;> simp_all
        simp only [hg', Bool.false_eq_true, if_false]
        refine ih (base + size / 2) (size - size / 2) (by omega) (by omega) (by omega)
          (Or.inr ⟨hmid, hg⟩) ?_
        intro j hj hle
        exact hB j hj (by omega)
    · simp only [hs, if_false]
      have : size = 1 := by omega
      subst this
      exact ⟨base, rfl, by omega, hA, fun j hj hlt => hB j hj (by omega)⟩

/-- Rust's `binary_search_by` meets its documented contract on every slice satisfying its
precondition, and never reads out of bounds. -/
theorem binarySearchBy_spec (l : List α) (f : α → Ordering) (hm : Mono f l) :
    match binarySearchBy l f with
    | .found i => ∃ h : i < l.length, f l[i] = .eq
    | .insertAt i => i ≤ l.length ∧ (∀ j (h : j < l.length), j < i → f l[j] = .lt) ∧
        (∀ j (h : j < l.length), i ≤ j → f l[j] = .gt)
    | .oob => False := by
  unfold binarySearchBy
  by_cases h0 : l.length = 0
  · simp only [h0, beq_self_eq_true, if_true]
    exact ⟨by omega, fun j h => by omega, fun j h => by omega⟩
  · have h0' : (l.length == 0) = false := by simpa using h0
    simp only [h0', Bool.false_eq_true, if_false]
    obtain ⟨b, hb, hlt, hA, hB⟩ := searchLoop_spec f l hm l.length 0 l.length (by omega) (by omega)
      (by omega) (Or.inl rfl) (fun j hj hle => by omega)
    rw [hb]
    simp only
    rw [List.getElem?_eq_getElem hlt]
    simp only
    cases hc : f l[b] with
    | eq => exact ⟨hlt, hc⟩
    | lt =>
      refine ⟨by omega, ?_, fun j hj hle => hB j hj (by omega)⟩
      intro j hj hjb
      by_cases hjb' : j = b
      · subst hjb'; exact hc
      · exact (hm j b hj hlt (by omega)).2 hc
    | gt =>
      have hb0 : b = 0 := by
        rcases hA with h | ⟨_, h⟩
        · exact h
        · exact absurd hc h
      subst hb0
      refine ⟨by omega, fun j hj hj0 => by omega, ?_⟩
      intro j hj _
      by_cases hj0 : j = 0
      · subst hj0; exact hc
      · exact hB j hj (by omega)

/-- the loop of `binary_search_by` stays inside the slice for EVERY comparator (no precondition) -/
theorem searchLoop_inbounds (f : α → Ordering) (l : List α) :
    ∀ (fuel base size : Nat), 1 ≤ size → base + size ≤ l.length →
      ∃ b, searchLoop f l fuel base size = some b ∧ b < l.length := by
  intro fuel
  induction fuel with
  | zero => intro base size h1 h2; exact ⟨base, rfl, by omega⟩
  | succ fuel ih =>
    intro base size h1 h2
    unfold searchLoop
    by_cases hs : size > 1
    · simp only [hs, if_true]
      have hmid : base + size / 2 < l.length := by omega
      rw [List.getElem?_eq_getElem hmid]
      simp only
      split
      · exact ih base (size - size / 2) (by omega) (by omega)
      · exact ih (base + size / 2) (size - size / 2) (by omega) (by omega)
    · simp only [hs, if_false]
      exact ⟨base, rfl, by omega⟩

theorem binarySearchBy_ne_oob (l : List α) (f : α → Ordering) : binarySearchBy l f ≠ .oob := by
  unfold binarySearchBy
  by_cases h0 : l.length = 0
  · simp [h0]
  · have h0' : (l.length == 0) = false := by simpa using h0
    simp only [h0', Bool.false_eq_true, if_false]
    obtain ⟨b, hb, hlt⟩ := searchLoop_inbounds f l l.length 0 l.length (by omega) (by omega)
    rw [hb]
    simp only
    rw [List.getElem?_eq_getElem hlt]
    simp only
    cases f l[b] <;> simp

theorem sorted_keys_nodup {l : List Entry} (hl : NamesOk l) (hs : Sorted l) :
    (l.map Entry.key).Nodup := by
  induction l with
  | nil => simp
  | cons x xs ih =>
    have hs' := List.pairwise_cons.1 hs
    have hxs : NamesOk xs := fun e he => hl e (List.mem_cons_of_mem _ he)
    simp only [List.map_cons, List.nodup_cons]
    refine ⟨?_, ih hxs hs'.2⟩
    intro hmem
    obtain ⟨z, hz, hk⟩ := List.mem_map.1 hmem
    have hlt := hs'.1 z hz
    rw [entryCmp_eq_key (hl x (by simp)) (hxs z hz), ← hk, cmpBytes_refl] at hlt
    cases hlt

/-- a strictly sorted list of slash-free entries is partitioned by comparison with any slash-free probe -/
theorem mono_of_sorted {l : List Entry} (hl : NamesOk l) (hs : Sorted l) (n : Bytes) (d : Bool)
    (hn : SlashFree n) : Mono (fun e => cmpNames e.name e.isTree n d) l := by
  intro i j hi hj hij
  have hlt := (List.pairwise_iff_getElem.1 hs) i j hi hj hij
  have hni := hl l[i] (List.getElem_mem hi)
  have hnj := hl l[j] (List.getElem_mem hj)
  rw [entryCmp_eq_key hni hnj] at hlt
  simp only [cmpNames_eq_key _ _ _ _ hni hn, cmpNames_eq_key _ _ _ _ hnj hn]
  constructor
  · intro hg
    rw [cmpBytes_gt_iff] at hg ⊢
    exact cmpBytes_trans hg hlt
  · intro hl'
    exact cmpBytes_trans hlt hl'

end GixModel.Tree
