import GixModel.Model.C09M
import GixModel.Lemmas.C14Access
/-
C09 helper lemmas, part 13: `multi_index::File::at` never panics on any byte string, and on every
multi-pack-index it accepts the accessors are total — except, exactly, for an offset entry whose
large-offset index points past the end of the file.
-/
namespace GixModel.C09M
open GixModel
open GixModel.C09 (readU32 readU64 slice readFan lookupWith cmpBytes HIGH_BIT fanBounds bisect)
open GixModel.C14 (Chunk ChunkIn tocParse findChunk chunkBytes tocParse_total readFan_total findChunk_mem
  chunkBytes_ok readU32_of_length readU64_of_length slice_ok fanMonotone_le bisect_total)

/-- what `MidxFile.at` guarantees -/
structure MAccepted (f : MidxFile) : Prop where
  fanLen : f.fan.length = 256
  mono : C14.fanMonotone f.fan = true
  count : f.fan[255]? = some f.numObjects
  lookupIn : f.lookupOfs + f.numObjects * 20 ≤ f.data.length
  offsetsIn : f.offsetsOfs + f.numObjects * 8 ≤ f.data.length

theorem MidxFile.fromChunks_total (data : Bytes) (ni : Nat) (chunks : List Chunk)
    (hin : ∀ c ∈ chunks, ChunkIn data.length c) (hne : chunks ≠ []) :
    ∃ r, MidxFile.fromChunks data ni chunks = some r ∧ ∀ f, r = .ok f → f.data = data ∧ MAccepted f := by
  unfold MidxFile.fromChunks
  cases hpn : findChunk chunks PNAM with
  | none => exact ⟨_, rfl, by intro f h; cases h⟩
  | some pn =>
    obtain ⟨pnb, hpnb, _⟩ := chunkBytes_ok (hin pn (findChunk_mem hpn))
    simp only [hpnb]
    cases hnm : parseNames pnb ni with
    | none => exact ⟨_, rfl, by intro f h; cases h⟩
    | some names =>
      simp only []
      cases hfo : findChunk chunks OIDF with
      | none => exact ⟨_, rfl, by intro f h; cases h⟩
      | some fo =>
        simp only []
        by_cases hfs : fo.stop - fo.start ≠ 1024
        · rw [if_pos hfs]; exact ⟨_, rfl, by intro f h; cases h⟩
        · rw [if_neg hfs]
          have hfoin := hin fo (findChunk_mem hfo)
          obtain ⟨fan, hfan, hfl, _⟩ := readFan_total 256 (data.drop fo.start)
            (by simp only [List.length_drop]; have := hfoin.1; have := hfoin.2; omega)
          have h255 : fan[255]? = some fan[255] := List.getElem?_eq_getElem (by omega)
          simp only [hfan]
          by_cases hm : (!C14.fanMonotone fan) = true
          · rw [if_pos hm]; exact ⟨_, rfl, by intro f h; cases h⟩
          · rw [if_neg hm]
            simp only [h255]
            cases hol : findChunk chunks OIDL with
            | none => exact ⟨_, rfl, by intro f h; cases h⟩
            | some ol =>
              simp only []
              by_cases hos : (ol.stop - ol.start) / 20 ≠ fan[255]
              · rw [if_pos hos]; exact ⟨_, rfl, by intro f h; cases h⟩
              · rw [if_neg hos]
                cases hoo : findChunk chunks OOFF with
                | none => exact ⟨_, rfl, by intro f h; cases h⟩
                | some oo =>
                  simp only []
                  by_cases hoos : (if fan[255] = 0 then oo.stop ≠ oo.start else (oo.stop - oo.start) / fan[255] ≠ 8)
                  · rw [if_pos hoos]; exact ⟨_, rfl, by intro f h; cases h⟩
                  · rw [if_neg hoos]
                    have holin := hin ol (findChunk_mem hol)
                    have hooin := hin oo (findChunk_mem hoo)
                    have hlook : ol.start + fan[255] * 20 ≤ data.length := by
                      have := holin.1; have := holin.2; omega
                    have hoffs : oo.start + fan[255] * 8 ≤ data.length := by
                      have := hooin.1; have := hooin.2
                      by_cases hn0 : fan[255] = 0
                      · rw [hn0]; omega
                      · rw [if_neg hn0] at hoos
                        have hd : (oo.stop - oo.start) / fan[255] = 8 := by omega
                        have := Nat.div_mul_le_self (oo.stop - oo.start) fan[255]
                        rw [hd] at this
                        omega
                    obtain ⟨lastc, hlast⟩ : ∃ c, chunks.getLast? = some c := by
                      cases hc : chunks.getLast? with
                      | none => exact absurd (List.getLast?_eq_none_iff.mp hc) hne
                      | some c => exact ⟨c, rfl⟩
                    have hlin := hin lastc (List.mem_of_getLast? hlast)
                    have hnot : ¬ lastc.stop > data.length := by have := hlin.2; omega
                    cases hlo : findChunk chunks LOFF with
                    | none =>
                      simp only [hlast]
                      rw [if_neg hnot]
                      by_cases ht : data.length - lastc.stop ≠ 20
                      · rw [if_pos ht]; exact ⟨_, rfl, by intro f h; cases h⟩
                      · rw [if_neg ht]
                        refine ⟨_, rfl, ?_⟩
                        intro f h; injection h with h; subst h
                        exact ⟨rfl, hfl, by simpa using hm, h255, hlook, hoffs⟩
                    | some lo =>
                      simp only []
                      by_cases hls : (lo.stop - lo.start) % 8 ≠ 0
                      · rw [if_pos hls]; exact ⟨_, rfl, by intro f h; cases h⟩
                      · rw [if_neg hls]
                        simp only [hlast]
                        rw [if_neg hnot]
                        by_cases ht : data.length - lastc.stop ≠ 20
                        · rw [if_pos ht]; exact ⟨_, rfl, by intro f h; cases h⟩
                        · rw [if_neg ht]
                          refine ⟨_, rfl, ?_⟩
                          intro f h; injection h with h; subst h
                          exact ⟨rfl, hfl, by simpa using hm, h255, hlook, hoffs⟩

/-- `multi_index::File::at` is total on every byte string -/
theorem MidxFile.at_total (data : Bytes) :
    ∃ r, MidxFile.at data = some r ∧ ∀ f, r = .ok f → f.data = data ∧ MAccepted f := by
  unfold MidxFile.at
  by_cases h1 : data.length < 12 + 5 * 12 + 1024 + 20
  · rw [if_pos h1]; exact ⟨_, rfl, by intro f h; cases h⟩
  · rw [if_neg h1]
    by_cases h2 : data.take 4 ≠ [77, 73, 68, 88]
    · rw [if_pos h2]; exact ⟨_, rfl, by intro f h; cases h⟩
    · rw [if_neg h2]
      have g4 : data[4]? = some data[4] := List.getElem?_eq_getElem (by omega)
      have g5 : data[5]? = some data[5] := List.getElem?_eq_getElem (by omega)
      have g6 : data[6]? = some data[6] := List.getElem?_eq_getElem (by omega)
      obtain ⟨nb, hnb, hnbl⟩ := slice_ok (d := data) (p := 8) (l := 4) (by omega)
      obtain ⟨ni, hni, _⟩ := readU32_of_length hnbl
      simp only [g4, g5, g6, hnb, Option.bind_some, hni]
      by_cases h3 : data[4].toNat ≠ 1
      · rw [if_pos h3]; exact ⟨_, rfl, by intro f h; cases h⟩
      · rw [if_neg h3]
        by_cases h4 : data[5].toNat ≠ 1
        · rw [if_pos h4]; exact ⟨_, rfl, by intro f h; cases h⟩
        · rw [if_neg h4]
          obtain ⟨r, hr, hr2⟩ := tocParse_total data 12 data[6].toNat (by omega)
          simp only [hr]
          cases r with
          | error e => exact ⟨_, rfl, by intro f h; cases h⟩
          | ok chunks =>
            obtain ⟨hin, hne⟩ := hr2 chunks rfl
            exact MidxFile.fromChunks_total data ni chunks hin hne

/-! ### accessors -/

theorem MidxFile.oidAt_total {f : MidxFile} (h : MAccepted f) {i : Nat} (hi : i < f.numObjects) :
    ∃ b, f.oidAt i = some b ∧ b.length = 20 := by
  have hmul : (i + 1) * 20 ≤ f.numObjects * 20 := Nat.mul_le_mul_right 20 hi
  have := h.lookupIn
  simp only [MidxFile.oidAt, hi, if_true]
  exact slice_ok (by omega)

theorem MidxFile.lookup_total {f : MidxFile} (h : MAccepted f) (hsmall : f.numObjects < 2147483648)
    (id : Bytes) (hid : id ≠ []) :
    ∃ r, f.lookup id = some r ∧ ∀ i, r = some i → i < f.numObjects := by
  obtain ⟨b, t, rfl⟩ : ∃ b t, id = b :: t := by
    cases id with
    | nil => exact absurd rfl hid
    | cons b t => exact ⟨b, t, rfl⟩
  have hb : b.toNat < 256 := b.toNat_lt
  have hn' : f.fan[255]'(by rw [h.fanLen]; omega) = f.numObjects := by
    have := h.count
    rw [List.getElem?_eq_getElem (by rw [h.fanLen]; omega)] at this; injection this
  have hhi : f.fan[b.toNat]? = some (f.fan[b.toNat]'(by rw [h.fanLen]; exact hb)) :=
    List.getElem?_eq_getElem (by rw [h.fanLen]; exact hb)
  have hhile : f.fan[b.toNat]'(by rw [h.fanLen]; exact hb) ≤ f.numObjects := by
    rw [← hn']; exact fanMonotone_le f.fan h.mono _ _ (by omega) (by rw [h.fanLen]; omega)
  have hat : ∀ i, i < f.fan[b.toNat]'(by rw [h.fanLen]; exact hb) → ∃ m, f.oidAt i = some m := by
    intro i hi
    obtain ⟨m, hm, _⟩ := MidxFile.oidAt_total h (i := i) (by omega)
    exact ⟨m, hm⟩
  have hlo : ∃ lo, fanBounds f.fan b.toNat = some (lo, f.fan[b.toNat]'(by rw [h.fanLen]; exact hb)) := by
    unfold fanBounds
    by_cases h0 : b.toNat ≠ 0
    · have : f.fan[b.toNat - 1]? = some (f.fan[b.toNat - 1]'(by rw [h.fanLen]; omega)) :=
        List.getElem?_eq_getElem (by rw [h.fanLen]; omega)
      exact ⟨f.fan[b.toNat - 1]'(by rw [h.fanLen]; omega),
        by simp only [hhi, h0, ne_eq, not_false_eq_true, if_true, this, Option.bind_eq_bind, Option.bind_some]⟩
    · exact ⟨0, by simp only [hhi, h0, if_false, Option.bind_eq_bind, Option.bind_some]⟩
  obtain ⟨lo, hlo⟩ := hlo
  obtain ⟨r, hr, hr2⟩ := bisect_total (c := fun m => some (cmpBytes (b :: t) m)) (oidAt := f.oidAt)
    (fun m => ⟨_, rfl⟩) (f.fan[b.toNat]'(by rw [h.fanLen]; exact hb) - lo) lo _ hat (Nat.le_refl _) (by omega)
  refine ⟨r, ?_, fun i hl => by have := hr2 i hl; omega⟩
  simp only [MidxFile.lookup, lookupWith, List.head?_cons, hlo, Option.bind_eq_bind, Option.bind_some]
  exact hr

/-- `pack_id_and_pack_offset_at_index` on an accepted file: it succeeds unless — exactly — the entry
has the high bit, the file has a large-offset chunk and the slot it names lies past the end of the file -/
theorem MidxFile.packAndOffsetAt_spec {f : MidxFile} (h : MAccepted f) {i : Nat} (hi : i < f.numObjects) :
    ∃ pk v, (slice f.data (f.offsetsOfs + i * 8) 4).bind readU32 = some pk ∧
      (slice f.data (f.offsetsOfs + i * 8 + 4) 4).bind readU32 = some v ∧
      ((∃ r, f.packAndOffsetAt i = some r) ↔
        ¬ (v &&& HIGH_BIT = HIGH_BIT ∧ ∃ lo, f.largeOfs = some lo ∧ ¬ lo + (v ^^^ HIGH_BIT) * 8 + 8 ≤ f.data.length)) := by
  have hmul : (i + 1) * 8 ≤ f.numObjects * 8 := Nat.mul_le_mul_right 8 hi
  have := h.offsetsIn
  obtain ⟨b1, hb1, hl1⟩ := slice_ok (d := f.data) (p := f.offsetsOfs + i * 8) (l := 4) (by omega)
  obtain ⟨b2, hb2, hl2⟩ := slice_ok (d := f.data) (p := f.offsetsOfs + i * 8 + 4) (l := 4) (by omega)
  obtain ⟨pk, hpk, _⟩ := readU32_of_length hl1
  obtain ⟨v, hv, _⟩ := readU32_of_length hl2
  have e1 : (slice f.data (f.offsetsOfs + i * 8) 4).bind readU32 = some pk := by rw [hb1, Option.bind_some, hpk]
  have e2 : (slice f.data (f.offsetsOfs + i * 8 + 4) 4).bind readU32 = some v := by rw [hb2, Option.bind_some, hv]
  refine ⟨pk, v, e1, e2, ?_⟩
  unfold MidxFile.packAndOffsetAt
  rw [e1, e2]
  simp only []
  by_cases hb : v &&& HIGH_BIT = HIGH_BIT
  · rw [if_pos hb]
    cases hlo : f.largeOfs with
    | none =>
      simp only []
      constructor
      · intro _ hc; obtain ⟨_, lo, hl, _⟩ := hc; cases hl
      · intro _; exact ⟨_, rfl⟩
    | some lo =>
      simp only []
      by_cases hle : lo + (v ^^^ HIGH_BIT) * 8 + 8 ≤ f.data.length
      · obtain ⟨b8, hb8, hl8⟩ := slice_ok (d := f.data) (p := lo + (v ^^^ HIGH_BIT) * 8) (l := 8) (by omega)
        obtain ⟨o, ho⟩ := readU64_of_length hl8
        rw [hb8, Option.bind_some, ho]
        constructor
        · intro _ hc; obtain ⟨_, lo', hl, hn⟩ := hc; injection hl with hl; subst hl; exact hn hle
        · intro _; exact ⟨_, rfl⟩
      · have : slice f.data (lo + (v ^^^ HIGH_BIT) * 8) 8 = none := by
          simp only [slice]; rw [if_neg (by omega)]
        rw [this]
        constructor
        · rintro ⟨r, hr⟩; cases hr
        · intro hn; exact absurd ⟨hb, lo, rfl, hle⟩ hn
  · rw [if_neg hb]
    constructor
    · intro _ hc; exact hb hc.1
    · intro _; exact ⟨_, rfl⟩

end GixModel.C09M
