import GixModel.Lemmas.C39Attr
/-
C39 (round 2) — long magic with `attr:` elements and escaped commas: both sides split `:(…)` into the
same elements (`\,` does not split), read each of them alike, and refuse a second `attr:` alike.
-/
namespace GixModel.Lemmas.C39
open GixModel GixModel.C38 GixModel.C39 GixModel.Spec.C39

/-- an element of the long form: no `,`, no `)`, and backslashes only as `\,` -/
inductive EscWord : Bytes → Prop
  | nil : EscWord []
  | plain (b : UInt8) (w : Bytes) : b ≠ 44 → b ≠ 41 → b ≠ 92 → EscWord w → EscWord (b :: w)
  | comma (w : Bytes) : EscWord w → EscWord (92 :: 44 :: w)

theorem EscWord.of_wordOk : ∀ (w : Bytes), wordOk w → EscWord w := by
  intro w
  induction w with
  | nil => intro _; exact EscWord.nil
  | cons b w ih =>
    intro h
    have hb := h b (by simp)
    exact EscWord.plain b w hb.1 hb.2.1 hb.2.2 (ih fun x hx => h x (by simp [hx]))

theorem EscWord.append {a b : Bytes} (ha : EscWord a) (hb : EscWord b) : EscWord (a ++ b) := by
  induction ha with
  | nil => exact hb
  | plain x w h1 h2 h3 _ ih => exact EscWord.plain x _ h1 h2 h3 ih
  | comma w _ ih => exact EscWord.comma _ ih

theorem EscWord.no_close {w : Bytes} (h : EscWord w) : ∀ b ∈ w, b ≠ 41 := by
  induction h with
  | nil => intro b hb; simp at hb
  | plain x w _ h2 _ _ ih =>
    intro b hb
    rcases List.mem_cons.mp hb with rfl | hb'
    · exact h2
    · exact ih b hb'
  | comma w _ ih =>
    intro b hb
    rcases List.mem_cons.mp hb with rfl | hb'
    · decide
    · rcases List.mem_cons.mp hb' with rfl | hb''
      · decide
      · exact ih b hb''

theorem EscWord.head_ne_close {w : Bytes} (h : EscWord w) : w.head? ≠ some 41 := by
  cases h with
  | nil => simp
  | plain x w _ h2 _ _ => simpa using h2
  | comma w _ => simp

theorem strcspn_esc {w : Bytes} (hw : EscWord w) (c : UInt8) (hc : c = 44 ∨ c = 41) (rest : Bytes) :
    strcspnEscaped (w ++ c :: rest) = w.length := by
  induction hw with
  | nil =>
    have hc92 : c ≠ 92 := by rcases hc with rfl | rfl <;> decide
    rw [List.nil_append, strcspn_cons c rest hc92]
    rcases hc with rfl | rfl <;> simp
  | plain b w h1 h2 h3 _ ih =>
    rw [List.cons_append, strcspn_cons b _ h3]
    have hne : (b == 44 || b == 41) = false := by simp [h1, h2]
    simp only [hne, Bool.false_eq_true, if_false, List.length_cons]
    rw [ih]
    omega
  | comma w _ ih =>
    simp only [List.cons_append]
    rw [strcspnEscaped, ih]
    simp only [List.length_cons]
    omega

theorem splitKwAux_esc {w : Bytes} (hw : EscWord w) : ∀ (prev : UInt8) (acc rest : Bytes), prev ≠ 92 →
    splitKwAux prev acc (w ++ 44 :: rest) = (acc.reverse ++ w) :: splitKwAux 44 [] rest := by
  induction hw with
  | nil =>
    intro prev acc rest hp
    rw [List.nil_append, splitKwAux_cons]
    simp [hp]
  | plain b w h1 _ h3 _ ih =>
    intro prev acc rest _
    rw [List.cons_append, splitKwAux_cons]
    have h44 : (b == 44) = false := by simpa using h1
    simp only [h44, Bool.false_and, Bool.false_eq_true, if_false]
    rw [ih b (b :: acc) rest h3]
    simp
  | comma w _ ih =>
    intro prev acc rest _
    simp only [List.cons_append]
    rw [splitKwAux_cons]
    simp only [show ((92 : UInt8) == 44) = false from by decide, Bool.false_and, Bool.false_eq_true, if_false]
    rw [splitKwAux_cons]
    simp only [show ((92 : UInt8) != 92) = false from by decide, Bool.and_false, Bool.false_eq_true, if_false]
    rw [ih 44 (44 :: 92 :: acc) rest (by decide)]
    simp

theorem splitKwAux_esc_last {w : Bytes} (hw : EscWord w) : ∀ (prev : UInt8) (acc : Bytes), prev ≠ 92 →
    splitKwAux prev acc w = [acc.reverse ++ w] := by
  induction hw with
  | nil => intro prev acc _; simp [splitKwAux]
  | plain b w h1 _ h3 _ ih =>
    intro prev acc _
    rw [splitKwAux_cons]
    have h44 : (b == 44) = false := by simpa using h1
    simp only [h44, Bool.false_and, Bool.false_eq_true, if_false]
    rw [ih b (b :: acc) h3]
    simp
  | comma w _ ih =>
    intro prev acc _
    rw [splitKwAux_cons]
    simp only [show ((92 : UInt8) == 44) = false from by decide, Bool.false_and, Bool.false_eq_true, if_false]
    rw [splitKwAux_cons]
    simp only [show ((92 : UInt8) != 92) = false from by decide, Bool.and_false, Bool.false_eq_true, if_false]
    rw [ih 44 (44 :: 92 :: acc) (by decide)]
    simp

theorem splitKw_join_esc (ws : List Bytes) (hne : ws ≠ []) (hw : ∀ w ∈ ws, EscWord w) :
    ∀ (prev : UInt8), prev ≠ 92 → splitKwAux prev [] (joinComma ws) = ws := by
  induction ws with
  | nil => exact absurd rfl hne
  | cons w ws ih =>
    intro prev hp
    cases ws with
    | nil =>
      simp only [joinComma]
      rw [splitKwAux_esc_last (hw w (by simp)) prev [] hp]
      simp
    | cons w2 more =>
      simp only [joinComma, List.append_assoc, List.singleton_append]
      rw [splitKwAux_esc (hw w (by simp)) prev [] _ hp]
      simp only [List.reverse_nil, List.nil_append]
      congr 1
      exact ih (by simp) (fun x hx => hw x (by simp [hx])) 44 (by decide)

theorem longLoop_esc (f : Nat) (it : Item) (w : Bytes) (hw : EscWord w) (c : UInt8) (hc : c = 44 ∨ c = 41)
    (rest : Bytes) (hne : w ≠ [] ∨ c = 44) :
    longLoop (f + 1) it (w ++ c :: rest) =
      if w.isEmpty then longLoop f it (if c == 44 then rest else c :: rest)
      else (longKeyword it w).bind fun it' => longLoop f it' (if c == 44 then rest else c :: rest) := by
  rw [longLoop_succ]
  have hpos : (w ++ c :: rest).isEmpty = false := by cases w <;> rfl
  have hlen := strcspn_esc hw c hc rest
  have hget : (w ++ c :: rest)[w.length]? = some c := by
    rw [List.getElem?_append_right (Nat.le_refl _)]; simp
  have htake : (w ++ c :: rest).take w.length = w := List.take_left' rfl
  have hdrop0 : (w ++ c :: rest).drop w.length = c :: rest := List.drop_left' rfl
  have hdrop1 : (w ++ c :: rest).drop (w.length + 1) = rest := by
    have : w ++ c :: rest = (w ++ [c]) ++ rest := by simp
    rw [this]; exact List.drop_left' (by simp)
  have hh : ((w ++ c :: rest).head? == some 41) = false := by
    cases w with
    | nil =>
      rcases hne with h | h
      · exact absurd rfl h
      · subst h; simp
    | cons b w' =>
      have := hw.head_ne_close
      simpa using this
  simp only [hpos, Bool.false_eq_true, if_false, hh, hlen, hget, htake, hdrop0, hdrop1]
  have hnext : (if (some c == some (44 : UInt8)) = true then rest else c :: rest) = (if (c == 44) = true then rest else c :: rest) := by
    by_cases h : c = 44
    · simp [h]
    · simp [h]
  rw [hnext]
  cases w with
  | nil => simp
  | cons b w' =>
    simp only [List.length_cons, Nat.add_eq_zero_iff, Nat.succ_ne_self, and_false, beq_iff_eq, if_false, List.isEmpty_cons,
      Bool.false_eq_true]
    cases longKeyword it (b :: w') <;> rfl

theorem longLoop_join_esc (path : Bytes) : ∀ (ws : List Bytes), ws ≠ [] → (∀ w ∈ ws, EscWord w) →
    ∀ (fuel : Nat) (it : Item), ws.length + 1 ≤ fuel →
      longLoop fuel it (joinComma ws ++ 41 :: path) = (gitFold it ws).map fun it' => (it', path) := by
  intro ws
  induction ws with
  | nil => intro h; exact absurd rfl h
  | cons w ws ih =>
    intro _ hw fuel it hf
    have hwk := hw w (by simp)
    cases fuel with
    | zero => omega
    | succ f =>
      cases ws with
      | nil =>
        simp only [joinComma, gitFold]
        cases hwe : w with
        | nil => rw [List.nil_append, longLoop_close]; simp
        | cons b w' =>
          rw [← hwe, longLoop_esc f it w hwk 41 (Or.inr rfl) path (Or.inl (by rw [hwe]; simp))]
          have hie : w.isEmpty = false := by rw [hwe]; rfl
          simp only [hie, Bool.false_eq_true, if_false, show ((41 : UInt8) == 44) = false from by decide]
          cases hk : longKeyword it w with
          | none => rfl
          | some it' =>
            simp only [Option.bind_some, Option.map_some]
            cases f with
            | zero => simp at hf
            | succ f' => rw [longLoop_close]
      | cons w2 more =>
        have hfl : (w2 :: more).length + 1 ≤ f := by simp only [List.length_cons] at hf ⊢; omega
        have ih' := fun it => ih (by simp) (fun x hx => hw x (by simp [hx])) f it hfl
        simp only [joinComma, List.append_assoc, List.singleton_append, List.cons_append]
        rw [longLoop_esc f it w hwk 44 (Or.inl rfl) _ (Or.inr rfl)]
        simp only [beq_self_eq_true, if_true, gitFold]
        by_cases hie : w.isEmpty = true
        · simp only [hie, if_true]
          exact ih' it
        · simp only [hie, Bool.false_eq_true, if_false]
          cases hk : longKeyword it w with
          | none => rfl
          | some it' =>
            simp only [Option.bind_some]
            exact ih' it'

theorem joinComma_no_close_esc (ws : List Bytes) (hw : ∀ w ∈ ws, EscWord w) : ∀ b ∈ joinComma ws, b ≠ 41 := by
  induction ws with
  | nil => intro b hb; simp [joinComma] at hb
  | cons w ws ih =>
    cases ws with
    | nil => intro b hb; exact (hw w (by simp)).no_close b hb
    | cons w2 more =>
      intro b hb
      simp only [joinComma, List.append_assoc, List.singleton_append, List.mem_append, List.mem_cons] at hb
      rcases hb with hb | rfl | hb
      · exact (hw w (by simp)).no_close b hb
      · decide
      · exact ih (fun x hx => hw x (by simp [hx])) b hb

theorem parseLong_join_esc (p : PSpec) (ws : List Bytes) (hne : ws ≠ []) (hw : ∀ w ∈ ws, EscWord w) (path : Bytes) :
    parseLong p (joinComma ws ++ 41 :: path) = (gixFold (some p) ws).map fun p' => (p', path) := by
  unfold parseLong
  have hno := joinComma_no_close_esc ws hw
  have hcont : (joinComma ws ++ 41 :: path).contains 41 = true := by simp
  obtain ⟨ht, hd⟩ := takeWhile_append_stop (joinComma ws) 41 path (fun b => b != 41)
    (fun b hb => by simpa using hno b hb) (by simp)
  simp only [hcont, Bool.not_true, Bool.false_eq_true, if_false, ht, hd, List.drop_succ_cons, List.drop_zero]
  by_cases he : (joinComma ws).isEmpty = true
  · simp only [he, if_true]
    have hj : joinComma ws = [] := by simpa using he
    cases ws with
    | nil => exact absurd rfl hne
    | cons w ws =>
      cases ws with
      | nil =>
        simp only [joinComma] at hj
        subst hj
        rfl
      | cons w2 more => simp [joinComma] at hj
  · simp only [he, Bool.false_eq_true, if_false]
    unfold splitKw
    rw [splitKw_join_esc ws hne hw 0 (by decide), applyKeywords_eq]

/-! ### the elements -/

/-- the body of an `attr:` element the theorem covers: no tab/CR (gitoxide would split there, git
refuses), not only spaces (git then remembers an empty `attr:` and refuses a second one, gitoxide does
not), and it is one element of the long form -/
def AttrBodyOk (body : Bytes) : Prop := BodyOk body ∧ (∃ b ∈ body, b ≠ 32) ∧ EscWord body

/-- the elements of the long form the theorem covers: the flag keywords, the empty element, the bare
`attr`, and `attr:` with a body -/
def LongWord (w : Bytes) : Prop := w ∈ flagWords ∨ ∃ body, w = attrPrefix ++ body ∧ AttrBodyOk body

theorem LongWord.esc {w : Bytes} (h : LongWord w) : EscWord w := by
  rcases h with h | ⟨body, rfl, _, _, hb⟩
  · exact EscWord.of_wordOk w (flagWords_ok w h)
  · exact EscWord.append (EscWord.of_wordOk _ (by intro b hb; simp [attrPrefix] at hb; rcases hb with rfl | rfl | rfl | rfl | rfl <;> decide)) hb

/-- gitoxide's state against git's while the elements are read: both have refused; or gitoxide has and
git is bound to (`literal` with `glob`); or git's item is the one of gitoxide's spec -/
def Rel2 (op : Option PSpec) (oi : Option Item) : Prop :=
  match op, oi with
  | some p, some it => Bare p ∧ it = itemOf p
  | none, some it => (it.literal && it.glob) = true
  | none, none => True
  | some _, none => False

def gitStep (it : Item) (w : Bytes) : Option Item := if w.isEmpty then some it else longKeyword it w

theorem gitFold_cons (it : Item) (w : Bytes) (ws : List Bytes) :
    gitFold it (w :: ws) = (gitStep it w).bind fun it' => gitFold it' ws := by
  simp only [gitFold, gitStep]
  by_cases h : w.isEmpty = true
  · simp [h]
  · simp [h]

theorem rel2_flag (op : Option PSpec) (oi : Option Item) (w : Bytes) (hw : w ∈ flagWords) (h : Rel2 op oi) :
    Rel2 (op.bind fun p => applyKeyword p w) (oi.bind fun it => gitStep it w) := by
  simp only [flagWords, List.mem_cons, List.mem_nil_iff, or_false] at hw
  cases oi with
  | none =>
    cases op with
    | none => trivial
    | some p => exact absurd h (by simp [Rel2])
  | some it =>
    cases op with
    | none =>
      simp only [Rel2] at h
      simp only [Bool.and_eq_true] at h
      rcases hw with rfl | rfl | rfl | rfl | rfl | rfl | rfl <;>
        simp [Rel2, gitStep, longKeyword, attrPrefix, List.isPrefixOf, h.1, h.2]
    | some p =>
      obtain ⟨hb, hit⟩ := h
      subst hit
      obtain ⟨hb1, hb2, hb3⟩ := hb
      rcases hw with rfl | rfl | rfl | rfl | rfl | rfl | rfl
      · exact ⟨⟨hb1, hb2, hb3⟩, rfl⟩
      · exact ⟨⟨hb1, hb2, hb3⟩, rfl⟩
      · exact ⟨⟨hb1, hb2, hb3⟩, rfl⟩
      · exact ⟨⟨hb1, hb2, hb3⟩, rfl⟩
      · exact ⟨⟨hb1, hb2, hb3⟩, rfl⟩
      · simp only [Option.bind_some]
        have happ : applyKeyword p [108, 105, 116, 101, 114, 97, 108]
            = if p.mode = Mode.glob then none else some { p with mode := Mode.literal } := rfl
        have hgit : gitStep (itemOf p) [108, 105, 116, 101, 114, 97, 108] = some { itemOf p with literal := true } := rfl
        rw [happ, hgit]
        by_cases hm : p.mode = Mode.glob
        · simp [hm, Rel2, itemOf]
        · simp only [hm, if_false, Rel2]
          refine ⟨⟨hb1, hb2, hb3⟩, ?_⟩
          unfold itemOf
          simp [hm]
      · simp only [Option.bind_some]
        have happ : applyKeyword p [103, 108, 111, 98]
            = if p.mode = Mode.literal then none else some { p with mode := Mode.glob } := rfl
        have hgit : gitStep (itemOf p) [103, 108, 111, 98] = some { itemOf p with glob := true } := rfl
        rw [happ, hgit]
        by_cases hm : p.mode = Mode.literal
        · simp [hm, Rel2, itemOf]
        · simp only [hm, if_false, Rel2]
          refine ⟨⟨hb1, hb2, hb3⟩, ?_⟩
          unfold itemOf
          simp [hm]

theorem applyKeyword_attr (p : PSpec) (body : Bytes) :
    applyKeyword p (attrPrefix ++ body)
      = if p.attrs.isEmpty then (parseAttributes body).map fun as => { p with attrs := as } else none := by
  unfold applyKeyword
  simp [attrPrefix, List.isPrefixOf]

theorem gitStep_attr (it : Item) (body : Bytes) :
    gitStep it (attrPrefix ++ body) = parsePathspecAttrMatch it body := by
  unfold gitStep longKeyword
  simp [attrPrefix, List.isPrefixOf]

theorem rel2_attr (op : Option PSpec) (oi : Option Item) (body : Bytes) (hbody : AttrBodyOk body) (h : Rel2 op oi) :
    Rel2 (op.bind fun p => applyKeyword p (attrPrefix ++ body)) (oi.bind fun it => gitStep it (attrPrefix ++ body)) := by
  obtain ⟨hbo, hsp, _⟩ := hbody
  have hne : body.isEmpty = false := by
    obtain ⟨b, hb, _⟩ := hsp
    cases body with
    | nil => simp at hb
    | cons _ _ => rfl
  cases oi with
  | none =>
    cases op with
    | none => trivial
    | some p => exact absurd h (by simp [Rel2])
  | some it =>
    simp only [Option.bind_some, gitStep_attr]
    cases op with
    | none =>
      simp only [Rel2] at h
      simp only [Option.bind_none]
      unfold parsePathspecAttrMatch
      by_cases ha : it.hasAttr = true
      · simp [ha, Rel2]
      · simp only [ha, Bool.false_eq_true, if_false, hne]
        cases allSome (((splitOnSpace [] body).filter fun e => !e.isEmpty).map parseAttrMatch) with
        | none => simp [Rel2]
        | some ms => simpa [Rel2] using h
    | some p =>
      obtain ⟨hb, hit⟩ := h
      subst hit
      simp only [Option.bind_some, applyKeyword_attr]
      unfold parsePathspecAttrMatch
      have hha : (itemOf p).hasAttr = !p.attrs.isEmpty := rfl
      by_cases hpa : p.attrs.isEmpty = true
      · simp only [hha, hpa, Bool.not_true, Bool.false_eq_true, if_false, hne, if_true]
        have hpe := parseAttributes_eq body hbo
        simp only [hne, Bool.false_eq_true, if_false] at hpe
        rw [← hpe]
        cases hpa' : parseAttributes body with
        | none => simp [Rel2]
        | some as =>
          have hasne := parseAttributes_ne body hbo hsp as hpa'
          simp only [Option.map_some, Rel2]
          refine ⟨hb, ?_⟩
          unfold itemOf
          have : as.isEmpty = false := by
            cases as with
            | nil => exact absurd rfl hasne
            | cons _ _ => rfl
          simp [this]
      · simp [hha, hpa, Rel2]

theorem rel2_fold (ws : List Bytes) (hws : ∀ w ∈ ws, LongWord w) : ∀ (op : Option PSpec) (oi : Option Item), Rel2 op oi →
    Rel2 (gixFold op ws) (oi.bind fun it => gitFold it ws) := by
  induction ws with
  | nil =>
    intro op oi h
    cases oi <;> cases op <;> exact h
  | cons w ws ih =>
    intro op oi h
    have hstep : Rel2 (op.bind fun p => applyKeyword p w) (oi.bind fun it => gitStep it w) := by
      rcases hws w (by simp) with hf | ⟨body, rfl, hbody⟩
      · exact rel2_flag op oi w hf h
      · exact rel2_attr op oi body hbody h
    have := ih (fun x hx => hws x (by simp [hx])) _ _ hstep
    cases op with
    | none =>
      simp only [Option.bind_none] at this
      rw [gixFold_none] at this ⊢
      cases oi with
      | none => exact this
      | some it =>
        simp only [Option.bind_some] at this ⊢
        rw [gitFold_cons]
        exact this
    | some p =>
      simp only [Option.bind_some] at this
      simp only [gixFold]
      cases oi with
      | none => exact absurd h (by simp [Rel2])
      | some it =>
        simp only [Option.bind_some] at this ⊢
        rw [gitFold_cons]
        exact this

/-- **long magic**, any elements of `LongWord`, any acceptable path part -/
theorem parse_long2 (ws : List Bytes) (hne : ws ≠ []) (hws : ∀ w ∈ ws, LongWord w) (path : Bytes)
    (hc : ∀ p, gixFold (some PSpec.default) ws = some p → PathPartOk p.top path) :
    initItem (58 :: 40 :: (joinComma ws ++ 41 :: path))
      = ((parseSpec (58 :: 40 :: (joinComma ws ++ 41 :: path))).bind normalize).map itemOf := by
  have hw : ∀ w ∈ ws, EscWord w := fun w h => (hws w h).esc
  have hcolon : (58 :: 40 :: (joinComma ws ++ 41 :: path)) ≠ [58] := by simp
  rw [initItem_eq _ (by simp), parseSpec_eq _ (by simp) hcolon]
  have hg : parseElementMagic (58 :: 40 :: (joinComma ws ++ 41 :: path))
      = (gitFold Item.empty ws).map fun it' => (it', path) := by
    unfold parseElementMagic
    simp only
    apply longLoop_join_esc path ws hne hw
    have := length_le_joinComma ws
    simp only [List.length_append, List.length_cons]
    omega
  have hx : parseMagic (58 :: 40 :: (joinComma ws ++ 41 :: path))
      = (gixFold (some PSpec.default) ws).map fun p' => (p', path) := by
    unfold parseMagic
    have hs : parseShort (40 :: (joinComma ws ++ 41 :: path)) false false
        = some (false, false, 40 :: (joinComma ws ++ 41 :: path)) := by
      rw [parseShort.eq_def]
      have : ¬ (40 : UInt8) ∈ unimplementedChars := by decide
      simp [this]
    simp only [hs, afterShort]
    exact parseLong_join_esc _ ws hne hw path
  rw [hg, hx]
  have hrel := rel2_fold ws hws (some PSpec.default) (some Item.empty) ⟨⟨rfl, rfl, rfl⟩, rfl⟩
  simp only [Option.bind_some] at hrel
  cases hgx : gixFold (some PSpec.default) ws with
  | none =>
    rw [hgx] at hrel
    cases hgf : gitFold Item.empty ws with
    | none => rfl
    | some it' =>
      rw [hgf] at hrel
      simp only [Rel2] at hrel
      simp only [Option.map_some, Option.bind_some, Option.map_none, Option.bind_none, finishItem, hrel, if_true]
  | some p =>
    rw [hgx] at hrel
    cases hgf : gitFold Item.empty ws with
    | none => rw [hgf] at hrel; exact absurd hrel (by simp [Rel2])
    | some it' =>
      rw [hgf] at hrel
      obtain ⟨hb, hit⟩ := hrel
      subst hit
      simp only [Option.map_some, Option.bind_some]
      exact finish_general p hb path (hc p hgx)

end GixModel.Lemmas.C39
