import GixModel.Lemmas.C52Num
/-
C52 — directive by directive: what `strftime` writes, `strptime` reads back; then whole format strings.
-/
namespace GixModel.C52
open GixModel GixModel.Civil

structure BrokenOk (b : Broken) : Prop where
  year : b.year.natAbs ≤ 9999
  date : ValidDate b.year b.month b.day
  hour : b.hour ≤ 23
  minute : b.minute ≤ 59
  second : b.second ≤ 59
  weekday : b.weekday < 7
  offset : b.offset.natAbs ≤ 93599

/-- the field a directive sets -/
def upd (it : Item) (b : Broken) (f : Fields) : Fields :=
  match it with
  | .lit _ => f
  | .a => f
  | .Y => { f with year := some b.year }
  | .m => { f with month := some b.month }
  | .b => { f with month := some b.month }
  | .d => { f with day := some b.day }
  | .dNoPad => { f with day := some b.day }
  | .H => { f with hour := some b.hour }
  | .M => { f with minute := some b.minute }
  | .S => { f with second := some b.second }
  | .z => { f with offset := some b.offset }
  | .zColon => { f with offset := some b.offset }

/-- what must follow a directive's text for the parser to stop where the formatter stopped -/
def restOk (it : Item) (rest : Bytes) : Prop :=
  match it with
  | .lit c => isWs c = true → ∀ x r, rest = x :: r → isWs x = false
  | .dNoPad => ∀ x r, rest = x :: r → isDigit x = false
  | .z => rest = []
  | .zColon => rest = []
  | _ => True

theorem daysInMonth_le31 (y : Int) (m : Nat) : daysInMonth y m ≤ 31 := by
  unfold daysInMonth; split <;> (try split) <;> omega

theorem twoDigits_dig (a b : Nat) (ha : a < 10) (hb : b < 10) : twoDigits? [dig a, dig b] = some (a * 10 + b) := by
  have h1 := dig_facts a ha
  have h2 := dig_facts b hb
  simp [twoDigits?, isDigitB, h1.1, h2.1, h1.2.1, h2.2.1]

theorem weekday_item : ∀ w, w < 7 → ∀ (f : Fields) (rest : Bytes),
    (match lower3 (weekdayNames.getD w [] ++ rest) with
     | none => none
     | some (k, r) => (indexOf3 weekdayNames k).map fun _ => (f, r)) = some (f, rest) := by
  intro w hw f rest
  have : w = 0 ∨ w = 1 ∨ w = 2 ∨ w = 3 ∨ w = 4 ∨ w = 5 ∨ w = 6 := by omega
  rcases this with rfl | rfl | rfl | rfl | rfl | rfl | rfl <;> rfl

theorem month_item : ∀ m, 1 ≤ m → m ≤ 12 → ∀ (f : Fields) (rest : Bytes),
    (match lower3 (monthNames.getD (m - 1) [] ++ rest) with
     | none => none
     | some (k, r) => (indexOf3 monthNames k).map fun i => ({ f with month := some (i + 1) }, r)) =
      some ({ f with month := some m }, rest) := by
  intro m h1 h2 f rest
  have : m = 1 ∨ m = 2 ∨ m = 3 ∨ m = 4 ∨ m = 5 ∨ m = 6 ∨ m = 7 ∨ m = 8 ∨ m = 9 ∨ m = 10 ∨ m = 11 ∨ m = 12 := by omega
  rcases this with rfl | rfl | rfl | rfl | rfl | rfl | rfl | rfl | rfl | rfl | rfl | rfl <;> rfl

theorem weekday_name_head : ∀ w, w < 7 → ∃ x r, weekdayNames.getD w [] = x :: r ∧ isWs x = false := by
  intro w hw
  have : w = 0 ∨ w = 1 ∨ w = 2 ∨ w = 3 ∨ w = 4 ∨ w = 5 ∨ w = 6 := by omega
  rcases this with rfl | rfl | rfl | rfl | rfl | rfl | rfl <;> exact ⟨_, _, rfl, by decide⟩

theorem month_name_head : ∀ m, 1 ≤ m → m ≤ 12 → ∃ x r, monthNames.getD (m - 1) [] = x :: r ∧ isWs x = false := by
  intro m h1 h2
  have : m = 1 ∨ m = 2 ∨ m = 3 ∨ m = 4 ∨ m = 5 ∨ m = 6 ∨ m = 7 ∨ m = 8 ∨ m = 9 ∨ m = 10 ∨ m = 11 ∨ m = 12 := by omega
  rcases this with rfl | rfl | rfl | rfl | rfl | rfl | rfl | rfl | rfl | rfl | rfl | rfl <;> exact ⟨_, _, rfl, by decide⟩

def signed (s : UInt8) (v : Nat) : Int := if s == 45 then -(v : Int) else (v : Int)

theorem po_a (s h1 h2 m1 m2 : UInt8) (hh mm : Nat) (hs : s = 43 ∨ s = 45)
    (t1 : twoDigits? [h1, h2] = some hh) (t2 : twoDigits? [m1, m2] = some mm) (a1 : hh ≤ 25) (a2 : mm ≤ 59) :
    parseOffset false [s, h1, h2, m1, m2] = some (signed s (hh * 3600 + mm * 60), []) := by
  have hs' : (s != 43 && s != 45) = false := by rcases hs with rfl | rfl <;> decide
  have b1 : ¬ (hh > 25) := by omega
  have b2 : ¬ (mm > 59) := by omega
  simp [parseOffset, hs', t1, t2, b1, b2, signed]

theorem po_b (s h1 h2 m1 m2 s1 s2 : UInt8) (hh mm ss : Nat) (hs : s = 43 ∨ s = 45)
    (t1 : twoDigits? [h1, h2] = some hh) (t2 : twoDigits? [m1, m2] = some mm) (t3 : twoDigits? [s1, s2] = some ss)
    (g1 : isDigit s1 = true) (g2 : isDigit s2 = true)
    (a1 : hh ≤ 25) (a2 : mm ≤ 59) (a3 : ss ≤ 59) :
    parseOffset false [s, h1, h2, m1, m2, s1, s2] = some (signed s (hh * 3600 + mm * 60 + ss), []) := by
  have hs' : (s != 43 && s != 45) = false := by rcases hs with rfl | rfl <;> decide
  have b1 : ¬ (hh > 25) := by omega
  have b2 : ¬ (mm > 59) := by omega
  have b3 : ¬ (ss > 59) := by omega
  simp [parseOffset, hs', t1, t2, t3, b1, b2, b3, signed, g1, g2]

theorem po_c (s h1 h2 m1 m2 : UInt8) (hh mm : Nat) (hs : s = 43 ∨ s = 45)
    (t1 : twoDigits? [h1, h2] = some hh) (t2 : twoDigits? [m1, m2] = some mm) (a1 : hh ≤ 25) (a2 : mm ≤ 59) :
    parseOffset true [s, h1, h2, 58, m1, m2] = some (signed s (hh * 3600 + mm * 60), []) := by
  have hs' : (s != 43 && s != 45) = false := by rcases hs with rfl | rfl <;> decide
  have b1 : ¬ (hh > 25) := by omega
  have b2 : ¬ (mm > 59) := by omega
  simp [parseOffset, hs', t1, t2, b1, b2, signed]

theorem po_d (s h1 h2 m1 m2 s1 s2 : UInt8) (hh mm ss : Nat) (hs : s = 43 ∨ s = 45)
    (t1 : twoDigits? [h1, h2] = some hh) (t2 : twoDigits? [m1, m2] = some mm) (t3 : twoDigits? [s1, s2] = some ss)
    (g1 : isDigit s1 = true) (g2 : isDigit s2 = true)
    (a1 : hh ≤ 25) (a2 : mm ≤ 59) (a3 : ss ≤ 59) :
    parseOffset true [s, h1, h2, 58, m1, m2, 58, s1, s2] = some (signed s (hh * 3600 + mm * 60 + ss), []) := by
  have hs' : (s != 43 && s != 45) = false := by rcases hs with rfl | rfl <;> decide
  have b1 : ¬ (hh > 25) := by omega
  have b2 : ¬ (mm > 59) := by omega
  have b3 : ¬ (ss > 59) := by omega
  simp [parseOffset, hs', t1, t2, t3, b1, b2, b3, signed, g1, g2]

/-- `%z` / `%:z` at the end of the input -/
theorem parseOffset_fmt (off : Int) (hoff : off.natAbs ≤ 93599) (colon : Bool) :
    parseOffset colon (fmtOffset off colon) = some (off, []) := by
  have hhh : off.natAbs / 3600 < 100 := by omega
  have hmm : off.natAbs % 3600 / 60 < 100 := by omega
  have hss : off.natAbs % 60 < 100 := by omega
  have d5 := dig_facts (off.natAbs % 60 / 10) (by omega)
  have d6 := dig_facts (off.natAbs % 60 % 10) (by omega)
  have t1 := twoDigits_dig (off.natAbs / 3600 / 10) (off.natAbs / 3600 % 10) (by omega) (by omega)
  have t2 := twoDigits_dig (off.natAbs % 3600 / 60 / 10) (off.natAbs % 3600 / 60 % 10) (by omega) (by omega)
  have t3 := twoDigits_dig (off.natAbs % 60 / 10) (off.natAbs % 60 % 10) (by omega) (by omega)
  have e1 : off.natAbs / 3600 / 10 * 10 + off.natAbs / 3600 % 10 = off.natAbs / 3600 := by omega
  have e2 : off.natAbs % 3600 / 60 / 10 * 10 + off.natAbs % 3600 / 60 % 10 = off.natAbs % 3600 / 60 := by omega
  have e3 : off.natAbs % 60 / 10 * 10 + off.natAbs % 60 % 10 = off.natAbs % 60 := by omega
  rw [e1] at t1; rw [e2] at t2; rw [e3] at t3
  have hsgn : ∀ v : Nat, v = off.natAbs → signed (if off < 0 then 45 else 43) v = off := by
    intro v hv
    unfold signed
    by_cases hneg : off < 0
    · simp only [hneg, if_true, beq_self_eq_true]; omega
    · simp only [hneg, if_false]
      have : ((43 : UInt8) == 45) = false := by decide
      simp only [this, Bool.false_eq_true, if_false]; omega
  have hsg : (if off < 0 then (45 : UInt8) else 43) = 43 ∨ (if off < 0 then (45 : UInt8) else 43) = 45 := by
    split <;> simp
  unfold fmtOffset
  simp only [pad2_eq _ hhh, pad2_eq _ hmm, pad2_eq _ hss]
  by_cases hs0 : off.natAbs % 60 = 0
  · have hne : ¬ (off.natAbs % 60 ≠ 0) := by simpa using hs0
    cases colon
    · simp only [hne, Bool.false_eq_true, if_false, List.append_nil, List.cons_append, List.nil_append]
      rw [po_a _ _ _ _ _ _ _ hsg t1 t2 (by omega) (by omega), hsgn _ (by omega)]
    · simp only [hne, if_true, if_false, List.append_nil, List.cons_append, List.nil_append]
      rw [po_c _ _ _ _ _ _ _ hsg t1 t2 (by omega) (by omega), hsgn _ (by omega)]
  · have hne : off.natAbs % 60 ≠ 0 := hs0
    cases colon
    · simp only [hne, ne_eq, not_false_eq_true, Bool.false_eq_true, if_true, if_false, List.append_nil, List.cons_append,
        List.nil_append]
      rw [po_b _ _ _ _ _ _ _ _ _ _ hsg t1 t2 t3 d5.1 d6.1 (by omega) (by omega) (by omega), hsgn _ (by omega)]
    · simp only [hne, ne_eq, not_false_eq_true, if_true, List.append_nil, List.cons_append, List.nil_append]
      rw [po_d _ _ _ _ _ _ _ _ _ _ hsg t1 t2 t3 d5.1 d6.1 (by omega) (by omega) (by omega), hsgn _ (by omega)]

end GixModel.C52
