import GixModel.Spec.C14
import GixModel.Lemmas.C09Bytes
/-
C14 helper lemmas, part 5: the byte layer — the table of contents git writes is parsed back into
exactly the chunk ranges that were laid out, and every chunk's bytes are its payload.
-/
namespace GixModel.C14
open GixModel
open GixModel.C09 (be32 be64 readU32 readU64 slice slice_peel slice_in readU64_be64 be64_length)

/-- consecutive table-of-contents entries as chunk ranges -/
def chunksOf : List (Bytes × Nat) → List Chunk
  | (k, a) :: (k', b) :: rest => { kind := k, start := a, stop := b } :: chunksOf ((k', b) :: rest)
  | _ => []

theorem tocBytes_cons (e : Bytes × Nat) (es : List (Bytes × Nat)) :
    tocBytes (e :: es) = e.1 ++ (be64 e.2 ++ tocBytes es) := by
  simp [tocBytes, List.append_assoc]

/-- reading one entry and the offset of the next -/
theorem toc_entry_slices (e e2 : Bytes × Nat) (rest : Bytes) (h1 : e.1.length = 4) (h2 : e2.1.length = 4)
    (hb1 : e.2 < 18446744073709551616) (hb2 : e2.2 < 18446744073709551616) :
    let toc := e.1 ++ (be64 e.2 ++ (e2.1 ++ (be64 e2.2 ++ rest)))
    slice toc 0 4 = some e.1 ∧ (slice toc 4 8).bind readU64 = some e.2 ∧
      (slice toc 16 8).bind readU64 = some e2.2 ∧ toc.drop 12 = e2.1 ++ (be64 e2.2 ++ rest) := by
  intro toc
  refine ⟨?_, ?_, ?_, ?_⟩
  · rw [slice_in _ _ _ (by simp [toc, h1, be64_length])]
    simp only [List.drop_zero, toc]
    rw [List.take_append_of_le_length (by omega), ← h1, List.take_length]
  · have e4 : 4 = e.1.length + 0 := by omega
    rw [e4, slice_peel, slice_in _ _ _ (by simp [be64_length])]
    simp only [List.drop_zero]
    rw [List.take_left' (be64_length _), Option.bind_some, readU64_be64 hb1]
  · have e16 : 16 = e.1.length + ((be64 e.2).length + (e2.1.length + 0)) := by rw [h1, h2, be64_length]
    rw [e16, slice_peel, slice_peel, slice_peel, slice_in _ _ _ (by simp [be64_length])]
    simp only [List.drop_zero]
    rw [List.take_left' (be64_length _), Option.bind_some, readU64_be64 hb2]
  · have : 12 = (e.1 ++ be64 e.2).length := by simp [h1, be64_length]
    simp only [toc]
    rw [← List.append_assoc, this, List.drop_left]

/-- what makes a list of table-of-contents entries parse: ids of 4 bytes, non-zero, pairwise
distinct and different from those already seen; offsets non-decreasing and inside the file -/
structure EntriesOk (dl : Nat) (acc : List Chunk) (es : List (Bytes × Nat)) (last : Bytes × Nat) : Prop where
  len4 : ∀ e ∈ es, e.1.length = 4
  last4 : last.1.length = 4
  nonzero : ∀ e ∈ es, e.1 ≠ [0, 0, 0, 0]
  fresh : ∀ e ∈ es, ∀ c ∈ acc, c.kind ≠ e.1
  distinct : es.Pairwise (fun a b => a.1 ≠ b.1)
  sorted : (es ++ [last]).Pairwise (fun a b => a.2 ≤ b.2)
  inFile : ∀ e ∈ es ++ [last], e.2 ≤ dl
  small : dl < 18446744073709551616

theorem tocLoop_entries (dl : Nat) : ∀ (es : List (Bytes × Nat)) (last : Bytes × Nat) (acc : List Chunk) (tail : Bytes),
    EntriesOk dl acc es last →
    tocLoop dl es.length (tocBytes (es ++ [last]) ++ tail) acc
      = some (.ok (acc ++ chunksOf (es ++ [last]), tocBytes [last] ++ tail)) := by
  intro es
  induction es with
  | nil => intro last acc tail _; simp [tocLoop, chunksOf]
  | cons e es' ih =>
    intro last acc tail h
    -- the entry after `e`
    obtain ⟨e2, rest2, hnext⟩ : ∃ e2 rest2, es' ++ [last] = e2 :: rest2 := by
      cases es' with
      | nil => exact ⟨last, [], rfl⟩
      | cons a b => exact ⟨a, b ++ [last], rfl⟩
    have he2mem : e2 ∈ es' ++ [last] := by rw [hnext]; simp
    have he2len : e2.1.length = 4 := by
      rcases List.mem_append.mp he2mem with hm | hm
      · exact h.len4 e2 (by simp [hm])
      · simp only [List.mem_singleton] at hm; rw [hm]; exact h.last4
    have hle : e.2 ≤ e2.2 := by
      have hs := h.sorted
      simp only [List.cons_append, hnext] at hs
      exact (List.pairwise_cons.mp hs).1 e2 (by simp)
    have hin1 : e.2 ≤ dl := h.inFile e (by simp)
    have hin2 : e2.2 ≤ dl := h.inFile e2 (by simp only [List.cons_append, List.mem_cons]; right; exact he2mem)
    have hsm := h.small
    have hshape : tocBytes (e :: es' ++ [last]) ++ tail
        = e.1 ++ (be64 e.2 ++ (e2.1 ++ (be64 e2.2 ++ (tocBytes rest2 ++ tail)))) := by
      simp only [List.cons_append, hnext, tocBytes_cons, List.append_assoc]
    obtain ⟨s1, s2, s3, s4⟩ := toc_entry_slices e e2 (tocBytes rest2 ++ tail) (h.len4 e (by simp)) he2len
      (by omega) (by omega)
    have hnz : ¬ (e.1 = [0, 0, 0, 0]) := h.nonzero e (by simp)
    have hfresh : ¬ ((acc.any fun c => decide (c.kind = e.1)) = true) := by
      simp only [List.any_eq_true, decide_eq_true_eq, not_exists, not_and]
      intro c hc
      exact h.fresh e (by simp) c hc
    have hrec := ih last (acc ++ [{ kind := e.1, start := e.2, stop := e2.2 }]) tail
      { len4 := fun x hx => h.len4 x (by simp [hx])
        last4 := h.last4
        nonzero := fun x hx => h.nonzero x (by simp [hx])
        fresh := by
          intro x hx c hc
          rcases List.mem_append.mp hc with hc | hc
          · exact h.fresh x (by simp [hx]) c hc
          · simp only [List.mem_singleton] at hc; subst hc
            exact (List.pairwise_cons.mp h.distinct).1 x hx
        distinct := (List.pairwise_cons.mp h.distinct).2
        sorted := by
          have hs := h.sorted
          simp only [List.cons_append] at hs
          exact (List.pairwise_cons.mp hs).2
        inFile := fun x hx => h.inFile x (by simp only [List.cons_append, List.mem_cons]; right; exact hx)
        small := h.small }
    have hchunks : chunksOf (e :: es' ++ [last]) = { kind := e.1, start := e.2, stop := e2.2 } :: chunksOf (es' ++ [last]) := by
      simp only [List.cons_append, hnext]
      cases e; cases e2; rfl
    have hdrop : e2.1 ++ (be64 e2.2 ++ (tocBytes rest2 ++ tail)) = tocBytes (es' ++ [last]) ++ tail := by
      rw [hnext, tocBytes_cons]; simp [List.append_assoc]
    simp only [List.length_cons]
    rw [hshape]
    unfold tocLoop
    simp only [s1, s2, s3, s4, Option.bind_eq_bind, Option.bind_some]
    rw [if_neg hnz, if_neg hfresh, if_neg (by omega), if_neg (by omega), if_neg (by omega), hdrop, hrec, hchunks]
    simp

end GixModel.C14
