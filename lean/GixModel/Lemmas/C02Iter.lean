import GixModel.Lemmas.C02Prim
/-
C02 helper lemmas, part 7: the token iterators agree with the full decoders on EVERY input the
full decoder accepts (not only on git's objects). Needs: every sub-parser consumes input
(so that the fuel `input length + 1` of `repeat`/the iteration never runs out).
-/
namespace GixModel.C02
open GixModel GixModel.C01 GixModel.Spec.C02

/-! ### consumption -/

theorem spanTill_snd_len (stop : UInt8 → Bool) (i : Bytes) : (spanTill stop i).2.length ≤ i.length := by
  have := congrArg List.length (spanTill_concat stop i)
  simp only [List.length_append] at this
  omega

theorem takeUpTo_snd_len (p : UInt8 → Bool) (n : Nat) (i : Bytes) : (takeUpTo p n i).2.length ≤ i.length := by
  have := congrArg List.length (takeUpTo_concat p n i)
  simp only [List.length_append] at this
  omega

theorem stripPrefix_length : ∀ (p i r : Bytes), stripPrefix p i = some r → i.length = p.length + r.length := by
  intro p
  induction p with
  | nil => intro i r h; cases i <;> simp_all [stripPrefix]
  | cons a p ih =>
    intro i r h
    cases i with
    | nil => simp [stripPrefix] at h
    | cons b i =>
      by_cases hab : (a == b) = true
      · simp only [stripPrefix, hab, if_true] at h
        have := ih i r h
        simp only [List.length_cons]; omega
      · simp [stripPrefix, hab] at h

/-- `p` never returns more than it got -/
def NonInc {α : Type} (p : Bytes → PRes α) : Prop := ∀ x a r, p x = .ok a r → r.length ≤ x.length

theorem hdr_length {α : Type} (name : Bytes) (p : Bytes → PRes α) (hp : NonInc p) (i : Bytes) (a : α) (r : Bytes)
    (h : hdr name p i = .ok a r) : r.length + 2 + name.length ≤ i.length := by
  unfold hdr at h
  split at h
  · simp at h
  · rename_i r0 hs
    have h0 := stripPrefix_length name i r0 hs
    split at h
    · rename_i r1
      split at h
      · rename_i a' r2 hpr
        have h1 := hp _ _ _ hpr
        split at h
        · rename_i r3
          simp only [PRes.ok.injEq] at h
          rw [← h.2]
          simp only [List.length_cons] at h0 h1 ⊢
          omega
        · simp at h
      · simp at h
      · simp at h
    · simp at h

theorem hdr_ne {α : Type} (name : Bytes) (p : Bytes → PRes α) (hp : NonInc p) (i : Bytes) (a : α) (r : Bytes)
    (h : hdr name p i = .ok a r) : i.isEmpty = false := by
  have := hdr_length name p hp i a r h
  cases i with
  | nil => simp at this
  | cons _ _ => rfl

theorem hexHash_nonInc : NonInc hexHash := by
  intro x a r h
  unfold hexHash at h
  split at h
  · simp only [PRes.ok.injEq] at h
    rw [← h.2]; exact takeUpTo_snd_len _ _ _
  · simp at h

theorem line1_nonInc : NonInc line1 := by
  intro x a r h
  unfold line1 at h
  split at h
  · simp at h
  · simp only [PRes.ok.injEq] at h
    rw [← h.2]; exact spanTill_snd_len _ _

theorem alpha1_nonInc : NonInc alpha1 := by
  intro x a r h
  unfold alpha1 at h
  split at h
  · simp at h
  · simp only [PRes.ok.injEq] at h
    rw [← h.2]; exact spanTill_snd_len _ _

theorem timeTuple_length (x : Bytes) (t : Time) (r : Bytes) (h : timeTuple x = some (t, r)) :
    r.length ≤ x.length := by
  unfold timeTuple at h
  split at h
  · simp at h
  · rename_i secs r1 hsf
    have h0 := (splitFirst_eq 32 x secs r1 hsf).1
    have hx : r1.length ≤ x.length := by rw [h0]; simp; omega
    split at h
    · simp at h
    · simp only at h
      split at h
      · simp at h
      · rename_i minus r2 hsign
        have hr2 : r2.length ≤ r1.length := by
          split at hsign
          · simp only [Option.some.injEq, Prod.mk.injEq] at hsign
            rw [← hsign.2]; exact spanTill_snd_len _ _
          · split at hsign
            · simp only [Option.some.injEq, Prod.mk.injEq] at hsign
              rw [← hsign.2]; exact spanTill_snd_len _ _
            · simp at hsign
        split at h
        · simp at h
        · split at h
          · simp at h
          · split at h
            · simp at h
            · split at h
              · simp at h
              · simp only [Option.some.injEq, Prod.mk.injEq] at h
                rw [← h.2]
                have a1 := spanTill_snd_len (fun b => !isDigit b) (takeUpTo isDigit 2 (takeUpTo isDigit 2 r2).2).2
                have a2 := takeUpTo_snd_len isDigit 2 (takeUpTo isDigit 2 r2).2
                have a3 := takeUpTo_snd_len isDigit 2 r2
                omega

theorem identity_nonInc : NonInc identity := by
  intro x a r h
  unfold identity at h
  simp only at h
  split at h
  · simp at h
  · rename_i ne afterGt hl
    have h1 := splitLast_eq 62 _ ne afterGt hl
    have h2 := congrArg List.length (spanTill_concat (· == 10) x)
    split at h
    · simp at h
    · split at h
      · simp only [PRes.ok.injEq] at h
        rw [← h.2]
        have h3 := congrArg List.length h1
        simp only [List.length_append, List.length_cons] at h2 h3 ⊢
        omega
      · simp at h

theorem signature_nonInc : NonInc signature := by
  intro x a r h
  unfold signature at h
  split at h
  · simp at h
  · simp at h
  · rename_i name email r0 hid
    have h0 := identity_nonInc x _ r0 hid
    simp only at h
    have h1 : (optSpace r0).length ≤ r0.length := by
      unfold optSpace
      split
      · simp
      · exact Nat.le_refl _
    generalize optSpace r0 = r1 at h h1
    cases htt : timeTuple r1 with
    | none =>
      simp only [htt, PRes.ok.injEq] at h
      rw [← h.2]; omega
    | some tr =>
      obtain ⟨t, r2⟩ := tr
      have := timeTuple_length _ t r2 htt
      simp only [htt, PRes.ok.injEq] at h
      rw [← h.2]; omega

theorem contLines_length : ∀ (f : Nat) (i : Bytes), (contLines f i).2.length ≤ i.length := by
  intro f
  induction f with
  | zero => intro i; simp [contLines]
  | succ f ih =>
    intro i
    unfold contLines
    split
    · exact Nat.le_refl _
    · rename_i l r hc
      have hr : r.length ≤ i.length := by
        unfold contLine at hc
        split at hc
        · rename_i r0
          split at hc
          · rename_i r' hsp
            simp only [Option.some.injEq, Prod.mk.injEq] at hc
            have := spanTill_snd_len (· == 10) r0
            rw [hsp] at this
            rw [← hc.2]
            simp only [List.length_cons] at this ⊢
            omega
          · simp at hc
        · simp at hc
      have := ih r
      simp only
      omega

theorem fieldName_length (i name r : Bytes) (h : fieldName i = some (name, r)) : r.length < i.length := by
  unfold fieldName at h
  split at h
  · simp at h
  · split at h
    · rename_i r' hsp
      simp only [Option.some.injEq, Prod.mk.injEq] at h
      have := spanTill_snd_len spOrNl i
      rw [hsp] at this
      rw [← h.2]
      simp only [List.length_cons] at this
      omega
    · simp at h

theorem extraHeader_length (F : Nat) (i : Bytes) (a : Bytes × Bytes) (r : Bytes)
    (h : extraHeader F i = .ok a r) : r.length < i.length := by
  unfold extraHeader at h
  split at h
  · rename_i hv r' hm
    simp only [PRes.ok.injEq] at h
    rw [← h.2]
    unfold multiLine at hm
    split at hm
    · simp at hm
    · rename_i name r0 hfn
      have h0 := fieldName_length i name r0 hfn
      split at hm
      · simp at hm
      · split at hm
        · rename_i r1 hsp
          have h1 := spanTill_snd_len (· == 10) r0
          rw [hsp] at h1
          split at hm
          · simp at hm
          · rename_i l ls r2 hcl
            have h2 := contLines_length F r1
            rw [hcl] at h2
            simp only [Option.some.injEq, Prod.mk.injEq] at hm
            rw [← hm.2]
            simp only [List.length_cons] at h1 h2
            omega
        · simp at hm
  · split at h
    · rename_i hv r' hsl
      simp only [PRes.ok.injEq] at h
      rw [← h.2]
      unfold singleLine at hsl
      split at hsl
      · simp at hsl
      · rename_i name r0 hfn
        have h0 := fieldName_length i name r0 hfn
        split at hsl
        · simp at hsl
        · split at hsl
          · rename_i r1 hsp
            have h1 := spanTill_snd_len (· == 10) r0
            rw [hsp] at h1
            simp only [Option.some.injEq, Prod.mk.injEq] at hsl
            rw [← hsl.2]
            simp only [List.length_cons] at h1
            omega
          · simp at hsl
    · simp at h

/-! ### `repeat` -/

theorem repeat0_progress {α : Type} (p : Bytes → PRes α) (hp : ∀ x a r, p x = .ok a r → r.length < x.length) :
    ∀ (f : Nat) (i : Bytes) (xs : List α) (r : Bytes), repeat0 p f i = .ok xs r →
      xs.length + r.length ≤ i.length := by
  intro f
  induction f with
  | zero =>
    intro i xs r h
    simp only [repeat0, PRes.ok.injEq] at h
    rw [← h.1, ← h.2]; simp
  | succ f ih =>
    intro i xs r h
    unfold repeat0 at h
    split at h
    · simp only [PRes.ok.injEq] at h
      rw [← h.1, ← h.2]; simp
    · simp at h
    · rename_i a r' hpa
      have h1 := hp _ _ _ hpa
      split at h
      · rename_i as r'' hrec
        have h2 := ih r' as r'' hrec
        simp only [PRes.ok.injEq] at h
        rw [← h.1, ← h.2]
        simp only [List.length_cons]
        omega
      · simp at h
      · simp at h

theorem repeat0_stops {α : Type} (p : Bytes → PRes α) :
    ∀ (f : Nat) (i : Bytes) (xs : List α) (r : Bytes), repeat0 p f i = .ok xs r → xs.length < f → p r = .fail := by
  intro f
  induction f with
  | zero => intro i xs r _ hlt; omega
  | succ f ih =>
    intro i xs r h hlt
    unfold repeat0 at h
    split at h
    · rename_i hf
      simp only [PRes.ok.injEq] at h
      rw [← h.2]; exact hf
    · simp at h
    · rename_i a r' hpa
      split at h
      · rename_i as r'' hrec
        simp only [PRes.ok.injEq] at h
        rw [← h.1] at hlt
        rw [← h.2]
        exact ih r' as r'' hrec (by simp only [List.length_cons] at hlt; omega)
      · simp at h
      · simp at h

/-! ### the commit iterator follows the full decoder -/

theorem cIter_parents (F : Nat) : ∀ (f : Nat) (i : Bytes) (ps : List Bytes) (r : Bytes),
    repeat0 (hdr kParent hexHash) f i = .ok ps r → ∀ m,
      cIter F (ps.length + m) .parents i
        = (ps.map CToken.parent ++ (cIter F m .parents r).1, (cIter F m .parents r).2) := by
  intro f
  induction f with
  | zero =>
    intro i ps r h m
    simp only [repeat0, PRes.ok.injEq] at h
    rw [← h.1, ← h.2]; simp
  | succ f ih =>
    intro i ps r h m
    unfold repeat0 at h
    split at h
    · simp only [PRes.ok.injEq] at h
      rw [← h.1, ← h.2]; simp
    · simp at h
    · rename_i a r' hpa
      split at h
      · rename_i as r'' hrec
        simp only [PRes.ok.injEq] at h
        rw [← h.1, ← h.2]
        have hne := hdr_ne kParent hexHash hexHash_nonInc i a r' hpa
        have := ih r' as r'' hrec m
        have e : (a :: as).length + m = (as.length + m) + 1 := by simp only [List.length_cons]; omega
        rw [e]
        simp only [cIter, hne, Bool.false_eq_true, if_false, cNext, stParents, hpa, popt, this,
          List.map_cons, List.cons_append]
      · simp at h
      · simp at h

theorem cIter_extras (F : Nat) : ∀ (f : Nat) (i : Bytes) (xs : List (Bytes × Bytes)) (r : Bytes),
    repeat0 (extraHeader F) f i = .ok xs r → ∀ m,
      cIter F (xs.length + m) .extra i
        = (xs.map (fun nv => CToken.extra nv.1 nv.2) ++ (cIter F m .extra r).1, (cIter F m .extra r).2) := by
  intro f
  induction f with
  | zero =>
    intro i xs r h m
    simp only [repeat0, PRes.ok.injEq] at h
    rw [← h.1, ← h.2]; simp
  | succ f ih =>
    intro i xs r h m
    unfold repeat0 at h
    split at h
    · simp only [PRes.ok.injEq] at h
      rw [← h.1, ← h.2]; simp
    · simp at h
    · rename_i a r' hpa
      split at h
      · rename_i as r'' hrec
        simp only [PRes.ok.injEq] at h
        rw [← h.1, ← h.2]
        have hlen := extraHeader_length F i a r' hpa
        have hne : i.isEmpty = false := by
          cases i with
          | nil => simp at hlen
          | cons _ _ => rfl
        have := ih r' as r'' hrec m
        have e : (a :: as).length + m = (as.length + m) + 1 := by simp only [List.length_cons]; omega
        rw [e]
        obtain ⟨n, v⟩ := a
        simp only [cIter, hne, Bool.false_eq_true, if_false, cNext, stExtra, hpa, popt, this,
          List.map_cons, List.cons_append]
      · simp at h
      · simp at h

theorem foldl_push_parents (ps : List Bytes) : ∀ acc : CAcc,
    (ps.map CToken.parent).foldl CAcc.push acc = { acc with parents := acc.parents ++ ps } := by
  induction ps with
  | nil => intro acc; simp
  | cons p ps ih =>
    intro acc
    simp only [List.map_cons, List.foldl_cons, CAcc.push, ih]
    simp

theorem foldl_push_extras (xs : List (Bytes × Bytes)) : ∀ acc : CAcc,
    (xs.map (fun nv => CToken.extra nv.1 nv.2)).foldl CAcc.push acc = { acc with extra := acc.extra ++ xs } := by
  induction xs with
  | nil => intro acc; simp
  | cons p ps ih =>
    intro acc
    simp only [List.map_cons, List.foldl_cons, CAcc.push, ih]
    simp

theorem iterCommit_of_parse (i : Bytes) (c : CommitRef) (h : parseCommit i = some c) : iterCommit i = some c := by
  unfold parseCommit at h
  simp only at h
  generalize hF : i.length + 1 = F at h
  split at h
  · rename_i tree r1 h1
    split at h
    · rename_i parents r2 h2
      split at h
      · rename_i author r3 h3
        split at h
        · rename_i committer r4 h4
          split at h
          · rename_i enc r5 h5
            split at h
            · rename_i extra r6 h6
              split at h
              · rename_i msg h7
                simp only [Option.some.injEq] at h
                subst h
                -- consumption
                have l1 := hdr_length kTree hexHash hexHash_nonInc i tree r1 h1
                have l2 := repeat0_progress (hdr kParent hexHash)
                  (fun x a r hx => by have := hdr_length kParent hexHash hexHash_nonInc x a r hx; omega) F r1 parents r2 h2
                have l3 := hdr_length kAuthor signature signature_nonInc r2 author r3 h3
                have l4 := hdr_length kCommitter signature signature_nonInc r3 committer r4 h4
                have l5 : r5.length ≤ r4.length := by
                  unfold popt at h5
                  split at h5
                  · rename_i a rest hh
                    have := hdr_length kEncoding line1 line1_nonInc r4 a rest hh
                    simp only [PRes.ok.injEq] at h5
                    rw [← h5.2]; omega
                  · simp only [PRes.ok.injEq] at h5
                    rw [← h5.2]; exact Nat.le_refl _
                  · simp at h5
                have l6 := repeat0_progress (extraHeader F) (extraHeader_length F) F r5 extra r6 h6
                -- the repeats stopped because the next header did not parse
                have stopP := repeat0_stops (hdr kParent hexHash) F r1 parents r2 h2 (by omega)
                have stopX := repeat0_stops (extraHeader F) F r5 extra r6 h6 (by omega)
                have ne2 := hdr_ne kAuthor signature signature_nonInc r2 author r3 h3
                have ne3 := hdr_ne kCommitter signature signature_nonInc r3 committer r4 h4
                have ne1 := hdr_ne kTree hexHash hexHash_nonInc i tree r1 h1
                have ne6 : r6.isEmpty = false := by
                  cases r6 with
                  | nil => simp [commitMessage] at h7
                  | cons _ _ => rfl
                have len6 : 1 ≤ r6.length := by
                  cases r6 with
                  | nil => simp at ne6
                  | cons _ _ => simp
                have len4 : 1 ≤ r4.length := by omega
                have ne4 : r4.isEmpty = false := by
                  cases r4 with
                  | nil => simp at len4
                  | cons _ _ => rfl
                -- the message step (from state `extra` at `r6`)
                have sMsg : ∀ m, cIter F (m + 1) .extra r6 = ([CToken.message msg], true) := by
                  intro m
                  simp only [cIter, ne6, Bool.false_eq_true, if_false, cNext, stExtra, stopX, popt, stMessage, h7]
                  cases m <;> simp [cIter]
                -- the encoding step
                have sEnc : ∀ m, cIter F (m + 1) .encoding r4
                    = ((match enc with | some e => [CToken.encoding e] | none => [])
                        ++ (cIter F (match enc with | some _ => m | none => m + 1) .extra r5).1,
                       (cIter F (match enc with | some _ => m | none => m + 1) .extra r5).2) := by
                  intro m
                  unfold popt at h5
                  split at h5
                  · rename_i a rest hh
                    simp only [PRes.ok.injEq] at h5
                    obtain ⟨rfl, rfl⟩ := h5
                    simp only [cIter, ne4, Bool.false_eq_true, if_false, cNext, stEncoding, hh, popt,
                      List.singleton_append]
                  · rename_i hh
                    simp only [PRes.ok.injEq] at h5
                    obtain ⟨rfl, rfl⟩ := h5
                    simp only [cIter, ne4, Bool.false_eq_true, if_false, cNext, stEncoding, hh, popt,
                      List.nil_append]
                  · simp at h5
                have sTree : ∀ m, cIter F (m + 1) .tree i
                    = (CToken.tree tree :: (cIter F m .parents r1).1, (cIter F m .parents r1).2) := by
                  intro m
                  simp only [cIter, ne1, Bool.false_eq_true, if_false, cNext, stTree, h1]
                have sAuth : ∀ m, cIter F (m + 1) .parents r2
                    = (CToken.author author :: (cIter F m .committer r3).1, (cIter F m .committer r3).2) := by
                  intro m
                  simp only [cIter, ne2, Bool.false_eq_true, if_false, cNext, stParents, stopP, popt, stAuthor, h3]
                have sComm : ∀ m, cIter F (m + 1) .committer r3
                    = (CToken.committer committer :: (cIter F m .encoding r4).1, (cIter F m .encoding r4).2) := by
                  intro m
                  simp only [cIter, ne3, Bool.false_eq_true, if_false, cNext, stCommitter, h4]
                have eP := cIter_parents F F r1 parents r2 h2
                have eX := cIter_extras F F r5 extra r6 h6
                -- fuel bookkeeping: `i.length + 1` iterations are enough for every token
                obtain ⟨k, hk⟩ : ∃ k, F = (parents.length + (((extra.length + (k + 1)) + 1) + 1 + 1)) + 1 :=
                  ⟨F - (parents.length + extra.length + 5), by omega⟩
                have t1 := sTree (parents.length + (((extra.length + (k + 1)) + 1) + 1 + 1))
                rw [← hk] at t1
                unfold iterCommit iterCommitTokens
                rw [hF, t1, eP, sAuth, sComm, sEnc]
                cases enc with
                | some e =>
                  simp only
                  rw [eX, sMsg]
                  simp [tokensToCommit, List.foldl_append, foldl_push_parents, foldl_push_extras, CAcc.push,
                    CAcc.finish]
                | none =>
                  simp only
                  rw [Nat.add_assoc extra.length (k + 1) 1, eX, sMsg]
                  simp [tokensToCommit, List.foldl_append, foldl_push_parents, foldl_push_extras, CAcc.push,
                    CAcc.finish]
              · simp at h
            · simp at h
          · simp at h
        · simp at h
      · simp at h
    · simp at h
  · simp at h

/-! ### the tag iterator follows the full decoder -/

theorem iterTag_of_parse (i : Bytes) (t : TagRef) (h : parseTag i = some t) : iterTag i = some t := by
  unfold parseTag at h
  split at h
  · rename_i target r1 h1
    split at h
    · rename_i kb r2 h2
      split at h
      · simp at h
      · rename_i kind hk
        split at h
        · rename_i name r3 h3
          split at h
          · rename_i tagger r4 h4
            split at h
            · rename_i msg pgp h5
              simp only [Option.some.injEq] at h
              subst h
              have l1 := hdr_length kObject hexHash hexHash_nonInc i target r1 h1
              have l2 := hdr_length kType alpha1 alpha1_nonInc r1 kb r2 h2
              have l3 := hdr_length kTag line1 line1_nonInc r2 name r3 h3
              have ne1 := hdr_ne kObject hexHash hexHash_nonInc i target r1 h1
              have ne2 := hdr_ne kType alpha1 alpha1_nonInc r1 kb r2 h2
              have ne3 := hdr_ne kTag line1 line1_nonInc r2 name r3 h3
              obtain ⟨k, hk5⟩ : ∃ k, i.length + 1 = k + 1 + 1 + 1 + 1 + 1 := ⟨i.length - 4, by
                simp only [kObject, kType, kTag, List.length_cons, List.length_nil] at l1 l2 l3; omega⟩
              unfold iterTag iterTagTokens
              rw [hk5]
              simp only [tIter, ne1, ne2, ne3, Bool.false_eq_true, if_false, tNext, h1, h2, hk, h3]
              cases r3 with
              | nil =>
                -- no tagger line and no body: the iterator stops after the name
                have : hdr kTagger signature [] = .fail := by simp [hdr, kTagger, stripPrefix]
                simp only [this, popt, PRes.ok.injEq] at h4
                obtain ⟨rfl, rfl⟩ := h4
                simp only [tagMessage, Option.some.injEq, Prod.mk.injEq] at h5
                obtain ⟨rfl, rfl⟩ := h5
                simp [tokensToTag, TAcc.push, TAcc.finish]
              | cons b r3 =>
                simp only [List.isEmpty_cons, Bool.false_eq_true, if_false, h4]
                cases r4 with
                | nil =>
                  simp only [tagMessage, Option.some.injEq, Prod.mk.injEq] at h5
                  obtain ⟨rfl, rfl⟩ := h5
                  simp [tokensToTag, TAcc.push, TAcc.finish]
                | cons c r4 =>
                  simp only [List.isEmpty_cons, Bool.false_eq_true, if_false, h5]
                  cases k <;> simp [tIter, tokensToTag, TAcc.push, TAcc.finish]
            · simp at h
          · simp at h
        · simp at h
    · simp at h
  · simp at h

theorem iterTree_eq_parse (i : Bytes) : iterTree i = parseTree i := rfl

end GixModel.C02
