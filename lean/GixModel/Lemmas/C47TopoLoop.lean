import GixModel.Lemmas.C47TopoExpand
/-
C47 — lemmas, part 8: `pop_commit` and the iterator loop. `NInv.emit`: a commit comes off the topo
queue; `topoLoop_spec`: from a state satisfying the invariant the loop ends regularly and returns
exactly the visible reachable commits, each once, children first.
-/
namespace GixModel.C47
open GixModel GixModel.CG GixModel.Spec.C47

section
variable {E : TopoEnv} {nodes tips ends : List Nat}

theorem walk_ne_self (ctx : TCtx E nodes tips ends) {c p : Nat} (hp : p ∈ walkParents E c) : p ≠ c := by
  obtain ⟨rank, hr⟩ := ctx.acyclic
  intro h
  subst h
  have := hr _ _ (walkParents_sub E hp)
  omega

/-- the commit `c` leaves the topo queue and is emitted; its parents become the current ones -/
theorem NInv.emit (ctx : TCtx E nodes tips ends) {s s2 : TS E} {out : List Nat} {c : Nat}
    (h : NInv E nodes tips ends s out [] [])
    (hst : s2.states = s.states) (hiq : s2.indegQ = s.indegQ) (hmg : s2.minGen = s.minGen)
    (hdeg : ∀ q, s2.indeg.get q = if q = c then some 0 else s.indeg.get q)
    (htq : (tqIds E s).Perm (c :: tqIds E s2)) :
    NInv E nodes tips ends s2 (out ++ [c]) (walkParents E c) [] := by
  have hctq : c ∈ tqIds E s := htq.symm.subset List.mem_cons_self
  obtain ⟨c1, c2, c3, c4, c5, c6⟩ := h.tq_inv c hctq
  have hcn : c ∈ nodes := ctx.rch_nodes c1
  have hnd2 : (c :: tqIds E s2).Nodup := htq.nodup_iff.mp h.tq_nodup
  have hcB : countedB E s2 = countedB E s := countedB_congr (fun x => by rw [hst]) hiq
  have hkids : ∀ x, KidsCounted E tips ends s2 x ↔ KidsCounted E tips ends s x := by
    intro x; simp only [KidsCounted, hcB]
  have hcnt : ∀ q, cnt E nodes s2 (out ++ [c]) q + (if q ∈ walkParents E c then 1 else 0) = cnt E nodes s out q := by
    intro q
    rw [cnt_congr hcB]
    exact cnt_emit ctx.nodup hcn c6 c3 q
  -- all reachable children of `c` have been emitted
  have hallkids : ∀ c', Rch E tips ends c' → c ∈ walkParents E c' → c' ∈ out := by
    intro c' hc' hp
    have hold := h.deg_ok c c3
    simp only [DegOk, c4] at hold
    have h0 := hold.1 c2
    simp only [List.not_mem_nil, if_false] at h0
    have hz : cnt E nodes s out c = 0 := by omega
    exact cnt_zero hz (ctx.rch_nodes hc') (c5 c' hc' hp) hp
  have hfresh : ∀ q, q ∈ walkParents E c → q ∉ out ++ [c] := by
    intro q hq hmem
    cases List.mem_append.mp hmem with
    | inl h' =>
      obtain ⟨l₁, l₂, hl⟩ := List.append_of_mem h'
      have := h.out_order l₁ q l₂ hl c c1 hq
      exact c3 (by rw [hl]; exact List.mem_append_left _ this)
    | inr h' =>
      simp only [List.mem_singleton] at h'
      exact walk_ne_self ctx hq h'
  have hmemout : ∀ x, x ∉ out ++ [c] → x ∉ out ∧ x ≠ c := by
    intro x hx
    exact ⟨fun h' => hx (List.mem_append_left _ h'), fun h' => hx (by simp [h'])⟩
  exact
    { iq_key := by rw [hiq]; exact h.iq_key
      iq_flag := by rw [hiq, hst]; exact h.iq_flag
      iq_nodup := by simp only [iqIds, hiq]; exact h.iq_nodup
      in_expl := by rw [hst]; exact h.in_expl
      in_deg := by
        intro x hx
        rw [hdeg]
        by_cases hxc : x = c
        · simp [hxc]
        · simp only [hxc, if_false]; exact h.in_deg x (by rw [← hst]; exact hx)
      in_rch := by rw [hst]; exact h.in_rch
      starts_in := by rw [hst]; exact h.starts_in
      cnt_done := by rw [hcB, hst]; exact h.cnt_done
      psi_le := by rw [hiq, hst]; exact h.psi_le
      deg_ok := by
        intro q hq
        obtain ⟨hqo, hqc⟩ := hmemout q hq
        have hold := h.deg_ok q hqo
        have hc' := hcnt q
        simp only [DegOk] at hold ⊢
        rw [hdeg, if_neg hqc]
        cases hget : s.indeg.get q with
        | none =>
          rw [hget] at hold
          dsimp only
          by_cases hqp : q ∈ walkParents E c
          · rw [if_pos hqp] at hc'; omega
          · rw [if_neg hqp] at hc'; exact ⟨by omega, hqp⟩
        | some d =>
          rw [hget] at hold
          dsimp only at hold ⊢
          simp only [List.not_mem_nil, if_false] at hold
          by_cases hqp : q ∈ walkParents E c
          · rw [if_pos hqp] at hc'
            simp only [hqp, if_true]
            exact ⟨fun hn => by have := hold.1 hn; omega, fun hn => by have := hold.2 hn; omega⟩
          · rw [if_neg hqp] at hc'
            simp only [hqp, if_false]
            exact ⟨fun hn => by have := hold.1 hn; omega, fun hn => by have := hold.2 hn; omega⟩
      cur_fresh := hfresh
      cur_nodup := ctx.walk_nodup c
      tq_inv := by
        intro x hx
        have hxc : x ≠ c := fun hxc => (List.nodup_cons.mp hnd2).1 (hxc ▸ hx)
        obtain ⟨a1, a2, a3, a4, a5, a6⟩ := h.tq_inv x (htq.symm.subset (List.mem_cons_of_mem _ hx))
        refine ⟨a1, a2, ?_, ?_, (hkids x).mpr a5, by rw [hcB]; exact a6⟩
        · intro hmem
          cases List.mem_append.mp hmem with
          | inl h' => exact a3 h'
          | inr h' => exact hxc (by simpa using h')
        · rw [hdeg, if_neg hxc]; exact a4
      tq_nodup := (List.nodup_cons.mp hnd2).2
      out_nodup := by
        rw [List.nodup_append]
        refine ⟨h.out_nodup, by simp, ?_⟩
        intro x hx y hy hxy
        simp only [List.mem_singleton] at hy
        subst hy; subst hxy
        exact c3 hx
      out_inv := by
        intro x hx
        cases List.mem_append.mp hx with
        | inl h' =>
          obtain ⟨a1, a2, a3, a4⟩ := h.out_inv x h'
          exact ⟨a1, a2, (hkids x).mpr a3, by rw [hcB]; exact a4⟩
        | inr h' =>
          simp only [List.mem_singleton] at h'
          subst h'
          exact ⟨c1, c2, (hkids x).mpr c5, by rw [hcB]; exact c6⟩
      out_order := by
        intro l₁ x l₂ hl c' hc' hp
        cases append_singleton_split hl with
        | inl h' =>
          obtain ⟨l₂', _, hout⟩ := h'
          exact h.out_order l₁ x l₂' hout c' hc' hp
        | inr h' =>
          obtain ⟨_, h1, h2⟩ := h'
          subst h2
          rw [h1]
          exact hallkids c' hc' hp
      mingen := by
        intro c' hc' q hq hnq
        cases List.mem_append.mp hc' with
        | inl h' =>
          cases h.mingen c' h' q hq hnq with
          | inl h'' => simp at h''
          | inr h'' => exact Or.inr (by rw [hmg]; exact h'')
        | inr h' =>
          simp only [List.mem_singleton] at h'
          subst h'
          exact Or.inl hq
      live := by
        intro x a1 a2 a3 a4 a5
        obtain ⟨hxo, hxc⟩ := hmemout x a3
        rw [hdeg, if_neg hxc] at a5
        cases h.live x a1 a2 hxo (by simp) a5 with
        | inl h' =>
          cases List.mem_cons.mp (htq.subset h') with
          | inl h'' => exact absurd h'' hxc
          | inr h'' => exact Or.inl h''
        | inr h' => simp at h' }

theorem le_sum_of_mem {l : List Nat} {f : Nat → Nat} {x : Nat} (h : x ∈ l) : f x ≤ (l.map f).sum := by
  induction l with
  | nil => simp at h
  | cons y ys ih =>
    simp only [List.map_cons, List.sum_cons]
    cases List.mem_cons.mp h with
    | inl h' => subst h'; omega
    | inr h' => have := ih h'; omega

/-- what the finished walk returns -/
structure TopoResult (E : TopoEnv) (tips ends : List Nat) (out : List Nat) : Prop where
  nodup : out.Nodup
  mem_iff : ∀ x, x ∈ out ↔ Rch E tips ends x ∧ ¬ Hid E ends x
  order : ChildrenFirst E tips ends out

/-- with an empty topo queue everything visible has been emitted -/
theorem WInv.finished (ctx : TCtx E nodes tips ends) {s : TS E} {out : List Nat}
    (h : WInv E nodes tips ends s out [] []) (hempty : tqIds E s = []) : TopoResult E tips ends out := by
  refine ⟨h.n.out_nodup, ?_, h.n.out_order⟩
  intro x
  refine ⟨fun hx => ⟨(h.n.out_inv x hx).1, (h.n.out_inv x hx).2.1⟩, ?_⟩
  obtain ⟨rank, hr⟩ := ctx.acyclic
  -- induction on how far below the top rank `x` sits
  have key : ∀ k x, (nodes.map rank).sum - rank x ≤ k → Rch E tips ends x → ¬ Hid E ends x → x ∈ out := by
    intro k
    induction k with
    | zero =>
      intro x hk hrx hhx
      -- no reachable commit can be a child of `x`
      have hnokid : ∀ c', Rch E tips ends c' → x ∈ walkParents E c' → False := by
        intro c' hc' hp
        have h1 := hr _ _ (walkParents_sub E hp)
        have h2 := le_sum_of_mem (f := rank) (ctx.rch_nodes hc')
        omega
      apply Classical.byContradiction
      intro hxo
      -- `x` is a start, registered with in-degree 1 and nothing counted against it
      obtain ⟨s0, hs0, hreach⟩ := hrx
      have hx0 : x = s0 := by
        cases reach_tail_cases hreach with
        | inl h' => exact h'.symm
        | inr h' =>
          obtain ⟨c', hc1, hc2⟩ := h'
          exact (hnokid c' ⟨s0, hs0, hc1⟩ hc2).elim
      have hflag : s.states.fInDeg x = true := by rw [hx0]; exact h.n.starts_in s0 hs0
      have hdeg := h.n.deg_ok x hxo
      have hsome := h.n.in_deg x hflag
      cases hget : s.indeg.get x with
      | none => rw [hget] at hsome; cases hsome
      | some d =>
        simp only [DegOk, hget] at hdeg
        have h0 := hdeg.1 hhx
        simp only [List.not_mem_nil, if_false] at h0
        have hz : cnt E nodes s out x = 0 := by
          unfold cnt
          rw [List.length_eq_zero_iff, List.filter_eq_nil_iff]
          intro c' hc'
          simp only [Bool.and_eq_true, Bool.not_eq_true', not_and]
          intro ⟨hcc, hpc⟩
          exfalso
          have hcf : s.states.fInDeg c' = true := by
            simp only [countedB, Bool.and_eq_true] at hcc; exact hcc.1
          exact hnokid c' (h.n.in_rch c' hcf) (by simpa using hpc)
        have hd1 : d = 1 := by rw [hz] at h0; omega
        subst hd1
        cases h.n.live x ⟨s0, hs0, hreach⟩ hhx hxo (by simp) hget with
        | inl h' => rw [hempty] at h'; simp at h'
        | inr h' => simp at h'
    | succ k ih =>
      intro x hk hrx hhx
      -- every reachable child of `x` is visible and has been emitted
      have hkids : ∀ c', Rch E tips ends c' → x ∈ walkParents E c' → c' ∈ out := by
        intro c' hc' hp
        have h1 := hr _ _ (walkParents_sub E hp)
        have h2 := le_sum_of_mem (f := rank) (ctx.rch_nodes hc')
        apply ih c' (by omega) hc'
        intro hh
        exact hhx (hh.step hp)
      apply Classical.byContradiction
      intro hxo
      have hflag : s.states.fInDeg x = true := by
        obtain ⟨s0, hs0, hreach⟩ := hrx
        cases reach_tail_cases hreach with
        | inl h' => rw [← h']; exact h.n.starts_in s0 hs0
        | inr h' =>
          obtain ⟨c', hc1, hc2⟩ := h'
          have hc'o := hkids c' ⟨s0, hs0, hc1⟩ hc2
          exact h.n.cnt_done c' (h.n.out_inv c' hc'o).2.2.2 x hc2
      have hdeg := h.n.deg_ok x hxo
      have hsome := h.n.in_deg x hflag
      cases hget : s.indeg.get x with
      | none => rw [hget] at hsome; cases hsome
      | some d =>
        simp only [DegOk, hget] at hdeg
        have h0 := hdeg.1 hhx
        simp only [List.not_mem_nil, if_false] at h0
        have hz : cnt E nodes s out x = 0 := by
          unfold cnt
          rw [List.length_eq_zero_iff, List.filter_eq_nil_iff]
          intro c' hc'
          simp only [Bool.and_eq_true, Bool.not_eq_true', not_and]
          intro ⟨hcc, hpc⟩
          have hcf : s.states.fInDeg c' = true := by
            simp only [countedB, Bool.and_eq_true] at hcc; exact hcc.1
          have := hkids c' (h.n.in_rch c' hcf) (by simpa using hpc)
          simp [this]
        have hd1 : d = 1 := by rw [hz] at h0; omega
        subst hd1
        cases h.n.live x hrx hhx hxo (by simp) hget with
        | inl h' => rw [hempty] at h'; simp at h'
        | inr h' => simp at h'
  intro ⟨hrx, hhx⟩
  exact key _ x (Nat.le_refl _) hrx hhx

/-- the iterator loop -/
theorem topoLoop_spec (ctx : TCtx E nodes tips ends) (nfuel : Nat) (hn : nodes.length < nfuel) :
    ∀ (fuel : Nat) (s : TS E) (out : List Nat), WInv E nodes tips ends s out [] [] →
      nodes.length - out.length < fuel →
      ∃ res, topoLoop E nfuel fuel s out = .ok res ∧ TopoResult E tips ends res := by
  intro fuel
  induction fuel with
  | zero => intro s out _ h; omega
  | succ fuel ih =>
    intro s out h hfuel
    unfold topoLoop
    cases hpop : tqPop E s with
    | none =>
      dsimp only
      exact ⟨out, rfl, h.finished ctx (tqPop_none ctx hpop)⟩
    | some r =>
      obtain ⟨c, s1⟩ := r
      dsimp only
      obtain ⟨htq, g1, g2, g3, g4, g5⟩ := tqPop_some ctx hpop
      have hctq : c ∈ tqIds E s := htq.symm.subset List.mem_cons_self
      obtain ⟨c1, c2, c3, c4, c5, c6⟩ := h.n.tq_inv c hctq
      have hgetc : s1.indeg.get c = some 1 := by rw [g1]; exact c4
      rw [hgetc]
      dsimp only
      -- the state with the in-degree of `c` cleared
      have hemit : NInv E nodes tips ends { s1 with indeg := s1.indeg.set c 0 } (out ++ [c]) (walkParents E c) [] := by
        refine h.n.emit ctx (s2 := { s1 with indeg := s1.indeg.set c 0 }) (c := c) g2 g4 g5 ?_ htq
        intro q
        show (s1.indeg.set c 0).get q = _
        rw [DegMap.get_set, g1]
      have hex2 : ExInv E nodes ends { s1 with indeg := s1.indeg.set c 0 } := h.ex.of_states_eq g2 g3
      have hch : ({ s1 with indeg := s1.indeg.set c 0 } : TS E).states.has c = true := by
        show s1.states.has c = true
        rw [g2]
        have : s.states.fInDeg c = true := by
          simp only [countedB, Bool.and_eq_true] at c6; exact c6.1
        exact fInDeg_has this
      obtain ⟨m, hm, hP⟩ := processParents_spec E.g c (walkParents E c) s1.states hch
      have hm' : processParents E.g c (walkParents E c)
          ({ s1 with indeg := s1.indeg.set c 0 } : TS E).states = some m := hm
      rw [hm']
      dsimp only
      obtain ⟨p1, p2, p3, p4, p5, p6⟩ := hP.exinv ctx hex2 hch
      have hfr : ExFrame ({ s1 with indeg := s1.indeg.set c 0 } : TS E)
          { s1 with indeg := s1.indeg.set c 0, states := m } := ⟨rfl, rfl, rfl, rfl, rfl, rfl, p6⟩
      have hex3 : ExInv E nodes ends { s1 with indeg := s1.indeg.set c 0, states := m } :=
        { st_nodes := p1, st_u := p2, st_ends := p3, st_added := p4
          eq_key := hex2.eq_key
          eq_expl := fun e he => p6.fExplored e.2 (hex2.eq_expl e he)
          ex_done := fun x hx => by
            have hx' : s1.states.fExplored x = true := by
              have : m.fExplored x = true := hx
              rw [hP.fExplored] at this; exact this
            cases hex2.ex_done x hx' with
            | inl h' => exact Or.inl h'
            | inr h' => exact Or.inr (fun p hp => p6.fExplored p (h' p hp))
          phi_le := by
            have hu : unexplored nodes m = unexplored nodes s1.states := by
              unfold unexplored
              congr 1
              apply List.filter_congr
              intro x _
              rw [hP.fExplored]
            show _ + unexplored nodes m ≤ _
            rw [hu]; exact hex2.phi_le }
      have hdepth3 : Depth E { s1 with indeg := s1.indeg.set c 0, states := m } := by
        intro e he
        show e.1.1 < s1.minGen
        rw [g5]
        exact h.depth e (by rw [← g4]; exact he)
      obtain ⟨s3, hs3, hw3⟩ := expandParents_spec ctx nfuel hn (walkParents E c)
        { s1 with indeg := s1.indeg.set c 0, states := m } ⟨hex3, hemit.of_frame hfr, hdepth3⟩
        (fun p hp => ⟨p5 p hp, c1.step hp⟩)
      rw [hs3]
      dsimp only
      apply ih s3 (out ++ [c]) hw3
      have hlen : (out ++ [c]).length ≤ nodes.length :=
        nodup_subset_length hw3.n.out_nodup (fun x hx => ctx.rch_nodes (hw3.n.out_inv x hx).1)
      simp only [List.length_append, List.length_cons, List.length_nil] at hlen ⊢
      omega

end

end GixModel.C47
