import GixModel.Lemmas.C36Chain

/-! C36, path mode, the general case: git's ABORT_ALL is suffix-sound for every pattern that does not
begin with a `**/` boundary run, and sound for the suffixes that begin behind a `/` for those that do. -/
namespace GixModel.C36
open GixModel GixModel.Spec.C36

/-- suffix `k` of `t` is `t` itself or begins right behind a `/` -/
def al (t : Bytes) (k : Nat) : Prop := k = 0 ∨ ∃ k' u, k = k' + 1 ∧ t.drop k' = 47 :: u

/-- the pattern begins with a run of two or more stars that is a boundary followed by a plain `/` -/
def isBnd (prev : Option UInt8) : Bytes → Bool
  | 42 :: 42 :: r => prevOk prev && hd (r.dropWhile (· == 42)) == 47
  | _ => false

theorem isBnd_ne42 {prev : Option UInt8} {c : UInt8} {r : Bytes} (h : c ≠ 42) : isBnd prev (c :: r) = false := by
  unfold isBnd
  split
  · rename_i heq; simp at heq; exact absurd heq.1 h
  · rfl

theorem isBnd_prev {prev : Option UInt8} {p : Bytes} (h : prevOk prev = false) : isBnd prev p = false := by
  unfold isBnd
  split
  · simp [h]
  · rfl

theorem strchr_head : ∀ (l s : Bytes), strchrSlash l = some s → ∃ u, s = 47 :: u := by
  intro l
  induction l with
  | nil => intro s h; simp [strchrSlash] at h
  | cons a r ih =>
    intro s h
    unfold strchrSlash at h
    split at h
    · rename_i ha
      simp at ha h
      exact ⟨r, by rw [← h, ha]⟩
    · exact ih s h

theorem strchr_drop_al (t : Bytes) (k : Nat) :
    strchrSlash (t.drop k) = none ∨
      ∃ s s' j, strchrSlash t = some s ∧ strchrSlash (t.drop k) = some s' ∧ s'.tail = s.tail.drop j ∧ al s.tail j := by
  cases hf : findSlash (t.drop k) with
  | none => left; exact findSlash_none hf
  | some d' =>
    right
    obtain ⟨d, h1, h2⟩ := findSlash_drop_mono t k d' hf
    refine ⟨t.drop d, (t.drop k).drop d', k + d' - d, (findSlash_some h1).1, (findSlash_some hf).1, ?_, ?_⟩
    · rw [tail_is_drop, tail_is_drop, List.drop_drop, List.drop_drop, List.drop_drop, List.drop_drop]
      congr 1
      omega
    · by_cases hj : k + d' - d = 0
      · left; exact hj
      · right
        obtain ⟨u, hu⟩ := strchr_head _ _ (findSlash_some hf).1
        refine ⟨k + d' - d - 1, u, by omega, ?_⟩
        rw [← hu, tail_is_drop, List.drop_drop, List.drop_drop, List.drop_drop]
        congr 1
        omega

/-- git: a boundary run followed by an escaped slash is a star that crosses slashes, with no early try -/
theorem dw_bd_esc {f : Flags} {n : Nat} {prev : Option UInt8} {r t y : Bytes}
    (hp : f.pathname = true) (hpo : prevOk prev = true) (hx : r.dropWhile (· == 42) = 92 :: 47 :: y) :
    dowild f (n + 1) prev (42 :: 42 :: r) t =
      Spec.C36.starLoop f (fun tx => dowild f n none (92 :: 47 :: y) tx) (92 :: 47 :: y) true (t.length + 1)
        (Spec.C36.fold f (hd t)) t := by
  have h42 : Spec.C36.fold f 42 = 42 := by unfold Spec.C36.fold Spec.C36.isUpper; simp
  unfold prevOk at hpo
  conv => lhs; unfold dowild
  simp only [hd_cons, List.tail_cons, h42, hp, dropWhile42_cons42, hx, hpo]
  simp [hd]

theorem dowild_abort_sound_g (m : Mode) (hpm : m.noMatchSlash = true) :
    ∀ (n : Nat) (prev : Option UInt8) (p t : Bytes), (∀ c ∈ p, c ≠ 0) → (∀ c ∈ t, c ≠ 0) → p.length < n →
      dowild (flagsOf m) n prev p t = .abortAll →
      ∀ k, (isBnd prev p = true → al t k) → dowild (flagsOf m) n prev p (t.drop k) ≠ .matched := by
  have hpf : (flagsOf m).pathname = true := by simpa using hpm
  intro n
  induction n with
  | zero => intro prev p t _ _ _ h; simp [dowild] at h
  | succ n ih =>
    intro prev p t hpn htn hlen hAA k hal
    have hun : ∀ c ∈ t.drop k, c ≠ 0 := fun c hc => htn c (List.mem_of_mem_drop hc)
    cases p with
    | nil =>
      rw [dw_nil (by intro h; exact htn 0 h rfl)] at hAA
      split at hAA <;> cases hAA
    | cons c rest =>
      have hc0 : c ≠ 0 := hpn c (by simp)
      have hrn : ∀ x ∈ rest, x ≠ 0 := fun x hx => hpn x (by simp [hx])
      have hrl : rest.length < n := by simp at hlen; omega
      obtain ⟨s42, s92, s63, s91, s47, s0, s93⟩ := lc_special m c
      by_cases h42 : c = 42
      · subst h42
        have arm : ∀ (prev : Option UInt8) (rest : Bytes), (∀ x ∈ rest, x ≠ 0) → hd rest ≠ 42 → rest.length < n →
            dowild (flagsOf m) (n + 1) prev (42 :: rest) t = .abortAll →
            dowild (flagsOf m) (n + 1) prev (42 :: rest) (t.drop k) ≠ .matched := by
          intro prev rest hrn hne hrl hAA
          cases rest with
          | nil =>
            rw [dw_star_end] at hAA
            split at hAA <;> cases hAA
          | cons c1 r' =>
            have hc1 : c1 ≠ 42 := by simpa [hd] using hne
            have hc10 : c1 ≠ 0 := hrn c1 (by simp)
            rw [dw_star1 hc10 hc1] at hAA ⊢
            by_cases hj : ((flagsOf m).pathname && c1 == 47) = true
            · simp only [hj, if_true] at hAA ⊢
              cases hs : strchrSlash t with
              | none => rw [hs] at hAA; cases hAA
              | some s =>
                rw [hs] at hAA
                simp only at hAA
                rcases strchr_drop_al t k with h0 | ⟨s1, s', j, h1, h2, h3, h4⟩
                · rw [h0]; simp
                · rw [hs] at h1; cases h1
                  rw [h2]
                  simp only
                  rw [h3]
                  have hsn : ∀ c ∈ s.tail, c ≠ 0 := by
                    intro c hc
                    obtain ⟨d, hd1⟩ : ∃ d, s = t.drop d := by
                      cases hf : findSlash t with
                      | none => rw [findSlash_none hf] at hs; cases hs
                      | some d => exact ⟨d, by have := (findSlash_some hf).1; rw [hs] at this; cases this; rfl⟩
                    rw [hd1, tail_is_drop, List.drop_drop] at hc
                    exact htn c (List.mem_of_mem_drop hc)
                  exact ih (some 47) r' s.tail (fun x hx => hrn x (by simp [hx])) hsn (by simp at hrl; omega) hAA j
                    (fun _ => h4)
            · simp only [hj, Bool.false_eq_true, if_false] at hAA ⊢
              have hrec : ∀ j, dowild (flagsOf m) n none (c1 :: r') (t.drop j) = .abortAll →
                  ∀ i, dowild (flagsOf m) n none (c1 :: r') (t.drop (j + i)) ≠ .matched := by
                intro j hj' i
                have := ih none (c1 :: r') (t.drop j) hrn
                  (fun c hc => htn c (List.mem_of_mem_drop hc)) hrl hj' i
                  (fun hb => by rw [isBnd_ne42 hc1] at hb; cases hb)
                rwa [List.drop_drop] at this
              exact spec_starLoop_abort (flagsOf m) (fun tx => dowild (flagsOf m) n none (c1 :: r') tx) (c1 :: r')
                (!(flagsOf m).pathname) (by simpa [hd] using fold_ne0 m hc10) t htn (t.length + 1)
                (Spec.C36.fold (flagsOf m) (hd t)) (fold_hd_zero_iff m htn) hAA hrec k
                ((t.drop k).length + 1) (Spec.C36.fold (flagsOf m) (hd (t.drop k))) (fold_hd_zero_iff m hun)
        cases rest with
        | nil => exact arm prev [] (by simp) (by simp [hd]) (by simp; omega) hAA
        | cons a r2 =>
          by_cases ha : a = 42
          · subst ha
            have hxlen := dropWhile_length_le (· == 42) r2
            have hxn : ∀ c ∈ r2.dropWhile (· == 42), c ≠ 0 := by
              obtain ⟨kx, hkx⟩ := dropWhile_is_drop (· == 42) r2
              intro c hc; rw [hkx] at hc
              exact hrn c (by simp; right; exact List.mem_of_mem_drop hc)
            by_cases hpo : prevOk prev = true
            · cases hx : r2.dropWhile (· == 42) with
              | nil => rw [dw_run_end hpf hx hpo] at hAA; cases hAA
              | cons b y =>
                have hb0 : b ≠ 0 := by rw [hx] at hxn; exact hxn b (by simp)
                have hyn : ∀ c ∈ y, c ≠ 0 := fun c hc => by rw [hx] at hxn; exact hxn c (by simp [hc])
                have hylen : y.length + 1 ≤ r2.length := by rw [hx] at hxlen; simpa using hxlen
                by_cases hb47 : b = 47
                · -- a `**/` boundary: only suffixes behind a slash
                  subst hb47
                  have halk : al t k := hal (by simp [isBnd, hpo, hx, hd])
                  obtain ⟨n1, e⟩ : ∃ n1, n = n1 + 1 := ⟨n - 1, by simp at hrl; omega⟩
                  subst e
                  rw [dw_bd_ds hpf hpo hx] at hAA
                  have hE : dowild (flagsOf m) (n1 + 1) none y t ≠ .matched := by
                    intro h; simp [h] at hAA
                  have hSL : Spec.C36.starLoop (flagsOf m) (fun tx => dowild (flagsOf m) (n1 + 1) none (47 :: y) tx) (47 :: y) true
                      (t.length + 1) (Spec.C36.fold (flagsOf m) (hd t)) t = .abortAll := by
                    simpa [hE] using hAA
                  have hcl : ∀ j, dowild (flagsOf m) (n1 + 1) none (47 :: y) (t.drop j) = .abortAll →
                      ∀ i, dowild (flagsOf m) (n1 + 1) none (47 :: y) (t.drop (j + i)) ≠ .matched := by
                    intro j hj i
                    have := ih none (47 :: y) (t.drop j)
                      (by intro c hc; simp at hc; rcases hc with e | hc
                          · subst e; decide
                          · exact hyn c hc)
                      (fun c hc => htn c (List.mem_of_mem_drop hc)) (by simp at hrl ⊢; omega) hj i
                      (fun hb => by rw [isBnd_ne42 (by decide)] at hb; cases hb)
                    rwa [List.drop_drop] at this
                  have hloop : ∀ k', Spec.C36.starLoop (flagsOf m) (fun tx => dowild (flagsOf m) (n1 + 1) none (47 :: y) tx)
                      (47 :: y) true ((t.drop k').length + 1) (Spec.C36.fold (flagsOf m) (hd (t.drop k'))) (t.drop k')
                      ≠ .matched := by
                    intro k'
                    exact spec_starLoop_abort (flagsOf m) _ (47 :: y) true (by simp [hd, fold47]) t htn (t.length + 1) _
                      (fold_hd_zero_iff m htn) hSL hcl k' _ _
                      (fold_hd_zero_iff m (fun c hc => htn c (List.mem_of_mem_drop hc)))
                  rw [dw_bd_ds hpf hpo hx]
                  have hSL' := hloop k
                  have hE' : dowild (flagsOf m) (n1 + 1) none y (t.drop k) ≠ .matched := by
                    rcases halk with h0 | ⟨k', u, hk, hu⟩
                    · subst h0; simpa using hE
                    · intro hm
                      have hdk : t.drop k = u := by
                        rw [hk, ← List.drop_drop, hu]; rfl
                      rw [hdk] at hm
                      apply hloop k'
                      rw [hu]
                      have h47_0 : (47 : UInt8) ≠ 0 := by decide
                      have f1 : Spec.C36.fold (flagsOf m) 47 ≠ 42 := by rw [fold47]; decide
                      have f2 : Spec.C36.fold (flagsOf m) 47 ≠ 92 := by rw [fold47]; decide
                      have f3 : Spec.C36.fold (flagsOf m) 47 ≠ 63 := by rw [fold47]; decide
                      have f4 : Spec.C36.fold (flagsOf m) 47 ≠ 91 := by rw [fold47]; decide
                      have hrec : dowild (flagsOf m) (n1 + 1) none (47 :: y) (47 :: u) = .matched := by
                        rw [dw_lit h47_0 h47_0 f1 f2 f3 f4]
                        simp only [ne_eq, not_true, if_false]
                        rw [dowild_prev_congr (flagsOf m) n1 (some 47) none rfl,
                          ← dowild_fuel_stable (flagsOf m) n1 none y u (by simp at hrl; omega)]
                        exact hm
                      rw [sl_pass (flagsOf m) _ (47 :: y) true _ _ (Spec.C36.fold (flagsOf m) 47) (47 :: u)
                        (by simp [hd, fold47])
                        (Or.inr ⟨by simp [hd]; decide, by
                          simp only [hd, List.headD_cons]
                          exact scanLit_hit_spec (flagsOf m) true 47 u _ h47_0 (by simp) rfl, by simp [hd]⟩)]
                      simp [hrec]
                  have hEb : (dowild (flagsOf m) (n1 + 1) none y (t.drop k) == Wm.matched) = false := by simpa using hE'
                  simp only [hEb, Bool.false_eq_true, if_false]
                  exact hSL'
                · by_cases hesc : b = 92 ∧ hd y = 47
                  · -- a boundary run followed by an escaped slash: a slash-crossing star, no early try
                    obtain ⟨hb92, hy47⟩ := hesc
                    subst hb92
                    cases y with
                    | nil => simp [hd] at hy47
                    | cons y0 y' =>
                      simp only [hd, List.headD_cons] at hy47
                      subst hy47
                      rw [dw_bd_esc hpf hpo hx] at hAA ⊢
                      have hrec : ∀ j, dowild (flagsOf m) n none (92 :: 47 :: y') (t.drop j) = .abortAll →
                          ∀ i, dowild (flagsOf m) n none (92 :: 47 :: y') (t.drop (j + i)) ≠ .matched := by
                        intro j hj' i
                        have := ih none (92 :: 47 :: y') (t.drop j) (by rw [← hx]; exact hxn)
                          (fun c hc => htn c (List.mem_of_mem_drop hc)) (by simp at hrl hylen ⊢; omega) hj' i
                          (fun hb => by rw [isBnd_ne42 (by decide)] at hb; cases hb)
                        rwa [List.drop_drop] at this
                      exact spec_starLoop_abort (flagsOf m) _ (92 :: 47 :: y') true
                        (by simpa [hd] using fold_ne0 m (c := 92) (by decide)) t htn (t.length + 1)
                        (Spec.C36.fold (flagsOf m) (hd t)) (fold_hd_zero_iff m htn) hAA hrec k
                        ((t.drop k).length + 1) (Spec.C36.fold (flagsOf m) (hd (t.drop k))) (fold_hd_zero_iff m hun)
                  · have hnb : (prevOk prev && followsB (r2.dropWhile (· == 42))) = false := by
                      rw [hx, hpo]
                      simp only [followsB, hd, List.headD_cons, List.tail_cons, Bool.true_and]
                      simp [hb0, hb47]
                      intro e1 e2
                      exact hesc ⟨e1, by simpa [hd] using e2⟩
                    rw [dw_run_collapse (prev' := some 42) hpf hnb] at hAA ⊢
                    exact arm (some 42) _ hxn (hd_dropWhile42 r2) (by simp at hrl; omega) hAA
            · have hnb : (prevOk prev && followsB (r2.dropWhile (· == 42))) = false := by
                simp [hpo]
              rw [dw_run_collapse (prev' := some 42) hpf hnb] at hAA ⊢
              exact arm (some 42) _ hxn (hd_dropWhile42 r2) (by simp at hrl; omega) hAA
          · exact arm prev (a :: r2) hrn (by simpa [hd] using ha) hrl hAA
      · -- not a star: one text byte is consumed (or the text is exhausted)
        have hc42 : c ≠ 42 := h42
        cases hu : t.drop k with
        | nil => rw [dw_abort hc0 hc42]; simp
        | cons uc ur =>
          have huc0 : uc ≠ 0 := by rw [hu] at hun; exact hun uc (by simp)
          cases t with
          | nil => simp at hu
          | cons tc tr =>
            have htc0 : tc ≠ 0 := htn tc (by simp)
            have htrn : ∀ c ∈ tr, c ≠ 0 := fun x hx => htn x (by simp [hx])
            have hur : ur = tr.drop k := by
              have := congrArg List.tail hu
              simpa [List.tail_drop] using this.symm
            -- the suffix of `tr` is aligned if the consumed byte is a slash
            have halign : uc = 47 → al tr k := by
              intro e
              cases k with
              | zero => left; rfl
              | succ k' => right; exact ⟨k', ur, rfl, by rw [← e]; simpa using hu⟩
            by_cases h92 : c = 92
            · subst h92
              rw [dw_esc hc0 htc0 (by rw [fold_eq_lc, s92])] at hAA
              rw [dw_esc hc0 huc0 (by rw [fold_eq_lc, s92])]
              split at hAA
              · cases hAA
              · split
                · simp
                · rename_i hf
                  rw [hur]
                  refine ih _ _ _ (fun x hx => hrn x (List.mem_of_mem_tail hx)) htrn (by simp; omega) hAA k ?_
                  intro hb
                  apply halign
                  by_cases hpo : prevOk (some (hd rest)) = true
                  · have h47 : hd rest = 47 := by unfold prevOk at hpo; simpa using hpo
                    simp only [ne_eq, Decidable.not_not] at hf
                    rw [h47] at hf
                    exact (fold_eq47 m uc).mp hf
                  · rw [isBnd_prev (by simpa using hpo)] at hb; cases hb
            · by_cases h63 : c = 63
              · subst h63
                rw [dw_qm hc0 htc0 (by rw [fold_eq_lc, s63])] at hAA
                rw [dw_qm hc0 huc0 (by rw [fold_eq_lc, s63])]
                split at hAA
                · cases hAA
                · split
                  · simp
                  · rw [hur]
                    exact ih _ _ _ hrn htrn hrl hAA k (fun hb => by rw [isBnd_prev (by decide)] at hb; cases hb)
              · by_cases h91 : c = 91
                · subst h91
                  rw [dw_br hc0 htc0 (by rw [fold_eq_lc, s91])] at hAA
                  rw [dw_br hc0 huc0 (by rw [fold_eq_lc, s91])]
                  have hind := spec_bracket_indep (flagsOf m) (Spec.C36.fold (flagsOf m) tc)
                    (Spec.C36.fold (flagsOf m) uc) n rest
                  cases hb : Spec.C36.bracket (flagsOf m) (Spec.C36.fold (flagsOf m) tc) n rest with
                  | abort =>
                    rw [brShape_abort hind hb]; simp
                  | fuel => rw [hb] at hAA; cases hAA
                  | done ok r =>
                    rw [hb] at hAA
                    simp only at hAA
                    obtain ⟨ok', hb'⟩ := brShape_done hind hb
                    rw [hb']
                    simp only
                    split at hAA
                    · cases hAA
                    · split
                      · simp
                      · obtain ⟨j, hj⟩ := spec_bracket_suffix _ _ _ _ _ _ hb
                        have hlen' := spec_bracket_len _ _ _ _ _ _ hb
                        rw [hur]
                        exact ih _ r _
                          (fun x hx => hrn x (by rw [hj] at hx; exact List.mem_of_mem_drop hx)) htrn (by omega) hAA k
                          (fun hb => by rw [isBnd_prev (by decide)] at hb; cases hb)
                · have g1 : Spec.C36.fold (flagsOf m) c ≠ 42 := by rw [fold_eq_lc, Ne, s42]; exact hc42
                  have g2 : Spec.C36.fold (flagsOf m) c ≠ 92 := by rw [fold_eq_lc, Ne, s92]; exact h92
                  have g3 : Spec.C36.fold (flagsOf m) c ≠ 63 := by rw [fold_eq_lc, Ne, s63]; exact h63
                  have g4 : Spec.C36.fold (flagsOf m) c ≠ 91 := by rw [fold_eq_lc, Ne, s91]; exact h91
                  rw [dw_lit hc0 htc0 g1 g2 g3 g4] at hAA
                  rw [dw_lit hc0 huc0 g1 g2 g3 g4]
                  split at hAA
                  · cases hAA
                  · split
                    · simp
                    · rename_i hf
                      rw [hur]
                      refine ih _ _ _ hrn htrn hrl hAA k ?_
                      intro hb
                      apply halign
                      by_cases hpo : prevOk (some c) = true
                      · have h47 : c = 47 := by unfold prevOk at hpo; simpa using hpo
                        simp only [ne_eq, Decidable.not_not] at hf
                        rw [h47, fold47] at hf
                        exact (fold_eq47 m uc).mp hf
                      · rw [isBnd_prev (by simpa using hpo)] at hb; cases hb

theorem go_bd_esc {m : Mode} {fuel d : Nat} {pattern text : Bytes} {i ti : Nat} {tc : UInt8} {r tr y : Bytes}
    (hp : m.noMatchSlash = true) (hlead : leadOf pattern i = some true) (hx : r.dropWhile (· == 42) = 92 :: 47 :: y) :
    go m (fuel + 1) d pattern text ⟨i, 42 :: 42 :: r⟩ ⟨ti, tc :: tr⟩ =
      if recCall m fuel d pattern text (i + 2 + (r.length - (y.length + 2)) + 1) ti == .matched then .matched
      else C36.starLoop m (fun k => recCall m fuel d pattern text (i + 2 + (r.length - (y.length + 2))) k)
        92 true (tr.length + 1) ti (lc m tc) ⟨ti + 1, tr⟩ := by
  have hl47 : lc m 47 = 47 := (lc_special m 47).2.2.2.2.1.mpr rfl
  have hl92 : lc m 92 = 92 := (lc_special m 92).2.1.mpr rfl
  conv => lhs; unfold go
  simp only [Iter.next, STAR, BACKSLASH, SLASH, lc42, hp, Iter.skipStars, skipStarsAux_eq, List.dropWhile_cons, hx]
  unfold leadOf at hlead
  by_cases hi : i = 0
  · subst hi
    simp [hl47, hl92, recCall, Iter.peekCh]
    split <;> rename_i h <;> split at h <;> (try split at h) <;> (try split at h) <;> simp_all <;> congr 1
  · simp only [hi, if_false] at hlead
    have hi' : (i == 0) = false := by simpa using hi
    cases hpi : pattern[i - 1]? with
    | none => simp [hpi] at hlead
    | some b =>
      simp [hpi] at hlead
      simp [hi', hpi, hlead, hl47, hl92, recCall, Iter.peekCh]
      split <;> rename_i h <;> split at h <;> (try split at h) <;> (try split at h) <;> simp_all <;> congr 1

theorem go_bd_esc_nil {m : Mode} {fuel d : Nat} {pattern text : Bytes} {i ti : Nat} {r y : Bytes}
    (hp : m.noMatchSlash = true) (hlead : leadOf pattern i = some true) (hx : r.dropWhile (· == 42) = 92 :: 47 :: y) :
    go m (fuel + 1) d pattern text ⟨i, 42 :: 42 :: r⟩ ⟨ti, []⟩ =
      if recCall m fuel d pattern text (i + 2 + (r.length - (y.length + 2)) + 1) text.length == .matched then .matched
      else C36.starLoop m (fun k => recCall m fuel d pattern text (i + 2 + (r.length - (y.length + 2))) k)
        92 true 1 text.length 0 ⟨ti, []⟩ := by
  have hl47 : lc m 47 = 47 := (lc_special m 47).2.2.2.2.1.mpr rfl
  have hl92 : lc m 92 = 92 := (lc_special m 92).2.1.mpr rfl
  conv => lhs; unfold go
  simp only [Iter.next, STAR, BACKSLASH, SLASH, lc42, hp, Iter.skipStars, skipStarsAux_eq, List.dropWhile_cons, hx]
  unfold leadOf at hlead
  by_cases hi : i = 0
  · subst hi
    simp [hl47, hl92, recCall, Iter.peekCh]
    split <;> rename_i h <;> split at h <;> (try split at h) <;> (try split at h) <;> simp_all <;> congr 1
  · simp only [hi, if_false] at hlead
    have hi' : (i == 0) = false := by simpa using hi
    cases hpi : pattern[i - 1]? with
    | none => simp [hpi] at hlead
    | some b =>
      simp [hpi] at hlead
      simp [hi', hpi, hlead, hl47, hl92, recCall, Iter.peekCh]
      split <;> rename_i h <;> split at h <;> (try split at h) <;> (try split at h) <;> simp_all <;> congr 1

/-- A `**/` boundary run at index `i` (start of the pattern or behind a `/`) in front of a rest `y`
that has no further boundary, reached with no star above it. -/
theorem go_rel_bdH (m : Mode) (hpm : m.noMatchSlash = true) (n d : Nat) (p text r y ts : Bytes) (i ti : Nat)
    (prev : Option UInt8)
    (hinv : p.drop i = 42 :: 42 :: r) (htinv : text.drop ti = ts) (hx : r.dropWhile (· == 42) = 47 :: y)
    (hok : PatOk m p) (htext : ∀ c ∈ text, c ≠ 0) (hY : ∀ text', (∀ c ∈ text', c ≠ 0) →
      RelAA (go m n (d - 1) y text' ⟨0, y⟩ ⟨0, text'⟩) (dowild (flagsOf m) n none y text'))
    (hX : ∀ text', (∀ c ∈ text', c ≠ 0) →
      RelAA (go m n (d - 1) (47 :: y) text' ⟨0, 47 :: y⟩ ⟨0, text'⟩) (dowild (flagsOf m) n none (47 :: y) text'))
    (hcl : ∀ t, (∀ c ∈ t, c ≠ 0) → dowild (flagsOf m) n none (47 :: y) t = .abortAll →
      ∀ k, dowild (flagsOf m) n none (47 :: y) (t.drop k) ≠ .matched)
    (hprev : prev = if i = 0 then none else p[i - 1]?) (hpo : prevOk prev = true)
    (hfuel : y.length + 1 ≤ n) (hdepth : count42 y + 1 ≤ d) :
    RelAA (go m (n + 1) d p text ⟨i, 42 :: 42 :: r⟩ ⟨ti, ts⟩) (dowild (flagsOf m) (n + 1) prev (42 :: 42 :: r) ts) := by
  have hpf : (flagsOf m).pathname = true := by simpa using hpm
  have hl47 : lc m 47 = 47 := (lc_special m 47).2.2.2.2.1.mpr rfl
  have hdne : d ≠ 0 := by omega
  have hilt : i < p.length := lt_of_drop_cons hinv
  have hlead : leadOf p i = some true := by
    unfold leadOf
    by_cases hi : i = 0
    · simp [hi]
    · simp only [hi, if_false] at hprev ⊢
      have : i - 1 < p.length := by omega
      rw [List.getElem?_eq_getElem this] at hprev ⊢
      rw [hprev] at hpo
      simpa [prevOk] using hpo
  -- where the slash sits
  obtain ⟨kx, hkx⟩ := dropWhile_is_drop (· == 42) r
  rw [hx] at hkx
  have hkxl : kx = r.length - (y.length + 1) := by
    have := congrArg List.length hkx
    simp at this; omega
  have hkxle : kx + (y.length + 1) = r.length := by
    have := congrArg List.length hkx
    simp at this; omega
  have hplen : p.length = i + (2 + r.length) := by
    have := congrArg List.length hinv
    simp at this; omega
  have hinvX : p.drop (i + 2 + (r.length - (y.length + 1))) = 47 :: y := by
    rw [← hkxl, Nat.add_assoc, ← List.drop_drop, hinv, hkx, Nat.add_comm]; rfl
  have hinvY : p.drop (i + 2 + (r.length - (y.length + 1)) + 1) = y := drop_succ_of_drop hinvX
  have hXlen : i + 2 + (r.length - (y.length + 1)) + 1 ≤ p.length := by omega
  have hXok : PatOk m (47 :: y) := by rw [← hinvX]; exact patOk_drop hok _
  have hYok : PatOk m y := by rw [← hinvY]; exact patOk_drop hok _
  have hc0 : (47 : UInt8) ≠ 0 := by decide
  have hc42 : (47 : UInt8) ≠ 42 := by decide
  have hrecX : ∀ k, k ≤ text.length →
      RelAA (recCall m n d p text (i + 2 + (r.length - (y.length + 1))) k)
        (dowild (flagsOf m) n none (47 :: y) (text.drop k)) := by
    intro k hk
    unfold recCall sliceFrom
    have : i + 2 + (r.length - (y.length + 1)) ≤ p.length := by omega
    simp only [this, hk, if_true]
    have hd' : (d == 0) = false := by simpa using hdne
    simp only [hd', Bool.false_eq_true, if_false, Iter.ofSlice, hinvX]
    exact hX (text.drop k) (fun c hc => htext c (List.mem_of_mem_drop hc))
  have hrecY : ∀ k, k ≤ text.length →
      RelAA (recCall m n d p text (i + 2 + (r.length - (y.length + 1)) + 1) k)
        (dowild (flagsOf m) n none y (text.drop k)) := by
    intro k hk
    unfold recCall sliceFrom
    simp only [hXlen, hk, if_true]
    have hd' : (d == 0) = false := by simpa using hdne
    simp only [hd', Bool.false_eq_true, if_false, Iter.ofSlice, hinvY]
    exact hY (text.drop k) (fun c hc => htext c (List.mem_of_mem_drop hc))
  have hrecBeyond : ∀ k, text.length < k →
      recCall m n d p text (i + 2 + (r.length - (y.length + 1))) k ≠ .matched := by
    intro k hk
    unfold recCall sliceFrom
    have : ¬ k ≤ text.length := by omega
    simp [this]
  have hXend : recCall m n d p text (i + 2 + (r.length - (y.length + 1))) text.length ≠ .matched := by
    have hR := hrecX text.length (Nat.le_refl _)
    simp only [List.drop_length] at hR
    obtain ⟨n', e⟩ : ∃ n', n = n' + 1 := ⟨n - 1, by omega⟩
    subst e
    rw [dw_abort hc0 hc42] at hR
    exact hR.ne_matched (by simp)
  have htnn : ∀ c ∈ ts, c ≠ 0 := fun c hc => htext c (List.mem_of_mem_drop (htinv ▸ hc))
  rw [dw_bd_ds hpf hpo hx]
  cases ts with
  | nil =>
    rw [go_bd_ds_nil hpm hlead hx]
    have hR := hrecY text.length (Nat.le_refl _)
    simp only [List.drop_length] at hR ⊢
    by_cases hm : dowild (flagsOf m) n none y [] = .matched
    · rw [hm] at hR
      have : recCall m n d p text (i + 2 + (r.length - (y.length + 1)) + 1) text.length = .matched := by
        rcases hR with h | ⟨h, _⟩
        · simpa [ofWm] using h
        · cases h
      left
      simp [hm, this, ofWm]
    · have hne := hR.ne_matched hm
      have hf0 : Spec.C36.fold (flagsOf m) 0 = 0 := by rw [fold_eq_lc]; exact (lc_special m 0).2.2.2.2.2.1.mpr rfl
      simp only [hd, List.headD_nil, hf0, sl_zero]
      right
      have hg : isGlobCharacter 47 = false := by decide
      rw [starLoop_end m _ _ _ _ hg (by decide)]
      simp [hm, hne]
  | cons tc tr =>
    rw [go_bd_ds hpm hlead hx]
    have hti := lt_of_drop_cons htinv
    have hlen : text.length - ti = tr.length + 1 := by
      have := congrArg List.length htinv
      simpa using this
    have hR := hrecY ti (Nat.le_of_lt hti)
    rw [htinv] at hR
    by_cases hm : dowild (flagsOf m) n none y (tc :: tr) = .matched
    · rw [hm] at hR
      have : recCall m n d p text (i + 2 + (r.length - (y.length + 1)) + 1) ti = .matched := by
        rcases hR with h | ⟨h, _⟩
        · simpa [ofWm] using h
        · cases h
      left
      simp [hm, this, ofWm]
    · have hne := hR.ne_matched hm
      have := starLoop_relAA m (fun k => recCall m n d p text (i + 2 + (r.length - (y.length + 1))) k)
        (fun tx => dowild (flagsOf m) n none (47 :: y) tx) (47 :: y) true
        (by simp [hd]) (by simp)
        (tc :: tr) htnn (by simp) ti (tr.length + 1) ((tc :: tr).length + 1)
        (Spec.C36.fold (flagsOf m) (hd (tc :: tr)))
        (by simp) (by simp) (Or.inr rfl)
        (by
          intro j hj
          have := hrecX (ti + j) (by simp at hj; omega)
          rwa [drop_add_eq htinv j] at this)
        (by
          intro k' hk'
          by_cases hk : k' ≤ text.length
          · have hke : k' = text.length := by simp at hk'; omega
            rw [hke]; exact hXend
          · exact hrecBeyond k' (by omega))
        (by
          intro j hj' i'
          have := hcl ((tc :: tr).drop j) (fun c hc => htnn c (List.mem_of_mem_drop hc)) hj' i'
          rwa [List.drop_drop] at this)
      simpa [hd, hl47, hm, hne] using this




theorem esc_eq_lit (m : Mode) (n : Nat) (pv : Option UInt8) (y t : Bytes) (ht : ∀ c ∈ t, c ≠ 0) :
    dowild (flagsOf m) n pv (92 :: 47 :: y) t = dowild (flagsOf m) n pv (47 :: y) t := by
  cases n with
  | zero => simp [dowild]
  | succ n =>
    cases t with
    | nil => rw [dw_abort (by decide) (by decide), dw_abort (by decide) (by decide)]
    | cons tc tr =>
      have htc : tc ≠ 0 := ht tc (by simp)
      have f92 : Spec.C36.fold (flagsOf m) 92 = 92 := by rw [fold_eq_lc]; exact (lc_special m 92).2.1.mpr rfl
      rw [dw_esc (by decide) htc f92,
        dw_lit (by decide) htc (by rw [fold47]; decide) (by rw [fold47]; decide) (by rw [fold47]; decide)
          (by rw [fold47]; decide)]
      simp [hd, fold47]

/-- A boundary run followed by an escaped slash (`**\/y`): gitoxide first tries `/y` on the whole text
(git does not), then both let the stars cross slashes with `\/y` behind them; the extra try is
harmless because git's loop makes the same call first. -/
theorem go_rel_bdE (m : Mode) (hpm : m.noMatchSlash = true) (n d : Nat) (p text r y ts : Bytes) (i ti : Nat)
    (prev : Option UInt8)
    (hinv : p.drop i = 42 :: 42 :: r) (htinv : text.drop ti = ts) (hx : r.dropWhile (· == 42) = 92 :: 47 :: y)
    (htext : ∀ c ∈ text, c ≠ 0)
    (hYs : ∀ text', (∀ c ∈ text', c ≠ 0) →
      RelAA (go m n (d - 1) (47 :: y) text' ⟨0, 47 :: y⟩ ⟨0, text'⟩) (dowild (flagsOf m) n none (47 :: y) text'))
    (hX : ∀ text', (∀ c ∈ text', c ≠ 0) →
      RelAA (go m n (d - 1) (92 :: 47 :: y) text' ⟨0, 92 :: 47 :: y⟩ ⟨0, text'⟩)
        (dowild (flagsOf m) n none (92 :: 47 :: y) text'))
    (hcl : ∀ t, (∀ c ∈ t, c ≠ 0) → dowild (flagsOf m) n none (92 :: 47 :: y) t = .abortAll →
      ∀ k, dowild (flagsOf m) n none (92 :: 47 :: y) (t.drop k) ≠ .matched)
    (hprev : prev = if i = 0 then none else p[i - 1]?) (hpo : prevOk prev = true)
    (hfuel : 1 ≤ n) (hdne : d ≠ 0) :
    RelAA (go m (n + 1) d p text ⟨i, 42 :: 42 :: r⟩ ⟨ti, ts⟩) (dowild (flagsOf m) (n + 1) prev (42 :: 42 :: r) ts) := by
  have hpf : (flagsOf m).pathname = true := by simpa using hpm
  have hl92 : lc m 92 = 92 := (lc_special m 92).2.1.mpr rfl
  have hilt : i < p.length := lt_of_drop_cons hinv
  have hlead : leadOf p i = some true := by
    unfold leadOf
    by_cases hi : i = 0
    · simp [hi]
    · simp only [hi, if_false] at hprev ⊢
      have : i - 1 < p.length := by omega
      rw [List.getElem?_eq_getElem this] at hprev ⊢
      rw [hprev] at hpo
      simpa [prevOk] using hpo
  obtain ⟨kx, hkx⟩ := dropWhile_is_drop (· == 42) r
  rw [hx] at hkx
  have hkxl : kx = r.length - (y.length + 2) := by
    have := congrArg List.length hkx
    simp at this; omega
  have hkxle : kx + (y.length + 2) = r.length := by
    have := congrArg List.length hkx
    simp at this; omega
  have hplen : p.length = i + (2 + r.length) := by
    have := congrArg List.length hinv
    simp at this; omega
  have hinvX : p.drop (i + 2 + (r.length - (y.length + 2))) = 92 :: 47 :: y := by
    rw [← hkxl, Nat.add_assoc, ← List.drop_drop, hinv, hkx, Nat.add_comm]; rfl
  have hinvY : p.drop (i + 2 + (r.length - (y.length + 2)) + 1) = 47 :: y := drop_succ_of_drop hinvX
  have hXlen : i + 2 + (r.length - (y.length + 2)) + 1 ≤ p.length := by omega
  have hrecX : ∀ k, k ≤ text.length →
      RelAA (recCall m n d p text (i + 2 + (r.length - (y.length + 2))) k)
        (dowild (flagsOf m) n none (92 :: 47 :: y) (text.drop k)) := by
    intro k hk
    unfold recCall sliceFrom
    have : i + 2 + (r.length - (y.length + 2)) ≤ p.length := by omega
    simp only [this, hk, if_true]
    have hd' : (d == 0) = false := by simpa using hdne
    simp only [hd', Bool.false_eq_true, if_false, Iter.ofSlice, hinvX]
    exact hX (text.drop k) (fun c hc => htext c (List.mem_of_mem_drop hc))
  have hrecY : ∀ k, k ≤ text.length →
      RelAA (recCall m n d p text (i + 2 + (r.length - (y.length + 2)) + 1) k)
        (dowild (flagsOf m) n none (47 :: y) (text.drop k)) := by
    intro k hk
    unfold recCall sliceFrom
    simp only [hXlen, hk, if_true]
    have hd' : (d == 0) = false := by simpa using hdne
    simp only [hd', Bool.false_eq_true, if_false, Iter.ofSlice, hinvY]
    exact hYs (text.drop k) (fun c hc => htext c (List.mem_of_mem_drop hc))
  have hrecBeyond : ∀ k, text.length < k →
      recCall m n d p text (i + 2 + (r.length - (y.length + 2))) k ≠ .matched := by
    intro k hk
    unfold recCall sliceFrom
    have : ¬ k ≤ text.length := by omega
    simp [this]
  obtain ⟨n', e⟩ : ∃ n', n = n' + 1 := ⟨n - 1, by omega⟩
  subst e
  have hXend : recCall m (n' + 1) d p text (i + 2 + (r.length - (y.length + 2))) text.length ≠ .matched := by
    have hR := hrecX text.length (Nat.le_refl _)
    simp only [List.drop_length] at hR
    rw [dw_abort (by decide) (by decide)] at hR
    exact hR.ne_matched (by simp)
  have hYend : recCall m (n' + 1) d p text (i + 2 + (r.length - (y.length + 2)) + 1) text.length ≠ .matched := by
    have hR := hrecY text.length (Nat.le_refl _)
    simp only [List.drop_length] at hR
    rw [dw_abort (by decide) (by decide)] at hR
    exact hR.ne_matched (by simp)
  have htnn : ∀ c ∈ ts, c ≠ 0 := fun c hc => htext c (List.mem_of_mem_drop (htinv ▸ hc))
  rw [dw_bd_esc hpf hpo hx]
  cases ts with
  | nil =>
    rw [go_bd_esc_nil hpm hlead hx]
    have hf0 : Spec.C36.fold (flagsOf m) 0 = 0 := by rw [fold_eq_lc]; exact (lc_special m 0).2.2.2.2.2.1.mpr rfl
    simp only [hd, List.headD_nil, hf0, List.length_nil, sl_zero]
    right
    refine ⟨rfl, ?_⟩
    have hYb : (recCall m (n' + 1) d p text (i + 2 + (r.length - (y.length + 2)) + 1) text.length == Res.matched) = false := by
      simpa using hYend
    simp only [hYb, Bool.false_eq_true, if_false]
    have hg : isGlobCharacter 92 = true := by decide
    rw [starLoop_glob m _ _ _ _ hg]
    simp only [Iter.next]
    split
    · exact hXend
    · split <;> simp
  | cons tc tr =>
    rw [go_bd_esc hpm hlead hx]
    have hti := lt_of_drop_cons htinv
    have hR := hrecY ti (Nat.le_of_lt hti)
    rw [htinv] at hR
    by_cases hm : dowild (flagsOf m) (n' + 1) none (47 :: y) (tc :: tr) = .matched
    · rw [hm] at hR
      have hM : recCall m (n' + 1) d p text (i + 2 + (r.length - (y.length + 2)) + 1) ti = .matched := by
        rcases hR with h | ⟨h, _⟩
        · simpa [ofWm] using h
        · cases h
      left
      have htc : tc ≠ 0 := htnn tc (by simp)
      rw [sl_pass (flagsOf m) _ (92 :: 47 :: y) true _ _ (Spec.C36.fold (flagsOf m) (hd (tc :: tr))) (tc :: tr)
        (by simpa [hd] using fold_ne0 m htc) (Or.inl ⟨by simp [hd]; decide, rfl⟩)]
      simp only [esc_eq_lit m _ _ _ _ htnn, hm]
      simp [hM, ofWm]
    · have hne := hR.ne_matched hm
      have hYb : (recCall m (n' + 1) d p text (i + 2 + (r.length - (y.length + 2)) + 1) ti == Res.matched) = false := by
        simpa using hne
      simp only [hYb, Bool.false_eq_true, if_false]
      have := starLoop_relAA m (fun k => recCall m (n' + 1) d p text (i + 2 + (r.length - (y.length + 2))) k)
        (fun tx => dowild (flagsOf m) (n' + 1) none (92 :: 47 :: y) tx) (92 :: 47 :: y) true
        (by simp [hd]) (by simp)
        (tc :: tr) htnn (by simp) ti (tr.length + 1) ((tc :: tr).length + 1)
        (Spec.C36.fold (flagsOf m) (hd (tc :: tr)))
        (by simp) (by simp) (Or.inr rfl)
        (by
          intro j hj
          have := hrecX (ti + j) (by
            have := congrArg List.length htinv
            simp at this hj; omega)
          rwa [drop_add_eq htinv j] at this)
        (by
          intro k' hk'
          by_cases hk : k' ≤ text.length
          · have hke : k' = text.length := by
              have := congrArg List.length htinv
              simp at this hk'; omega
            rw [hke]; exact hXend
          · exact hrecBeyond k' (by omega))
        (by
          intro j hj' i'
          have := hcl ((tc :: tr).drop j) (fun c hc => htnn c (List.mem_of_mem_drop hc)) hj' i'
          rwa [List.drop_drop] at this)
      simpa [hd, hl92] using this


/-- path mode, every pattern: the joint induction with the look-behind byte, the `**/` and `**\/`
boundary arms included; git's ABORT_ALL from below a star is covered by `dowild_abort_sound_g` -/
theorem go_rel_g (m : Mode) (hpm : m.noMatchSlash = true) :
    ∀ (fuel d : Nat) (pattern text : Bytes), PatOk m pattern → (∀ c ∈ text, c ≠ 0) →
      ∀ (ps ts : Bytes) (i ti : Nat) (prev : Option UInt8),
        pattern.drop i = ps → text.drop ti = ts → ps.length < fuel → count42 ps ≤ d →
        (ps ≠ [] → prev = if i = 0 then none else pattern[i - 1]?) →
        RelAA (go m fuel d pattern text ⟨i, ps⟩ ⟨ti, ts⟩) (dowild (flagsOf m) fuel prev ps ts) := by
  intro fuel
  induction fuel with
  | zero => intros; left; simp [go, dowild, ofWm]
  | succ n ih =>
    intro d pattern text hok htext ps ts i ti prev hinv htinv hfuel hdepth hprev
    have htnn : ∀ c ∈ ts, c ≠ 0 := fun c hc => htext c (List.mem_of_mem_drop (htinv ▸ hc))
    cases ps with
    | nil =>
      left
      rw [go_nil, dw_nil (by intro h; exact (htnn 0 h) rfl)]
      cases ts <;> simp [ofWm]
    | cons c r =>
      have hmem : ∀ x ∈ c :: r, x ∈ pattern := fun x hx => List.mem_of_mem_drop (hinv ▸ hx)
      have hc0 : c ≠ 0 := hok.noNul c (hmem c (by simp))
      have hr := drop_succ_of_drop hinv
      have hrl : r.length < n := by simp at hfuel; omega
      have hrd : count42 r ≤ d := Nat.le_trans (count42_tail_le c r) hdepth
      obtain ⟨s42, s92, s63, s91, s47, s0, s93⟩ := lc_special m c
      by_cases h42 : c = 42
      · subst h42
        have hpf : (flagsOf m).pathname = true := by simpa using hpm
        -- a single star (or the last star of a collapsed run) at index `i` in front of `r`
        have arm : ∀ (i : Nat) (r : Bytes) (prev : Option UInt8), pattern.drop i = 42 :: r → hd r ≠ 42 →
            r.length < n → count42 r + 1 ≤ d →
            RelAA (go m (n + 1) d pattern text ⟨i, 42 :: r⟩ ⟨ti, ts⟩)
              (dowild (flagsOf m) (n + 1) prev (42 :: r) ts) := by
          intro i r prev hinv hne hrl hdpos
          have hr := drop_succ_of_drop hinv
          have hdne : d ≠ 0 := by omega
          have hilen : i + 1 ≤ pattern.length := lt_of_drop_cons hinv
          cases r with
          | nil =>
            left
            rw [go_star_end', dw_star_end]
            have hs : sliceFrom text (if ts.isEmpty then text.length else ti) = some ts := by
              unfold sliceFrom
              cases ts with
              | nil => simp
              | cons a b =>
                have := lt_of_drop_cons htinv
                simp [Nat.le_of_lt this, htinv]
            rw [hs]
            simp only [contains47_iff, flagsOf_pathname]
            by_cases hcnd : (m.noMatchSlash && (strchrSlash ts).isSome) = true
            · simp [hcnd, ofWm]
            · simp [hcnd, ofWm]
          | cons c1 r' =>
            have hc1_42 : c1 ≠ 42 := by simpa [hd] using hne
            have hc1_0 : c1 ≠ 0 := hok.noNul c1 (List.mem_of_mem_drop (hinv ▸ (by simp : c1 ∈ (42 : UInt8) :: c1 :: r')))
            have hl42 : lc m c1 ≠ 42 := fun h => hc1_42 ((lc_special m c1).1.mp h)
            have h47 : lc m c1 = 47 ↔ c1 = 47 := (lc_special m c1).2.2.2.2.1
            have hr2 := drop_succ_of_drop hr
            rw [dw_star1 hc1_0 hc1_42]
            by_cases hns : m.noMatchSlash = true ∧ lc m c1 = 47
            · have hcS : ((flagsOf m).pathname && c1 == 47) = true := by
                simp [hns.1, h47.mp hns.2]
              simp only [hcS, if_true]
              cases ts with
              | nil =>
                left
                rw [go_star1_slash_nil hns]
                simp [strchrSlash, ofWm]
              | cons tc tr =>
                have hti := lt_of_drop_cons htinv
                rw [go_star1_slash hns]
                have hsl : sliceFrom text ti = some (tc :: tr) := by
                  unfold sliceFrom; simp [Nat.le_of_lt hti, htinv]
                rw [hsl]
                simp only []
                cases hf : findSlash (tc :: tr) with
                | none => left; simp [findSlash_none hf, ofWm]
                | some dist =>
                  obtain ⟨h1, h2⟩ := findSlash_some hf
                  rw [h1]
                  simp only []
                  have hd' : dist ≤ tr.length := by simp at h2; omega
                  have hadv : (Iter.mk (ti + 1) tr).advance dist = ⟨ti + 1 + dist, tr.drop dist⟩ := by
                    simp [Iter.advance, Nat.min_eq_left hd']
                  rw [hadv]
                  have htail : (List.drop dist (tc :: tr)).tail = tr.drop dist := by
                    rw [List.tail_drop]; simp
                  rw [htail]
                  have hc47 : c1 = 47 := h47.mp hns.2
                  exact ih d pattern text hok htext r' (tr.drop dist) (i + 2) (ti + 1 + dist) (some 47) hr2
                    (by
                      have := drop_add_eq htinv (1 + dist)
                      rw [← Nat.add_assoc] at this
                      rw [this]; simp [Nat.add_comm 1 dist])
                    (by simp at hrl ⊢; omega)
                    (Nat.le_trans (count42_tail_le c1 r') (by omega))
                    (fun _ => by
                      have := getElem?_of_drop hr
                      simp [this, hc47])
            · have hcS : ((flagsOf m).pathname && c1 == 47) = false := by
                cases hp : m.noMatchSlash with
                | false => simp [hp]
                | true =>
                  have : ¬ c1 = 47 := fun e => hns ⟨hp, h47.mpr e⟩
                  simp [hp, this]
              simp only [hcS, Bool.false_eq_true, if_false]
              -- the recursive calls: by the induction hypothesis, on the rest of the pattern
              have hsubok : PatOk m (c1 :: r') := by rw [← hr]; exact patOk_drop hok (i + 1)
              have hrecM : ∀ k, k ≤ text.length →
                  RelAA (recCall m n d pattern text (i + 1) k)
                    (dowild (flagsOf m) n none (c1 :: r') (text.drop k)) := by
                intro k hk
                unfold recCall sliceFrom
                simp only [hilen, hk, if_true]
                have hd' : (d == 0) = false := by simpa using hdne
                simp only [hd', Bool.false_eq_true, if_false, Iter.ofSlice, hr]
                exact ih (d - 1) (c1 :: r') (text.drop k) hsubok
                  (fun c hc => htext c (List.mem_of_mem_drop hc)) (c1 :: r') (text.drop k) 0 0 none
                  (by simp) (by simp) (by simpa using hrl) (by omega) (fun _ => rfl)
              have hrecBeyond : ∀ k, text.length < k → recCall m n d pattern text (i + 1) k ≠ .matched := by
                intro k hk
                unfold recCall sliceFrom
                have : ¬ k ≤ text.length := by omega
                simp [this]
              cases ts with
              | nil =>
                rw [go_star1_nil hl42 hns]
                simp only [hd, List.headD_nil]
                have hf0 : Spec.C36.fold (flagsOf m) 0 = 0 := by rw [fold_eq_lc]; exact (lc_special m 0).2.2.2.2.2.1.mpr rfl
                rw [hf0, List.length_nil, sl_zero]
                right
                refine ⟨rfl, ?_⟩
                by_cases hg : isGlobCharacter (lc m c1) = true
                · rw [starLoop_glob m _ _ _ _ hg]
                  have hR := hrecM text.length (Nat.le_refl _)
                  simp only [List.drop_length] at hR
                  obtain ⟨n', e⟩ : ∃ n', n = n' + 1 := ⟨n - 1, by simp at hrl; omega⟩
                  subst e
                  rw [dw_abort hc1_0 hc1_42] at hR
                  have hne := hR.ne_matched (by simp)
                  simp only [Iter.next]
                  split
                  · exact hne
                  · split <;> simp
                · simp only [Bool.not_eq_true] at hg
                  have hne : (0 : UInt8) ≠ lc m c1 := fun h => hc1_0 ((lc_special m c1).2.2.2.2.2.1.mp h.symm)
                  rw [starLoop_end m _ _ _ _ hg hne]
                  simp
              | cons tc tr =>
                have hti := lt_of_drop_cons htinv
                have hlen : text.length - ti = tr.length + 1 := by
                  have := congrArg List.length htinv
                  simpa using this
                rw [go_star1 hl42 hns]
                have := starLoop_relAA m (fun k => recCall m n d pattern text (i + 1) k)
                  (fun tx => dowild (flagsOf m) n none (c1 :: r') tx) (c1 :: r') (!m.noMatchSlash)
                  (by simpa [hd] using hc1_0)
                  (by
                    intro ⟨h1, h2⟩
                    apply hns
                    refine ⟨by simpa using h1, by simpa [hd] using h2⟩)
                  (tc :: tr) htnn (by simp) ti (tr.length + 1) ((tc :: tr).length + 1)
                  (Spec.C36.fold (flagsOf m) (hd (tc :: tr)))
                  (by simp) (by simp) (Or.inr rfl)
                  (by
                    intro j hj
                    have := hrecM (ti + j) (by simp at hj; omega)
                    rwa [drop_add_eq htinv j] at this)
                  (by
                    intro k' hk'
                    by_cases hk : k' ≤ text.length
                    · -- exactly the end of the text: the recursive call sees an empty text and aborts
                      have hke : k' = text.length := by simp at hk'; omega
                      subst hke
                      have hR := hrecM text.length (Nat.le_refl _)
                      simp only [List.drop_length] at hR
                      obtain ⟨n', e⟩ : ∃ n', n = n' + 1 := ⟨n - 1, by simp at hrl; omega⟩
                      subst e
                      rw [dw_abort hc1_0 hc1_42] at hR
                      exact hR.ne_matched (by simp)
                    · exact hrecBeyond k' (by omega))
                  (by
                    intro j hj' i'
                    have := dowild_abort_sound_g m hpm n none (c1 :: r') ((tc :: tr).drop j) hsubok.noNul
                      (fun c hc => htnn c (List.mem_of_mem_drop hc)) hrl hj' i'
                      (fun hb => by rw [isBnd_ne42 hc1_42] at hb; cases hb)
                    rwa [List.drop_drop] at this)
                simpa [hd, flagsOf_pathname] using this
        have hr2len : r.length < n := hrl
        cases r with
        | nil => exact arm i [] prev hinv (by simp [hd]) hr2len (by rw [count42_cons42] at hdepth; exact hdepth)
        | cons a r2 =>
          by_cases ha : a = 42
          · subst ha
            -- a run of stars
            have hxlen := dropWhile_length_le (· == 42) r2
            have hxcnt : count42 (r2.dropWhile (· == 42)) ≤ count42 r2 := by
              obtain ⟨kx, hkx⟩ := dropWhile_is_drop (· == 42) r2
              rw [hkx]; exact count42_drop r2 kx
            have hdep2 : count42 r2 + 2 ≤ d := by
              rw [count42_cons42, count42_cons42] at hdepth; omega
            have hilt : i < pattern.length := lt_of_drop_cons hinv
            -- the look-behind of the model is the look-behind of git
            have hlead : leadOf pattern i = some (prevOk prev) := by
              have hp := hprev (by simp)
              unfold leadOf
              by_cases hi : i = 0
              · simp [hi] at hp ⊢; simp [hp, prevOk]
              · simp only [hi, if_false] at hp ⊢
                have : i - 1 < pattern.length := by omega
                rw [List.getElem?_eq_getElem this] at hp ⊢
                simp [hp, prevOk]
            obtain ⟨kx, hkx⟩ := dropWhile_is_drop (· == 42) r2
            have hxn : ∀ c ∈ r2.dropWhile (· == 42), c ≠ 0 := by
              intro c hc; rw [hkx] at hc
              have h1 : c ∈ r2 := List.mem_of_mem_drop hc
              have h2 : c ∈ ((42 : UInt8) :: 42 :: r2) := by simp [h1]
              exact hok.noNul c (List.mem_of_mem_drop (hinv ▸ h2))
            have hXsuf : r2.dropWhile (· == 42) = pattern.drop (i + 2 + kx) := by
              rw [hkx, Nat.add_assoc, ← List.drop_drop, hinv, Nat.add_comm]; rfl
            have collapse : (prevOk prev && followsB (r2.dropWhile (· == 42))) = false →
                (prevOk prev && followsM (r2.dropWhile (· == 42))) = false →
                RelAA (go m (n + 1) d pattern text ⟨i, 42 :: 42 :: r2⟩ ⟨ti, ts⟩)
                  (dowild (flagsOf m) (n + 1) prev (42 :: 42 :: r2) ts) := by
              intro hnbS hnbM
              rw [go_run_collapse hpm (prevOk prev) hlead hnbM, dw_run_collapse (prev' := some 42) hpf hnbS]
              have hr2 : pattern.drop (i + 1) = 42 :: r2 := drop_succ_of_drop hinv
              exact arm _ _ (some 42)
                (by rw [← List.drop_drop, hr2]; exact run_drop r2)
                (hd_dropWhile42 r2) (by simp at hr2len; omega) (by omega)
            by_cases hpo : prevOk prev = true
            · cases hx : r2.dropWhile (· == 42) with
              | nil =>
                left
                rw [go_run_end hpm (by rw [hlead, hpo]) hx (fun hts => Nat.le_of_lt (by
                    cases ts with
                    | nil => exact absurd rfl hts
                    | cons a b => exact lt_of_drop_cons htinv)),
                  dw_run_end hpf hx hpo]
                rfl
              | cons b y =>
                rw [hx] at hxn hxlen hxcnt hXsuf
                have hb0 : b ≠ 0 := hxn b (by simp)
                have hyn : ∀ c ∈ y, c ≠ 0 := fun c hc => hxn c (by simp [hc])
                have hylen : y.length + 1 ≤ r2.length := by simpa using hxlen
                have hycnt : count42 y ≤ count42 r2 := Nat.le_trans (count42_tail_le b y) hxcnt
                have hYsuf : y = pattern.drop (i + 2 + kx + 1) := (drop_succ_of_drop hXsuf.symm).symm
                have hYok : PatOk m y := by rw [hYsuf]; exact patOk_drop hok _
                have hXok : PatOk m (b :: y) := by rw [hXsuf]; exact patOk_drop hok _
                by_cases hb47 : b = 47
                · subst hb47
                  exact go_rel_bdH m hpm n d pattern text r2 y ts i ti prev hinv htinv hx hok htext
                    (fun text' ht' => ih (d - 1) y text' hYok ht' y text' 0 0 none (by simp) (by simp)
                      (by simp at hr2len; omega) (by omega) (fun _ => rfl))
                    (fun text' ht' => ih (d - 1) (47 :: y) text' hXok ht' (47 :: y) text' 0 0 none (by simp) (by simp)
                      (by simp at hr2len ⊢; omega)
                      (by have : count42 (47 :: y) = count42 y := by simp [count42]
                          omega) (fun _ => rfl))
                    (fun t ht h k => dowild_abort_sound_g m hpm n none (47 :: y) t hXok.noNul ht
                      (by simp at hr2len ⊢; omega) h k (fun hb => by rw [isBnd_ne42 (by decide)] at hb; cases hb))
                    (hprev (by simp)) hpo (by simp at hr2len; omega) (by omega)
                · by_cases hesc : b = 92 ∧ hd y = 47
                  · obtain ⟨hb92, hy47⟩ := hesc
                    subst hb92
                    cases y with
                    | nil => simp [hd] at hy47
                    | cons y0 y' =>
                      simp only [hd, List.headD_cons] at hy47
                      subst hy47
                      have hY2ok : PatOk m (47 :: y') := hYok
                      have hc1 : count42 (47 :: y') = count42 y' := by simp [count42]
                      have hc2 : count42 (92 :: 47 :: y') = count42 y' := by simp [count42]
                      exact go_rel_bdE m hpm n d pattern text r2 y' ts i ti prev hinv htinv hx htext
                        (fun text' ht' => ih (d - 1) (47 :: y') text' hY2ok ht' (47 :: y') text' 0 0 none (by simp) (by simp)
                          (by simp at hr2len hylen ⊢; omega) (by omega) (fun _ => rfl))
                        (fun text' ht' => ih (d - 1) (92 :: 47 :: y') text' hXok ht' (92 :: 47 :: y') text' 0 0 none
                          (by simp) (by simp) (by simp at hr2len hylen ⊢; omega) (by omega) (fun _ => rfl))
                        (fun t ht h k => dowild_abort_sound_g m hpm n none (92 :: 47 :: y') t hXok.noNul ht
                          (by simp at hr2len hylen ⊢; omega) h k (fun hb => by rw [isBnd_ne42 (by decide)] at hb; cases hb))
                        (hprev (by simp)) hpo (by simp at hr2len hylen; omega) (by omega)
                  · apply collapse
                    · rw [hx, hpo]
                      simp only [followsB, hd, List.headD_cons, List.tail_cons, Bool.true_and]
                      simp [hb0, hb47]
                      intro e1 e2
                      exact hesc ⟨e1, by simpa [hd] using e2⟩
                    · rw [hx, hpo]
                      simp only [followsM, Bool.true_and]
                      simp [hb47]
                      intro e1 e2
                      exact hesc ⟨e1, by simpa [hd] using e2⟩
            · exact collapse (by simp [hpo]) (by simp [hpo])
          · exact arm i (a :: r2) prev hinv (by simpa [hd] using ha) hrl
              (by rw [count42_cons42] at hdepth; exact hdepth)
      · have hc42 : c ≠ 42 := h42
        cases ts with
        | nil =>
          left
          rw [go_abort (by rw [Ne, s42]; exact hc42), dw_abort hc0 hc42]
          rfl
        | cons tc tr =>
          have htc : tc ≠ 0 := htnn tc (by simp)
          have htr := drop_succ_of_drop htinv
          have htc' : lc m tc ≠ 0 := fun h => htc ((lc_special m tc).2.2.2.2.2.1.mp h)
          by_cases h92 : c = 92
          · subst h92
            cases r with
            | nil =>
              left
              rw [go_esc_end (by rw [s92]), dw_esc hc0 htc (by rw [fold_eq_lc, s92])]
              simp [hd, fold_eq_lc, ofWm, htc']
            | cons e r2 =>
              rw [go_esc (by rw [s92]), dw_esc hc0 htc (by rw [fold_eq_lc, s92])]
              have hle : lc m e = e := by
                cases hic : m.ignoreCase with
                | false => simp [lc, hic]
                | true =>
                  have := escSafe_drop pattern (hok.icase hic).2 i
                  rw [hinv] at this
                  simp [escSafe] at this
                  exact lc_of_not_upper m e (by simpa using this.1)
              simp only [hd, List.headD_cons, List.tail_cons, fold_eq_lc, hle]
              have hr2 := drop_succ_of_drop hr
              have := ih d pattern text hok htext r2 tr (i + 2) (ti + 1) (some e) hr2 htr
                (by simp at hrl ⊢; omega) (Nat.le_trans (count42_tail_le e r2) hrd)
                (fun _ => by have := getElem?_of_drop hr; simp [this])
              exact relAA_if (by constructor <;> (intro h; exact fun x => h x.symm)) this
          · by_cases h63 : c = 63
            · subst h63
              rw [go_qm (by rw [s63]), dw_qm hc0 htc (by rw [fold_eq_lc, s63])]
              have := ih d pattern text hok htext r tr (i + 1) (ti + 1) (some 63) hr htr hrl hrd
                (fun _ => by have := getElem?_of_drop hinv; simp [this])
              simp only [fold_eq_lc, flagsOf_pathname]
              exact relAA_if (by simp) this
            · by_cases h91 : c = 91
              · subst h91
                have hic : m.ignoreCase = false := by
                  cases h : m.ignoreCase with
                  | false => rfl
                  | true => exact absurd rfl ((hok.icase h).1 91 (hmem 91 (by simp)))
                rw [go_br (by rw [s91]), dw_br hc0 htc (by rw [fold_eq_lc, s91])]
                have hb := bracket_rel m hic pattern hok.noNul (lc m tc) n (i + 1) r hr
                simp only [fold_eq_lc, flagsOf_pathname]
                cases hbs : Spec.C36.bracket (flagsOf m) (lc m tc) n r with
                | abort =>
                  rw [hbs] at hb
                  cases hbm : C36.bracket m pattern (lc m tc) n ⟨i + 1, r⟩ <;> rw [hbm] at hb <;> simp [BrRel] at hb
                  left; rfl
                | fuel =>
                  rw [hbs] at hb
                  cases hbm : C36.bracket m pattern (lc m tc) n ⟨i + 1, r⟩ <;> rw [hbm] at hb <;> simp [BrRel] at hb
                  left; rfl
                | done ok' rest =>
                  rw [hbs] at hb
                  have hlen := spec_bracket_len _ _ _ _ _ _ hbs
                  obtain ⟨jd, hjd⟩ := spec_bracket_suffix _ _ _ _ _ _ hbs
                  cases hbm : C36.bracket m pattern (lc m tc) n ⟨i + 1, r⟩ with
                  | abort => rw [hbm] at hb; simp [BrRel] at hb
                  | panic => rw [hbm] at hb; simp [BrRel] at hb
                  | fuel => rw [hbm] at hb; simp [BrRel] at hb
                  | done ok p =>
                    rw [hbm] at hb
                    obtain ⟨h1, h2, h3⟩ := hb
                    obtain ⟨k, pr⟩ := p
                    simp at h2 h3
                    subst h1 h2
                    simp only []
                    obtain ⟨kc, hkc⟩ := spec_bracket_close _ _ _ _ _ _ hbs
                    have := ih d pattern text hok htext pr tr k (ti + 1) (some 93) h3 htr (by omega)
                      (by rw [hjd]; exact Nat.le_trans (count42_drop r jd) hrd)
                      (fun hpr => by
                        -- the byte in front of what the bracket leaves is its `]`
                        have h93 : pattern.drop (i + 1 + kc) = 93 :: pr := by rw [← List.drop_drop, hr]; exact hkc
                        have h1 : i + 1 + kc < pattern.length := lt_of_drop_cons h93
                        have hk2 : pattern.drop (i + 1 + kc + 1) = pr := drop_succ_of_drop h93
                        have hklt : k < pattern.length := by
                          cases pr with
                          | nil => exact absurd rfl hpr
                          | cons a b => exact lt_of_drop_cons h3
                        have hkeq : k = i + 1 + kc + 1 := by
                          have e1 := congrArg List.length h3
                          have e2 := congrArg List.length hk2
                          simp at e1 e2
                          have : pr.length ≠ 0 := by
                            cases pr with
                            | nil => exact absurd rfl hpr
                            | cons a b => simp
                          omega
                        subst hkeq
                        have := getElem?_of_drop h93
                        simp [this])
                    exact relAA_if (by simp) this
              · rw [go_lit (by rw [Ne, s42]; exact hc42) (by rw [Ne, s92]; exact h92)
                    (by rw [Ne, s63]; exact h63) (by rw [Ne, s91]; exact h91),
                  dw_lit hc0 htc (by rw [fold_eq_lc, Ne, s42]; exact hc42) (by rw [fold_eq_lc, Ne, s92]; exact h92)
                    (by rw [fold_eq_lc, Ne, s63]; exact h63) (by rw [fold_eq_lc, Ne, s91]; exact h91)]
                have := ih d pattern text hok htext r tr (i + 1) (ti + 1) (some c) hr htr hrl hrd
                  (fun _ => by have := getElem?_of_drop hinv; simp [this])
                simp only [fold_eq_lc]
                exact relAA_if (by constructor <;> (intro h; exact fun x => h x.symm)) this




end GixModel.C36
