import GixModel.Lemmas.C45
/-
C45 — lemmas for `no_panic` in the zealously contracting modes: invariants of the two scanning
loops and of the truncation helpers of `zealously_contract_hunks`, facts about `fill_ancestor`, and
the inequality that keeps the ancestor section of diff3-style conflicts a valid slice.
-/
set_option linter.unusedSimpArgs false
namespace GixModel.C45
open GixModel

/-- an element `(token_idx, hunk_idx, side)` of `iterate_hunks(l)` points into hunk `hunk_idx` -/
def ItOk (l : List Hunk) (e : Nat × Nat × Side) : Prop :=
  ∃ h, l[e.2.1]? = some h ∧ h.side = e.2.2 ∧ h.range.start ≤ e.1 ∧ e.1 < h.range.stop

theorem iterateHunks_ok (l : List Hunk) : ∀ e ∈ iterateHunks l, ItOk l e := by
  intro e he
  simp only [iterateHunks, List.mem_flatMap, List.mem_map, List.mem_range] at he
  obtain ⟨⟨h, i⟩, hmem, k, hk, rfl⟩ := he
  have := List.mem_zipIdx_iff_getElem?.mp hmem
  simp only at hk
  exact ⟨h, by simpa using this, rfl, by simp, by simp; omega⟩

theorem iterateHunksRev_ok (l : List Hunk) : ∀ e ∈ iterateHunksRev l, ItOk l e := by
  intro e he
  simp only [iterateHunksRev, List.mem_flatMap, List.mem_reverse, List.mem_map, List.mem_range] at he
  obtain ⟨⟨h, i⟩, hmem, k, hk, rfl⟩ := he
  have := List.mem_zipIdx_iff_getElem?.mp hmem
  simp only at hk
  exact ⟨h, by simpa using this, rfl, by simp, by simp; omega⟩

structure ScanInv (a b : List Hunk) (st : ScanState) : Prop where
  ra : ∀ u, st.removeA = some u → ∃ h, a[u]? = some h
  rb : ∀ u, st.removeB = some u → ∃ h, b[u]? = some h
  ta : ∀ t, st.tokA = some t → ∃ h, st.removeA = some st.lastA ∧ a[st.lastA]? = some h ∧
        h.range.start ≤ t ∧ t < h.range.stop
  tb : ∀ t, st.tokB = some t → ∃ h, st.removeB = some st.lastB ∧ b[st.lastB]? = some h ∧
        h.range.start ≤ t ∧ t < h.range.stop
  both : st.removeA = none ↔ st.removeB = none

theorem scanInv_init (a b : List Hunk) : ScanInv a b {} :=
  ⟨by intro u h; simp at h, by intro u h; simp at h, by intro t h; simp at h, by intro t h; simp at h, by simp⟩

theorem scanEqual_spec (inp : Input) (a b : List Hunk)
    (hva : ∀ h ∈ a, HunkValid inp h) (hvb : ∀ h ∈ b, HunkValid inp h) :
    ∀ (pairs : List ((Nat × Nat × Side) × (Nat × Nat × Side))) (st : ScanState),
      (∀ p ∈ pairs, ItOk a p.1 ∧ ItOk b p.2) → ScanInv a b st →
      ∃ st', scanEqual inp pairs st = .ok st' ∧ ScanInv a b st' := by
  intro pairs
  induction pairs with
  | nil => intro st _ hinv; exact ⟨st, rfl, hinv⟩
  | cons p rest ih =>
    intro st hp hinv
    obtain ⟨⟨aTok, aIdx, aSide⟩, ⟨bTok, bIdx, bSide⟩⟩ := p
    obtain ⟨⟨ha, hga, hsa, hla, hua⟩, ⟨hb, hgb, hsb, hlb, hub⟩⟩ := hp _ (List.mem_cons_self)
    simp only at hga hsa hla hua hgb hsb hlb hub
    have hvha := hva ha (List.mem_of_getElem? hga)
    have hvhb := hvb hb (List.mem_of_getElem? hgb)
    have hla' : aTok < (inp.tokens aSide).length := by rw [← hsa]; have := hvha.2.2.2; omega
    have hlb' : bTok < (inp.tokens bSide).length := by rw [← hsb]; have := hvhb.2.2.2; omega
    simp only [scanEqual, bind, Except.bind, lineContent, List.getElem?_eq_getElem hla', List.getElem?_eq_getElem hlb']
    -- the state after the two resets
    let st1 : ScanState := if st.lastA != aIdx then { st with tokA := none, lastA := aIdx } else st
    let st2 : ScanState := if st1.lastB != bIdx then { st1 with tokB := none, lastB := bIdx } else st1
    have h1A : st1.lastA = aIdx := by
      simp only [st1]; split
      · rfl
      · rename_i h; simpa using h
    have h2A : st2.lastA = aIdx := by
      simp only [st2]; split <;> exact h1A
    have h2B : st2.lastB = bIdx := by
      simp only [st2]; split
      · rfl
      · rename_i h; simpa using h
    have hinv2 : ScanInv a b st2 := by
      have hi1 : ScanInv a b st1 := by
        simp only [st1]; split
        · exact ⟨hinv.ra, hinv.rb, by intro t h; simp at h, hinv.tb, hinv.both⟩
        · exact hinv
      simp only [st2]; split
      · exact ⟨hi1.ra, hi1.rb, hi1.ta, by intro t h; simp at h, hi1.both⟩
      · exact hi1
    show ∃ st', (if ((inp.tokens aSide)[aTok] == (inp.tokens bSide)[bTok]) = true then
        scanEqual inp rest { st2 with removeA := some aIdx, removeB := some bIdx, tokA := some aTok, tokB := some bTok }
      else Except.ok st2) = Except.ok st' ∧ ScanInv a b st'
    split
    · apply ih _ (fun q hq => hp q (List.mem_cons_of_mem _ hq))
      refine ⟨?_, ?_, ?_, ?_, by simp⟩
      · intro u h; simp only [Option.some.injEq] at h; subst h; exact ⟨ha, hga⟩
      · intro u h; simp only [Option.some.injEq] at h; subst h; exact ⟨hb, hgb⟩
      · intro t h; simp only [Option.some.injEq] at h; subst h
        exact ⟨ha, by simp [h2A], by simpa [h2A] using hga, hla, hua⟩
      · intro t h; simp only [Option.some.injEq] at h; subst h
        exact ⟨hb, by simp [h2B], by simpa [h2B] using hgb, hlb, hub⟩
    · exact ⟨st2, rfl, hinv2⟩



theorem setRange_valid (inp : Input) (h : Hunk) (r : Range) (hv : HunkValid inp h)
    (h1 : r.start ≤ r.stop) (h2 : r.stop ≤ h.range.stop) : HunkValid inp (h.setRange r) := by
  obtain ⟨v1, v2, v3, v4⟩ := hv
  cases hs : h.side <;> simp_all [HunkValid, Hunk.setRange, Hunk.range, Input.tokens] <;> omega

theorem setRange_before_start (h : Hunk) (r : Range) (hr : r.start = h.range.start) :
    (h.setRange r).before.start = h.before.start := by
  cases hs : h.side <;> simp_all [Hunk.setRange, Hunk.range]

theorem setRange_before_stop (h : Hunk) (r : Range) (hr : r.stop = h.range.stop) :
    (h.setRange r).before.stop = h.before.stop := by
  cases hs : h.side <;> simp_all [Hunk.setRange, Hunk.range]

def StartsLe (p : Nat) (l : List Hunk) : Prop := ∀ x ∈ l, x.before.start ≤ p
def LastGe (p : Nat) (l : List Hunk) : Prop := ∀ x, l.getLast? = some x → p ≤ x.before.stop
def HeadLe (p : Nat) (l : List Hunk) : Prop := ∀ x, l.head? = some x → x.before.start ≤ p
def AllValid (inp : Input) (l : List Hunk) : Prop := ∀ h ∈ l, HunkValid inp h

theorem allValid_set (inp : Input) (l : List Hunk) (u : Nat) (h' : Hunk) (hl : AllValid inp l)
    (hh : HunkValid inp h') : AllValid inp (l.set u h') := by
  intro x hx
  rcases List.mem_or_eq_of_mem_set hx with h | h
  · exact hl x h
  · subst h; exact hh

theorem lastGe_set_drop (p : Nat) (l : List Hunk) (u k : Nat) (h h' : Hunk) (hu : l[u]? = some h)
    (hstop : h'.before.stop = h.before.stop) (hl : LastGe p l) : LastGe p ((l.set u h').drop k) := by
  intro x hx
  have hlen : u < l.length := (List.getElem?_eq_some_iff.mp hu).1
  rw [List.getLast?_drop] at hx
  split at hx
  · simp at hx
  · rw [List.getLast?_eq_getElem?, List.length_set] at hx
    rw [List.getElem?_set] at hx
    split at hx
    · rename_i heq
      simp only [hlen, if_true, Option.some.injEq] at hx
      subst hx
      rw [hstop]
      apply hl h
      rw [List.getLast?_eq_getElem?, ← heq]; exact hu
    · apply hl x
      rw [List.getLast?_eq_getElem?]; exact hx



/-- what the scanning loop guarantees about the arguments of a truncation -/
def TruncPre (hunks : List Hunk) (idx tok : Option Nat) : Prop :=
  (idx = none → tok = none) ∧
  (∀ u, idx = some u → ∃ h, hunks[u]? = some h ∧ ∀ t, tok = some t → h.range.start ≤ t ∧ t < h.range.stop)

theorem truncateFront_spec (inp : Input) (hunks : List Hunk) (idx tok : Option Nat) (collect : Bool)
    (hv : AllValid inp hunks) (hpre : TruncPre hunks idx tok) :
    ∃ rem col, truncateFront hunks idx tok collect = .ok (rem, col) ∧ AllValid inp rem ∧ AllValid inp col ∧
      (∀ p, StartsLe p hunks → StartsLe p col) ∧ (∀ p, LastGe p hunks → LastGe p rem) ∧
      (idx = none → rem = hunks ∧ col = []) ∧ (idx ≠ none → collect = true → col ≠ []) ∧
      (collect = true → hunks ≠ [] → rem ≠ [] ∨ col ≠ []) := by
  obtain ⟨hp1, hp2⟩ := hpre
  cases idx with
  | none =>
    have : tok = none := hp1 rfl
    subst this
    exact ⟨hunks, [], rfl, hv, by intro x hx; simp at hx, by intro p _ x hx; simp at hx, fun p h => h,
      fun _ => ⟨rfl, rfl⟩, fun h => absurd rfl h, fun _ hne => Or.inl hne⟩
  | some u =>
    obtain ⟨hunk, hget, htok⟩ := hp2 u rfl
    have hlen : u < hunks.length := (List.getElem?_eq_some_iff.mp hget).1
    have hvh : HunkValid inp hunk := hv hunk (List.mem_of_getElem? hget)
    have hmem : hunk ∈ hunks := List.mem_of_getElem? hget
    simp only [truncateFront, hget]
    -- the three shapes of (hunk in place, last index to remove, partial hunk)
    have key : ∀ (hunk' : Hunk) (lastIdx : Option Nat) (part : List Hunk),
        HunkValid inp hunk' → hunk'.before.stop = hunk.before.stop →
        (∀ x ∈ part, HunkValid inp x ∧ x.before.start = hunk.before.start) →
        (lastIdx = some u ∨ (part ≠ [] ∨ collect = false) ∧ (lastIdx = if u = 0 then none else some (u - 1))) →
        (lastIdx = some u → hunk'.before.start = hunk.before.start) →
        ∃ rem col, (match lastIdx with
            | none => (Except.ok ((hunks.set u hunk'), part) : M (List Hunk × List Hunk))
            | some l => .ok ((hunks.set u hunk').drop (l + 1),
                part ++ (if collect then (hunks.set u hunk').take (l + 1) else []))) = .ok (rem, col) ∧
          AllValid inp rem ∧ AllValid inp col ∧
          (∀ p, StartsLe p hunks → StartsLe p col) ∧ (∀ p, LastGe p hunks → LastGe p rem) ∧
          (collect = true → col ≠ []) ∧ (collect = true → rem ≠ [] ∨ col ≠ []) := by
      intro hunk' lastIdx part hv' hstop hpart hshape hstart'
      have hsetlen : (hunks.set u hunk').length = hunks.length := List.length_set
      have hvset : AllValid inp (hunks.set u hunk') := allValid_set inp hunks u hunk' hv hv'
      have hstart_set : ∀ p, StartsLe p hunks → ∀ x ∈ (hunks.set u hunk').take u, x.before.start ≤ p := by
        intro p hs x hx
        -- elements before index u are untouched
        obtain ⟨i, hi, rfl⟩ := List.mem_iff_getElem.mp hx
        simp only [List.length_take, List.length_set] at hi
        rw [List.getElem_take, List.getElem_set]
        have : ¬ u = i := by omega
        simp only [this, if_false]
        exact hs _ (List.getElem_mem _)
      cases lastIdx with
      | none =>
        refine ⟨_, _, rfl, hvset, fun x hx => (hpart x hx).1, ?_, ?_, ?_, ?_⟩
        · intro p hs x hx; rw [(hpart x hx).2]; exact hs hunk hmem
        · intro p hl
          have := lastGe_set_drop p hunks u 0 hunk hunk' hget hstop hl
          simpa using this
        · intro hc
          rcases hshape with h | ⟨h, _⟩
          · simp at h
          · rcases h with h | h
            · exact h
            · rw [hc] at h; simp at h
        · intro _; left; intro he
          have := congrArg List.length he
          rw [hsetlen, List.length_nil] at this; omega
      | some l =>
        have hl_le : l ≤ u := by
          rcases hshape with h | ⟨_, h⟩
          · simp at h; omega
          · split at h
            · simp at h
            · simp at h; omega
        refine ⟨_, _, rfl, ?_, ?_, ?_, ?_, ?_, ?_⟩
        · intro x hx; exact hvset x (List.mem_of_mem_drop hx)
        · intro x hx
          rcases List.mem_append.mp hx with h | h
          · exact (hpart x h).1
          · split at h
            · exact hvset x (List.mem_of_mem_take h)
            · simp at h
        · intro p hs x hx
          rcases List.mem_append.mp hx with h | h
          · rw [(hpart x h).2]; exact hs hunk hmem
          · split at h
            · -- taken hunks: untouched ones, or (if l = u) the hunk at u, which keeps its start
              rcases hshape with hsh | ⟨_, hsh⟩
              · simp only [Option.some.injEq] at hsh; subst hsh
                obtain ⟨i, hi, rfl⟩ := List.mem_iff_getElem.mp h
                simp only [List.length_take, List.length_set] at hi
                rw [List.getElem_take, List.getElem_set]
                split
                · -- no partial in this shape: hunk' = hunk is forced by the caller? use start equality
                  rw [hstart' rfl]; exact hs hunk hmem
                · exact hs _ (List.getElem_mem _)
              · have hlu : l + 1 ≤ u := by
                  split at hsh
                  · simp at hsh
                  · simp at hsh; omega
                have : x ∈ (hunks.set u hunk').take u := by
                  have hsub : (hunks.set u hunk').take (l + 1) = ((hunks.set u hunk').take u).take (l + 1) := by
                    rw [List.take_take]; congr 1; omega
                  rw [hsub] at h
                  exact List.mem_of_mem_take h
                exact hstart_set p hs x this
            · simp at h
        · intro p hl; exact lastGe_set_drop p hunks u (l + 1) hunk hunk' hget hstop hl
        · intro hc he
          simp only [hc, if_true, List.append_eq_nil_iff, List.take_eq_nil_iff] at he
          obtain ⟨_, h2⟩ := he
          rcases h2 with h2 | h2
          · omega
          · have := congrArg List.length h2; rw [hsetlen, List.length_nil] at this; omega
        · intro hc; right; intro he
          simp only [hc, if_true, List.append_eq_nil_iff, List.take_eq_nil_iff] at he
          obtain ⟨_, h2⟩ := he
          rcases h2 with h2 | h2
          · omega
          · have := congrArg List.length h2; rw [hsetlen, List.length_nil] at this; omega
    -- assemble
    have fin : ∀ (hunk' : Hunk) (lastIdx : Option Nat) (part : List Hunk),
        HunkValid inp hunk' → hunk'.before.stop = hunk.before.stop →
        (∀ x ∈ part, HunkValid inp x ∧ x.before.start = hunk.before.start) →
        (lastIdx = some u ∨ (part ≠ [] ∨ collect = false) ∧ (lastIdx = if u = 0 then none else some (u - 1))) →
        (lastIdx = some u → hunk'.before.start = hunk.before.start) →
        ∃ rem col, (match lastIdx with
            | none => (Except.ok ((hunks.set u hunk'), part) : M (List Hunk × List Hunk))
            | some l => .ok ((hunks.set u hunk').drop (l + 1),
                part ++ (if collect then (hunks.set u hunk').take (l + 1) else []))) = .ok (rem, col) ∧
          AllValid inp rem ∧ AllValid inp col ∧
          (∀ p, StartsLe p hunks → StartsLe p col) ∧ (∀ p, LastGe p hunks → LastGe p rem) ∧
          ((some u : Option Nat) = none → rem = hunks ∧ col = []) ∧ ((some u : Option Nat) ≠ none → collect = true → col ≠ []) ∧
          (collect = true → hunks ≠ [] → rem ≠ [] ∨ col ≠ []) := by
      intro hunk' lastIdx part a1 a2 a3 a4 a5
      obtain ⟨rem, col, h1, h2, h3, h4, h5, h6, h7⟩ := key hunk' lastIdx part a1 a2 a3 a4 a5
      exact ⟨rem, col, h1, h2, h3, h4, h5, fun h => by simp at h, fun _ hc => h6 hc, fun hc _ => h7 hc⟩
    cases tok with
    | none =>
      exact fin hunk (some u) [] hvh rfl (by intro x hx; simp at hx) (Or.inl rfl) (fun _ => rfl)
    | some t =>
      obtain ⟨ht1, ht2⟩ := htok t rfl
      simp only
      by_cases hemp : (Range.mk (t + 1) hunk.range.stop).isEmpty = true
      · simp only [hemp, if_true]
        exact fin hunk (some u) [] hvh rfl (by intro x hx; simp at hx) (Or.inl rfl) (fun _ => rfl)
      · simp only [hemp, Bool.false_eq_true, if_false]
        have hlt : t + 1 < hunk.range.stop := by simpa [Range.isEmpty] using hemp
        have hvin : HunkValid inp (hunk.setRange ⟨t + 1, hunk.range.stop⟩) :=
          setRange_valid inp hunk _ hvh (by simp; omega) (by simp)
        have hvpart : HunkValid inp (hunk.setRange ⟨hunk.range.start, t + 1⟩) :=
          setRange_valid inp hunk _ hvh (by simp; omega) (by simp; omega)
        have hstop := setRange_before_stop hunk ⟨t + 1, hunk.range.stop⟩ rfl
        have hstart := setRange_before_start hunk ⟨hunk.range.start, t + 1⟩ rfl
        by_cases hu0 : u = 0
        · subst hu0
          cases collect with
          | true =>
            have := fin (hunk.setRange ⟨t + 1, hunk.range.stop⟩) none
              [hunk.setRange ⟨hunk.range.start, t + 1⟩] hvin hstop
              (by intro x hx; simp at hx; subst hx; exact ⟨hvpart, hstart⟩)
              (Or.inr ⟨Or.inl (by simp), by simp⟩) (by intro h; simp at h)
            simpa using this
          | false =>
            have := fin (hunk.setRange ⟨t + 1, hunk.range.stop⟩) none
              [] hvin hstop (by intro x hx; simp at hx)
              (Or.inr ⟨Or.inr rfl, by simp⟩) (by intro h; simp at h)
            simpa using this
        · have hbeq : (u == 0) = false := by simpa using hu0
          cases collect with
          | true =>
            have := fin (hunk.setRange ⟨t + 1, hunk.range.stop⟩) (some (u - 1))
              [hunk.setRange ⟨hunk.range.start, t + 1⟩] hvin hstop
              (by intro x hx; simp at hx; subst hx; exact ⟨hvpart, hstart⟩)
              (Or.inr ⟨Or.inl (by simp), by simp [hu0]⟩) (by intro h; simp at h; omega)
            simpa [hbeq] using this
          | false =>
            have := fin (hunk.setRange ⟨t + 1, hunk.range.stop⟩) (some (u - 1))
              [] hvin hstop (by intro x hx; simp at hx)
              (Or.inr ⟨Or.inr rfl, by simp [hu0]⟩) (by intro h; simp at h; omega)
            simpa [hbeq] using this



theorem truncateBack_spec (inp : Input) (hunks : List Hunk) (idx tok : Option Nat) (collect : Bool)
    (hv : AllValid inp hunks) (hpre : TruncPre hunks idx tok) :
    ∃ rem col, truncateBack hunks idx tok collect = .ok (rem, col) ∧ AllValid inp rem ∧ AllValid inp col ∧
      (∀ p, HeadLe p hunks → HeadLe p rem) ∧ (∀ p, LastGe p hunks → LastGe p col) ∧
      (idx = none → rem = hunks ∧ col = []) ∧ (idx ≠ none → collect = true → col ≠ []) ∧
      (collect = true → hunks ≠ [] → rem ≠ [] ∨ col ≠ []) := by
  obtain ⟨hp1, hp2⟩ := hpre
  cases idx with
  | none =>
    have : tok = none := hp1 rfl
    subst this
    exact ⟨hunks, [], rfl, hv, by intro x hx; simp at hx, fun p h => h, by intro p _ x hx; simp at hx,
      fun _ => ⟨rfl, rfl⟩, fun h => absurd rfl h, fun _ hne => Or.inl hne⟩
  | some f =>
    obtain ⟨hunk, hget, htok⟩ := hp2 f rfl
    have hlen : f < hunks.length := (List.getElem?_eq_some_iff.mp hget).1
    have hvh : HunkValid inp hunk := hv hunk (List.mem_of_getElem? hget)
    have hgetE : hunks[f] = hunk := (List.getElem?_eq_some_iff.mp hget).2
    simp only [truncateBack, hget]
    have key : ∀ (hunk' : Hunk) (f' : Nat) (part : List Hunk),
        HunkValid inp hunk' → hunk'.before.start = hunk.before.start →
        (f' = f → hunk'.before.stop = hunk.before.stop) →
        (∀ x ∈ part, HunkValid inp x ∧ x.before.stop = hunk.before.stop) →
        (f' = f ∧ part = [] ∨ f' = f + 1 ∧ (collect = true → part ≠ []) ∧ (collect = false → part = [])) →
        ∃ rem col, (if f' > (hunks.set f hunk').length then
              (Except.error "range start index out of range for slice" : M (List Hunk × List Hunk))
            else .ok ((hunks.set f hunk').take f', part ++ (if collect then (hunks.set f hunk').drop f' else []))) =
            .ok (rem, col) ∧
          AllValid inp rem ∧ AllValid inp col ∧
          (∀ p, HeadLe p hunks → HeadLe p rem) ∧ (∀ p, LastGe p hunks → LastGe p col) ∧
          ((some f : Option Nat) = none → rem = hunks ∧ col = []) ∧
          ((some f : Option Nat) ≠ none → collect = true → col ≠ []) ∧
          (collect = true → hunks ≠ [] → rem ≠ [] ∨ col ≠ []) := by
      intro hunk' f' part hv' hstart hstop' hpart hshape
      have hsetlen : (hunks.set f hunk').length = hunks.length := List.length_set
      have hvset : AllValid inp (hunks.set f hunk') := allValid_set inp hunks f hunk' hv hv'
      have hf' : f' ≤ hunks.length := by rcases hshape with ⟨h, _⟩ | ⟨h, _⟩ <;> omega
      rw [if_neg (by rw [hsetlen]; omega)]
      have hcolne : collect = true → part ++ (if collect then (hunks.set f hunk').drop f' else []) ≠ [] := by
        intro hc he
        simp only [hc, if_true, List.append_eq_nil_iff, List.drop_eq_nil_iff] at he
        obtain ⟨h1, h2⟩ := he
        rw [hsetlen] at h2
        rcases hshape with ⟨h, _⟩ | ⟨_, h, _⟩
        · omega
        · exact h hc h1
      refine ⟨_, _, rfl, ?_, ?_, ?_, ?_, fun h => by simp at h, fun _ hc => hcolne hc, fun hc _ => Or.inr (hcolne hc)⟩
      · intro x hx; exact hvset x (List.mem_of_mem_take hx)
      · intro x hx
        rcases List.mem_append.mp hx with h | h
        · exact (hpart x h).1
        · split at h
          · exact hvset x (List.mem_of_mem_drop h)
          · simp at h
      · -- head of the remaining hunks keeps its start
        intro p hh x hx
        rw [List.head?_take] at hx
        split at hx
        · simp at hx
        · rw [List.head?_eq_getElem?, List.getElem?_set] at hx
          split at hx
          · rename_i h0
            simp only [hlen, if_true, Option.some.injEq] at hx
            subst hx
            rw [hstart]
            apply hh hunk
            rw [List.head?_eq_getElem?, ← h0]; exact hget
          · apply hh x
            rw [List.head?_eq_getElem?]; exact hx
      · -- last of the collected hunks ends where the last hunk ended
        intro p hl x hx
        by_cases hd : collect = true ∧ f' < hunks.length
        · -- the dropped tail is non-empty: its last is the last of the list
          obtain ⟨hc, hlt⟩ := hd
          simp only [hc, if_true] at hx
          have hdne : (hunks.set f hunk').drop f' ≠ [] := by
            intro he
            have := List.drop_eq_nil_iff.mp he
            rw [hsetlen] at this; omega
          rw [List.getLast?_append, List.getLast?_drop, if_neg (by rw [hsetlen]; omega)] at hx
          have hsome : ∃ y, (hunks.set f hunk').getLast? = some y := by
            cases hg : (hunks.set f hunk').getLast? with
            | none => have := List.getLast?_eq_none_iff.mp hg; rw [this] at hsetlen; simp at hsetlen; omega
            | some y => exact ⟨y, rfl⟩
          obtain ⟨y, hy⟩ := hsome
          rw [hy] at hx
          have hxy : y = x := by simpa [Option.or] using hx
          rw [← hxy]
          rw [List.getLast?_eq_getElem?, hsetlen, List.getElem?_set] at hy
          split at hy
          · rename_i heq
            simp only [hlen, if_true, Option.some.injEq] at hy
            rw [← hy]
            have hff : f' = f := by rcases hshape with ⟨h, _⟩ | ⟨h, _⟩ <;> omega
            rw [hstop' hff]
            apply hl hunk
            rw [List.getLast?_eq_getElem?, ← heq]; exact hget
          · apply hl y
            rw [List.getLast?_eq_getElem?]; exact hy
        · -- nothing dropped is collected: the last is the partial hunk, and `f` was the last index
          have hx' : part.getLast? = some x := by
            by_cases hc : collect = true
            · have hge : hunks.length ≤ f' := by
                by_cases hlt : f' < hunks.length
                · exact absurd ⟨hc, hlt⟩ hd
                · omega
              have : (hunks.set f hunk').drop f' = [] := List.drop_eq_nil_iff.mpr (by rw [hsetlen]; exact hge)
              simpa [hc, this] using hx
            · have : collect = false := by simpa using hc
              simpa [this] using hx
          have hxm : x ∈ part := List.mem_of_getLast? hx'
          rw [(hpart x hxm).2]
          have hlast : f = hunks.length - 1 := by
            rcases hshape with ⟨_, h⟩ | ⟨h, _, h3⟩
            · subst h; simp at hx'
            · by_cases hc : collect = true
              · have : ¬ f' < hunks.length := fun hlt => hd ⟨hc, hlt⟩
                omega
              · have hcf : collect = false := by simpa using hc
                rw [h3 hcf] at hx'; simp at hx'
          apply hl hunk
          rw [List.getLast?_eq_getElem?, ← hlast]; exact hget
    cases tok with
    | none =>
      have := key hunk f [] hvh rfl (fun _ => rfl) (by intro x hx; simp at hx) (Or.inl ⟨rfl, rfl⟩)
      simpa using this
    | some t =>
      obtain ⟨ht1, ht2⟩ := htok t rfl
      simp only
      by_cases hemp : (Range.mk hunk.range.start t).isEmpty = true
      · simp only [hemp, if_true]
        have := key hunk f [] hvh rfl (fun _ => rfl) (by intro x hx; simp at hx) (Or.inl ⟨rfl, rfl⟩)
        simpa using this
      · simp only [hemp, Bool.false_eq_true, if_false]
        have hlt : hunk.range.start < t := by simpa [Range.isEmpty] using hemp
        have hvin : HunkValid inp (hunk.setRange ⟨hunk.range.start, t⟩) :=
          setRange_valid inp hunk _ hvh (by simp; omega) (by simp; omega)
        have hvpart : HunkValid inp (hunk.setRange ⟨t, hunk.range.stop⟩) :=
          setRange_valid inp hunk _ hvh (by simp; omega) (by simp)
        have hstart := setRange_before_start hunk ⟨hunk.range.start, t⟩ rfl
        have hstop := setRange_before_stop hunk ⟨t, hunk.range.stop⟩ rfl
        cases collect with
        | true =>
          have := key (hunk.setRange ⟨hunk.range.start, t⟩) (f + 1) [hunk.setRange ⟨t, hunk.range.stop⟩] hvin hstart
            (by intro h; omega) (by intro x hx; simp at hx; subst hx; exact ⟨hvpart, hstop⟩)
            (Or.inr ⟨rfl, by simp, by simp⟩)
          simpa using this
        | false =>
          have := key (hunk.setRange ⟨hunk.range.start, t⟩) (f + 1) [] hvin hstart
            (by intro h; omega) (by intro x hx; simp at hx)
            (Or.inr ⟨rfl, by simp, by simp⟩)
          simpa using this



theorem truncPre_A {a b : List Hunk} {st : ScanState} (h : ScanInv a b st) : TruncPre a st.removeA st.tokA := by
  constructor
  · intro hn
    cases ht : st.tokA with
    | none => rfl
    | some t => obtain ⟨_, h1, _⟩ := h.ta t ht; rw [hn] at h1; simp at h1
  · intro u hu
    obtain ⟨hk, hg⟩ := h.ra u hu
    refine ⟨hk, hg, ?_⟩
    intro t ht
    obtain ⟨h', h1, h2, h3, h4⟩ := h.ta t ht
    rw [hu] at h1
    simp only [Option.some.injEq] at h1
    rw [← h1, hg] at h2
    simp only [Option.some.injEq] at h2
    subst h2
    exact ⟨h3, h4⟩

theorem truncPre_B {a b : List Hunk} {st : ScanState} (h : ScanInv a b st) : TruncPre b st.removeB st.tokB := by
  constructor
  · intro hn
    cases ht : st.tokB with
    | none => rfl
    | some t => obtain ⟨_, h1, _⟩ := h.tb t ht; rw [hn] at h1; simp at h1
  · intro u hu
    obtain ⟨hk, hg⟩ := h.rb u hu
    refine ⟨hk, hg, ?_⟩
    intro t ht
    obtain ⟨h', h1, h2, h3, h4⟩ := h.tb t ht
    rw [hu] at h1
    simp only [Option.some.injEq] at h1
    rw [← h1, hg] at h2
    simp only [Option.some.injEq] at h2
    subst h2
    exact ⟨h3, h4⟩

theorem zip_itOk (a b : List Hunk) (la lb : List (Nat × Nat × Side)) (ha : ∀ e ∈ la, ItOk a e) (hb : ∀ e ∈ lb, ItOk b e) :
    ∀ p ∈ la.zip lb, ItOk a p.1 ∧ ItOk b p.2 := by
  intro p hp
  obtain ⟨x, y⟩ := p
  have := List.of_mem_zip hp
  exact ⟨ha x this.1, hb y this.2⟩

/-- `zealously_contract_hunks` on valid hunk lists: no panic, valid results, nothing lost, and the
bounds the callers need about the first and the last hunk -/
theorem zealouslyContract_spec (inp : Input) (a b : List Hunk) (hva : AllValid inp a) (hvb : AllValid inp b) :
    ∃ c, zealouslyContract inp a b = .ok c ∧
      AllValid inp c.a ∧ AllValid inp c.b ∧ AllValid inp c.front ∧ AllValid inp c.back ∧
      (a ≠ [] → c.front ≠ [] ∨ c.a ≠ [] ∨ c.back ≠ []) ∧
      (∀ p, StartsLe p a → StartsLe p c.front) ∧
      (c.front = [] → (∀ p, HeadLe p a → HeadLe p c.a) ∧ (∀ p, HeadLe p b → HeadLe p c.b)) ∧
      (∀ p, LastGe p a → LastGe p c.back) ∧
      (c.back = [] → (∀ p, LastGe p a → LastGe p c.a) ∧ (∀ p, LastGe p b → LastGe p c.b)) := by
  obtain ⟨st, hst, hinv⟩ := scanEqual_spec inp a b hva hvb _ {}
    (zip_itOk a b _ _ (iterateHunks_ok a) (iterateHunks_ok b)) (scanInv_init a b)
  obtain ⟨a1, front, hfa, hva1, hvfront, hsfront, hla1, hnoneA, hsomeA, hconsA⟩ :=
    truncateFront_spec inp a st.removeA st.tokA true hva (truncPre_A hinv)
  obtain ⟨b1, fb, hfb, hvb1, _, _, hlb1, hnoneB, _, _⟩ :=
    truncateFront_spec inp b st.removeB st.tokB false hvb (truncPre_B hinv)
  obtain ⟨st2, hst2, hinv2⟩ := scanEqual_spec inp a1 b1 hva1 hvb1 _ {}
    (zip_itOk a1 b1 _ _ (iterateHunksRev_ok a1) (iterateHunksRev_ok b1)) (scanInv_init a1 b1)
  obtain ⟨a2, back, hba, hva2, hvback, hha2, hlback, hnoneA2, hsomeA2, hconsA2⟩ :=
    truncateBack_spec inp a1 st2.removeA st2.tokA true hva1 (truncPre_A hinv2)
  obtain ⟨b2, bb, hbb, hvb2, _, hhb2, _, hnoneB2, _, _⟩ :=
    truncateBack_spec inp b1 st2.removeB st2.tokB false hvb1 (truncPre_B hinv2)
  refine ⟨{ a := a2, b := b2, front := front, back := back }, ?_, hva2, hvb2, hvfront, hvback, ?_, hsfront, ?_, ?_, ?_⟩
  · simp only [zealouslyContract, bind, Except.bind, hst, hfa, hfb, hst2, hba, hbb, pure, Except.pure]
  · intro hne
    rcases hconsA rfl hne with h | h
    · rcases hconsA2 rfl h with h2 | h2
      · exact Or.inr (Or.inl h2)
      · exact Or.inr (Or.inr h2)
    · exact Or.inl h
  · intro hfe
    simp only at hfe
    have hA : st.removeA = none := by
      cases hr : st.removeA with
      | none => rfl
      | some u => exact absurd hfe (hsomeA (by rw [hr]; simp) rfl)
    have hB : st.removeB = none := hinv.both.mp hA
    obtain ⟨ea, _⟩ := hnoneA hA
    obtain ⟨eb, _⟩ := hnoneB hB
    subst ea eb
    exact ⟨hha2, hhb2⟩
  · intro p hl; exact hlback p (hla1 p hl)
  · intro hbe
    simp only at hbe
    have hA : st2.removeA = none := by
      cases hr : st2.removeA with
      | none => rfl
      | some u => exact absurd hbe (hsomeA2 (by rw [hr]; simp) rfl)
    have hB : st2.removeB = none := hinv2.both.mp hA
    obtain ⟨ea, _⟩ := hnoneA2 hA
    obtain ⟨eb, _⟩ := hnoneB2 hB
    subst ea eb
    exact ⟨hla1, hlb1⟩



theorem fillGaps_startsLe (p : Nat) : ∀ (fuel idx len0 : Nat) (v : List Hunk) (added : Bool) (v' : List Hunk) (a' : Bool),
    fillGaps fuel idx len0 v added = .ok (v', a') → StartsLe p v → StartsLe p v' := by
  intro fuel
  induction fuel with
  | zero =>
    intro idx len0 v added v' a' h hs
    simp only [fillGaps, Except.ok.injEq, Prod.mk.injEq] at h
    obtain ⟨rfl, _⟩ := h; exact hs
  | succ fuel ih =>
    intro idx len0 v added v' a' h hs
    unfold fillGaps at h
    split at h
    · simp only [Except.ok.injEq, Prod.mk.injEq] at h; obtain ⟨rfl, _⟩ := h; exact hs
    · split at h
      · simp only [Except.ok.injEq, Prod.mk.injEq] at h; obtain ⟨rfl, _⟩ := h; exact hs
      · rename_i next hnext
        split at h
        · simp at h
        · rename_i hunk hh
          split at h
          · rename_i hgap
            apply ih _ _ _ _ _ _ h
            intro x hx
            rcases List.mem_append.mp hx with h1 | h1
            · exact hs x h1
            · simp only [List.mem_singleton] at h1
              subst h1
              have := hs next (List.mem_of_getElem? hnext)
              simp only [ancestorHunk]
              omega
          · exact ih _ _ _ _ _ _ h hs

/-- `fill_ancestor(range, hunks)`: if the hunks start at or before `p` and the range ends there,
so do all filled-in hunks; the last one ends at or after the end of the range -/
theorem fillAncestor_bounds (r : Range) (l l' : List Hunk) (h : fillAncestor r l = .ok l') :
    (∀ p, StartsLe p l → r.start ≤ p → r.stop ≤ p → StartsLe p l') ∧ (l ≠ [] → LastGe r.stop l') := by
  unfold fillAncestor at h
  cases l with
  | nil => simp at h; subst h; exact ⟨fun p _ _ _ x hx => by simp at hx, fun hne => absurd rfl hne⟩
  | cons first rest =>
    simp only [bind, Except.bind] at h
    split at h
    · simp at h
    · rename_i g hg
      have hfront : ∀ p, StartsLe p (first :: rest) → r.start ≤ p → StartsLe p (fillFront r first (first :: rest)).1 := by
        intro p hs hr x hx
        unfold fillFront at hx
        split at hx
        · simp only [List.mem_cons] at hx
          rcases hx with rfl | hx
          · simpa [ancestorHunk] using hr
          · exact hs x (by simpa using hx)
        · exact hs x hx
      have hsortmem : ∀ x ∈ fillSort (fillFront r first (first :: rest)).2 g.1 g.2, x ∈ g.1 := by
        intro x hx
        unfold fillSort at hx
        split at hx
        · rcases List.mem_append.mp hx with h1 | h1
          · exact List.mem_of_mem_take h1
          · exact List.mem_of_mem_drop ((mem_sortByStart _ _).mp h1)
        · exact hx
      unfold fillBack at h
      split at h
      · simp at h
      · rename_i last hlast
        have hlastmem : last ∈ g.1 := hsortmem last (List.mem_of_getLast? hlast)
        constructor
        · intro p hs hr1 hr2 x hx
          have hg1 : StartsLe p g.1 := fillGaps_startsLe p _ _ _ _ _ _ _ (by rw [hg]) (hfront p hs hr1)
          split at h
          · rename_i hgt
            simp only [Except.ok.injEq] at h; subst h
            rcases List.mem_append.mp hx with h1 | h1
            · exact hg1 x (hsortmem x h1)
            · simp only [List.mem_singleton] at h1; subst h1
              simp only [ancestorHunk]; omega
          · simp only [Except.ok.injEq] at h; subst h
            exact hg1 x (hsortmem x hx)
        · intro _ x hx
          split at h
          · rename_i hgt
            simp only [Except.ok.injEq] at h; subst h
            rw [List.getLast?_append] at hx
            simp only [List.getLast?_singleton, Option.or, Option.some.injEq] at hx
            subst hx
            simp only [ancestorHunk]; omega
          · rename_i hle
            simp only [Except.ok.injEq] at h; subst h
            rw [hlast] at hx
            simp only [Option.some.injEq] at hx
            subst hx; omega

/-- the explicit form of `fill_ancestor(range, [hunk])` -/
theorem fillAncestor_one (r : Range) (h : Hunk) :
    fillAncestor r [h] = .ok
      ((if h.before.start > r.start then [ancestorHunk r.start (h.before.start - r.start)] else []) ++ [h] ++
       (if r.stop > h.before.stop then [ancestorHunk h.before.stop (r.stop - h.before.stop)] else [])) := by
  by_cases h1 : h.before.start > r.start <;> by_cases h2 : r.stop > h.before.stop <;>
    simp [fillAncestor, fillFront, fillGaps, fillSort, fillBack, bind, Except.bind, h1, h2]

theorem fillAncestor_one_startsLe (r : Range) (h : Hunk) (l' : List Hunk) (hf : fillAncestor r [h] = .ok l')
    (hv : h.before.start ≤ h.before.stop) : StartsLe h.before.stop l' := by
  rw [fillAncestor_one] at hf
  simp only [Except.ok.injEq] at hf
  subst hf
  intro x hx
  simp only [List.mem_append, List.mem_singleton] at hx
  rcases hx with (hx | hx) | hx
  · split at hx
    · simp only [List.mem_singleton] at hx; subst hx; simp only [ancestorHunk]; omega
    · simp at hx
  · subst hx; exact hv
  · split at hx
    · simp only [List.mem_singleton] at hx; subst hx; simp [ancestorHunk]
    · simp at hx



theorem keepMiddle_ok (inp : Input) (labels : Labels) (style : Style) (ms : Nat) (out : List Piece) (iu : Nat)
    (front ours theirs : List Hunk) (fh lh : Hunk)
    (hvo : AllValid inp ours) (hvt : AllValid inp theirs)
    (hanc : ours ≠ [] → theirs ≠ [] → fh.before.start ≤ lh.before.stop ∧ lh.before.stop ≤ inp.anc.length) :
    ∃ r, keepMiddle inp labels style ms out iu front ours theirs fh lh = .ok r := by
  obtain ⟨wo, hwo⟩ := writeHunks_ok inp ours hvo
  obtain ⟨wt, hwt⟩ := writeHunks_ok inp theirs hvt
  unfold keepMiddle
  by_cases ht : theirs.isEmpty = true
  · simp only [ht, if_true, bind, Except.bind, hwo, pure, Except.pure]; exact ⟨_, rfl⟩
  · by_cases ho : ours.isEmpty = true
    · simp only [ht, ho, if_true, Bool.false_eq_true, if_false, bind, Except.bind, hwt, pure, Except.pure]
      exact ⟨_, rfl⟩
    · have hone : ours ≠ [] := by intro h; simp [h] at ho
      have htne : theirs ≠ [] := by intro h; simp [h] at ht
      obtain ⟨h1, h2⟩ := hanc hone htne
      have hva : HunkValid inp { before := ⟨fh.before.start, lh.before.stop⟩, after := ⟨0, 0⟩, side := .ancestor } := by
        simp only [HunkValid, Hunk.range, Input.tokens]; omega
      obtain ⟨wa, hwa⟩ := writeHunks_ok inp [{ before := ⟨fh.before.start, lh.before.stop⟩, after := ⟨0, 0⟩, side := .ancestor }]
        (by intro h hm; simp at hm; subst hm; exact hva)
      obtain ⟨r1, hr1⟩ := detectLineEnding_ok inp (if front.isEmpty then
        [{ before := ⟨iu, fh.before.start⟩, after := ⟨0, 0⟩, side := .ancestor }] else front)
      obtain ⟨r2, hr2⟩ := detectLineEnding_ok inp ours
      obtain ⟨r3, hr3⟩ := detectLineEndingOrNl_ok inp
        [{ before := ⟨fh.before.start, lh.before.stop⟩, after := ⟨0, 0⟩, side := .ancestor }]
      simp only [ht, ho, Bool.false_eq_true, if_false, bind, Except.bind, pure, Except.pure, hr1]
      cases r1 with
      | none =>
        simp only [hr2, hwo, hwt, hwa, hr3]
        cases style
        all_goals (repeat' split)
        all_goals exact ⟨_, rfl⟩
      | some nl =>
        simp only [hwo, hwt, hwa, hr3]
        cases style
        all_goals (repeat' split)
        all_goals exact ⟨_, rfl⟩



theorem orElse_some (x : Hunk) (b : Option Hunk) : orElse (some x) b = some x := rfl
theorem orElse_none (b : Option Hunk) : orElse none b = b := rfl

theorem head?_of_ne {l : List Hunk} (h : l ≠ []) : ∃ x, l.head? = some x ∧ x ∈ l := by
  cases l with
  | nil => exact absurd rfl h
  | cons x xs => exact ⟨x, rfl, by simp⟩

theorem getLast?_of_ne {l : List Hunk} (h : l ≠ []) : ∃ x, l.getLast? = some x ∧ x ∈ l := by
  cases hl : l.getLast? with
  | none => exact absurd (List.getLast?_eq_none_iff.mp hl) h
  | some x => exact ⟨x, rfl, List.mem_of_getLast? hl⟩

theorem firstHunk_spec (front ours theirs back : List Hunk) (msg : String)
    (hne : front ≠ [] ∨ ours ≠ [] ∨ theirs ≠ [] ∨ back ≠ []) :
    ∃ fh, expect (orElse (orElse (orElse front.head? ours.head?) theirs.head?) back.head?) msg = .ok fh ∧
      (front ≠ [] → front.head? = some fh) ∧ (front = [] → ours ≠ [] → ours.head? = some fh) := by
  by_cases h1 : front = []
  · subst h1
    by_cases h2 : ours = []
    · subst h2
      by_cases h3 : theirs = []
      · subst h3
        have h4 : back ≠ [] := by rcases hne with h | h | h | h <;> first | exact absurd rfl h | exact h
        obtain ⟨x, hx, _⟩ := head?_of_ne h4
        exact ⟨x, by simp [orElse, expect, hx], fun h => absurd rfl h, fun _ h => absurd rfl h⟩
      · obtain ⟨x, hx, _⟩ := head?_of_ne h3
        exact ⟨x, by simp [orElse, expect, hx], fun h => absurd rfl h, fun _ h => absurd rfl h⟩
    · obtain ⟨x, hx, _⟩ := head?_of_ne h2
      exact ⟨x, by simp [orElse, expect, hx], fun h => absurd rfl h, fun _ _ => hx⟩
  · obtain ⟨x, hx, _⟩ := head?_of_ne h1
    exact ⟨x, by simp [orElse, expect, hx], fun _ => hx, fun h => absurd h h1⟩

theorem lastHunk_spec (front ours theirs back : List Hunk) (msg : String)
    (hne : front ≠ [] ∨ ours ≠ [] ∨ theirs ≠ [] ∨ back ≠ []) :
    ∃ lh, expect (orElse (orElse (orElse back.getLast? theirs.getLast?) ours.getLast?) front.getLast?) msg = .ok lh ∧
      (back ≠ [] → back.getLast? = some lh) ∧ (back = [] → theirs ≠ [] → theirs.getLast? = some lh) ∧
      lh ∈ front ++ ours ++ theirs ++ back := by
  by_cases h1 : back = []
  · subst h1
    by_cases h2 : theirs = []
    · subst h2
      by_cases h3 : ours = []
      · subst h3
        have h4 : front ≠ [] := by rcases hne with h | h | h | h <;> first | exact absurd rfl h | exact h
        obtain ⟨x, hx, hm⟩ := getLast?_of_ne h4
        exact ⟨x, by simp [orElse, expect, hx], fun h => absurd rfl h, fun _ h => absurd rfl h, by simp [hm]⟩
      · obtain ⟨x, hx, hm⟩ := getLast?_of_ne h3
        exact ⟨x, by simp [orElse, expect, hx], fun h => absurd rfl h, fun _ h => absurd rfl h, by simp [hm]⟩
    · obtain ⟨x, hx, hm⟩ := getLast?_of_ne h2
      exact ⟨x, by simp [orElse, expect, hx], fun h => absurd rfl h, fun _ _ => hx, by simp [hm]⟩
  · obtain ⟨x, hx, hm⟩ := getLast?_of_ne h1
    exact ⟨x, by simp [orElse, expect, hx], fun _ => hx, fun h => absurd h h1, by simp [hm]⟩

/-- what the callers of `zealously_contract_hunks` (or of nothing, for `Diff3`) rely on -/
structure ContractedOk (inp : Input) (p : Nat) (c : Contracted) : Prop where
  va : AllValid inp c.a
  vb : AllValid inp c.b
  vf : AllValid inp c.front
  vk : AllValid inp c.back
  ne : c.front ≠ [] ∨ c.a ≠ [] ∨ c.back ≠ []
  fs : StartsLe p c.front
  fe : c.front = [] → HeadLe p c.a ∧ HeadLe p c.b
  bl : LastGe p c.back
  be : c.back = [] → LastGe p c.a ∧ LastGe p c.b

theorem headLe_of_startsLe {p : Nat} {l : List Hunk} (h : StartsLe p l) : HeadLe p l := by
  intro x hx
  cases l with
  | nil => simp at hx
  | cons y ys => simp at hx; subst hx; exact h _ (by simp)

theorem contractFor_ok (inp : Input) (style : Style) (p : Nat) (a b : List Hunk)
    (hva : AllValid inp a) (hvb : AllValid inp b) (hne : a ≠ [])
    (hsa : StartsLe p a) (hla : LastGe p a) (hsb : StartsLe p b) (hlb : LastGe p b) :
    ∃ c, contractFor inp style a b = .ok c ∧ ContractedOk inp p c := by
  have hz : ∃ c, zealouslyContract inp a b = .ok c ∧ ContractedOk inp p c := by
    obtain ⟨c, hc, v1, v2, v3, v4, n, fs, fe, bl, be⟩ := zealouslyContract_spec inp a b hva hvb
    exact ⟨c, hc, v1, v2, v3, v4, n hne, fs p hsa,
      fun h => ⟨(fe h).1 p (headLe_of_startsLe hsa), (fe h).2 p (headLe_of_startsLe hsb)⟩, bl p hla,
      fun h => ⟨(be h).1 p hla, (be h).2 p hlb⟩⟩
  cases style with
  | merge => exact hz
  | zdiff3 => exact hz
  | diff3 =>
    refine ⟨_, rfl, hva, hvb, fun x hx => by simp at hx, fun x hx => by simp at hx, Or.inr (Or.inl hne),
      fun x hx => by simp at hx, fun _ => ⟨headLe_of_startsLe hsa, headLe_of_startsLe hsb⟩,
      fun x hx => by simp at hx, fun _ => ⟨hla, hlb⟩⟩



/-- ours/theirs after contraction, with everything the writers need -/
theorem oursTheirs_ok (inp : Input) (p : Nat) (side : Side) (c : Contracted) (hside : side ≠ .ancestor)
    (hc : ContractedOk inp p c) :
    ∃ o t, oursTheirs side c.a c.b = .ok (o, t) ∧ AllValid inp o ∧ AllValid inp t ∧
      (c.front ≠ [] ∨ o ≠ [] ∨ t ≠ [] ∨ c.back ≠ []) ∧
      (c.front = [] → HeadLe p o) ∧ (c.back = [] → LastGe p t) := by
  cases side with
  | ancestor => exact absurd rfl hside
  | current =>
    refine ⟨c.a, c.b, rfl, hc.va, hc.vb, ?_, fun h => (hc.fe h).1, fun h => (hc.be h).2⟩
    rcases hc.ne with h | h | h
    · exact Or.inl h
    · exact Or.inr (Or.inl h)
    · exact Or.inr (Or.inr (Or.inr h))
  | other =>
    refine ⟨c.b, c.a, rfl, hc.vb, hc.va, ?_, fun h => (hc.fe h).2, fun h => (hc.be h).1⟩
    rcases hc.ne with h | h | h
    · exact Or.inl h
    · exact Or.inr (Or.inr (Or.inl h))
    · exact Or.inr (Or.inr (Or.inr h))

theorem allValid_append {inp : Input} {a b : List Hunk} (ha : AllValid inp a) (hb : AllValid inp b) :
    AllValid inp (a ++ b) := by
  intro x hx
  rcases List.mem_append.mp hx with h | h
  · exact ha x h
  · exact hb x h

theorem sectionKeep_ok (inp : Input) (labels : Labels) (style : Style) (ms : Nat) (out : List Piece) (iu : Nat)
    (side : Side) (filled inter : List Hunk) (p : Nat) (hside : side ≠ .ancestor)
    (hva : AllValid inp filled) (hvb : AllValid inp inter) (hne : filled ≠ [])
    (hsa : StartsLe p filled) (hla : LastGe p filled) (hsb : StartsLe p inter) (hlb : LastGe p inter) :
    ∃ s, sectionKeep inp labels style ms out iu side filled inter = .ok s := by
  obtain ⟨c, hc, hco⟩ := contractFor_ok inp style p filled inter hva hvb hne hsa hla hsb hlb
  obtain ⟨o, t, hot, hvo, hvt, hne4, hfe, hbe⟩ := oursTheirs_ok inp p side c hside hco
  obtain ⟨fh, hfh, hfh1, hfh2⟩ := firstHunk_spec c.front o t c.back "at least one hunk to write" hne4
  obtain ⟨lh, hlh, hlh1, hlh2, hlhm⟩ := lastHunk_spec c.front o t c.back "at least one hunk" hne4
  obtain ⟨wf, hwf⟩ := writeHunks_ok inp c.front hco.vf
  obtain ⟨wb, hwb⟩ := writeHunks_ok inp c.back hco.vk
  have hlhv : HunkValid inp lh :=
    allValid_append (allValid_append (allValid_append hco.vf hvo) hvt) hco.vk lh hlhm
  have hanc : o ≠ [] → t ≠ [] → fh.before.start ≤ lh.before.stop ∧ lh.before.stop ≤ inp.anc.length := by
    intro ho ht
    refine ⟨?_, hlhv.2.1⟩
    have h1 : fh.before.start ≤ p := by
      by_cases hf : c.front = []
      · exact hfe hf fh (hfh2 hf ho)
      · exact hco.fs fh (List.mem_of_mem_head? (hfh1 hf))
    have h2 : p ≤ lh.before.stop := by
      by_cases hb : c.back = []
      · exact hbe hb lh (hlh2 hb ht)
      · exact hco.bl lh (hlh1 hb)
    omega
  obtain ⟨r, hr⟩ := keepMiddle_ok inp labels style ms (out ++ writeAncestor inp iu fh.before.start ++ wf) iu
    c.front o t fh lh hvo hvt hanc
  simp only [sectionKeep, bind, Except.bind, hc, hot, hfh, hlh, hwf, hr, hwb, pure, Except.pure]
  exact ⟨_, rfl⟩



theorem sectionUnion_ok (inp : Input) (out : List Piece) (iu : Nat)
    (side : Side) (filled inter : List Hunk) (p : Nat) (hside : side ≠ .ancestor)
    (hva : AllValid inp filled) (hvb : AllValid inp inter) (hne : filled ≠ [])
    (hsa : StartsLe p filled) (hla : LastGe p filled) (hsb : StartsLe p inter) (hlb : LastGe p inter) :
    ∃ s, sectionUnion inp out iu side filled inter = .ok s := by
  obtain ⟨c, hc, hco⟩ := contractFor_ok inp .merge p filled inter hva hvb hne hsa hla hsb hlb
  simp only [contractFor] at hc
  obtain ⟨o, t, hot, hvo, hvt, hne4, _, _⟩ := oursTheirs_ok inp p side c hside hco
  obtain ⟨fh, hfh, _, _⟩ := firstHunk_spec c.front o t c.back "at least one hunk to write" hne4
  obtain ⟨lh, hlh, _, _, _⟩ := lastHunk_spec c.front o t c.back "at least one hunk" hne4
  obtain ⟨wf, hwf⟩ := writeHunks_ok inp c.front hco.vf
  obtain ⟨wb, hwb⟩ := writeHunks_ok inp c.back hco.vk
  obtain ⟨wo, hwo⟩ := writeHunks_ok inp o hvo
  obtain ⟨wt, hwt⟩ := writeHunks_ok inp t hvt
  obtain ⟨n1, hn1⟩ := detectLineEndingOrNl_ok inp c.front
  obtain ⟨n2, hn2⟩ := detectLineEndingOrNl_ok inp o
  obtain ⟨n3, hn3⟩ := detectLineEndingOrNl_ok inp t
  simp only [sectionUnion, bind, Except.bind, hc, hot, hfh, hlh, hwf, hwo, hwt, hwb, hn1, hn2, hn3, pure, Except.pure]
  repeat' split
  all_goals exact ⟨_, rfl⟩

theorem takeIntersecting_starts (hunk : Hunk) (hv : hunk.before.start ≤ hunk.before.stop) : ∀ (l : List Hunk),
    StartsLe hunk.before.stop (takeIntersecting hunk l).1 := by
  intro l
  induction l with
  | nil => intro x hx; simp [takeIntersecting] at hx
  | cons y rest ih =>
    intro x hx
    unfold takeIntersecting at hx
    split at hx
    · rename_i hc
      simp only [List.mem_cons] at hx
      rcases hx with rfl | hx
      · simp only [Bool.and_eq_true, Bool.or_eq_true, Range.contains, Range.isEmpty, decide_eq_true_eq,
          beq_iff_eq] at hc
        rcases hc.2 with h | h
        · omega
        · omega
      · exact ih x hx
    · simp at hx

/-- a group of intersecting hunks never panics, in any mode -/
theorem sectionFor_ok (inp : Input) (labels : Labels) (conflict : Conflict) (out : List Piece) (iu : Nat)
    (hunk : Hunk) (rest : List Hunk)
    (hside : hunk.side ≠ .ancestor) (hh : HunkValid inp hunk)
    (hne : (takeIntersecting hunk rest).1 ≠ [])
    (hi : AllValid inp (takeIntersecting hunk rest).1) :
    ∃ s, sectionFor inp labels conflict out iu hunk (takeIntersecting hunk rest).1 = .ok s := by
  obtain ⟨inter', h1, hne', hv'⟩ := fillAncestor_ok inp hunk.before _ hh.2.1 hne hi
  obtain ⟨first, hfirst⟩ : ∃ f, inter'.head? = some f := by
    cases inter' with
    | nil => exact absurd rfl hne'
    | cons x _ => exact ⟨x, rfl⟩
  obtain ⟨last, hlast, hlastm⟩ := getLast?_of_ne hne'
  have hlastv := hv' last hlastm
  obtain ⟨filled, h2, hfne, hfv⟩ := fillAncestor_ok inp ⟨first.before.start, last.before.stop⟩ [hunk] hlastv.2.1
    (by simp) (by intro h hm; simp at hm; subst hm; exact hh)
  -- the bounds around the pivot `hunk.before.stop`
  obtain ⟨hb1, hb2⟩ := fillAncestor_bounds hunk.before _ inter' h1
  have hsb : StartsLe hunk.before.stop inter' :=
    hb1 _ (takeIntersecting_starts hunk hh.1 rest) hh.1 (Nat.le_refl _)
  have hlb : LastGe hunk.before.stop inter' := hb2 hne
  have hsa : StartsLe hunk.before.stop filled := fillAncestor_one_startsLe _ hunk filled h2 hh.1
  have hla : LastGe hunk.before.stop filled := by
    have := (fillAncestor_bounds ⟨first.before.start, last.before.stop⟩ [hunk] filled h2).2 (by simp)
    intro x hx
    have h3 := this x hx
    have h4 := hlb last hlast
    simp only at h3
    omega
  have hsec : ∃ s : Section, (match conflict with
      | .keep style markerSize => sectionKeep inp labels style markerSize out iu hunk.side filled inter'
      | .ours => sectionPick inp true out iu hunk.side filled inter'
      | .theirs => sectionPick inp false out iu hunk.side filled inter'
      | .union => sectionUnion inp out iu hunk.side filled inter') = .ok s := by
    cases conflict with
    | keep style ms => exact sectionKeep_ok inp labels style ms out iu hunk.side filled inter' _ hside hfv hv' hfne hsa hla hsb hlb
    | ours => exact sectionPick_ok inp true out iu hunk.side filled inter' hside hfv hv'
    | theirs => exact sectionPick_ok inp false out iu hunk.side filled inter' hside hfv hv'
    | union => exact sectionUnion_ok inp out iu hunk.side filled inter' _ hside hfv hv' hfne hsa hla hsb hlb
  obtain ⟨s, hs⟩ := hsec
  refine ⟨s, ?_⟩
  unfold sectionFor
  simp only [bind, Except.bind, h1, expect_some _ _ _ hfirst, expect_some _ _ _ hlast, h2]
  exact hs



theorem mergeLoop_ok (inp : Input) (labels : Labels) (conflict : Conflict) :
    ∀ (fuel : Nat) (hs : List Hunk) (out : List Piece) (upTo : Nat) (c : Bool),
      (∀ h ∈ hs, HunkValid inp h ∧ h.side ≠ .ancestor) →
      ∃ r, mergeLoop inp labels conflict fuel hs out upTo c = .ok r := by
  intro fuel
  induction fuel with
  | zero => intro hs out upTo c _; exact ⟨_, rfl⟩
  | succ fuel ih =>
    intro hs out upTo c hv
    cases hs with
    | nil => exact ⟨_, rfl⟩
    | cons hunk rest =>
      have hh := hv hunk (by simp)
      have hrest : ∀ h ∈ (takeIntersecting hunk rest).2, HunkValid inp h ∧ h.side ≠ .ancestor :=
        fun h hm => hv h (List.mem_cons_of_mem _ (takeIntersecting_rest_mem hunk rest h hm))
      simp only [mergeLoop, bind, Except.bind, pure, Except.pure]
      split
      · rename_i hne
        have hne' : (takeIntersecting hunk rest).1 ≠ [] := by
          intro he; simp [he] at hne
        have htv : AllValid inp (takeIntersecting hunk rest).1 :=
          fun h hm => (hv h (List.mem_cons_of_mem _ (takeIntersecting_sides hunk rest h hm).2)).1
        obtain ⟨s, hs⟩ := sectionFor_ok inp labels conflict out upTo hunk rest hh.2 hh.1 hne' htv
        rw [hs]
        exact ih _ _ _ _ hrest
      · obtain ⟨ps, hps⟩ := writeHunks_ok inp [hunk] (by intro h hm; simp at hm; subst hm; exact hh.1)
        rw [hps]
        exact ih _ _ _ _ hrest

/-- `no_panic`: for all token lists, all hunk lists satisfying the diff contract and all modes -/
theorem merge_ok (base ours theirs : List Bytes) (labels : Labels) (conflict : Conflict)
    (ha hb : List (Range × Range)) (hA : DiffOf base ours ha) (hB : DiffOf base theirs hb) :
    ∃ r, merge ⟨base, ours, theirs⟩ labels conflict ha hb = .ok r := by
  have hvalid : ∀ h ∈ sortByStart (ha.map (fun (b, a) => Hunk.mk b a .current) ++ hb.map (fun (b, a) => Hunk.mk b a .other)),
      HunkValid ⟨base, ours, theirs⟩ h ∧ h.side ≠ .ancestor := by
    intro h hm
    rw [mem_sortByStart] at hm
    rcases List.mem_append.mp hm with h1 | h1
    · simp only [List.mem_map] at h1
      obtain ⟨⟨b, a⟩, hx, rfl⟩ := h1
      have := diffOk_valid hA.1 (b, a) hx
      exact ⟨⟨this.1, this.2.1, this.2.2.1, this.2.2.2⟩, by simp⟩
    · simp only [List.mem_map] at h1
      obtain ⟨⟨b, a⟩, hx, rfl⟩ := h1
      have := diffOk_valid hB.1 (b, a) hx
      exact ⟨⟨this.1, this.2.1, this.2.2.1, this.2.2.2⟩, by simp⟩
  obtain ⟨r, hr⟩ := mergeLoop_ok ⟨base, ours, theirs⟩ labels conflict
    ((sortByStart (ha.map (fun (b, a) => Hunk.mk b a .current) ++ hb.map (fun (b, a) => Hunk.mk b a .other))).length + 1)
    _ [] 0 false hvalid
  unfold merge
  simp only [bind, Except.bind, pure, Except.pure]
  rw [hr]
  exact ⟨_, rfl⟩


end GixModel.C45
