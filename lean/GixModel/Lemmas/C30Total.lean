import GixModel.Lemmas.C30V1c
/-
C30 — the parsers are total: no input line reaches one of the `unreachable!()`s.
-/
namespace GixModel.C30
open GixModel
open GixModel.Spec.C30

theorem parseV1_no_panic (k : Nat) (st : V1State) (line : Bytes) : parseV1 k st line ≠ .panic := by
  unfold parseV1
  simp only []
  split
  · simp
  · split
    · simp
    · split
      · split
        · simp
        · split
          · split
            · simp
            · split <;> simp
          · split
            · simp
            · split <;> simp
          · simp
      · split
        · split
          · rename_i pos hpos
            obtain ⟨x, rest, hsr, hpx, _, _⟩ := position_swapRemove _ _ _ _ hpos
            obtain ⟨t, hx⟩ := lookupHasPath_eq _ _ hpx
            subst hx
            rw [hsr]
            simp
          · simp
        · split
          · split <;> simp
          · simp

theorem parseV1Lines_no_panic (k : Nat) (st : V1State) (lines : List Bytes) :
    parseV1Lines k st lines ≠ .panic := by
  induction lines generalizing st with
  | nil => simp [parseV1Lines]
  | cons l ls ih =>
    unfold parseV1Lines
    split
    · simp
    · cases hp : parseV1 k st l with
      | ok st' => simpa using ih st'
      | err e => simp
      | panic => exact absurd hp (parseV1_no_panic k st l)

theorem fromCapabilities_no_panic (cs : List Bytes) : fromCapabilities cs ≠ .panic := by
  induction cs with
  | nil => simp [fromCapabilities]
  | cons c cs ih =>
    rw [fromCapabilities]
    split
    · split
      · exact ih
      · split
        · simp
        · split
          · simp
          · cases hf : fromCapabilities cs with
            | ok r => simp
            | err e => simp
            | panic => exact absurd hf ih
    · exact ih

theorem intoRefs_no_panic (l : List IRef) : intoRefs l ≠ .panic := by
  rw [intoRefs_eq]; simp

theorem handshakeV1_no_panic (lines : List Bytes) : handshakeV1 lines ≠ some .panic := by
  unfold handshakeV1
  split
  · simp
  · split
    · simp
    · simp only []
      split
      · simp
      · simp
      · split
        · simp
        · split
          · simp
          · split
            · simp
            · rename_i hf
              exact absurd hf (fromCapabilities_no_panic _)
            · split
              · simp
              · rename_i hp
                exact absurd hp (parseV1Lines_no_panic _ _ _)
              · split
                · simp
                · simp
                · rename_i hi
                  exact absurd hi (intoRefs_no_panic _)

theorem parseAttr_no_panic (acc : V2Attrs) (tok : Bytes) : parseAttr acc tok ≠ .panic := by
  unfold parseAttr
  split
  · simp
  · split
    · simp
    · split
      · split <;> simp
      · split <;> simp

theorem parseAttrs_no_panic (acc : V2Attrs) (toks : List Bytes) : parseAttrs acc toks ≠ .panic := by
  induction toks generalizing acc with
  | nil => simp [parseAttrs]
  | cons t ts ih =>
    unfold parseAttrs
    cases hp : parseAttr acc t with
    | ok a => simpa using ih a
    | err e => simp
    | panic => exact absurd hp (parseAttr_no_panic acc t)

theorem parseV2_no_panic (line : Bytes) : parseV2 line ≠ .panic := by
  unfold parseV2
  simp only []
  split
  · split
    · simp
    · rename_i h
      split at h
      · simp at h
      · split at h <;> simp at h
    · split
      · simp
      · split
        · simp
        · rename_i hp
          exact absurd hp (parseAttrs_no_panic _ _)
        · split
          · split
            · split <;> simp
            · split <;> simp
          · split <;> simp
          · split <;> simp
  · simp

theorem fromV2_no_panic (lines : List Bytes) : fromV2 lines ≠ .panic := by
  induction lines with
  | nil => simp [fromV2]
  | cons l ls ih =>
    unfold fromV2
    split
    · simp
    · split
      · cases hf : fromV2 ls with
        | ok rs => simp
        | err e => simp
        | panic => exact absurd hf ih
      · simp
      · rename_i hp
        exact absurd hp (parseV2_no_panic l)

end GixModel.C30
