import GixModel.Lemmas.C14
import GixModel.Lemmas.C09Lookup
/-
C14 helper lemmas, part 2: a whole layer (file) as git writes it, position translation across the
files of a chain, id lookup across the chain.
-/
namespace GixModel.C14
open GixModel
open GixModel.C09 (be32 slice TableOk lookupWith_spec)

/-- the `i`-th record of a layer and where its extra edges sit in the layer's list -/
theorem sLayer_nth : ∀ (cs : List SCommit) (eb i : Nat) (hi : i < cs.length),
    ∃ pre post, (sLayer cs eb).2 = pre ++ sExtraEdges cs[i] ++ post ∧
      (sLayer cs eb).1[i]? = some (sRecord cs[i] (eb + pre.length)) := by
  intro cs
  induction cs with
  | nil => intro eb i hi; simp at hi
  | cons c rest ih =>
    intro eb i hi
    cases i with
    | zero => exact ⟨[], (sLayer rest (eb + (sExtraEdges c).length)).2, by simp [sLayer], by simp [sLayer]⟩
    | succ j =>
      obtain ⟨pre, post, h1, h2⟩ := ih (eb + (sExtraEdges c).length) j (by simpa using hi)
      refine ⟨sExtraEdges c ++ pre, post, ?_, ?_⟩
      · simp only [sLayer, h1, List.getElem_cons_succ, List.append_assoc]
      · simp only [sLayer, List.getElem?_cons_succ, h2, List.getElem_cons_succ, List.length_append]
        congr 2; omega

theorem sLayer_length : ∀ (cs : List SCommit) (eb : Nat), (sLayer cs eb).1.length = cs.length := by
  intro cs
  induction cs with
  | nil => intro _; rfl
  | cons c rest ih => intro eb; simp [sLayer, ih]

theorem sRecord_length (c : SCommit) (h : c.tree.length = 20) (eb : Nat) : (sRecord c eb).length = 36 := by
  simp [sRecord, C09.be32_length, h]

theorem sLayer_records36 : ∀ (cs : List SCommit) (eb : Nat), (∀ c ∈ cs, c.tree.length = 20) →
    ∀ r ∈ (sLayer cs eb).1, r.length = 36 := by
  intro cs
  induction cs with
  | nil => intro _ _ r hr; simp [sLayer] at hr
  | cons c rest ih =>
    intro eb h r hr
    simp only [sLayer, List.mem_cons] at hr
    rcases hr with rfl | hr
    · exact sRecord_length c (h c (by simp)) eb
    · exact ih _ (fun x hx => h x (by simp [hx])) r hr

/-- a layer git can write and gitoxide can address -/
structure LayerOk (l : SLayer) : Prop where
  lens : l.ids.length = l.commits.length
  fits : ∀ c ∈ l.commits, Fits c
  sorted : C09.SortedIds l.ids
  ids20 : ∀ x ∈ l.ids, x.length = 20
  small : l.ids.length < 2147483648
  edgesSmall : (sLayer l.commits 0).2.length < 2147483648

theorem sFile_fan (l : SLayer) (bc : Nat) :
    (sFile l bc).fan = (List.range 256).map (fun b => C09.countLe b (l.ids.map C09.hd)) := by
  simp only [sFile]
  apply List.map_congr_left
  intro b _
  rw [C09.countLe, List.countP_map, List.countP_eq_length_filter]
  rfl

theorem sFile_numCommits (l : SLayer) (bc : Nat) : (sFile l bc).numCommits = some l.ids.length := by
  simp only [File.numCommits, sFile_fan]
  rw [List.getElem?_map, List.getElem?_range (by omega)]
  simp only [Option.map_some]
  congr 1
  rw [C09.countLe_all (by intro y _; have := y.toNat_lt; omega)]
  simp

theorem sFile_idAt (l : SLayer) (h : LayerOk l) (bc i : Nat) (hi : i < l.ids.length) :
    (sFile l bc).idAt i = some l.ids[i] := by
  have hlen : l.ids.flatten.length = l.ids.length * 20 := C09.flatten_length_fixed _ h.ids20
  have hd := C09.drop_take_flatten (w := 20) l.ids h.ids20 i hi []
  simp only [List.append_nil] at hd
  simp only [File.idAt, sFile_numCommits, Option.bind_eq_bind, Option.bind_some, hi, if_true]
  show slice l.ids.flatten (i * 20) 20 = _
  rw [C09.slice_in _ _ _ (by rw [hlen]; have : (i + 1) * 20 ≤ l.ids.length * 20 := Nat.mul_le_mul_right 20 hi; omega), hd]

theorem sFile_tableOk (l : SLayer) (h : LayerOk l) (bc : Nat) :
    TableOk (sFile l bc).fan (sFile l bc).idAt l.ids :=
  { sorted := h.sorted, len20 := h.ids20, fanOk := sFile_fan l bc, small := h.small,
    get := fun i hi => sFile_idAt l h bc i hi }

/-- what the reader must see of commit `c` -/
def seenOf (c : SCommit) : Seen :=
  { tree := c.tree, generation := c.generation, time := c.time, parents := c.parents, err := none }

theorem sFile_seen (l : SLayer) (h : LayerOk l) (bc i : Nat) (hi : i < l.commits.length) :
    (sFile l bc).seen i = some (seenOf l.commits[i]) := by
  have hin : i < l.ids.length := by rw [h.lens]; exact hi
  obtain ⟨pre, post, he, hr⟩ := sLayer_nth l.commits 0 i hi
  have hfits := h.fits l.commits[i] (List.getElem_mem hi)
  have hpre : pre.length < 2147483648 := by
    have := h.edgesSmall
    rw [he] at this
    simp only [List.length_append] at this
    omega
  have h36 := sLayer_records36 l.commits 0 (fun c hc => (h.fits c hc).tree20)
  have hlenr := sLayer_length l.commits 0
  have hi' : i < (sLayer l.commits 0).1.length := by rw [hlenr]; exact hi
  have hrec : (sLayer l.commits 0).1[i] = sRecord l.commits[i] pre.length := by
    rw [List.getElem?_eq_getElem hi'] at hr
    simp only [Option.some.injEq, Nat.zero_add] at hr
    exact hr
  have hflen : (sLayer l.commits 0).1.flatten.length = l.commits.length * 36 := by
    rw [C09.flatten_length_fixed _ h36, hlenr]
  have hd := C09.drop_take_flatten (w := 36) (sLayer l.commits 0).1 h36 i hi' []
  simp only [List.append_nil] at hd
  have hbytes : (sFile l bc).commitDataBytes i = some (sRecord l.commits[i] pre.length) := by
    simp only [File.commitDataBytes, sFile_numCommits, Option.bind_eq_bind, Option.bind_some, hin, if_true]
    show slice (sLayer l.commits 0).1.flatten (i * 36) 36 = _
    rw [C09.slice_in _ _ _ (by rw [hflen]; have : (i + 1) * 36 ≤ l.commits.length * 36 := Nat.mul_le_mul_right 36 hi; omega),
      hd, hrec]
  obtain ⟨d, hd1, hd2, hd3, hd4, hd5, hd6⟩ := commit_roundtrip_at l.commits[i] hfits pre post hpre
  have hparents : d.parents (sFile l bc).edges = some (l.commits[i].parents, none) := by
    by_cases hempty : (sLayer l.commits 0).2.isEmpty = true
    · have hx : sExtraEdges l.commits[i] = [] := by
        have := List.isEmpty_iff.mp hempty
        rw [he] at this
        simp only [List.append_eq_nil_iff] at this
        exact this.1.2
      exact hd6 hx _
    · have hempty' : ¬ (pre ++ sExtraEdges l.commits[i] ++ post).isEmpty = true := by rw [← he]; exact hempty
      have : (sFile l bc).edges = some ((pre ++ sExtraEdges l.commits[i] ++ post).flatMap be32) := by
        simp only [sFile, he, hempty', Bool.false_eq_true, if_false]
      rw [this]; exact hd5
  simp only [File.seen, File.commitAt, hbytes, Option.bind_eq_bind, Option.bind_some, hd1, hparents, seenOf, hd2,
    hd3, hd4]

/-! ### the chain -/

/-- files with the ids they hold -/
def ChainOk (fs : List (File × List Bytes)) : Prop :=
  ∀ p ∈ fs, TableOk p.1.fan p.1.idAt p.2 ∧ p.1.numCommits = some p.2.length

/-- number of commits in the first `k` files -/
def startOf (fs : List (File × List Bytes)) (k : Nat) : Nat := ((fs.take k).map (·.2.length)).sum

theorem lookupByPos_spec : ∀ (fs : List (File × List Bytes)), ChainOk fs → ∀ (idx pos : Nat),
    (∀ k (hk : k < fs.length) q, q < fs[k].2.length → pos = startOf fs k + q →
        lookupByPos (fs.map (·.1)) idx pos = some (idx + k, q)) ∧
    (startOf fs fs.length ≤ pos → lookupByPos (fs.map (·.1)) idx pos = none) := by
  intro fs
  induction fs with
  | nil =>
    intro _ idx pos
    exact ⟨by intro k hk; simp at hk, by intro _; rfl⟩
  | cons p rest ih =>
    intro hok idx pos
    have hp := hok p (by simp)
    have hrest : ChainOk rest := fun x hx => hok x (by simp [hx])
    constructor
    · intro k hk q hq hpos
      cases k with
      | zero =>
        simp only [startOf, List.take_zero, List.map_nil, List.sum_nil, Nat.zero_add] at hpos
        simp only [List.getElem_cons_zero] at hq
        subst hpos
        simp [lookupByPos, hp.2, hq]
      | succ j =>
        have hs : startOf (p :: rest) (j + 1) = p.2.length + startOf rest j := by
          simp [startOf, List.take_succ_cons]
        have hge : ¬ pos < p.2.length := by omega
        simp only [List.map_cons, lookupByPos, hp.2, Option.bind_eq_bind, Option.bind_some, hge, if_false]
        have := (ih hrest (idx + 1) (pos - p.2.length)).1 j (by simpa using hk) q (by simpa using hq) (by omega)
        rw [this]; congr 2; omega
    · intro hge
      have hs : startOf (p :: rest) (p :: rest).length = p.2.length + startOf rest rest.length := by
        simp [startOf, List.take_succ_cons]
      have hge' : ¬ pos < p.2.length := by omega
      simp only [List.map_cons, lookupByPos, hp.2, Option.bind_eq_bind, Option.bind_some, hge', if_false]
      exact (ih hrest (idx + 1) (pos - p.2.length)).2 (by omega)

theorem lookupById_spec (id : Bytes) (hid : id.length = 20) :
    ∀ (fs : List (File × List Bytes)), ChainOk fs → ∀ (idx start : Nat),
      (∀ k (hk : k < fs.length) lex (hl : lex < fs[k].2.length), fs[k].2[lex] = id →
          (∀ j (hj : j < k), id ∉ (fs[j]'(by omega)).2) →
          lookupById (fs.map (·.1)) idx start id = some (some (idx + k, lex, start + startOf fs k + lex))) ∧
      ((∀ p ∈ fs, id ∉ p.2) → lookupById (fs.map (·.1)) idx start id = some none) := by
  intro fs
  induction fs with
  | nil =>
    intro _ idx start
    exact ⟨by intro k hk; simp at hk, by intro _; rfl⟩
  | cons p rest ih =>
    intro hok idx start
    have hp := hok p (by simp)
    have hrest : ChainOk rest := fun x hx => hok x (by simp [hx])
    obtain ⟨r, hr, h1, h2⟩ := lookupWith_spec hp.1 id hid
    constructor
    · intro k hk lex hl hget hnot
      cases k with
      | zero =>
        simp only [List.getElem_cons_zero] at hl hget
        have : r = some lex := (h1 lex).mpr (by rw [List.getElem?_eq_getElem hl, hget])
        subst this
        simp only [List.map_cons, lookupById, File.lookup, hr, Option.bind_eq_bind, Option.bind_some, startOf,
          List.take_zero, List.map_nil, List.sum_nil, Nat.add_zero]
      | succ j =>
        have hnone : r = none := h2.mpr (by have := hnot 0 (by omega); simpa using this)
        subst hnone
        have hs : startOf (p :: rest) (j + 1) = p.2.length + startOf rest j := by
          simp [startOf, List.take_succ_cons]
        simp only [List.map_cons, lookupById, File.lookup, hr, Option.bind_eq_bind, Option.bind_some, hp.2]
        have := (ih hrest (idx + 1) (start + p.2.length)).1 j (by simpa using hk) lex (by simpa using hl)
          (by simpa using hget)
          (by intro j' hj'; have := hnot (j' + 1) (by omega); simpa using this)
        have e1 : idx + 1 + j = idx + (j + 1) := by omega
        have e2 : start + p.2.length + startOf rest j + lex = start + (p.2.length + startOf rest j) + lex := by omega
        rw [this, hs, e1, e2]
    · intro hnot
      have hnone : r = none := h2.mpr (hnot p (by simp))
      subst hnone
      simp only [List.map_cons, lookupById, File.lookup, hr, Option.bind_eq_bind, Option.bind_some, hp.2]
      exact (ih hrest (idx + 1) (start + p.2.length)).2 (fun x hx => hnot x (by simp [hx]))

end GixModel.C14
