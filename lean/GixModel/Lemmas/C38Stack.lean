import GixModel.Lemmas.C38Path
/-
C38 — the worktree stack: the three groups gitoxide consults (info, directory stack, globals) are,
list by list, git's attribute stack from top to bottom; the collection's macro table is what
`determine_macros` computes; hence the early-exit-free reference run of the model is `git`'s `fill`.
-/
namespace GixModel.Lemmas.C38
open GixModel GixModel.C38 GixModel.Spec.C38

/-- the loop body of `fillFrame` -/
def frameStep (env : Env) (mo : Bytes → Option (List Asg)) (fuel : Nat) (gpath : Bytes) (icase : Bool)
    (origin : Option Bytes) (v : Vals) (l : Line) : Vals :=
  match l.kind with
  | .macro _ => v
  | .pattern p => if pathMatches env p origin gpath icase then fillOne mo fuel l.attrs v else v

theorem fillFrame_eq (env mo fuel gpath icase) (fr : Frame) (v : Vals) :
    fillFrame env mo fuel gpath icase fr v = fr.lines.reverse.foldl (frameStep env mo fuel gpath icase fr.origin) v := rfl

theorem frameStep_eq_refLine (env : Env) (mo : Bytes → Option (List Asg)) (D : Nat) (gpath rel : Bytes)
    (isDir icase : Bool) (origin : Option Bytes)
    (h : ∀ p, pathMatches env p origin gpath icase = env.pm p rel isDir icase) :
    frameStep env mo (D + 1) gpath icase origin = refLine env mo D rel isDir icase := by
  funext v l
  unfold frameStep refLine
  cases l.kind with
  | «macro» n => rfl
  | pattern p => simp only [h p]

/-- a list without base (info, root, globals, built-in) is a frame whose origin is empty -/
theorem refList_nobase (env : Env) (mo : Bytes → Option (List Asg)) (D : Nat) (p : Bytes) (isDir icase : Bool)
    (hp : PathOk p) (origin : Option Bytes) (ho : origin.getD [] = []) (f : PFile) (v : Vals) :
    refList env mo D p isDir icase v ⟨none, f⟩ = fillFrame env mo (D + 1) (gitPath p isDir) icase ⟨origin, f⟩ v := by
  rw [fillFrame_eq]
  unfold refList relOf
  simp only
  rw [frameStep_eq_refLine env mo D (gitPath p isDir) p isDir icase origin
    (fun pat => pathMatches_root env pat origin ho p isDir icase hp)]

/-- the list of a sub-directory is the frame with that origin -/
theorem refList_dir (env : Env) (mo : Bytes → Option (List Asg)) (D : Nat) (p d : Bytes) (isDir icase : Bool)
    (hp : PathOk p) (hd : d ∈ ancestors p) (f : PFile) (v : Vals) :
    refList env mo D p isDir icase v ⟨some (d ++ [47]), f⟩
      = fillFrame env mo (D + 1) (gitPath p isDir) icase ⟨some d, f⟩ v := by
  obtain ⟨rest, hpr, hdne⟩ := ancestor_split p d hp hd
  rw [fillFrame_eq]
  unfold refList relOf
  simp only
  rw [hpr, stripBase_ancestor]
  simp only
  rw [frameStep_eq_refLine env mo D (gitPath (d ++ 47 :: rest) isDir) rest isDir icase (some d)
    (fun pat => pathMatches_ancestor env pat d rest isDir icase (hpr ▸ hp) hdne)]

theorem fillFrame_nil (env mo fuel gpath icase) (origin : Option Bytes) (v : Vals) :
    fillFrame env mo fuel gpath icase ⟨origin, []⟩ v = v := rfl

/-- the directory lists, deepest first, are git's directory frames -/
theorem dirs_eq (env : Env) (mo : Bytes → Option (List Asg)) (D : Nat) (t : PTree) (p : Bytes) (isDir icase : Bool)
    (hp : PathOk p) : ∀ (ds : List Bytes) (v : Vals), (∀ d ∈ ds, d ∈ ancestors p) →
    (ds.filterMap fun d => (t.dirs d).map fun f => (⟨some (d ++ [47]), dropMacros f⟩ : PList)).foldl
        (refList env mo D p isDir icase) v
      = (ds.map fun d => (⟨some d, noMacros ((t.dirs d).getD [])⟩ : Frame)).foldl
        (fun v fr => fillFrame env mo (D + 1) (gitPath p isDir) icase fr v) v := by
  intro ds
  induction ds with
  | nil => intros; rfl
  | cons d ds ih =>
    intro v hds
    have hd := hds d (by simp)
    have hrest : ∀ x ∈ ds, x ∈ ancestors p := fun x hx => hds x (by simp [hx])
    rw [List.filterMap_cons, List.map_cons, List.foldl_cons]
    cases hf : t.dirs d with
    | none =>
      simp only [Option.map_none, Option.getD_none]
      have : noMacros [] = [] := rfl
      rw [this, fillFrame_nil]
      exact ih v hrest
    | some f =>
      simp only [Option.map_some, Option.getD_some, List.foldl_cons]
      rw [refList_dir env mo D p d isDir icase hp hd]
      exact ih _ hrest

theorem foldl_refList_nobase (env : Env) (mo : Bytes → Option (List Asg)) (D : Nat) (p : Bytes) (isDir icase : Bool)
    (hp : PathOk p) : ∀ (fs : List PFile) (v : Vals),
    (fs.map fun f => (⟨none, f⟩ : PList)).foldl (refList env mo D p isDir icase) v
      = (fs.map fun f => (⟨none, f⟩ : Frame)).foldl (fun v fr => fillFrame env mo (D + 1) (gitPath p isDir) icase fr v) v := by
  intro fs
  induction fs with
  | nil => intros; rfl
  | cons f fs ih =>
    intro v
    rw [List.map_cons, List.map_cons, List.foldl_cons, List.foldl_cons,
      refList_nobase env mo D p isDir icase hp none rfl]
    exact ih _

/-- the reference run over gitoxide's three groups is git's `fill` over git's stack -/
theorem refGroups_eq_fill (env : Env) (mo : Bytes → Option (List Asg)) (D : Nat) (t : PTree) (p : Bytes)
    (isDir icase : Bool) (hp : PathOk p) (v : Vals) :
    refGroups env mo D p isDir icase v [infoGroup t, stackGroup t p, globalsGroup t]
      = fill env mo (D + 1) (gitPath p isDir) icase (gitStack t (gitPath p isDir)) v := by
  unfold refGroups fill gitStack
  simp only [List.foldl_cons, List.foldl_nil, List.foldl_append]
  rw [gitOrigins_eq p isDir hp]
  -- info
  have hinfo : refSearch env mo D p isDir icase v (infoGroup t)
      = fillFrame env mo (D + 1) (gitPath p isDir) icase ⟨none, t.info.getD []⟩ v := by
    unfold refSearch infoGroup
    cases t.info with
    | none => rfl
    | some f =>
      simp only [List.reverse_cons, List.reverse_nil, List.nil_append, List.foldl_cons, List.foldl_nil,
        Option.getD_some]
      exact refList_nobase env mo D p isDir icase hp none rfl f v
  rw [hinfo]
  generalize fillFrame env mo (D + 1) (gitPath p isDir) icase ⟨none, t.info.getD []⟩ v = v1
  -- directory stack
  have hstack : refSearch env mo D p isDir icase v1 (stackGroup t p)
      = fillFrame env mo (D + 1) (gitPath p isDir) icase ⟨some [], (t.dirs []).getD []⟩
          (((ancestors p).reverse.map fun d => (⟨some d, noMacros ((t.dirs d).getD [])⟩ : Frame)).foldl
            (fun v fr => fillFrame env mo (D + 1) (gitPath p isDir) icase fr v) v1) := by
    unfold refSearch stackGroup
    rw [List.reverse_append, List.foldl_append, ← List.filterMap_reverse,
      dirs_eq env mo D t p isDir icase hp _ v1 (fun d hd => List.mem_reverse.mp hd)]
    cases t.dirs [] with
    | none => rfl
    | some f =>
      simp only [List.reverse_cons, List.reverse_nil, List.nil_append, List.foldl_cons, List.foldl_nil,
        Option.getD_some]
      exact refList_nobase env mo D p isDir icase hp (some []) rfl f _
  rw [hstack]
  generalize fillFrame env mo (D + 1) (gitPath p isDir) icase ⟨some [], (t.dirs []).getD []⟩ _ = v2
  -- globals
  unfold refSearch globalsGroup
  rw [List.reverse_cons, List.foldl_append, ← List.map_reverse,
    foldl_refList_nobase env mo D p isDir icase hp]
  simp only [List.foldl_cons, List.foldl_nil]
  exact refList_nobase env mo D p isDir icase hp none rfl builtin _

/-! ### macros -/

theorem findMacro_single (n : Bytes) (o : Option Bytes) (f : PFile) :
    findMacro [⟨o, f⟩] n = frameMacro n f.reverse := by
  simp [findMacro]
  cases frameMacro n f.reverse <;> rfl

theorem findMacro_origin (n : Bytes) (frs : List Frame) (g : Frame → Frame) (hg : ∀ fr, (g fr).lines = fr.lines) :
    findMacro (frs.map g) n = findMacro frs n := by
  induction frs with
  | nil => rfl
  | cons fr frs ih => simp only [List.map_cons, findMacro, hg, ih]

theorem findMacro_info (t : PTree) (n : Bytes) :
    findMacro ((infoGroup t).reverse.map toFrame) n = findMacro [⟨none, t.info.getD []⟩] n := by
  unfold infoGroup
  cases t.info with
  | none => simp [findMacro, frameMacro]
  | some f => rfl

theorem findMacro_stack (t : PTree) (p : Bytes) (n : Bytes) :
    findMacro ((stackGroup t p).reverse.map toFrame) n = findMacro [⟨some [], (t.dirs []).getD []⟩] n := by
  unfold stackGroup
  rw [List.reverse_append, List.map_append, findMacro_append]
  have hd1 : findMacro (List.map toFrame (List.filterMap (fun d => Option.map (fun f => (⟨some (d ++ [47]), dropMacros f⟩ : PList)) (t.dirs d)) (ancestors p)).reverse) n = none := by
    apply findMacro_noMacros
    intro fr hfr l hl
    obtain ⟨pl, hpl, rfl⟩ := List.mem_map.mp hfr
    obtain ⟨d, _, hd⟩ := List.mem_filterMap.mp (List.mem_reverse.mp hpl)
    cases ht : t.dirs d with
    | none => simp [ht] at hd
    | some f =>
      simp only [ht, Option.map_some, Option.some.injEq] at hd
      subst hd
      exact dropMacros_isMacro f l hl
  rw [hd1, Option.none_or]
  cases t.dirs [] with
  | none => simp [findMacro, frameMacro]
  | some f => simp [findMacro, toFrame]

theorem findMacro_globals (t : PTree) (n : Bytes) :
    findMacro ((globalsGroup t).reverse.map toFrame) n
      = (findMacro (List.map (fun f => (⟨none, f⟩ : Frame)) t.globals.reverse) n).or (findMacro [⟨none, builtin⟩] n) := by
  unfold globalsGroup
  rw [List.reverse_cons, List.map_append, findMacro_append, ← List.map_reverse, List.map_map]
  rfl

/-- the macro definition the collection ends up with is the one `determine_macros` finds -/
theorem macroOf_eq (t : PTree) (p : Bytes) (isDir : Bool) (n : Bytes) :
    (findMacro (gitStack t (gitPath p isDir)) n).getD [] = (collFor t p).macroOf n := by
  unfold Coll.macroOf collFor
  rw [addLists_lookup]
  simp only [Coll.empty, List.lookup_nil, Option.or_none]
  congr 1
  rw [List.reverse_append, List.reverse_append, List.map_append, List.map_append, findMacro_append,
    findMacro_append, findMacro_info, findMacro_stack, findMacro_globals]
  unfold gitStack
  simp only [findMacro_append]
  have hd2 : findMacro (List.map (fun d => (⟨some d, noMacros ((t.dirs d).getD [])⟩ : Frame)) (gitOrigins (gitPath p isDir)).reverse) n = none := by
    apply findMacro_noMacros
    intro fr hfr l hl
    obtain ⟨d, _, rfl⟩ := List.mem_map.mp hfr
    exact dropMacros_isMacro _ l hl
  rw [hd2]
  cases findMacro [⟨none, t.info.getD []⟩] n <;> cases findMacro [⟨some [], (t.dirs []).getD []⟩] n <;> simp

/-! ### closure of the collection -/

theorem collFor_ok (t : PTree) (p : Bytes) : CollOk (collFor t p) :=
  addLists_ok _ _ (fun m hm => by simp [Coll.empty] at hm)

theorem collFor_lists (t : PTree) (p : Bytes) (sel : List Bytes) :
    ∀ g ∈ [infoGroup t, stackGroup t p, globalsGroup t], ListsOk ⟨collFor t p, sel⟩ g := by
  intro g hg pl hpl l hl a ha
  apply addLists_mem Coll.empty (globalsGroup t ++ stackGroup t p ++ infoGroup t) pl _ l hl a ha
  simp only [List.mem_cons, List.mem_nil_iff, or_false] at hg
  simp only [List.mem_append]
  rcases hg with rfl | rfl | rfl
  · exact Or.inr hpl
  · exact Or.inl (Or.inr hpl)
  · exact Or.inl (Or.inl hpl)

end GixModel.Lemmas.C38
