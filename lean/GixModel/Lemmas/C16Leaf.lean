/-
C16, reflogs in ANY transaction (dereferencing edits and chains of symbolic refs included): every
edit that is not the log-only half of a split — i.e. every edit that changes a reference — never
receives a `leaf_referent_previous_oid`, so the reflog line written for it is the line of the
compare-and-swap values.
-/
import GixModel.Lemmas.C16Head

namespace GixModel.C16Fs
open GixModel.C17 GixModel.C16

theorem lockAndApply_parent (cx : Ctx) (S : Store) (e : Edit) (S1 : Store) (e1 : Edit)
    (h : lockAndApply cx S e = .ok (S1, e1)) : e1.parent = e.parent := by
  rw [lockAndApply_general] at h
  repeat' ((try dsimp only at h); split at h)
  all_goals first
    | (simp at h; done)
    | (simp only [Except.ok.injEq, Prod.mk.injEq] at h; rw [← h.2, applied_parent])

/-- the second walk writes only to indices that are somebody's parent -/
theorem setLeaf_other (oid : Oid) (i : Nat) :
    ∀ fuel cursor (es es' : List Edit), setLeaf oid fuel cursor es = some (some es') →
      cursor ≠ some i → (∀ e ∈ es, e.parent ≠ some i) →
      (∀ e ∈ es', e.parent ≠ some i) ∧ (es'[i]?).map Edit.leafPrev = (es[i]?).map Edit.leafPrev := by
  intro fuel
  induction fuel with
  | zero =>
    intro cursor es es' h _ hes
    cases cursor with
    | none => simp [setLeaf] at h; rw [← h]; exact ⟨hes, rfl⟩
    | some p => simp [setLeaf] at h
  | succ fuel ih =>
    intro cursor es es' h hc hes
    cases cursor with
    | none => simp [setLeaf] at h; rw [← h]; exact ⟨hes, rfl⟩
    | some p =>
      simp only [setLeaf] at h
      cases hget : es[p]? with
      | none => rw [hget] at h; cases h
      | some parent =>
        rw [hget] at h
        simp only [] at h
        have hpm : parent ∈ es := List.mem_of_getElem? hget
        have hpi : p ≠ i := fun hx => hc (by rw [hx])
        have hes2 : ∀ e ∈ es.set p { parent with leafPrev := some oid }, e.parent ≠ some i := by
          intro e he
          rcases List.mem_or_eq_of_mem_set he with he | he
          · exact hes e he
          · rw [he]; exact hes parent hpm
        obtain ⟨h1, h2⟩ := ih parent.parent _ es' h (hes parent hpm) hes2
        refine ⟨h1, ?_⟩
        rw [h2, List.getElem?_set_ne hpi]

/-- … so an edit that is nobody's parent keeps its (empty) leaf value through the whole loop -/
theorem prepLoop_leaf_other (cx : Ctx) (unlockPacked : Store → Store) (i : Nat) :
    ∀ todo cid S (es out : List Edit) S', prepLoop .fixed cx unlockPacked todo cid S es = .ok out S' →
      (∀ e ∈ es, e.parent ≠ some i) →
      (∀ e ∈ out, e.parent ≠ some i) ∧ (out[i]?).map Edit.leafPrev = (es[i]?).map Edit.leafPrev := by
  intro todo
  induction todo with
  | zero =>
    intro cid S es out S' h hes
    simp only [prepLoop] at h
    injection h with h1 h2
    rw [← h1]; exact ⟨hes, rfl⟩
  | succ todo ih =>
    intro cid S es out S' h hes
    simp only [prepLoop] at h
    cases hget : es[cid]? with
    | none =>
      rw [hget] at h
      injection h with h1 h2
      rw [← h1]; exact ⟨hes, rfl⟩
    | some e =>
      rw [hget] at h
      simp only [] at h
      cases hla : lockAndApply cx S e with
      | error err =>
        rw [hla] at h
        cases err with
        | lock =>
          simp only [] at h
          cases hw : walkBy .fixed es es.length e.parent e.name with
          | none => rw [hw] at h; cases h
          | some w => rw [hw] at h; cases w <;> cases h
        | check ce =>
          simp only [] at h
          cases he : errOfCheck e.name ce with
          | none => rw [he] at h; cases h
          | some _ => rw [he] at h; cases h
      | ok r =>
        obtain ⟨S1, e1⟩ := r
        rw [hla] at h
        simp only [] at h
        have hem : e ∈ es := List.mem_of_getElem? hget
        have hp1 : e1.parent = e.parent := lockAndApply_parent cx S e S1 e1 hla
        have hl1 : e1.leafPrev = e.leafPrev := lockAndApply_leaf cx S e S1 e1 hla
        have hes1 : ∀ x ∈ es.set cid e1, x.parent ≠ some i := by
          intro x hx
          rcases List.mem_or_eq_of_mem_set hx with hx | hx
          · exact hes x hx
          · rw [hx, hp1]; exact hes e hem
        have hleaf1 : ((es.set cid e1)[i]?).map Edit.leafPrev = (es[i]?).map Edit.leafPrev := by
          by_cases hci : cid = i
          · subst hci
            have hlt : cid < es.length := by
              rcases Nat.lt_or_ge cid es.length with hh | hh
              · exact hh
              · rw [List.getElem?_eq_none hh] at hget; cases hget
            rw [hget, List.getElem?_set_self hlt]
            simp [hl1]
          · rw [List.getElem?_set_ne hci]
        cases hpo : prevOid e1.update.change with
        | none =>
          rw [hpo] at h
          simp only [] at h
          obtain ⟨h1, h2⟩ := ih (cid + 1) S1 _ out S' h hes1
          exact ⟨h1, by rw [h2, hleaf1]⟩
        | some oid =>
          rw [hpo] at h
          cases hpp : e1.parent with
          | none =>
            rw [hpp] at h
            simp only [] at h
            obtain ⟨h1, h2⟩ := ih (cid + 1) S1 _ out S' h hes1
            exact ⟨h1, by rw [h2, hleaf1]⟩
          | some p =>
            rw [hpp] at h
            simp only [] at h
            cases hsl : setLeaf oid (es.set cid e1).length (some p) (es.set cid e1) with
            | none => rw [hsl] at h; cases h
            | some r2 =>
              cases r2 with
              | none => rw [hsl] at h; cases h
              | some es2 =>
                rw [hsl] at h
                simp only [] at h
                have hcur : (some p : Option Nat) ≠ some i := by
                  rw [← hpp, hp1]; exact hes e hem
                obtain ⟨g1, g2⟩ := setLeaf_other oid i _ _ _ es2 hsl hcur hes1
                obtain ⟨h1, h2⟩ := ih (cid + 1) S1 es2 out S' h g1
                exact ⟨h1, by rw [h2, g2, hleaf1]⟩

/-! ### preprocessing: any property of single edits that the split preserves -/

theorem splitPass_pred (find : Name → Option Target) (P : Edit → Prop)
    (hsplit : ∀ eid e, P e → P (splitEdit find eid e).1 ∧ ∀ c ∈ (splitEdit find eid e).2, P c)
    (eid : Nat) (l : List Edit) (h : ∀ e ∈ l, P e) :
    (∀ e ∈ (splitPass find eid l).1, P e) ∧ (∀ e ∈ (splitPass find eid l).2, P e) := by
  induction l generalizing eid with
  | nil => simp [splitPass]
  | cons e rest ih =>
    obtain ⟨h1, h2⟩ := hsplit eid e (h e (List.mem_cons_self ..))
    obtain ⟨i1, i2⟩ := ih (eid + 1) (fun e' he' => h e' (List.mem_cons_of_mem _ he'))
    simp only [splitPass]
    constructor
    · intro x hx
      cases hx with
      | head => exact h1
      | tail _ hx => exact i1 x hx
    · intro x hx
      rcases List.mem_append.mp hx with hx | hx
      · exact h2 x hx
      · exact i2 x hx

theorem splitLoop_pred (find : Name → Option Target) (P : Edit → Prop)
    (hsplit : ∀ eid e, P e → P (splitEdit find eid e).1 ∧ ∀ c ∈ (splitEdit find eid e).2, P c) :
    ∀ fuel round first es, (∀ e ∈ es, P e) →
      ∀ es', splitLoop find fuel round first es = some (.ok es') → ∀ e ∈ es', P e := by
  intro fuel
  induction fuel with
  | zero => intro _ _ es _ es' h; simp [splitLoop] at h
  | succ fuel ih =>
    intro round first es hinv es' h
    obtain ⟨p1, p2⟩ := splitPass_pred find P hsplit first (es.drop first) (fun e he => hinv e (List.mem_of_mem_drop he))
    have hes' : ∀ e ∈ es.take first ++ (splitPass find first (es.drop first)).1, P e := by
      intro e he
      rcases List.mem_append.mp he with he | he
      · exact hinv e (List.mem_of_mem_take he)
      · exact p1 e he
    simp only [splitLoop] at h
    split at h
    · injection h with h; injection h with h; subst h; exact hes'
    · split at h
      · simp at h
      · apply ih _ _ _ _ es' h
        intro e he
        rcases List.mem_append.mp he with he | he
        · exact hes' e he
        · exact p2 e he

theorem preProcess_pred (find : Name → Option Target) (P : Edit → Prop)
    (hsplit : ∀ eid e, P e → P (splitEdit find eid e).1 ∧ ∀ c ∈ (splitEdit find eid e).2, P c)
    (edits : List RefEdit) (h0 : ∀ u ∈ edits, P { update := u })
    (es : List Edit) (h : preProcess find edits = .ok es) : ∀ e ∈ es, P e := by
  unfold preProcess at h
  split at h
  · cases h
  · cases h
  · rename_i es0 hx
    split at h
    · cases h
    · injection h with h
      subst h
      apply splitLoop_pred find P hsplit 5 1 0 _ _ es0 hx
      intro e he
      simp only [List.mem_map] at he
      obtain ⟨u, hu, hue⟩ := he
      subst hue
      exact h0 u hu

theorem preProcess_leaf (find : Name → Option Target) (edits : List RefEdit) (es : List Edit)
    (h : preProcess find edits = .ok es) : ∀ e ∈ es, e.leafPrev = none := by
  apply preProcess_pred find (fun e => e.leafPrev = none) _ edits (fun _ _ => rfl) es h
  intro eid e he
  unfold splitEdit
  repeat' split
  all_goals (refine ⟨?_, ?_⟩ <;> first | exact he | (intro c hc; simp at hc; subst hc; rfl) | (intro c hc; cases hc))

/-! ### the reflog of one name after the loops -/

/-- the reflog of a name after one update of it: `old` the reflog before, `line` what is logged -/
def logAfter (old : Option (List LogLine)) (auto : Bool) (line : Option LogLine) : Option (List LogLine) :=
  match line with
  | some l => if auto || old.isSome then some (old.getD [] ++ [l]) else old
  | none => old

theorem lookup_appendLog (logs : List (Name × List LogLine)) (k n : Name) (l : LogLine) :
    lookup (appendLog logs k l) n = if k = n then some ((lookup logs k).getD [] ++ [l]) else lookup logs n := by
  unfold appendLog
  cases h : lookup logs k <;> simp [lookup_insertKey]

theorem logsU_lookup_notin : ∀ (out : List Edit) (logs : List (Name × List LogLine)) (n : Name),
    n ∉ out.map Edit.name → lookup (logsU logs out) n = lookup logs n := by
  intro out
  induction out with
  | nil => intro logs n _; rfl
  | cons x rest ih =>
    intro logs n hn
    simp only [List.map_cons, List.mem_cons, not_or] at hn
    simp only [logsU]
    rw [ih _ n hn.2]
    have hx : ¬ x.name = n := fun hh => hn.1 hh.symm
    cases logLineOf x with
    | none => rfl
    | some l =>
      simp only []
      split
      · rw [lookup_appendLog, if_neg hx]
      · rfl

theorem logsU_lookup_at : ∀ (out : List Edit) (logs : List (Name × List LogLine)),
    (out.map Edit.name).Nodup → ∀ a ∈ out,
      lookup (logsU logs out) a.name = logAfter (lookup logs a.name) (autoLog a.name) (logLineOf a) := by
  intro out
  induction out with
  | nil => intro logs _ a ha; cases ha
  | cons x rest ih =>
    intro logs hn a ha
    simp only [List.map_cons, List.nodup_cons] at hn
    simp only [logsU]
    have hself : ∀ y : Edit, lookup (match logLineOf y with
        | some l => if autoLog y.name || (lookup logs y.name).isSome then appendLog logs y.name l else logs
        | none => logs) y.name = logAfter (lookup logs y.name) (autoLog y.name) (logLineOf y) := by
      intro y
      unfold logAfter
      cases logLineOf y with
      | none => rfl
      | some l =>
        simp only []
        split
        · rw [lookup_appendLog, if_pos rfl]
        · rfl
    rcases List.mem_cons.mp ha with hax | har
    · subst hax
      rw [logsU_lookup_notin rest _ a.name hn.1]
      exact hself a
    · rw [ih _ hn.2 a har]
      have hne : ¬ x.name = a.name := by
        intro hh; apply hn.1; rw [hh]; exact List.mem_map_of_mem har
      congr 1
      cases logLineOf x with
      | none => rfl
      | some l =>
        simp only []
        split
        · rw [lookup_appendLog, if_neg hne]
        · rfl

theorem logsD_lookup_keep : ∀ (E : List Edit) (logs : List (Name × List LogLine)) (n : Name),
    (n, true) ∉ E.map editKind → lookup (logsD logs E) n = lookup logs n := by
  intro E
  induction E with
  | nil => intro logs n _; rfl
  | cons e rest ih =>
    intro logs n hn
    simp only [List.map_cons, List.mem_cons, not_or] at hn
    simp only [logsD]
    cases hch : e.update.change with
    | update log ex new => simp only []; exact ih _ n hn.2
    | delete ex log =>
      simp only []
      rw [ih _ n hn.2, lookup_eraseKey]
      have : ¬ e.name = n := by
        intro hh; apply hn.1; simp [editKind, hch, hh]
      rw [if_neg this]

theorem nodup_map_inj {α β : Type} (f : α → β) : ∀ (l : List α), (l.map f).Nodup →
    ∀ x ∈ l, ∀ y ∈ l, f x = f y → x = y := by
  intro l
  induction l with
  | nil => intro _ x hx; cases hx
  | cons a rest ih =>
    intro hn x hx y hy hxy
    simp only [List.map_cons, List.nodup_cons] at hn
    rcases List.mem_cons.mp hx with hx1 | hx1
    · rcases List.mem_cons.mp hy with hy1 | hy1
      · rw [hx1, hy1]
      · subst hx1; exact absurd (by rw [hxy]; exact List.mem_map_of_mem hy1) hn.1
    · rcases List.mem_cons.mp hy with hy1 | hy1
      · subst hy1; exact absurd (by rw [← hxy]; exact List.mem_map_of_mem hx1) hn.1
      · exact ih hn.2 x hx1 y hy1 hxy

/-- ANY transaction that goes through (dereferencing edits, chains of symbolic refs, any mode):
for every processed edit that updates and is not the log-only half of a split (no edit has it as
parent), the reflog of its name afterwards is the reflog before plus the line of the
compare-and-swap values (`specLine`), where the name gets a reflog at all. -/
theorem reflog_applied_edits (env : Env) (SX SX' : StoreX) (t : Txn) (hS : StoreOk SX.base) (hL : NoLocks SX.base)
    (hT : PlainTxn t) (h : runX env SX t = .ok SX') (es : List Edit)
    (hp : preProcess (fun n => lookup SX.base.loose n) t.edits = .ok es)
    (i : Nat) (e : Edit) (hi : es[i]? = some e) (hnp : ∀ x ∈ es, x.parent ≠ some i)
    (hupd : ∀ ex log, e.update.change ≠ .delete ex log) :
    lookup SX'.logs e.name
      = logAfter (lookup SX.logs e.name) (autoLog e.name) (specLine (abs SX.base e.name) e) := by
  obtain ⟨p, S1, hprep, hc⟩ := runX_ok_parts env SX SX' t hL h
  obtain ⟨_, hlogs⟩ := commitX_ok { SX with base := S1 } SX' p hc
  obtain ⟨cx, hcore, hff, todo, cid, S0, es0, hes0, hloop, _, _⟩ :=
    prepared_edits env SX.base t hS hL hT es hp p S1 hprep
  subst hes0
  have hnames := (preProcess_ok_inv _ _ hT es0 hp).2
  have hleaf0 := preProcess_leaf _ _ es0 hp
  have hem : e ∈ es0 := List.mem_of_getElem? hi
  have hel : e.leafPrev = none := hleaf0 e hem
  obtain ⟨_, hlf⟩ := prepLoop_leaf_other cx _ i todo cid S0 es0 p.edits S1 hloop hnp
  -- the prepared edit at i
  have hci := congrArg (fun l => l[i]?) hcore
  simp only [List.getElem?_map, hi, Option.map_some] at hci
  cases hpi : p.edits[i]? with
  | none => rw [hpi] at hci; cases hci
  | some a =>
    rw [hpi] at hci hlf
    rw [hi] at hlf
    simp only [Option.map_some, Option.some.injEq] at hci hlf
    have hal : a.leafPrev = none := by rw [hlf, hel]
    have ha : a = applied cx (SX.base.find e.name) e := by
      have h1 : a.core = a := core_of_leaf_none a hal
      have h2 : (applied cx (SX.base.find e.name) e).core = applied cx (SX.base.find e.name) e :=
        core_of_leaf_none _ (by rw [applied_leaf]; exact hel)
      rw [← h1, ← h2]; exact hci
    have ham : a ∈ p.edits := List.mem_of_getElem? hpi
    have han : a.name = e.name := by rw [ha, applied_name]
    have hpn : p.edits.map Edit.name = es0.map Edit.name := by
      have := congrArg (List.map Edit.name) hcore
      simpa [List.map_map, Function.comp_def, core_name, applied_name] using this
    have hline : logLineOf a = specLine (abs SX.base e.name) e := by
      rw [ha]
      exact logLineOf_applied cx _ e hel (firstFailure_none _ _ hff e hem)
    rw [hlogs]
    simp only []
    rw [logsD_lookup_keep]
    · rw [← han, logsU_lookup_at p.edits SX.logs (by rw [hpn]; exact hnames) a ham, hline, han]
    · rw [commit_kinds cx SX.base.find _ S1 p.edits es0 hcore]
      intro hmem
      obtain ⟨x, hx, hxk⟩ := List.mem_map.mp hmem
      have hxn : x.name = e.name := congrArg Prod.fst hxk
      have hxe : x = e := nodup_map_inj Edit.name es0 hnames x hx e hem hxn
      subst hxe
      have hk : (match x.update.change with | .delete _ _ => true | .update _ _ _ => false) = true :=
        congrArg Prod.snd hxk
      cases hch : x.update.change with
      | delete ex log => exact hupd ex log hch
      | update log ex new => rw [hch] at hk; cases hk

end GixModel.C16Fs
