import GixModel.Lemmas.C27
/-
C27 — total characterisation of the integer and boolean readers over ALL byte strings: both
gitoxide's and git's reader are reduced to one canonical decimal reading (`decRead`: sign, maximal
digit run, rest) and compared case by case on the rest.
-/
namespace GixModel.C27
open GixModel GixModel.C26

theorem dropWhile_head_not (p : UInt8 → Bool) (l : Bytes) : (l.dropWhile p).head?.all (fun c => !p c) = true := by
  induction l with
  | nil => simp
  | cons a t ih =>
    by_cases h : p a = true
    · simpa [List.dropWhile_cons, h] using ih
    · simp [List.dropWhile_cons, h]

/-- sign, digits, rest of an arbitrary byte string -/
theorem parts (s : Bytes) : ∃ pre ds e, s = pre ++ ds ++ e ∧ (pre = [] ∨ pre = [45] ∨ pre = [43]) ∧
    signOf s = (pre == [45], ds ++ e) ∧ (∀ c ∈ ds, isDig c = true) ∧ e.head?.all (fun c => !isDig c) = true ∧
    (pre = [] → (ds ++ e).head? ≠ some 45 ∧ (ds ++ e).head? ≠ some 43) := by
  have key : ∀ body : Bytes, ∃ ds e, body = ds ++ e ∧ (∀ c ∈ ds, isDig c = true) ∧ e.head?.all (fun c => !isDig c) = true :=
    fun body => ⟨body.takeWhile isDig, body.dropWhile isDig, List.takeWhile_append_dropWhile.symm,
      takeWhile_all' isDig body, dropWhile_head_not isDig body⟩
  by_cases h45 : ∃ r, s = 45 :: r
  · obtain ⟨r, rfl⟩ := h45
    obtain ⟨ds, e, hb, h1, h2⟩ := key r
    exact ⟨[45], ds, e, by simp [hb], by simp, by simp [signOf, hb], h1, h2, by intro h; simp at h⟩
  · by_cases h43 : ∃ r, s = 43 :: r
    · obtain ⟨r, rfl⟩ := h43
      obtain ⟨ds, e, hb, h1, h2⟩ := key r
      exact ⟨[43], ds, e, by simp [hb], by simp, by simp [signOf, hb], h1, h2, by intro h; simp at h⟩
    · obtain ⟨ds, e, hb, h1, h2⟩ := key s
      have hs : signOf s = (false, s) := by
        unfold signOf
        split
        · rename_i r; exact absurd ⟨r, rfl⟩ h45
        · rename_i r; exact absurd ⟨r, rfl⟩ h43
        · rfl
      refine ⟨[], ds, e, by simp [hb], by simp, by rw [hs]; simp [← hb], h1, h2, ?_⟩
      intro _
      rw [← hb]
      constructor
      · intro hh
        cases s with
        | nil => simp at hh
        | cons x t => simp at hh; subst hh; exact h45 ⟨t, rfl⟩
      · intro hh
        cases s with
        | nil => simp at hh
        | cons x t => simp at hh; subst hh; exact h43 ⟨t, rfl⟩

/-- `decRead` in terms of the parts -/
theorem decRead_parts (pre ds e : Bytes) (hpre : pre = [] ∨ pre = [45] ∨ pre = [43])
    (hds : ∀ c ∈ ds, isDig c = true) (he : e.head?.all (fun c => !isDig c) = true)
    (hh : pre = [] → (ds ++ e).head? ≠ some 45 ∧ (ds ++ e).head? ≠ some 43) :
    decRead (pre ++ ds ++ e) =
      if ds.isEmpty then none
      else if inI64 (sval (pre == [45]) ds) then some (sval (pre == [45]) ds, e) else none := by
  have hsign : signOf (pre ++ ds ++ e) = (pre == [45], ds ++ e) := by
    rcases hpre with rfl | rfl | rfl
    · simp only [List.nil_append]
      have := hh rfl
      unfold signOf
      split
      · rename_i r heq; rw [heq] at this; simp at this
      · rename_i r heq; rw [heq] at this; simp at this
      · rfl
    · rfl
    · rfl
  obtain ⟨h1, h2⟩ := takeWhile_append_stop isDig ds e hds he
  unfold decRead
  simp only [hsign, h1, h2]


def rangeI64 (v : Int) : Option Int := if i64Min ≤ v ∧ v ≤ i64Max then some v else none

/-- gitoxide's integer reader in terms of the canonical decimal reading — for EVERY byte string -/
def gixIntSpec (s : Bytes) : Option Int :=
  match decRead s with
  | some (v, []) => some v
  | some (v, [u]) => (match unitFactor [u] with
      | some f => rangeI64 (v * f)
      | none => none)
  | _ => none

theorem rust_parts (pre ds e : Bytes) (hpre : pre = [] ∨ pre = [45] ∨ pre = [43])
    (hds : ∀ c ∈ ds, isDig c = true) (he : e.head?.all (fun c => !isDig c) = true)
    (hh : pre = [] → (ds ++ e).head? ≠ some 45 ∧ (ds ++ e).head? ≠ some 43) :
    rustParseI64 (pre ++ ds ++ e) =
      if ds.isEmpty || !e.isEmpty then none
      else if inI64 (sval (pre == [45]) ds) then some (sval (pre == [45]) ds) else none := by
  rw [rust_eq_decRead, decRead_parts pre ds e hpre hds he hh]
  by_cases h1 : ds.isEmpty = true
  · simp [h1]
  · simp only [h1, Bool.false_eq_true, ↓reduceIte, Bool.false_or]
    by_cases h2 : inI64 (sval (pre == [45]) ds)
    · simp only [h2, ↓reduceIte]
      cases e with
      | nil => simp
      | cons x t => simp
    · simp [h2]

theorem gixInt_eq_spec (t : List (UInt8 × Nat)) (ht : suffixTableOk t = true) (s : Bytes) :
    gixIntWith t s = gixIntSpec s := by
  obtain ⟨pre, ds, e, rfl, hpre, _, hds, he, hh⟩ := parts s
  unfold gixIntWith gixIntSpec
  rw [rust_parts pre ds e hpre hds he hh, decRead_parts pre ds e hpre hds he hh]
  have hpl : pre.length ≤ 1 := by rcases hpre with rfl | rfl | rfl <;> simp
  cases e with
  | nil =>
    -- no rest: the whole string is sign + digits
    simp only [List.append_nil, List.isEmpty_nil, Bool.not_true, Bool.or_false]
    by_cases h1 : ds.isEmpty = true
    · have : ds = [] := by simpa using h1
      subst this
      simp only [List.isEmpty_nil, ↓reduceIte, List.append_nil]
      split
      · rfl
      · rename_i hl; exact absurd hpl hl
    · simp only [h1, Bool.false_eq_true, ↓reduceIte]
      by_cases h2 : inI64 (sval (pre == [45]) ds)
      · simp [h2]
      · simp only [h2, ↓reduceIte]
        split
        · rfl
        · -- the last byte is a digit: no unit
          have hne : ds ≠ [] := by intro h; subst h; simp at h1
          have hlast : (pre ++ ds).getLast? = some (ds.getLast hne) := by
            rw [List.getLast?_append]; simp [List.getLast?_eq_some_getLast hne]
          rw [hlast]
          have hd := hds _ (List.getLast_mem hne)
          have hsm : suffixMul t (ds.getLast hne) = none := by
            rw [suffixTable_spec ht]
            have := digit_not_unit (ds.getLast hne); simp [hd] at this; exact this
          cases rustParseI64 (pre ++ ds).dropLast with
          | none => rfl
          | some v => simp [hsm]
  | cons u r =>
    have heu : isDig u = false := by simpa using he
    simp only [List.isEmpty_cons, Bool.not_false, Bool.or_true, ↓reduceIte]
    have hlen : ¬ (pre ++ ds ++ u :: r).length ≤ 1 ∨ (ds = [] ∧ pre = [] ∧ r = []) := by
      by_cases hx : ds = [] ∧ pre = [] ∧ r = []
      · exact Or.inr hx
      · left
        simp only [not_and] at hx
        simp only [List.length_append, List.length_cons]
        cases ds with
        | cons _ _ => simp; omega
        | nil =>
          cases pre with
          | cons _ _ => simp; omega
          | nil => cases r with
            | nil => exact absurd rfl (hx rfl rfl)
            | cons _ _ => simp
    rcases hlen with hlen | ⟨rfl, rfl, rfl⟩
    · simp only [hlen, ↓reduceIte]
      cases r with
      | nil =>
        -- exactly one byte after the digits
        have hdl : (pre ++ ds ++ [u]).dropLast = pre ++ ds ++ [] := by simp [List.dropLast_concat]
        have hgl : (pre ++ ds ++ [u]).getLast? = some u := by simp
        rw [hdl, hgl, rust_parts pre ds [] hpre hds (by simp) (by
          intro hp
          have := hh hp
          cases ds with
          | nil => simp
          | cons x t => simpa using this)]
        simp only [List.isEmpty_nil, Bool.not_true, Bool.or_false]
        by_cases h1 : ds.isEmpty = true
        · simp [h1]
        · simp only [h1, Bool.false_eq_true, ↓reduceIte]
          by_cases h2 : inI64 (sval (pre == [45]) ds)
          · simp only [h2, ↓reduceIte, suffixTable_spec ht]
            cases unitFactor [u] with
            | none => rfl
            | some f => simp [rangeI64]
          · simp [h2]
      | cons w r' =>
        -- two or more bytes after the digits
        have hdl : (pre ++ ds ++ u :: w :: r').dropLast = pre ++ ds ++ (u :: (w :: r').dropLast) := by
          rw [List.dropLast_append_of_ne_nil (by simp)]
          simp [List.dropLast]
        rw [hdl, rust_parts pre ds (u :: (w :: r').dropLast) hpre hds (by simpa using heu) (by
          intro hp
          have := hh hp
          cases ds with
          | nil => simpa using this
          | cons x t => simpa using this)]
        simp only [List.isEmpty_cons, Bool.not_false, Bool.or_true, ↓reduceIte]
        by_cases h1 : ds.isEmpty = true
        · simp [h1]
        · simp only [h1, Bool.false_eq_true, ↓reduceIte]
          by_cases h2 : inI64 (sval (pre == [45]) ds) <;> simp [h2]
    · simp


theorem decRead_inI64 {s : Bytes} {v : Int} {e : Bytes} (h : decRead s = some (v, e)) : inI64 v := by
  unfold decRead at h
  simp only at h
  split at h
  · simp at h
  · split at h
    · rename_i hin; simp at h; rw [← h.1]; exact hin
    · simp at h

/-- what `git_parse_signed` does with the value and the rest that `strtoimax` left -/
def gitTail (max : Int) (v : Int) (e : Bytes) : Option Int :=
  (unitFactor e).bind fun f =>
    if (v < 0 ∧ Int.tdiv (-max) f > v) ∨ (v > 0 ∧ max / f < v) then none else some (v * f)

theorem gitSigned_spec (max : Int) (s : Bytes) (hp : plainDecimal s = true) :
    gitParseSigned max s = (decRead s).bind fun p => gitTail max p.1 p.2 := by
  unfold gitParseSigned
  rw [strtoimax_eq_decRead s hp]
  by_cases he : s.isEmpty = true
  · have : s = [] := by simpa using he
    subst this
    simp [decRead, signOf]
  · simp only [he, Bool.false_eq_true, ↓reduceIte]
    cases decRead s with
    | none => rfl
    | some p =>
      obtain ⟨v, e⟩ := p
      simp only [Option.bind_some, gitTail]
      cases unitFactor e <;> rfl

theorem gitTail_i64 (v : Int) (e : Bytes) :
    gitTail i64Max v e = (unitFactor e).bind fun f =>
      if i64Min < v * f ∧ v * f ≤ i64Max then some (v * f) else none := by
  unfold gitTail
  cases hu : unitFactor e with
  | none => rfl
  | some f =>
    have := range_check v f (unitFactor_vals hu)
    simp only [Option.bind_some]
    by_cases hc : (v < 0 ∧ Int.tdiv (-i64Max) f > v) ∨ (v > 0 ∧ i64Max / f < v)
    · rw [if_pos hc, if_neg (this.mp hc)]
    · have h2 : i64Min < v * f ∧ v * f ≤ i64Max :=
        Decidable.byContradiction fun hcon => hc (this.mpr hcon)
      rw [if_neg hc, if_pos h2]

/-- gitoxide's reader, the same way -/
theorem gixIntSpec_eq (s : Bytes) :
    gixIntSpec s = (decRead s).bind fun p =>
      match p.2 with
      | [] => some p.1
      | [u] => (unitFactor [u]).bind fun f => rangeI64 (p.1 * f)
      | _ => none := by
  unfold gixIntSpec
  cases decRead s with
  | none => rfl
  | some p =>
    obtain ⟨v, e⟩ := p
    cases e with
    | nil => rfl
    | cons u r =>
      cases r with
      | nil => simp only [Option.bind_some]; cases unitFactor [u] <;> rfl
      | cons w r' => rfl

/-- TOTAL characterisation for integers: for EVERY byte string that does not start with C
whitespace and is not `0`-prefixed (git: octal / hex), `git config --type=int` and gitoxide's
`integer()` both reject it, or both accept it with the same value — except that git rejects a
result of exactly i64::MIN. -/
theorem int_total (t : List (UInt8 × Nat)) (ht : suffixTableOk t = true) (s : Bytes)
    (hp : plainDecimal s = true) : gitInt s = dropMin (gixIntWith t s) := by
  rw [gixInt_eq_spec t ht s, gixIntSpec_eq]
  unfold gitInt
  rw [gitSigned_spec i64Max s hp]
  cases hd : decRead s with
  | none => rfl
  | some p =>
    obtain ⟨v, e⟩ := p
    have hin := decRead_inI64 hd
    simp only [Option.bind_some]
    rw [gitTail_i64]
    cases e with
    | nil =>
      simp only [unitFactor, dropMin, Option.bind_some]
      unfold inI64 at hin
      by_cases h2 : v = i64Min
      · subst h2; simp
      · have h3 : i64Min < v ∧ v ≤ i64Max := ⟨by omega, hin.2⟩
        simp [h2, h3]
    | cons u r =>
      cases r with
      | nil =>
        cases hf : unitFactor [u] with
        | none => simp [dropMin, hf]
        | some f =>
          simp only [dropMin, rangeI64, Option.bind_some, hf]
          by_cases h1 : i64Min ≤ v * f ∧ v * f ≤ i64Max
          · by_cases h2 : v * f = i64Min
            · have : ¬ (i64Min < v * f ∧ v * f ≤ i64Max) := by rw [h2]; simp
              rw [if_neg this, if_pos h1, h2]; simp
            · have : i64Min < v * f ∧ v * f ≤ i64Max := ⟨by omega, h1.2⟩
              simp [h1, h2, this]
          · have : ¬ (i64Min < v * f ∧ v * f ≤ i64Max) := by
              intro hc; exact h1 ⟨by omega, hc.2⟩
            simp [h1, this]
      | cons w r' => simp [unitFactor, dropMin]

/-- where git's and gitoxide's reading of a value as a BOOLEAN are known to differ, as one explicit
predicate: the value is not a boolean word and (it starts with C whitespace or is `0`-prefixed, or
it is a number with a unit suffix, or a number beyond git's 32-bit `int`) -/
def boolDeviates (s : Bytes) : Bool :=
  !isBoolWord s &&
    (!plainDecimal s ||
      (match decRead s with
       | some (v, []) => decide (v < -2147483647 ∨ 2147483647 < v)
       | some (_, [u]) => isUnit u
       | _ => false))

theorem unit_none_of_not (u : UInt8) (h : isUnit u = false) : unitFactor [u] = none := by
  unfold isUnit at h
  simp only [Bool.or_eq_false_iff, beq_eq_false_iff_ne, ne_eq] at h
  obtain ⟨⟨⟨⟨⟨h1, h2⟩, h3⟩, h4⟩, h5⟩, h6⟩ := h
  simp [unitFactor, h1, h2, h3, h4, h5, h6]

/-- TOTAL characterisation for booleans: for EVERY byte string outside `boolDeviates`,
`git config --type=bool` and gitoxide's `boolean()` both reject it or both give the same answer. -/
theorem bool_total (tw : List Bytes) (te : Bool) (fw : List Bytes) (fe : Bool)
    (hok : boolTableOk tw te fw fe = true) (s : Bytes) (hd : boolDeviates s = false) :
    gixBoolWith tw te fw fe s = gitBool s := by
  apply gixBool_eq_of_numbers tw te fw fe hok
  intro hw
  unfold boolDeviates at hd
  simp only [hw, Bool.not_false, Bool.true_and, Bool.or_eq_false_iff, Bool.not_eq_false'] at hd
  obtain ⟨hp, hcls⟩ := hd
  rw [rust_eq_decRead, gitSigned_spec 2147483647 s hp]
  cases hdr : decRead s with
  | none => rfl
  | some p =>
    obtain ⟨v, e⟩ := p
    rw [hdr] at hcls
    simp only [Option.bind_some, gitTail]
    cases e with
    | nil =>
      simp only [decide_eq_false_iff_not, not_or, Int.not_lt] at hcls
      simp only [unitFactor, Option.bind_some]
      have t1 : Int.tdiv (-2147483647) ((1 : Nat) : Int) = -2147483647 := by decide
      have hc : ¬ ((v < 0 ∧ Int.tdiv (-2147483647) ((1 : Nat) : Int) > v) ∨ (v > 0 ∧ (2147483647 : Int) / ((1 : Nat) : Int) < v)) := by
        rw [t1]; omega
      rw [if_neg hc]; simp
    | cons u r =>
      cases r with
      | nil =>
        simp only at hcls
        rw [unit_none_of_not u hcls]; rfl
      | cons w r' => simp [unitFactor]

end GixModel.C27
