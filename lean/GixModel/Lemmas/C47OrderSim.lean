import GixModel.Lemmas.C47Order
/-
C47 — lemmas, part 12: the simulation. `expandParents_sim`, `topoLoop_sim`, `queueTips_sim` repeat
the case analyses of the invariant proofs (`…_spec`) and carry the queue relation `QRel` along;
`topoWalk_order`: the model's sequence is `Spec.C47.gitKahn`'s.
-/
namespace GixModel.C47
open GixModel GixModel.CG GixModel.Spec.C47

section
variable {E : TopoEnv} {nodes tips ends : List Nat} {sel : Nat → Bool}

theorem expandParents_sim (ctx : TCtx E nodes tips ends) (o : OCtx E tips ends sel) (nfuel : Nat)
    (hn : nodes.length < nfuel) {outp : List Nat} :
    ∀ (ps : List Nat) (s : TS E) (k : KQ), WInv E nodes tips ends s outp ps [] →
      (∀ p, p ∈ ps → s.states.has p = true ∧ Rch E tips ends p) → QRel E s k →
      ∃ s', expandParents E nfuel ps s = .ok s' ∧ WInv E nodes tips ends s' outp [] [] ∧
        QRel E s' (kExpand E.g sel nodes (dOrd E) outp ps k) := by
  intro ps
  induction ps with
  | nil => intro s k h _ hq; exact ⟨s, rfl, h, hq⟩
  | cons p ps ih =>
    intro s k h hps hq
    unfold expandParents
    obtain ⟨hph, hpr⟩ := hps p List.mem_cons_self
    have hps' : ∀ q, q ∈ ps → s.states.has q = true ∧ Rch E tips ends q :=
      fun q hq => hps q (List.mem_cons_of_mem _ hq)
    cases hget : s.states.get p with
    | none => simp [StateMap.has, hget] at hph
    | some pst =>
      dsimp only
      have hU : s.states.fU p = pst.uninteresting := by simp [StateMap.fU, hget]
      by_cases hu : pst.uninteresting = true
      · rw [if_pos hu]
        have hh : Hid E ends p := h.ex.st_u p (by rw [hU]; exact hu)
        have hnr : ready E.g sel nodes outp p = false := by
          have : sel p = false := by
            cases hs : sel p with
            | false => rfl
            | true => exact absurd hh ((o.sel_iff p).mp hs).2
          simp [ready, this]
        unfold kExpand
        rw [hnr]
        simp only [Bool.false_eq_true, if_false]
        exact ih s k ⟨h.ex, h.n.drop_hidden hh, h.depth⟩ hps' hq
      · rw [if_neg hu]
        have hUf : s.states.fU p = false := by rw [hU]; simpa using hu
        have hpe : p ∉ ends := fun hpe => by
          have := h.ex.st_ends p hpe
          rw [hUf] at this; cases this
        have hpo : p ∉ outp := h.n.cur_fresh p List.mem_cons_self
        have hlow : ∃ s1, (if E.g.gen p < s.minGen then
              computeIndegrees E nfuel (E.g.gen p) nfuel { s with minGen := E.g.gen p }
            else Res.ok s) = .ok s1 ∧ WInv E nodes tips ends s1 outp (p :: ps) [] ∧
            s1.minGen ≤ E.g.gen p ∧ (∀ x, s.states.has x = true → s1.states.has x = true) ∧
            s1.dateQ = s.dateQ ∧ s1.dateCtr = s.dateCtr ∧ s1.stack = s.stack := by
          by_cases hlt : E.g.gen p < s.minGen
          · rw [if_pos hlt]
            have hex0 : ExInv E nodes ends { s with minGen := E.g.gen p } :=
              h.ex.of_states_eq rfl rfl
            have hn0 := h.n.lower (E.g.gen p) (Nat.le_of_lt hlt)
            obtain ⟨s1, hs1, a1, a2, a3, a4, a5, a6, a7, a8⟩ :=
              computeIndegrees_spec ctx nfuel (E.g.gen p) hn nfuel { s with minGen := E.g.gen p } hex0 hn0 (by
                have := h.n.psi_le
                show (E.qg.items s.indegQ).length + unflagged nodes s.states < nfuel
                omega)
            refine ⟨s1, hs1, ⟨a1, a2, ?_⟩, ?_, a8, a5, a6, a7⟩
            · intro e he
              rw [a4]
              exact a3 e he
            · rw [a4]; exact Nat.le_refl _
          · rw [if_neg hlt]
            exact ⟨s, rfl, h, by omega, fun _ hx => hx, rfl, rfl, rfl⟩
        obtain ⟨s1, hs1, hw1, hmin1, hhas1, f1, f2, f3⟩ := hlow
        rw [hs1]
        dsimp only
        have hq1 : QRel E s1 k := hq.frame f1 f2 f3
        have hdeg := hw1.n.deg_ok p hpo
        cases hgd : s1.indeg.get p with
        | none =>
          simp only [DegOk, hgd] at hdeg
          exact absurd List.mem_cons_self hdeg.2
        | some d =>
          dsimp only
          have hbridge := deg_iff_ready ctx o hw1 hmin1 hpr hpe hpo hgd
          simp only [List.mem_cons, true_or, if_true] at hbridge
          simp only [DegOk, hgd] at hdeg
          have hdec := hw1.n.decrement hgd (fun _ => hmin1)
          have hex2 : ExInv E nodes ends { s1 with indeg := s1.indeg.set p (d - 1) } :=
            hw1.ex.of_states_eq rfl rfl
          have hdepth2 : Depth E { s1 with indeg := s1.indeg.set p (d - 1) } := hw1.depth
          have hps2 : ∀ q, q ∈ ps →
              ({ s1 with indeg := s1.indeg.set p (d - 1) } : TS E).states.has q = true ∧ Rch E tips ends q :=
            fun q hq => ⟨hhas1 q (hps' q hq).1, (hps' q hq).2⟩
          have hgetp : ({ s1 with indeg := s1.indeg.set p (d - 1) } : TS E).indeg.get p = some (d - 1) := by
            simp [DegMap.get_set]
          have hq2 : QRel E { s1 with indeg := s1.indeg.set p (d - 1) } k := hq1.frame rfl rfl rfl
          have hcounted : ∀ x, Rch E tips ends x → E.g.gen p ≤ E.g.gen x → countedB E s1 x = true :=
            fun x hx hg => counted_of_depth ctx hw1.n hw1.depth hx (by omega)
          unfold kExpand
          by_cases hone : d - 1 = 1
          · rw [if_pos hone]
            have hrdy : ready E.g sel nodes outp p = true := hbridge.mp (by omega)
            rw [hrdy]
            simp only [if_true]
            have hnh : ¬ Hid E ends p := by
              have hsp : sel p = true := by
                simp only [ready, Bool.and_eq_true] at hrdy; exact hrdy.1
              exact ((o.sel_iff p).mp hsp).2
            have hkids : KidsCounted E tips ends { s1 with indeg := s1.indeg.set p (d - 1) } p :=
              fun c' hc' hp' => hcounted c' hc' (ctx.gen_le_walk hp')
            have hcp : countedB E { s1 with indeg := s1.indeg.set p (d - 1) } p = true :=
              hcounted p hpr (Nat.le_refl _)
            have hptq : p ∉ tqIds E { s1 with indeg := s1.indeg.set p (d - 1) } := by
              intro hmem
              obtain ⟨_, a2, _, a4, _, _⟩ := hw1.n.tq_inv p hmem
              rw [hgd] at a4
              have := hdeg.1 a2
              simp only [List.mem_cons, true_or, if_true] at this
              simp only [Option.some.injEq] at a4
              omega
            have hpush := hdec.push ctx (E.g.time p) hpr hnh hpo (by rw [hgetp, hone]) hkids hcp hptq
            obtain ⟨g1, g2, g3, g4, g5⟩ := tqPush_frame (E := E) { s1 with indeg := s1.indeg.set p (d - 1) }
              (E.g.time p) p
            apply ih
            · refine ⟨hex2.of_states_eq g2 g3, hpush, ?_⟩
              intro e he
              rw [g4] at he
              rw [g5]
              exact hdepth2 e he
            · intro q hq'
              rw [g2]
              exact hps2 q hq'
            · exact hq2.push ctx p
          · rw [if_neg hone]
            have hrdy : ready E.g sel nodes outp p = false := by
              cases hr : ready E.g sel nodes outp p with
              | false => rfl
              | true => have := hbridge.mpr hr; omega
            rw [hrdy]
            simp only [Bool.false_eq_true, if_false]
            have hdrop := hdec.pend_drop (fun h1 => by
              rw [hgetp] at h1
              simp only [Option.some.injEq] at h1
              exact absurd h1 hone)
            exact ih _ k ⟨hex2, hdrop, hdepth2⟩ hps2 hq2

/-- the iterator loop and git's loop run in lock-step -/
theorem topoLoop_sim (ctx : TCtx E nodes tips ends) (o : OCtx E tips ends sel) (nfuel : Nat)
    (hn : nodes.length < nfuel) :
    ∀ (fuel : Nat) (s : TS E) (k : KQ) (out : List Nat), WInv E nodes tips ends s out [] [] → QRel E s k →
      nodes.length - out.length < fuel →
      topoLoop E nfuel fuel s out = .ok (kLoop E.g sel nodes (dOrd E) fuel k out) := by
  intro fuel
  induction fuel with
  | zero => intro s k out _ _ h; omega
  | succ fuel ih =>
    intro s k out h hq hfuel
    unfold topoLoop kLoop
    cases hpop : tqPop E s with
    | none =>
      dsimp only
      rw [hq.pop_none ctx hpop]
    | some r =>
      obtain ⟨c, s1⟩ := r
      dsimp only
      obtain ⟨k1, hk1, hq1⟩ := hq.pop ctx o hpop
      rw [hk1]
      dsimp only
      obtain ⟨htq, g1, g2, g3, g4, g5⟩ := tqPop_some ctx hpop
      have hctq : c ∈ tqIds E s := htq.symm.subset List.mem_cons_self
      obtain ⟨c1, c2, c3, c4, c5, c6⟩ := h.n.tq_inv c hctq
      have hgetc : s1.indeg.get c = some 1 := by rw [g1]; exact c4
      rw [hgetc]
      dsimp only
      have hemit : NInv E nodes tips ends { s1 with indeg := s1.indeg.set c 0 } (out ++ [c]) (walkParents E c) [] := by
        refine h.n.emit ctx (s2 := { s1 with indeg := s1.indeg.set c 0 }) (c := c) g2 g4 g5 ?_ htq
        intro q
        show (s1.indeg.set c 0).get q = _
        rw [DegMap.get_set, g1]
      have hex2 : ExInv E nodes ends { s1 with indeg := s1.indeg.set c 0 } := h.ex.of_states_eq g2 g3
      have hch : ({ s1 with indeg := s1.indeg.set c 0 } : TS E).states.has c = true := by
        show s1.states.has c = true
        rw [g2]
        have : s.states.fInDeg c = true := by
          simp only [countedB, Bool.and_eq_true] at c6; exact c6.1
        exact fInDeg_has this
      obtain ⟨m, hm, hP⟩ := processParents_spec E.g c (walkParents E c) s1.states hch
      have hm' : processParents E.g c (walkParents E c)
          ({ s1 with indeg := s1.indeg.set c 0 } : TS E).states = some m := hm
      rw [hm']
      dsimp only
      obtain ⟨p1, p2, p3, p4, p5, p6⟩ := hP.exinv ctx hex2 hch
      have hfr : ExFrame ({ s1 with indeg := s1.indeg.set c 0 } : TS E)
          { s1 with indeg := s1.indeg.set c 0, states := m } := ⟨rfl, rfl, rfl, rfl, rfl, rfl, p6⟩
      have hex3 : ExInv E nodes ends { s1 with indeg := s1.indeg.set c 0, states := m } :=
        { st_nodes := p1, st_u := p2, st_ends := p3, st_added := p4
          eq_key := hex2.eq_key
          eq_expl := fun e he => p6.fExplored e.2 (hex2.eq_expl e he)
          ex_done := fun x hx => by
            have hx' : s1.states.fExplored x = true := by
              have : m.fExplored x = true := hx
              rw [hP.fExplored] at this; exact this
            cases hex2.ex_done x hx' with
            | inl h' => exact Or.inl h'
            | inr h' => exact Or.inr (fun p hp => p6.fExplored p (h' p hp))
          phi_le := by
            have hu : unexplored nodes m = unexplored nodes s1.states := by
              unfold unexplored
              congr 1
              apply List.filter_congr
              intro x _
              rw [hP.fExplored]
            show _ + unexplored nodes m ≤ _
            rw [hu]; exact hex2.phi_le }
      have hdepth3 : Depth E { s1 with indeg := s1.indeg.set c 0, states := m } := by
        intro e he
        show e.1.1 < s1.minGen
        rw [g5]
        exact h.depth e (by rw [← g4]; exact he)
      have hq3 : QRel E { s1 with indeg := s1.indeg.set c 0, states := m } k1 := hq1.frame rfl rfl rfl
      obtain ⟨s3, hs3, hw3, hq4⟩ := expandParents_sim ctx o nfuel hn (walkParents E c)
        { s1 with indeg := s1.indeg.set c 0, states := m } k1 ⟨hex3, hemit.of_frame hfr, hdepth3⟩
        (fun p hp => ⟨p5 p hp, c1.step hp⟩) hq3
      rw [hs3]
      dsimp only
      rw [o.walk] at hq4
      apply ih s3 _ (out ++ [c]) hw3 hq4
      have hlen : (out ++ [c]).length ≤ nodes.length :=
        nodup_subset_length hw3.n.out_nodup (fun x hx => ctx.rch_nodes (hw3.n.out_inv x hx).1)
      simp only [List.length_append, List.length_cons, List.length_nil] at hlen ⊢
      omega

/-- queueing the tips -/
theorem queueTips_sim (ctx : TCtx E nodes tips ends) (o : OCtx E tips ends sel) :
    ∀ (ts : List Nat) (queued : NatSet) (done : List Nat) (s : TS E) (k : KQ),
      WInv E nodes tips ends s [] [] ts → (∀ x, queued.mem x = true ↔ x ∈ tqIds E s) →
      (∀ x, queued.mem x = true ↔ x ∈ done) → (∀ t, t ∈ ts → t ∈ tips) →
      (∀ t, t ∈ tips → s.minGen ≤ E.g.gen t) → QRel E s k →
      ∃ s', queueTips E ts queued s = some s' ∧ WInv E nodes tips ends s' [] [] [] ∧
        QRel E s' (kTips E.g sel nodes (dOrd E) ts done k) := by
  intro ts
  induction ts with
  | nil => intro queued done s k h _ _ _ _ hq; exact ⟨s, rfl, h, hq⟩
  | cons t ts ih =>
    intro queued done s k h hqd hdone hts hmg hq
    unfold queueTips kTips
    have httip : t ∈ tips := hts t List.mem_cons_self
    have hts' : ∀ t', t' ∈ ts → t' ∈ tips := fun t' ht' => hts t' (List.mem_cons_of_mem _ ht')
    have hflag : s.states.fInDeg t = true := h.n.starts_in t (List.mem_append_left _ httip)
    have hsome := h.n.in_deg t hflag
    have hrt : Rch E tips ends t := ⟨t, List.mem_append_left _ httip, Reach.refl t⟩
    cases hget : s.indeg.get t with
    | none => rw [hget] at hsome; cases hsome
    | some i =>
      dsimp only
      -- when is `t` a head?
      have hbridge : ∀ (_ : t ∉ ends), (i = 1) ↔ ready E.g sel nodes [] t = true := by
        intro hte
        have := deg_iff_ready ctx o h (hmg t httip) hrt hte (by simp) hget
        simpa using this
      by_cases hi : i ≠ 1
      · rw [if_pos hi]
        have hnr : ready E.g sel nodes [] t = false := by
          cases hr : ready E.g sel nodes [] t with
          | false => rfl
          | true =>
            exfalso
            have hsp : sel t = true := by simp only [ready, Bool.and_eq_true] at hr; exact hr.1
            have hnh := ((o.sel_iff t).mp hsp).2
            have hte : t ∉ ends := fun hte => hnh ⟨t, hte, Reach.refl t⟩
            exact hi ((hbridge hte).mpr hr)
        rw [hnr]
        simp only [Bool.false_and, Bool.false_eq_true, if_false]
        apply ih queued done s k ⟨h.ex, h.n.pend_drop (fun h1 => ?_), h.depth⟩ hqd hdone hts' hmg hq
        rw [hget] at h1
        simp only [Option.some.injEq] at h1
        exact absurd h1 hi
      · rw [if_neg hi]
        have hi1 : i = 1 := by
          apply Classical.byContradiction
          intro hne; exact hi hne
        subst hi1
        show ∃ s', (if (s.states.fU t || queued.mem t) = true then queueTips E ts queued s
            else queueTips E ts (queued.insert t) (tqPush E s (E.g.time t) t)) = some s' ∧ _
        by_cases hskip : (s.states.fU t || queued.mem t) = true
        · rw [if_pos hskip]
          simp only [Bool.or_eq_true] at hskip
          have hcond : (ready E.g sel nodes [] t && !done.contains t) = false := by
            cases hskip with
            | inl h' =>
              have hh := h.ex.st_u t h'
              have : sel t = false := by
                cases hs : sel t with
                | false => rfl
                | true => exact absurd hh ((o.sel_iff t).mp hs).2
              simp [ready, this]
            | inr h' =>
              have hdc : done.contains t = true := by simpa using (hdone t).mp h'
              rw [hdc]; simp
          rw [hcond]
          simp only [Bool.false_eq_true, if_false]
          apply ih queued done s k ⟨h.ex, h.n.pend_drop (fun _ => ?_), h.depth⟩ hqd hdone hts' hmg hq
          cases hskip with
          | inl h' => exact Or.inl (h.ex.st_u t h')
          | inr h' => exact Or.inr (Or.inl ((hqd t).mp h'))
        · rw [if_neg hskip]
          simp only [Bool.or_eq_true, not_or, Bool.not_eq_true] at hskip
          obtain ⟨hUf, hqf⟩ := hskip
          have htnq : t ∉ tqIds E s := fun hmem => by
            have := (hqd t).mpr hmem
            rw [hqf] at this; cases this
          have hte : t ∉ ends := fun hte => by
            have := h.ex.st_ends t hte
            rw [hUf] at this; cases this
          have hrdy : ready E.g sel nodes [] t = true := (hbridge hte).mp rfl
          have hnd : done.contains t = false := by
            cases hc : done.contains t with
            | false => rfl
            | true =>
              have := (hdone t).mpr (by simpa using hc)
              rw [hqf] at this; cases this
          rw [hrdy, hnd]
          simp only [Bool.not_false, Bool.and_self, if_true]
          have hcounted : ∀ x, Rch E tips ends x → E.g.gen t ≤ E.g.gen x → countedB E s x = true :=
            fun x hx hg => counted_of_depth ctx h.n h.depth hx (by have := hmg t httip; omega)
          have hnh : ¬ Hid E ends t := by
            have hsp : sel t = true := by simp only [ready, Bool.and_eq_true] at hrdy; exact hrdy.1
            exact ((o.sel_iff t).mp hsp).2
          have hpush := h.n.push ctx (E.g.time t) hrt hnh (by simp) hget
            (fun c' hc' hp' => hcounted c' hc' (ctx.gen_le_walk hp')) (hcounted t hrt (Nat.le_refl _)) htnq
          obtain ⟨f1, f2, f3, f4, f5⟩ := tqPush_frame (E := E) s (E.g.time t) t
          have hperm := tqIds_push ctx s (E.g.time t) t
          apply ih (queued.insert t) (t :: done) (tqPush E s (E.g.time t) t)
          · refine ⟨h.ex.of_states_eq f2 f3, hpush, ?_⟩
            intro e he
            rw [f4] at he
            rw [f5]
            exact h.depth e he
          · intro x
            rw [NatSet.mem_insert, hperm.mem_iff]
            simp only [Bool.or_eq_true, decide_eq_true_eq, List.mem_cons]
            rw [hqd x]
            constructor
            · intro hx; cases hx with
              | inl h' => exact Or.inr h'
              | inr h' => exact Or.inl h'
            · intro hx; cases hx with
              | inl h' => exact Or.inr h'
              | inr h' => exact Or.inl h'
          · intro x
            rw [NatSet.mem_insert]
            simp only [Bool.or_eq_true, decide_eq_true_eq, List.mem_cons]
            rw [hdone x]
            constructor
            · intro hx; cases hx with
              | inl h' => exact Or.inr h'
              | inr h' => exact Or.inl h'
            · intro hx; cases hx with
              | inl h' => exact Or.inr h'
              | inr h' => exact Or.inl h'
          · exact hts'
          · rw [f5]; exact hmg
          · exact hq.push ctx t

end

end GixModel.C47
