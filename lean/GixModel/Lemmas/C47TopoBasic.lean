import GixModel.Lemmas.C47Simple
/-
C47 — lemmas, part 2: the state and in-degree maps of the topo walk and what the small loops
(`process_parents`, the parent loops of the explore / in-degree steps) do to them.
-/
namespace GixModel.C47
open GixModel GixModel.CG GixModel.Spec.C47

/-! ### flags -/

theorem WalkFlags.or_idem (f p : WalkFlags) : (f.or p).or p = f.or p := by
  simp [WalkFlags.or]

theorem WalkFlags.or_empty (f : WalkFlags) : f.or {} = f := by
  simp [WalkFlags.or]

/-! ### the state map and its projections -/

def StateMap.has (m : StateMap) (x : Nat) : Bool := (m.get x).isSome

def StateMap.fU (m : StateMap) (x : Nat) : Bool :=
  match m.get x with
  | some st => st.uninteresting
  | none => false

def StateMap.fExplored (m : StateMap) (x : Nat) : Bool :=
  match m.get x with
  | some st => st.explored
  | none => false

def StateMap.fInDeg (m : StateMap) (x : Nat) : Bool :=
  match m.get x with
  | some st => st.inDegree
  | none => false

def StateMap.fAdded (m : StateMap) (x : Nat) : Bool :=
  match m.get x with
  | some st => st.added
  | none => false

theorem StateMap.get_set (m : StateMap) (i : Nat) (f : WalkFlags) (j : Nat) :
    (m.set i f).get j = if j = i then some f else m.get j := rfl

theorem StateMap.get_orInsert (m : StateMap) (i : Nat) (pass ins : WalkFlags) (j : Nat) :
    (m.orInsert i pass ins).get j
      = if j = i then some (match m.get i with
          | some f => f.or pass
          | none => ins) else m.get j := by
  unfold StateMap.orInsert
  cases h : m.get i with
  | none => simp [StateMap.get_set]
  | some f => simp [StateMap.get_set]

theorem orInsertAll_get (pass ins : WalkFlags) (hidem : ins.or pass = ins) :
    ∀ (xs : List Nat) (m : StateMap) (x : Nat),
      (orInsertAll pass ins xs m).get x
        = if x ∈ xs then some (match m.get x with
            | some f => f.or pass
            | none => ins) else m.get x := by
  intro xs
  induction xs with
  | nil => intro m x; simp [orInsertAll]
  | cons y ys ih =>
    intro m x
    unfold orInsertAll
    rw [ih, StateMap.get_orInsert]
    by_cases hxy : x = y
    · subst hxy
      simp only [if_true, List.mem_cons, true_or]
      by_cases hys : x ∈ ys
      · rw [if_pos hys]
        cases h : m.get x with
        | none => simp [hidem]
        | some f => simp [WalkFlags.or_idem]
      · rw [if_neg hys]
    · simp only [hxy, if_false, List.mem_cons, false_or]

/-- what `orInsertAll` does to the projections, for flags that only carry `seen`/`uninteresting` -/
structure PlainFlags (f : WalkFlags) : Prop where
  explored : f.explored = false
  inDegree : f.inDegree = false
  added : f.added = false

theorem plain_flagU : PlainFlags flagU := ⟨rfl, rfl, rfl⟩
theorem plain_flagUSeen : PlainFlags flagUSeen := ⟨rfl, rfl, rfl⟩
theorem plain_flagSeen : PlainFlags flagSeen := ⟨rfl, rfl, rfl⟩
theorem plain_empty : PlainFlags {} := ⟨rfl, rfl, rfl⟩

section orInsertAll
variable {pass ins : WalkFlags} (hidem : ins.or pass = ins) (hp : PlainFlags pass) (hi : PlainFlags ins)
include hidem

theorem orInsertAll_has (xs : List Nat) (m : StateMap) (x : Nat) :
    (orInsertAll pass ins xs m).has x = (m.has x || decide (x ∈ xs)) := by
  unfold StateMap.has
  rw [orInsertAll_get pass ins hidem]
  by_cases hx : x ∈ xs
  · simp [hx]
  · simp [hx]

include hp hi

theorem orInsertAll_fExplored (xs : List Nat) (m : StateMap) (x : Nat) :
    (orInsertAll pass ins xs m).fExplored x = m.fExplored x := by
  unfold StateMap.fExplored
  rw [orInsertAll_get pass ins hidem]
  by_cases hx : x ∈ xs
  · rw [if_pos hx]
    cases h : m.get x with
    | none => simp [hi.explored]
    | some f => simp [WalkFlags.or, hp.explored]
  · rw [if_neg hx]

theorem orInsertAll_fInDeg (xs : List Nat) (m : StateMap) (x : Nat) :
    (orInsertAll pass ins xs m).fInDeg x = m.fInDeg x := by
  unfold StateMap.fInDeg
  rw [orInsertAll_get pass ins hidem]
  by_cases hx : x ∈ xs
  · rw [if_pos hx]
    cases h : m.get x with
    | none => simp [hi.inDegree]
    | some f => simp [WalkFlags.or, hp.inDegree]
  · rw [if_neg hx]

theorem orInsertAll_fAdded (xs : List Nat) (m : StateMap) (x : Nat) :
    (orInsertAll pass ins xs m).fAdded x = m.fAdded x := by
  unfold StateMap.fAdded
  rw [orInsertAll_get pass ins hidem]
  by_cases hx : x ∈ xs
  · rw [if_pos hx]
    cases h : m.get x with
    | none => simp [hi.added]
    | some f => simp [WalkFlags.or, hp.added]
  · rw [if_neg hx]

end orInsertAll

theorem orInsertAll_fU_mark (ins : WalkFlags) (hidem : ins.or flagU = ins) (hiu : ins.uninteresting = true)
    (xs : List Nat) (m : StateMap) (x : Nat) :
    (orInsertAll flagU ins xs m).fU x = (m.fU x || decide (x ∈ xs)) := by
  unfold StateMap.fU
  rw [orInsertAll_get flagU ins hidem]
  by_cases hx : x ∈ xs
  · rw [if_pos hx]
    cases h : m.get x with
    | none => simp [hiu, hx]
    | some f => simp [WalkFlags.or, flagU, hx]
  · rw [if_neg hx]; simp [hx]

theorem orInsertAll_fU_seen (xs : List Nat) (m : StateMap) (x : Nat) :
    (orInsertAll {} flagSeen xs m).fU x = m.fU x := by
  unfold StateMap.fU
  rw [orInsertAll_get {} flagSeen rfl]
  by_cases hx : x ∈ xs
  · rw [if_pos hx]
    cases h : m.get x with
    | none => simp [flagSeen]
    | some f => simp [WalkFlags.or]
  · rw [if_neg hx]

/-! ### the in-degree map -/

theorem DegMap.get_set (m : DegMap) (i : Nat) (d : Int) (j : Nat) :
    (m.set i d).get j = if j = i then some d else m.get j := rfl

/-! ### `process_parents` -/

/-- Summary of `process_parents(c, parents)` on a state map in which `c` is registered. -/
structure Processed (g : Dag) (c : Nat) (parents : List Nat) (m m' : StateMap) : Prop where
  has : ∀ x, m'.has x = (m.has x || (!m.fAdded c && (decide (x ∈ parents) ||
            (m.fU c && decide (x ∈ parents.flatMap g.parents)))))
  fExplored : ∀ x, m'.fExplored x = m.fExplored x
  fInDeg : ∀ x, m'.fInDeg x = m.fInDeg x
  fAdded : ∀ x, m'.fAdded x = (m.fAdded x || decide (x = c))
  fU : ∀ x, m'.fU x = (m.fU x || (!m.fAdded c && m.fU c &&
            (decide (x ∈ parents) || decide (x ∈ parents.flatMap g.parents))))

theorem set_added_proj (m : StateMap) (c : Nat) (st : WalkFlags) (h : m.get c = some st) :
    (∀ x, (m.set c { st with added := true }).has x = m.has x) ∧
    (∀ x, (m.set c { st with added := true }).fExplored x = m.fExplored x) ∧
    (∀ x, (m.set c { st with added := true }).fInDeg x = m.fInDeg x) ∧
    (∀ x, (m.set c { st with added := true }).fU x = m.fU x) ∧
    (∀ x, (m.set c { st with added := true }).fAdded x = (m.fAdded x || decide (x = c))) := by
  refine ⟨?_, ?_, ?_, ?_, ?_⟩ <;> intro x <;> by_cases hx : x = c
  all_goals
    first
    | (subst hx
       simp [StateMap.has, StateMap.fExplored, StateMap.fInDeg, StateMap.fU, StateMap.fAdded,
         StateMap.get_set, h])
    | simp [StateMap.has, StateMap.fExplored, StateMap.fInDeg, StateMap.fU, StateMap.fAdded,
        StateMap.get_set, hx]

theorem processParents_spec (g : Dag) (c : Nat) (parents : List Nat) (m : StateMap) (hc : m.has c = true) :
    ∃ m', processParents g c parents m = some m' ∧ Processed g c parents m m' := by
  unfold processParents
  cases hget : m.get c with
  | none => simp [StateMap.has, hget] at hc
  | some st =>
    dsimp only
    have hAdded : m.fAdded c = st.added := by simp [StateMap.fAdded, hget]
    have hU : m.fU c = st.uninteresting := by simp [StateMap.fU, hget]
    by_cases hadd : st.added = true
    · rw [if_pos hadd]
      refine ⟨m, rfl, ?_⟩
      have hA : m.fAdded c = true := by rw [hAdded]; exact hadd
      refine ⟨?_, fun _ => rfl, fun _ => rfl, ?_, ?_⟩
      · intro x; simp [hA]
      · intro x
        by_cases hx : x = c
        · subst hx; simp [hA]
        · simp [hx]
      · intro x; simp [hA]
    · rw [if_neg hadd]
      have hA : m.fAdded c = false := by rw [hAdded]; simpa using hadd
      obtain ⟨s1, s2, s3, s4, s5⟩ := set_added_proj m c st hget
      by_cases hu : st.uninteresting = true
      · rw [if_pos hu]
        have hUc : m.fU c = true := by rw [hU]; exact hu
        refine ⟨_, rfl, ?_⟩
        unfold passToParents markGrandAll
        refine ⟨?_, ?_, ?_, ?_, ?_⟩
        · intro x
          rw [orInsertAll_has (pass := flagU) (ins := flagU) rfl,
            orInsertAll_has (pass := flagU) (ins := flagUSeen) rfl, s1]
          simp [hA, hUc]
          rw [Bool.or_assoc]
          congr 1
          exact Bool.or_comm _ _
        · intro x
          rw [orInsertAll_fExplored (pass := flagU) (ins := flagU) rfl plain_flagU plain_flagU,
            orInsertAll_fExplored (pass := flagU) (ins := flagUSeen) rfl plain_flagU plain_flagUSeen, s2]
        · intro x
          rw [orInsertAll_fInDeg (pass := flagU) (ins := flagU) rfl plain_flagU plain_flagU,
            orInsertAll_fInDeg (pass := flagU) (ins := flagUSeen) rfl plain_flagU plain_flagUSeen, s3]
        · intro x
          rw [orInsertAll_fAdded (pass := flagU) (ins := flagU) rfl plain_flagU plain_flagU,
            orInsertAll_fAdded (pass := flagU) (ins := flagUSeen) rfl plain_flagU plain_flagUSeen, s5]
        · intro x
          rw [orInsertAll_fU_mark flagU rfl rfl, orInsertAll_fU_mark flagUSeen rfl rfl, s4]
          simp [hA, hUc]
          rw [Bool.or_assoc]
          congr 1
          exact Bool.or_comm _ _
      · rw [if_neg hu]
        have hUc : m.fU c = false := by rw [hU]; simpa using hu
        refine ⟨_, rfl, ?_⟩
        unfold passToParents
        refine ⟨?_, ?_, ?_, ?_, ?_⟩
        · intro x
          rw [orInsertAll_has (pass := {}) (ins := flagSeen) rfl, s1]
          simp [hA, hUc]
        · intro x
          rw [orInsertAll_fExplored (pass := {}) (ins := flagSeen) rfl plain_empty plain_flagSeen, s2]
        · intro x
          rw [orInsertAll_fInDeg (pass := {}) (ins := flagSeen) rfl plain_empty plain_flagSeen, s3]
        · intro x
          rw [orInsertAll_fAdded (pass := {}) (ins := flagSeen) rfl plain_empty plain_flagSeen, s5]
        · intro x
          rw [orInsertAll_fU_seen, s4]
          simp [hA, hUc]

end GixModel.C47
