import GixModel.Lemmas.C24Untr
/-
C24 — `decode::all` over every extension git writes, and the file-level theorem with all of them.
-/
namespace GixModel.C24
open GixModel GixModel.Spec.C24

def optExt (sig : Bytes) : Option Bytes → List (Bytes × Bytes)
  | some p => [(sig, p)]
  | none => []

/-- every extension git writes between the offset table and the end-of-index entry, in git's order -/
def gitExtsAll (link : Option Link) (tree : Option Tree) (reuc : Option (List ReucPath)) (untr : Option UntrSpec)
    (fsmn : Option FsMonitor) (sparse : Bool) : List (Bytes × Bytes) :=
  optExt sigLink (link.map gitEncodeLink) ++ (optExt sigTREE (tree.map gitEncodeTree) ++
    (optExt sigREUC (reuc.map gitEncodeReuc) ++ (optExt sigUNTR (untr.map UntrSpec.encode) ++
      (optExt sigFSMN (fsmn.map gitEncodeFsmn) ++ (if sparse then [(sigSdir, [])] else [])))))

theorem extStep_link (acc : Exts) (p : Bytes) (l : Link) (h : linkDecode p = some l) :
    extStep acc sigLink p = .ok { acc with link := some l } := by
  simp [extStep, sigIEOT, sigREUC, sigTREE, sigUNTR, sigFSMN, sigEOIE, sigLink, h]

theorem extStep_untr (acc : Exts) (p : Bytes) (u : Option Untracked) (h : untrDecode p = .ok u) :
    extStep acc sigUNTR p = .ok { acc with untracked := u } := by
  simp [extStep, sigREUC, sigTREE, sigUNTR, h]

theorem extStep_fsmn (acc : Exts) (p : Bytes) (f : Option FsMonitor) (h : fsmnDecode p = .ok f) :
    extStep acc sigFSMN p = .ok { acc with fsmonitor := f } := by
  simp [extStep, sigREUC, sigTREE, sigUNTR, sigFSMN, h]

theorem extFold_cons_ok (acc acc' : Exts) (s p : Bytes) (rest : List (Bytes × Bytes))
    (h : extStep acc s p = .ok acc') : extFold acc ((s, p) :: rest) = extFold acc' rest := by
  simp only [extFold, h]

/-- what `decode::all` collects from all of git's extensions -/
def expectedAll (link : Option Link) (tree : Option Tree) (reuc : Option (List ReucPath)) (untr : Option UntrSpec)
    (fsmn : Option FsMonitor) (sparse recordIeot recordEoie : Bool) : Exts :=
  { link := link, tree := tree.map canonTree, reuc := reuc, untracked := untr.map UntrSpec.decoded,
    fsmonitor := fsmn, isSparse := sparse, offsetTable := recordIeot, endOfIndex := recordEoie }

def optP {α : Type} (o : Option α) (P : α → Prop) : Prop :=
  match o with
  | some x => P x
  | none => True

theorem extFold_all (sha1 : Bytes → Bytes) (version : Nat) (blocks : List (List Entry))
    (link : Option Link) (tree : Option Tree) (reuc : Option (List ReucPath)) (untr : Option UntrSpec)
    (fsmn : Option FsMonitor) (sparse recordIeot recordEoie : Bool)
    (hlink : optP link WfLink) (htree : optP tree fun t => WfTree t ∧ treeHeight t ≤ maxDepth)
    (hreuc : optP reuc fun ps => ∀ p ∈ ps, WfReucPath p) (huntr : optP untr UntrSpec.Ok) (hfsmn : optP fsmn WfFsmn) :
    extFold {} (indexExts sha1 version blocks recordIeot (gitExtsAll link tree reuc untr fsmn sparse) recordEoie) =
      .ok (expectedAll link tree reuc untr fsmn sparse recordIeot recordEoie) := by
  unfold indexExts gitExtsAll expectedAll
  -- offset table
  have s0 : ∀ (rest : List (Bytes × Bytes)) (acc : Exts),
      extFold acc ((if recordIeot then [(sigIEOT, ieotPayload (blockOffsets (version == 4) 12 [] blocks))] else []) ++ rest)
        = extFold { acc with offsetTable := acc.offsetTable || recordIeot } rest := by
    intro rest acc
    cases recordIeot with
    | false => simp
    | true => simp only [if_true, List.cons_append, List.nil_append, Bool.or_true]
              exact extFold_cons_ok _ _ _ _ _ (extStep_ieot acc _)
  have s1 : ∀ (rest : List (Bytes × Bytes)) (acc : Exts),
      extFold acc (optExt sigLink (link.map gitEncodeLink) ++ rest) = extFold { acc with link := link.or acc.link } rest := by
    intro rest acc
    cases link with
    | none => simp [optExt]
    | some l => exact extFold_cons_ok _ _ _ _ _ (extStep_link acc _ l (linkDecode_encoded l hlink))
  have s2 : ∀ (rest : List (Bytes × Bytes)) (acc : Exts),
      extFold acc (optExt sigTREE (tree.map gitEncodeTree) ++ rest)
        = extFold { acc with tree := (tree.map canonTree).or acc.tree } rest := by
    intro rest acc
    cases tree with
    | none => simp [optExt]
    | some t =>
      have := extStep_tree acc (gitEncodeTree t)
      rw [treeDecodeOpt_encoded t htree.1 htree.2] at this
      exact extFold_cons_ok _ _ _ _ _ this
  have s3 : ∀ (rest : List (Bytes × Bytes)) (acc : Exts),
      extFold acc (optExt sigREUC (reuc.map gitEncodeReuc) ++ rest) = extFold { acc with reuc := reuc.or acc.reuc } rest := by
    intro rest acc
    cases reuc with
    | none => simp [optExt]
    | some ps =>
      have := extStep_reuc acc (gitEncodeReuc ps)
      rw [reucDecode_encoded ps hreuc] at this
      exact extFold_cons_ok _ _ _ _ _ this
  have s4 : ∀ (rest : List (Bytes × Bytes)) (acc : Exts),
      extFold acc (optExt sigUNTR (untr.map UntrSpec.encode) ++ rest)
        = extFold { acc with untracked := (untr.map UntrSpec.decoded).or acc.untracked } rest := by
    intro rest acc
    cases untr with
    | none => simp [optExt]
    | some u => exact extFold_cons_ok _ _ _ _ _ (extStep_untr acc _ _ (untrDecode_encoded u huntr))
  have s5 : ∀ (rest : List (Bytes × Bytes)) (acc : Exts),
      extFold acc (optExt sigFSMN (fsmn.map gitEncodeFsmn) ++ rest) = extFold { acc with fsmonitor := fsmn.or acc.fsmonitor } rest := by
    intro rest acc
    cases fsmn with
    | none => simp [optExt]
    | some f => exact extFold_cons_ok _ _ _ _ _ (extStep_fsmn acc _ _ (fsmnDecode_encoded f hfsmn))
  have s6 : ∀ (rest : List (Bytes × Bytes)) (acc : Exts),
      extFold acc ((if sparse then [(sigSdir, [])] else []) ++ rest) = extFold { acc with isSparse := acc.isSparse || sparse } rest := by
    intro rest acc
    cases sparse with
    | false => simp
    | true => simp only [if_true, List.cons_append, List.nil_append, Bool.or_true]
              exact extFold_cons_ok _ _ _ _ _ (extStep_sdir acc)
  simp only [List.append_assoc]
  rw [s0, s1, s2, s3, s4, s5, s6]
  cases recordEoie with
  | false => simp [extFold]
  | true => simp [extFold, extStep_eoie]


theorem optExt_sigs (sig : Bytes) (o : Option Bytes) (h4 : sig.length = 4) (hne : sig ≠ sigIEOT) :
    ∀ sp ∈ optExt sig o, sp.1.length = 4 ∧ sp.1 ≠ sigIEOT := by
  intro sp hsp
  cases o with
  | none => simp [optExt] at hsp
  | some p => simp only [optExt, List.mem_cons, List.not_mem_nil, or_false] at hsp; rw [hsp]; exact ⟨h4, hne⟩

theorem gitExtsAll_sigs (link : Option Link) (tree : Option Tree) (reuc : Option (List ReucPath)) (untr : Option UntrSpec)
    (fsmn : Option FsMonitor) (sparse : Bool) :
    ∀ sp ∈ gitExtsAll link tree reuc untr fsmn sparse, sp.1.length = 4 ∧ sp.1 ≠ sigIEOT := by
  intro sp hsp
  simp only [gitExtsAll, List.mem_append] at hsp
  rcases hsp with h | h | h | h | h | h
  · exact optExt_sigs sigLink _ rfl (by simp only [sigLink, sigIEOT]; decide) sp h
  · exact optExt_sigs sigTREE _ rfl (by simp only [sigTREE, sigIEOT]; decide) sp h
  · exact optExt_sigs sigREUC _ rfl (by simp only [sigREUC, sigIEOT]; decide) sp h
  · exact optExt_sigs sigUNTR _ rfl (by simp only [sigUNTR, sigIEOT]; decide) sp h
  · exact optExt_sigs sigFSMN _ rfl (by simp only [sigFSMN, sigIEOT]; decide) sp h
  · cases sparse <;> simp at h
    rw [h]; exact ⟨rfl, by simp only [sigSdir, sigIEOT]; decide⟩

theorem fromBytes_all_exts (sha1 : Bytes → Bytes) (hsha : ∀ x, (sha1 x).length = 20) (version threads : Nat)
    (ht : 1 ≤ threads) (blocks : List (List Entry)) (recordIeot recordEoie sparse : Bool)
    (link : Option Link) (tree : Option Tree) (reuc : Option (List ReucPath)) (untr : Option UntrSpec)
    (fsmn : Option FsMonitor) (trailer : Bytes)
    (hv : version = 2 ∨ version = 3 ∨ version = 4)
    (hwf : ∀ b ∈ blocks, AllWf b) (hfit : ∀ b ∈ blocks, PathsFit b) (htr : trailer.length = hashLen)
    (hn : (blocks.map List.length).sum < 4294967296)
    (hlink : optP link WfLink) (htree : optP tree fun t => WfTree t ∧ treeHeight t ≤ maxDepth)
    (hreuc : optP reuc fun ps => ∀ p ∈ ps, WfReucPath p) (huntr : optP untr UntrSpec.Ok) (hfsmn : optP fsmn WfFsmn)
    (hsize : (gitEncodeIndex sha1 version blocks recordIeot (gitExtsAll link tree reuc untr fsmn sparse) recordEoie
      trailer).length < 4294967296)
    (hno : recordEoie = false → eoieDecode sha1 (gitEncodeIndex sha1 version blocks recordIeot
      (gitExtsAll link tree reuc untr fsmn sparse) recordEoie trailer) = none) :
    fromBytes sha1 threads (gitEncodeIndex sha1 version blocks recordIeot (gitExtsAll link tree reuc untr fsmn sparse)
        recordEoie trailer)
      = .ok version blocks.flatten (isSparseEntries blocks.flatten || sparse)
          (expectedAll link tree reuc untr fsmn sparse recordIeot recordEoie)
          (if isNull trailer then none else some trailer) := by
  rw [fromBytes_gitEncodeIndex sha1 hsha version threads ht blocks recordIeot _ recordEoie trailer hv hwf hfit htr hn
    (gitExtsAll_sigs link tree reuc untr fsmn sparse) hsize hno]
  unfold Layout.expected indexLayout
  simp only [extFold_all sha1 version blocks link tree reuc untr fsmn sparse recordIeot recordEoie hlink htree hreuc
    huntr hfsmn]
  simp only [finish, htr, ne_eq, not_true_eq_false, if_false, expectedAll]

end GixModel.C24
