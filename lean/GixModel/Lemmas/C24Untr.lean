import GixModel.Lemmas.C24Bitmap
/-
C24 — lemmas for the untracked-cache extension: the directory blocks git writes in pre-order decode
to the flattened directory list with the right sub-directory indices, and the assembled payload.
-/
namespace GixModel.C24
open GixModel GixModel.Spec.C24

def mkDir (name : Bytes) (untracked : List Bytes) (subDirs : List Nat) : UDir :=
  { name, untracked, subDirs, stat := none, excludeOid := none, checkOnly := false }

mutual
  /-- the directories of a node in pre-order, the node itself getting index `i` -/
  def flatNode (i : Nat) : UNode → List UDir
    | .mk name untracked children => mkDir name untracked (childIdx (i + 1) children) :: flatNodes (i + 1) children
  def flatNodes (i : Nat) : List UNode → List UDir
    | [] => []
    | c :: cs => flatNode i c ++ flatNodes (i + c.count) cs
  def childIdx (i : Nat) : List UNode → List Nat
    | [] => []
    | c :: cs => i :: childIdx (i + c.count) cs
end

mutual
  theorem flatNode_length (i : Nat) : ∀ (n : UNode), (flatNode i n).length = n.count
    | .mk name untracked children => by
      simp only [flatNode, List.length_cons, UNode.count, flatNodes_length (i + 1) children]; omega
  theorem flatNodes_length (i : Nat) : ∀ (ns : List UNode), (flatNodes i ns).length = UNode.counts ns
    | [] => by simp [flatNodes, UNode.counts]
    | c :: cs => by
      simp only [flatNodes, List.length_append, UNode.counts, flatNode_length i c, flatNodes_length (i + c.count) cs]
end

mutual
  def WfUNode : UNode → Prop
    | .mk name untracked children =>
      (∀ b ∈ name, b ≠ 0) ∧ (∀ u ∈ untracked, ∀ b ∈ u, b ≠ 0) ∧ untracked.length < 18446744073709551616 ∧
      children.length < 18446744073709551616 ∧ WfUNodes children
  def WfUNodes : List UNode → Prop
    | [] => True
    | c :: cs => WfUNode c ∧ WfUNodes cs
end

mutual
  def unodeCost : UNode → Nat
    | .mk _ _ cs => 1 + unodesCost cs
  def unodesCost : List UNode → Nat
    | [] => 1
    | c :: cs => 1 + max (unodeCost c) (unodesCost cs)
end

mutual
  def unodeHeight : UNode → Nat
    | .mk _ _ cs => unodesHeight cs
  def unodesHeight : List UNode → Nat
    | [] => 0
    | c :: cs => max (1 + unodeHeight c) (unodesHeight cs)
end

theorem splitNames_encoded : ∀ (us : List Bytes) (rest : Bytes), (∀ u ∈ us, ∀ b ∈ u, b ≠ 0) → 1 ≤ rest.length →
    splitNames us.length ((us.flatMap fun n => n ++ [0]) ++ rest) = some (us, rest) := by
  intro us
  induction us with
  | nil => intro rest _ _; rfl
  | cons u us ih =>
    intro rest h hr
    simp only [List.flatMap_cons, List.length_cons, List.append_assoc, splitNames, List.cons_append, List.nil_append]
    have hl2 : 2 ≤ (u ++ ((0 : UInt8) :: ((us.flatMap fun n => n ++ [0]) ++ rest))).length := by
      simp only [List.length_append, List.length_cons]; omega
    rw [splitAtByteExclusive_eq _ _ hl2, splitAtByte_append 0 _ _ (h u (by simp))]
    simp only [ih rest (fun x hx => h x (by simp [hx])) hr]

theorem names_length_le (us : List Bytes) : us.length ≤ (us.flatMap fun n => n ++ [0]).length := by
  induction us with
  | nil => simp
  | cons u us ih => simp only [List.flatMap_cons, List.length_cons, List.length_append, List.length_nil]; omega

theorem encodeVarint_length_pos (n : Nat) : 1 ≤ (encodeVarint n).length := by
  simp [encodeVarint]

mutual
  theorem unode_length_le : ∀ (n : UNode), 3 ≤ (gitEncodeUNode n).length
    | .mk name untracked children => by
      simp only [gitEncodeUNode, List.length_append, List.length_cons]
      have := encodeVarint_length_pos untracked.length
      have := encodeVarint_length_pos children.length
      omega
  theorem unodes_length_le : ∀ (ns : List UNode), ns.length ≤ (gitEncodeUNodes ns).length
    | [] => by simp [gitEncodeUNodes]
    | c :: cs => by
      have := unode_length_le c
      have := unodes_length_le cs
      simp only [gitEncodeUNodes, List.length_cons, List.length_append]; omega
end

theorem modify_middle (A B : List UDir) (p : UDir) (f : UDir → UDir) :
    (A ++ p :: B).modify A.length f = A ++ f p :: B := by
  induction A with
  | nil => simp [List.modify]
  | cons a A ih => simp only [List.cons_append, List.length_cons, List.modify_succ_cons, ih]


def addSub (k : Nat) (u : UDir) : UDir := { u with subDirs := u.subDirs ++ [k] }

theorem udirBlock_step (fuel depth nu nd : Nat) (data d1 d2 d3 d4 name : Bytes) (names : List Bytes) (dirs : List UDir)
    (h0 : ¬ (depth > maxDepth)) (h1 : varInt data = some (nu, d1)) (h2 : varInt d1 = some (nd, d2))
    (h3 : splitAtByteExclusive d2 0 = some (name, d3)) (hg : ¬ (nu > d3.length ∨ nd > d3.length))
    (h4 : splitNames nu d3 = some (names, d4)) :
    udirBlock (fuel + 1) depth data dirs =
      udirSubs fuel (depth + 1) nd dirs.length d4 (dirs ++ [mkDir name names []]) := by
  rw [udirBlock]
  simp only [h0, if_false, h1, h2, h3, hg, h4, mkDir]

theorem udirSubs_step (fuel depth n index : Nat) (data d : Bytes) (dirs dirs2 : List UDir)
    (hb : udirBlock fuel depth data dirs = some (d, dirs2)) :
    udirSubs (fuel + 1) depth (n + 1) index data dirs =
      udirSubs fuel depth n index d (dirs2.modify index (addSub dirs.length)) := by
  rw [udirSubs]
  simp only [hb]
  rfl

theorem udirSubs_zero (fuel depth index : Nat) (data : Bytes) (dirs : List UDir) :
    udirSubs (fuel + 1) depth 0 index data dirs = some (data, dirs) := by
  rw [udirSubs]

theorem gitEncodeUNode_eq (name : Bytes) (untracked : List Bytes) (children : List UNode) (rest : Bytes) :
    gitEncodeUNode (.mk name untracked children) ++ rest =
      encodeVarint untracked.length ++ (encodeVarint children.length ++ (name ++ (0 ::
        ((untracked.flatMap fun n => n ++ [0]) ++ (gitEncodeUNodes children ++ rest))))) := by
  simp only [gitEncodeUNode, List.append_assoc, List.cons_append]

mutual
  theorem udirBlock_encoded : ∀ (n : UNode), WfUNode n → ∀ (fuel depth : Nat) (rest : Bytes) (dirs : List UDir),
      unodeCost n ≤ fuel → depth + unodeHeight n ≤ maxDepth → 1 ≤ rest.length →
      udirBlock fuel depth (gitEncodeUNode n ++ rest) dirs = some (rest, dirs ++ flatNode dirs.length n)
    | .mk name untracked children, hwf, fuel, depth, rest, dirs, hfuel, hdepth, hrest => by
      simp only [WfUNode] at hwf
      obtain ⟨hname, hun, hul, hcl, hcs⟩ := hwf
      simp only [unodeCost] at hfuel
      simp only [unodeHeight] at hdepth
      cases fuel with
      | zero => omega
      | succ f =>
        have hsubs := udirSubs_encoded children hcs f (depth + 1) rest dirs (mkDir name untracked []) []
          (by omega) (by simpa using hdepth) hrest
        rw [gitEncodeUNode_eq]
        have hrest2 : 1 ≤ (gitEncodeUNodes children ++ rest).length := by
          simp only [List.length_append]; omega
        have hl2 : 2 ≤ (name ++ ((0 : UInt8) :: ((untracked.flatMap fun n => n ++ [0]) ++
            (gitEncodeUNodes children ++ rest)))).length := by
          simp only [List.length_append, List.length_cons] at hrest2 ⊢; omega
        rw [udirBlock_step f depth untracked.length children.length _ _ _ _ _ name untracked dirs
          (by omega) (varInt_encode _ hul _) (varInt_encode _ hcl _)
          (by rw [splitAtByteExclusive_eq _ _ hl2]; exact splitAtByte_append 0 _ _ hname)
          (by
            have h1 := names_length_le untracked
            have h2 := unodes_length_le children
            simp only [List.length_append]; omega)
          (splitNames_encoded untracked _ hun hrest2)]
        have : dirs ++ [mkDir name untracked []] = dirs ++ mkDir name untracked [] :: [] := rfl
        rw [this, hsubs]
        simp only [flatNode, List.nil_append, List.length_nil, Nat.add_zero, mkDir]
  theorem udirSubs_encoded : ∀ (cs : List UNode), WfUNodes cs → ∀ (fuel depth : Nat) (rest : Bytes)
      (A : List UDir) (p : UDir) (B : List UDir),
      unodesCost cs ≤ fuel → (depth - 1) + unodesHeight cs ≤ maxDepth → 1 ≤ rest.length →
      udirSubs fuel depth cs.length A.length (gitEncodeUNodes cs ++ rest) (A ++ p :: B) =
        some (rest, A ++ { p with subDirs := p.subDirs ++ childIdx (A.length + 1 + B.length) cs } ::
          (B ++ flatNodes (A.length + 1 + B.length) cs))
    | [], _, fuel, depth, rest, A, p, B, hfuel, _, _ => by
      simp only [unodesCost] at hfuel
      cases fuel with
      | zero => omega
      | succ f =>
        simp only [gitEncodeUNodes, List.length_nil, List.nil_append, udirSubs_zero, childIdx, flatNodes,
          List.append_nil]
    | c :: cs, hwf, fuel, depth, rest, A, p, B, hfuel, hdepth, hrest => by
      simp only [WfUNodes] at hwf
      simp only [unodesCost] at hfuel
      simp only [unodesHeight] at hdepth
      cases fuel with
      | zero => omega
      | succ f =>
        have hrest2 : 1 ≤ (gitEncodeUNodes cs ++ rest).length := by simp only [List.length_append]; omega
        have hb := udirBlock_encoded c hwf.1 f depth (gitEncodeUNodes cs ++ rest) (A ++ p :: B)
          (by omega) (by omega) hrest2
        have hlenD : (A ++ p :: B).length = A.length + 1 + B.length := by
          simp only [List.length_append, List.length_cons]; omega
        simp only [gitEncodeUNodes, List.length_cons, List.append_assoc]
        rw [udirSubs_step f depth cs.length A.length _ _ _ _ hb]
        have hmod : ((A ++ p :: B) ++ flatNode (A ++ p :: B).length c).modify A.length (addSub (A ++ p :: B).length)
            = A ++ addSub (A.length + 1 + B.length) p :: (B ++ flatNode (A.length + 1 + B.length) c) := by
          rw [hlenD, List.append_assoc, List.cons_append, modify_middle]
        rw [hmod]
        have hsub := udirSubs_encoded cs hwf.2 f depth rest A (addSub (A.length + 1 + B.length) p)
          (B ++ flatNode (A.length + 1 + B.length) c) (by omega) (by omega) hrest
        rw [hsub]
        simp only [List.length_append, flatNode_length, addSub, childIdx, flatNodes, List.append_assoc,
          List.cons_append, List.nil_append, Nat.add_assoc]
end

mutual
  theorem unodeCost_le : ∀ (n : UNode), unodeCost n + 1 ≤ (gitEncodeUNode n).length
    | .mk name untracked children => by
      have h := unodesCost_le children
      simp only [unodeCost, gitEncodeUNode, List.length_append, List.length_cons]
      have := encodeVarint_length_pos untracked.length
      have := encodeVarint_length_pos children.length
      omega
  theorem unodesCost_le : ∀ (ns : List UNode), unodesCost ns ≤ (gitEncodeUNodes ns).length + 1
    | [] => by simp [unodesCost, gitEncodeUNodes]
    | c :: cs => by
      have h1 := unodeCost_le c
      have h2 := unodesCost_le cs
      have h3 := unode_length_le c
      simp only [unodesCost, gitEncodeUNodes, List.length_append]
      omega
end

theorem getLast?_append_right (a b : Bytes) (x : UInt8) (h : b.getLast? = some x) : (a ++ b).getLast? = some x := by
  rw [List.getLast?_append, h]; rfl

theorem getLast?_cons_right (a : UInt8) (b : Bytes) (x : UInt8) (h : b.getLast? = some x) : (a :: b).getLast? = some x := by
  have := getLast?_append_right [a] b x h
  simpa using this

theorem flatMap_map_snd {α β : Type} (l : List (α × β)) (f : β → Bytes) :
    (l.map (·.2)).flatMap f = l.flatMap fun p => f p.2 := by
  induction l with
  | nil => rfl
  | cons x xs ih => simp only [List.map_cons, List.flatMap_cons, ih]

theorem oidStat_encoded (st : Stat) (oid rest : Bytes) (h : oid.length = hashLen) :
    oidStat st (oid ++ rest) = some ({ stat := st, id := oid }, rest) := by
  unfold oidStat
  rw [splitAtPos_of_length oid rest hashLen h]

/-- what the untracked cache git writes consists of -/
structure UntrSpec where
  ident : Bytes
  infoStat : Stat
  exclStat : Stat
  dirFlags : Nat
  infoOid : Bytes
  exclOid : Bytes
  perDir : Bytes
  root : UNode
  valid : Ewah
  checkOnly : Ewah
  hashValid : Ewah
  /-- (directory index, stat data) for the valid directories, in index order -/
  stats : List (Nat × Stat)
  /-- (directory index, exclude-file hash) for the hashed directories -/
  oids : List (Nat × Bytes)

def UntrSpec.encode (u : UntrSpec) : Bytes :=
  gitEncodeUntr (gitEncodeUntrHeader u.ident u.infoStat u.exclStat u.dirFlags u.infoOid u.exclOid u.perDir)
    (some u.root) u.valid u.checkOnly u.hashValid (u.stats.map (·.2)) (u.oids.map (·.2))

structure UntrSpec.Ok (u : UntrSpec) : Prop where
  ident : u.ident.length < 18446744073709551616
  infoStat : WfStat u.infoStat
  exclStat : WfStat u.exclStat
  dirFlags : u.dirFlags < 4294967296
  infoOid : u.infoOid.length = hashLen
  exclOid : u.exclOid.length = hashLen
  perDir : ∀ b ∈ u.perDir, b ≠ 0
  root : WfUNode u.root
  height : unodeHeight u.root ≤ maxDepth
  count : u.root.count < 18446744073709551616
  valid : WfEwah u.valid
  checkOnly : WfEwah u.checkOnly
  hashValid : WfEwah u.hashValid
  validBits : u.valid.numBits ≤ u.root.count
  checkBits : u.checkOnly.numBits ≤ u.root.count
  hashBits : u.hashValid.numBits ≤ u.root.count
  /-- the bitmaps name existing directories, and the stat/hash lists are the ones for their bits -/
  checkIdx : (∀ i ∈ (u.checkOnly.bits u.root.count).1, i < u.root.count) ∧ (u.checkOnly.bits u.root.count).2 ≠ .fail
  statIdx : u.stats.map (·.1) = (u.valid.bits u.root.count).1
  oidIdx : u.oids.map (·.1) = (u.hashValid.bits u.root.count).1
  stats : ∀ p ∈ u.stats, p.1 < u.root.count ∧ WfStat p.2
  oids : ∀ p ∈ u.oids, p.1 < u.root.count ∧ p.2.length = hashLen

/-- what gitoxide reports for it -/
def UntrSpec.decoded (u : UntrSpec) : Untracked :=
  untrResult u.ident { stat := u.infoStat, id := u.infoOid } { stat := u.exclStat, id := u.exclOid } u.perDir u.dirFlags
    (setOids (setStats (setCheckOnly (flatNode 0 u.root) (u.checkOnly.bits u.root.count).1) u.stats) u.oids)

theorem untrDecode_encoded (u : UntrSpec) (h : u.Ok) : untrDecode u.encode = .ok (some u.decoded) := by
  have hcount : (flatNode 0 u.root).length = u.root.count := flatNode_length 0 u.root
  have hpos : u.root.count ≠ 0 := by
    cases hr : u.root with
    | mk a b c => simp [UNode.count]
  -- the tail after the directory blocks
  let tail : Bytes := gitEncodeEwah u.valid ++ (gitEncodeEwah u.checkOnly ++ (gitEncodeEwah u.hashValid ++
    ((u.stats.map (·.2)).flatMap gitEncodeStat ++ ((u.oids.map (·.2)).flatMap id ++ [0]))))
  have htail : 1 ≤ tail.length := by
    simp only [tail, List.length_append, List.length_cons, List.length_nil]; omega
  have henc : u.encode = encodeVarint u.ident.length ++ (u.ident ++ (gitEncodeStat u.infoStat ++
      (gitEncodeStat u.exclStat ++ (be32 u.dirFlags ++ (u.infoOid ++ (u.exclOid ++ (u.perDir ++ ((0 : UInt8) ::
        (encodeVarint u.root.count ++ (gitEncodeUNode u.root ++ tail)))))))))) := by
    simp only [UntrSpec.encode, gitEncodeUntr, gitEncodeUntrHeader, tail, List.append_assoc, List.cons_append,
      List.nil_append]
  have hblock := udirBlock_encoded u.root h.root ((gitEncodeUNode u.root ++ tail).length + 2) 0 tail []
    (by have := unodeCost_le u.root; simp only [List.length_append]; omega) (by have := h.height; omega) htail
  simp only [List.nil_append, List.length_nil] at hblock
  have hco := untrSetCheckOnly_eq (u.checkOnly.bits u.root.count).1 (flatNode 0 u.root)
    (fun i hi => by rw [hcount]; exact h.checkIdx.1 i hi)
  have hl1 : (setCheckOnly (flatNode 0 u.root) (u.checkOnly.bits u.root.count).1).length = u.root.count := by
    rw [setCheckOnly_length, hcount]
  have hst := untrSetStats_eq u.stats (setCheckOnly (flatNode 0 u.root) (u.checkOnly.bits u.root.count).1)
    ((u.oids.map (·.2)).flatMap id ++ [0]) (fun p hp => by rw [hl1]; exact h.stats p hp)
  have hl2 : (setStats (setCheckOnly (flatNode 0 u.root) (u.checkOnly.bits u.root.count).1) u.stats).length
      = u.root.count := by rw [setStats_length, hl1]
  have hoid := untrSetOids_eq u.oids (setStats (setCheckOnly (flatNode 0 u.root) (u.checkOnly.bits u.root.count).1) u.stats)
    [0] (fun p hp => by rw [hl2]; exact h.oids p hp)
  have hl2' : 2 ≤ (u.perDir ++ ((0 : UInt8) :: (encodeVarint u.root.count ++ (gitEncodeUNode u.root ++ tail)))).length := by
    have := encodeVarint_length_pos u.root.count
    simp only [List.length_append, List.length_cons]; omega
  have htl : tail.getLast? = some 0 := by
    simp only [tail]
    apply getLast?_append_right; apply getLast?_append_right; apply getLast?_append_right
    apply getLast?_append_right; apply getLast?_append_right
    rfl
  rw [henc]
  apply untrDecode_root_of (ident := u.ident) (perDir := u.perDir) (identLen := u.ident.length)
    (dirFlags := u.dirFlags) (numBlocks := u.root.count) (infoStat := u.infoStat) (exclStat := u.exclStat)
    (io := { stat := u.infoStat, id := u.infoOid }) (eo := { stat := u.exclStat, id := u.exclOid })
    (dirs0 := flatNode 0 u.root)
    (dirs1 := setCheckOnly (flatNode 0 u.root) (u.checkOnly.bits u.root.count).1)
    (dirs2 := setStats (setCheckOnly (flatNode 0 u.root) (u.checkOnly.bits u.root.count).1) u.stats)
    (dirs3 := setOids (setStats (setCheckOnly (flatNode 0 u.root) (u.checkOnly.bits u.root.count).1) u.stats) u.oids)
    (valid := u.valid) (checkOnly := u.checkOnly) (hashValid := u.hashValid)
    (d10 := tail)
    (d13 := (u.stats.map (·.2)).flatMap gitEncodeStat ++ ((u.oids.map (·.2)).flatMap id ++ [0]))
    (d14 := (u.oids.map (·.2)).flatMap id ++ [0]) (d15 := [0])
  · -- last byte
    apply getLast?_append_right; apply getLast?_append_right; apply getLast?_append_right
    apply getLast?_append_right; apply getLast?_append_right; apply getLast?_append_right
    apply getLast?_append_right; apply getLast?_append_right; apply getLast?_cons_right
    apply getLast?_append_right; apply getLast?_append_right
    exact htl
  · exact varInt_encode _ h.ident _
  · exact splitAtPos_append _ _
  · exact extStat_encoded _ h.infoStat _
  · exact extStat_encoded _ h.exclStat _
  · exact readU32_be32 _ h.dirFlags _
  · exact oidStat_encoded _ _ _ h.infoOid
  · exact oidStat_encoded _ _ _ h.exclOid
  · rw [splitAtByteExclusive_eq _ _ hl2']; exact splitAtByte_append 0 _ _ h.perDir
  · exact varInt_encode _ h.count _
  · exact hpos
  · exact hblock
  · exact hcount
  · exact ewahDecode_encoded _ h.valid _
  · exact ewahDecode_encoded _ h.checkOnly _
  · exact ewahDecode_encoded _ h.hashValid _
  · exact h.validBits
  · exact h.checkBits
  · exact h.hashBits
  · rw [hcount]; exact hco
  · rw [hcount]; exact h.checkIdx.2
  · rw [hl1, ← h.statIdx, flatMap_map_snd]; exact hst
  · rw [hl2, ← h.oidIdx, flatMap_map_snd]
    have : (u.oids.flatMap fun p => id p.2) = u.oids.flatMap fun p => p.2 := rfl
    rw [this]; exact hoid
  · rfl

end GixModel.C24
