import GixModel.Lemmas.C09Total
import GixModel.Lemmas.C09Prefix
/-
C09 helper lemmas, part 14: `lookup_prefix` never panics on any table whose `oid_at_index` is
total below `num_objects` and whose fan-out stays within `num_objects` — sorted or not.
-/
namespace GixModel.C09
open GixModel

/-- `cmp_oid` is total on ids of the prefix' length -/
theorem cmpOid_total {p : Prefix} (hb : p.bytes.length = 20) (hh : p.hexLen ≤ 40) {cand : Bytes}
    (hc : cand.length = 20) : ∃ o, p.cmpOid cand = some o := by
  unfold Prefix.cmpOid
  simp only []
  have h1 : ¬ (p.bytes.length < p.hexLen / 2 ∨ cand.length < p.hexLen / 2) := by rw [hb, hc]; omega
  rw [if_neg h1]
  by_cases hodd : p.hexLen % 2 = 1
  · have hlt : p.hexLen / 2 < 20 := by omega
    have g1 : p.bytes[p.hexLen / 2]? = some (p.bytes[p.hexLen / 2]'(by rw [hb]; exact hlt)) :=
      List.getElem?_eq_getElem (by rw [hb]; exact hlt)
    have g2 : cand[p.hexLen / 2]? = some (cand[p.hexLen / 2]'(by rw [hc]; exact hlt)) :=
      List.getElem?_eq_getElem (by rw [hc]; exact hlt)
    simp only [hodd, if_true, g1, g2]
    cases cmpBytes (p.bytes.take (p.hexLen / 2)) (cand.take (p.hexLen / 2)) <;> exact ⟨_, rfl⟩
  · simp only [hodd, if_false]
    cases cmpBytes (p.bytes.take (p.hexLen / 2)) (cand.take (p.hexLen / 2)) <;> exact ⟨_, rfl⟩

/-- every entry below `n` can be read and compared -/
def Readable (c : Bytes → Option Ordering) (oidAt : Nat → Option Bytes) (n : Nat) : Prop :=
  ∀ i, i < n → ∃ m o, oidAt i = some m ∧ c m = some o

theorem bisect_total' {c : Bytes → Option Ordering} {oidAt : Nat → Option Bytes} {n : Nat}
    (hr : Readable c oidAt n) :
    ∀ (fuel lo hi : Nat), hi ≤ n → hi - lo ≤ fuel → hi < 2147483648 →
      ∃ r, bisect c oidAt fuel lo hi = some r ∧ ∀ mid, r = some mid → mid < hi := by
  intro fuel
  induction fuel with
  | zero =>
    intro lo hi _ hf _
    have : ¬ lo < hi := by omega
    exact ⟨none, by simp [bisect, this], by intro mid h; cases h⟩
  | succ fuel ih =>
    intro lo hi hn hf hhi
    by_cases hlt : lo < hi
    · have hsum : lo + hi < U32 := by simp only [U32]; omega
      have hmid : (lo + hi) / 2 < hi := by omega
      obtain ⟨m, o, hm, ho⟩ := hr _ (by omega : (lo + hi) / 2 < n)
      simp only [bisect, hlt, hsum, if_true, hm, ho]
      cases o with
      | lt =>
        obtain ⟨r, hr', hr2⟩ := ih lo ((lo + hi) / 2) (by omega) (by omega) (by omega)
        exact ⟨r, hr', fun mid h => by have := hr2 mid h; omega⟩
      | eq => exact ⟨_, rfl, fun mid h => by injection h with h; omega⟩
      | gt =>
        obtain ⟨r, hr', hr2⟩ := ih ((lo + hi) / 2 + 1) hi hn (by omega) hhi
        exact ⟨r, hr', hr2⟩
    · exact ⟨none, by simp [bisect, hlt], by intro mid h; cases h⟩

theorem scanDown_total {c : Bytes → Option Ordering} {oidAt : Nat → Option Bytes} {n : Nat}
    (hr : Readable c oidAt n) : ∀ m, m ≤ n → ∃ r, scanDown c oidAt m = some r := by
  intro m
  induction m with
  | zero => intro _; exact ⟨_, rfl⟩
  | succ k ih =>
    intro hk
    obtain ⟨x, o, hx, ho⟩ := hr k (by omega)
    obtain ⟨r, hr'⟩ := ih (by omega)
    simp only [scanDown, hx, ho]
    cases o with
    | eq => rw [hr']; cases r <;> exact ⟨_, rfl⟩
    | lt => exact ⟨_, rfl⟩
    | gt => exact ⟨_, rfl⟩

theorem scanUp_total {c : Bytes → Option Ordering} {oidAt : Nat → Option Bytes} {n : Nat}
    (hr : Readable c oidAt n) : ∀ f i, i + f ≤ n → ∃ r, scanUp c oidAt f i = some r := by
  intro f
  induction f with
  | zero => intro i _; exact ⟨_, rfl⟩
  | succ f ih =>
    intro i hi
    obtain ⟨x, o, hx, ho⟩ := hr i (by omega)
    obtain ⟨r, hr'⟩ := ih (i + 1) (by omega)
    simp only [scanUp, hx, ho]
    cases o with
    | eq => rw [hr']; cases r <;> exact ⟨_, rfl⟩
    | lt => exact ⟨_, rfl⟩
    | gt => exact ⟨_, rfl⟩

theorem isEqAt_total {c : Bytes → Option Ordering} {oidAt : Nat → Option Bytes} {n : Nat}
    (hr : Readable c oidAt n) {i : Nat} (hi : i < n) : ∃ b, isEqAt c oidAt i = some b := by
  obtain ⟨x, o, hx, ho⟩ := hr i hi
  simp only [isEqAt, hx, ho]
  exact ⟨_, rfl⟩

theorem prefixHit_total {c : Bytes → Option Ordering} {oidAt : Nat → Option Bytes} {n : Nat}
    (hr : Readable c oidAt n) {mid : Nat} (hm : mid < n) (withCand : Bool) :
    ∃ r, prefixHit c oidAt n mid withCand = some r := by
  unfold prefixHit
  cases withCand with
  | true =>
    obtain ⟨a, ha⟩ := scanDown_total hr mid (by omega)
    obtain ⟨b, hb⟩ := scanUp_total hr (n - (mid + 1)) (mid + 1) (by omega)
    simp only [if_true, ha, hb, Option.bind_eq_bind, Option.bind_some]
    exact ⟨_, rfl⟩
  | false =>
    simp only [Bool.false_eq_true, if_false]
    by_cases h1 : mid + 1 < n
    · obtain ⟨a, ha⟩ := isEqAt_total hr h1
      simp only [h1, if_true, ha, Option.bind_eq_bind, Option.bind_some]
      cases a with
      | true => exact ⟨_, rfl⟩
      | false =>
        simp only [Bool.false_eq_true, if_false]
        by_cases h0 : mid ≠ 0
        · obtain ⟨b, hb⟩ := isEqAt_total hr (show mid - 1 < n by omega)
          simp only [h0, ne_eq, not_false_eq_true, if_true, hb, Option.bind_some]
          cases b <;> exact ⟨_, rfl⟩
        · simp only [h0, if_false, Option.bind_some]
          exact ⟨_, rfl⟩
    · simp only [h1, if_false, Option.bind_eq_bind, Option.bind_some, Bool.false_eq_true]
      by_cases h0 : mid ≠ 0
      · obtain ⟨b, hb⟩ := isEqAt_total hr (show mid - 1 < n by omega)
        simp only [h0, ne_eq, not_false_eq_true, if_true, hb, Option.bind_some]
        cases b <;> exact ⟨_, rfl⟩
      · simp only [h0, if_false, Option.bind_some]
        exact ⟨_, rfl⟩

/-- `lookup_prefix` is total on any table with a 256-entry fan-out bounded by `n < 2^31` whose
entries below `n` are readable 20-byte ids — whatever their order. -/
theorem lookupPrefixWith_total {fan : List Nat} {oidAt : Nat → Option Bytes} {n : Nat}
    (hfl : fan.length = 256) (hfle : ∀ b (hb : b < 256), fan[b]'(by rw [hfl]; exact hb) ≤ n)
    (hat : ∀ i, i < n → ∃ m, oidAt i = some m ∧ m.length = 20) (hsmall : n < 2147483648)
    {p : Prefix} (hpb : p.bytes.length = 20) (hph : p.hexLen ≤ 40) (withCand : Bool) :
    ∃ r, lookupPrefixWith fan oidAt n p withCand = some r := by
  have hr : Readable p.cmpOid oidAt n := by
    intro i hi
    obtain ⟨m, hm, hl⟩ := hat i hi
    obtain ⟨o, ho⟩ := cmpOid_total hpb hph hl
    exact ⟨m, o, hm, ho⟩
  obtain ⟨b, t, hbt⟩ : ∃ b t, p.bytes = b :: t := by
    cases hp : p.bytes with
    | nil => rw [hp] at hpb; simp at hpb
    | cons b t => exact ⟨b, t, rfl⟩
  have hb : b.toNat < 256 := b.toNat_lt
  have hhi : fan[b.toNat]? = some (fan[b.toNat]'(by rw [hfl]; exact hb)) := List.getElem?_eq_getElem (by rw [hfl]; exact hb)
  have hlo : ∃ lo, fanBounds fan b.toNat = some (lo, fan[b.toNat]'(by rw [hfl]; exact hb)) := by
    unfold fanBounds
    by_cases h0 : b.toNat ≠ 0
    · have : fan[b.toNat - 1]? = some (fan[b.toNat - 1]'(by rw [hfl]; omega)) :=
        List.getElem?_eq_getElem (by rw [hfl]; omega)
      exact ⟨fan[b.toNat - 1]'(by rw [hfl]; omega),
        by simp only [hhi, h0, ne_eq, not_false_eq_true, if_true, this, Option.bind_eq_bind, Option.bind_some]⟩
    · exact ⟨0, by simp only [hhi, h0, if_false, Option.bind_eq_bind, Option.bind_some]⟩
  obtain ⟨lo, hlo⟩ := hlo
  have hhile := hfle b.toNat hb
  obtain ⟨r, hbis, hr2⟩ := bisect_total' hr (fan[b.toNat]'(by rw [hfl]; exact hb) - lo) lo _ hhile (Nat.le_refl _) (by omega)
  simp only [lookupPrefixWith, hbt, List.head?_cons, hlo, Option.bind_eq_bind, Option.bind_some, hbis]
  cases r with
  | none => exact ⟨_, rfl⟩
  | some mid =>
    have := hr2 mid rfl
    exact prefixHit_total hr (by omega) withCand

/-- the prefixes `Prefix::new` makes from 20-byte ids -/
theorem Prefix.new_shape {id : Bytes} {h : Nat} {p : Prefix} (hid : id.length = 20) (hp : Prefix.new id h = some p) :
    p.bytes.length = 20 ∧ p.hexLen ≤ 40 := by
  obtain ⟨hh, hle, _, _, _, _, hbl, _⟩ := Prefix.new_bytes hp
  exact ⟨by rw [hbl, hid], by rw [hh]; omega⟩

end GixModel.C09
