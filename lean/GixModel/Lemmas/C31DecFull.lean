import GixModel.Lemmas.C31Dec
/-
C31 round 2 — the ref-update decision on ALL situations: where exactly gitoxide and git differ.

`gitEffectX` extends the transcription of git to the situations `InDomain` excludes:
* an unborn remote ref is never mapped by `git fetch` (ls-refs' `unborn` line only serves clone):
  nothing happens to any destination;
* a mapping without destination only feeds FETCH_HEAD;
* a destination that is a dangling symbolic ref reads as the null id (`read_ref` fails), so
  `update_local_ref` treats it like a missing ref (and writes through the symref).
-/
namespace GixModel.C31
open GixModel
open GixModel.Spec.C31

/-- on the common domain this is `gitDecide` -/
theorem gitEffectX_inDomain (w : World) (s : Sit) (hd : InDomain s) : gitEffectX w s = (gitDecide w s).effect := by
  obtain ⟨hasDst, remoteUnborn, remoteId, newExists, implicitTag, localExists, localId, localUnborn,
    unbornSame, checkedOut, dstIsTag, force⟩ := s
  obtain ⟨h1, h2, h3, h4⟩ := hd
  simp only at h1 h2 h3 h4
  subst h1 h2 h3 h4
  simp [gitEffectX]

/-- an annotated tag object is involved, both sides peel to commits, the new commit does not descend
from the old one and the refspec has no `+`: git rejects, gitoxide (whose fast-forward check only
knows commits) stores -/
def TagObjectRejectedByGit (w : World) (s : Sit) : Prop :=
  (w.kind s.localId = .tag ∨ w.kind s.remoteId = .tag) ∧
    ∃ a b, w.peel s.localId = some a ∧ w.peel s.remoteId = some b ∧ w.anc a b = false ∧ s.force = false

/-- EXACTLY the situations in which the destination ends up different -/
def Deviates (w : World) (s : Sit) : Prop :=
  s.hasDst = true ∧
    (-- an unborn remote HEAD is reproduced locally (new symbolic ref / re-pointed dangling one); git ignores it
     (s.remoteUnborn = true ∧
        (s.localExists = false ∨ (s.checkedOut = false ∧ s.localUnborn = true ∧ s.unbornSameTarget = false))) ∨
     -- the object did not arrive: git dies, gitoxide rejects this one ref
     (s.remoteUnborn = false ∧ s.newExists = false) ∨
     -- the destination is a dangling symbolic ref: git stores (through it); gitoxide refuses if it is
     -- checked out and leaves it alone if it already names the remote's symbolic target
     (s.remoteUnborn = false ∧ s.newExists = true ∧ s.localExists = true ∧ s.localUnborn = true ∧
        (s.checkedOut = true ∨ s.unbornSameTarget = true)) ∨
     -- tag objects outside refs/tags
     (s.remoteUnborn = false ∧ s.newExists = true ∧ s.localExists = true ∧ s.localUnborn = false ∧
        s.checkedOut = false ∧ s.localId ≠ s.remoteId ∧ s.dstIsTag = false ∧ TagObjectRejectedByGit w s))

/-- the fast-forward part: destination exists, is born, not checked out, ids differ, not below refs/tags -/
theorem ff_part (w : World) (hw : w.Lawful) (localId remoteId : Nat) (force : Bool) (hne : localId ≠ remoteId)
    (s : Sit)
    (hs : s = { hasDst := true, remoteUnborn := false, remoteId := remoteId, newExists := true,
                implicitTag := s.implicitTag, localExists := true, localId := localId, localUnborn := false,
                unbornSameTarget := s.unbornSameTarget, checkedOut := false, dstIsTag := false, force := force }) :
    (gixDecide w s).effect = gitEffectX w s ↔ ¬ TagObjectRejectedByGit w s := by
  rw [hs]
  simp only [TagObjectRejectedByGit]
  cases hl : w.kind localId with
  | commit =>
    have hpl := hw.commit localId hl
    cases hr : w.kind remoteId with
    | commit =>
      have hpr := hw.commit remoteId hr
      cases ha : w.anc localId remoteId <;> cases force <;>
        simp [gixDecide, gitEffectX, gitDecide, hne, ffCheck, hl, hr, hpl, hpr, ha, Mode.effect, GitOutcome.effect]
    | other =>
      have hpr := hw.other remoteId hr
      simp [gixDecide, gitEffectX, gitDecide, hne, ffCheck, hl, hr, hpl, hpr, Mode.effect, GitOutcome.effect]
    | tag =>
      cases hpr : w.peel remoteId with
      | none => simp [gixDecide, gitEffectX, gitDecide, hne, ffCheck, hl, hr, hpl, hpr, Mode.effect, GitOutcome.effect]
      | some b =>
        cases ha : w.anc localId b <;> cases force <;>
          simp [gixDecide, gitEffectX, gitDecide, hne, ffCheck, hl, hr, hpl, hpr, ha, Mode.effect, GitOutcome.effect]
  | other =>
    have hpl := hw.other localId hl
    simp [gixDecide, gitEffectX, gitDecide, hne, ffCheck, hl, hpl, Mode.effect, GitOutcome.effect]
  | tag =>
    cases hpl : w.peel localId with
    | none => simp [gixDecide, gitEffectX, gitDecide, hne, ffCheck, hl, hpl, Mode.effect, GitOutcome.effect]
    | some a =>
      cases hpr : w.peel remoteId with
      | none => simp [gixDecide, gitEffectX, gitDecide, hne, ffCheck, hl, hpl, hpr, Mode.effect, GitOutcome.effect]
      | some b =>
        cases ha : w.anc a b <;> cases force <;>
          simp [gixDecide, gitEffectX, gitDecide, hne, ffCheck, hl, hpl, hpr, ha, Mode.effect, GitOutcome.effect]

/-- For every lawful object world and EVERY situation: the destination ends up the same under
gitoxide and git exactly when the situation is not one of the four listed deviations. -/
theorem effect_eq_iff (w : World) (hw : w.Lawful) (s : Sit) :
    (gixDecide w s).effect = gitEffectX w s ↔ ¬ Deviates w s := by
  obtain ⟨hasDst, remoteUnborn, remoteId, newExists, implicitTag, localExists, localId, localUnborn,
    unbornSame, checkedOut, dstIsTag, force⟩ := s
  cases hasDst
  · cases remoteUnborn <;> cases newExists <;> cases implicitTag <;>
      simp [gixDecide, gitEffectX, Deviates, Mode.effect]
  · cases remoteUnborn
    · cases newExists
      · cases implicitTag <;> simp [gixDecide, gitEffectX, gitDecide, Deviates, Mode.effect, GitOutcome.effect]
      · cases localExists
        · cases localUnborn <;> simp [gixDecide, gitEffectX, gitDecide, Deviates, Mode.effect, GitOutcome.effect]
        · cases localUnborn
          · cases checkedOut
            · by_cases hsame : localId = remoteId
              · simp [gixDecide, gitEffectX, gitDecide, Deviates, hsame, Mode.effect, GitOutcome.effect]
              · cases dstIsTag
                · have := ff_part w hw localId remoteId force hsame
                    { hasDst := true, remoteUnborn := false, remoteId := remoteId, newExists := true,
                      implicitTag := implicitTag, localExists := true, localId := localId, localUnborn := false,
                      unbornSameTarget := unbornSame, checkedOut := false, dstIsTag := false, force := force } rfl
                  rw [this]
                  simp [Deviates, hsame]
                · cases force <;>
                    simp [gixDecide, gitEffectX, gitDecide, Deviates, hsame, Mode.effect, GitOutcome.effect]
            · by_cases hsame : localId = remoteId <;>
                simp [gixDecide, gitEffectX, gitDecide, Deviates, hsame, Mode.effect, GitOutcome.effect]
          · cases checkedOut <;> cases unbornSame <;>
              simp [gixDecide, gitEffectX, gitDecide, Deviates, Mode.effect, GitOutcome.effect]
    · cases localExists
      · simp [gixDecide, gitEffectX, Deviates, Mode.effect]
      · cases checkedOut <;> cases localUnborn <;> cases unbornSame <;>
          simp [gixDecide, gitEffectX, Deviates, Mode.effect]

/-- the mode-level picture on the common domain: gitoxide's mode stands for git's outcome exactly
when no tag object is in play in the fast-forward part (there gitoxide always says `Forced`, git
says fast-forward / forced / rejected by the peeled commits) -/
def TagModeMismatch (w : World) (s : Sit) : Prop :=
  s.localExists = true ∧ s.checkedOut = false ∧ s.localId ≠ s.remoteId ∧ s.dstIsTag = false ∧
    (w.kind s.localId = .tag ∨ w.kind s.remoteId = .tag) ∧
    ∃ a b, w.peel s.localId = some a ∧ w.peel s.remoteId = some b ∧ (w.anc a b = true ∨ s.force = false)

theorem agrees_iff (w : World) (hw : w.Lawful) (s : Sit) (hd : InDomain s) :
    (gixDecide w s).agrees (gitDecide w s) = true ↔ ¬ TagModeMismatch w s := by
  obtain ⟨hasDst, remoteUnborn, remoteId, newExists, implicitTag, localExists, localId, localUnborn,
    unbornSame, checkedOut, dstIsTag, force⟩ := s
  obtain ⟨h1, h2, h3, h4⟩ := hd
  simp only at h1 h2 h3 h4
  subst h1 h2 h3 h4
  simp only [TagModeMismatch]
  cases localExists
  · simp [gixDecide, gitDecide, Mode.agrees]
  · cases checkedOut
    · by_cases hsame : localId = remoteId
      · simp [gixDecide, gitDecide, hsame, Mode.agrees]
      · cases dstIsTag
        · cases hl : w.kind localId with
          | commit =>
            have hpl := hw.commit localId hl
            cases hr : w.kind remoteId with
            | commit =>
              have hpr := hw.commit remoteId hr
              cases ha : w.anc localId remoteId <;> cases force <;>
                simp [gixDecide, gitDecide, hsame, ffCheck, hl, hr, hpl, hpr, ha, Mode.agrees]
            | other =>
              have hpr := hw.other remoteId hr
              simp [gixDecide, gitDecide, hsame, ffCheck, hl, hr, hpl, hpr, Mode.agrees]
            | tag =>
              cases hpr : w.peel remoteId with
              | none => simp [gixDecide, gitDecide, hsame, ffCheck, hl, hr, hpl, hpr, Mode.agrees]
              | some b =>
                cases ha : w.anc localId b <;> cases force <;>
                  simp [gixDecide, gitDecide, hsame, ffCheck, hl, hr, hpl, hpr, ha, Mode.agrees]
          | other =>
            have hpl := hw.other localId hl
            simp [gixDecide, gitDecide, hsame, ffCheck, hl, hpl, Mode.agrees]
          | tag =>
            cases hpl : w.peel localId with
            | none => simp [gixDecide, gitDecide, hsame, ffCheck, hl, hpl, Mode.agrees]
            | some a =>
              cases hpr : w.peel remoteId with
              | none => simp [gixDecide, gitDecide, hsame, ffCheck, hl, hpl, hpr, Mode.agrees]
              | some b =>
                cases ha : w.anc a b <;> cases force <;>
                  simp [gixDecide, gitDecide, hsame, ffCheck, hl, hpl, hpr, ha, Mode.agrees]
        · cases force <;> simp [gixDecide, gitDecide, hsame, Mode.agrees]
    · by_cases hsame : localId = remoteId <;> simp [gixDecide, gitDecide, hsame, Mode.agrees]

end GixModel.C31
