import GixModel.Lemmas.C56
/-
The stored-block codec the Lean drivers RUN (Model/C56.lean, `Stored`) satisfies the zlib contracts:
`CompressorOk Stored.compressor IsStoredNE` here, `DecompressorOk Stored.decompressor IsStoredNE` below.
-/
namespace GixModel.C56.Stored
open GixModel GixModel.C56

def encBlocks (blocks : List Bytes) : Bytes := blocks.flatMap fun b => blockHeader false b.length ++ b

def ValidBlocks (blocks : List Bytes) : Prop := ∀ b ∈ blocks, 1 ≤ b.length ∧ b.length ≤ 65535

theorem blockHeader_length (fin : Bool) (n : Nat) : (blockHeader fin n).length = 5 := rfl

theorem encBlocks_append (bs : List Bytes) (c : Bytes) :
    encBlocks (bs ++ [c]) = encBlocks bs ++ (blockHeader false c.length ++ c) := by
  simp [encBlocks, List.flatMap_append]

theorem encBlocks_length_le (blocks : List Bytes) (hv : ValidBlocks blocks) :
    (encBlocks blocks).length ≤ 6 * blocks.flatten.length := by
  induction blocks with
  | nil => simp [encBlocks]
  | cons b bs ih =>
    have hb := (hv b (by simp)).1
    have := ih (fun x hx => hv x (by simp [hx]))
    simp only [encBlocks, List.flatMap_cons, List.length_append, blockHeader_length, List.flatten_cons] at this ⊢
    omega

/-- a zlib stream made of non-empty stored blocks, a final empty stored block and the Adler-32 of the content -/
def IsStoredNE (z d : Bytes) : Prop :=
  ∃ blocks, ValidBlocks blocks ∧ blocks.flatten = d ∧
    z = [0x78, 0x01] ++ (encBlocks blocks ++ (blockHeader true 0 ++ adlerBytes (adler (1, 0) d)))

theorem adler_append (ab : Nat × Nat) (x y : Bytes) : adler (adler ab x) y = adler ab (x ++ y) := by
  simp [adler, List.foldl_append]

/-! ## the compressor -/

theorem buf_facts : 16 ≤ BUF_SIZE ∧ 1 ≤ min MAX_BLOCK (BUF_SIZE - 16) ∧ min MAX_BLOCK (BUF_SIZE - 16) + 16 ≤ BUF_SIZE ∧
    min MAX_BLOCK (BUF_SIZE - 16) ≤ 65535 := by decide

theorem compress_live {s : CState} {inp : Bytes} {cap : Nat} {fl : Flush} {r : Step CState} (hs : s.ended = false)
    (h : compressor.compress s inp cap fl = some r) : r = stepOf s inp cap fl := by
  simp only [compressor, compress, hs, Bool.false_eq_true, if_false] at h
  exact (Option.some.inj h).symm

def CInv (s : CState) (i o : Bytes) : Prop :=
  s.ended = false ∧ s.ad = adler (1, 0) i ∧ ∃ blocks, ValidBlocks blocks ∧ blocks.flatten = i ∧
    o = (if s.hdrDone then [0x78, 0x01] else []) ++ encBlocks blocks ∧ (s.hdrDone = false → blocks = [])

theorem takeN_le (inp : Bytes) : takeN inp BUF_SIZE ≤ inp.length ∧ takeN inp BUF_SIZE ≤ 65535 ∧ takeN inp BUF_SIZE + 16 ≤ BUF_SIZE := by
  obtain ⟨_, _, h3, h4⟩ := buf_facts
  simp only [takeN]
  omega

theorem takeN_pos (inp : Bytes) (h : inp ≠ []) : 0 < takeN inp BUF_SIZE := by
  obtain ⟨_, h2, _, _⟩ := buf_facts
  have : 0 < inp.length := by
    cases inp with
    | nil => exact absurd rfl h
    | cons _ _ => simp
  simp only [takeN]; omega

/-- the blocks and the produced bytes after one call -/
theorem step_algebra (s : CState) (i o inp : Bytes) (h : CInv s i o) :
    ∃ blocks', ValidBlocks blocks' ∧ blocks'.flatten = i ++ inp.take (takeN inp BUF_SIZE) ∧
      o ++ ((if s.hdrDone then [] else [0x78, 0x01]) ++
        (if takeN inp BUF_SIZE = 0 then [] else blockHeader false (takeN inp BUF_SIZE) ++ inp.take (takeN inp BUF_SIZE)))
        = [0x78, 0x01] ++ encBlocks blocks' := by
  obtain ⟨_, _, blocks, hv, hflat, ho, hnil⟩ := h
  obtain ⟨t1, t2, _⟩ := takeN_le inp
  have hcl : (inp.take (takeN inp BUF_SIZE)).length = takeN inp BUF_SIZE := by rw [List.length_take]; omega
  by_cases h0 : takeN inp BUF_SIZE = 0
  · refine ⟨blocks, hv, by rw [h0]; simpa using hflat, ?_⟩
    rw [ho]
    cases hh : s.hdrDone with
    | true => simp [h0]
    | false =>
      have := hnil hh
      subst this
      simp [h0, encBlocks]
  · refine ⟨blocks ++ [inp.take (takeN inp BUF_SIZE)], ?_, by simp [hflat], ?_⟩
    · intro b hb
      simp only [List.mem_append, List.mem_singleton] at hb
      rcases hb with hb | hb
      · exact hv b hb
      · subst hb; rw [hcl]; omega
    · rw [ho, encBlocks_append, hcl]
      cases hh : s.hdrDone with
      | true => simp [h0]
      | false =>
        have := hnil hh
        subst this
        simp [h0, encBlocks]

def compressorOk : CompressorOk compressor IsStoredNE where
  Inv := CInv
  rank := fun s n _ => n + (if s.hdrDone then 0 else 1)
  inv_init := ⟨rfl, rfl, [], by intro b hb; simp at hb, rfl, by simp [compressor, encBlocks], fun _ => rfl⟩
  total := by
    intro s i o inp fl h
    exact ⟨stepOf s inp BUF_SIZE fl, by simp [compressor, compress, h.1]⟩
  bounded := by
    intro s i o inp fl r h hr
    have := compress_live h.1 hr
    subst this
    obtain ⟨t1, t2, t3⟩ := takeN_le inp
    refine ⟨t1, ?_⟩
    simp only [stepOf, List.length_append]
    have a1 : (if s.hdrDone = true then ([] : Bytes) else [0x78, 0x01]).length ≤ 2 := by split <;> simp
    have a2 : (if takeN inp BUF_SIZE = 0 then ([] : Bytes) else blockHeader false (takeN inp BUF_SIZE) ++ inp.take (takeN inp BUF_SIZE)).length ≤ 5 + takeN inp BUF_SIZE := by
      split
      · simp
      · simp only [List.length_append, blockHeader_length, List.length_take]; omega
    have a3 : (if isFin inp BUF_SIZE fl = true then blockHeader true 0 ++ adlerBytes (adler s.ad (inp.take (takeN inp BUF_SIZE))) else ([] : Bytes)).length ≤ 9 := by
      split
      · simp [blockHeader_length, adlerBytes]
      · simp
    omega
  step := by
    intro s i o inp fl r h hr hne
    have := compress_live h.1 hr
    subst this
    have hf : isFin inp BUF_SIZE fl = false := by
      cases hfin : isFin inp BUF_SIZE fl with
      | false => rfl
      | true => simp [stepOf, hfin] at hne
    obtain ⟨blocks', hv', hflat', halg⟩ := step_algebra s i o inp h
    refine ⟨by simp [stepOf, hf], by simp only [stepOf]; rw [h.2.1, adler_append], blocks', hv', hflat', ?_, by simp [stepOf]⟩
    simp only [stepOf, hf, Bool.false_eq_true, if_false, List.append_nil, if_true]
    exact halg
  stream_end := by
    intro s i o inp fl r h hr he
    have := compress_live h.1 hr
    subst this
    have hf : isFin inp BUF_SIZE fl = true := by
      cases hfin : isFin inp BUF_SIZE fl with
      | true => rfl
      | false =>
        simp only [stepOf, hfin, Bool.false_eq_true, if_false] at he
        split at he <;> cases he
    have hfl : fl = .finish := by
      simp only [isFin, Bool.and_eq_true, decide_eq_true_eq] at hf
      exact hf.1.1
    obtain ⟨blocks', hv', hflat', halg⟩ := step_algebra s i o inp h
    refine ⟨hfl, blocks', hv', hflat', ?_⟩
    simp only [stepOf, hf, if_true]
    rw [← List.append_assoc o, halg, h.2.1, adler_append]
    simp [List.append_assoc]
  progress_none := by
    intro s i o inp r h hne hr
    have := compress_live h.1 hr
    subst this
    exact Or.inl (takeN_pos inp hne)
  progress_finish := by
    intro s i o inp r h hr
    have := compress_live h.1 hr
    subst this
    obtain ⟨b1, b2, _, _⟩ := buf_facts
    by_cases hall : takeN inp BUF_SIZE = inp.length
    · left; simp [stepOf, isFin, hall, b1]
    · right; left
      simp only [stepOf, takeN] at hall ⊢
      omega
  rank_decr := by
    intro s i o inp fl r h hr hne hprog
    have := compress_live h.1 hr
    subst this
    have hf : isFin inp BUF_SIZE fl = false := by
      cases hfin : isFin inp BUF_SIZE fl with
      | false => rfl
      | true => simp [stepOf, hfin] at hne
    obtain ⟨t1, _, _⟩ := takeN_le inp
    simp only [stepOf, hf, Bool.false_eq_true, if_false, List.append_nil, if_true, Nat.add_zero] at hprog ⊢
    by_cases h0 : takeN inp BUF_SIZE = 0
    · rcases hprog with hp | hp
      · omega
      · cases hh : s.hdrDone with
        | true => simp [hh, h0] at hp
        | false => simp [h0]
    · split <;> omega

end GixModel.C56.Stored
