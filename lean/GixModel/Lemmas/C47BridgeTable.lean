import GixModel.Lemmas.C47BridgeInit
/-
C47 — lemmas, part 17: the ancestor tables of `gitTopoOrder` (a depth-first search with fuel) hold
exactly the commits reachable from the given ones; hence `gitTopoOrder = gitTopoOrder2`.
-/
namespace GixModel.C47
open GixModel GixModel.CG GixModel.Spec.C47
open GixModel.C46 (filter_length_flip)

def tmarked (t : Array Bool) (x : Nat) : Prop := t[x]? = some true

/-- number of commits not yet marked -/
def tum (n : Nat) (t : Array Bool) : Nat := ((List.range n).filter (fun x => t[x]? == some false)).length

structure DInv (g : Dag) (n : Nat) (xs stack : List Nat) (t : Array Bool) : Prop where
  size : t.size = n
  sound : ∀ x, tmarked t x → ∃ r, r ∈ xs ∧ Reach g r x
  stk : ∀ c, c ∈ stack → c < n ∧ ∃ r, r ∈ xs ∧ Reach g r c
  roots : ∀ r, r ∈ xs → tmarked t r ∨ r ∈ stack
  closed : ∀ c, tmarked t c → ∀ p, p ∈ g.parents c → tmarked t p ∨ p ∈ stack

theorem tmarked_set {t : Array Bool} {c x : Nat} (hc : c < t.size) :
    tmarked (t.setIfInBounds c true) x ↔ (x = c ∨ tmarked t x) := by
  unfold tmarked
  rw [Array.getElem?_setIfInBounds]
  by_cases h : c = x
  · subst h
    rw [if_pos rfl, if_pos hc]
    simp
  · rw [if_neg h]
    constructor
    · intro h'; exact Or.inr h'
    · intro h'
      cases h' with
      | inl h'' => exact absurd h''.symm h
      | inr h'' => exact h''

theorem go_spec (g : Dag) (n : Nat) (xs : List Nat) (hcl : Closed g (List.range n))
    (hnd : ∀ c, (g.parents c).Nodup) :
    ∀ (fuel : Nat) (stack : List Nat) (t : Array Bool), DInv g n xs stack t →
      stack.length + tum n t * (n + 1) < fuel → DInv g n xs [] (ancestorsTable.go g fuel stack t) := by
  intro fuel
  induction fuel with
  | zero => intro stack t _ h; omega
  | succ fuel ih =>
    intro stack t hi hm
    cases stack with
    | nil => unfold ancestorsTable.go; exact hi
    | cons c stack =>
      obtain ⟨hcn, r0, hr0, hrc⟩ := hi.stk c List.mem_cons_self
      have hcs : c < t.size := by rw [hi.size]; exact hcn
      unfold ancestorsTable.go
      have hget : t[c]? = some t[c] := Array.getElem?_eq_getElem hcs
      cases hb : t[c] with
      | false =>
        rw [hb] at hget
        rw [hget]
        dsimp only
        apply ih
        · refine ⟨by rw [Array.size_setIfInBounds]; exact hi.size, ?_, ?_, ?_, ?_⟩
          · intro x hx
            cases (tmarked_set hcs).mp hx with
            | inl h => subst h; exact ⟨r0, hr0, hrc⟩
            | inr h => exact hi.sound x h
          · intro p hp
            cases List.mem_append.mp hp with
            | inl h =>
              have := hcl c (List.mem_range.mpr hcn) p h
              exact ⟨List.mem_range.mp this, r0, hr0, hrc.tail h⟩
            | inr h => exact hi.stk p (List.mem_cons_of_mem _ h)
          · intro r hr
            cases hi.roots r hr with
            | inl h => exact Or.inl ((tmarked_set hcs).mpr (Or.inr h))
            | inr h =>
              cases List.mem_cons.mp h with
              | inl h' => exact Or.inl ((tmarked_set hcs).mpr (Or.inl h'))
              | inr h' => exact Or.inr (List.mem_append_right _ h')
          · intro x hx p hp
            cases (tmarked_set hcs).mp hx with
            | inl h => subst h; exact Or.inr (List.mem_append_left _ hp)
            | inr h =>
              cases hi.closed x h p hp with
              | inl h' => exact Or.inl ((tmarked_set hcs).mpr (Or.inr h'))
              | inr h' =>
                cases List.mem_cons.mp h' with
                | inl h'' => exact Or.inl ((tmarked_set hcs).mpr (Or.inl h''))
                | inr h'' => exact Or.inr (List.mem_append_right _ h'')
        · have hlen : (g.parents c).length ≤ n := by
            have := nodup_subset_length (hnd c) (L := List.range n)
              (fun p hp => hcl c (List.mem_range.mpr hcn) p hp)
            simpa using this
          have hum : tum n (t.setIfInBounds c true) + 1 = tum n t := by
            unfold tum
            refine filter_length_flip (List.range n) List.nodup_range c (List.mem_range.mpr hcn) ?_ ?_ ?_
            · rw [hget]; rfl
            · rw [Array.getElem?_setIfInBounds, if_pos rfl, if_pos hcs]; rfl
            · intro x hx
              rw [Array.getElem?_setIfInBounds, if_neg (fun h => hx h.symm)]
          rw [← hum, Nat.succ_mul] at hm
          simp only [List.length_append, List.length_cons] at hm ⊢
          omega
      | true =>
        rw [hb] at hget
        rw [hget]
        dsimp only
        apply ih
        · refine ⟨hi.size, hi.sound, fun p hp => hi.stk p (List.mem_cons_of_mem _ hp), ?_, ?_⟩
          · intro r hr
            cases hi.roots r hr with
            | inl h => exact Or.inl h
            | inr h =>
              cases List.mem_cons.mp h with
              | inl h' => subst h'; exact Or.inl hget
              | inr h' => exact Or.inr h'
          · intro x hx p hp
            cases hi.closed x hx p hp with
            | inl h => exact Or.inl h
            | inr h =>
              cases List.mem_cons.mp h with
              | inl h' => subst h'; exact Or.inl hget
              | inr h' => exact Or.inr h'
        · simp only [List.length_cons] at hm
          omega

theorem ancestorsTable_spec (g : Dag) (n : Nat) (xs : List Nat) (hcl : Closed g (List.range n))
    (hnd : ∀ c, (g.parents c).Nodup) (hxs : ∀ t, t ∈ xs → t ∈ List.range n) (x : Nat) :
    tableHas (ancestorsTable g n xs) x = true ↔ ∃ r, r ∈ xs ∧ Reach g r x := by
  have h0 : DInv g n xs xs (Array.replicate n false) := by
    refine ⟨by simp, ?_, ?_, fun r hr => Or.inr hr, ?_⟩
    · intro y hy
      unfold tmarked at hy
      rw [Array.getElem?_replicate] at hy
      split at hy <;> cases hy
    · intro c hc
      exact ⟨List.mem_range.mp (hxs c hc), c, hc, Reach.refl c⟩
    · intro y hy
      unfold tmarked at hy
      rw [Array.getElem?_replicate] at hy
      split at hy <;> cases hy
  have hm : xs.length + tum n (Array.replicate n false) * (n + 1) < n * n + n + xs.length + 1 := by
    have h1 : tum n (Array.replicate n false) ≤ n := by
      unfold tum
      have := List.length_filter_le (fun x => (Array.replicate n false)[x]? == some false) (List.range n)
      simpa using this
    have h2 := Nat.mul_le_mul_right (n + 1) h1
    have h3 : n * (n + 1) = n * n + n := by rw [Nat.mul_succ]
    omega
  have hfin := go_spec g n xs hcl hnd _ xs _ h0 hm
  have htab : ∀ y, tableHas (ancestorsTable g n xs) y = true ↔ tmarked (ancestorsTable g n xs) y := by
    intro y
    unfold tableHas tmarked
    cases (ancestorsTable g n xs)[y]? with
    | none => simp
    | some b => simp
  rw [htab]
  constructor
  · exact hfin.sound x
  · intro ⟨r, hr, hreach⟩
    have hroot : tmarked (ancestorsTable g n xs) r := by
      cases hfin.roots r hr with
      | inl h => exact h
      | inr h => simp at h
    refine Reach.induction_tail (motive := fun y => tmarked (ancestorsTable g n xs) y) hroot ?_ hreach
    intro y p _ hy hp
    cases hfin.closed y hy p hp with
    | inl h => exact h
    | inr h => simp at h

/-- the two transcriptions of git's sort agree on every closed history -/
theorem gitTopoOrder_eq (g : Dag) (n : Nat) (tips hidden : List Nat) (d : Bool)
    (hcl : Closed g (List.range n)) (hnd : ∀ c, (g.parents c).Nodup)
    (htips : ∀ t, t ∈ tips → t ∈ List.range n) (hhid : ∀ t, t ∈ hidden → t ∈ List.range n) :
    gitTopoOrder g n tips hidden d = gitTopoOrder2 g n tips hidden d := by
  have hsel : (fun x => tableHas (ancestorsTable g n tips) x && !tableHas (ancestorsTable g n hidden) x)
      = selOf g n tips hidden := by
    funext x
    have h1 := ancestorsTable_spec g n tips hcl hnd htips x
    have h2 := ancestorsTable_spec g n hidden hcl hnd hhid x
    have h3 := selOf_spec hcl htips hhid x
    cases hs : selOf g n tips hidden x with
    | true =>
      obtain ⟨a, b⟩ := h3.mp hs
      have : tableHas (ancestorsTable g n hidden) x = false := by
        cases h : tableHas (ancestorsTable g n hidden) x with
        | false => rfl
        | true => exact absurd (h2.mp h) b
      simp only [h1.mpr a, this, Bool.not_false, Bool.and_self]
    | false =>
      cases ha : tableHas (ancestorsTable g n tips) x with
      | false => rfl
      | true =>
        cases hb : tableHas (ancestorsTable g n hidden) x with
        | true => rfl
        | false =>
          have : RevList g tips hidden x := by
            refine ⟨h1.mp ha, ?_⟩
            intro hh
            have := h2.mpr hh
            rw [hb] at this; cases this
          have := h3.mpr this
          rw [hs] at this; cases this
  unfold gitTopoOrder gitTopoOrder2
  dsimp only
  rw [hsel]
  apply gitCount_eq_gitKahn g n _ tips d ?_ hnd
  intro x hx
  obtain ⟨⟨t, ht, hr⟩, _⟩ := (selOf_spec hcl htips hhid x).mp hx
  exact List.mem_range.mp (hr.mem_closed hcl (htips t ht))

end GixModel.C47
