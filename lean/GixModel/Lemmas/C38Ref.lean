import GixModel.Spec.C38
/-
C38 — lemmas about the git-side recursion `fillOne` (fill_one + macroexpand_one):
it only ever prepends fresh names, is independent of its depth fuel once the fuel exceeds the number
of macros that are still unexpanded, and skips attributes that already have a value.
-/
namespace GixModel.Lemmas.C38
open GixModel GixModel.C38 GixModel.Spec.C38

/-- one iteration of `fill_one`'s loop -/
def step (mo : Bytes → Option (List Asg)) (f : Nat) (v : Vals) (a : Asg) : Vals :=
  if known v a.name then v
  else
    let v1 := (a.name, a.st) :: v
    match mo a.name with
    | some body => if a.st = St.set then fillOne mo f body v1 else v1
    | none => v1

theorem fillOne_zero (mo) (as : List Asg) (v : Vals) : fillOne mo 0 as v = v := rfl

theorem fillOne_succ (mo) (f : Nat) (as : List Asg) (v : Vals) :
    fillOne mo (f + 1) as v = as.reverse.foldl (step mo f) v := rfl

/-- `e` only mentions names that have no value in `v` -/
def Fresh (v e : Vals) : Prop := ∀ n, known v n = true → e.lookup n = none

theorem known_cons (v : Vals) (n m : Bytes) (s : St) :
    known ((m, s) :: v) n = (n == m || known v n) := by
  unfold known
  simp only [List.lookup_cons]
  by_cases h : n == m <;> simp [h]

theorem lookup_append_of_none {e v : Vals} {n : Bytes} (h : e.lookup n = none) :
    (e ++ v).lookup n = v.lookup n := by
  induction e with
  | nil => rfl
  | cons x e ih =>
    obtain ⟨m, s⟩ := x
    simp only [List.lookup_cons, List.cons_append] at *
    by_cases hm : n == m
    · simp [hm] at h
    · simp only [hm] at h ⊢
      exact ih h

theorem known_append (e v : Vals) (n : Bytes) : known v n = true → known (e ++ v) n = true := by
  intro h
  induction e with
  | nil => exact h
  | cons x e ih =>
    obtain ⟨m, s⟩ := x
    rw [List.cons_append, known_cons]
    simp [ih]

/-- `fillOne` only prepends, and what it prepends is fresh -/
theorem fillOne_ext (mo) : ∀ (f : Nat) (as : List Asg) (v : Vals),
    ∃ e, fillOne mo f as v = e ++ v ∧ Fresh v e := by
  intro f
  induction f with
  | zero => intro as v; exact ⟨[], rfl, fun _ _ => rfl⟩
  | succ f ih =>
    intro as v
    rw [fillOne_succ]
    generalize as.reverse = l
    induction l generalizing v with
    | nil => exact ⟨[], rfl, fun _ _ => rfl⟩
    | cons a l ihl =>
      simp only [List.foldl_cons]
      have hstep : ∃ e, step mo f v a = e ++ v ∧ Fresh v e := by
        unfold step
        by_cases hk : known v a.name = true
        · simp only [hk, if_true]; exact ⟨[], rfl, fun _ _ => rfl⟩
        · simp only [hk]
          have hfresh1 : Fresh v [(a.name, a.st)] := by
            intro n hn
            simp only [List.lookup_cons, List.lookup_nil]
            by_cases hna : n == a.name
            · have : n = a.name := by simpa using hna
              subst this; exact absurd hn hk
            · simp [hna]
          have hcons : ∃ e, ((a.name, a.st) :: v) = e ++ v ∧ Fresh v e := ⟨[(a.name, a.st)], rfl, hfresh1⟩
          cases hmo : mo a.name with
          | none => simpa using hcons
          | some body =>
            by_cases hs : a.st = St.set
            · simp only [hs, if_true]
              obtain ⟨e, he, hf⟩ := ih body ((a.name, St.set) :: v)
              refine ⟨e ++ [(a.name, St.set)], by simp [he], ?_⟩
              intro n hn
              have hn1 : known ((a.name, St.set) :: v) n = true := by rw [known_cons]; simp [hn]
              have h1 := hf n hn1
              rw [lookup_append_of_none h1]
              have := hfresh1 n hn
              simpa [hs] using this
            · simpa [hs] using hcons
      obtain ⟨e1, he1, hf1⟩ := hstep
      obtain ⟨e2, he2, hf2⟩ := ihl (step mo f v a)
      refine ⟨e2 ++ e1, by rw [he2, he1, List.append_assoc], ?_⟩
      intro n hn
      have hn' : known (step mo f v a) n = true := by rw [he1]; exact known_append _ _ _ hn
      rw [lookup_append_of_none (hf2 n hn')]
      exact hf1 n hn

theorem step_ext (mo) (f : Nat) (v : Vals) (a : Asg) : ∃ e, step mo f v a = e ++ v ∧ Fresh v e := by
  have := fillOne_ext mo (f + 1) [a] v
  simpa [fillOne_succ] using this

theorem known_step (mo) (f : Nat) (v : Vals) (a : Asg) (n : Bytes) :
    known v n = true → known (step mo f v a) n = true := by
  intro h
  obtain ⟨e, he, _⟩ := step_ext mo f v a
  rw [he]; exact known_append _ _ _ h

theorem foldl_step_ext (mo) (f : Nat) (l : List Asg) (v : Vals) :
    ∃ e, l.foldl (step mo f) v = e ++ v ∧ Fresh v e := by
  have := fillOne_ext mo (f + 1) l.reverse v
  simpa [fillOne_succ] using this

theorem known_foldl_step (mo) (f : Nat) (l : List Asg) (v : Vals) (n : Bytes) :
    known v n = true → known (l.foldl (step mo f) v) n = true := by
  intro h
  obtain ⟨e, he, _⟩ := foldl_step_ext mo f l v
  rw [he]; exact known_append _ _ _ h

/-- attributes that already have a value are skipped -/
theorem step_known (mo) (f : Nat) (v : Vals) (a : Asg) (h : known v a.name = true) : step mo f v a = v := by
  simp [step, h]

/-- dropping, from a work list, the attributes that had a value at some earlier point changes nothing -/
theorem foldl_filter_known (mo) (f : Nat) (v0 : Vals) : ∀ (l : List Asg) (v : Vals),
    (∀ n, known v0 n = true → known v n = true) →
    (l.filter fun a => !known v0 a.name).foldl (step mo f) v = l.foldl (step mo f) v := by
  intro l
  induction l with
  | nil => intros; rfl
  | cons a l ih =>
    intro v hv
    by_cases hk : known v0 a.name = true
    · have : (List.filter (fun a => !known v0 a.name) (a :: l)) = List.filter (fun a => !known v0 a.name) l := by
        simp [hk]
      rw [this, List.foldl_cons, step_known mo f v a (hv _ hk)]
      exact ih v hv
    · have : (List.filter (fun a => !known v0 a.name) (a :: l)) = a :: List.filter (fun a => !known v0 a.name) l := by
        simp [hk]
      rw [this, List.foldl_cons, List.foldl_cons]
      exact ih _ (fun n hn => known_step mo f v a n (hv n hn))

theorem foldl_all_known (mo) (f : Nat) : ∀ (l : List Asg) (v : Vals),
    (∀ a ∈ l, known v a.name = true) → l.foldl (step mo f) v = v := by
  intro l
  induction l with
  | nil => intros; rfl
  | cons a l ih =>
    intro v h
    rw [List.foldl_cons, step_known mo f v a (h a (by simp))]
    exact ih v (fun b hb => h b (by simp [hb]))


/-! ### fresh extensions -/

/-- `r` is `v` with values for further, so far unknown, names put in front -/
def Ext (v r : Vals) : Prop := ∃ e, r = e ++ v ∧ Fresh v e

theorem Ext.refl (v : Vals) : Ext v v := ⟨[], rfl, fun _ _ => rfl⟩

theorem Ext.mono {v r : Vals} (h : Ext v r) (n : Bytes) : known v n = true → known r n = true := by
  obtain ⟨e, he, _⟩ := h
  intro hk; rw [he]; exact known_append _ _ _ hk

theorem lookup_append_none {e1 e2 : Vals} {n : Bytes} (h1 : e1.lookup n = none) (h2 : e2.lookup n = none) :
    (e1 ++ e2).lookup n = none := by
  rw [lookup_append_of_none h1]; exact h2

theorem Ext.trans {v r s : Vals} (h1 : Ext v r) (h2 : Ext r s) : Ext v s := by
  obtain ⟨e1, he1, hf1⟩ := h1
  obtain ⟨e2, he2, hf2⟩ := h2
  refine ⟨e2 ++ e1, by rw [he2, he1, List.append_assoc], ?_⟩
  intro n hn
  have hr : known r n = true := by rw [he1]; exact known_append _ _ _ hn
  exact lookup_append_none (hf2 n hr) (hf1 n hn)

/-- a name that already has a value keeps it -/
theorem Ext.lookup_eq {v r : Vals} (h : Ext v r) (n : Bytes) (hk : known v n = true) : r.lookup n = v.lookup n := by
  obtain ⟨e, he, hf⟩ := h
  rw [he]; exact lookup_append_of_none (hf n hk)

theorem ext_fillOne (mo) (f : Nat) (as : List Asg) (v : Vals) : Ext v (fillOne mo f as v) := fillOne_ext mo f as v

theorem ext_step (mo) (f : Nat) (v : Vals) (a : Asg) : Ext v (step mo f v a) := step_ext mo f v a

theorem ext_foldl_step (mo) (f : Nat) (l : List Asg) (v : Vals) : Ext v (l.foldl (step mo f) v) :=
  foldl_step_ext mo f l v

theorem ext_cons (v : Vals) (n : Bytes) (s : St) (h : ¬ known v n = true) : Ext v ((n, s) :: v) := by
  refine ⟨[(n, s)], rfl, ?_⟩
  intro m hm
  simp only [List.lookup_cons, List.lookup_nil]
  by_cases hmn : m == n
  · have : m = n := by simpa using hmn
    subst this; exact absurd hm h
  · simp [hmn]

/-! ### independence of the depth fuel -/

/-- number of macro names (with multiplicity) that have no value yet -/
def psi (mnames : List Bytes) (v : Vals) : Nat := (mnames.filter fun n => !known v n).length

theorem psi_mono (mnames : List Bytes) (v w : Vals) (h : ∀ n, known v n = true → known w n = true) :
    psi mnames w ≤ psi mnames v := by
  unfold psi
  induction mnames with
  | nil => simp
  | cons m ms ih =>
    simp only [List.filter_cons]
    by_cases hw : known w m = true
    · by_cases hv : known v m = true
      · simp [hw, hv]; exact ih
      · simp [hw, hv]; omega
    · have hv : ¬ known v m = true := fun hv => hw (h m hv)
      simp [hw, hv]; exact ih

theorem psi_cons_lt (mnames : List Bytes) (v : Vals) (m : Bytes) (s : St)
    (hm : m ∈ mnames) (hk : ¬ known v m = true) : psi mnames ((m, s) :: v) < psi mnames v := by
  unfold psi
  induction mnames with
  | nil => simp at hm
  | cons x xs ih =>
    have hle := psi_mono xs v ((m, s) :: v) (fun n hn => by rw [known_cons]; simp [hn])
    unfold psi at hle
    simp only [List.filter_cons]
    by_cases hx : x = m
    · subst hx
      have h1 : known ((x, s) :: v) x = true := by rw [known_cons]; simp
      have h2 : known v x = false := by simpa using hk
      simp only [h1, h2, Bool.not_true, Bool.not_false, if_true, Bool.false_eq_true, if_false, List.length_cons]
      omega
    · have hmem : m ∈ xs := by
        cases hm with
        | head => exact absurd rfl hx
        | tail _ h => exact h
      have := ih hmem
      have hxm : known ((m, s) :: v) x = known v x := by
        rw [known_cons]
        have : (x == m) = false := by simpa using hx
        simp [this]
      rw [hxm]
      by_cases hkx : known v x = true
      · simp only [hkx, Bool.not_true, Bool.false_eq_true, if_false]; exact this
      · have hkx' : known v x = false := by simpa using hkx
        simp only [hkx', Bool.not_false, if_true, List.length_cons]; omega

/-- `fillOne`'s result does not depend on the fuel once it exceeds the number of unexpanded macros -/
theorem fillOne_fuel (mo) (mnames : List Bytes) (hmn : ∀ n b, mo n = some b → n ∈ mnames) :
    ∀ (d1 d2 : Nat) (as : List Asg) (v : Vals), psi mnames v < d1 → psi mnames v < d2 →
      fillOne mo d1 as v = fillOne mo d2 as v := by
  intro d1
  induction d1 with
  | zero => intro d2 as v h; omega
  | succ d1 ih =>
    intro d2 as v h1 h2
    cases d2 with
    | zero => omega
    | succ d2 =>
      rw [fillOne_succ, fillOne_succ]
      generalize as.reverse = l
      induction l generalizing v with
      | nil => rfl
      | cons a l ihl =>
        simp only [List.foldl_cons]
        have hst : step mo d1 v a = step mo d2 v a := by
          unfold step
          by_cases hk : known v a.name = true
          · simp [hk]
          · simp only [hk]
            cases hmo : mo a.name with
            | none => rfl
            | some body =>
              by_cases hs : a.st = St.set
              · simp only [hs, if_true]
                have hlt := psi_cons_lt mnames v a.name St.set (hmn _ _ hmo) hk
                exact ih d2 body _ (by omega) (by omega)
              · simp [hs]
        rw [hst]
        have hle := psi_mono mnames v (step mo d2 v a) (fun n hn => known_step mo d2 v a n hn)
        exact ihl _ (by omega) (by omega)

end GixModel.Lemmas.C38
